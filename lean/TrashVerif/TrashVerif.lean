-- This module serves as the root of the `TrashVerif` library.
-- Import modules here that should be built as part of the library.
import TrashVerif.Basic
