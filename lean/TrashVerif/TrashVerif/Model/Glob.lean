/-
  Model/Glob.lean — model of fnmatch.translate / fnmatch.fnmatchcase (CPython 3.12.1) as used by
  trashcli/rm/filter.py, over code points (`?` matches one code point).
-/
import TrashVerif.Model.PathStr
import TrashVerif.Model.Codec
namespace TrashVerif

abbrev Cps := List Nat   -- code points

/-- UTF-8 with surrogateescape: what `os.fsdecode` / argv decoding produce -/
def decodeSE : Bytes → Cps
  | [] => []
  | c :: rest =>
    let n := c.toNat
    if n < 0x80 then n :: decodeSE rest
    else
      -- (a thunk: the compiled driver must not evaluate both continuations, that is exponential in the number of
      --  multi-byte characters)
      let esc : Unit → Cps := fun _ => (0xDC00 + n) :: decodeSE rest
      if 0xC2 ≤ n ∧ n ≤ 0xDF then
        match rest with
        | c1 :: r => if isCont c1 then ((n - 0xC0) * 64 + (c1.toNat - 0x80)) :: decodeSE r else esc ()
        | _ => esc ()
      else if 0xE0 ≤ n ∧ n ≤ 0xEF then
        match rest with
        | c1 :: c2 :: r =>
          let n1 := c1.toNat
          let lo := if n = 0xE0 then 0xA0 else 0x80
          let hi := if n = 0xED then 0x9F else 0xBF
          if lo ≤ n1 ∧ n1 ≤ hi ∧ isCont c2 then
            ((n - 0xE0) * 4096 + (n1 - 0x80) * 64 + (c2.toNat - 0x80)) :: decodeSE r
          else esc ()
        | _ => esc ()
      else if 0xF0 ≤ n ∧ n ≤ 0xF4 then
        match rest with
        | c1 :: c2 :: c3 :: r =>
          let n1 := c1.toNat
          let lo := if n = 0xF0 then 0x90 else 0x80
          let hi := if n = 0xF4 then 0x8F else 0xBF
          if lo ≤ n1 ∧ n1 ≤ hi ∧ isCont c2 ∧ isCont c3 then
            ((n - 0xF0) * 262144 + (n1 - 0x80) * 4096 + (c2.toNat - 0x80) * 64 + (c3.toNat - 0x80)) :: decodeSE r
          else esc ()
        | _ => esc ()
      else esc ()
termination_by s => s.length
decreasing_by all_goals (simp_all; try omega)

inductive GItem where
  | star
  | any
  | lit (c : Nat)
  | cls (neg : Bool) (singles : List Nat) (ranges : List (Nat × Nat))
  | never
deriving DecidableEq, Repr

namespace Glob

abbrev cBang : Nat := 33
abbrev cHyphen : Nat := 45
abbrev cLBr : Nat := 91
abbrev cRBr : Nat := 93
abbrev cStar : Nat := 42
abbrev cQ : Nat := 63

/-- index of the first `x` at position ≥ `from` -/
def findFrom (x : Nat) (l : Cps) (start : Nat) : Option Nat :=
  match (l.drop start).idxOf? x with
  | some i => some (start + i)
  | none => none

/-- the `while True: k = pat.find('-', k, j) …` loop of `translate`, on `stuff = pat[i:j]`;
    `i0` = start of the current chunk, `k` = where to search from; fuel = |stuff| -/
def chunkLoop (stuff : Cps) : Nat → Nat → Nat → List Cps → List Cps × Nat
  | 0, i0, _, acc => (acc, i0)
  | fuel+1, i0, k, acc =>
    match findFrom cHyphen stuff k with
    | none => (acc, i0)
    | some kk => chunkLoop stuff fuel (kk + 1) (kk + 3) (acc ++ [(stuff.drop i0).take (kk - i0)])

/-- "Remove empty ranges": for k from len-1 down to 1 merge when `chunks[k-1][-1] > chunks[k][0]` -/
def removeEmpty : Nat → List Cps → List Cps
  | 0, cs => cs
  | k+1, cs =>
    -- position k+1 (1-based from the loop `for k in range(len-1, 0, -1)`)
    match cs[k]?, cs[k+1]? with
    | some a, some c =>
      match a.getLast?, c.head? with
      | some x, some y =>
        if x > y then removeEmpty k ((cs.take k) ++ [a.dropLast ++ c.tail] ++ cs.drop (k + 2))
        else removeEmpty k cs
      | _, _ => removeEmpty k cs
    | _, _ => removeEmpty k cs

def chunksOf (stuff : Cps) : List Cps :=
  let k0 := if stuff.head? = some cBang then 2 else 1
  let (cs, i0) := chunkLoop stuff stuff.length 0 k0 []
  let last := stuff.drop i0
  let cs := if last ≠ [] then cs ++ [last]
            else match cs.getLast? with
              | some l => cs.dropLast ++ [l ++ [cHyphen]]
              | none => cs
  removeEmpty (cs.length - 1) cs

/-- singles and ranges of `'-'.join(chunks)` read as a regex set: each join is a range
    (last of left chunk)–(first of right chunk); every other character is literal -/
def setOfChunks : List Cps → List Nat × List (Nat × Nat)
  | [] => ([], [])
  | [c] => (c, [])
  | c :: d :: rest =>
    let (s, r) := setOfChunks ((d.tail) :: rest)
    match c.getLast?, d.head? with
    | some x, some y => (c.dropLast ++ s, (x, y) :: r)
    | _, _ => (c ++ s, r)     -- unreachable for chunks produced by `chunksOf`
termination_by l => l.length

/-- the item for `[stuff]` -/
def classItem (stuff : Cps) : GItem :=
  if ¬ stuff.contains cHyphen then
    match stuff with
    | [] => .never
    | [33] => .any
    | 33 :: rest => .cls true rest []
    | _ => .cls false stuff []
  else
    let cs := chunksOf stuff
    let flat := cs.flatten
    if flat = [] ∧ cs.length ≤ 1 then .never
    else if cs = [[cBang]] then .any
    else
      match cs with
      | (33 :: c0) :: rest =>
        let (s, r) := setOfChunks (c0 :: rest)
        .cls true s r
      | _ =>
        let (s, r) := setOfChunks cs
        .cls false s r

/-- after '[' : find the closing bracket the way `translate` does; returns (stuff, rest after ']') -/
def scanClass (rest : Cps) : Option (Cps × Cps) :=
  let j0 := if rest.head? = some cBang then 1 else 0
  let j1 := if rest[j0]? = some cRBr then j0 + 1 else j0
  match findFrom cRBr rest j1 with
  | none => none
  | some j => some (rest.take j, rest.drop (j + 1))

def parseAux : Nat → Cps → List GItem → List GItem
  | 0, _, acc => acc
  | _, [], acc => acc
  | fuel+1, c :: rest, acc =>
    if c = cStar then
      parseAux fuel rest (if acc.getLast? = some .star then acc else acc ++ [.star])
    else if c = cQ then parseAux fuel rest (acc ++ [.any])
    else if c = cLBr then
      match scanClass rest with
      | none => parseAux fuel rest (acc ++ [.lit cLBr])
      | some (stuff, after) => parseAux fuel after (acc ++ [classItem stuff])
    else parseAux fuel rest (acc ++ [.lit c])

/-- `translate(pat)` as an item list (consecutive stars compressed) -/
def parse (pat : Cps) : List GItem := parseAux (pat.length + 1) pat []

def itemMatches : GItem → Nat → Bool
  | .star, _ => false
  | .any, _ => true
  | .lit c, x => c = x
  | .never, _ => false
  | .cls neg singles ranges, x =>
    let inSet := singles.contains x || ranges.any fun (lo, hi) => lo ≤ x && x ≤ hi
    if neg then !inSet else inSet

/-- a star-free item list against a string of exactly the same length -/
def fixedMatches : List GItem → Cps → Bool
  | [], [] => true
  | i :: is, x :: xs => itemMatches i x && fixedMatches is xs
  | _, _ => false

/-- `fixed` matches a prefix of `s`; returns the remainder -/
def matchPrefix (fixed : List GItem) (s : Cps) : Option Cps :=
  if fixed.length ≤ s.length ∧ fixedMatches fixed (s.take fixed.length) then some (s.drop fixed.length) else none

/-- `(?>.*?fixed)`: leftmost occurrence, no backtracking -/
def findLeftmost (fixed : List GItem) : Cps → Option Cps
  | [] => matchPrefix fixed []
  | x :: xs =>
    match matchPrefix fixed (x :: xs) with
    | some r => some r
    | none => findLeftmost fixed xs

/-- split an item list at stars -/
def segments : List GItem → List (List GItem)
  | [] => [[]]
  | .star :: rest => [] :: segments rest
  | i :: rest =>
    match segments rest with
    | [] => [[i]]
    | s :: ss => (i :: s) :: ss

/-- after the leading fixed part: `STAR fixed STAR fixed … ` -/
def matchTail : List (List GItem) → Cps → Bool
  | [], s => s = []                       -- no star at all: must be at the end (`\Z`)
  | [last], s =>                          -- `.*` + last fixed + `\Z`
    last.length ≤ s.length && fixedMatches last (s.drop (s.length - last.length))
  | seg :: more, s =>
    match findLeftmost seg s with
    | some r => matchTail more r
    | none => false

/-- `fnmatch.fnmatchcase(name, pat)` -/
def globMatch (pat name : Cps) : Bool :=
  match segments (parse pat) with
  | [] => false
  | first :: more =>
    match matchPrefix first name with
    | some r => matchTail more r
    | none => false

end Glob

/-- `Filter(pattern).matches(original_location)`; `none` = IndexError on the empty pattern -/
def rmMatches (pattern loc : Bytes) : Option Bool :=
  if pattern = [] then none
  else
    let subject := if pattern.head? = some slash then loc else basename loc
    some (Glob.globMatch (decodeSE pattern) (decodeSE subject))

end TrashVerif
