/-
  Model/PyLib.lean — the stdlib / trashcli.fs routines the commands rely on, as programs over
  canonical paths (CPython 3.12.1 sources: os.makedirs, shutil.move/copytree/copy2/rmtree;
  trashcli/fs.py: atomic_write, remove_file, remove_file2, remove_file_if_exists, mkdirs;
  trashcli/put/dir_maker.py: mkdir_p).
-/
import TrashVerif.Model.Prog
namespace TrashVerif
open Prog FS

/-- follow a symlink in final position (what `os.stat`, `open`, `isdir` do); a canonical path that
    does not end in a symlink is its own resolution -/
def followC (fs : FS) (p : CPath) : Option CPath :=
  match fs.get p with
  | some (.link _) =>
    match FS.resolve fs [] (FS.toStr p) true with
    | .ok q => some q
    | .error _ => none
  | _ => some p

def statC (fs : FS) (p : CPath) : Option Node := (followC fs p).bind fs.get
def isdirC (fs : FS) (p : CPath) : Bool := match statC fs p with | some n => n.isDir | none => false
def existsC (fs : FS) (p : CPath) : Bool := (statC fs p).isSome
def lexistsC (fs : FS) (p : CPath) : Bool := (fs.get p).isSome

/-- `os.makedirs(p, mode)`: missing ancestors with the default mode, the leaf with `mode` -/
def makedirs : Nat → CPath → Nat → Prog Res
  | 0, p, mode => sys (.mkdir p mode)
  | fuel+1, p, mode => do
    let fs ← read
    if p ≠ [] ∧ p.dropLast ≠ [] ∧ ¬ existsC fs p.dropLast then
      match ← makedirs fuel p.dropLast 0o777 with
      | .error .EEXIST => sys (.mkdir p mode)          -- FileExistsError is swallowed
      | .error e => pure (.error e)
      | .ok () => sys (.mkdir p mode)
    else sys (.mkdir p mode)

/-- `DirMaker.mkdir_p`: any OSError is forgiven when the path is a directory afterwards -/
def mkdirP (p : CPath) (mode : Nat) : Prog Res := do
  match ← makedirs p.length p mode with
  | .ok () => pure (.ok ())
  | .error e =>
    let fs ← read
    if isdirC fs p then pure (.ok ()) else pure (.error e)

/-- `trashcli.fs.mkdirs` (restore): `if isdir: return; os.makedirs(path)` -/
def fsMkdirs (p : CPath) : Prog Res := do
  let fs ← read
  if isdirC fs p then pure (.ok ()) else makedirs p.length p 0o777

/-- `atomic_write`: exclusive create (0600), one write, close (always); when the write or the
    close fails the file is unlinked again (errors of that unlink are ignored) and the error
    is re-raised — the close's error if both failed. -/
def atomicWrite (p : CPath) (content : Bytes) : Prog Res := do
  match ← sys (.createExcl p 0o600) with
  | .error e => pure (.error e)
  | .ok () =>
    let w ← sys (.write p content)
    let c ← sys (.close p)
    match w, c with
    | .ok (), .ok () => pure (.ok ())
    | _, .error e => do let _ ← sys (.unlink p); pure (.error e)
    | .error e, .ok () => do let _ ← sys (.unlink p); pure (.error e)

/-- body of `_rmtree_safe_fd`: children before parents, symlinks unlinked, first error raised -/
def rmInner : Nat → CPath → Prog Res
  | 0, _ => pure (.error .ELOOP)
  | fuel+1, p => do
    let fs ← read
    let rec go : List CPath → Prog Res
      | [] => pure (.ok ())
      | c :: cs => do
        let fs' ← read
        match fs'.get c with
        | some (.dir ..) =>
          match ← rmInner fuel c with
          | .error e => pure (.error e)
          | .ok () =>
            match ← sys (.rmdir c) with
            | .error e => pure (.error e)
            | .ok () => go cs
        | _ =>
          match ← sys (.unlink c) with
          | .error e => pure (.error e)
          | .ok () => go cs
    go (FS.sortedChildren fs p)

/-- `shutil.rmtree(p)` -/
def rmtree (p : CPath) : Prog Res := do
  let fs ← read
  match fs.get p with
  | none => pure (.error .ENOENT)
  | some (.link _) => pure (.error .OTHER)      -- "Cannot call rmtree on a symbolic link"
  | some (.file ..) => pure (.error .ENOTDIR)   -- scandir fails
  | some (.dir ..) =>
    let depth := (fs.dom.map List.length).foldl max 0
    match ← rmInner (depth + 1) p with
    | .error e => pure (.error e)
    | .ok () => sys (.rmdir p)

/-- `RealRemoveFile.remove_file` (put's cleanup, restore): lexists → remove, on ANY exception rmtree -/
def removeFile (p : CPath) : Prog Res := do
  let fs ← read
  if lexistsC fs p then
    match ← sys (.unlink p) with
    | .ok () => pure (.ok ())
    | .error _ => rmtree p
  else pure (.ok ())

/-- `RealRemoveFile2.remove_file2` -/
def removeFile2 (p : CPath) : Prog Res := do
  match ← sys (.unlink p) with
  | .ok () => pure (.ok ())
  | .error _ => rmtree p

/-- `remove_file_if_exists` -/
def removeIfExists (p : CPath) : Prog Res := do
  let fs ← read
  if lexistsC fs p then removeFile2 p else pure (.ok ())

/-- `copystat(src, dst)`: times first, then mode -/
def copystat (src dst : CPath) : Prog Res := do
  let fs ← read
  match fs.get src with
  | some (.file _ m t) | some (.dir m t) =>
    match ← sys (.utime dst t) with
    | .error e => pure (.error e)
    | .ok () => sys (.chmod dst m)
  | _ => pure (.ok ())

/-- `copy2(src, dst)` for a regular file `src`; `dst` follows a symlink like `open(dst,'wb')` -/
def copy2 (src dst : CPath) : Prog Res := do
  let fs ← read
  match fs.get src with
  | some (.file data _ _) =>
    let dst' := if isdirC fs dst then dst ++ [src.getLast?.getD []] else dst
    let target := (followC fs dst').getD dst'
    match ← sys (.createTrunc target 0o666) with
    | .error e => pure (.error e)
    | .ok () =>
      let w ← (if data = [] then pure (.ok ()) else sys (.write target data))
      match w with
      | .error e => pure (.error e)
      | .ok () => copystat src target
  | some (.dir ..) => pure (.error .EISDIR)
  | some (.link _) => pure (.error .OTHER)   -- callers resolve links first
  | none => pure (.error .ENOENT)

/-- `copytree(src, dst, symlinks=True)`: errors are collected, the copy goes on, Error at the end -/
def copytree : Nat → CPath → CPath → Prog Res
  | 0, _, _ => pure (.error .ELOOP)
  | fuel+1, src, dst => do
    let fs ← read
    let entries := FS.sortedChildren fs src
    match ← makedirs dst.length dst 0o777 with
    | .error e => pure (.error e)
    | .ok () =>
      let rec go : List CPath → Bool → Prog Bool
        | [], failed => pure failed
        | c :: cs, failed => do
          let fs' ← read
          let d := dst ++ [c.getLast?.getD []]
          let r ← (match fs'.get c with
            | some (.link t) => sys (.symlink t d)
            | some (.dir ..) => copytree fuel c d
            | some (.file ..) => copy2 c d
            | none => pure (.error .ENOENT))
          go cs (failed || match r with | .ok () => false | .error _ => true)
      let failed ← go entries false
      match ← copystat src dst with
      | .error _ => pure (.error .OTHER)
      | .ok () => pure (if failed then .error .OTHER else .ok ())

/-- `shutil._destinsrc` on canonical paths -/
def destInSrc (src dst : CPath) : Bool := FS.under src dst

/-- `shutil.move(src, dst)`; `src` and `dst` canonical (final component not followed) -/
def move (src dst : CPath) : Prog Res := do
  let fs ← read
  let intoDir := isdirC fs dst
  let sameFile := intoDir ∧ followC fs src = followC fs dst ∧ (followC fs src).isSome
  if sameFile then sys (.rename src dst)
  else
    let realDst := if intoDir then (followC fs dst).getD dst ++ [src.getLast?.getD []] else dst
    if intoDir ∧ existsC fs realDst then pure (.error .OTHER)   -- "Destination path … already exists"
    else
      match ← sys (.rename src realDst) with
      | .ok () => pure (.ok ())
      | .error _ =>
        let fs' ← read
        match fs'.get src with
        | some (.link t) =>
          match ← sys (.symlink t realDst) with
          | .error e => pure (.error e)
          | .ok () => sys (.unlink src)
        | some (.dir ..) =>
          if destInSrc src dst then pure (.error .OTHER)
          else
            let depth := (fs'.dom.map List.length).foldl max 0
            match ← copytree (depth + 1) src realDst with
            | .error e => pure (.error e)
            | .ok () => rmtree src
        | some (.file ..) =>
          match ← copy2 src realDst with
          | .error e => pure (.error e)
          | .ok () => sys (.unlink src)
        | none => pure (.error .ENOENT)

end TrashVerif
