/-
  Model/Prog.lean — commands as deterministic strategies over the file system.
  A program is a tree: it reads the whole current state (`get`), issues one mutating syscall on
  canonical paths (`call`) and continues with the syscall's outcome, or emits an output line.
  One definition then serves four semantics: `run` (sequential, with every intermediate state
  recorded = every crash point), `run` under a fault oracle, and small-step `step` (interleaving).
-/
import TrashVerif.Model.FS
namespace TrashVerif

inductive Call where
  | mkdir (p : CPath) (mode : Nat)
  | createExcl (p : CPath) (mode : Nat)
  | createTrunc (p : CPath) (mode : Nat)
  | write (p : CPath) (data : Bytes)
  | close (p : CPath)
  | rename (a c : CPath)
  | unlink (p : CPath)
  | rmdir (p : CPath)
  | symlink (target : Bytes) (p : CPath)
  | chmod (p : CPath) (mode : Nat)
  | utime (p : CPath) (t : Nat)
deriving DecidableEq, Repr

def Call.apply (fs : FS) : Call → Except Errno FS
  | .mkdir p m => fs.mkdir p m
  | .createExcl p m => fs.createExcl p m
  | .createTrunc p m => fs.createTrunc p m
  | .write p d => fs.writeData p d
  | .close _ => .ok fs
  | .rename a c => fs.rename a c
  | .unlink p => fs.unlink p
  | .rmdir p => fs.rmdir p
  | .symlink t p => fs.symlink t p
  | .chmod p m => fs.chmod p m
  | .utime p t => fs.utime p t

/-- canonical output events (wording of messages is not modelled, their kind and argument are) -/
inductive Out where
  | stdout (line : Bytes)
  | stderr (kind : String) (arg : Bytes)
deriving DecidableEq, Repr

abbrev Res := Except Errno Unit

inductive Prog (α : Type) where
  | ret (a : α)
  | get (k : FS → Prog α)
  | call (c : Call) (k : Res → Prog α)
  | emit (o : Out) (k : Prog α)

namespace Prog

def bind {α β} : Prog α → (α → Prog β) → Prog β
  | .ret a, f => f a
  | .get k, f => .get fun s => (k s).bind f
  | .call c k, f => .call c fun r => (k r).bind f
  | .emit o k, f => .emit o (k.bind f)

instance : Monad Prog where
  pure := .ret
  bind := bind

def read : Prog FS := .get .ret
def sys (c : Call) : Prog Res := .call c .ret
def say (o : Out) : Prog Unit := .emit o (.ret ())

def _root_.TrashVerif.Call.kind : Call → String
  | .mkdir .. => "mkdir" | .createExcl .. => "createExcl" | .createTrunc .. => "createTrunc"
  | .write .. => "write" | .close .. => "close" | .rename .. => "rename" | .unlink .. => "unlink"
  | .rmdir .. => "rmdir" | .symlink .. => "symlink" | .chmod .. => "chmod" | .utime .. => "utime"

/-- fault oracle: may answer a call with an errno instead of executing it; it sees the global
    index of the call, the number of earlier calls of the same kind, and the call itself -/
abbrev Oracle := Nat → Nat → Call → Option Errno
def noFaults : Oracle := fun _ _ _ => none

structure RunState where
  fs : FS
  hist : List FS := []        -- state before each issued call, newest first
  trace : List (Call × Res) := []   -- newest first
  outs : List Out := []       -- newest first
  n : Nat := 0

def kindCount (tr : List (Call × Res)) (k : String) : Nat := (tr.filter fun (c, _) => c.kind = k).length

/-- sequential execution under a fault oracle, recording every intermediate state -/
def run {α} (φ : Oracle) : Prog α → RunState → α × RunState
  | .ret a, s => (a, s)
  | .get k, s => run φ (k s.fs) s
  | .emit o k, s => run φ k { s with outs := o :: s.outs }
  | .call c k, s =>
    let r : Except Errno FS := match φ s.n (kindCount s.trace c.kind) c with
      | some e => .error e
      | none => c.apply s.fs
    match r with
    | .ok fs' => run φ (k (.ok ())) { s with fs := fs', hist := s.fs :: s.hist, trace := (c, .ok ()) :: s.trace, n := s.n + 1 }
    | .error e => run φ (k (.error e)) { s with hist := s.fs :: s.hist, trace := (c, .error e) :: s.trace, n := s.n + 1 }

/-- every state a kill could leave behind: before each call, and the final one (oldest first) -/
def crashStates {α} (φ : Oracle) (p : Prog α) (fs : FS) : List FS :=
  let (_, s) := run φ p { fs := fs }
  (s.fs :: s.hist).reverse

/-- one small step of a process on a shared file system (no faults): `none` when finished -/
def step {α} : Prog α → FS → Option (Prog α × FS)
  | .ret _, _ => none
  | .get k, fs => some (k fs, fs)
  | .emit _ k, fs => some (k, fs)
  | .call c k, fs =>
    match c.apply fs with
    | .ok fs' => some (k (.ok ()), fs')
    | .error e => some (k (.error e), fs)

end Prog
end TrashVerif
