/-
  Model/Concurrent.lean — the naming protocol of trash-put under concurrency, as a transition system.
  Any number of trash-put processes work on ONE trash directory; one step = one system call of one
  process (the kernel executes each call atomically); the schedule is an arbitrary list of process
  indices.  The trash directory is abstracted to which info names exist and which payload (identified
  by the process that moved it, or `pre k` for something that was there before) sits under each
  files/ name.  Mirrors InfoFilePersister.try_persist + PutTrashDir.try_trash:
      probe files/N (lexists) → O_EXCL create info/N → write → close → rename entry → files/N
                                                                     ↘ (move failed) unlink info/N
-/
import TrashVerif.Model.Basic
namespace TrashVerif.Par

abbrev Name := Nat        -- names are opaque here; `cand p i` is the i-th name process p tries

inductive Payload where
  | pre (k : Nat)         -- present before any of the processes started
  | src (p : Nat)         -- the entry process p was asked to trash
deriving DecidableEq, Repr

inductive PC where
  | probe (i : Nat)       -- about to lstat files/(cand i)
  | create (i : Nat)      -- about to open(O_EXCL) info/(cand i)
  | write (i : Nat) | close (i : Nat)
  | move (i : Nat)        -- about to rename the entry to files/(cand i)
  | cleanup (i : Nat)     -- the move failed: about to unlink info/(cand i)
  | doneOk (n : Name)     -- entry trashed under name n
  | doneFail              -- gave up: entry still at its origin
deriving DecidableEq, Repr

structure Sys where
  infos : Name → Bool                 -- info/N.trashinfo exists
  files : Name → Option Payload       -- what is at files/N
  atOrigin : Nat → Bool               -- process p's entry is still at its original place
  pc : Nat → PC                       -- program counter of every process (processes ≥ nprocs never scheduled)

/-- one system call of process `p`; `moveOk` says whether this rename succeeds (the adversary may make
    any rename fail: EXDEV, EACCES, …); a rename onto an occupied files/N is modelled as the kernel
    does it: it REPLACES a non-directory (the protocol must make that unreachable) -/
def step (cand : Nat → Nat → Name) (moveOk : Bool) (s : Sys) (p : Nat) : Sys :=
  match s.pc p with
  | .probe i =>
    if (s.files (cand p i)).isSome then { s with pc := fun q => if q = p then .probe (i + 1) else s.pc q }
    else { s with pc := fun q => if q = p then .create i else s.pc q }
  | .create i =>
    if s.infos (cand p i) then { s with pc := fun q => if q = p then .probe (i + 1) else s.pc q }     -- EEXIST: next name
    else { s with infos := fun n => if n = cand p i then true else s.infos n,
                  pc := fun q => if q = p then .write i else s.pc q }
  | .write i => { s with pc := fun q => if q = p then .close i else s.pc q }
  | .close i => { s with pc := fun q => if q = p then .move i else s.pc q }
  | .move i =>
    if moveOk then
      { s with files := fun n => if n = cand p i then some (.src p) else s.files n,
               atOrigin := fun q => if q = p then false else s.atOrigin q,
               pc := fun q => if q = p then .doneOk (cand p i) else s.pc q }
    else { s with pc := fun q => if q = p then .cleanup i else s.pc q }
  | .cleanup i =>
    { s with infos := fun n => if n = cand p i then false else s.infos n,
             pc := fun q => if q = p then .doneFail else s.pc q }
  | .doneOk _ => s
  | .doneFail => s

/-- run a schedule: a list of (process, does-this-rename-succeed) choices -/
def runSched (cand : Nat → Nat → Name) : List (Nat × Bool) → Sys → Sys
  | [], s => s
  | (p, ok) :: rest, s => runSched cand rest (step cand ok s p)

/-- initial state: arbitrary trash content (pairs, infos without payload, payloads without info),
    every process at its first name with its entry at its origin -/
def init (infos0 : Name → Bool) (files0 : Name → Option Nat) : Sys :=
  { infos := infos0, files := fun n => (files0 n).map Payload.pre, atOrigin := fun _ => true, pc := fun _ => .probe 0 }

end TrashVerif.Par
