/-
  Model/Basic.lean — byte strings and small list utilities.
  Everything in Model/ is core-only (no Mathlib) so the driver links natively.
-/
namespace TrashVerif

abbrev Bytes := List UInt8

/-- ASCII literal → bytes (only used on ASCII literals). -/
def b (s : String) : Bytes := s.toUTF8.toList

namespace Bytes

def startsWith (s p : Bytes) : Bool := p.isPrefixOf s
def endsWith (s p : Bytes) : Bool := p.isSuffixOf s

/-- `str.split(sep)` for a one-byte separator: always returns at least one piece. -/
def splitOn (sep : UInt8) : Bytes → List Bytes
  | [] => [[]]
  | c :: cs =>
    if c = sep then [] :: splitOn sep cs
    else match splitOn sep cs with
      | [] => [[c]]            -- unreachable: splitOn never returns []
      | p :: ps => (c :: p) :: ps

def joinWith (sep : Bytes) : List Bytes → Bytes
  | [] => []
  | [x] => x
  | x :: xs => x ++ sep ++ joinWith sep xs

def hexDigitUpper (n : Nat) : UInt8 :=
  if n < 10 then UInt8.ofNat (48 + n) else UInt8.ofNat (55 + n)

def hexVal? (c : UInt8) : Option Nat :=
  if 48 ≤ c.toNat ∧ c.toNat ≤ 57 then some (c.toNat - 48)
  else if 65 ≤ c.toNat ∧ c.toNat ≤ 70 then some (c.toNat - 55)
  else if 97 ≤ c.toNat ∧ c.toNat ≤ 102 then some (c.toNat - 87)
  else none

def isDigit (c : UInt8) : Bool := 48 ≤ c.toNat && c.toNat ≤ 57

/-- decimal rendering of a natural number as ASCII bytes -/
def ofNat (n : Nat) : Bytes := (toString n).toUTF8.toList

def toHex (s : Bytes) : String :=
  String.mk (s.flatMap fun c =>
    [Char.ofNat (hexDigitUpper (c.toNat / 16)).toNat, Char.ofNat (hexDigitUpper (c.toNat % 16)).toNat])

def ofHex? : List Char → Option Bytes
  | [] => some []
  | [_] => none
  | a :: c :: rest => do
    let h ← hexVal? (UInt8.ofNat a.toNat)
    let l ← hexVal? (UInt8.ofNat c.toNat)
    let r ← ofHex? rest
    pure (UInt8.ofNat (h * 16 + l) :: r)

end Bytes

/-- first `some` of a function over a list -/
def firstSome {α β} (f : α → Option β) : List α → Option β
  | [] => none
  | x :: xs => match f x with
    | some y => some y
    | none => firstSome f xs

end TrashVerif
