/-
  Model/Readers.lean — how the four reading commands find trash directories and read them:
    trashcli/trash_dirs_scanner.py, list/trash_dir_selector.py, fstab/volume_listing.py,
    restore/trash_directories.py (+ the checks added for $topdir/.Trash), lib/trash_dir_reader.py,
    restore/info_files.py, lib/path_of_backup_copy.py, parse_trashinfo/*.
-/
import TrashVerif.Model.Put
namespace TrashVerif
open FS Bytes

inductive ScanEvent where
  | found (path volume : Bytes)
  | skippedNotSticky (path : Bytes)
  | skippedSymlink (path : Bytes)
deriving DecidableEq, Repr

structure ReadCfg where
  cwd : CPath
  env : Env
  uid : Nat
  mountPoints : List Bytes        -- what `os_mount_points()` lists (strings)

/-- `VolumesListingImpl.list_volumes` -/
def listVolumes (c : ReadCfg) : List Bytes :=
  match c.env.trashVolumes with
  | some v => if v ≠ [] then (splitOn 58 v).filter (· ≠ []) else c.mountPoints
  | none => c.mountPoints

inductive TopVerdict where | missing | notSticky | parentSymlink | valid
deriving DecidableEq, Repr

/-- `TopTrashDirRules.valid_to_be_read` -/
def validToBeRead (fs : FS) (cwd : CPath) (path : Bytes) : TopVerdict :=
  let parent := dirname path
  if ¬ pExists fs cwd path then .missing
  else if ¬ (pIsdir fs cwd parent ∧ pSticky fs cwd parent = some true) then .notSticky
  else if pIslink fs cwd parent then .parentSymlink
  else .valid

/-- `TrashDirsScanner.scan_trash_dirs` for the current user -/
def scanTrashDirs (fs : FS) (c : ReadCfg) : List ScanEvent :=
  let uid := Bytes.ofNat c.uid
  ((homeTrashPaths c.env).map fun p => ScanEvent.found p [slash]) ++
  (listVolumes c).flatMap fun v =>
    let top := pjoin (pjoin v (b ".Trash")) uid
    let alt := pjoin v (b ".Trash-" ++ uid)
    (match validToBeRead fs c.cwd top with
     | .valid => [ScanEvent.found top v]
     | .notSticky => [.skippedNotSticky top]
     | .parentSymlink => [.skippedSymlink top]
     | .missing => []) ++
    (if pIsdir fs c.cwd alt then [ScanEvent.found alt v] else [])

/-- `TrashDirsSelector.select` (not --all-users) -/
def selectTrashDirs (fs : FS) (c : ReadCfg) (userDirs : List Bytes) : List ScanEvent :=
  (if userDirs = [] then scanTrashDirs fs c else []) ++
  userDirs.map fun d => ScanEvent.found d (volumeOf fs c.cwd d)

def foundDirs : List ScanEvent → List (Bytes × Bytes)
  | [] => []
  | .found p v :: rest => (p, v) :: foundDirs rest
  | _ :: rest => foundDirs rest

/-- `TrashDirectoriesImpl.list_trash_dirs` (trash-restore) -/
def restoreTrashDirs (fs : FS) (c : ReadCfg) (trashDir : Option Bytes) : List (Bytes × Bytes) :=
  let specific := match trashDir with | some d => d | none => []
  if specific ≠ [] then [(specific, volumeOf fs c.cwd specific)]
  else
    let uid := Bytes.ofNat c.uid
    ((homeTrashPaths c.env).map fun p => (p, [slash])) ++
    c.mountPoints.flatMap fun v =>
      let top := pjoin v (b ".Trash/" ++ uid)
      let alt := pjoin v (b ".Trash-" ++ uid)
      (if validToBeRead fs c.cwd top = .valid then [(top, v)] else []) ++ [(alt, v)]

/-- `is_trashinfo_name` -/
def isTrashinfoName (n : Bytes) : Bool :=
  endsWith n trashinfoExt &&
  (let stem := n.take (n.length - trashinfoExt.length); stem ≠ [] && stem ≠ [dot] && stem ≠ dotdot)

/-- names in a directory given as a string, sorted; `none` when it cannot be listed -/
def listdirStr (fs : FS) (cwd : CPath) (path : Bytes) : Option (List Bytes) :=
  match resolve fs cwd path true with
  | .ok p => match fs.get p with
    | some (.dir ..) => some ((sortedChildren fs p).filterMap fun q => q.getLast?)
    | _ => none
  | .error _ => none

inductive Listing where
  | names (ns : List Bytes)
  | crash            -- os.listdir raised (exists but is not a directory)
deriving DecidableEq, Repr

/-- `entries_if_dir_exists(path)`: nothing when it does not exist, listdir otherwise -/
def entriesIfDirExists (fs : FS) (cwd : CPath) (path : Bytes) : Listing :=
  if ¬ pExists fs cwd path then .names []
  else match listdirStr fs cwd path with
    | some ns => .names ns
    | none => .crash

/-- `path_of_backup_copy(trashinfo_path)` -/
def pathOfBackupCopy (infoPath : Bytes) : Bytes :=
  let trashDir := dirname (dirname infoPath)
  let base := basename infoPath
  pjoin (pjoin trashDir (b "files")) (base.take (base.length - trashinfoExt.length))

/-- `contents_of(path)`: text of a regular file reached by `path`; `none` = IOError -/
def contentsOf (fs : FS) (cwd : CPath) (path : Bytes) : Option Bytes :=
  match stat fs cwd path with
  | some (.file data _ _) => readText data
  | _ => none

/-- how the readers see one `.trashinfo` -/
structure InfoView where
  infoPath : Bytes                 -- as the reader joined it
  text : Option Bytes              -- none: unreadable
deriving Repr

def InfoView.path (v : InfoView) : Option Bytes := v.text.bind parsePath
def InfoView.pathLossy (v : InfoView) : Bool :=
  match v.text.bind parsePathRaw with | some r => unquoteLossy r | none => false

end TrashVerif
