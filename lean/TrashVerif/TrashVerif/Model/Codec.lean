/-
  Model/Codec.lean — byte-level model of
    trashcli/put/format_trash_info.py   (urllib.parse.quote(s, '/'), layout)
    trashcli/parse_trashinfo/parse_path.py, parse_trashinfo.py (Path= part)
    text-mode open().read()             (strict UTF-8 + universal newlines)
    urllib.parse.unquote                (percent-decoding of ASCII runs)
-/
import TrashVerif.Model.Basic
namespace TrashVerif
open Bytes

/-! ### UTF-8 validity (Python's strict decoder: no overlongs, no surrogates, ≤ U+10FFFF) -/

def isCont (c : UInt8) : Bool := 0x80 ≤ c.toNat && c.toNat ≤ 0xBF

def validUtf8 : Bytes → Bool
  | [] => true
  | c :: rest =>
    let n := c.toNat
    if n < 0x80 then validUtf8 rest
    else if 0xC2 ≤ n ∧ n ≤ 0xDF then
      match rest with
      | c1 :: r => isCont c1 && validUtf8 r
      | _ => false
    else if 0xE0 ≤ n ∧ n ≤ 0xEF then
      match rest with
      | c1 :: c2 :: r =>
        let n1 := c1.toNat
        let lo := if n = 0xE0 then 0xA0 else 0x80
        let hi := if n = 0xED then 0x9F else 0xBF
        (lo ≤ n1 && n1 ≤ hi) && isCont c2 && validUtf8 r
      | _ => false
    else if 0xF0 ≤ n ∧ n ≤ 0xF4 then
      match rest with
      | c1 :: c2 :: c3 :: r =>
        let n1 := c1.toNat
        let lo := if n = 0xF0 then 0x90 else 0x80
        let hi := if n = 0xF4 then 0x8F else 0xBF
        (lo ≤ n1 && n1 ≤ hi) && isCont c2 && isCont c3 && validUtf8 r
      | _ => false
    else false

/-! ### urllib.parse.quote(string, safe='/') -/

/-- `_ALWAYS_SAFE` ∪ {'/'}: ASCII letters, digits, `_.-~`, and `/`. -/
def isSafe (c : UInt8) : Bool :=
  let n := c.toNat
  (65 ≤ n && n ≤ 90) || (97 ≤ n && n ≤ 122) || (48 ≤ n && n ≤ 57) ||
  n = 95 || n = 46 || n = 45 || n = 126 || n = 47

def quoteByte (c : UInt8) : Bytes :=
  if isSafe c then [c]
  else [37, hexDigitUpper (c.toNat / 16), hexDigitUpper (c.toNat % 16)]

/-- byte-level `quote(s, '/')`.  `format_original_location` escapes the UTF-8 encoding of the
    name, or — for a name that is not valid UTF-8 — its original bytes (`os.fsencode`): in both
    cases the bytes the kernel knows the file by. -/
def quote (s : Bytes) : Bytes := s.flatMap quoteByte

/-! ### urllib.parse.unquote, byte level -/

/-- `unquote_to_bytes`: `%XY` with two hex digits (either case) → byte; any other `%` stays. -/
def percentDecode : Bytes → Bytes
  | [] => []
  | c :: rest =>
    if c = 37 then
      match hr : rest with
      | h :: l :: rest' =>
        match hexVal? h, hexVal? l with
        | some x, some y => UInt8.ofNat (x * 16 + y) :: percentDecode rest'
        | _, _ => 37 :: percentDecode (h :: l :: rest')
      | [x] => [37, x]
      | [] => [37]
    else c :: percentDecode rest
termination_by s => s.length
decreasing_by all_goals (simp_all; try omega)

/-- `unquote(…, errors='surrogateescape')` followed by `os.fsencode` is exact at byte level
    (percent-decoded ASCII runs are decoded with surrogateescape, other characters are kept);
    the only values outside the modelled domain are those that decode to an embedded NUL
    (every later `os` call then raises ValueError). -/
def unquoteLossy (s : Bytes) : Bool := (percentDecode s).contains 0

def unquote (s : Bytes) : Bytes := percentDecode s

/-! ### text-mode read: strict UTF-8, universal newlines -/

def universalNewlines : Bytes → Bytes
  | [] => []
  | 13 :: 10 :: rest => 10 :: universalNewlines rest
  | 13 :: rest => 10 :: universalNewlines rest
  | c :: rest => c :: universalNewlines rest

/-- `open(path, errors='surrogateescape').read()`: every byte string decodes (bytes that are not
    UTF-8 become lone surrogates and come back unchanged through `os.fsencode`), universal newlines
    apply.  Kept as an `Option` for the callers' sake: it never fails. -/
def readText (raw : Bytes) : Option Bytes := some (universalNewlines raw)

def lines (text : Bytes) : List Bytes := splitOn 10 text

def pathKey : Bytes := b "Path="
def dateKey : Bytes := b "DeletionDate="

/-- `parse_path(contents)`: first line starting with `Path=`; `none` = ParseError. -/
def parsePathRaw (text : Bytes) : Option Bytes :=
  firstSome (fun l => if startsWith l pathKey then some (l.drop pathKey.length) else none) (lines text)

def parsePath (text : Bytes) : Option Bytes := (parsePathRaw text).map unquote

/-- first `DeletionDate=` line, whole line (what `strptime` is given) -/
def firstDateLine (text : Bytes) : Option Bytes :=
  firstSome (fun l => if startsWith l dateKey then some l else none) (lines text)

/-! ### format_trashinfo -/

def header : Bytes := b "[Trash Info]\n"

/-- the bytes `format_trashinfo(loc, date)` returns, given the already formatted date -/
def formatTrashinfoWith (loc dateStr : Bytes) : Bytes :=
  header ++ pathKey ++ quote loc ++ [10] ++ dateKey ++ dateStr ++ [10]

end TrashVerif
