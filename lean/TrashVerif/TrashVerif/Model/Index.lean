/-
  Model/Index.lean — the pure parts of trash-restore and of the y/n prompts:
    restore_asking_the_user.parse_indexes / parse_int_index (Python `int()`), range.py, sequences.py
    trashed_file.original_location_matches_path
    sort_method.sorter_for
    empty/parse_reply.py, put/user.py parse_user_reply
-/
import TrashVerif.Model.Date
import TrashVerif.Model.Glob
namespace TrashVerif
open Bytes

/-! ### Python `int(str)` on ASCII text -/

/-- ASCII characters `str.strip()` removes -/
def isPyWs (c : UInt8) : Bool :=
  let n := c.toNat
  (9 ≤ n && n ≤ 13) || (28 ≤ n && n ≤ 32)

def stripWs (s : Bytes) : Bytes := ((s.dropWhile isPyWs).reverse.dropWhile isPyWs).reverse

/-- digits with single underscores between digits; `prevDigit` = the previous char was a digit -/
def pyDigits : Bytes → Bool → Nat → Option Nat
  | [], prevDigit, acc => if prevDigit then some acc else none
  | c :: rest, prevDigit, acc =>
    if isDigit c then pyDigits rest true (acc * 10 + (c.toNat - 48))
    else if c = 95 ∧ prevDigit ∧ rest ≠ [] then pyDigits rest false acc
    else none

/-- `int(text)`: `none` = ValueError; negative results cannot occur in `parse_indexes`
    (a '-' is consumed by the range syntax) so the value is a natural number or "negative" -/
inductive PyInt where
  | nat (n : Nat)
  | neg (n : Nat)      -- the value -n, n possibly 0
  | bad
deriving DecidableEq, Repr

def pyInt (text : Bytes) : PyInt :=
  match stripWs text with
  | [] => .bad
  | 43 :: ds => match pyDigits ds false 0 with | some n => .nat n | none => .bad
  | 45 :: ds => match pyDigits ds false 0 with | some n => .neg n | none => .bad
  | ds => match pyDigits ds false 0 with | some n => .nat n | none => .bad

/-! ### parse_indexes -/

inductive IdxResult where
  | ok (indexes : List Nat)
  | invalid            -- InvalidEntry: "Invalid entry: …", exit 1, nothing restored
  | crash              -- uncaught ValueError ("too many values to unpack"), traceback, nothing restored
deriving DecidableEq, Repr

inductive Seq where
  | single (i : Nat)
  | range (a b : Nat)
deriving DecidableEq, Repr

/-- one comma-separated item -/
def parseItem (item : Bytes) : Except IdxResult Seq :=
  if item.contains 45 then
    match splitOn 45 item with
    | [first, last] =>
      if first = [] ∨ last = [] then .error .invalid
      else match pyInt first, pyInt last with
        | .nat a, .nat c => .ok (.range a c)
        | _, _ => .error .invalid
    | _ => .error .crash       -- `first, last = index.split("-", 2)` with three parts
  else
    match pyInt item with
    | .nat n => .ok (.single n)
    | _ => .error .invalid

def parseItems : List Bytes → Except IdxResult (List Seq)
  | [] => .ok []
  | i :: rest =>
    match parseItem i with
    | .error e => .error e
    | .ok s => match parseItems rest with
      | .error e => .error e
      | .ok ss => .ok (s :: ss)

/-- indexes of one sequence, or `none` when one of them is outside `range(0, n)` -/
def seqIndexes (n : Nat) : Seq → Option (List Nat)
  | .single i => if i < n then some [i] else none
  | .range a c =>
    if a > c then some []
    else if c < n then some ((List.range (c + 1 - a)).map (· + a)) else none

def allIndexes (n : Nat) : List Seq → Option (List Nat)
  | [] => some []
  | s :: ss =>
    match seqIndexes n s, allIndexes n ss with
    | some a, some c => some (a ++ c)
    | _, _ => none

/-- `parse_indexes(user_input, len_trashed_files)` followed by `all_indexes()` -/
def parseIndexes (reply : Bytes) (n : Nat) : IdxResult :=
  match parseItems (splitOn 44 reply) with
  | .error e => e
  | .ok seqs =>
    match allIndexes n seqs with
    | some is => .ok is
    | none => .invalid

/-! ### scope test -/

/-- `original_location_matches_path(path)` -/
def inScope (dir loc : Bytes) : Bool :=
  dir = [slash] || startsWith loc (dir ++ [slash]) || loc = dir

/-! ### sorting -/

inductive SortMode where
  | date | path | none
deriving DecidableEq, Repr

structure Entry where
  loc : Bytes              -- original location (absolute, as joined by the reader)
  date : Option Date       -- `parse_deletion_date`
  info : Bytes             -- path of the .trashinfo as the reader built it
deriving DecidableEq, Repr

def cpsLe : Cps → Cps → Bool
  | [], _ => true
  | _ :: _, [] => false
  | a :: as, c :: cs => if a < c then true else if a > c then false else cpsLe as cs

/-- `str(deletion_date)` -/
def dateStrOpt : Option Date → Bytes
  | some d => d.str
  | Option.none => b "None"

def pathKeyOf (e : Entry) : Cps := decodeSE (e.loc ++ dateStrOpt e.date)

/-- `x.deletion_date or datetime.datetime.min` on the seconds scale (0001-01-01T00:00:00 = 86400) -/
def dateRank (e : Entry) : Nat :=
  match e.date with
  | some d => d.toSec
  | Option.none => 86400

def dateLe (a c : Entry) : Bool := dateRank a ≤ dateRank c

/-- `sort_files(sort, trashed_files)`: Python's `sorted` is stable, as is `mergeSort` -/
def sortEntries (mode : SortMode) (es : List Entry) : List Entry :=
  match mode with
  | .none => es
  | .path => es.mergeSort fun a c => cpsLe (pathKeyOf a) (pathKeyOf c)
  | .date => es.mergeSort dateLe

/-! ### prompts -/

/-- trash-empty: `reply[0:1].lower() == 'y'` -/
def emptyReplyYes (reply : Bytes) : Bool :=
  match reply with
  | c :: _ => c = 121 ∨ c = 89
  | [] => false

/-- trash-put -i: `reply.lower().startswith("y")` -/
def putReplyYes (reply : Bytes) : Bool := emptyReplyYes reply

end TrashVerif
