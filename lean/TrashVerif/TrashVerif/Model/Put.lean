/-
  Model/Put.lean — trash-put: trashcli/put/{trasher,file_trasher,janitor,jobs}.py,
  janitor_tools/*, trash_directories_finder.py, lib/trash_dirs.py, original_location.py,
  trash_dir_volume_reader.py, fs/{parent_realpath,volume_of_parent}.py, suffix.py, core/trashee.py.
  String-level decisions are computed from the current state (`read`); every mutating call is
  issued on canonical paths.
-/
import TrashVerif.Model.PyLib
import TrashVerif.Model.Codec
import TrashVerif.Model.Glob
import TrashVerif.Model.Index
namespace TrashVerif
open Prog FS Bytes

structure Env where
  home : Option Bytes := none
  xdg : Option Bytes := none
  fallbackEnv : Option Bytes := none      -- TRASH_ENABLE_HOME_FALLBACK
  trashVolumes : Option Bytes := none     -- TRASH_VOLUMES (list/empty/rm)
  trashDate : Option Bytes := none        -- TRASH_DATE (empty)
deriving Repr

inductive PutMode where | unspecified | interactive | force
deriving DecidableEq, Repr

structure PutCfg where
  cwd : CPath
  env : Env
  uid : Nat
  mode : PutMode := .unspecified
  trashDir : Option Bytes := none
  homeFallback : Bool := false
  forcedVolume : Option Bytes := none
  dateStr : Bytes                          -- what `format_date(clock.now())` yields (placeholder in worlds)

structure PutSt where
  replies : List Bytes                     -- remaining stdin lines
  ints : List Nat                          -- remaining scripted random.randint answers

/-- `home_trash_dir_path_from_env` -/
def homeTrashPaths (e : Env) : List Bytes :=
  match e.xdg with
  | some x => if x ≠ [] then [x ++ b "/Trash"] else
    match e.home with | some h => [h ++ b "/.local/share/Trash"] | none => []
  | none => match e.home with | some h => [h ++ b "/.local/share/Trash"] | none => []

inductive Gate where | sameVolume | homeFallback
deriving DecidableEq, Repr

structure Candidate where
  path : Bytes          -- trash_dir_path as a string
  volume : Bytes
  relative : Bool       -- PathMakerType.RelativePaths
  topCheck : Bool       -- TopTrashDirCheck
  gate : Gate
deriving DecidableEq, Repr

/-- `possible_trash_directories_for` -/
def candidatesFor (fs : FS) (c : PutCfg) (volume : Bytes) : List Candidate :=
  let specific := match c.trashDir with | some d => d | none => []
  if specific ≠ [] then
    [{ path := specific, volume := volumeOf fs c.cwd specific, relative := true, topCheck := false, gate := .sameVolume }]
  else
    let homes := (homeTrashPaths c.env).map fun p =>
      ({ path := p, volume := volumeOf fs c.cwd p, relative := false, topCheck := false, gate := .sameVolume } : Candidate)
    let uid := Bytes.ofNat c.uid
    let t1 : Candidate := { path := pjoin volume (b ".Trash/" ++ uid), volume := volume, relative := true,
                            topCheck := true, gate := .sameVolume }
    let t2 : Candidate := { path := pjoin volume (b ".Trash-" ++ uid), volume := volume, relative := true,
                            topCheck := false, gate := .sameVolume }
    homes ++ [t1, t2] ++ (if c.homeFallback then homes.map fun h => { h with gate := .homeFallback } else [])

inductive Reason where
  | noParent | parentIsFile | parentSymlink | parentNotSticky | differentVolumes | fallbackDisabled
  | mkdirError (e : Errno) | infoError (e : Errno) | moveError (e : Errno) | persistError (e : Errno)
  | cleanupCrash (e : Errno)    -- the unlink of the just-created info failed too: uncaught, the run aborts
deriving DecidableEq, Repr

/-- `SecurityCheck.check_trash_dir_is_secure` -/
def securityCheck (fs : FS) (cwd : CPath) (cand : Candidate) : Option Reason :=
  if ¬ cand.topCheck then none
  else
    let parent := dirname cand.path
    if ¬ pLexists fs cwd parent then some .noParent
    else if ¬ pIsdir fs cwd parent then some .parentIsFile
    else if pIslink fs cwd parent then some .parentSymlink
    else if pSticky fs cwd parent ≠ some true then some .parentNotSticky
    else none

def realpathStr (fs : FS) (cwd : CPath) (p : Bytes) : Bytes :=
  match realpath fs cwd p with
  | some c => toStr c
  | none => p        -- symlink loop: outside the modelled domain (driver reports it)

/-- `TrashDirChecker.file_could_be_trashed_in` -/
def gateCheck (fs : FS) (c : PutCfg) (volume : Bytes) (cand : Candidate) : Option Reason :=
  match cand.gate with
  | .homeFallback => if c.env.fallbackEnv = some (b "1") then none else some .fallbackDisabled
  | .sameVolume =>
    let tv := volumeOf fs c.cwd (realpathStr fs c.cwd cand.path)     -- TrashDirVolumeReader: realpath of the path as spelled
    if tv = volume then none else some .differentVolumes

/-- `OriginalLocation.for_file` -/
def originalLocation (fs : FS) (cwd : CPath) (path : Bytes) (cand : Candidate) : Bytes :=
  let normalized := normpath path
  let base := basename normalized
  let parent := realpathStr fs cwd (dirname normalized)
  let parent' :=
    if cand.relative then
      let pre := rstripSlash cand.volume ++ [slash]
      if parent = cand.volume ∨ startsWith parent pre then parent.drop pre.length else parent
    else parent
  pjoin parent' base

/-- `Suffix.suffix_for_index` -/
def suffixFor (index : Nat) (st : PutSt) : Bytes × PutSt :=
  if index = 0 then ([], st)
  else if index < 100 then (b "_" ++ Bytes.ofNat index, st)
  else match st.ints with
    | i :: rest => (b "_" ++ Bytes.ofNat i, { st with ints := rest })
    | [] => (b "_" ++ Bytes.ofNat 4242, st)

def trashinfoExt : Bytes := b ".trashinfo"

/-- `create_trashinfo_basename` (truncation counts characters; ASCII names only in the model) -/
def trashinfoBasename (base suffix : Bytes) (tooLong : Bool) : Bytes :=
  let after := suffix ++ trashinfoExt
  (if tooLong then base.take (base.length - after.length) else base) ++ after

inductive Persist where
  | created (name : Bytes)       -- the .trashinfo basename that was created
  | failed (e : Errno)
  | outOfFuel
deriving DecidableEq, Repr

/-- `InfoFilePersister.try_persist` driven by `JobExecutor.execute` -/
def persistLoop (infoDir filesDir : CPath) (base content : Bytes) :
    Nat → Nat → Bool → PutSt → Prog (Persist × PutSt)
  | 0, _, _, st => pure (.outOfFuel, st)
  | fuel+1, index, tooLong, st => do
    let (suffix, st) := suffixFor index st
    let name := trashinfoBasename base suffix tooLong
    let stem := name.take (name.length - trashinfoExt.length)
    let fs ← read
    if lexistsC fs (filesDir ++ [stem]) then persistLoop infoDir filesDir base content fuel (index + 1) tooLong st
    else
      match ← atomicWrite (infoDir ++ [name]) content with
      | .ok () => pure (.created name, st)
      | .error .ENAMETOOLONG =>
        if tooLong then pure (.failed .ENAMETOOLONG, st)
        else persistLoop infoDir filesDir base content fuel (index + 1) true st
      | .error .EEXIST => persistLoop infoDir filesDir base content fuel (index + 1) tooLong st
      | .error e => pure (.failed e, st)

def persistFuel : Nat := 400

/-- canonical directory a string names, following symlinks, missing tail kept -/
def dirC (fs : FS) (cwd : CPath) (p : Bytes) : CPath := (realpath fs cwd p).getD []

/-- `DirMaker.mkdir_p` on a path string: a dangling symbolic link on the way makes every `mkdir`
    fail (nothing is created through it); otherwise the directories are made at the canonical path -/
def mkdirPStr (cwd : CPath) (path : Bytes) (mode : Nat) : Prog Res := do
  let fs ← read
  match danglingOnPath fs cwd path with
  | some e => pure (.error e)
  | none => mkdirP (dirC fs cwd path) mode

inductive ArgOutcome where
  | trashed (trashDir : Bytes) (name : Bytes)
  | skippedMissing | declined
  | failedDot | failedMissing | failedAll (reasons : List Reason)
  | crashed (e : Errno)      -- uncaught exception from the cleanup: traceback, remaining arguments not handled
deriving DecidableEq, Repr

def ArgOutcome.failed : ArgOutcome → Bool
  | .failedDot | .failedMissing | .failedAll _ => true
  | _ => false

def stemOf (name : Bytes) : Bytes := name.take (name.length - trashinfoExt.length)

/-- The resolved-layer core of `Janitor.trash_file_in`: persist the info file under a free name,
    move the entry to `files/<same name>`, and on a failed move remove the info file again.
    `srcOf` yields the canonical location of the entry (or the error `RealFs.move` /
    the kernel reports for it) in the state reached after the info file was written. -/
def putCore (infoC filesC : CPath) (base content : Bytes) (srcOf : FS → Except Errno CPath) (st : PutSt) :
    Prog (Except Reason Bytes × PutSt) := do
  let (pr, st) ← persistLoop infoC filesC base content persistFuel 0 false st
  match pr with
  | .outOfFuel => pure (.error (.persistError .ELOOP), st)
  | .failed e => pure (.error (.persistError e), st)
  | .created name =>
    let fs ← read
    let r ← (match srcOf fs with
             | .error e => pure (.error e)
             | .ok src => move src (filesC ++ [stemOf name]))
    match r with
    | .ok () => pure (.ok name, st)
    | .error e =>
      match ← removeFile (infoC ++ [name]) with
      | .ok () => pure (.error (.moveError e), st)
      | .error e2 => pure (.error (.cleanupCrash e2), st)

/-- `Janitor.trash_file_in` for one candidate -/
def trashFileIn (c : PutCfg) (path volume : Bytes) (cand : Candidate) (st : PutSt) :
    Prog (Except Reason Bytes × PutSt) := do
  let fs ← read
  match securityCheck fs c.cwd cand with
  | some r => pure (.error r, st)
  | none =>
  match gateCheck fs c volume cand with
  | some r => pure (.error r, st)
  | none =>
  match ← mkdirPStr c.cwd cand.path 0o700 with
  | .error e => pure (.error (.mkdirError e), st)
  | .ok () =>
  match ← mkdirPStr c.cwd (pjoin cand.path (b "files")) 0o700 with
  | .error e => pure (.error (.mkdirError e), st)
  | .ok () =>
  match ← mkdirPStr c.cwd (pjoin cand.path (b "info")) 0o700 with
  | .error e => pure (.error (.mkdirError e), st)
  | .ok () =>
  let fs ← read
  let filesC := dirC fs c.cwd (pjoin cand.path (b "files"))
  let infoC := dirC fs c.cwd (pjoin cand.path (b "info"))
  let fs ← read
  let loc := originalLocation fs c.cwd path cand
  let content := formatTrashinfoWith loc c.dateStr
  let srcStr := normpath path
  -- RealFs.move refuses mount points, then shutil.move resolves the string like the kernel
  putCore infoC filesC (basename loc) content
    (fun fs' => if pIsmount fs' c.cwd srcStr then .error .EBUSY else resolve fs' c.cwd srcStr) st

def tryCandidates (c : PutCfg) (path volume : Bytes) :
    List Candidate → List Reason → PutSt → Prog (ArgOutcome × PutSt)
  | [], reasons, st => pure (.failedAll reasons.reverse, st)
  | cand :: rest, reasons, st => do
    let (r, st) ← trashFileIn c path volume cand st
    match r with
    | .ok name => pure (.trashed cand.path name, st)
    | .error (.cleanupCrash e) => pure (.crashed e, st)
    | .error reason => tryCandidates c path volume rest (reason :: reasons) st

inductive PutCrash where
  | eof       -- EOFError from input()
  | cleanup   -- OSError escaping from `try_trash`'s cleanup
deriving DecidableEq, Repr

/-- `Trasher.trash_single` -/
def trashSingle (c : PutCfg) (path : Bytes) (st : PutSt) : Prog (Except PutCrash ArgOutcome × PutSt) := do
  if isDotEntry (rstripSlash path) then pure (.ok .failedDot, st)
  else
    let fs ← read
    if ¬ pLexists fs c.cwd path then
      pure (.ok (if c.mode = .force then .skippedMissing else .failedMissing), st)
    else
      let ask := c.mode = .interactive ∧ pExists fs c.cwd path
      let proceed : Except PutCrash Bool × PutSt :=
        if ask then
          match st.replies with
          | [] => (.error .eof, st)
          | r :: rs => (.ok (putReplyYes r), { st with replies := rs })
        else (.ok true, st)
      match proceed with
      | (.error e, st) => pure (.error e, st)
      | (.ok false, st) => pure (.ok .declined, st)
      | (.ok true, st) =>
        let volume := match c.forcedVolume with
          | some v => if v ≠ [] then v else volumeOf fs c.cwd (realpathStr fs c.cwd (dirname (let p := rstripSlash path; if p = [] then path else p)))
          | none => volumeOf fs c.cwd (realpathStr fs c.cwd (dirname (let p := rstripSlash path; if p = [] then path else p)))
        let (o, st) ← tryCandidates c path volume (candidatesFor fs c volume) [] st
        pure (.ok o, st)

structure PutResult where
  outcomes : List (Bytes × ArgOutcome)
  crash : Option PutCrash
  exit : Nat

/-- `Context.trash_each` + `TrashPutReporter.exit_code`; a diagnostic names every failed argument -/
def putAll (c : PutCfg) : List Bytes → PutSt → List (Bytes × ArgOutcome) → Prog PutResult
  | [], _, acc =>
    let os := acc.reverse
    pure { outcomes := os, crash := none, exit := if os.any (·.2.failed) then 74 else 0 }
  | a :: rest, st, acc => do
    let (r, st) ← trashSingle c a st
    match r with
    | .error e =>
      say (.stderr "traceback" (b "EOFError"))
      pure { outcomes := acc.reverse, crash := some e, exit := 1 }
    | .ok (.crashed _) =>
      say (.stderr "traceback" (b "OSError"))
      pure { outcomes := acc.reverse, crash := some .cleanup, exit := 1 }
    | .ok o =>
      if o.failed then say (.stderr "cannot-trash" a)
      putAll c rest st ((a, o) :: acc)

def runPut (c : PutCfg) (args : List Bytes) (st : PutSt) : Prog PutResult := putAll c args st []

end TrashVerif
