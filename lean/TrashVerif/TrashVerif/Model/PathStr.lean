/-
  Model/PathStr.lean — posixpath string functions (CPython 3.12), byte level.
-/
import TrashVerif.Model.Basic
namespace TrashVerif
open Bytes

abbrev slash : UInt8 := 47
abbrev dot : UInt8 := 46

/-- the part after the last '/' -/
def basename (p : Bytes) : Bytes := (splitOn slash p).getLast?.getD []

/-- strip trailing '/' -/
def rstripSlash (p : Bytes) : Bytes := (p.reverse.dropWhile (· = slash)).reverse

/-- posixpath.dirname -/
def dirname (p : Bytes) : Bytes :=
  let head := p.take (p.length - (basename p).length)
  if head ≠ [] ∧ ¬ head.all (· = slash) then rstripSlash head else head

/-- posixpath.split: `(head, tail)`, the tail is the part after the last '/', the head what is
    before it with its trailing slashes stripped (unless it consists of slashes only) -/
def psplit (p : Bytes) : Bytes × Bytes := (dirname p, basename p)

/-- posixpath.join(a, b) -/
def pjoin (a c : Bytes) : Bytes :=
  if startsWith c [slash] then c
  else if a = [] ∨ endsWith a [slash] then a ++ c
  else a ++ [slash] ++ c

def dotdot : Bytes := [dot, dot]

def normComps (absolute : Bool) : List Bytes → List Bytes → List Bytes
  | acc, [] => acc.reverse
  | acc, c :: cs =>
    if c = [] ∨ c = [dot] then normComps absolute acc cs
    else if c ≠ dotdot then normComps absolute (c :: acc) cs
    else match acc with
      | [] => if absolute then normComps absolute [] cs else normComps absolute [c] cs
      | top :: rest => if top = dotdot then normComps absolute (c :: acc) cs else normComps absolute rest cs

/-- posixpath.normpath -/
def normpath (p : Bytes) : Bytes :=
  if p = [] then [dot] else
  let initial : Nat :=
    if startsWith p [slash] then
      (if startsWith p [slash, slash] ∧ ¬ startsWith p [slash, slash, slash] then 2 else 1)
    else 0
  let comps := normComps (initial ≠ 0) [] (splitOn slash p)
  let body := joinWith [slash] comps
  let r := List.replicate initial slash ++ body
  if r = [] then [dot] else r

def isAbs (p : Bytes) : Bool := startsWith p [slash]

/-- posixpath.abspath with the process cwd given as a string -/
def abspath (cwd p : Bytes) : Bytes := normpath (if isAbs p then p else pjoin cwd p)

/-- some '/'-separated component of the string is `.` or `..` -/
def hasDotComp (p : Bytes) : Bool := (splitOn slash p).any fun c => c = [dot] || c = dotdot

/-- `should_skipped_by_specs` -/
def isDotEntry (p : Bytes) : Bool := basename p = [dot] ∨ basename p = dotdot

end TrashVerif
