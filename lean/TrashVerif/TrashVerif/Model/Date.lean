/-
  Model/Date.lean — model of
    datetime.strptime(line, "DeletionDate=%Y-%m-%dT%H:%M:%S")  (parse_trashinfo.py)
    datetime.strftime("%Y-%m-%dT%H:%M:%S")                      (format_trash_info.py)
    older_than(days, now, date)                                 (empty/older_than.py)
  Regex table of CPython 3.12 `_strptime.TimeRE` (ASCII digits only; non-ASCII digits are
  declared outside the modelled domain by the driver).
-/
import TrashVerif.Model.Codec
namespace TrashVerif
open Bytes

structure Date where
  y : Nat
  m : Nat
  d : Nat
  H : Nat
  M : Nat
  S : Nat
deriving DecidableEq, Repr

def isLeap (y : Nat) : Bool := (y % 4 = 0 && y % 100 ≠ 0) || y % 400 = 0

def daysInMonth (y m : Nat) : Nat :=
  if m = 2 then (if isLeap y then 29 else 28)
  else if m = 4 ∨ m = 6 ∨ m = 9 ∨ m = 11 then 30 else 31

/-- what `datetime.datetime(y, m, d, H, M, S)` accepts -/
def Date.valid (t : Date) : Bool :=
  1 ≤ t.y && t.y ≤ 9999 && 1 ≤ t.m && t.m ≤ 12 && 1 ≤ t.d && t.d ≤ daysInMonth t.y t.m &&
  t.H ≤ 23 && t.M ≤ 59 && t.S ≤ 59

/-- days before 1 January of year `y` (proleptic Gregorian, year 1 = 0) -/
def daysBeforeYear (y : Nat) : Nat :=
  let p := y - 1
  p * 365 + p / 4 - p / 100 + p / 400

def daysBeforeMonth (y m : Nat) : Nat :=
  ((List.range (m - 1)).map fun i => daysInMonth y (i + 1)).sum

/-- `date.toordinal()` -/
def Date.ordinal (t : Date) : Nat := daysBeforeYear t.y + daysBeforeMonth t.y t.m + t.d

/-- seconds since 0001-01-01T00:00:00 (shifted by one day; only differences matter) -/
def Date.toSec (t : Date) : Nat := t.ordinal * 86400 + t.H * 3600 + t.M * 60 + t.S

/-- microseconds; `us` is the sub-second part of `now` (0 for TRASH_DATE and for parsed dates) -/
def Date.toMicros (t : Date) (us : Nat := 0) : Nat := t.toSec * 1000000 + us

/-! ### strftime -/

/-- `w` decimal digits of `n`, most significant first (zero padded, truncating) -/
def pad : Nat → Nat → Bytes
  | 0, _ => []
  | w+1, n => pad w (n / 10) ++ [UInt8.ofNat (48 + n % 10)]

/-- glibc `%Y`: not padded below 1000 -/
def fmtYear (y : Nat) : Bytes := if 1000 ≤ y then pad 4 y else Bytes.ofNat y

/-- `strftime("%Y-%m-%dT%H:%M:%S")` for 1000 ≤ y ≤ 9999 (glibc does not pad %Y). -/
def Date.fmt (t : Date) : Bytes :=
  fmtYear t.y ++ [45] ++ pad 2 t.m ++ [45] ++ pad 2 t.d ++ [84] ++
  pad 2 t.H ++ [58] ++ pad 2 t.M ++ [58] ++ pad 2 t.S

/-- `str(datetime)` as printed by trash-list / trash-restore: `YYYY-MM-DD HH:MM:SS` (4-digit padded year) -/
def Date.str (t : Date) : Bytes :=
  pad 4 t.y ++ [45] ++ pad 2 t.m ++ [45] ++ pad 2 t.d ++ [32] ++
  pad 2 t.H ++ [58] ++ pad 2 t.M ++ [58] ++ pad 2 t.S

/-! ### strptime, as a backtracking parser over the regex alternatives (in regex order) -/

abbrev Parser (α : Type) := Bytes → List (α × Bytes)   -- all ways, in priority order

def digitVal (c : UInt8) : Nat := c.toNat - 48

/-- exactly `k` ASCII digits -/
def pDigits : Nat → Parser Nat
  | 0, s => [(0, s)]
  | k+1, s =>
    match s with
    | c :: rest =>
      if isDigit c then (pDigits k rest).map fun (v, r) => (digitVal c * 10 ^ k + v, r) else []
    | [] => []

def pLit (c : UInt8) : Parser Unit := fun s =>
  match s with
  | x :: rest => if x = c then [((), rest)] else []
  | [] => []

/-- case-insensitive literal letter (the regex is compiled with IGNORECASE) -/
def pLitCI (upper lower : UInt8) : Parser Unit := fun s =>
  match s with
  | x :: rest => if x = upper ∨ x = lower then [((), rest)] else []
  | [] => []

/-- two-character alternative `[lo1-hi1][lo2-hi2]` -/
def p2 (lo1 hi1 lo2 hi2 : Nat) : Parser Nat := fun s =>
  match s with
  | a :: c :: rest =>
    if isDigit a ∧ isDigit c ∧ lo1 ≤ digitVal a ∧ digitVal a ≤ hi1 ∧ lo2 ≤ digitVal c ∧ digitVal c ≤ hi2
    then [(digitVal a * 10 + digitVal c, rest)] else []
  | _ => []

def p1 (lo hi : Nat) : Parser Nat := fun s =>
  match s with
  | a :: rest => if isDigit a ∧ lo ≤ digitVal a ∧ digitVal a ≤ hi then [(digitVal a, rest)] else []
  | _ => []

def pSpace1 : Parser Nat := fun s =>
  match s with
  | 32 :: a :: rest => if isDigit a ∧ 1 ≤ digitVal a then [(digitVal a, rest)] else []
  | _ => []

def alt {α} (ps : List (Parser α)) : Parser α := fun s => ps.flatMap fun p => p s

/-- `%m` = `1[0-2]|0[1-9]|[1-9]` -/
def pMonth : Parser Nat := alt [p2 1 1 0 2, p2 0 0 1 9, p1 1 9]
/-- `%d` = `3[0-1]|[1-2]\d|0[1-9]|[1-9]| [1-9]` -/
def pDay : Parser Nat := alt [p2 3 3 0 1, p2 1 2 0 9, p2 0 0 1 9, p1 1 9, pSpace1]
/-- `%H` = `2[0-3]|[0-1]\d|\d` -/
def pHour : Parser Nat := alt [p2 2 2 0 3, p2 0 1 0 9, p1 0 9]
/-- `%M` = `[0-5]\d|\d` -/
def pMinute : Parser Nat := alt [p2 0 5 0 9, p1 0 9]
/-- `%S` = `6[0-1]|[0-5]\d|\d` -/
def pSecond : Parser Nat := alt [p2 6 6 0 1, p2 0 5 0 9, p1 0 9]

def seqP {α β} (p : Parser α) (f : α → Parser β) : Parser β := fun s =>
  (p s).flatMap fun (a, r) => f a r

/-- regex for `%Y-%m-%dT%H:%M:%S`; first full match wins, no trailing data allowed
    (`re.match` then `len(data_string) != found.end()` → ValueError). -/
def pDateTime : Parser Date :=
  seqP (pDigits 4) fun y => seqP (pLit 45) fun _ =>
  seqP pMonth fun m => seqP (pLit 45) fun _ =>
  seqP pDay fun d => seqP (pLitCI 84 116) fun _ =>
  seqP pHour fun H => seqP (pLit 58) fun _ =>
  seqP pMinute fun M => seqP (pLit 58) fun _ =>
  seqP pSecond fun S => fun s => [({ y, m, d, H, M, S }, s)]

/-- `re.match`: the first way to match the regex (leftmost alternative first); then the
    "unconverted data remains" test on that match only. -/
def strptimeBody (s : Bytes) : Option Date :=
  match pDateTime s with
  | (t, rest) :: _ => if rest.isEmpty ∧ t.valid then some t else none
  | [] => none

inductive DateField where
  | missing            -- no DeletionDate line
  | invalid            -- first DeletionDate line does not parse (ValueError)
  | date (t : Date)
deriving DecidableEq, Repr

/-- what `ParseTrashInfo.parse_trashinfo` reports for the date: only the first line counts -/
def parseDate (text : Bytes) : DateField :=
  match firstDateLine text with
  | none => .missing
  | some l =>
    match strptimeBody (l.drop dateKey.length) with
    | some t => .date t
    | none => .invalid

/-- `parse_deletion_date`: `None` for missing and for invalid -/
def parseDeletionDate (text : Bytes) : Option Date :=
  match parseDate text with
  | .date t => some t
  | _ => none

/-- `maybe_parse_deletion_date` rendered: date string or the question marks -/
def unknownDate : Bytes := b "????-??-?? ??:??:??"
def maybeDateStr (text : Bytes) : Bytes :=
  match parseDate text with
  | .date t => t.str
  | _ => unknownDate

/-! ### older_than -/

/-- micros of `datetime.min` on our scale: 0001-01-01 has ordinal 1 -/
def minMicros : Nat := 86400 * 1000000

inductive Older where
  | overflow     -- `now - timedelta(days)` raises OverflowError
  | yes
  | no
deriving DecidableEq, Repr

/-- `older_than(days, now, date)` with `now = (nowD, us)` -/
def olderThan (days : Nat) (nowD : Date) (us : Nat) (d : Date) : Older :=
  if days > 999999999 then .overflow
  else
    let nowM := nowD.toMicros us
    let delta := days * 86400 * 1000000
    if nowM < minMicros + delta then .overflow
    else if d.toMicros < nowM - delta then .yes else .no

end TrashVerif
