/-
  Model/Cmds.lean — trash-list, trash-restore, trash-empty, trash-rm.
    list/list_trash_action.py; restore/{run_restore_action,handler,restore_asking_the_user,restorer,
    trashed_files}.py; empty/{empty_action,guard,emptier,delete_according_date,clock}.py;
    rm/{rm_cmd,list_trashinfo,cleanable_trashcan}.py.
-/
import TrashVerif.Model.Readers
namespace TrashVerif
open Prog FS Bytes

/-! ### shared: removing a path given as a string -/

/-- resolve a path string (final component not followed) in the current state and run `k` on it -/
def atPath {α} (cwd : CPath) (path : Bytes) (onErr : Errno → Prog α) (k : CPath → Prog α) : Prog α := do
  let fs ← read
  match resolve fs cwd path with
  | .ok p => k p
  | .error e => onErr e

/-- `remove_file_if_exists(path)` on a string -/
def removeIfExistsStr (cwd : CPath) (path : Bytes) : Prog Res :=
  atPath cwd path (fun _ => pure (.ok ())) fun p => removeIfExists p

/-- `remove_file2(path)` on a string -/
def removeFile2Str (cwd : CPath) (path : Bytes) : Prog Res :=
  atPath cwd path (fun e => pure (.error e)) fun p => removeFile2 p

/-- `remove_file_if_exists` on a path resolved beforehand (an unresolvable path does not exist) -/
def removeIfExistsR (p : Except Errno CPath) : Prog Res :=
  match p with
  | .ok q => removeIfExists q
  | .error _ => pure (.ok ())

/-- `remove_file2` on a path resolved beforehand -/
def removeFile2R (p : Except Errno CPath) : Prog Res :=
  match p with
  | .ok q => removeFile2 q
  | .error e => pure (.error e)

/-- The resolved-layer core of `CleanableTrashcan.delete_trash_info_and_backup_copy`:
    the payload first, the info file last. -/
def purgePair (payload info : Except Errno CPath) : Prog Res := do
  match ← removeIfExistsR payload with
  | .error e => pure (.error e)
  | .ok () => removeFile2R info

/-! ### trash-list -/

inductive Crash where
  | notADirectory | ioError | overflow | eof | typeError | indexError | osError
deriving DecidableEq, Repr

structure CmdResult where
  exit : Nat
  crash : Option Crash := none

def infosOf (fs : FS) (cwd : CPath) (trashDir : Bytes) : Except Crash (List Bytes) :=
  let infoDir := pjoin trashDir (b "info")
  match entriesIfDirExists fs cwd infoDir with
  | .crash => .error .notADirectory
  | .names ns => .ok ((ns.filter isTrashinfoName).map fun n => pjoin infoDir n)

/-- one `.trashinfo` as trash-list prints it -/
def listOne (fs : FS) (cwd : CPath) (volume infoPath : Bytes) : Out :=
  match contentsOf fs cwd infoPath with
  | none => .stderr "io-error" infoPath
  | some text =>
    match parsePath text with
    | none => .stderr "parse-error" infoPath
    | some rel => .stdout (maybeDateStr text ++ [32] ++ pjoin volume rel)

def emitAll : List Out → Prog Unit
  | [] => pure ()
  | o :: os => do say o; emitAll os

def listEvents (cwd : CPath) : List ScanEvent → Prog (Option Crash)
  | [] => pure none
  | .skippedNotSticky p :: rest => do say (.stderr "skipped-not-sticky" p); listEvents cwd rest
  | .skippedSymlink p :: rest => do say (.stderr "skipped-symlink" p); listEvents cwd rest
  | .found p v :: rest => do
    let fs ← read
    match infosOf fs cwd p with
    | .error c => pure (some c)
    | .ok infos =>
      emitAll (infos.map (listOne fs cwd v))
      listEvents cwd rest

def runList (c : ReadCfg) (userDirs : List Bytes) : Prog CmdResult := do
  let fs ← read
  match ← listEvents c.cwd (selectTrashDirs fs c userDirs) with
  | some cr => do say (.stderr "traceback" []); pure { exit := 1, crash := some cr }
  | none => pure { exit := 0 }

/-! ### trash-restore -/

structure RestoreOpts where
  path : Bytes := []            -- positional argument ("" = current directory)
  sort : SortMode := .date
  trashDir : Option Bytes := none
  overwrite : Bool := false

/-- `InfoFiles.all_info_files` + `TrashedFiles.all_trashed_files`: the entries, in scan order -/
def restoreEntriesOf (fs : FS) (cwd : CPath) (trashDir volume : Bytes) : List Entry :=
  let infoDir := pjoin trashDir (b "info")      -- InfoFiles.all_info_files: the directory as spelled (no normpath)
  match listdirStr fs cwd infoDir with
  | none => []
  | some ns =>
    (ns.filter isTrashinfoName).filterMap fun n =>
      let infoPath := pjoin infoDir n
      match contentsOf fs cwd infoPath with
      | none => none                       -- IOError: warning
      | some text =>
        match parsePath text with
        | none => none                     -- ParseError (a ValueError): warning
        | some rel => some { loc := pjoin volume rel, date := parseDeletionDate text, info := infoPath }

def restoreEntries (fs : FS) (c : ReadCfg) (o : RestoreOpts) : List Entry :=
  (restoreTrashDirs fs c o.trashDir).flatMap fun (t, v) => restoreEntriesOf fs c.cwd t v

/-- `"%4d %s %s" % (i, deletion_date, original_location)` -/
def restoreLine (i : Nat) (e : Entry) : Bytes :=
  let n := Bytes.ofNat i
  List.replicate (4 - n.length) 32 ++ n ++ [32] ++ dateStrOpt e.date ++ [32] ++ e.loc

/-- The resolved-layer core of `Restorer.restore_trashed_file`: `fs.move(payload, destination)`,
    then `fs.remove_file(info)` (errors of either propagate as IOError → Die). -/
def restoreCore (src dst info : Except Errno CPath) : Prog Res :=
  match src, dst with
  | .ok s, .ok d => do
    match ← move s d with
    | .error er => pure (.error er)
    | .ok () =>
      match info with
      | .ok i => removeFile i
      | .error _ => pure (.ok ())
  | .error er, _ => pure (.error er)
  | _, .error er => pure (.error er)

/-- `os.mkdir(name, mode)` on a path string: the kernel resolves the string (final symlink not
    followed; a missing or non-directory intermediate component is `ENOENT`/`ENOTDIR` also when a
    `..` follows it) and makes the directory at the canonical path; a string whose last component
    is `.` or `..` denotes an existing directory, whence `EEXIST`. -/
def mkdirStr (cwd : CPath) (name : Bytes) (mode : Nat) : Prog Res :=
  atPath cwd name (fun er => pure (.error er)) fun p => sys (.mkdir p mode)

/-- the `(head, tail)` `os.makedirs` works with: `split(name)`, once more on the head when the
    tail is empty -/
def makedirsSplit (name : Bytes) : Bytes × Bytes :=
  if (psplit name).2 = [] then psplit (psplit name).1 else psplit name

/-- `os.makedirs(name, mode)` (CPython 3.12, `exist_ok=False`) on the path STRING: the head is made
    first (default mode) when it does not exist, a `FileExistsError` of that is swallowed, a tail
    `.` ends the work there, and `mkdir(name)` is issued on the string as it is spelled — so
    `x/gone/..` creates `x/gone` and then fails with `EEXIST`.  Fuel: the length of the string. -/
def makedirsStr (cwd : CPath) : Nat → Bytes → Nat → Prog Res
  | 0, name, mode => mkdirStr cwd name mode
  | fuel+1, name, mode => do
    let fs ← read
    let head := (makedirsSplit name).1
    let tail := (makedirsSplit name).2
    if head ≠ [] ∧ tail ≠ [] ∧ ¬ pExists fs cwd head then
      match ← makedirsStr cwd fuel head 0o777 with
      | .error .EEXIST => if tail = [dot] then pure (.ok ()) else mkdirStr cwd name mode
      | .error er => pure (.error er)
      | .ok () => if tail = [dot] then pure (.ok ()) else mkdirStr cwd name mode
    else mkdirStr cwd name mode

/-- `Restorer.restore_trashed_file` -/
def restoreOne (cwd : CPath) (overwrite : Bool) (e : Entry) : Prog Res := do
  let fs ← read
  if ¬ overwrite ∧ pLexists fs cwd e.loc then pure (.error .EEXIST)     -- "Refusing to overwrite existing file"
  else
    let parentStr := dirname e.loc
    -- fs.mkdirs(parent): isdir → nothing, else os.makedirs
    let mk ← (if pIsdir fs cwd parentStr then pure (.ok ())
              else match danglingOnPath fs cwd parentStr with
                   | some er => pure (.error er)      -- a dangling link on the way: nothing can be created through it
                   | none =>
                     -- `os.makedirs` works on the string: with a `.`/`..` component behind a missing
                     -- one it differs from making the directories at the canonical path
                     if hasDotComp parentStr then makedirsStr cwd parentStr.length parentStr 0o777
                     else makedirs (dirC fs cwd parentStr).length (dirC fs cwd parentStr) 0o777)
    match mk with
    | .error er => pure (.error er)
    | .ok () =>
      let fs ← read
      -- the destination is looked at again once its parent directories exist: a location like
      -- `a/missing/../x` names an existing file only after `missing` was made
      if ¬ overwrite ∧ pLexists fs cwd e.loc then pure (.error .EEXIST)
      else
        -- --overwrite: an existing non-directory (a symlink to a directory included) is removed first,
        -- but only when the payload is there to take its place
        let cleared ← (if overwrite ∧ pLexists fs cwd (pathOfBackupCopy e.info) ∧ pLexists fs cwd e.loc ∧
                          (pIslink fs cwd e.loc ∨ ¬ pIsdir fs cwd e.loc) then
                         atPath cwd e.loc (fun er => pure (.error er)) fun p => removeFile p
                       else pure (.ok ()))
        match cleared with
        | .error er => pure (.error er)
        | .ok () =>
          let fs ← read
          let payloadStr := pathOfBackupCopy e.info
          restoreCore (resolve fs cwd payloadStr) (resolve fs cwd e.loc) (resolve fs cwd e.info)

def restoreMany (cwd : CPath) (overwrite : Bool) : List Entry → Prog Res
  | [] => pure (.ok ())
  | e :: es => do
    match ← restoreOne cwd overwrite e with
    | .error er => pure (.error er)
    | .ok () => restoreMany cwd overwrite es

/-- `RestoreArgParser`: the directory to restore from, `normpath(join(curdir, path))`
    (`join` supplies the separator only when `curdir` does not end with one, so `/` stays `/`) -/
def restoreScopeDir (cwdStr path : Bytes) : Bytes := normpath (pjoin cwdStr path)

/-- `RestoreCmd.run` for `RunRestoreArgs`; `reply` = the line read from stdin (none = EOF) -/
def runRestore (c : ReadCfg) (o : RestoreOpts) (reply : Option Bytes) : Prog CmdResult := do
  let fs ← read
  let cwdStr := toStr c.cwd
  let dir := restoreScopeDir cwdStr o.path
  let all := restoreEntries fs c o
  let offered := sortEntries o.sort (all.filter fun e => inScope dir e.loc)
  if offered = [] then do
    say (.stdout (b "No files trashed from current dir ('" ++ cwdStr ++ b "')"))
    pure { exit := 0 }
  else do
    emitAll ((List.range offered.length).filterMap fun i => (offered[i]?).map fun e => Out.stdout (restoreLine i e))
    match reply with
    | none => do say (.stderr "quit" []); pure { exit := 1 }
    | some r =>
      if r = [] then do say (.stdout (b "No files were restored")); pure { exit := 0 }
      else
        match parseIndexes r offered.length with
        | .invalid => do say (.stderr "invalid-entry" r); pure { exit := 1 }
        | .crash => do say (.stderr "traceback" r); pure { exit := 1, crash := some .typeError }
        | .ok is =>
          match ← restoreMany c.cwd o.overwrite (is.filterMap fun i => offered[i]?) with
          | .ok () => pure { exit := 0 }
          | .error _ => do say (.stderr "die" []); pure { exit := 1 }

/-! ### trash-empty -/

structure EmptyOpts where
  userDirs : List Bytes := []
  days : Option Nat := none
  dryRun : Bool := false
  verbose : Nat := 0
  interactive : Bool := false
  now : Date                    -- the clock (TRASH_DATE, or the real clock read by the harness)
  nowUs : Nat := 0

inductive Decision where | delete | keep | crash (c : Crash)
deriving DecidableEq, Repr

/-- `DeleteAccordingDate.ok_to_delete` -/
def okToDelete (fs : FS) (cwd : CPath) (o : EmptyOpts) (infoPath : Bytes) : Decision :=
  match o.days with
  | none => .delete
  | some days =>
    match contentsOf fs cwd infoPath with
    | none => .keep                      -- unreadable: no known date, kept
    | some text =>
      match parseDeletionDate text with
      | none => .keep
      | some d =>
        match olderThan days o.now o.nowUs d with
        | .overflow => .crash .overflow
        | .yes => .delete
        | .no => .keep

/-- what `do_empty` does with one path (resolved when the path is handled) -/
def emptyPathR (o : EmptyOpts) (path : Bytes) (p : Except Errno CPath) : Prog Unit := do
  if o.dryRun then say (.stdout (b "would remove " ++ path))
  else do
    if o.verbose > 0 then say (.stdout (b "removing " ++ path))
    match ← removeIfExistsR p with
    | .ok () => pure ()
    | .error _ => say (.stderr "cannot-remove" path)

def emptyPath (cwd : CPath) (o : EmptyOpts) (path : Bytes) : Prog Unit := do
  let fs ← read
  emptyPathR o path (resolve fs cwd path)

def emptyInfos (cwd : CPath) (o : EmptyOpts) : List Bytes → Prog (Option Crash)
  | [] => pure none
  | i :: rest => do
    let fs ← read
    match okToDelete fs cwd o i with
    | .crash c => pure (some c)
    | .keep => emptyInfos cwd o rest
    | .delete => do
      let infoC := resolve fs cwd i
      emptyPathR o (pathOfBackupCopy i) (resolve fs cwd (pathOfBackupCopy i))
      emptyPathR o i infoC
      emptyInfos cwd o rest

def emptyPaths (cwd : CPath) (o : EmptyOpts) : List Bytes → Prog Unit
  | [] => pure ()
  | p :: ps => do emptyPath cwd o p; emptyPaths cwd o ps

/-- `TrashDirReader.list_orphans`, evaluated when the generator reaches it (after the pairs of
    this trash dir were handled) -/
def orphansOf (fs : FS) (cwd : CPath) (trashDir : Bytes) : Except Crash (List Bytes) :=
  let infoDir := pjoin trashDir (b "info")
  let filesDir := pjoin trashDir (b "files")
  match entriesIfDirExists fs cwd filesDir with
  | .crash => .error .notADirectory
  | .names ns => .ok ((ns.filter fun n => ¬ pExists fs cwd (pjoin infoDir (n ++ trashinfoExt))).map fun n => pjoin filesDir n)

def emptyDirs (cwd : CPath) (o : EmptyOpts) : List (Bytes × Bytes) → Prog (Option Crash)
  | [] => pure none
  | (t, _) :: rest => do
    let fs ← read
    match infosOf fs cwd t with
    | .error c => pure (some c)
    | .ok infos =>
      match ← emptyInfos cwd o infos with
      | some c => pure (some c)
      | none =>
        let fs ← read
        match orphansOf fs cwd t with
        | .error c => pure (some c)
        | .ok orphans => do
          emptyPaths cwd o orphans
          emptyDirs cwd o rest

/-- `EmptyAction.run_action`; `reply` = the answer to the prompt in interactive mode (none = EOF) -/
def runEmpty (c : ReadCfg) (o : EmptyOpts) (reply : Option Bytes) : Prog CmdResult := do
  let fs ← read
  let events := selectTrashDirs fs c o.userDirs
  let go : Prog CmdResult := do
    match ← emptyDirs c.cwd o (foundDirs events) with
    | some cr => do say (.stderr "traceback" []); pure { exit := 1, crash := some cr }
    | none => pure { exit := 0 }
  if o.interactive then
    match reply with
    | none => do say (.stderr "traceback" []); pure { exit := 1, crash := some .eof }
    | some r => if emptyReplyYes r then go else pure { exit := 0 }
  else go

/-! ### trash-rm -/

inductive RmItem where
  | unparsable (info : Bytes)
  | entry (loc info : Bytes)
  | crash (c : Crash)

def rmItemsOf (fs : FS) (cwd : CPath) (volume : Bytes) (infos : List Bytes) : List RmItem :=
  infos.map fun i =>
    match contentsOf fs cwd i with
    | none => .crash .ioError
    | some text =>
      match parsePath text with
      | none => .unparsable i
      | some rel => .entry (pjoin volume rel) i

def rmInfos (cwd : CPath) (pattern volume : Bytes) : List Bytes → Prog (Option Crash)
  | [] => pure none
  | i :: rest => do
    let fs ← read
    match contentsOf fs cwd i with
    | none => do say (.stderr "unparsable" i); rmInfos cwd pattern volume rest     -- unreadable: reported, skipped
    | some text =>
      match parsePath text with
      | none => do say (.stderr "unparsable" i); rmInfos cwd pattern volume rest
      | some rel =>
        match rmMatches pattern (pjoin volume rel) with
        | none => pure (some .indexError)
        | some false => rmInfos cwd pattern volume rest
        | some true => do
          match ← purgePair (resolve fs cwd (pathOfBackupCopy i)) (resolve fs cwd i) with
          | .error _ => pure (some .osError)
          | .ok () => rmInfos cwd pattern volume rest

def rmDirs (cwd : CPath) (pattern : Bytes) : List (Bytes × Bytes) → Prog (Option Crash)
  | [] => pure none
  | (t, v) :: rest => do
    let fs ← read
    match infosOf fs cwd t with
    | .error c => pure (some c)
    | .ok infos =>
      match ← rmInfos cwd pattern v infos with
      | some c => pure (some c)
      | none => rmDirs cwd pattern rest

/-- `RmCmd.run` -/
def runRm (c : ReadCfg) (args : List Bytes) : Prog CmdResult := do
  match args with
  | [] => do say (.stderr "usage" []); pure { exit := 8 }
  | pattern :: _ =>
    let fs ← read
    match ← rmDirs c.cwd pattern (foundDirs (scanTrashDirs fs c)) with
    | some cr => do say (.stderr "traceback" []); pure { exit := 1, crash := some cr }
    | none => pure { exit := 0 }

end TrashVerif
