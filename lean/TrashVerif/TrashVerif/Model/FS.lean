/-
  Model/FS.lean — a flat POSIX file-system model: canonical paths ↦ nodes, a mount table,
  the mutating syscalls with their errnos, and kernel path resolution.
  The state is a *function* (`get`) so that the characterisation lemmas of every transformer are
  one-line unfoldings; `dom` is a finite superset of the support, used only to execute and print.
-/
import TrashVerif.Model.PathStr
namespace TrashVerif
open Bytes

abbrev Name := Bytes
abbrev CPath := List Name          -- canonical absolute path; [] is "/"

inductive Node where
  | file (data : Bytes) (mode mtime : Nat)
  | dir (mode mtime : Nat)
  | link (target : Bytes)
deriving DecidableEq, Repr

def Node.isDir : Node → Bool | .dir .. => true | _ => false
def Node.isLink : Node → Bool | .link .. => true | _ => false
def Node.isFile : Node → Bool | .file .. => true | _ => false

inductive Errno where
  | ENOENT | EEXIST | ENOTDIR | EISDIR | ENOTEMPTY | EXDEV | EBUSY | EINVAL | ELOOP | ENAMETOOLONG
  | EACCES | EPERM | EROFS | ENOSPC | EDQUOT | EIO | EMLINK
  | OTHER      -- an OSError raised by the stdlib itself (shutil.Error, rmtree on a symlink)
deriving DecidableEq, Repr

structure FS where
  get : CPath → Option Node
  dom : List CPath
  mounts : List CPath

namespace FS

def isPrefix (a p : CPath) : Bool := a.isPrefixOf p
/-- `p` is `a` or below it -/
def under (a p : CPath) : Bool := a.isPrefixOf p
def strictlyUnder (a p : CPath) : Bool := a.isPrefixOf p && a.length < p.length

def exists_ (fs : FS) (p : CPath) : Bool := (fs.get p).isSome
def isDirAt (fs : FS) (p : CPath) : Bool := match fs.get p with | some n => n.isDir | none => false
def isLinkAt (fs : FS) (p : CPath) : Bool := match fs.get p with | some n => n.isLink | none => false

def children (fs : FS) (p : CPath) : List CPath :=
  (fs.dom.filter fun q => q.length = p.length + 1 && isPrefix p q && exists_ fs q).eraseDups

def bytesLt : Bytes → Bytes → Bool
  | [], [] => false
  | [], _ :: _ => true
  | _ :: _, [] => false
  | a :: as, c :: cs => if a < c then true else if a > c then false else bytesLt as cs

def bytesLe (a c : Bytes) : Bool := !bytesLt c a

/-- children in the order the harness makes `listdir`/`scandir` return them: sorted by name -/
def sortedChildren (fs : FS) (p : CPath) : List CPath :=
  (children fs p).mergeSort fun a c => bytesLe (a.getLast?.getD []) (c.getLast?.getD [])

def hasChildren (fs : FS) (p : CPath) : Bool :=
  fs.dom.any fun q => strictlyUnder p q && exists_ fs q

def isMount (fs : FS) (p : CPath) : Bool := fs.mounts.contains p

/-- root of the device `p` lives on: its longest prefix that is a mount point -/
def dev (fs : FS) (p : CPath) : CPath :=
  (fs.mounts.filter fun m => isPrefix m p).foldl (fun best m => if m.length > best.length then m else best) []

/-! ### state transformers (defined on `get`) -/

def setNode (fs : FS) (p : CPath) (n : Node) : FS :=
  { fs with get := fun q => if q = p then some n else fs.get q, dom := p :: fs.dom }

def removeNode (fs : FS) (p : CPath) : FS :=
  { fs with get := fun q => if q = p then none else fs.get q }

/-- remove `p` and everything below it -/
def removeTree (fs : FS) (p : CPath) : FS :=
  { fs with get := fun q => if under p q then none else fs.get q }

/-- `rename(2)` of the subtree at `src` to `dst` (whatever was at or below `dst` disappears) -/
def moveTree (fs : FS) (src dst : CPath) : FS :=
  { fs with
    get := fun q =>
      if under dst q then fs.get (src ++ q.drop dst.length)
      else if under src q then none
      else fs.get q,
    dom := (fs.dom.filterMap fun q => if under src q then some (dst ++ q.drop src.length) else none) ++ fs.dom }

/-- a directory whose entry list changed gets a fresh mtime (canonicalised to 0) -/
def touchDir (fs : FS) (p : CPath) : FS :=
  match fs.get p with
  | some (.dir mode _) => { fs with get := fun q => if q = p then some (.dir mode 0) else fs.get q }
  | _ => fs

def parent (p : CPath) : CPath := p.dropLast

/-! ### syscalls on canonical paths (the final component is never followed here) -/

def nameMax : Nat := 255
def umask : Nat := 0o022
def applyUmask (mode : Nat) : Nat := mode - (mode &&& umask)

/-- checks every syscall that creates `p` performs on the parent -/
def checkParent (fs : FS) (p : CPath) : Except Errno Unit :=
  match p.getLast? with
  | none => .error .EEXIST                       -- "/" exists
  | some name =>
    if name.length > nameMax then .error .ENAMETOOLONG
    else match fs.get (parent p) with
      | none => .error .ENOENT
      | some (.dir ..) => .ok ()
      | some _ => .error .ENOTDIR

def mkdir (fs : FS) (p : CPath) (mode : Nat) : Except Errno FS := do
  checkParent fs p
  if exists_ fs p then .error .EEXIST
  else .ok (touchDir (setNode fs p (.dir (applyUmask mode) 0)) (parent p))

/-- `os.open(p, O_WRONLY|O_CREAT|O_EXCL, mode)` -/
def createExcl (fs : FS) (p : CPath) (mode : Nat) : Except Errno FS := do
  checkParent fs p
  if exists_ fs p then .error .EEXIST
  else .ok (touchDir (setNode fs p (.file [] (applyUmask mode) 0)) (parent p))

/-- `open(p, 'wb')`: create or truncate a regular file (copyfile's destination) -/
def createTrunc (fs : FS) (p : CPath) (mode : Nat) : Except Errno FS := do
  checkParent fs p
  match fs.get p with
  | none => .ok (touchDir (setNode fs p (.file [] (applyUmask mode) 0)) (parent p))
  | some (.file _ m _) => .ok (setNode fs p (.file [] m 0))
  | some (.dir ..) => .error .EISDIR
  | some (.link _) => .error .ELOOP         -- resolved paths never end in a link (see Front)

/-- `os.write(fd, data)` on the file created at `p` -/
def writeData (fs : FS) (p : CPath) (data : Bytes) : Except Errno FS :=
  match fs.get p with
  | some (.file old m _) => .ok (setNode fs p (.file (old ++ data) m 0))
  | some _ => .error .EISDIR
  | none => .error .ENOENT

def symlink (fs : FS) (target : Bytes) (p : CPath) : Except Errno FS := do
  checkParent fs p
  if exists_ fs p then .error .EEXIST
  else .ok (touchDir (setNode fs p (.link target)) (parent p))

def unlink (fs : FS) (p : CPath) : Except Errno FS :=
  match fs.get p with
  | none => .error .ENOENT
  | some (.dir ..) => .error .EISDIR
  | some _ => .ok (touchDir (removeNode fs p) (parent p))

def rmdir (fs : FS) (p : CPath) : Except Errno FS :=
  match fs.get p with
  | none => .error .ENOENT
  | some (.dir ..) =>
    if isMount fs p then .error .EBUSY
    else if hasChildren fs p then .error .ENOTEMPTY
    else .ok (touchDir (removeNode fs p) (parent p))
  | some _ => .error .ENOTDIR

def rename (fs : FS) (a c : CPath) : Except Errno FS :=
  match fs.get a with
  | none => .error .ENOENT
  | some na =>
    if isMount fs a then .error .EBUSY
    else if dev fs (parent a) ≠ dev fs (parent c) then .error .EXDEV
    else do
      checkParent fs c
      if a = c then .ok fs
      else if na.isDir ∧ under a c then .error .EINVAL
      else
        match fs.get c with
        | none => .ok (touchDir (touchDir (moveTree fs a c) (parent a)) (parent c))
        | some nc =>
          if isMount fs c then .error .EBUSY
          else if na.isDir ∧ ¬ nc.isDir then .error .ENOTDIR
          else if ¬ na.isDir ∧ nc.isDir then .error .EISDIR
          else if nc.isDir ∧ hasChildren fs c then .error .ENOTEMPTY
          else .ok (touchDir (touchDir (moveTree fs a c) (parent a)) (parent c))

def chmod (fs : FS) (p : CPath) (mode : Nat) : Except Errno FS :=
  match fs.get p with
  | some (.file d _ t) => .ok (setNode fs p (.file d mode t))
  | some (.dir _ t) => .ok (setNode fs p (.dir mode t))
  | some (.link _) => .ok fs
  | none => .error .ENOENT

def utime (fs : FS) (p : CPath) (t : Nat) : Except Errno FS :=
  match fs.get p with
  | some (.file d m _) => .ok (setNode fs p (.file d m t))
  | some (.dir m _) => .ok (setNode fs p (.dir m t))
  | some (.link _) => .ok fs
  | none => .error .ENOENT

/-! ### kernel path resolution -/

def comps (path : Bytes) : List Bytes := splitOn slash path

/-- Walk `cs` from the canonical directory `cur`.  The result is the canonical path of the final
    entry, which may be absent (then its parent exists and is a directory).  `followLast`:
    whether a symlink in final position is followed. -/
def walk (fs : FS) (followLast : Bool) : Nat → CPath → List Bytes → Except Errno CPath
  | _, cur, [] => .ok cur
  | fuel, cur, c :: rest =>
    match fs.get cur with
    | none => .error .ENOENT
    | some (.dir ..) =>
      if c = [] ∨ c = [dot] then walk fs followLast fuel cur rest
      else if c = dotdot then walk fs followLast fuel cur.dropLast rest
      else if c.length > nameMax then .error .ENAMETOOLONG
      else
        let p := cur ++ [c]
        match fs.get p with
        | some (.link t) =>
          if rest ≠ [] ∨ followLast then
            match fuel with
            | 0 => .error .ELOOP
            | fuel'+1 =>
              if t = [] then .error .ENOENT
              else walk fs followLast fuel' (if isAbs t then [] else cur) (comps t ++ rest)
          else .ok p
        | some _ => walk fs followLast fuel p rest
        | none => if rest.all (fun r => r = []) then .ok p else .error .ENOENT
    | some _ => .error .ENOTDIR
termination_by fuel _ cs => (fuel, cs.length)

def linkFuel : Nat := 40

/-- resolve a path string as the kernel does for `lstat`/`rename`/`unlink`/`mkdir` (final symlink
    not followed, unless the string ends with '/'), relative to the canonical `cwd` -/
def resolve (fs : FS) (cwd : CPath) (path : Bytes) (followLast : Bool := false) : Except Errno CPath :=
  if path = [] then .error .ENOENT
  else
    let trailing := path.getLast? = some slash ∧ ¬ path.all (· = slash)
    let start := if isAbs path then [] else cwd
    match walk fs (followLast || trailing) linkFuel start (comps path) with
    | .error e => .error e
    | .ok p =>
      if trailing then
        match fs.get p with
        | some (.dir ..) => .ok p
        | some _ => .error .ENOTDIR
        | none => .ok p
      else .ok p

/-- `os.lstat(path)` succeeded: the node -/
def lstat (fs : FS) (cwd : CPath) (path : Bytes) : Option Node :=
  match resolve fs cwd path with
  | .ok p => fs.get p
  | .error _ => none

/-- `os.stat(path)` -/
def stat (fs : FS) (cwd : CPath) (path : Bytes) : Option Node :=
  match resolve fs cwd path true with
  | .ok p => fs.get p
  | .error _ => none

def pLexists (fs : FS) (cwd : CPath) (path : Bytes) : Bool := (lstat fs cwd path).isSome
def pExists (fs : FS) (cwd : CPath) (path : Bytes) : Bool := (stat fs cwd path).isSome
def pIsdir (fs : FS) (cwd : CPath) (path : Bytes) : Bool :=
  match stat fs cwd path with | some n => n.isDir | none => false
def pIsfile (fs : FS) (cwd : CPath) (path : Bytes) : Bool :=
  match stat fs cwd path with | some n => n.isFile | none => false
def pIslink (fs : FS) (cwd : CPath) (path : Bytes) : Bool :=
  match lstat fs cwd path with | some n => n.isLink | none => false
def pSticky (fs : FS) (cwd : CPath) (path : Bytes) : Option Bool :=
  match stat fs cwd path with
  | some (.dir m _) => some (m &&& 0o1000 ≠ 0)
  | some (.file _ m _) => some (m &&& 0o1000 ≠ 0)
  | _ => none

/-- prefixes of a path string at component boundaries, shortest first: "/a/b" ↦ ["/a", "/a/b"] -/
def strPrefixes (p : Bytes) : List Bytes :=
  let cs := Bytes.splitOn slash p
  (List.range cs.length).filterMap fun k =>
    if cs.getD k [] = [] then none else some (Bytes.joinWith [slash] (cs.take (k + 1)))

/-- What `mkdir(2)` — hence `os.makedirs` — runs into when a symbolic link that does not resolve
    stands on the way: the first prefix of `p` that does not exist (links followed) is itself
    there, a dangling link.  `ENOENT` when it is a proper prefix (nothing can be created through
    it), `EEXIST` when it is `p` itself.  `none`: no such obstacle, the directories can be made at
    the canonical path `realpath p`. -/
def danglingOnPath (fs : FS) (cwd : CPath) (p : Bytes) : Option Errno :=
  match (strPrefixes p).find? (fun q => ¬ pExists fs cwd q) with
  | none => none
  | some q =>
    if pLexists fs cwd q then
      some (if (strPrefixes p).getLast? = some q then .EEXIST else .ENOENT)
    else none

def toStr (p : CPath) : Bytes := if p = [] then [slash] else p.flatMap fun n => slash :: n

/-- `posixpath.realpath` (non-strict): symlinks resolved where they exist, missing tails kept.
    `none` = a symlink loop was met (outside the modelled domain). -/
def realpathAux (fs : FS) : Nat → CPath → List Bytes → Option CPath
  | _, cur, [] => some cur
  | fuel, cur, c :: rest =>
    if c = [] ∨ c = [dot] then realpathAux fs fuel cur rest
    else if c = dotdot then realpathAux fs fuel cur.dropLast rest
    else
      let p := cur ++ [c]
      -- lstat(newpath) is a kernel lookup: it fails when `cur` is not a directory
      match (if isDirAt fs cur ∧ c.length ≤ nameMax then fs.get p else none) with
      | some (.link t) =>
        match fuel with
        | 0 => none
        | fuel'+1 => realpathAux fs fuel' (if isAbs t then [] else cur) (comps t ++ rest)
      | _ => realpathAux fs fuel p rest
termination_by fuel _ cs => (fuel, cs.length)

def realpath (fs : FS) (cwd : CPath) (path : Bytes) : Option CPath :=
  realpathAux fs linkFuel (if isAbs path then [] else cwd) (comps path)

/-- the patched `os.path.ismount` of the harness: an existing non-symlink whose canonical path is
    in the virtual mount table -/
def pIsmount (fs : FS) (cwd : CPath) (path : Bytes) : Bool :=
  match resolve fs cwd path with
  | .ok p => match fs.get p with
    | some (.link _) => false
    | some _ => isMount fs p
    | none => false
  | .error _ => false

/-- `VolumeOfImpl.volume_of`: lexical ascent over `abspath(path)` to the nearest mount point -/
def volumeOfAux (fs : FS) (cwd : CPath) : Nat → Bytes → Bytes
  | 0, p => p
  | fuel+1, p =>
    if p = dirname p then p
    else if pIsmount fs cwd p then p
    else volumeOfAux fs cwd fuel (dirname p)

def volumeOf (fs : FS) (cwd : CPath) (path : Bytes) : Bytes :=
  let a := abspath (toStr cwd) path
  volumeOfAux fs cwd (a.length + 1) a

/-! ### building and printing -/

def ofList (nodes : List (CPath × Node)) (mounts : List CPath) : FS :=
  { get := fun q => (nodes.find? fun (p, _) => p = q).map (·.2),
    dom := nodes.map (·.1),
    mounts := mounts }

def toList (fs : FS) : List (CPath × Node) :=
  fs.dom.eraseDups.filterMap fun p => (fs.get p).map fun n => (p, n)

end FS
end TrashVerif
