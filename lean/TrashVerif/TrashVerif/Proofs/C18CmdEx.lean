/-
  Proofs/C18CmdEx.lean — a concrete two-volume world for Props/C18Cmd.lean: non-vacuity of the
  hypotheses, the theorems instantiated, and whole runs of `runPut` evaluated by the kernel through
  the twins of Proofs/C16Eval.lean (`runPut = runPutS`).
-/
import TrashVerif.Proofs.C18CmdHome
import TrashVerif.Proofs.C18CmdVol
import TrashVerif.Proofs.C18CmdSeq
import TrashVerif.Proofs.C02CmdEx
import TrashVerif.Proofs.C07CmdEx
namespace TrashVerif.Proofs.C18CmdEx
open TrashVerif Prog FS PutCore C16Indep C07Cmd C18Cmd C02Cmd
open TrashVerif.Proofs.C16Eval
open TrashVerif.Proofs.C07CmdEx (ofList_fresh plain_of_takes)
open TrashVerif.Proofs.C02CmdEx (ofList_get_none ofList_get_none_deep)

def dN : Node := .dir 0o755 0
def st0 : PutSt := ⟨[], []⟩
/-- HOME = /h -/
def H : CPath := [b "h"]
/-- the second volume `/m` -/
def M : CPath := [b "m"]
def cfgH : PutCfg := { cwd := [], env := { home := some (toStr H) }, uid := 0, dateStr := b "D" }

/-- HOME=/h with an existing, empty trash on the root volume; `/p` holds the file `f`, the directory
    `d` (with `d/c`) and the links `dang -> nowhere`, `lf -> /p/f`, `ld -> /p/d`, `lm -> /m`,
    `ll -> ld` (a relative link to a link), `lsub -> /m/sub`; the mount point `/m` holds `sub/in` and
    the link `sub/back -> /p/d` (a link of `/m` whose target is on the root volume). -/
def nodesW : List (CPath × Node) :=
  [([], dN), (H, dN), (H ++ [b ".local"], dN), (H ++ [b ".local", b "share"], dN),
   (trashC H, dN), (filesC H, dN), (infoC H, dN),
   ([b "p"], dN), ([b "p", b "f"], .file [120] 0o644 7), ([b "p", b "d"], .dir 0o750 5),
   ([b "p", b "d", b "c"], .file [99] 0o600 3),
   ([b "p", b "dang"], .link (b "nowhere")), ([b "p", b "lf"], .link (b "/p/f")),
   ([b "p", b "ld"], .link (b "/p/d")), ([b "p", b "lm"], .link (b "/m")), ([b "p", b "ll"], .link (b "ld")),
   ([b "p", b "lsub"], .link (b "/m/sub")),
   (M, dN), (M ++ [b "sub"], dN), (M ++ [b "sub", b "in"], .file [105] 0o644 9),
   (M ++ [b "sub", b "back"], .link (b "/p/d"))]
def fsW : FS := FS.ofList nodesW [[], M]

/-! ### tools -/

/-- nothing is stored below `L` in a world given as a list no path of which is strictly below `L` -/
theorem ofList_leaf (nodes : List (CPath × Node)) (mounts : List CPath) (L : CPath)
    (h : nodes.all (fun pn => !(L.isPrefixOf pn.1 && decide (L.length < pn.1.length))) = true) :
    ∀ z rel, (FS.ofList nodes mounts).get (L ++ z :: rel) = none := by
  intro z rel
  refine ofList_get_none (fun pn hpn e => ?_)
  have := List.all_eq_true.1 h pn hpn
  rw [e] at this
  have hp : L.isPrefixOf (L ++ z :: rel) = true := List.isPrefixOf_iff_prefix.2 (List.prefix_append _ _)
  simp [hp] at this

theorem ok_of_some {e : Except Errno CPath} {D : CPath}
    (h : (match e with | .ok p => some p | .error _ => none) = some D) : e = .ok D := by
  cases e with
  | error _ => cases h
  | ok p => cases h; rfl

theorem fsW_deep : ∀ q : CPath, 6 ≤ q.length → fsW.get q = none :=
  ofList_get_none_deep 6 (by decide +kernel)

local macro "goodArgW" : term =>
  `(({ names := by unfold TrashVerif.C07.GoodNames; decide +kernel, parentPlain := TrashVerif.Proofs.C07CmdEx.plain_of_takes (by decide +kernel),
       present := by decide +kernel, notMount := by decide +kernel, sameVolume := by decide +kernel,
       apartInfo := by decide +kernel, apartFiles := by decide +kernel } : GoodArg _ _ _ _))

local macro "isLinkW" : term =>
  `(({ node := by decide +kernel,
       leaf := TrashVerif.Proofs.C18CmdEx.ofList_leaf TrashVerif.Proofs.C18CmdEx.nodesW [[], TrashVerif.Proofs.C18CmdEx.M] _
         (by decide +kernel) } : IsLink _ _ _))

/-! ### the hypotheses hold -/

theorem world : HomeWorld cfgH fsW H :=
  { noTrashDir := rfl, noForcedVolume := rfl, noPrompt := by decide, xdgUnset := rfl, home := rfl,
    homeNotRoot := by decide, homeNames := by unfold TrashVerif.C07.GoodNames; decide +kernel,
    filesPlain := plain_of_takes (by decide +kernel), infoPlain := plain_of_takes (by decide +kernel),
    rootMounted := by decide +kernel, filesSameVolume := by decide +kernel }

theorem mountsW : MountsOk fsW := ⟨by decide +kernel, by decide +kernel⟩
theorem infoNotMount : fsW.isMount (infoC H) = false := by decide +kernel

theorem argDang : GoodArg fsW H [b "p"] (b "dang") := goodArgW
theorem argLf : GoodArg fsW H [b "p"] (b "lf") := goodArgW
theorem argLd : GoodArg fsW H [b "p"] (b "ld") := goodArgW
theorem argLm : GoodArg fsW H [b "p"] (b "lm") := goodArgW
theorem argLl : GoodArg fsW H [b "p"] (b "ll") := goodArgW

theorem linkDang : IsLink fsW ([b "p"] ++ [b "dang"]) (b "nowhere") := isLinkW
theorem linkLf : IsLink fsW ([b "p"] ++ [b "lf"]) (b "/p/f") := isLinkW
theorem linkLd : IsLink fsW ([b "p"] ++ [b "ld"]) (b "/p/d") := isLinkW
theorem linkLm : IsLink fsW ([b "p"] ++ [b "lm"]) (b "/m") := isLinkW
theorem linkLl : IsLink fsW ([b "p"] ++ [b "ll"]) (b "ld") := isLinkW

theorem freeFiles (nm : Name) : ∀ rel, fsW.get (filesC H ++ [nm] ++ rel) = none :=
  fun rel => fsW_deep _ (by simp [filesC, trashC, H])
theorem infoEmpty : ∀ x, fsW.get (infoC H ++ [x]) = none := fun x => fsW_deep _ (by simp [infoC, trashC, H])

/-- trailing slashes are fine on the links that lead to a directory: `ld`, `lm`, `ll` -/
theorem slashLd (k : Nat) : SlashOk fsW cfgH.cwd [b "p"] (b "ld") k := Or.inr (by rw [pIsdir_eq]; decide +kernel)
theorem slashLm (k : Nat) : SlashOk fsW cfgH.cwd [b "p"] (b "lm") k := Or.inr (by rw [pIsdir_eq]; decide +kernel)
theorem slashLl (k : Nat) : SlashOk fsW cfgH.cwd [b "p"] (b "ll") k := Or.inr (by rw [pIsdir_eq]; decide +kernel)
/-- … and only the bare spelling on the others -/
theorem slash0 (P : CPath) (n : Name) : SlashOk fsW cfgH.cwd P n 0 := Or.inl rfl

theorem leadsLd : LeadsTo fsW cfgH.cwd [b "p"] (b "ld") [b "p", b "d"] := by
  unfold LeadsTo; rw [resolve_eq]; exact ok_of_some (by decide +kernel)
theorem leadsLl : LeadsTo fsW cfgH.cwd [b "p"] (b "ll") [b "p", b "d"] := by
  unfold LeadsTo; rw [resolve_eq]; exact ok_of_some (by decide +kernel)
theorem leadsLm : LeadsTo fsW cfgH.cwd [b "p"] (b "lm") M := by
  unfold LeadsTo; rw [resolve_eq]; exact ok_of_some (by decide +kernel)

theorem asideD (nm : Name) (h : nm ≠ b "d") :
    Aside [b "p", b "d"] ([b "p"] ++ [nm]) (filesC H ++ [nm]) (infoC H ++ [nm ++ trashinfoExt]) := by
  refine ⟨?_, ?_, ?_⟩
  · intro hp
    have := hp.eq_of_length_le (by simp)
    simp at this
    exact h this.symm
  · intro hp
    have h1 : ([b "p"] : CPath) <+: filesC H ++ [nm] := (show [b "p"] <+: [b "p", b "d"] from ⟨[b "d"], rfl⟩).trans hp
    revert h1; simp [filesC, trashC, H]; decide +kernel
  · intro hp
    have h1 : ([b "p"] : CPath) <+: infoC H ++ [nm ++ trashinfoExt] :=
      (show [b "p"] <+: [b "p", b "d"] from ⟨[b "d"], rfl⟩).trans hp
    revert h1; simp [infoC, trashC, H]; decide +kernel

/-! ### the link `/m/sub/back -> /p/d`: it lives on `/m`, its target on the root volume -/

theorem otherM : OtherVolume fsW H (trashC H) [] M :=
  { homeSplit := by simp
    homeSite :=
      { names := by unfold TrashVerif.C07.GoodNames; decide +kernel
        basePlain := plain_of_takes (by decide +kernel)
        missing := fun x R' e => by cases e }
    homeElsewhere := by decide +kernel
    volPlain := plain_of_takes (by decide +kernel)
    volNames := by unfold TrashVerif.C07.GoodNames; decide +kernel
    volMount := by decide +kernel }

theorem homeCfg : HomeCfg cfgH H :=
  { noTrashDir := rfl, noForcedVolume := rfl, noPrompt := by decide, xdgUnset := rfl, home := rfl,
    homeNotRoot := by decide }

theorem altM : FreshSite fsW M (altName cfgH.uid) [] :=
  { names := by unfold TrashVerif.C07.GoodNames; decide +kernel
    basePlain := plain_of_takes (by decide +kernel)
    fresh := fun rel => by
      have := ofList_fresh nodesW [[], M] (M ++ [altName cfgH.uid]) (by decide +kernel) rel
      show (FS.ofList nodesW [[], M]).get _ = none
      simpa using this }

theorem argBack : Arg fsW (M ++ [b "sub"]) (b "back") :=
  { names := by unfold TrashVerif.C07.GoodNames; decide +kernel, shortName := by decide +kernel
    parentPlain := plain_of_takes (by decide +kernel), present := by decide +kernel, notMount := by decide +kernel }

theorem linkBack : IsLink fsW ((M ++ [b "sub"]) ++ [b "back"]) (b "/p/d") := isLinkW
theorem uidGood : TrashVerif.C07.GoodNames [uidName cfgH.uid] := by unfold TrashVerif.C07.GoodNames; decide +kernel
theorem slashBack (k : Nat) : SlashOk fsW cfgH.cwd (M ++ [b "sub"]) (b "back") k := Or.inr (by rw [pIsdir_eq]; decide +kernel)
theorem leadsBack : LeadsTo fsW cfgH.cwd (M ++ [b "sub"]) (b "back") [b "p", b "d"] := by
  unfold LeadsTo; rw [resolve_eq]; exact ok_of_some (by decide +kernel)

/-! ### `/p/lsub -> /m/sub`: the entry `/m/sub/in` named through it -/

theorem throughLsub : Through fsW [b "p"] (b "lsub") (M ++ [b "sub"]) :=
  { linkNames := by unfold TrashVerif.C07.GoodNames; decide +kernel
    parentPlain := plain_of_takes (by decide +kernel)
    link := by decide +kernel
    targetNames := by unfold TrashVerif.C07.GoodNames; decide +kernel
    targetPlain := plain_of_takes (by decide +kernel) }

theorem argIn : Arg fsW (M ++ [b "sub"]) (b "in") :=
  { names := by unfold TrashVerif.C07.GoodNames; decide +kernel, shortName := by decide +kernel
    parentPlain := plain_of_takes (by decide +kernel), present := by decide +kernel, notMount := by decide +kernel }

theorem argLsub : GoodArg fsW H [b "p"] (b "lsub") := goodArgW
theorem linkLsub : IsLink fsW ([b "p"] ++ [b "lsub"]) (toStr (M ++ [b "sub"])) := isLinkW

/-! ### whole runs, evaluated by the kernel -/

/-- `trash-put <arg>` in the world `fsW` -/
abbrev put1 (arg : Bytes) : PutResult × RunState := run noFaults (runPut cfgH [arg] st0) { fs := fsW }

def tF : CPath := filesC H
def tI : CPath := infoC H

/-- every kind of link, every spelling that exists: the LINK is in `files/`, with its target string;
    it is gone from `/p`; what it pointed to is where and what it was -/
theorem evalHome :
    (put1 (b "/p/dang")).1.outcomes = [(b "/p/dang", .trashed (b "/h/.local/share/Trash") (b "dang.trashinfo"))] ∧
    (put1 (b "/p/dang")).2.fs.get (tF ++ [b "dang"]) = some (.link (b "nowhere")) ∧
    (put1 (b "/p/lf")).1.outcomes = [(b "/p/lf", .trashed (b "/h/.local/share/Trash") (b "lf.trashinfo"))] ∧
    (put1 (b "/p/lf")).2.fs.get (tF ++ [b "lf"]) = some (.link (b "/p/f")) ∧
    (put1 (b "/p/lf")).2.fs.get [b "p", b "f"] = some (.file [120] 0o644 7) ∧
    (put1 (b "/p/ld/")).1.outcomes = [(b "/p/ld/", .trashed (b "/h/.local/share/Trash") (b "ld.trashinfo"))] ∧
    (put1 (b "/p/ld/")).2.fs.get (tF ++ [b "ld"]) = some (.link (b "/p/d")) ∧
    (put1 (b "/p/ld/")).2.fs.get (tF ++ [b "ld", b "c"]) = none ∧
    (put1 (b "/p/ld/")).2.fs.get [b "p", b "ld"] = none ∧
    (put1 (b "/p/ld/")).2.fs.get [b "p", b "d"] = some (.dir 0o750 5) ∧
    (put1 (b "/p/ld/")).2.fs.get [b "p", b "d", b "c"] = some (.file [99] 0o600 3) ∧
    (put1 (b "/p/ld/")).2.fs.get (tI ++ [b "ld.trashinfo"]) = some (.file (formatTrashinfoWith (b "/p/ld") (b "D")) 0o600 0) ∧
    (put1 (b "/p/lm//")).1.outcomes = [(b "/p/lm//", .trashed (b "/h/.local/share/Trash") (b "lm.trashinfo"))] ∧
    (put1 (b "/p/lm//")).2.fs.get (tF ++ [b "lm"]) = some (.link (b "/m")) ∧
    (put1 (b "/p/lm//")).2.fs.get (M ++ [altName 0]) = none ∧ (put1 (b "/p/lm//")).2.fs.get (M ++ [b ".Trash"]) = none ∧
    (put1 (b "/p/lm//")).2.fs.get M = some dN ∧
    (put1 (b "/p/ll/")).1.outcomes = [(b "/p/ll/", .trashed (b "/h/.local/share/Trash") (b "ll.trashinfo"))] ∧
    (put1 (b "/p/ll/")).2.fs.get (tF ++ [b "ll"]) = some (.link (b "ld")) ∧
    (put1 (b "/p/ll/")).2.fs.get [b "p", b "ld"] = some (.link (b "/p/d")) := by
  simp only [put1, runPut_eq]; decide +kernel

/-- the link of `/m` goes to `/m/.Trash-0`, recorded relative to `/m`; nothing appears in the home trash
    of the volume its target is on -/
theorem evalBack :
    (put1 (b "/m/sub/back/")).1.outcomes = [(b "/m/sub/back/", .trashed (b "/m/.Trash-0") (b "back.trashinfo"))] ∧
    (put1 (b "/m/sub/back/")).2.fs.get (M ++ [altName 0, b "files", b "back"]) = some (.link (b "/p/d")) ∧
    (put1 (b "/m/sub/back/")).2.fs.get (M ++ [altName 0, b "info", b "back.trashinfo"]) =
      some (.file (formatTrashinfoWith (b "sub/back") (b "D")) 0o600 0) ∧
    (put1 (b "/m/sub/back/")).2.fs.get (tF ++ [b "back"]) = none ∧
    (put1 (b "/m/sub/back/")).2.fs.get [b "p", b "d"] = some (.dir 0o750 5) := by
  simp only [put1, runPut_eq]; decide +kernel

/-- `lexists("dang/")` and `lexists("lf/")` are false: the kernel follows the link and wants a directory -/
theorem evalRefused :
    (HomeWorld cfgH fsW H ∧ GoodArg fsW H [b "p"] (b "dang") ∧ IsLink fsW ([b "p"] ++ [b "dang"]) (b "nowhere") ∧
      GoodArg fsW H [b "p"] (b "lf") ∧ IsLink fsW ([b "p"] ++ [b "lf"]) (b "/p/f")) ∧
    spelled [b "p"] (b "dang") 1 = b "/p/dang/" ∧ spelled [b "p"] (b "lf") 2 = b "/p/lf//" ∧
    (put1 (b "/p/dang/")).1.outcomes = [(b "/p/dang/", .failedMissing)] ∧ (put1 (b "/p/dang/")).1.exit = 74 ∧
    (put1 (b "/p/dang/")).2.trace = [] ∧
    (put1 (b "/p/lf//")).1.outcomes = [(b "/p/lf//", .failedMissing)] ∧ (put1 (b "/p/lf//")).1.exit = 74 ∧
    (put1 (b "/p/lf//")).2.trace = [] := by
  refine ⟨⟨world, argDang, linkDang, argLf, linkLf⟩, by decide +kernel, by decide +kernel, ?_⟩
  simp only [put1, runPut_eq]; decide +kernel

/-- two arguments in one run: `lsub/in` goes by the volume of the link's TARGET, `lsub/` by the link's own -/
theorem evalThrough :
    let r := run noFaults (runPut cfgH [b "/p/lsub/in", b "/p/lsub/"] st0) { fs := fsW }
    r.1.outcomes = [(b "/p/lsub/in", .trashed (b "/m/.Trash-0") (b "in.trashinfo")),
                    (b "/p/lsub/", .trashed (b "/h/.local/share/Trash") (b "lsub.trashinfo"))] ∧
    r.1.exit = 0 ∧
    r.2.fs.get (M ++ [altName 0, b "files", b "in"]) = some (.file [105] 0o644 9) ∧
    r.2.fs.get (M ++ [altName 0, b "info", b "in.trashinfo"]) = some (.file (formatTrashinfoWith (b "sub/in") (b "D")) 0o600 0) ∧
    r.2.fs.get (M ++ [b "sub", b "in"]) = none ∧
    r.2.fs.get (tF ++ [b "lsub"]) = some (.link (b "/m/sub")) ∧
    r.2.fs.get (tI ++ [b "lsub.trashinfo"]) = some (.file (formatTrashinfoWith (b "/p/lsub") (b "D")) 0o600 0) ∧
    r.2.fs.get [b "p", b "lsub"] = none ∧
    r.2.fs.get (M ++ [b "sub"]) = some dN ∧ r.2.fs.get (M ++ [b "sub", b "back"]) = some (.link (b "/p/d")) ∧
    r.2.fs.get (M ++ [altName 0, b "files", b "lsub"]) = none ∧ r.2.fs.get (tF ++ [b "in"]) = none := by
  simp only [runPut_eq]; decide +kernel

/-- … and in the other order: the link first, then `lsub/in` no longer exists (the way to it is gone) -/
theorem evalThroughReversed :
    let r := run noFaults (runPut cfgH [b "/p/lsub/", b "/p/lsub/in"] st0) { fs := fsW }
    r.1.outcomes = [(b "/p/lsub/", .trashed (b "/h/.local/share/Trash") (b "lsub.trashinfo")),
                    (b "/p/lsub/in", .failedMissing)] ∧
    r.2.fs.get (M ++ [b "sub", b "in"]) = some (.file [105] 0o644 9) := by
  simp only [runPut_eq]; decide +kernel

end TrashVerif.Proofs.C18CmdEx
