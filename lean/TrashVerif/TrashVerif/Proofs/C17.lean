/-
  Proofs/C17.lean — the lemmas Props/C17.lean refers to: the name search gives up at once on an
  incurable error, issues at most four calls per unit of fuel, and — under an arbitrary fault oracle
  that spares `rename` and `unlink` — `putCore` either trashes the entry wholly or leaves nothing
  behind.  The calculus and the loop invariant live in Proofs/C17Lemmas.lean.
-/
import TrashVerif.Proofs.C17Lemmas
namespace TrashVerif.Proofs.C17
open TrashVerif Prog FS PutCore

theorem persist_gives_up (φ : Oracle) (_fs : FS) (infoC filesC : CPath) (base content : Bytes) (st : PutSt)
    (e : Errno) (fuel index : Nat) (tooLong : Bool) (he : e ≠ .EEXIST) (hl : e ≠ .ENAMETOOLONG ∨ tooLong = true)
    (s0 : RunState)
    (hfree : lexistsC s0.fs (filesC ++ [stemOf (trashinfoBasename base (suffixFor index st).1 tooLong)]) = false)
    (hφ : φ s0.n (kindCount s0.trace "createExcl")
            (.createExcl (infoC ++ [trashinfoBasename base (suffixFor index st).1 tooLong]) 0o600) = some e) :
    let res := run φ (persistLoop infoC filesC base content (fuel + 1) index tooLong st) s0
    res.1.1 = .failed e ∧ res.2.fs = s0.fs ∧ res.2.n = s0.n + 1 := by
  intro res
  have hres : res = ((.failed e, (suffixFor index st).2),
      after s0 (.createExcl (infoC ++ [trashinfoBasename base (suffixFor index st).1 tooLong]) 0o600) (.error e) s0.fs) := by
    show run φ _ s0 = _
    rw [run_persistLoop_succ]
    simp only [hfree, Bool.false_eq_true, if_false, atomicWrite_fault φ _ content s0 e hφ]
    rcases hl with hl | hl
    · cases e <;> simp_all
    · subst hl
      cases e <;> simp_all
  rw [hres]
  exact ⟨rfl, rfl, rfl⟩

theorem persist_bounded (φ : Oracle) (infoC filesC : CPath) (base content : Bytes) (st : PutSt)
    (fuel index : Nat) (tooLong : Bool) (s0 : RunState) :
    (run φ (persistLoop infoC filesC base content fuel index tooLong st) s0).2.n ≤ s0.n + 4 * fuel := by
  induction fuel generalizing index tooLong st s0 with
  | zero => simp [persistLoop]
  | succ fuel ih =>
    rw [run_persistLoop_succ]
    dsimp only
    have hn := atomicWrite_n φ (infoC ++ [trashinfoBasename base (suffixFor index st).1 tooLong]) content s0
    split
    · have := ih (suffixFor index st).2 (index + 1) tooLong s0
      omega
    · split
      · simp only; omega
      · split
        · simp only; omega
        · have := ih (suffixFor index st).2 (index + 1) true
            (run φ (atomicWrite (infoC ++ [trashinfoBasename base (suffixFor index st).1 tooLong]) content) s0).2
          omega
      · have := ih (suffixFor index st).2 (index + 1) tooLong
            (run φ (atomicWrite (infoC ++ [trashinfoBasename base (suffixFor index st).1 tooLong]) content) s0).2
        omega
      · simp only; omega

theorem put_faulty_conserves_partial (φ : Oracle) (fs : FS) (infoC filesC src : CPath) (base content : Bytes)
    (st : PutSt) (h : Setting fs infoC filesC src)
    (hren : ∀ n k a c, φ n k (.rename a c) = none) (hunl : ∀ n k p, φ n k (.unlink p) = none) :
    let res := run φ (putCore infoC filesC base content (fun _ => .ok src) st) { fs := fs }
    (∀ name, res.1.1 = .ok name → Trashed fs res.2.fs infoC filesC src name content) ∧
    (∀ r, res.1.1 = .error r → (∃ e, r = .persistError e) ∧ Untouched fs res.2.fs infoC) := by
  intro res
  have g := Geo.of_setting h
  have hFI : ∀ x, filesC ++ [x] ≠ infoC := fun x => (g.IF.symm.append_left _).ne
  have hspec := persistLoop_spec φ hunl infoC filesC base content hFI persistFuel 0 false st { fs := fs }
  rcases hr : run φ (persistLoop infoC filesC base content persistFuel 0 false st) { fs := fs }
    with ⟨⟨pr, st'⟩, s1⟩
  rw [hr] at hspec
  have hres0 : res = run φ (putCore infoC filesC base content (fun _ => .ok src) st) { fs := fs } := rfl
  unfold putCore at hres0
  rw [run_bind, hr] at hres0
  dsimp only at hres0 hspec
  cases pr with
  | created name =>
    obtain ⟨hcr, hfree⟩ := hspec.1 name rfl
    dsimp only at hcr hfree
    have hdst : s1.fs.get (filesC ++ [stemOf name]) = none := by
      rw [hcr.same _ (g.IF.symm.append_left _).ne (g.IF.symm.append _ _).ne, hfree]
    dsimp only at hres0
    rw [run_read_bind, run_bind, run_move_free φ hren src _ s1 _ hdst (rename_ok h hcr hfree)] at hres0
    dsimp only [run_pure] at hres0
    rw [hres0]
    refine ⟨fun n hn => ?_, fun r hr' => by cases hr'⟩
    cases hn
    exact trashed_of_created h hcr hfree
  | failed e =>
    have hnear := hspec.2 (fun _ hn => by cases hn)
    dsimp only [run_pure] at hres0 hnear
    rw [hres0]
    refine ⟨fun n hn => (by cases hn), fun r hr' => ?_⟩
    cases hr'
    exact ⟨⟨e, rfl⟩, hnear.same, hnear.kept⟩
  | outOfFuel =>
    have hnear := hspec.2 (fun _ hn => by cases hn)
    dsimp only [run_pure] at hres0 hnear
    rw [hres0]
    refine ⟨fun n hn => (by cases hn), fun r hr' => ?_⟩
    cases hr'
    exact ⟨⟨.ELOOP, rfl⟩, hnear.same, hnear.kept⟩

end TrashVerif.Proofs.C17
