/-
  Proofs/C05CmdRun.lean — the crash theorems of Props/C05Cmd.lean for the settings of Props/C07Cmd.lean:
  the whole-run theorems of Proofs/C07Cmd.lean give the trace, Proofs/C05Cmd.lean does the rest.
-/
import TrashVerif.Proofs.C05Cmd
import TrashVerif.Proofs.C05CmdHome
import TrashVerif.Proofs.C07Cmd
namespace TrashVerif.Proofs.C05CmdRun
open TrashVerif Prog FS PutCore PutLemmas C07Cmd C05Cmd C16Indep C03Cmd
open TrashVerif.Proofs.C07 (Plain GoodNames)
open TrashVerif.Proofs.C16IndepHome (locOf_eq)
open TrashVerif.Proofs.C05Cmd TrashVerif.Proofs.C05CmdCore

section home
variable {c : PutCfg} {fs : FS} {H Q : CPath} {x : Name} {R P : CPath} {n : Name} {d : Date}
  (C : HomeCfg c H) (hsplit : trashC H = Q ++ x :: R) (S : FreshSite fs Q x R) (A : Arg fs P n)
  (hm : MountsOk fs) (hvol : dev fs P = dev fs Q) (hapart : ¬ (P ++ [n]) <+: Q) (K : Clock c d) (st : PutSt)

include C hsplit S A hm hvol hapart K in
/-- trace and final state of the home first use, in the form Proofs/C05Cmd.lean wants -/
theorem home_facts :
    (run noFaults (runPut c [toStr (P ++ [n])] st) { fs := fs }).2.trace =
      firstUseTrace Q x R (P ++ [n]) n (formatTrashinfoWith (toStr (P ++ [n])) d.fmt) ∧
    ∃ fs1, SiteCreated fs fs1 Q x R ∧
      Trashed fs1 (run noFaults (runPut c [toStr (P ++ [n])] st) { fs := fs }).2.fs (infoOf (Q ++ x :: R))
        (filesOf (Q ++ x :: R)) (P ++ [n]) (n ++ trashinfoExt) (formatTrashinfoWith (toStr (P ++ [n])) d.fmt) := by
  obtain ⟨_, _, _, _, htr, fs1, SC, T⟩ := Proofs.C07Cmd.home_first_use C hsplit S A hm hvol hapart st
  rw [locOf_eq P n A.names, K.reading] at htr T
  have e1 : infoC H = infoOf (Q ++ x :: R) := by unfold infoC infoOf; rw [hsplit]
  have e2 : filesC H = filesOf (Q ++ x :: R) := by unfold filesC filesOf; rw [hsplit]
  rw [e1, e2] at T
  exact ⟨htr, fs1, SC, T⟩

include C hsplit S A hm hvol hapart K in
theorem home_first_use_crash :
    ∀ s ∈ crashStates noFaults (runPut c [toStr (P ++ [n])] st) fs,
      CrashInv fs s (infoC H) (filesC H) (P ++ [n]) n (toStr (P ++ [n])) d := by
  obtain ⟨htr, hT⟩ := home_facts C hsplit S A hm hvol hapart K st
  have e1 : infoC H = infoOf (Q ++ x :: R) := by unfold infoC infoOf; rw [hsplit]
  have e2 : filesC H = filesOf (Q ++ x :: R) := by unfold filesC filesOf; rw [hsplit]
  rw [e1, e2]
  exact first_use_crash_inv _ S A.present hapart _ d K.valid K.fourDigits htr hT

include C hsplit S A hm hvol hapart K in
theorem home_first_use_states :
    crashStates noFaults (runPut c [toStr (P ++ [n])] st) fs =
      statesAlong fs (firstUseCalls Q x R (P ++ [n]) n (formatTrashinfoWith (toStr (P ++ [n])) d.fmt)) ∧
    ∃ dirs fs1,
      crashStates noFaults (runPut c [toStr (P ++ [n])] st) fs =
        dirs ++ [fs1, afterCreate fs1 (infoC H ++ [n ++ trashinfoExt]),
          afterWrite fs1 (infoC H ++ [n ++ trashinfoExt]) (formatTrashinfoWith (toStr (P ++ [n])) d.fmt),
          afterWrite fs1 (infoC H ++ [n ++ trashinfoExt]) (formatTrashinfoWith (toStr (P ++ [n])) d.fmt),
          (run noFaults (runPut c [toStr (P ++ [n])] st) { fs := fs }).2.fs] ∧
      dirs.length = R.length + 3 ∧ dirs.head? = some fs ∧
      (∀ s ∈ dirs, DirsOnly fs s Q x R) ∧ SiteCreated fs fs1 Q x R ∧
      Trashed fs1 (run noFaults (runPut c [toStr (P ++ [n])] st) { fs := fs }).2.fs (infoC H) (filesC H) (P ++ [n])
        (n ++ trashinfoExt) (formatTrashinfoWith (toStr (P ++ [n])) d.fmt) := by
  obtain ⟨htr, hT⟩ := home_facts C hsplit S A hm hvol hapart K st
  have e1 : infoC H = infoOf (Q ++ x :: R) := by unfold infoC infoOf; rw [hsplit]
  have e2 : filesC H = filesOf (Q ++ x :: R) := by unfold filesC filesOf; rw [hsplit]
  constructor
  · rw [crashStates_replay, htr, callsOf_firstUse]
  · obtain ⟨dirs, fs1, h1, h2, h3, h4, _, h6, h7⟩ := first_use_states _ S htr hT
    rw [e1, e2]
    exact ⟨dirs, fs1, h1, h2, h3, h4, h6, h7⟩

end home

/-! ### the volume trash directories, `--trash-dir` -/

theorem volume_alt_crash {c : PutCfg} {fs : FS} {H Qh Rh V P' : CPath} {n : Name} {d : Date} (C : HomeCfg c H)
    (W : OtherVolume fs H Qh Rh V) (hm : MountsOk fs) (S : FreshSite fs V (altName c.uid) []) (A : Arg fs (V ++ P') n)
    (hon : dev fs (V ++ P') = V) (hu : GoodNames [uidName c.uid]) (hnoTop : fs.get (V ++ [b ".Trash"]) = none)
    (K : Clock c d) (st : PutSt) :
    ∀ s ∈ crashStates noFaults (runPut c [toStr ((V ++ P') ++ [n])] st) fs,
      CrashInv fs s (infoOf (V ++ [altName c.uid])) (filesOf (V ++ [altName c.uid])) ((V ++ P') ++ [n]) n (relLoc P' n) d := by
  obtain ⟨_, _, _, _, htr, hT⟩ := Proofs.C07Cmd.other_volume_alt C W hm S A hon hu hnoTop st
  rw [K.reading] at htr hT
  have hapart : ¬ ((V ++ P') ++ [n]) <+: V := fun h => by
    have := h.length_le; simp at this; omega
  exact first_use_crash_inv _ S A.present hapart _ d K.valid K.fourDigits htr hT

theorem volume_top_crash {c : PutCfg} {fs : FS} {H Qh Rh V P' : CPath} {n : Name} {m t : Nat} {d : Date} (C : HomeCfg c H)
    (W : OtherVolume fs H Qh Rh V) (hm : MountsOk fs)
    (S : FreshSite fs (V ++ [b ".Trash"]) (uidName c.uid) []) (A : Arg fs (V ++ P') n)
    (hon : dev fs (V ++ P') = V) (htop : fs.get (V ++ [b ".Trash"]) = some (.dir m t)) (hsticky : m &&& 0o1000 ≠ 0)
    (hnm : fs.isMount (V ++ [b ".Trash"]) = false) (hapart : ¬ ((V ++ P') ++ [n]) <+: V ++ [b ".Trash"])
    (K : Clock c d) (st : PutSt) :
    ∀ s ∈ crashStates noFaults (runPut c [toStr ((V ++ P') ++ [n])] st) fs,
      CrashInv fs s (infoOf (V ++ [b ".Trash"] ++ [uidName c.uid])) (filesOf (V ++ [b ".Trash"] ++ [uidName c.uid]))
        ((V ++ P') ++ [n]) n (relLoc P' n) d := by
  obtain ⟨_, _, _, _, htr, hT⟩ := Proofs.C07Cmd.volume_top C W hm S A hon htop hsticky hnm hapart st
  rw [K.reading] at htr hT
  exact first_use_crash_inv _ S A.present hapart _ d K.valid K.fourDigits htr hT

theorem custom_crash {c : PutCfg} {fs : FS} {Q : CPath} {x : Name} {R V P' : CPath} {n : Name} {d : Date}
    (C : CustomCfg c (Q ++ x :: R)) (S : FreshSite fs Q x R) (hV : dev fs Q = V) (A : Arg fs (V ++ P') n)
    (hon : dev fs (V ++ P') = V) (hm : MountsOk fs) (hapart : ¬ ((V ++ P') ++ [n]) <+: Q) (K : Clock c d) (st : PutSt) :
    ∀ s ∈ crashStates noFaults (runPut c [toStr ((V ++ P') ++ [n])] st) fs,
      CrashInv fs s (infoOf (Q ++ x :: R)) (filesOf (Q ++ x :: R)) ((V ++ P') ++ [n]) n (relLoc P' n) d := by
  obtain ⟨_, _, _, _, htr, hT⟩ := Proofs.C07Cmd.custom_same_volume C S hV A hon hm hapart st
  rw [K.reading] at htr hT
  exact first_use_crash_inv _ S A.present hapart _ d K.valid K.fourDigits htr hT

/-! ### consequences of the invariant -/

/-- no crash state shows the payload next to an empty or missing info file -/
theorem payload_has_info {fs s : FS} {I F src : CPath} {stem loc : Bytes} {d : Date}
    (h : CrashInv fs s I F src stem loc d) (hp : (s.get (F ++ [stem])).isSome = true) :
    ∃ data m t, s.get (I ++ [stem ++ trashinfoExt]) = some (.file data m t) ∧ data ≠ [] ∧
      (readText data).bind parsePath = some loc ∧ (readText data).bind parseDeletionDate = some d := by
  obtain ⟨data, m, t, h1, _, h3, h4, h5⟩ := h.infoFirst hp
  refine ⟨data, m, t, h1, ?_, h4, h5⟩
  rintro rfl
  revert h3; decide

end TrashVerif.Proofs.C05CmdRun
