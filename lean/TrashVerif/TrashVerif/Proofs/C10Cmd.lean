/-
  Proofs/C10Cmd.lean — proofs of the command-level theorems of trash-empty (Props/C10Cmd.lean).
  The induction over the trash directories is `Proofs.C14LoopMulti.real_dirs` (scan, loop, orphan pass,
  directory by directory); here the `EmptyWorld` of Props/C10CmdDefs.lean (the `PlainWorld` of trash-rm
  plus the orphan hypotheses) is turned into its `DirsSetting`, and its per-directory conclusions
  (relative to a state that agrees with the initial one in the region of the directory) into the
  `PurgedAll` of Props/C12CmdDefs.lean, against the INITIAL state.
-/
import TrashVerif.Props.C10CmdDefs
import TrashVerif.Proofs.C12CmdTop
import TrashVerif.Proofs.C14LoopPlainMulti
import TrashVerif.Proofs.C10CmdDirs
namespace TrashVerif.Proofs.C10Cmd
open TrashVerif Prog FS PutCore PutLemmas C09Hist C10Loop C12Cmd C10Cmd
open TrashVerif.Proofs.C10Loop
open TrashVerif.Proofs.C12Cmd
open TrashVerif.Proofs.C14LoopDir (run_go orphan_spec stemOf_infoNameOf)
open TrashVerif.Proofs.C14LoopMulti (FrameAll)

/-! ### from the `EmptyWorld` to the `DirsSetting` of Props/C14LoopDefs.lean -/

/-- the visited directory of Props/C14LoopDefs.lean for `d` -/
def toC14 (d : TDir) : C14Loop.TDir := C14Loop.plainDir d.T d.v

theorem listed_eq {fs : FS} {d : TDir} (P : PlainDir fs d) : C14Loop.listed fs d.I = d.names := P.listed.symm

theorem hyps_of_world {fs : FS} {d : TDir} (P : PlainDir fs d) (O : OrphansOk fs d) : C14Loop.PlainDirHyps fs d.T := by
  have hl : C14Loop.listed fs (d.T ++ [b "info"]) = d.names := P.listed.symm
  refine ⟨P.hT0, P.hTn, P.hI, P.hF, ?_, ?_, ?_, ?_, O.goodP, O.orphTree⟩
  · rw [hl]; exact P.good
  · rw [hl]; exact P.notLink
  · rw [hl]; exact P.infoTree
  · rw [hl]; exact P.payTree

theorem incomp_of_apart {d e : TDir} (h : Apart d e) (x y : Name) : C14Loop.Incomp (d.T ++ [x]) (e.T ++ [y]) :=
  ⟨fun hp => apart_anc h hp (List.prefix_append _ _), fun hp => apart_anc (apart_symm h) hp (List.prefix_append _ _)⟩

theorem apart_conv {d e : TDir} (h : Apart d e) : C14Loop.TDir.Apart (toC14 d) (toC14 e) :=
  ⟨incomp_of_apart h _ _, incomp_of_apart h _ _, incomp_of_apart h _ _, incomp_of_apart h _ _⟩

theorem pairs_conv (ds : List TDir) : C14Loop.TDir.pairs (ds.map toC14) = ds.map TDir.pair := by
  unfold C14Loop.TDir.pairs
  rw [List.map_map]
  rfl

theorem dirsSetting_of_world {fs : FS} (cwd : CPath) {ds : List TDir} (W : EmptyWorld fs ds) :
    C14Loop.DirsSetting fs cwd (ds.map toC14) := by
  have e : (ds.map fun d => (d.T, d.v)).map (fun Tv => C14Loop.plainDir Tv.1 Tv.2) = ds.map toC14 := by
    rw [List.map_map]; rfl
  have hap : ((ds.map fun d => (d.T, d.v)).map fun Tv => C14Loop.plainDir Tv.1 Tv.2).Pairwise C14Loop.TDir.Apart := by
    rw [e]
    exact List.Pairwise.map toC14 (fun _ _ h => apart_conv h) W.world.apart
  have := Proofs.C14LoopPlainMulti.plain_dirs_setting fs cwd (ds.map fun d => (d.T, d.v)) W.world.wf
    (fun Tv hTv => by
      obtain ⟨d, hd, rfl⟩ := List.mem_map.1 hTv
      exact hyps_of_world (W.world.plain d hd) (W.orph d hd)) hap
  rwa [e] at this

/-! ### the decision -/

theorem okToDelete_days {fs : FS} {cwd : CPath} {o : EmptyOpts} {days : Nat} (i : Bytes) (hd : o.days = some days) :
    okToDelete fs cwd o i = .delete ↔
      ∃ text dt, contentsOf fs cwd i = some text ∧ parseDeletionDate text = some dt ∧
        olderThan days o.now o.nowUs dt = .yes := by
  unfold okToDelete
  rw [hd]
  simp only []
  cases h1 : contentsOf fs cwd i with
  | none => simp
  | some text =>
    simp only []
    cases h2 : parseDeletionDate text with
    | none => simp [h2]
    | some dt =>
      simp only []
      cases h3 : olderThan days o.now o.nowUs dt <;> simp [h2, h3]

theorem okToDelete_nocrash_days {cwd : CPath} {o : EmptyOpts} {days : Nat} (hd : o.days = some days)
    (hno : ∀ dt, olderThan days o.now o.nowUs dt ≠ .overflow) :
    ∀ (fs' : FS) (i : Bytes) (c : Crash), okToDelete fs' cwd o i ≠ .crash c := by
  intro fs' i c
  unfold okToDelete
  rw [hd]
  simp only []
  cases contentsOf fs' cwd i with
  | none => simp
  | some text =>
    simp only []
    cases parseDeletionDate text with
    | none => simp
    | some dt =>
      simp only []
      cases h3 : olderThan days o.now o.nowUs dt
      · exact absurd h3 (hno dt)
      · simp
      · simp

theorem okToDelete_all {fs : FS} {cwd : CPath} {o : EmptyOpts} (i : Bytes) (hd : o.days = none) :
    okToDelete fs cwd o i = .delete := by
  unfold okToDelete; rw [hd]

theorem okToDelete_nocrash_all {cwd : CPath} {o : EmptyOpts} (hd : o.days = none) :
    ∀ (fs' : FS) (i : Bytes) (c : Crash), okToDelete fs' cwd o i ≠ .crash c := by
  intro fs' i c h
  rw [okToDelete_all i hd] at h
  cases h

theorem mem_emptySel_days {fs : FS} {cwd : CPath} {o : EmptyOpts} {days : Nat} {d : TDir} {n : Bytes}
    (hd : o.days = some days) (hn : n ∈ d.names) : n ∈ emptySel fs cwd o d ↔ DatedOld fs cwd days o d n := by
  unfold emptySel emptySelected DatedOld
  rw [List.mem_filter, decide_eq_true_eq, okToDelete_days _ hd]
  exact ⟨fun h => h.2, fun h => ⟨hn, h⟩⟩

theorem emptySel_all {fs : FS} {cwd : CPath} {o : EmptyOpts} {d : TDir} (hd : o.days = none) :
    emptySel fs cwd o d = d.names := by
  unfold emptySel emptySelected
  rw [List.filter_eq_self]
  intro n _
  rw [okToDelete_all _ hd]
  rfl

/-! ### the loop over the trash directories, against the initial state -/

theorem emptyDirs_world (o : EmptyOpts) (hdry : o.dryRun = false) (cwd : CPath)
    (fs : FS) (ds : List TDir) (W : EmptyWorld fs ds)
    (hnc : ∀ d ∈ ds, ∀ n ∈ d.names, ∀ c, okToDelete fs cwd o (infoStr (toStr d.T) n) ≠ .crash c) :
    (run noFaults (emptyDirs cwd o (ds.map TDir.pair)) { fs := fs }).1 = none ∧
    PurgedAll fs (run noFaults (emptyDirs cwd o (ds.map TDir.pair)) { fs := fs }).2.fs ds (swept fs cwd o) ∧
    (∀ q, (∀ d ∈ ds, ¬ d.I <+: q ∧ ¬ d.F <+: q) →
      (run noFaults (emptyDirs cwd o (ds.map TDir.pair)) { fs := fs }).2.fs.get q = fs.get q) ∧
    (run noFaults (emptyDirs cwd o (ds.map TDir.pair)) { fs := fs }).2.fs.dom = fs.dom ∧
    DomWf (run noFaults (emptyDirs cwd o (ds.map TDir.pair)) { fs := fs }).2.fs := by
  have hnc' : ∀ d' ∈ ds.map toC14, ∀ n ∈ C14Loop.listed fs d'.I, ∀ c, okToDelete fs cwd o (infoStr d'.t n) ≠ .crash c := by
    intro d' hd' n hn c
    obtain ⟨d, hd, rfl⟩ := List.mem_map.1 hd'
    have e : C14Loop.listed fs (toC14 d).I = d.names := listed_eq (W.world.plain d hd)
    rw [e] at hn
    exact hnc d hd n hn c
  obtain ⟨hnone, ⟨fd, fm, fw, ff⟩, hall⟩ := real_dirs_local o hdry cwd (ds.map toC14) { fs := fs } (dirsSetting_of_world cwd W) hnc'
  rw [pairs_conv] at hnone fd fm fw ff hall
  generalize (run noFaults (emptyDirs cwd o (ds.map TDir.pair)) { fs := fs }).2.fs = r at fd fm fw ff hall
  have ff' : ∀ q, (∀ d ∈ ds, ¬ d.I <+: q ∧ ¬ d.F <+: q) → r.get q = fs.get q := by
    intro q hq
    refine ff q fun d' hd' => ?_
    obtain ⟨d, hd, rfl⟩ := List.mem_map.1 hd'
    exact hq d hd
  -- per directory: the pass, relative to a state that is the initial one in the region of the directory
  have per : ∀ d ∈ ds, ∃ (mid : FS) (D : List Bytes), C14Loop.Beside d.I d.F fs mid ∧ (∀ n, n ∈ D ↔ n ∈ swept fs cwd o d) ∧
      PurgedExactly mid r d.I d.F D := by
    intro d hd
    obtain ⟨mid, L1, B, _, hperm, P⟩ := hall (toC14 d) (List.mem_map.2 ⟨d, hd, rfl⟩)
    refine ⟨mid, _, B, fun n => ?_, P⟩
    have hl : C14Loop.listed fs (toC14 d).I = d.names := listed_eq (W.world.plain d hd)
    show n ∈ emptySelected fs cwd o (toStr d.T) (C14Loop.listed fs (toC14 d).I) ++ L1.map C14Loop.infoNameOf ↔
      n ∈ emptySelected fs cwd o (toStr d.T) d.names ++ (C14Loop.orphanNames fs d.I d.F).map C14Loop.infoNameOf
    rw [hl, List.mem_append, List.mem_append, (hperm.map C14Loop.infoNameOf).mem_iff]
    rfl
  refine ⟨hnone, ⟨fun d hd n hn rel => ?_, fun d hd n hn rel => ?_, fun q hq => ?_, fun d hd => ?_, fm⟩, ff', fd, fw⟩
  · obtain ⟨mid, D, _, hD, P⟩ := per d hd
    exact P.infoGone n ((hD n).2 hn) rel
  · obtain ⟨mid, D, _, hD, P⟩ := per d hd
    exact P.payloadGone n ((hD n).2 hn) rel
  · by_cases h : ∃ d ∈ ds, d.I <+: q ∨ d.F <+: q
    · obtain ⟨d, hd, hin⟩ := h
      obtain ⟨mid, D, B, hD, P⟩ := per d hd
      obtain ⟨h1, h2, h3⟩ := hq d hd
      rw [P.frame q h1 h2 fun n hn => h3 n ((hD n).1 hn)]
      refine B.same q ?_
      rcases hin with hin | hin
      · exact Or.inl hin
      · exact Or.inr (Or.inl hin)
    · exact ff' q fun d hd => ⟨fun hp => h ⟨d, hd, Or.inl hp⟩, fun hp => h ⟨d, hd, Or.inr hp⟩⟩
  · obtain ⟨mid, D, B, _, P⟩ := per d hd
    exact ⟨keptDir_trans (keptDir_of_eq (B.same d.I (Or.inl List.prefix_rfl))) P.dirs.1,
      keptDir_trans (keptDir_of_eq (B.same d.F (Or.inr (Or.inl List.prefix_rfl)))) P.dirs.2⟩

/-- the command is the loop over the selected directories; exit code 0 when the loop does not crash -/
theorem runEmpty_run (c : ReadCfg) (o : EmptyOpts) (reply : Option Bytes) (fs : FS) (dirs : List (Bytes × Bytes))
    (hgo : o.interactive = false ∨ ∃ r, reply = some r ∧ emptyReplyYes r = true)
    (hscan : foundDirs (selectTrashDirs fs c o.userDirs) = dirs)
    (hnone : (run noFaults (emptyDirs c.cwd o dirs) { fs := fs }).1 = none) :
    run noFaults (runEmpty c o reply) { fs := fs } =
      ({ exit := 0 }, (run noFaults (emptyDirs c.cwd o dirs) { fs := fs }).2) := by
  have h := run_go noFaults c o reply { fs := fs } hgo
  simp only [] at h
  rw [hscan, hnone] at h
  exact h

/-- … and the traceback with exit code 1 when it does -/
theorem runEmpty_crash (c : ReadCfg) (o : EmptyOpts) (reply : Option Bytes) (fs : FS) (dirs : List (Bytes × Bytes)) (cr : Crash)
    (hgo : o.interactive = false ∨ ∃ r, reply = some r ∧ emptyReplyYes r = true)
    (hscan : foundDirs (selectTrashDirs fs c o.userDirs) = dirs)
    (hc : (run noFaults (emptyDirs c.cwd o dirs) { fs := fs }).1 = some cr) :
    (run noFaults (runEmpty c o reply) { fs := fs }).1 = { exit := 1, crash := some cr } ∧
    (run noFaults (runEmpty c o reply) { fs := fs }).2.fs = (run noFaults (emptyDirs c.cwd o dirs) { fs := fs }).2.fs := by
  have h := run_go noFaults c o reply { fs := fs } hgo
  simp only [] at h
  rw [hscan, hc] at h
  rw [h]
  exact ⟨rfl, rfl⟩

/-! ### orphans -/

theorem swept_isInfo {fs : FS} {cwd : CPath} {o : EmptyOpts} {ds : List TDir} (W : EmptyWorld fs ds) :
    ∀ d ∈ ds, ∀ n ∈ swept fs cwd o d, isTrashinfoName n = true := by
  intro d hd n hn
  rcases List.mem_append.1 hn with h | h
  · exact (plainDir_nodup (W.world.plain d hd)).2 n (List.mem_filter.1 h).1
  · obtain ⟨m, hm, rfl⟩ := List.mem_map.1 h
    have D := (dirsSetting_of_world cwd W).robust (toC14 d) (List.mem_map.2 ⟨d, hd, rfl⟩) fs
      (Proofs.C14LoopMulti.beside_refl _ _ _) W.world.wf
    exact D.payNames m ((orphan_spec D).1 hm).1

theorem orphan_iff {fs : FS} {ds : List TDir} (W : EmptyWorld fs ds) {d : TDir} (hd : d ∈ ds) (m : Bytes) :
    m ∈ orphans fs d ↔ (fs.get (d.F ++ [m])).isSome = true ∧ fs.get (d.I ++ [infoNameOf m]) = none := by
  have D := (dirsSetting_of_world [] W).robust (toC14 d) (List.mem_map.2 ⟨d, hd, rfl⟩) fs
    (Proofs.C14LoopMulti.beside_refl _ _ _) W.world.wf
  exact orphan_spec D

theorem orphan_gone {fs fs' : FS} {cwd : CPath} {o : EmptyOpts} {ds : List TDir}
    (P : PurgedAll fs fs' ds (swept fs cwd o)) {d : TDir} (hd : d ∈ ds) {m : Bytes} (hm : m ∈ orphans fs d) :
    PayloadGone fs' d m := by
  intro rel
  have := P.payloadGone d hd (infoNameOf m) (List.mem_append_right _ (List.mem_map.2 ⟨m, hm, rfl⟩)) rel
  rwa [stemOf_infoNameOf] at this

/-- a listed name is not the info name of an orphan: its info file is there -/
theorem listed_not_orphan {fs : FS} {ds : List TDir} (W : EmptyWorld fs ds) {d : TDir} (hd : d ∈ ds) {n : Bytes}
    (hn : n ∈ d.names) : n ∉ (orphans fs d).map infoNameOf := by
  intro h
  obtain ⟨m, hm, rfl⟩ := List.mem_map.1 h
  have h0 := ((orphan_iff W hd m).1 hm).2
  have P := W.world.plain d hd
  rw [P.listed] at hn
  have := (Proofs.C09Hist.mem_infoNames W.world.wf _).1 (List.mem_filter.1 hn).1
  simp only [C09.bag] at this
  rw [h0] at this
  cases this

theorem listed_present {fs : FS} {ds : List TDir} (W : EmptyWorld fs ds) {d : TDir} (hd : d ∈ ds) {n : Bytes}
    (hn : n ∈ d.names) : fs.get (d.I ++ [n]) ≠ none := by
  intro h0
  have P := W.world.plain d hd
  rw [P.listed] at hn
  have := (Proofs.C09Hist.mem_infoNames W.world.wf _).1 (List.mem_filter.1 hn).1
  simp only [C09.bag] at this
  rw [h0] at this
  cases this

end TrashVerif.Proofs.C10Cmd
