/-
  Proofs/C05SeqEx.lean — a concrete two-argument world for Props/C05Seq.lean: `trash-put /x /a` (a file, then a
  directory tree) into a home trash yet to be made; every crash state evaluated by the kernel.
-/
import TrashVerif.Proofs.C16SeqEx
namespace TrashVerif.Proofs.C05SeqEx
open TrashVerif Prog FS
open TrashVerif.Proofs.C16Eval
open TrashVerif.Proofs.C16SeqEx (W3)
open TrashVerif.Proofs.C16Indep.Cex (P cfg0 st0)

/-- what matters of a crash state: is there something at `/x`, `files/x`, `info/x.trashinfo`, `/a`, `/a/y`,
    `files/a`, `files/a/y`, `info/a.trashinfo` -/
def summary (s : FS) : List Bool :=
  [P "/x", P "/h/.local/share/Trash/files/x", P "/h/.local/share/Trash/info/x.trashinfo", P "/a", P "/a/y",
   P "/h/.local/share/Trash/files/a", P "/h/.local/share/Trash/files/a/y",
   P "/h/.local/share/Trash/info/a.trashinfo"].map fun p => (s.get p).isSome

/-- the info file at `p` is a regular file from which `parsePath` reads `loc` -/
def infoReads (s : FS) (p : CPath) (loc : Bytes) : Bool :=
  match s.get p with
  | some (.file data _ _) => (readText data).bind parsePath == some loc
  | _ => false

def ok (s : FS) : Bool :=
  (!(s.get (P "/h/.local/share/Trash/files/x")).isSome || infoReads s (P "/h/.local/share/Trash/info/x.trashinfo") (b "/x")) &&
  (!(s.get (P "/h/.local/share/Trash/files/a")).isSome || infoReads s (P "/h/.local/share/Trash/info/a.trashinfo") (b "/a"))

def t : Bool := true
def f : Bool := false

theorem eval2 :
    (crashStates noFaults (runPutS cfg0 [b "/x", b "/a"] st0) W3).map summary =
      [[t, f, f, t, t, f, f, f], [t, f, f, t, t, f, f, f], [t, f, f, t, t, f, f, f], [t, f, f, t, t, f, f, f],
       [t, f, f, t, t, f, f, f], [t, f, f, t, t, f, f, f],
       [t, f, t, t, t, f, f, f], [t, f, t, t, t, f, f, f], [t, f, t, t, t, f, f, f],
       [f, t, t, t, t, f, f, f], [f, t, t, t, t, f, f, f], [f, t, t, t, t, f, f, f], [f, t, t, t, t, f, f, f],
       [f, t, t, t, t, f, f, t], [f, t, t, t, t, f, f, t], [f, t, t, t, t, f, f, t],
       [f, t, t, f, f, t, t, t]] ∧
    (crashStates noFaults (runPutS cfg0 [b "/x", b "/a"] st0) W3).all ok = true := by decide +kernel

end TrashVerif.Proofs.C05SeqEx
