/-
  Proofs/C08CmdCore.lean — machinery for the command-level frame theorems of Props/C08Cmd.lean:
  calls that avoid a canonical subtree, the invariant calculus with assumed state invariants and
  filtered call results, and path resolution under shrinking states / under a final plain name.
-/
import TrashVerif.Props.C08CmdDefs
import TrashVerif.Proofs.C11
import TrashVerif.Proofs.C17Lemmas
namespace TrashVerif.Proofs.C08Cmd
open TrashVerif Prog FS PutLemmas C04 C11 TrashVerif.C08Cmd

/-! ### apartness -/

theorem apart_iff {r q : CPath} : Apart r q ↔ ¬ r <+: q ∧ ¬ q <+: r := by
  unfold Apart; rw [under_iff, under_iff]

theorem apart_below {r q : CPath} (h : Apart r q) {x : CPath} (hx : q <+: x) : ¬ r <+: x := by
  obtain ⟨h1, h2⟩ := apart_iff.1 h
  intro hr
  exact (pfx_comparable hr hx).elim h1 h2

theorem apart_append {r q : CPath} (h : Apart r q) (rel : CPath) : Apart r (q ++ rel) := by
  obtain ⟨h1, h2⟩ := apart_iff.1 h
  refine apart_iff.2 ⟨apart_below h (List.prefix_append _ _), fun h' => h2 ((List.prefix_append _ _).trans h')⟩

/-- a path of the subtree is neither a path that is not in it, nor the parent of one -/
theorem sub_away {r p : CPath} (h : ¬ r <+: p) (rel : CPath) : r ++ rel ≠ p ∧ r ++ rel ≠ parent p :=
  ⟨fun e => h (e ▸ List.prefix_append _ _), fun e => h ((e ▸ List.prefix_append r rel : r <+: parent p).trans (dropLast_pfx p))⟩

/-! ### calls that avoid a subtree -/

/-- the call names no path at or below `r` (a `rename`: neither of its two subtrees meets `r`) -/
def Avoids (r : CPath) : Call → Prop
  | .rename a c => (¬ r <+: a ∧ ¬ a <+: r) ∧ (¬ r <+: c ∧ ¬ c <+: r)
  | .mkdir p _ => ¬ r <+: p
  | .createExcl p _ => ¬ r <+: p
  | .createTrunc p _ => ¬ r <+: p
  | .write p _ => ¬ r <+: p
  | .close _ => True
  | .unlink p => ¬ r <+: p
  | .rmdir p => ¬ r <+: p
  | .symlink _ p => ¬ r <+: p
  | .chmod p _ => ¬ r <+: p
  | .utime p _ => ¬ r <+: p

theorem get_create {fs : FS} {r p : CPath} (n : Node) (h : ¬ r <+: p) (rel : CPath) :
    (touchDir (setNode fs p n) (parent p)).get (r ++ rel) = fs.get (r ++ rel) := by
  obtain ⟨a, c⟩ := sub_away h rel
  rw [get_touchDir, if_neg c, get_setNode, if_neg a]

theorem get_set {fs : FS} {r p : CPath} (n : Node) (h : ¬ r <+: p) (rel : CPath) :
    (setNode fs p n).get (r ++ rel) = fs.get (r ++ rel) := by
  rw [get_setNode, if_neg (sub_away h rel).1]

theorem get_rm {fs : FS} {r p : CPath} (h : ¬ r <+: p) (rel : CPath) :
    (touchDir (removeNode fs p) (parent p)).get (r ++ rel) = fs.get (r ++ rel) := by
  obtain ⟨a, c⟩ := sub_away h rel
  exact rm_get_other fs a c

theorem get_mv {fs : FS} {r a c : CPath} (ha : ¬ r <+: a ∧ ¬ a <+: r) (hc : ¬ r <+: c ∧ ¬ c <+: r) (rel : CPath) :
    (touchDir (touchDir (moveTree fs a c) (parent a)) (parent c)).get (r ++ rel) = fs.get (r ++ rel) := by
  have h1 : ¬ c <+: r ++ rel := fun h => (pfx_comparable (List.prefix_append r rel) h).elim hc.1 hc.2
  have h2 : ¬ a <+: r ++ rel := fun h => (pfx_comparable (List.prefix_append r rel) h).elim ha.1 ha.2
  rw [get_touchDir, if_neg (sub_away hc.1 rel).2, get_touchDir, if_neg (sub_away ha.1 rel).2, get_moveTree',
    if_neg h1, if_neg h2]

/-- a successful call that avoids `r` leaves everything at or below `r` as it was -/
theorem avoids_keep {r : CPath} {c : Call} {fs fs' : FS} (hc : Avoids r c) (h : c.apply fs = .ok fs') :
    ∀ rel, fs'.get (r ++ rel) = fs.get (r ++ rel) := by
  intro rel
  cases c with
  | close p => simp only [Call.apply] at h; cases h; rfl
  | mkdir p m =>
    simp only [Call.apply, FS.mkdir, Bind.bind, Except.bind] at h
    split at h
    · cases h
    · split at h
      · cases h
      · cases h; exact get_create _ hc rel
  | createExcl p m =>
    simp only [Call.apply, FS.createExcl, Bind.bind, Except.bind] at h
    split at h
    · cases h
    · split at h
      · cases h
      · cases h; exact get_create _ hc rel
  | symlink t p =>
    simp only [Call.apply, FS.symlink, Bind.bind, Except.bind] at h
    split at h
    · cases h
    · split at h
      · cases h
      · cases h; exact get_create _ hc rel
  | createTrunc p m =>
    simp only [Call.apply, FS.createTrunc, Bind.bind, Except.bind] at h
    split at h
    · cases h
    · split at h
      · cases h; exact get_create _ hc rel
      · cases h; exact get_set _ hc rel
      · cases h
      · cases h
  | write p d =>
    simp only [Call.apply, FS.writeData] at h
    split at h
    · cases h; exact get_set _ hc rel
    · cases h
    · cases h
  | chmod p m =>
    simp only [Call.apply, FS.chmod] at h
    split at h
    · cases h; exact get_set _ hc rel
    · cases h; exact get_set _ hc rel
    · cases h; rfl
    · cases h
  | utime p t =>
    simp only [Call.apply, FS.utime] at h
    split at h
    · cases h; exact get_set _ hc rel
    · cases h; exact get_set _ hc rel
    · cases h; rfl
    · cases h
  | unlink p =>
    obtain ⟨q, hq, rfl, _⟩ := apply_rm (A := fun q => q = p) (kr_unlink rfl) h
    subst hq; exact get_rm hc rel
  | rmdir p =>
    obtain ⟨q, hq, rfl, _⟩ := apply_rm (A := fun q => q = p) (kr_rmdir rfl) h
    subst hq; exact get_rm hc rel
  | rename a c =>
    simp only [Call.apply, FS.rename] at h
    split at h
    · cases h
    · split at h
      · cases h
      · split at h
        · cases h
        · simp only [Bind.bind, Except.bind] at h
          split at h
          · cases h
          · split at h
            · cases h; rfl
            · split at h
              · cases h
              · split at h
                · cases h; exact get_mv hc.1 hc.2 rel
                · split at h
                  · cases h
                  · split at h
                    · cases h
                    · split at h
                      · cases h
                      · split at h
                        · cases h
                        · cases h; exact get_mv hc.1 hc.2 rel

/-! ### the calculus: assumed state invariants, filtered call results -/

/-- as `C04.Iss`, but only the continuations after results allowed by `Ok` are inspected -/
def IssF {α} (Inv : FS → Prop) (K : Call → Prop) (Ok : Call → Res → Prop) : Prog α → Prop
  | .ret _ => True
  | .get k => ∀ fs, Inv fs → IssF Inv K Ok (k fs)
  | .call c k => K c ∧ ∀ r, Ok c r → IssF Inv K Ok (k r)
  | .emit _ k => IssF Inv K Ok k

section issf
variable {Inv : FS → Prop} {K : Call → Prop} {Ok : Call → Res → Prop}

theorem IssF.bind {α β} {p : Prog α} {f : α → Prog β} (hp : IssF Inv K Ok p) (hf : ∀ a, IssF Inv K Ok (f a)) :
    IssF Inv K Ok (p >>= f) := by
  show IssF Inv K Ok (Prog.bind p f)
  induction p with
  | ret a => exact hf a
  | get k ih => exact fun fs hi => ih fs (hp fs hi)
  | emit o k ih => exact ih hp
  | call c k ih => exact ⟨hp.1, fun r hr => ih r (hp.2 r hr)⟩

theorem IssF.pure {α} (a : α) : IssF Inv K Ok (pure a : Prog α) := trivial
theorem IssF.sys {c : Call} (h : K c) : IssF Inv K Ok (sys c) := ⟨h, fun _ _ => trivial⟩
theorem IssF.say (o : Out) : IssF Inv K Ok (say o) := trivial
theorem IssF.read_bind {β} {f : FS → Prog β} (h : ∀ fs, Inv fs → IssF Inv K Ok (f fs)) :
    IssF Inv K Ok (read >>= f) := h

/-- a call whose failure `Ok` excludes: only the continuation after success matters -/
theorem IssF.sys_bind_ok {β} {c : Call} {f : Res → Prog β} (h : K c) (hok : ∀ e, ¬ Ok c (.error e))
    (hf : IssF Inv K Ok (f (.ok ()))) : IssF Inv K Ok (Prog.sys c >>= f) := by
  refine ⟨h, fun r hr => ?_⟩
  cases r with
  | ok u => exact hf
  | error e => exact absurd hr (hok e)

theorem IssF.of_iss {α} {Inv' : FS → Prop} {K' : Call → Prop} (hI : ∀ fs, Inv fs → Inv' fs) (hK : ∀ c, K' c → K c) :
    ∀ {p : Prog α}, Iss Inv' K' p → IssF Inv K Ok p := by
  intro p
  induction p with
  | ret a => exact fun _ => trivial
  | get k ih => exact fun hp fs hi => ih fs (hp fs (hI fs hi))
  | emit o k ih => exact fun hp => ih hp
  | call c k ih => exact fun hp => ⟨hK c hp.1, fun r _ => ih r (hp.2 r)⟩

end issf

/-- `Iss` is monotone in the invariant it may assume and in the calls it allows -/
theorem Iss.weaken {α} {Inv Inv' : FS → Prop} {K K' : Call → Prop} (hI : ∀ fs, Inv fs → Inv' fs) (hK : ∀ c, K' c → K c) :
    ∀ {p : Prog α}, Iss Inv' K' p → Iss Inv K p := by
  intro p
  induction p with
  | ret a => exact fun _ => trivial
  | get k ih => exact fun hp fs hi => ih fs (hp fs (hI fs hi))
  | emit o k ih => exact fun hp => ih hp
  | call c k ih => exact fun hp => ⟨hK c hp.1, fun r => ih r (hp.2 r)⟩

/-- what one issued call does to the run state -/
theorem run_call {α} (φ : Oracle) (c : Call) (k : Res → Prog α) (s : RunState) :
    ∃ (r : Res) (s1 : RunState), run φ (.call c k) s = run φ (k r) s1 ∧
      s1.hist = s.fs :: s.hist ∧ s1.trace = (c, r) :: s.trace ∧ s1.outs = s.outs ∧
      ((r = .ok () ∧ c.apply s.fs = .ok s1.fs) ∨ ((∃ e, r = .error e) ∧ s1.fs = s.fs)) := by
  simp only [run]
  split
  · next fs' heq =>
    refine ⟨.ok (), _, rfl, rfl, rfl, rfl, Or.inl ⟨rfl, ?_⟩⟩
    split at heq
    · cases heq
    · exact heq
  · next e heq => exact ⟨.error e, _, rfl, rfl, rfl, rfl, Or.inr ⟨⟨e, rfl⟩, rfl⟩⟩

/-- history and trace only grow; the current state is the final one or is recorded -/
theorem run_grows {α} (φ : Oracle) (p : Prog α) : ∀ s : RunState,
    ∃ lh lt, (run φ p s).2.hist = lh ++ s.hist ∧ (run φ p s).2.trace = lt ++ s.trace ∧
      (s.fs = (run φ p s).2.fs ∨ s.fs ∈ lh) := by
  induction p with
  | ret a => intro s; exact ⟨[], [], rfl, rfl, Or.inl rfl⟩
  | get k ih => intro s; simp only [run]; exact ih _ s
  | emit o k ih => intro s; simp only [run]; exact ih _
  | call c k ih =>
    intro s
    obtain ⟨r, s1, hrun, hh, ht, _, _⟩ := run_call φ c k s
    obtain ⟨lh, lt, e1, e2, _⟩ := ih r s1
    rw [hrun]
    refine ⟨lh ++ [s.fs], lt ++ [(c, r)], ?_, ?_, Or.inr (by simp)⟩
    · rw [e1, hh]; simp
    · rw [e2, ht]; simp

/-- SOUNDNESS.  `J` is kept by every allowed call; `Inv` is ASSUMED of every state the run passes
    through and `Ok` of every call result it records.  Then `J` holds in the final state and in every
    state recorded on the way. -/
theorem IssF.sound {α} (φ : Oracle) {Inv : FS → Prop} {K : Call → Prop} {Ok : Call → Res → Prop} (J : FS → Prop)
    (hJ : ∀ c, K c → ∀ fs fs', J fs → c.apply fs = .ok fs' → J fs') (p : Prog α) :
    ∀ (s : RunState) (lh : List FS) (lt : List (Call × Res)), IssF Inv K Ok p → J s.fs →
      (run φ p s).2.hist = lh ++ s.hist → (run φ p s).2.trace = lt ++ s.trace →
      (∀ x, x = (run φ p s).2.fs ∨ x ∈ lh → Inv x) → (∀ cr ∈ lt, Ok cr.1 cr.2) →
      J (run φ p s).2.fs ∧ ∀ x ∈ lh, J x := by
  induction p with
  | ret a =>
    intro s lh lt _ hj e1 _ _ _
    have : lh = [] := by
      have := congrArg List.length e1
      simp only [run, List.length_append] at this
      exact List.eq_nil_of_length_eq_zero (by omega)
    subst this
    exact ⟨hj, fun x hx => (by cases hx)⟩
  | get k ih =>
    intro s lh lt hp hj e1 e2 hI hO
    simp only [run] at e1 e2 hI ⊢
    obtain ⟨lh', _, e1', _, hcur⟩ := run_grows φ (k s.fs) s
    have : lh' = lh := List.append_cancel_right (e1'.symm.trans e1)
    subst this
    exact ih _ s lh' lt (hp _ (hI _ (hcur.imp id id))) hj e1 e2 hI hO
  | emit o k ih =>
    intro s lh lt hp hj e1 e2 hI hO
    simp only [run] at e1 e2 hI ⊢
    exact ih _ lh lt hp hj e1 e2 hI hO
  | call c k ih =>
    intro s lh lt hp hj e1 e2 hI hO
    obtain ⟨r, s1, hrun, hh, ht, _, hres⟩ := run_call φ c k s
    rw [hrun] at e1 e2 hI ⊢
    obtain ⟨lh', lt', e1', e2', _⟩ := run_grows φ (k r) s1
    have el : lh = lh' ++ [s.fs] := by
      apply List.append_cancel_right (bs := s.hist)
      rw [← e1, e1', hh]; simp
    have et : lt = lt' ++ [(c, r)] := by
      apply List.append_cancel_right (bs := s.trace)
      rw [← e2, e2', ht]; simp
    subst el et
    have hok : Ok c r := hO (c, r) (by simp)
    have hj1 : J s1.fs := by
      rcases hres with ⟨_, ha⟩ | ⟨_, hs⟩
      · exact hJ c hp.1 _ _ hj ha
      · rw [hs]; exact hj
    obtain ⟨a, bb⟩ := ih r s1 lh' lt' (hp.2 r hok) hj1 e1' e2'
      (fun x hx => hI x (hx.imp id (fun h => List.mem_append_left _ h)))
      (fun cr hcr => hO cr (List.mem_append_left _ hcr))
    refine ⟨a, fun x hx => ?_⟩
    rcases List.mem_append.1 hx with h | h
    · exact bb x h
    · rw [List.mem_singleton.1 h]; exact hj

/-- `C11.Iss.inv` for an invariant the allowed calls keep: it holds in the final state and in every
    state the run records -/
theorem Iss.thru {α} (φ : Oracle) {Inv : FS → Prop} {K : Call → Prop}
    (hK : ∀ c, K c → ∀ fs fs', Inv fs → c.apply fs = .ok fs' → Inv fs') (p : Prog α) :
    ∀ s : RunState, Iss Inv K p → Inv s.fs →
      Inv (run φ p s).2.fs ∧ ∀ x ∈ (run φ p s).2.hist, x ∈ s.hist ∨ Inv x := by
  induction p with
  | ret a => intro s _ hi; exact ⟨hi, fun x h => Or.inl h⟩
  | get k ih => intro s hp hi; simp only [run]; exact ih _ s (hp _ hi) hi
  | emit o k ih => intro s hp hi; simp only [run]; exact ih _ hp hi
  | call c k ih =>
    intro s hp hi
    obtain ⟨r, s1, hrun, hh, _, _, hres⟩ := run_call φ c k s
    rw [hrun]
    have hi1 : Inv s1.fs := by
      rcases hres with ⟨_, ha⟩ | ⟨_, hs⟩
      · exact hK c hp.1 _ _ hi ha
      · rw [hs]; exact hi
    obtain ⟨a, bb⟩ := ih r s1 (hp.2 r) hi1
    refine ⟨a, fun x hx => ?_⟩
    rcases bb x hx with h | h
    · rw [hh] at h
      rcases List.mem_cons.1 h with e | e
      · right; rw [e]; exact hi
      · exact Or.inl e
    · exact Or.inr h

/-! ### path resolution: a final plain name -/

/-- A walk (final link not followed) over components ending in a plain name `n` is the walk over
    the components before it — every link followed — with `n` appended. -/
theorem walk_snoc (fs : FS) {n : Bytes} (h1 : n ≠ []) (h2 : n ≠ [dot]) (h3 : n ≠ dotdot) (fuel : Nat) :
    ∀ (cs : List Bytes) (cur p : CPath), walk fs false fuel cur (cs ++ [n]) = .ok p →
      ∃ q, walk fs true fuel cur cs = .ok q ∧ p = q ++ [n] := by
  induction fuel using Nat.strongRecOn with
  | _ fuel IH =>
  intro cs
  induction cs with
  | nil =>
    intro cur p h
    rw [List.nil_append, walk] at h
    rw [walk]
    refine ⟨cur, rfl, ?_⟩
    cases hg : fs.get cur with
    | none => rw [hg] at h; cases h
    | some nd =>
      rw [hg] at h
      cases nd with
      | file d m t => cases h
      | link t => cases h
      | dir m t =>
        simp only at h
        rw [if_neg (by simp [h1, h2]), if_neg h3] at h
        by_cases hl : n.length > nameMax
        · rw [if_pos hl] at h; cases h
        · rw [if_neg hl] at h
          cases hc : fs.get (cur ++ [n]) with
          | none => rw [hc] at h; simp at h; exact h.symm
          | some nc =>
            rw [hc] at h
            cases nc with
            | file d' m' t' => simp only [walk] at h; cases h; rfl
            | dir m' t' => simp only [walk] at h; cases h; rfl
            | link tgt => simp at h; exact h.symm
  | cons c rest ih =>
    intro cur p h
    rw [List.cons_append, walk] at h
    rw [walk]
    cases hg : fs.get cur with
    | none => rw [hg] at h; cases h
    | some nd =>
      rw [hg] at h
      cases nd with
      | file d m t => cases h
      | link t => cases h
      | dir m t =>
        simp only at h ⊢
        by_cases hc1 : c = [] ∨ c = [dot]
        · rw [if_pos hc1] at h ⊢; exact ih _ _ h
        · rw [if_neg hc1] at h ⊢
          by_cases hc2 : c = dotdot
          · rw [if_pos hc2] at h ⊢; exact ih _ _ h
          · rw [if_neg hc2] at h ⊢
            by_cases hc3 : c.length > nameMax
            · rw [if_pos hc3] at h; cases h
            · rw [if_neg hc3] at h ⊢
              have hne : rest ++ [n] ≠ [] := by simp
              cases hc : fs.get (cur ++ [c]) with
              | none =>
                rw [hc] at h
                simp only at h
                have : ((rest ++ [n]).all fun r => decide (r = [])) = false := by
                  simp [h1]
                rw [this] at h
                simp at h
              | some nc =>
                rw [hc] at h
                cases nc with
                | file d' m' t' => exact ih _ _ h
                | dir m' t' => exact ih _ _ h
                | link tgt =>
                  simp only at h ⊢
                  rw [if_pos (Or.inl hne)] at h
                  rw [if_pos (Or.inr trivial)]
                  cases fuel with
                  | zero => cases h
                  | succ f =>
                    simp only at h ⊢
                    by_cases ht : tgt = []
                    · rw [if_pos ht] at h; cases h
                    · rw [if_neg ht] at h ⊢
                      rw [← List.append_assoc] at h
                      exact IH f (Nat.lt_succ_self f) _ _ _ h

/-! ### path resolution in a state that only shrank -/

theorem shr_some {a b : FS} (h : Shr a b) {q : CPath} {nb : Node} (hb : b.get q = some nb) :
    ∃ na, a.get q = some na ∧ touch (some na) = touch (some nb) := by
  rcases h q with h | h
  · rw [hb] at h; cases h
  · rw [hb] at h
    cases ha : a.get q with
    | none => rw [ha] at h; rcases nb with _ | _ | _ <;> simp [touch] at h
    | some na => exact ⟨na, rfl, by rw [ha] at h; exact h.symm⟩

theorem shr_dir {a b : FS} (h : Shr a b) {q : CPath} {m t : Nat} (hb : b.get q = some (.dir m t)) :
    ∃ t', a.get q = some (.dir m t') := by
  obtain ⟨na, ha, ht⟩ := shr_some h hb
  rcases na with _ | ⟨m', t'⟩ | _ <;> simp [touch] at ht
  exact ⟨t', by rw [ha, ht]⟩

theorem shr_link {a b : FS} (h : Shr a b) {q : CPath} {t : Bytes} (hb : b.get q = some (.link t)) :
    a.get q = some (.link t) := by
  obtain ⟨na, ha, ht⟩ := shr_some h hb
  rcases na with _ | _ | _ <;> simp [touch] at ht
  rw [ha, ht]

theorem shr_file {a b : FS} (h : Shr a b) {q : CPath} {d : Bytes} {m t : Nat} (hb : b.get q = some (.file d m t)) :
    a.get q = some (.file d m t) := by
  obtain ⟨na, ha, ht⟩ := shr_some h hb
  rcases na with _ | _ | _ <;> simp [touch] at ht
  rw [ha]; simp [ht]

theorem shr_trans {a b c : FS} (h1 : Shr a b) (h2 : Shr b c) : Shr a c := by
  intro q
  rcases h2 q with h | h
  · exact Or.inl h
  · rcases h1 q with h' | h'
    · left; rw [h'] at h; exact touch_eq_none.1 h
    · right; rw [h, h']

/-- the component list does not end with an empty component (no trailing '/') -/
def LastOk (cs : List Bytes) : Prop := cs.getLast? ≠ some []

theorem LastOk.tail {c : Bytes} {rest : List Bytes} (h : LastOk (c :: rest)) : LastOk rest := by
  unfold LastOk at h ⊢
  cases rest with
  | nil => simp
  | cons x xs => simpa [List.getLast?_cons_cons] using h

theorem LastOk.all_empty {c : Bytes} {rest : List Bytes} (h : LastOk (c :: rest))
    (ha : (rest.all fun r => decide (r = [])) = true) : rest = [] := by
  rcases List.eq_nil_or_concat rest with e | ⟨l, x, e⟩
  · exact e
  · exfalso
    subst e
    have hx : x = [] := by
      have := List.all_eq_true.1 ha x (by simp)
      simpa using this
    apply h
    rw [List.concat_eq_append, ← List.cons_append, List.getLast?_append]
    simp [hx]

theorem LastOk.link {c : Bytes} {rest : List Bytes} (h : LastOk (c :: rest)) (hr : rest ≠ []) (pre : List Bytes) :
    LastOk (pre ++ rest) := by
  have := h.tail
  unfold LastOk at this ⊢
  rw [List.getLast?_append]
  cases hg : rest.getLast? with
  | none => exact absurd (List.getLast?_eq_none_iff.1 hg) hr
  | some x => rw [hg] at this; simpa using this

/-- A walk (final link not followed, no trailing '/') that succeeds in a state that only shrank
    succeeded, with the same result, in the state it shrank from. -/
theorem walk_shr {a b : FS} (hs : Shr a b) (fuel : Nat) :
    ∀ (cs : List Bytes) (cur p : CPath), LastOk cs → walk b false fuel cur cs = .ok p →
      walk a false fuel cur cs = .ok p := by
  induction fuel using Nat.strongRecOn with
  | _ fuel IH =>
  intro cs
  induction cs with
  | nil => intro cur p _ h; rw [walk] at h ⊢; exact h
  | cons c rest ih =>
    intro cur p hl h
    rw [walk] at h ⊢
    cases hg : b.get cur with
    | none => rw [hg] at h; cases h
    | some nd =>
      rw [hg] at h
      cases nd with
      | file d m t => cases h
      | link t => cases h
      | dir m t =>
        obtain ⟨t', hga⟩ := shr_dir hs hg
        rw [hga]
        simp only at h ⊢
        by_cases hc1 : c = [] ∨ c = [dot]
        · rw [if_pos hc1] at h ⊢; exact ih _ _ hl.tail h
        · rw [if_neg hc1] at h ⊢
          by_cases hc2 : c = dotdot
          · rw [if_pos hc2] at h ⊢; exact ih _ _ hl.tail h
          · rw [if_neg hc2] at h ⊢
            by_cases hc3 : c.length > nameMax
            · rw [if_pos hc3] at h; cases h
            · rw [if_neg hc3] at h ⊢
              cases hc : b.get (cur ++ [c]) with
              | none =>
                rw [hc] at h
                simp only at h
                split at h
                · next hall =>
                  have hr : rest = [] := hl.all_empty hall
                  subst hr
                  cases h
                  cases hca : a.get (cur ++ [c]) with
                  | none => simp
                  | some na =>
                    cases na with
                    | file d' m' t'' => simp [walk]
                    | dir m' t'' => simp [walk]
                    | link tgt => simp
                · cases h
              | some nc =>
                rw [hc] at h
                cases nc with
                | file d' m' t'' => rw [shr_file hs hc]; exact ih _ _ hl.tail h
                | dir m' t'' =>
                  obtain ⟨t3, hca⟩ := shr_dir hs hc
                  rw [hca]; exact ih _ _ hl.tail h
                | link tgt =>
                  rw [shr_link hs hc]
                  simp only at h ⊢
                  by_cases hr : rest ≠ []
                  · rw [if_pos (Or.inl hr)] at h ⊢
                    cases fuel with
                    | zero => cases h
                    | succ f =>
                      simp only at h ⊢
                      by_cases ht : tgt = []
                      · rw [if_pos ht] at h; cases h
                      · rw [if_neg ht] at h ⊢
                        exact IH f (Nat.lt_succ_self f) _ _ _ (hl.link hr _) h
                  · have : ¬ (rest ≠ [] ∨ false = true) := by simp [hr]
                    rw [if_neg this] at h ⊢
                    exact h

/-! ### path strings: a directory string joined with a plain name -/

theorem plainName_head {n : Bytes} (h : PlainName n) : n.head? ≠ some slash := by
  obtain ⟨h0, hs, _⟩ := h
  cases n with
  | nil => exact absurd rfl h0
  | cons x xs =>
    have : x ≠ slash := fun e => hs (e ▸ List.mem_cons_self)
    simpa using this

theorem plainName_last {n : Bytes} (h : PlainName n) : n.getLast? ≠ some slash := by
  intro e
  exact h.2.1 (List.mem_of_getLast? e)

theorem pjoin_name {D n : Bytes} (hD : Tidy D) (hn : PlainName n) : pjoin D n = D ++ [slash] ++ n :=
  pjoin_plain hD.1 hD.2 (plainName_head hn)

theorem comps_join_name (D : Bytes) {n : Bytes} (hn : slash ∉ n) : comps (D ++ [slash] ++ n) = comps D ++ [n] := by
  unfold comps
  rw [List.append_assoc, List.singleton_append, C01.splitOn_append_sep, C01.splitOn_free hn]

theorem tidy_join {D n : Bytes} (hn : PlainName n) : Tidy (D ++ [slash] ++ n) := by
  refine ⟨by simp, ?_⟩
  rw [List.getLast?_append]
  cases hg : n.getLast? with
  | none => exact absurd (List.getLast?_eq_none_iff.1 hg) hn.1
  | some x =>
    have := (plainName_last hn)
    rw [hg] at this
    simpa using this

/-- whatever `a` is, `join(a, c)` is tidy when `c` is non-empty, relative and without trailing '/' -/
theorem tidy_pjoin (a : Bytes) {c : Bytes} (h0 : c ≠ []) (hl : c.getLast? ≠ some slash) : Tidy (pjoin a c) := by
  have key : ∀ w : Bytes, Tidy (w ++ c) := by
    intro w
    refine ⟨by simp [h0], ?_⟩
    rw [List.getLast?_append]
    cases hg : c.getLast? with
    | none => exact absurd (List.getLast?_eq_none_iff.1 hg) h0
    | some x => rw [hg] at hl; simpa using hl
  unfold pjoin
  split
  · simpa using key []
  · split
    · exact key a
    · exact key _

theorem b_info_tidy : b "info" ≠ [] ∧ (b "info").getLast? ≠ some slash := by decide +kernel
theorem b_files_tidy : b "files" ≠ [] ∧ (b "files").getLast? ≠ some slash := by decide +kernel

theorem tidy_info (t : Bytes) : Tidy (pjoin t (b "info")) := tidy_pjoin t b_info_tidy.1 b_info_tidy.2
theorem tidy_files (t : Bytes) : Tidy (pjoin t (b "files")) := tidy_pjoin t b_files_tidy.1 b_files_tidy.2

/-- without a trailing '/', `resolve` is the walk -/
theorem resolve_tidy (fs : FS) (cwd : CPath) {path : Bytes} (h : Tidy path) (fl : Bool) :
    resolve fs cwd path fl = walk fs fl linkFuel (if isAbs path then [] else cwd) (comps path) := by
  unfold resolve
  rw [if_neg h.1]
  have ht : ¬ (path.getLast? = some slash ∧ ¬ (path.all (· = slash)) = true) := fun e => h.2 e.1
  simp only [ht, decide_false, Bool.or_false, if_false]
  cases walk fs fl linkFuel (if isAbs path = true then [] else cwd) (comps path) <;> rfl

theorem isAbs_join {D : Bytes} (h : D ≠ []) (n : Bytes) : isAbs (D ++ [slash] ++ n) = isAbs D := by
  cases D with
  | nil => exact absurd rfl h
  | cons x xs => simp [isAbs, Bytes.startsWith, List.isPrefixOf]

/-- A path string `join(D, n)` — `D` tidy, `n` a plain name — that resolves (final link not followed) in a
    state `b` that only shrank from `a`: in `a` the string `D` leads (links followed) to some `q`,
    and the result is `q/n`. -/
theorem resolve_name_shr {a b : FS} (hs : Shr a b) (cwd : CPath) {D n : Bytes} (hD : Tidy D) (hn : PlainName n)
    {p : CPath} (h : resolve b cwd (pjoin D n) false = .ok p) :
    ∃ q, resolve a cwd D true = .ok q ∧ p = q ++ [n] := by
  rw [pjoin_name hD hn, resolve_tidy b cwd (tidy_join hn), isAbs_join hD.1, comps_join_name D hn.2.1] at h
  have hlast : LastOk (comps D ++ [n]) := by
    unfold LastOk
    rw [List.getLast?_append]
    simp [hn.1]
  have h' := walk_shr hs linkFuel _ _ _ hlast h
  obtain ⟨q, hq, e⟩ := walk_snoc a hn.1 hn.2.2.1 hn.2.2.2 linkFuel _ _ _ h'
  exact ⟨q, by rw [resolve_tidy a cwd hD]; exact hq, e⟩

/-- … hence apart from `r` when what `D` leads to is -/
theorem apart_of_resolve {a b : FS} (hs : Shr a b) (cwd r : CPath) {D n : Bytes} (hD : Tidy D) (hn : PlainName n)
    (hap : StrApart a cwd r D) {p : CPath} (h : resolve b cwd (pjoin D n) false = .ok p) : Apart r p := by
  obtain ⟨q, hq, rfl⟩ := resolve_name_shr hs cwd hD hn h
  exact apart_append (hap q hq) _

/-! ### directory listings yield plain names -/

theorem plainNames_shr {a b : FS} (hs : Shr a b) (h : PlainNames a) : PlainNames b :=
  fun q hq => h q (hs.isSome hq)

theorem listing_plain {fs : FS} {cwd : CPath} {D : Bytes} {ns : List Bytes} (hp : PlainNames fs)
    (h : entriesIfDirExists fs cwd D = .names ns) : ∀ n ∈ ns, PlainName n := by
  unfold entriesIfDirExists at h
  split at h
  · cases h; intro n hn; cases hn
  · cases hl : listdirStr fs cwd D with
    | none => rw [hl] at h; cases h
    | some ms =>
      rw [hl] at h
      cases h
      unfold listdirStr at hl
      split at hl
      · next p _ =>
        split at hl
        · cases hl
          intro n hn
          obtain ⟨c, hc, hcn⟩ := List.mem_filterMap.1 hn
          obtain ⟨_, _, _, hsome⟩ := mem_sortedChildren.1 hc
          exact hp c hsome n (List.mem_of_getLast? hcn)
        · cases hl
      · cases hl

/-- an info path as the readers build it for the trash directory `t` -/
def InfoForm (t i : Bytes) : Prop := ∃ n, i = pjoin (pjoin t (b "info")) n ∧ isTrashinfoName n = true ∧ PlainName n
/-- an orphan payload path as the readers build it -/
def FilesForm (t i : Bytes) : Prop := ∃ n, i = pjoin (pjoin t (b "files")) n ∧ PlainName n

theorem infosOf_form {fs : FS} {cwd : CPath} {t : Bytes} {infos : List Bytes} (hp : PlainNames fs)
    (h : infosOf fs cwd t = .ok infos) : ∀ i ∈ infos, InfoForm t i := by
  unfold infosOf at h
  dsimp only at h
  cases he : entriesIfDirExists fs cwd (pjoin t (b "info")) with
  | crash => rw [he] at h; cases h
  | names ns =>
    rw [he] at h
    cases h
    intro i hi
    obtain ⟨n, hn, rfl⟩ := List.mem_map.1 hi
    obtain ⟨hn1, hn2⟩ := List.mem_filter.1 hn
    exact ⟨n, rfl, hn2, listing_plain hp he n hn1⟩

theorem orphansOf_form {fs : FS} {cwd : CPath} {t : Bytes} {os : List Bytes} (hp : PlainNames fs)
    (h : orphansOf fs cwd t = .ok os) : ∀ i ∈ os, FilesForm t i := by
  unfold orphansOf at h
  dsimp only at h
  cases he : entriesIfDirExists fs cwd (pjoin t (b "files")) with
  | crash => rw [he] at h; cases h
  | names ns =>
    rw [he] at h
    cases h
    intro i hi
    obtain ⟨n, hn, rfl⟩ := List.mem_map.1 hi
    exact ⟨n, rfl, listing_plain hp he n (List.mem_filter.1 hn).1⟩

/-- the payload path of an info path of `t` is `t/files/<stem>`, `<stem>` a plain name -/
theorem backup_form {t i : Bytes} (ht : Tidy t) (h : InfoForm t i) : FilesForm t (pathOfBackupCopy i) := by
  obtain ⟨n, rfl, hti, hn⟩ := h
  obtain ⟨stem, rfl, s1, s2, s3⟩ := trashinfo_name_stem n hti
  have hs : slash ∉ stem := fun e => hn.2.1 (List.mem_append_left _ e)
  exact ⟨stem, backup_path_under_files t stem ht ⟨s1, hs⟩, s1, hs, s2, s3⟩

end TrashVerif.Proofs.C08Cmd
