/-
  Proofs/C15Loop.lean — proofs of the loop-level crash theorems of Props/C15Loop.lean:
  the crash invariant of `rmInfos` under every fault oracle, and the prefix states of the
  fault-free loops `emptyInfos` / `rmInfos`.
-/
import TrashVerif.Proofs.C15LoopCore
namespace TrashVerif.Proofs.C15Loop
open TrashVerif Prog FS PutCore PutLemmas C04 C11 C09Hist C10Loop C19Cmd C15Loop
open TrashVerif.Proofs.C09Hist (GeoI)
open TrashVerif.Proofs.C15 (G removeIfExists_okGone)
open TrashVerif.Proofs.C10Loop

/-! ### trash-rm under every fault oracle: the info file of every entry is removed last -/

/-- the invariant, relative to the state `a` -/
def InfoLastAll (I F : CPath) (a x : FS) : Prop :=
  ∀ m, isTrashinfoName m = true → x.get (I ++ [m]) = a.get (I ++ [m]) ∨ x.get (F ++ [stemOf m]) = none

theorem infoLastAll_trans {I F : CPath} {a c x : FS} (h1 : InfoLastAll I F a c) (h2 : InfoLastAll I F c x)
    (hs : Shr c x) : InfoLastAll I F a x := by
  intro m hm
  rcases h2 m hm with e | e
  · rcases h1 m hm with e1 | e1
    · exact Or.inl (e.trans e1)
    · exact Or.inr (hs.none e1)
  · exact Or.inr e

/-- one entry purged with `purgePair`, from any run state, under every oracle -/
theorem purge_entry_all {I F : CPath} (g : GeoI I F) (φ : Oracle) {n : Bytes} (hn : isTrashinfoName n = true)
    (s : RunState) :
    All (run φ (purgePair (.ok (F ++ [stemOf n])) (.ok (I ++ [n]))) s) s (InfoLastAll I F s.fs) := by
  have a1 := purge_all φ (F ++ [stemOf n]) (I ++ [n]) (pay_not_pfx_info g _ _)
    (by rw [parent, dropLast_concat]; exact fun e => g.F_ne_info n e.symm) s
  have hiss : Iss InvT (KR (EP I F n)) (purgePair (.ok (F ++ [stemOf n])) (.ok (I ++ [n]))) :=
    Iss.mono (fun _ => KR.mono fun r hr => hr.symm) (iss_purgePair (F ++ [stemOf n]) (I ++ [n]))
  have a2 := all_step g n φ hiss s
  refine (a1.and a2).mono fun x hx m hm => ?_
  by_cases e : m = n
  · rw [e]; exact hx.1
  · exact Or.inl (hx.2.other_info g hn hm e)

theorem rmInfos_all (φ : Oracle) (pattern volume : Bytes) (cwd : CPath) (t : Bytes) (I F : CPath) :
    ∀ (names : List Bytes) (s : RunState), Setting s.fs cwd t I F names →
      All (run φ (rmInfos cwd pattern volume (infoStrs t names)) s) s (InfoLastAll I F s.fs) := by
  intro names
  induction names with
  | nil => intro s _; exact all_pure φ _ s fun _ _ => Or.inl rfl
  | cons n rest ih =>
    intro s S
    have g := setting_geo S
    have hmem : n ∈ n :: rest := List.mem_cons_self
    have skip : All (run φ (rmInfos cwd pattern volume (infoStrs t rest)) s) s (InfoLastAll I F s.fs) :=
      ih s (setting_tail S)
    have report : All (run φ (do say (.stderr "unparsable" (infoStr t n)); rmInfos cwd pattern volume (infoStrs t rest)) s) s
        (InfoLastAll I F s.fs) := by
      rw [run_bind, run_say]
      exact ih { s with outs := Out.stderr "unparsable" (infoStr t n) :: s.outs } (setting_tail S)
    show All (run φ (rmInfos cwd pattern volume (infoStr t n :: infoStrs t rest)) s) s _
    rw [rmInfos, run_read_bind]
    split
    · exact report
    · split
      · exact report
      · split
        · exact all_pure φ _ s fun _ _ => Or.inl rfl
        · exact skip
        · obtain ⟨r1, r2⟩ := S.resolves s.fs (within_refl I F s.fs) n hmem
          rw [r1, r2, run_bind]
          have a1 := purge_entry_all g φ (S.isInfo n hmem) s
          have hiss : Iss InvT (KR (EP I F n)) (purgePair (.ok (F ++ [stemOf n])) (.ok (I ++ [n]))) :=
            Iss.mono (fun _ => KR.mono fun r hr => hr.symm) (iss_purgePair (F ++ [stemOf n]) (I ++ [n]))
          have st := (all_step g n φ hiss s).1
          generalize run φ (purgePair (.ok (F ++ [stemOf n])) (.ok (I ++ [n]))) s = r1 at a1 st
          obtain ⟨res, s1⟩ := r1
          cases res with
          | error e => exact a1
          | ok u =>
            have S1 := setting_step S st
            have a2 := ih s1 S1
            have a3 := (all_sub φ (iss_rmInfos_any cwd pattern volume (infoStrs t rest)) s1).mono fun x hx => hx.shr
            refine All.seq (r1 := ((Except.ok u : Res), s1)) a1 ((a2.and a3).mono fun x hx => ?_)
            exact infoLastAll_trans a1.1 hx.1 hx.2

/-! ### fault-free: prefix states -/

/-- the core of `PrefixState` (what the induction carries; the rest follows, see `prefix_of_core`) -/
def Core (fs : FS) (I F : CPath) (sel : List Bytes) (x : FS) : Prop :=
  ∃ (done : List Bytes) (s0 : FS), PurgedExactly fs s0 I F done ∧
    ((sel = done ∧ x = s0) ∨
     ∃ cur later, sel = done ++ cur :: later ∧
       x ∈ crashStates noFaults (purgePair (.ok (F ++ [stemOf cur])) (.ok (I ++ [cur]))) s0)

theorem core_init (fs : FS) (I F : CPath) (sel : List Bytes) : Core fs I F sel fs := by
  refine ⟨[], fs, purged_nil fs I F, ?_⟩
  cases sel with
  | nil => exact Or.inl ⟨rfl, rfl⟩
  | cons c l => exact Or.inr ⟨c, l, rfl, init_mem_crashStates _ _ _⟩

/-- the first entry, purged whole, joins the purged ones -/
theorem core_cons {I F : CPath} (g : GeoI I F) {n : Bytes} {sel : List Bytes} {fs fs1 x : FS}
    (hn : isTrashinfoName n = true) (hsel : ∀ d ∈ sel, isTrashinfoName d = true ∧ d ≠ n)
    (R : Removed I F n fs fs1) (h : Core fs1 I F sel x) : Core fs I F (n :: sel) x := by
  obtain ⟨done, s0, P, h⟩ := h
  have hsub : ∀ d ∈ done, d ∈ sel := by
    rcases h with ⟨e, _⟩ | ⟨cur, later, e, _⟩
    · rw [e]; exact fun _ h => h
    · rw [e]; exact fun _ h => List.mem_append_left _ h
  refine ⟨n :: done, s0, purged_cons g hn (fun d hd => hsel d (hsub d hd)) R P, ?_⟩
  rcases h with ⟨e, ex⟩ | ⟨cur, later, e, hx⟩
  · exact Or.inl ⟨by rw [e], ex⟩
  · exact Or.inr ⟨cur, later, by rw [e]; rfl, hx⟩

/-- the first state of the purge of the first entry -/
theorem core_first {fs x : FS} {I F : CPath} {n : Bytes} (sel : List Bytes)
    (h : x ∈ crashStates noFaults (purgePair (.ok (F ++ [stemOf n])) (.ok (I ++ [n]))) fs) :
    Core fs I F (n :: sel) x :=
  ⟨[], fs, purged_nil fs I F, Or.inr ⟨n, sel, rfl, h⟩⟩

theorem emptyInfos_core (o : EmptyOpts) (hdry : o.dryRun = false) (cwd : CPath) (t : Bytes) (I F : CPath) :
    ∀ (names : List Bytes) (s : RunState), Setting s.fs cwd t I F names →
      ∀ x, St (run noFaults (emptyInfos cwd o (infoStrs t names)) s) x →
        x ∈ s.hist ∨ Core s.fs I F (emptySelected s.fs cwd o t names) x := by
  intro names
  induction names with
  | nil =>
    intro s _ x hx
    rcases hx with rfl | hx
    · exact Or.inr (core_init _ _ _ _)
    · exact Or.inl hx
  | cons n rest ih =>
    intro s S x
    have g := setting_geo S
    have hmem : n ∈ n :: rest := List.mem_cons_self
    have hnd := List.nodup_cons.1 S.nodup
    show St (run noFaults (emptyInfos cwd o (infoStr t n :: infoStrs t rest)) s) x → _
    rw [emptyInfos, run_read_bind]
    cases hdec : okToDelete s.fs cwd o (infoStr t n) with
    | crash c =>
      simp only []
      intro hx
      rcases hx with rfl | hx
      · exact Or.inr (core_init _ _ _ _)
      · exact Or.inl hx
    | keep =>
      simp only []
      have hsel : emptySelected s.fs cwd o t (n :: rest) = emptySelected s.fs cwd o t rest := by
        unfold emptySelected
        rw [List.filter_cons_of_neg (by simp [hdec])]
      rw [hsel]
      exact ih s (setting_tail S) x
    | delete =>
      simp only []
      obtain ⟨r1, r2⟩ := S.resolves s.fs (within_refl I F s.fs) n hmem
      rw [r1, r2, run_bind, run_bind]
      obtain ⟨hGi, hGp⟩ := setting_G S hmem
      have R := removed_empty g n o hdry (pathOfBackupCopy (infoStr t n)) (infoStr t n) s hGi hGp
      have H := emptyPair_hist o hdry (pathOfBackupCopy (infoStr t n)) (infoStr t n) (F ++ [stemOf n]) (I ++ [n]) s hGp
      generalize (run noFaults (emptyPathR o (infoStr t n) (.ok (I ++ [n])))
        (run noFaults (emptyPathR o (pathOfBackupCopy (infoStr t n)) (.ok (F ++ [stemOf n]))) s).2).2 = s2 at R H ⊢
      have S2 := setting_step S R.step
      have hst : ∀ m ∈ rest, okToDelete s2.fs cwd o (infoStr t m) = okToDelete s.fs cwd o (infoStr t m) := fun m hm =>
        okToDelete_stable o (setting_tail S) R.step.within hm
          (R.step.other_info g (S.isInfo n hmem) (S.isInfo m (List.mem_cons_of_mem _ hm)) (fun e => hnd.1 (e ▸ hm)))
      have hsel : emptySelected s.fs cwd o t (n :: rest) = n :: emptySelected s.fs cwd o t rest := by
        unfold emptySelected
        rw [List.filter_cons_of_pos (by simp [hdec])]
      rw [hsel]
      intro hx
      rcases ih s2 S2 x hx with h | h
      · rcases H x h with h' | h'
        · exact Or.inl h'
        · exact Or.inr (core_first _ h')
      · rw [emptySelected_congr hst] at h
        refine Or.inr (core_cons g (S.isInfo n hmem) (fun d hd => ?_) R h)
        have hd' : d ∈ rest := (List.mem_filter.1 hd).1
        exact ⟨S.isInfo d (List.mem_cons_of_mem _ hd'), fun e => hnd.1 (e ▸ hd')⟩

theorem rmInfos_core (pattern volume : Bytes) (cwd : CPath) (t : Bytes) (I F : CPath) :
    ∀ (names : List Bytes) (s : RunState), Setting s.fs cwd t I F names →
      ∀ x, St (run noFaults (rmInfos cwd pattern volume (infoStrs t names)) s) x →
        x ∈ s.hist ∨ Core s.fs I F (rmSelected s.fs cwd pattern volume t names) x := by
  intro names
  induction names with
  | nil =>
    intro s _ x hx
    rcases hx with rfl | hx
    · exact Or.inr (core_init _ _ _ _)
    · exact Or.inl hx
  | cons n rest ih =>
    intro s S x
    have g := setting_geo S
    have hmem : n ∈ n :: rest := List.mem_cons_self
    have hnd := List.nodup_cons.1 S.nodup
    have skip : rmSelects s.fs cwd pattern volume (infoStr t n) = false →
        St (run noFaults (rmInfos cwd pattern volume (infoStrs t rest)) s) x →
        x ∈ s.hist ∨ Core s.fs I F (rmSelected s.fs cwd pattern volume t (n :: rest)) x := by
      intro h1
      have hsel : rmSelected s.fs cwd pattern volume t (n :: rest) = rmSelected s.fs cwd pattern volume t rest := by
        unfold rmSelected
        rw [List.filter_cons_of_neg (by simp [h1])]
      rw [hsel]
      exact ih s (setting_tail S) x
    have report : rmSelects s.fs cwd pattern volume (infoStr t n) = false →
        St (run noFaults (do say (.stderr "unparsable" (infoStr t n)); rmInfos cwd pattern volume (infoStrs t rest)) s) x →
        x ∈ s.hist ∨ Core s.fs I F (rmSelected s.fs cwd pattern volume t (n :: rest)) x := by
      intro h1
      have hsel : rmSelected s.fs cwd pattern volume t (n :: rest) = rmSelected s.fs cwd pattern volume t rest := by
        unfold rmSelected
        rw [List.filter_cons_of_neg (by simp [h1])]
      rw [hsel, run_bind, run_say]
      exact ih { s with outs := Out.stderr "unparsable" (infoStr t n) :: s.outs } (setting_tail S) x
    show St (run noFaults (rmInfos cwd pattern volume (infoStr t n :: infoStrs t rest)) s) x → _
    rw [rmInfos, run_read_bind]
    cases hc : contentsOf s.fs cwd (infoStr t n) with
    | none =>
      simp only []
      exact report (by simp [rmSelects, hc])
    | some text =>
      simp only []
      cases hpp : parsePath text with
      | none =>
        simp only []
        exact report (by simp [rmSelects, hc, hpp])
      | some rel =>
        simp only []
        cases hv : rmMatches pattern (pjoin volume rel) with
        | none =>
          simp only []
          intro hx
          rcases hx with rfl | hx
          · exact Or.inr (core_init _ _ _ _)
          · exact Or.inl hx
        | some v =>
          cases v with
          | false =>
            simp only []
            exact skip (by simp [rmSelects, hc, hpp, hv])
          | true =>
            simp only []
            obtain ⟨r1, r2⟩ := S.resolves s.fs (within_refl I F s.fs) n hmem
            rw [r1, r2, run_bind]
            obtain ⟨hGi, hGp⟩ := setting_G S hmem
            have hfile : ∃ d m t', s.fs.get (I ++ [n]) = some (.file d m t') := by
              have := contentsOf_info S (within_refl I F s.fs) hmem (S.notLink n hmem)
              rw [hc] at this
              rcases hg : s.fs.get (I ++ [n]) with _ | (_ | _ | _)
              · rw [hg] at this; cases this
              · exact ⟨_, _, _, rfl⟩
              · rw [hg] at this; cases this
              · rw [hg] at this; cases this
            obtain ⟨d, m, t', hfile⟩ := hfile
            obtain ⟨ok, R⟩ := removed_rm g n s hGi hGp hfile
            have H : ∀ y ∈ (run noFaults (purgePair (.ok (F ++ [stemOf n])) (.ok (I ++ [n]))) s).2.hist,
                y ∈ s.hist ∨ y ∈ crashStates noFaults (purgePair (.ok (F ++ [stemOf n])) (.ok (I ++ [n]))) s.fs :=
              fun y hy => (st_nf _ s y).1 (Or.inr hy)
            rw [ok]
            simp only []
            generalize (run noFaults (purgePair (.ok (F ++ [stemOf n])) (.ok (I ++ [n]))) s).2 = s2 at R H ⊢
            have S2 := setting_step S R.step
            have hst : ∀ m' ∈ rest, rmSelects s2.fs cwd pattern volume (infoStr t m') = rmSelects s.fs cwd pattern volume (infoStr t m') :=
              fun m' hm' => (rmSelects_stable pattern volume (setting_tail S) R.step.within hm'
                (R.step.other_info g (S.isInfo n hmem) (S.isInfo m' (List.mem_cons_of_mem _ hm')) (fun e => hnd.1 (e ▸ hm')))).1
            have e1 : rmSelected s2.fs cwd pattern volume t rest = rmSelected s.fs cwd pattern volume t rest := by
              unfold rmSelected
              exact List.filter_congr fun m' hm' => hst m' hm'
            have hsel : rmSelected s.fs cwd pattern volume t (n :: rest) = n :: rmSelected s.fs cwd pattern volume t rest := by
              unfold rmSelected
              rw [List.filter_cons_of_pos (by simp [rmSelects, hc, hpp, hv])]
            rw [hsel]
            intro hx
            rcases ih s2 S2 x hx with h | h
            · rcases H x h with h' | h'
              · exact Or.inl h'
              · exact Or.inr (core_first _ h')
            · rw [e1] at h
              refine Or.inr (core_cons g (S.isInfo n hmem) (fun d' hd => ?_) R h)
              have hd' : d' ∈ rest := (List.mem_filter.1 hd).1
              exact ⟨S.isInfo d' (List.mem_cons_of_mem _ hd'), fun e => hnd.1 (e ▸ hd')⟩

/-! ### from the core to `PrefixState`, and what a prefix state implies -/

theorem purge_state {I F : CPath} (g : GeoI I F) (φ : Oracle) (n : Bytes) {s0 x : FS}
    (h : x ∈ crashStates φ (purgePair (.ok (F ++ [stemOf n])) (.ok (I ++ [n]))) s0) :
    Step I F n s0 x ∧ Sub s0 x := by
  have hiss : Iss InvT (KR (EP I F n)) (purgePair (.ok (F ++ [stemOf n])) (.ok (I ++ [n]))) :=
    Iss.mono (fun _ => KR.mono fun r hr => hr.symm) (iss_purgePair (F ++ [stemOf n]) (I ++ [n]))
  exact ⟨all_crashStates (all_step g n φ hiss { fs := s0 }) x h,
    all_crashStates (all_sub φ hiss { fs := s0 }) x h⟩

theorem step_intact {I F : CPath} (g : GeoI I F) {n m : Bytes} {a x : FS} (h : Step I F n a x)
    (hn : isTrashinfoName n = true) (hm : isTrashinfoName m = true) (hne : m ≠ n) : EntryIntact a x I F m := by
  have key : ∀ q, EP I F m q → x.get q = a.get q := fun q hq =>
    h.frame q (EP.disjoint g hm hn hne hq) (EP.ne_I g hq) (EP.ne_F g hq)
  exact ⟨fun rel => key _ (EP.info I F m rel), fun rel => key _ (EP.payload I F m rel)⟩

theorem prefix_of_core {I F : CPath} (g : GeoI I F) {fs x : FS} {sel : List Bytes}
    (hsel : ∀ d ∈ sel, isTrashinfoName d = true) (h : Core fs I F sel x) : PrefixState fs I F sel x := by
  obtain ⟨done, s0, P, h⟩ := h
  refine ⟨done, s0, P, ?_⟩
  rcases h with h | ⟨cur, later, e, hx⟩
  · exact Or.inl h
  · refine Or.inr ⟨cur, later, e, hx, fun d hd => ?_, fun m hm hmd hmc => ?_⟩
    · obtain ⟨_, sub⟩ := purge_state g noFaults cur hx
      exact ⟨fun rel => sub.shr.none (P.infoGone d hd rel), fun rel => sub.shr.none (P.payloadGone d hd rel)⟩
    · obtain ⟨st, _⟩ := purge_state g noFaults cur hx
      have hD : ∀ d ∈ done, isTrashinfoName d = true := fun d hd => hsel d (by rw [e]; exact List.mem_append_left _ hd)
      have hc : isTrashinfoName cur = true := hsel cur (by rw [e]; simp)
      obtain ⟨a1, a2⟩ := purged_other g P hD hm hmd
      obtain ⟨c1, c2⟩ := step_intact g st hc hm hmc
      exact ⟨fun rel => (c1 rel).trans (a1 rel), fun rel => (c2 rel).trans (a2 rel)⟩

/-- in a prefix state, the info file of every entry whose payload is not gone is untouched -/
theorem prefix_infoLast {I F : CPath} (g : GeoI I F) {fs s : FS} {sel : List Bytes}
    (hsel : ∀ d ∈ sel, isTrashinfoName d = true) (h : PrefixState fs I F sel s)
    (n : Bytes) (hn : isTrashinfoName n = true) : InfoLast fs s I F n := by
  obtain ⟨done, s0, P, h⟩ := h
  have hD : ∀ {l : List Bytes}, sel = done ++ l → ∀ d ∈ done, isTrashinfoName d = true :=
    fun e d hd => hsel d (by rw [e]; exact List.mem_append_left _ hd)
  intro hsome
  rcases h with ⟨e, rfl⟩ | ⟨cur, later, e, hx, hgone, hother⟩
  · by_cases hd : n ∈ done
    · have := P.payloadGone n hd []
      rw [List.append_nil] at this
      rw [this] at hsome; cases hsome
    · have := (purged_other g P (hD (l := []) (by simpa using e)) hn hd).1 []
      simpa using this
  · by_cases hd : n ∈ done
    · have := (hgone n hd).2 []
      rw [List.append_nil] at this
      rw [this] at hsome; cases hsome
    · by_cases hc : n = cur
      · subst hc
        have h1 := Proofs.C15.purge_info_last noFaults s0 (F ++ [stemOf n]) (I ++ [n])
          (fun h => pay_not_pfx_info g _ _ ((under_iff _ _).1 h))
          (by rw [parent, dropLast_concat]; exact fun e => g.F_ne_info n e.symm) s hx hsome
        have h2 := (purged_other g P (hD e) hn hd).1 []
        rw [List.append_nil] at h2
        exact h1.trans h2
      · have := (hother n hn hd hc).1 []
        simpa using this

/-- in a prefix state at most one entry is half purged -/
theorem prefix_one_half {I F : CPath} (g : GeoI I F) {fs s : FS} {sel : List Bytes}
    (hsel : ∀ d ∈ sel, isTrashinfoName d = true) (h : PrefixState fs I F sel s)
    (n m : Bytes) (hn : isTrashinfoName n = true) (hm : isTrashinfoName m = true)
    (h1 : HalfPurged fs s I F n) (h2 : HalfPurged fs s I F m) : n = m := by
  obtain ⟨done, s0, P, h⟩ := h
  rcases h with ⟨e, rfl⟩ | ⟨cur, later, e, hx, hgone, hother⟩
  · exfalso
    have hD : ∀ d ∈ done, isTrashinfoName d = true := fun d hd => hsel d (by rw [e]; exact hd)
    by_cases hd : n ∈ done
    · exact h1.2 ⟨P.infoGone n hd, P.payloadGone n hd⟩
    · exact h1.1 (purged_other g P hD hn hd)
  · have key : ∀ k, isTrashinfoName k = true → HalfPurged fs s I F k → k = cur := by
      intro k hk hh
      by_cases hd : k ∈ done
      · exact absurd (hgone k hd) hh.2
      · by_cases hc : k = cur
        · exact hc
        · exact absurd (hother k hk hd hc) hh.1
    rw [key n hn h1, key m hm h2]

/-! ### the statements of Props/C15Loop.lean (prefix states, crash invariants) -/

theorem empty_loop_states_are_prefix_states (fs : FS) (cwd : CPath) (t : Bytes) (I F : CPath) (names : List Bytes)
    (o : EmptyOpts) (S : Setting fs cwd t I F names) (hdry : o.dryRun = false) :
    ∀ s ∈ crashStates noFaults (emptyInfos cwd o (infoStrs t names)) fs,
      PrefixState fs I F (emptySelected fs cwd o t names) s := by
  intro s hs
  rcases emptyInfos_core o hdry cwd t I F names { fs := fs } S s (mem_crashStates_iff.1 hs) with h | h
  · cases h
  · exact prefix_of_core (setting_geo S) (fun d hd => S.isInfo d (List.mem_filter.1 hd).1) h

theorem rm_loop_states_are_prefix_states (fs : FS) (cwd : CPath) (t : Bytes) (I F : CPath) (names : List Bytes)
    (pattern volume : Bytes) (S : Setting fs cwd t I F names) :
    ∀ s ∈ crashStates noFaults (rmInfos cwd pattern volume (infoStrs t names)) fs,
      PrefixState fs I F (rmSelected fs cwd pattern volume t names) s := by
  intro s hs
  rcases rmInfos_core pattern volume cwd t I F names { fs := fs } S s (mem_crashStates_iff.1 hs) with h | h
  · cases h
  · exact prefix_of_core (setting_geo S) (fun d hd => S.isInfo d (List.mem_filter.1 hd).1) h

theorem empty_loop_crash_inv_partial (fs : FS) (cwd : CPath) (t : Bytes) (I F : CPath) (names : List Bytes)
    (o : EmptyOpts) (S : Setting fs cwd t I F names) (hdry : o.dryRun = false) :
    ∀ s ∈ crashStates noFaults (emptyInfos cwd o (infoStrs t names)) fs,
      ∀ n, isTrashinfoName n = true → InfoLast fs s I F n := fun s hs n hn =>
  prefix_infoLast (setting_geo S) (fun d hd => S.isInfo d (List.mem_filter.1 hd).1)
    (empty_loop_states_are_prefix_states fs cwd t I F names o S hdry s hs) n hn

theorem rm_loop_crash_inv (φ : Oracle) (fs : FS) (cwd : CPath) (t : Bytes) (I F : CPath) (names : List Bytes)
    (pattern volume : Bytes) (S : Setting fs cwd t I F names) :
    ∀ s ∈ crashStates φ (rmInfos cwd pattern volume (infoStrs t names)) fs,
      ∀ n, isTrashinfoName n = true → InfoLast fs s I F n := by
  intro s hs n hn hsome
  rcases all_crashStates (rmInfos_all φ pattern volume cwd t I F names { fs := fs } S) s hs n hn with h | h
  · exact h
  · rw [h] at hsome; cases hsome

end TrashVerif.Proofs.C15Loop
