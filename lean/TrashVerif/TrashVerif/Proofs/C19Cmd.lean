/-
  Proofs/C19Cmd.lean — proofs of the COMMAND-level statements of C19 and C20 (Props/C19Cmd.lean):
  malformed neighbours in `info/` do not matter to trash-empty / trash-rm / trash-list /
  trash-restore, and the four commands agree on what an entry is.
-/
import TrashVerif.Props.C19CmdDefs
import TrashVerif.Proofs.C10Loop
import TrashVerif.Proofs.C13Cmd
import TrashVerif.Proofs.C08Cmd
import TrashVerif.Proofs.C19
import TrashVerif.Proofs.C20
namespace TrashVerif.Proofs.C19Cmd
open TrashVerif Prog FS PutCore C09Hist C10Loop ReadDefs C19Cmd
open TrashVerif.Proofs.C10Loop
open TrashVerif.Proofs.C17 (run_bind run_read_bind run_pure)

/-! ### trash-empty: the run over `names` IS the run over the names that are not kept-for-their-own-reason -/

/-- what the two `emptyPathR` of a deleted entry do to the rest of the world: a `Step`, with or
    without `--dry-run` -/
theorem step_empty {I F : CPath} (g : Proofs.C09Hist.GeoI I F) (n : Bytes) (o : EmptyOpts)
    (pstr istr : Bytes) (s : RunState) (hGi : Proofs.C15.G (I ++ [n]) s.fs) (hGp : Proofs.C15.G (F ++ [stemOf n]) s.fs) :
    Step I F n s.fs
      (run noFaults (emptyPathR o istr (.ok (I ++ [n]))) (run noFaults (emptyPathR o pstr (.ok (F ++ [stemOf n]))) s).2).2.fs := by
  cases hdry : o.dryRun with
  | false => exact (removed_empty g n o hdry pstr istr s hGi hGp).step
  | true =>
    have h1 := (Proofs.C14.NC.sound noFaults _ s (Proofs.C14.nc_emptyPathR o hdry pstr (.ok (F ++ [stemOf n])))).2
    have h2 := (Proofs.C14.NC.sound noFaults _ (run noFaults (emptyPathR o pstr (.ok (F ++ [stemOf n]))) s).2
      (Proofs.C14.nc_emptyPathR o hdry istr (.ok (I ++ [n])))).2
    rw [h2, h1]
    exact Step.refl I F n s.fs

theorem not_mem_cons_of {α} {a n : α} {l g : List α} (hnd : a ∉ l) (hn : n ∈ l) (hng : n ∉ g) : n ∉ a :: g := by
  intro hm
  rcases List.mem_cons.1 hm with e | hm
  · exact hnd (e ▸ hn)
  · exact hng hm

/-- THE LOOP LEMMA of trash-empty: the names that are dropped from the listing (`good` is a sublist of
    `names`) being kept — decision evaluated on the state the loop starts from —, the run over
    `names` and the run over `good` are EQUAL: same result (crash included), same final run state
    (file system, calls, intermediate states, output). -/
theorem emptyInfos_sub (o : EmptyOpts) (cwd : CPath) (t : Bytes) (I F : CPath)
    {good names : List Bytes} (hsub : good.Sublist names) :
    ∀ s : RunState, Setting s.fs cwd t I F names →
      (∀ n ∈ names, n ∉ good → okToDelete s.fs cwd o (infoStr t n) = .keep) →
      run noFaults (emptyInfos cwd o (infoStrs t names)) s = run noFaults (emptyInfos cwd o (infoStrs t good)) s := by
  induction hsub with
  | slnil => intro s _ _; rfl
  | @cons g l a hs ih =>
    intro s S hbad
    have hnd := List.nodup_cons.1 S.nodup
    have ha : a ∉ g := fun hg => hnd.1 (hs.subset hg)
    have hk := hbad a List.mem_cons_self ha
    show run noFaults (emptyInfos cwd o (infoStr t a :: infoStrs t l)) s = _
    rw [emptyInfos, run_read_bind, hk]
    exact ih s (setting_tail S) fun n hn hng => hbad n (List.mem_cons_of_mem _ hn) hng
  | @cons_cons g l a hs ih =>
    intro s S hbad
    have gI := setting_geo S
    have hnd := List.nodup_cons.1 S.nodup
    have hmem : a ∈ a :: l := List.mem_cons_self
    have hbad' : ∀ n ∈ l, n ∉ g → okToDelete s.fs cwd o (infoStr t n) = .keep := fun n hn hng =>
      hbad n (List.mem_cons_of_mem _ hn) (not_mem_cons_of hnd.1 hn hng)
    show run noFaults (emptyInfos cwd o (infoStr t a :: infoStrs t l)) s =
      run noFaults (emptyInfos cwd o (infoStr t a :: infoStrs t g)) s
    rw [emptyInfos, emptyInfos, run_read_bind, run_read_bind]
    cases hdec : okToDelete s.fs cwd o (infoStr t a) with
    | crash c => rfl
    | keep => exact ih s (setting_tail S) hbad'
    | delete =>
      simp only []
      obtain ⟨r1, r2⟩ := S.resolves s.fs (within_refl I F s.fs) a hmem
      rw [r1, r2, run_bind, run_bind, run_bind, run_bind]
      obtain ⟨hGi, hGp⟩ := setting_G S hmem
      have R := step_empty gI a o (pathOfBackupCopy (infoStr t a)) (infoStr t a) s hGi hGp
      generalize (run noFaults (emptyPathR o (infoStr t a) (.ok (I ++ [a])))
        (run noFaults (emptyPathR o (pathOfBackupCopy (infoStr t a)) (.ok (F ++ [stemOf a]))) s).2).2 = s2 at R ⊢
      refine ih s2 (setting_step S R) fun n hn hng => ?_
      rw [okToDelete_stable o (setting_tail S) R.within hn
        (R.other_info gI (S.isInfo a hmem) (S.isInfo n (List.mem_cons_of_mem _ hn)) (fun e => hnd.1 (e ▸ hn)))]
      exact hbad' n hn hng

/-! ### trash-rm: the same, up to the reports about the dropped names -/

/-- same run up to the output, and the output of the second is a sublist of that of the first -/
def Rel {α} (r r' : α × RunState) : Prop := SameButOuts r r' ∧ r'.2.outs.Sublist r.2.outs

theorem Rel.refl {α} (r : α × RunState) : Rel r r := ⟨⟨rfl, rfl, rfl, rfl, rfl⟩, List.Sublist.refl _⟩

theorem Rel.trans {α} {a c d : α × RunState} (h1 : Rel a c) (h2 : Rel c d) : Rel a d :=
  ⟨⟨h1.1.1.trans h2.1.1, h1.1.2.1.trans h2.1.2.1, h1.1.2.2.1.trans h2.1.2.2.1, h1.1.2.2.2.1.trans h2.1.2.2.2.1,
    h1.1.2.2.2.2.trans h2.1.2.2.2.2⟩, h2.2.trans h1.2⟩

/-- a program runs the same whatever was printed before -/
theorem rel_outs {α} (φ : Oracle) (p : Prog α) (s : RunState) (O : List Out) :
    Rel (run φ p { s with outs := O ++ s.outs }) (run φ p s) := by
  obtain ⟨new, h1, h2⟩ := Proofs.C16Indep.run_outs φ p s (O ++ s.outs)
  rw [h2]
  refine ⟨⟨rfl, rfl, rfl, rfl, rfl⟩, ?_⟩
  rw [h1]
  exact (List.Sublist.refl new).append (List.sublist_append_right O s.outs)

/-- the verdict "kept for a reason of its own" of trash-rm: unreadable or without `Path=` line
    (reported); or — the pattern being non-empty — not matched -/
def RmKept (fs : FS) (cwd : CPath) (pattern volume i : Bytes) : Prop :=
  rmUnparsable fs cwd i = true ∨ (pattern ≠ [] ∧ rmSelects fs cwd pattern volume i = false)

/-- a kept info is skipped: at most a report is printed -/
theorem rmInfos_skip (φ : Oracle) (cwd : CPath) (pattern volume i : Bytes) (rest : List Bytes) (s : RunState)
    (h : RmKept s.fs cwd pattern volume i) :
    ∃ O, run φ (rmInfos cwd pattern volume (i :: rest)) s = run φ (rmInfos cwd pattern volume rest) { s with outs := O ++ s.outs } := by
  rw [rmInfos, run_read_bind]
  unfold RmKept rmUnparsable rmSelects at h
  cases hc : contentsOf s.fs cwd i with
  | none => exact ⟨[Out.stderr "unparsable" i], by simp only [run_bind, run_say]; rfl⟩
  | some text =>
    rw [hc] at h
    simp only [] at h ⊢
    cases hpp : parsePath text with
    | none => exact ⟨[Out.stderr "unparsable" i], by simp only [run_bind, run_say]; rfl⟩
    | some rel =>
      rw [hpp] at h
      simp only [Option.isNone_some, Bool.false_eq_true, false_or, decide_eq_false_iff_not] at h
      simp only []
      obtain ⟨v, hv⟩ := rmMatches_some h.1 (pjoin volume rel)
      rw [hv] at h ⊢
      cases v with
      | false => exact ⟨[], rfl⟩
      | true => exact absurd rfl h.2

theorem rmInfos_sub (pattern volume : Bytes) (cwd : CPath) (t : Bytes) (I F : CPath)
    {good names : List Bytes} (hsub : good.Sublist names) :
    ∀ s : RunState, Setting s.fs cwd t I F names →
      (∀ n ∈ names, n ∉ good → RmKept s.fs cwd pattern volume (infoStr t n)) →
      Rel (run noFaults (rmInfos cwd pattern volume (infoStrs t names)) s)
        (run noFaults (rmInfos cwd pattern volume (infoStrs t good)) s) := by
  induction hsub with
  | slnil => intro s _ _; exact Rel.refl _
  | @cons g l a hs ih =>
    intro s S hbad
    have hnd := List.nodup_cons.1 S.nodup
    have ha : a ∉ g := fun hg => hnd.1 (hs.subset hg)
    obtain ⟨O, e⟩ := rmInfos_skip noFaults cwd pattern volume (infoStr t a) (infoStrs t l) s (hbad a List.mem_cons_self ha)
    show Rel (run noFaults (rmInfos cwd pattern volume (infoStr t a :: infoStrs t l)) s) _
    rw [e]
    exact (ih { s with outs := O ++ s.outs } (setting_tail S) fun n hn hng => hbad n (List.mem_cons_of_mem _ hn) hng).trans
      (rel_outs noFaults _ s O)
  | @cons_cons g l a hs ih =>
    intro s S hbad
    have gI := setting_geo S
    have hnd := List.nodup_cons.1 S.nodup
    have hmem : a ∈ a :: l := List.mem_cons_self
    have hbad' : ∀ n ∈ l, n ∉ g → RmKept s.fs cwd pattern volume (infoStr t n) := fun n hn hng =>
      hbad n (List.mem_cons_of_mem _ hn) (not_mem_cons_of hnd.1 hn hng)
    show Rel (run noFaults (rmInfos cwd pattern volume (infoStr t a :: infoStrs t l)) s)
      (run noFaults (rmInfos cwd pattern volume (infoStr t a :: infoStrs t g)) s)
    rw [rmInfos, rmInfos, run_read_bind, run_read_bind]
    cases hc : contentsOf s.fs cwd (infoStr t a) with
    | none =>
      simp only [run_bind, run_say]
      exact ih { s with outs := Out.stderr "unparsable" (infoStr t a) :: s.outs } (setting_tail S) hbad'
    | some text =>
      simp only []
      cases hpp : parsePath text with
      | none =>
        simp only [run_bind, run_say]
        exact ih { s with outs := Out.stderr "unparsable" (infoStr t a) :: s.outs } (setting_tail S) hbad'
      | some rel =>
        simp only []
        cases hv : rmMatches pattern (pjoin volume rel) with
        | none => exact Rel.refl _
        | some v =>
          cases v with
          | false => exact ih s (setting_tail S) hbad'
          | true =>
            simp only []
            obtain ⟨r1, r2⟩ := S.resolves s.fs (within_refl I F s.fs) a hmem
            rw [r1, r2, run_bind, run_bind]
            obtain ⟨hGi, hGp⟩ := setting_G S hmem
            have hfile : ∃ d m t', s.fs.get (I ++ [a]) = some (.file d m t') := by
              have := contentsOf_info S (within_refl I F s.fs) hmem (S.notLink a hmem)
              rw [hc] at this
              rcases hg : s.fs.get (I ++ [a]) with _ | (_ | _ | _)
              · rw [hg] at this; cases this
              · exact ⟨_, _, _, rfl⟩
              · rw [hg] at this; cases this
              · rw [hg] at this; cases this
            obtain ⟨d, m, t', hfile⟩ := hfile
            obtain ⟨ok, R⟩ := removed_rm gI a s hGi hGp hfile
            rw [ok]
            simp only []
            generalize (run noFaults (purgePair (.ok (F ++ [stemOf a])) (.ok (I ++ [a]))) s).2 = s2 at R ⊢
            refine ih s2 (setting_step S R.step) fun n hn hng => ?_
            have hst := rmSelects_stable pattern volume (setting_tail S) R.step.within hn
              (R.step.other_info gI (S.isInfo a hmem) (S.isInfo n (List.mem_cons_of_mem _ hn)) (fun e => hnd.1 (e ▸ hn)))
            unfold RmKept
            rw [hst.1, hst.2]
            exact hbad' n hn hng

/-! ### the statements of Props/C19Cmd.lean: purge side -/

theorem filter_sub_eq {α} (p : α → Bool) {good l : List α} (hsub : good.Sublist l) (hnd : l.Nodup)
    (hbad : ∀ x ∈ l, x ∉ good → p x = false) : l.filter p = good.filter p := by
  induction hsub with
  | slnil => rfl
  | @cons g l a hs ih =>
    have hnd' := List.nodup_cons.1 hnd
    have ha : a ∉ g := fun hg => hnd'.1 (hs.subset hg)
    rw [List.filter_cons_of_neg (by simp [hbad a List.mem_cons_self ha])]
    exact ih hnd'.2 fun x hx hxg => hbad x (List.mem_cons_of_mem _ hx) hxg
  | @cons_cons g l a hs ih =>
    have hnd' := List.nodup_cons.1 hnd
    rw [List.filter_cons, List.filter_cons,
      ih hnd'.2 fun x hx hxg => hbad x (List.mem_cons_of_mem _ hx) (not_mem_cons_of hnd'.1 hx hxg)]

/-- what a reader sees of the info file of a listed name is a function of the node at
    `info/N.trashinfo` alone -/
theorem contentsOf_own {fs fs2 : FS} {cwd : CPath} {t : Bytes} {I F : CPath} {names names2 : List Bytes} {n : Bytes}
    (S : Setting fs cwd t I F names) (S2 : Setting fs2 cwd t I F names2) (hn : n ∈ names) (hn2 : n ∈ names2)
    (h : fs2.get (I ++ [n]) = fs.get (I ++ [n])) :
    contentsOf fs2 cwd (infoStr t n) = contentsOf fs cwd (infoStr t n) := by
  rw [contentsOf_info S2 (within_refl I F fs2) hn2 (S2.notLink n hn2),
    contentsOf_info S (within_refl I F fs) hn (S.notLink n hn), h]

theorem decisions_read_own_info_only (fs fs2 : FS) (cwd : CPath) (t : Bytes) (I F : CPath) (names names2 : List Bytes)
    (n : Bytes) (S : Setting fs cwd t I F names) (S2 : Setting fs2 cwd t I F names2) (hn : n ∈ names) (hn2 : n ∈ names2)
    (h : fs2.get (I ++ [n]) = fs.get (I ++ [n])) :
    contentsOf fs2 cwd (infoStr t n) = contentsOf fs cwd (infoStr t n) ∧
    (∀ o, okToDelete fs2 cwd o (infoStr t n) = okToDelete fs cwd o (infoStr t n)) ∧
    (∀ pattern v, rmSelects fs2 cwd pattern v (infoStr t n) = rmSelects fs cwd pattern v (infoStr t n)) ∧
    rmUnparsable fs2 cwd (infoStr t n) = rmUnparsable fs cwd (infoStr t n) ∧
    (∀ v, listOne fs2 cwd v (infoStr t n) = listOne fs cwd v (infoStr t n)) ∧
    (∀ v, restoreItem fs2 cwd (pjoin t (b "info")) v n = restoreItem fs cwd (pjoin t (b "info")) v n) := by
  have e := contentsOf_own S S2 hn hn2 h
  refine ⟨e, fun o => ?_, fun pattern v => ?_, ?_, fun v => ?_, fun v => ?_⟩
  · unfold okToDelete; rw [e]
  · unfold rmSelects; rw [e]
  · unfold rmUnparsable; rw [e]
  · unfold listOne; rw [e]
  · have e' : contentsOf fs2 cwd (pjoin (pjoin t (b "info")) n) = contentsOf fs cwd (pjoin (pjoin t (b "info")) n) := e
    unfold restoreItem; rw [e']

theorem empty_neighbours_do_not_matter (fs : FS) (cwd : CPath) (t : Bytes) (I F : CPath) (names good : List Bytes)
    (o : EmptyOpts) (S : Setting fs cwd t I F names) (hsub : good.Sublist names)
    (hbad : ∀ n ∈ names, n ∉ good → okToDelete fs cwd o (infoStr t n) = .keep) :
    run noFaults (emptyInfos cwd o (infoStrs t names)) { fs := fs } =
      run noFaults (emptyInfos cwd o (infoStrs t good)) { fs := fs } ∧
    emptySelected fs cwd o t names = emptySelected fs cwd o t good :=
  ⟨emptyInfos_sub o cwd t I F hsub { fs := fs } S hbad,
   filter_sub_eq _ hsub S.nodup fun n hn hng => by simp [hbad n hn hng]⟩

theorem empty_nocrash_of_good {fs : FS} {cwd : CPath} {t : Bytes} {names good : List Bytes} {o : EmptyOpts}
    (hbad : ∀ n ∈ names, n ∉ good → okToDelete fs cwd o (infoStr t n) = .keep)
    (hnc : ∀ n ∈ good, ∀ c, okToDelete fs cwd o (infoStr t n) ≠ .crash c) :
    ∀ n ∈ names, ∀ c, okToDelete fs cwd o (infoStr t n) ≠ .crash c := by
  intro n hn c
  by_cases hg : n ∈ good
  · exact hnc n hg c
  · rw [hbad n hn hg]; exact fun h => nomatch h

theorem empty_good_entries_handled (fs : FS) (cwd : CPath) (t : Bytes) (I F : CPath) (names good : List Bytes)
    (o : EmptyOpts) (S : Setting fs cwd t I F names) (hsub : good.Sublist names) (hdry : o.dryRun = false)
    (hbad : ∀ n ∈ names, n ∉ good → okToDelete fs cwd o (infoStr t n) = .keep)
    (hnc : ∀ n ∈ good, ∀ c, okToDelete fs cwd o (infoStr t n) ≠ .crash c) :
    (run noFaults (emptyInfos cwd o (infoStrs t names)) { fs := fs }).1 = none ∧
    (∀ n ∈ good, okToDelete fs cwd o (infoStr t n) = .delete →
      EntryGone (run noFaults (emptyInfos cwd o (infoStrs t names)) { fs := fs }).2.fs I F n) ∧
    (∀ n ∈ good, okToDelete fs cwd o (infoStr t n) = .keep →
      EntryIntact fs (run noFaults (emptyInfos cwd o (infoStrs t names)) { fs := fs }).2.fs I F n) ∧
    (∀ n ∈ names, n ∉ good → EntryIntact fs (run noFaults (emptyInfos cwd o (infoStrs t names)) { fs := fs }).2.fs I F n) ∧
    PurgedExactly fs (run noFaults (emptyInfos cwd o (infoStrs t names)) { fs := fs }).2.fs I F
      (emptySelected fs cwd o t good) := by
  obtain ⟨a, d, k, P⟩ := empty_selects_exactly fs cwd t I F names o S hdry (empty_nocrash_of_good hbad hnc)
  rw [(empty_neighbours_do_not_matter fs cwd t I F names good o S hsub hbad).2] at P
  exact ⟨a, fun n hn hd => d n (hsub.subset hn) hd, fun n hn hk => k n (hsub.subset hn) hk,
    fun n hn hng => k n hn (hbad n hn hng), P⟩

theorem empty_without_neighbours (fs fs2 : FS) (cwd : CPath) (t : Bytes) (I F : CPath) (names good : List Bytes)
    (o : EmptyOpts) (S : Setting fs cwd t I F names) (S2 : Setting fs2 cwd t I F good) (hsub : good.Sublist names)
    (hdry : o.dryRun = false)
    (hbad : ∀ n ∈ names, n ∉ good → okToDelete fs cwd o (infoStr t n) = .keep)
    (hnc : ∀ n ∈ good, ∀ c, okToDelete fs cwd o (infoStr t n) ≠ .crash c)
    (hsame : ∀ n ∈ good, EntryIntact fs fs2 I F n) :
    (run noFaults (emptyInfos cwd o (infoStrs t names)) { fs := fs }).1 = none ∧
    (run noFaults (emptyInfos cwd o (infoStrs t good)) { fs := fs2 }).1 = none ∧
    emptySelected fs cwd o t names = emptySelected fs2 cwd o t good ∧
    ∀ n ∈ good,
      (∀ rel, (run noFaults (emptyInfos cwd o (infoStrs t names)) { fs := fs }).2.fs.get (I ++ [n] ++ rel) =
        (run noFaults (emptyInfos cwd o (infoStrs t good)) { fs := fs2 }).2.fs.get (I ++ [n] ++ rel)) ∧
      (∀ rel, (run noFaults (emptyInfos cwd o (infoStrs t names)) { fs := fs }).2.fs.get (F ++ [stemOf n] ++ rel) =
        (run noFaults (emptyInfos cwd o (infoStrs t good)) { fs := fs2 }).2.fs.get (F ++ [stemOf n] ++ rel)) := by
  have hdec : ∀ n ∈ good, okToDelete fs2 cwd o (infoStr t n) = okToDelete fs cwd o (infoStr t n) := fun n hn =>
    (decisions_read_own_info_only fs fs2 cwd t I F names good n S S2 (hsub.subset hn) hn
      (by have := (hsame n hn).1 []; simpa using this)).2.1 o
  obtain ⟨a, d, k, _⟩ := empty_selects_exactly fs cwd t I F names o S hdry (empty_nocrash_of_good hbad hnc)
  obtain ⟨a2, d2, k2, _⟩ := empty_selects_exactly fs2 cwd t I F good o S2 hdry
    (fun n hn c => by rw [hdec n hn]; exact hnc n hn c)
  refine ⟨a, a2, ?_, fun n hn => ?_⟩
  · rw [(empty_neighbours_do_not_matter fs cwd t I F names good o S hsub hbad).2]
    exact (emptySelected_congr hdec).symm
  · cases hd : okToDelete fs cwd o (infoStr t n) with
    | crash c => exact absurd hd (hnc n hn c)
    | delete =>
      obtain ⟨x1, x2⟩ := d n (hsub.subset hn) hd
      obtain ⟨y1, y2⟩ := d2 n hn (by rw [hdec n hn]; exact hd)
      exact ⟨fun rel => (x1 rel).trans (y1 rel).symm, fun rel => (x2 rel).trans (y2 rel).symm⟩
    | keep =>
      obtain ⟨x1, x2⟩ := k n (hsub.subset hn) hd
      obtain ⟨y1, y2⟩ := k2 n hn (by rw [hdec n hn]; exact hd)
      exact ⟨fun rel => (x1 rel).trans (((hsame n hn).1 rel).symm.trans (y1 rel).symm),
        fun rel => (x2 rel).trans (((hsame n hn).2 rel).symm.trans (y2 rel).symm)⟩

theorem malformed_is_kept_by_days (fs : FS) (cwd : CPath) (o : EmptyOpts) (days : Nat) (i : Bytes)
    (hd : o.days = some days) (h : (contentsOf fs cwd i).bind parseDeletionDate = none) :
    okToDelete fs cwd o i = .keep := Proofs.C19.okToDelete_undated fs cwd o days i hd h

/-! #### trash-rm -/

theorem unparsable_not_selected {fs : FS} {cwd : CPath} {pattern volume i : Bytes}
    (h : rmUnparsable fs cwd i = true ∨ (pattern ≠ [] ∧ rmSelects fs cwd pattern volume i = false)) :
    rmSelects fs cwd pattern volume i = false := by
  rcases h with h | h
  · unfold rmUnparsable at h
    unfold rmSelects
    cases hc : contentsOf fs cwd i with
    | none => rfl
    | some text =>
      rw [hc] at h
      simp only [Option.isNone_iff_eq_none] at h
      simp only [h]
  · exact h.2

theorem rm_neighbours_do_not_matter (fs : FS) (cwd : CPath) (t : Bytes) (I F : CPath) (names good : List Bytes)
    (pattern volume : Bytes) (S : Setting fs cwd t I F names) (hsub : good.Sublist names)
    (hbad : ∀ n ∈ names, n ∉ good → rmUnparsable fs cwd (infoStr t n) = true ∨
      (pattern ≠ [] ∧ rmSelects fs cwd pattern volume (infoStr t n) = false)) :
    SameButOuts (run noFaults (rmInfos cwd pattern volume (infoStrs t names)) { fs := fs })
      (run noFaults (rmInfos cwd pattern volume (infoStrs t good)) { fs := fs }) ∧
    (run noFaults (rmInfos cwd pattern volume (infoStrs t good)) { fs := fs }).2.outs.Sublist
      (run noFaults (rmInfos cwd pattern volume (infoStrs t names)) { fs := fs }).2.outs ∧
    rmSelected fs cwd pattern volume t names = rmSelected fs cwd pattern volume t good := by
  obtain ⟨h1, h2⟩ := rmInfos_sub pattern volume cwd t I F hsub { fs := fs } S hbad
  exact ⟨h1, h2, filter_sub_eq _ hsub S.nodup fun n hn hng => unparsable_not_selected (hbad n hn hng)⟩

theorem rm_good_entries_handled (fs : FS) (cwd : CPath) (t : Bytes) (I F : CPath) (names good : List Bytes)
    (pattern volume : Bytes) (S : Setting fs cwd t I F names) (hsub : good.Sublist names) (hp : pattern ≠ [])
    (hbad : ∀ n ∈ names, n ∉ good → rmUnparsable fs cwd (infoStr t n) = true ∨
      (pattern ≠ [] ∧ rmSelects fs cwd pattern volume (infoStr t n) = false)) :
    (run noFaults (rmInfos cwd pattern volume (infoStrs t names)) { fs := fs }).1 = none ∧
    (∀ n ∈ good, rmSelects fs cwd pattern volume (infoStr t n) = true →
      EntryGone (run noFaults (rmInfos cwd pattern volume (infoStrs t names)) { fs := fs }).2.fs I F n) ∧
    (∀ n ∈ good, rmSelects fs cwd pattern volume (infoStr t n) = false →
      EntryIntact fs (run noFaults (rmInfos cwd pattern volume (infoStrs t names)) { fs := fs }).2.fs I F n) ∧
    (∀ n ∈ names, n ∉ good →
      EntryIntact fs (run noFaults (rmInfos cwd pattern volume (infoStrs t names)) { fs := fs }).2.fs I F n) ∧
    PurgedExactly fs (run noFaults (rmInfos cwd pattern volume (infoStrs t names)) { fs := fs }).2.fs I F
      (rmSelected fs cwd pattern volume t good) ∧
    (run noFaults (rmInfos cwd pattern volume (infoStrs t names)) { fs := fs }).2.outs =
      (((infoStrs t names).filter (rmUnparsable fs cwd)).map (Out.stderr "unparsable")).reverse := by
  obtain ⟨a, d, k, P, c⟩ := rm_selects_exactly fs cwd t I F names pattern volume S hp
  rw [(rm_neighbours_do_not_matter fs cwd t I F names good pattern volume S hsub hbad).2.2] at P
  exact ⟨a, fun n hn hd => d n (hsub.subset hn) hd, fun n hn hk => k n (hsub.subset hn) hk,
    fun n hn hng => k n hn (unparsable_not_selected (hbad n hn hng)), P, c⟩

theorem rm_without_neighbours (fs fs2 : FS) (cwd : CPath) (t : Bytes) (I F : CPath) (names good : List Bytes)
    (pattern volume : Bytes) (S : Setting fs cwd t I F names) (S2 : Setting fs2 cwd t I F good)
    (hsub : good.Sublist names) (hp : pattern ≠ [])
    (hbad : ∀ n ∈ names, n ∉ good → rmUnparsable fs cwd (infoStr t n) = true ∨
      (pattern ≠ [] ∧ rmSelects fs cwd pattern volume (infoStr t n) = false))
    (hsame : ∀ n ∈ good, EntryIntact fs fs2 I F n) :
    (run noFaults (rmInfos cwd pattern volume (infoStrs t names)) { fs := fs }).1 = none ∧
    (run noFaults (rmInfos cwd pattern volume (infoStrs t good)) { fs := fs2 }).1 = none ∧
    rmSelected fs cwd pattern volume t names = rmSelected fs2 cwd pattern volume t good ∧
    ∀ n ∈ good,
      (∀ rel, (run noFaults (rmInfos cwd pattern volume (infoStrs t names)) { fs := fs }).2.fs.get (I ++ [n] ++ rel) =
        (run noFaults (rmInfos cwd pattern volume (infoStrs t good)) { fs := fs2 }).2.fs.get (I ++ [n] ++ rel)) ∧
      (∀ rel, (run noFaults (rmInfos cwd pattern volume (infoStrs t names)) { fs := fs }).2.fs.get (F ++ [stemOf n] ++ rel) =
        (run noFaults (rmInfos cwd pattern volume (infoStrs t good)) { fs := fs2 }).2.fs.get (F ++ [stemOf n] ++ rel)) := by
  have hdec : ∀ n ∈ good, rmSelects fs2 cwd pattern volume (infoStr t n) = rmSelects fs cwd pattern volume (infoStr t n) :=
    fun n hn => (decisions_read_own_info_only fs fs2 cwd t I F names good n S S2 (hsub.subset hn) hn
      (by have := (hsame n hn).1 []; simpa using this)).2.2.1 pattern volume
  obtain ⟨a, d, k, _, _⟩ := rm_selects_exactly fs cwd t I F names pattern volume S hp
  obtain ⟨a2, d2, k2, _, _⟩ := rm_selects_exactly fs2 cwd t I F good pattern volume S2 hp
  refine ⟨a, a2, ?_, fun n hn => ?_⟩
  · rw [(rm_neighbours_do_not_matter fs cwd t I F names good pattern volume S hsub hbad).2.2]
    unfold rmSelected
    exact (List.filter_congr fun n hn => hdec n hn).symm
  · cases hd : rmSelects fs cwd pattern volume (infoStr t n) with
    | true =>
      obtain ⟨x1, x2⟩ := d n (hsub.subset hn) hd
      obtain ⟨y1, y2⟩ := d2 n hn (by rw [hdec n hn]; exact hd)
      exact ⟨fun rel => (x1 rel).trans (y1 rel).symm, fun rel => (x2 rel).trans (y2 rel).symm⟩
    | false =>
      obtain ⟨x1, x2⟩ := k n (hsub.subset hn) hd
      obtain ⟨y1, y2⟩ := k2 n hn (by rw [hdec n hn]; exact hd)
      exact ⟨fun rel => (x1 rel).trans (((hsame n hn).1 rel).symm.trans (y1 rel).symm),
        fun rel => (x2 rel).trans (((hsame n hn).2 rel).symm.trans (y2 rel).symm)⟩

/-! ### trash-list -/

theorem lineOf_isSome (fs : FS) (cwd : CPath) (v i : Bytes) : (lineOf fs cwd v i).isSome = wellFormed fs cwd i := by
  unfold lineOf wellFormed
  cases contentsOf fs cwd i with
  | none => rfl
  | some text =>
    simp only [Option.bind_some]
    cases parsePath text <;> rfl

/-- one info file: its line when it is well-formed, a diagnostic about itself otherwise -/
theorem listOne_eq (fs : FS) (cwd : CPath) (v i : Bytes) :
    listOne fs cwd v i = match lineOf fs cwd v i with
      | some l => .stdout l
      | none => diagOf fs cwd i := by
  unfold listOne lineOf diagOf
  cases contentsOf fs cwd i with
  | none => rfl
  | some text =>
    simp only [Option.bind_some]
    cases parsePath text <;> rfl

theorem lineOf_none_of {fs : FS} {cwd : CPath} {v i : Bytes} (h : wellFormed fs cwd i = false) : lineOf fs cwd v i = none := by
  have := lineOf_isSome fs cwd v i
  rw [h] at this
  cases hl : lineOf fs cwd v i with
  | none => rfl
  | some l => rw [hl] at this; cases this

theorem listOne_stdout (fs : FS) (cwd : CPath) (v : Bytes) (infos : List Bytes) :
    (infos.map (listOne fs cwd v)).filter isStdout = (infos.filterMap (lineOf fs cwd v)).map Out.stdout := by
  induction infos with
  | nil => rfl
  | cons i rest ih =>
    rw [List.map_cons, List.filterMap_cons, listOne_eq]
    cases hl : lineOf fs cwd v i with
    | none =>
      have : isStdout (diagOf fs cwd i) = false := by unfold diagOf; split <;> rfl
      simp only []
      rw [List.filter_cons_of_neg (by simp [this]), ih]
    | some l =>
      simp only []
      rw [List.filter_cons_of_pos (by rfl), ih, List.map_cons]

theorem listOne_stderr (fs : FS) (cwd : CPath) (v : Bytes) (infos : List Bytes) :
    (infos.map (listOne fs cwd v)).filter (fun o => !isStdout o) =
      (infos.filter fun i => !wellFormed fs cwd i).map (diagOf fs cwd) := by
  induction infos with
  | nil => rfl
  | cons i rest ih =>
    rw [List.map_cons, listOne_eq]
    have hw := lineOf_isSome fs cwd v i
    cases hl : lineOf fs cwd v i with
    | none =>
      rw [hl] at hw
      have : isStdout (diagOf fs cwd i) = false := by unfold diagOf; split <;> rfl
      simp only []
      rw [List.filter_cons_of_pos (by simp [this]), List.filter_cons_of_pos (by simp [← hw]), ih, List.map_cons]
    | some l =>
      rw [hl] at hw
      simp only []
      rw [List.filter_cons_of_neg (by simp [isStdout]), List.filter_cons_of_neg (by simp [← hw]), ih]

theorem infosList_of_ok {fs : FS} {cwd : CPath} {t : Bytes} {l : List Bytes} (h : infosOf fs cwd t = .ok l) :
    infosList fs cwd t = l := by unfold infosList; rw [h]

/-- every directory found can be listed: the run of the event loop, completely -/
theorem listEvents_ok (φ : Oracle) (cwd : CPath) : ∀ (evs : List ScanEvent) (s : RunState),
    (∀ tv ∈ foundDirs evs, ∃ l, infosOf s.fs cwd tv.1 = .ok l) →
    run φ (listEvents cwd evs) s = (none, { s with outs := (C08Cmd.listOutsOf s.fs cwd evs).reverse ++ s.outs }) := by
  intro evs
  induction evs with
  | nil => intro s _; rfl
  | cons ev rest ih =>
    intro s hls
    cases ev with
    | skippedNotSticky q =>
      rw [listEvents, run_bind, Proofs.C08.run_say,
        ih { s with outs := Out.stderr "skipped-not-sticky" q :: s.outs } (fun tv htv => hls tv htv)]
      simp [C08Cmd.listOutsOf]
    | skippedSymlink q =>
      rw [listEvents, run_bind, Proofs.C08.run_say,
        ih { s with outs := Out.stderr "skipped-symlink" q :: s.outs } (fun tv htv => hls tv htv)]
      simp [C08Cmd.listOutsOf]
    | found q v =>
      obtain ⟨infos, hi⟩ := hls (q, v) (by simp [foundDirs])
      rw [listEvents, run_read_bind]
      simp only [hi, run_bind, Proofs.C09.emitAll_run]
      rw [ih { s with outs := (infos.map (listOne s.fs cwd v)).reverse ++ s.outs }
        (fun tv htv => hls tv (by simp [foundDirs, htv]))]
      simp [C08Cmd.listOutsOf, hi]

theorem listOutsOf_split (fs : FS) (cwd : CPath) : ∀ evs : List ScanEvent,
    (∀ tv ∈ foundDirs evs, ∃ l, infosOf fs cwd tv.1 = .ok l) →
    (C08Cmd.listOutsOf fs cwd evs).filter isStdout = (listLines fs cwd (foundDirs evs)).map Out.stdout ∧
    (C08Cmd.listOutsOf fs cwd evs).filter (fun o => !isStdout o) = listDiags fs cwd evs := by
  intro evs
  induction evs with
  | nil => intro _; exact ⟨rfl, rfl⟩
  | cons ev rest ih =>
    intro hls
    cases ev with
    | skippedNotSticky q =>
      obtain ⟨h1, h2⟩ := ih fun tv htv => hls tv htv
      refine ⟨?_, ?_⟩
      · rw [C08Cmd.listOutsOf, List.filter_cons_of_neg (by simp [isStdout])]; exact h1
      · rw [C08Cmd.listOutsOf, List.filter_cons_of_pos (by simp [isStdout]), h2]; rfl
    | skippedSymlink q =>
      obtain ⟨h1, h2⟩ := ih fun tv htv => hls tv htv
      refine ⟨?_, ?_⟩
      · rw [C08Cmd.listOutsOf, List.filter_cons_of_neg (by simp [isStdout])]; exact h1
      · rw [C08Cmd.listOutsOf, List.filter_cons_of_pos (by simp [isStdout]), h2]; rfl
    | found q v =>
      obtain ⟨infos, hi⟩ := hls (q, v) (by simp [foundDirs])
      obtain ⟨h1, h2⟩ := ih fun tv htv => hls tv (by simp [foundDirs, htv])
      have e : C08Cmd.listOutsOf fs cwd (.found q v :: rest) =
          infos.map (listOne fs cwd v) ++ C08Cmd.listOutsOf fs cwd rest := by
        rw [C08Cmd.listOutsOf]; simp only [hi]
      refine ⟨?_, ?_⟩
      · rw [e, List.filter_append, listOne_stdout, h1]
        show _ = (listLines fs cwd ((q, v) :: foundDirs rest)).map Out.stdout
        unfold listLines
        rw [List.flatMap_cons, List.map_append, infosList_of_ok hi]
      · rw [e, List.filter_append, listOne_stderr, h2]
        show _ = ((infosList fs cwd q).filter fun i => !wellFormed fs cwd i).map (diagOf fs cwd) ++ listDiags fs cwd rest
        rw [infosList_of_ok hi]

theorem list_neighbours_do_not_matter (φ : Oracle) (c : ReadCfg) (dirs : List Bytes) (s : RunState)
    (hls : ∀ tv ∈ foundDirs (selectTrashDirs s.fs c dirs), ∃ l, infosOf s.fs c.cwd tv.1 = .ok l) :
    run φ (runList c dirs) s =
      ({ exit := 0 }, { s with outs := (C08Cmd.listOutsOf s.fs c.cwd (selectTrashDirs s.fs c dirs)).reverse ++ s.outs }) ∧
    (C08Cmd.listOutsOf s.fs c.cwd (selectTrashDirs s.fs c dirs)).filter isStdout =
      (listLines s.fs c.cwd (foundDirs (selectTrashDirs s.fs c dirs))).map Out.stdout ∧
    (C08Cmd.listOutsOf s.fs c.cwd (selectTrashDirs s.fs c dirs)).filter (fun o => !isStdout o) =
      listDiags s.fs c.cwd (selectTrashDirs s.fs c dirs) := by
  have e : run φ (runList c dirs) s = run φ (listEvents c.cwd (selectTrashDirs s.fs c dirs) >>= fun x =>
      match x with
      | some cr => (do say (.stderr "traceback" []); pure { exit := 1, crash := some cr } : Prog CmdResult)
      | none => pure { exit := 0 }) s := rfl
  refine ⟨?_, listOutsOf_split s.fs c.cwd _ hls⟩
  rw [e, run_bind, listEvents_ok φ c.cwd _ s hls]
  rfl

theorem filterMap_congr' {α β} {f g : α → Option β} : ∀ {l : List α}, (∀ x ∈ l, f x = g x) → l.filterMap f = l.filterMap g := by
  intro l
  induction l with
  | nil => intro _; rfl
  | cons a l ih =>
    intro h
    rw [List.filterMap_cons, List.filterMap_cons, h a List.mem_cons_self, ih fun x hx => h x (List.mem_cons_of_mem _ hx)]

/-- the lines of one directory: malformed neighbours (anywhere in the listing) do not matter, and
    neither does their removal from the file system -/
theorem lines_ignore_neighbours (fs fs' : FS) (cwd : CPath) (v : Bytes) (infos good : List Bytes)
    (hsub : good.Sublist infos) (hall : (infos.filter (wellFormed fs cwd)).Sublist good)
    (hsame : ∀ i ∈ good, contentsOf fs' cwd i = contentsOf fs cwd i) :
    infos.filterMap (lineOf fs cwd v) = good.filterMap (lineOf fs' cwd v) := by
  have hall' : (infos.filter fun x => (lineOf fs cwd v x).isSome).Sublist good := by
    have : (fun x => (lineOf fs cwd v x).isSome) = wellFormed fs cwd := funext fun x => lineOf_isSome fs cwd v x
    rw [this]; exact hall
  rw [Proofs.C19.filterMap_isolation_positional (lineOf fs cwd v) infos good hsub hall']
  apply filterMap_congr'
  intro i hi
  unfold lineOf
  rw [hsame i hi]

/-! ### trash-restore -/

theorem restore_scan_ignores_neighbours (fs : FS) (cwd : CPath) (t v : Bytes) (ns good : List Bytes)
    (h : listdirStr fs cwd (pjoin t (b "info")) = some ns)
    (hsub : good.Sublist ns) (hall : (restoreGood fs cwd t v ns).Sublist good) :
    restoreEntriesOf fs cwd t v = good.filterMap (restoreItem fs cwd (pjoin t (b "info")) v) := by
  rw [Proofs.C19.restore_scan_itemwise fs cwd t v ns h]
  exact Proofs.C19.filterMap_isolation_positional _ ns good hsub hall

theorem restore_scan_without_neighbours (fs fs' : FS) (cwd : CPath) (t v : Bytes) (ns good : List Bytes)
    (h : listdirStr fs cwd (pjoin t (b "info")) = some ns) (h' : listdirStr fs' cwd (pjoin t (b "info")) = some good)
    (hsub : good.Sublist ns) (hall : (restoreGood fs cwd t v ns).Sublist good)
    (hsame : ∀ n ∈ good, contentsOf fs' cwd (pjoin (pjoin t (b "info")) n) = contentsOf fs cwd (pjoin (pjoin t (b "info")) n)) :
    restoreEntriesOf fs cwd t v = restoreEntriesOf fs' cwd t v := by
  rw [restore_scan_ignores_neighbours fs cwd t v ns good h hsub hall,
    Proofs.C19.restore_scan_itemwise fs' cwd t v good h']
  apply filterMap_congr'
  intro n hn
  unfold restoreItem
  rw [hsame n hn]

theorem flatMap_congr' {α β} {f g : α → List β} : ∀ {l : List α}, (∀ x ∈ l, f x = g x) → l.flatMap f = l.flatMap g := by
  intro l
  induction l with
  | nil => intro _; rfl
  | cons a l ih =>
    intro h
    rw [List.flatMap_cons, List.flatMap_cons, h a List.mem_cons_self, ih fun x hx => h x (List.mem_cons_of_mem _ hx)]

theorem restore_neighbours_do_not_matter (fs fs' : FS) (c : ReadCfg) (o : RestoreOpts)
    (hdirs : restoreTrashDirs fs' c o.trashDir = restoreTrashDirs fs c o.trashDir)
    (hent : ∀ tv ∈ restoreTrashDirs fs c o.trashDir,
      restoreEntriesOf fs' c.cwd tv.1 tv.2 = restoreEntriesOf fs c.cwd tv.1 tv.2) :
    restoreEntries fs' c o = restoreEntries fs c o ∧ C13Cmd.offered fs' c o = C13Cmd.offered fs c o ∧
    C13Cmd.listing (C13Cmd.offered fs' c o) = C13Cmd.listing (C13Cmd.offered fs c o) := by
  have e : restoreEntries fs' c o = restoreEntries fs c o := by
    unfold restoreEntries
    rw [hdirs]
    exact flatMap_congr' fun tv htv => hent tv htv
  have e2 : C13Cmd.offered fs' c o = C13Cmd.offered fs c o := by unfold C13Cmd.offered; rw [e]
  exact ⟨e, e2, by rw [e2]⟩

/-- the offered list is the sorted, in-scope entries of the GOOD names of every directory: the other
    names contribute nothing -/
theorem offered_is_sorted_good (fs : FS) (c : ReadCfg) (o : RestoreOpts) (goodOf : Bytes × Bytes → List Bytes)
    (h : ∀ tv ∈ restoreTrashDirs fs c o.trashDir,
      (∃ ns, listdirStr fs c.cwd (pjoin tv.1 (b "info")) = some ns ∧ (goodOf tv).Sublist ns ∧
        (restoreGood fs c.cwd tv.1 tv.2 ns).Sublist (goodOf tv)) ∨
      (listdirStr fs c.cwd (pjoin tv.1 (b "info")) = none ∧ goodOf tv = [])) :
    C13Cmd.offered fs c o =
      sortEntries o.sort (((restoreTrashDirs fs c o.trashDir).flatMap fun tv =>
        (goodOf tv).filterMap (restoreItem fs c.cwd (pjoin tv.1 (b "info")) tv.2)).filter
          fun e => inScope (C13Cmd.scopeOf c o) e.loc) := by
  unfold C13Cmd.offered restoreEntries
  rw [flatMap_congr' (g := fun tv => (goodOf tv).filterMap (restoreItem fs c.cwd (pjoin tv.1 (b "info")) tv.2))]
  intro tv htv
  obtain ⟨t, v⟩ := tv
  rcases h (t, v) htv with ⟨ns, h1, h2, h3⟩ | ⟨h1, h2⟩
  · exact restore_scan_ignores_neighbours fs c.cwd t v ns _ h1 h2 h3
  · show restoreEntriesOf fs c.cwd t v = _
    rw [h2]
    unfold restoreEntriesOf
    simp only [h1, List.filterMap_nil]

/-- the offered list holds as many entries as there are in-scope well-formed ones: sorting drops
    nothing, whatever the dates (undated entries included) -/
theorem offered_length (fs : FS) (c : ReadCfg) (o : RestoreOpts) :
    (C13Cmd.offered fs c o).length =
      ((restoreEntries fs c o).filter fun e => inScope (C13Cmd.scopeOf c o) e.loc).length :=
  Proofs.C19.sort_total _ _

end TrashVerif.Proofs.C19Cmd

/-! ## C20: the commands agree on what an entry is -/

namespace TrashVerif.Proofs.C20Cmd
open TrashVerif Prog FS PutCore C09Hist C10Loop ReadDefs C19Cmd
open TrashVerif.Proofs.C10Loop
open TrashVerif.Proofs.C17 (run_bind run_read_bind run_pure)

theorem listdir_resolved {fs : FS} {cwd I : CPath} {t : Bytes}
    (hres : FS.resolve fs cwd (pjoin t (b "info")) true = .ok I) (hd : fs.isDirAt I = true) :
    listdirStr fs cwd (pjoin t (b "info")) = some (infoNames fs I) := by
  obtain ⟨m, t', hg⟩ := PutLemmas.isDirAt_get hd
  unfold listdirStr infoNames
  simp only [hres, hg]

section agree
variable {fs : FS} {cwd : CPath} {t : Bytes} {I F : CPath} {names : List Bytes} {n text rel : Bytes}

theorem agree_list (v : Bytes) (htext : contentsOf fs cwd (infoStr t n) = some text) (hrel : parsePath text = some rel) :
    listOne fs cwd v (infoStr t n) = .stdout (listDate text ++ [32] ++ pjoin v rel) :=
  Proofs.C20.list_reads fs cwd v _ text htext _ (by rw [hrel]; rfl)

theorem agree_list_run (φ : Oracle) (v : Bytes) (s : RunState) (hs : s.fs = fs)
    (hinfos : infosOf fs cwd t = .ok (infoStrs t names)) (hn : n ∈ names)
    (htext : contentsOf fs cwd (infoStr t n) = some text) (hrel : parsePath text = some rel) :
    Out.stdout (listDate text ++ [32] ++ pjoin v rel) ∈ (run φ (listEvents cwd [.found t v]) s).2.outs := by
  subst hs
  rw [(Proofs.C09.list_is_bag φ cwd t v s _ hinfos).1, ← agree_list v htext hrel]
  exact List.mem_append_left _ (List.mem_reverse.2 (List.mem_map.2 ⟨_, List.mem_map.2 ⟨n, hn, rfl⟩, rfl⟩))

theorem agree_restoreItem (v : Bytes) (hi : isTrashinfoName n = true)
    (htext : contentsOf fs cwd (infoStr t n) = some text) (hrel : parsePath text = some rel) :
    restoreItem fs cwd (pjoin t (b "info")) v n =
      some { loc := pjoin v rel, date := parseDeletionDate text, info := infoStr t n } :=
  Proofs.C20.restore_reads fs cwd _ v n text hi htext _ (by rw [hrel]; rfl)

theorem agree_rm_decision (pattern v : Bytes)
    (htext : contentsOf fs cwd (infoStr t n) = some text) (hrel : parsePath text = some rel) :
    rmSelects fs cwd pattern v (infoStr t n) = decide (rmMatches pattern (pjoin v rel) = some true) := by
  unfold rmSelects
  simp only [htext, hrel]

theorem agree_rm_run (pattern v : Bytes) (hp : pattern ≠ []) (S : Setting fs cwd t I F names)
    (hinfos : infosOf fs cwd t = .ok (infoStrs t names)) (hn : n ∈ names)
    (htext : contentsOf fs cwd (infoStr t n) = some text) (hrel : parsePath text = some rel) :
    (run noFaults (rmDirs cwd pattern [(t, v)]) { fs := fs }).1 = none ∧
    (rmMatches pattern (pjoin v rel) = some true →
      EntryGone (run noFaults (rmDirs cwd pattern [(t, v)]) { fs := fs }).2.fs I F n) ∧
    (rmMatches pattern (pjoin v rel) ≠ some true →
      EntryIntact fs (run noFaults (rmDirs cwd pattern [(t, v)]) { fs := fs }).2.fs I F n) := by
  rw [rmDirs_one noFaults cwd pattern t v { fs := fs } _ hinfos]
  obtain ⟨a, d, k, _, _⟩ := rm_selects_exactly fs cwd t I F names pattern v S hp
  have e := agree_rm_decision (fs := fs) (cwd := cwd) (t := t) (n := n) pattern v htext hrel
  exact ⟨a, fun hm => d n hn (by rw [e]; exact decide_eq_true hm), fun hm => k n hn (by rw [e]; exact decide_eq_false hm)⟩

theorem agree_empty_decision (o : EmptyOpts) (days : Nat) (hd : o.days = some days)
    (htext : contentsOf fs cwd (infoStr t n) = some text) :
    okToDelete fs cwd o (infoStr t n) =
      match parseDeletionDate text with
      | none => .keep
      | some d => (match olderThan days o.now o.nowUs d with | .overflow => .crash .overflow | .yes => .delete | .no => .keep) :=
  Proofs.C20.empty_reads fs cwd o days _ text hd htext

theorem agree_empty_run (o : EmptyOpts) (days : Nat) (hd : o.days = some days) (hdry : o.dryRun = false)
    (hv : o.now.valid = true) (hus : o.nowUs < 1000000) (hrep : C10.minusDays days o.now ≠ none)
    (S : Setting fs cwd t I F names) (hn : n ∈ names)
    (htext : contentsOf fs cwd (infoStr t n) = some text) :
    (run noFaults (emptyInfos cwd o (infoStrs t names)) { fs := fs }).1 = none ∧
    ((∃ d, parseDeletionDate text = some d ∧ C10.shouldPurge days o.now o.nowUs d = true) →
      EntryGone (run noFaults (emptyInfos cwd o (infoStrs t names)) { fs := fs }).2.fs I F n) ∧
    ((¬ ∃ d, parseDeletionDate text = some d ∧ C10.shouldPurge days o.now o.nowUs d = true) →
      EntryIntact fs (run noFaults (emptyInfos cwd o (infoStrs t names)) { fs := fs }).2.fs I F n) := by
  obtain ⟨a, d, k, _⟩ := empty_selects_exactly fs cwd t I F names o S hdry
    (fun m _ c => empty_no_crash fs cwd o (Or.inr ⟨days, hd, hv, hus, hrep⟩) _ c)
  obtain ⟨hdel, _, hkeep⟩ := (empty_decision_is_spec fs cwd o (infoStr t n)).2 days hd hv hus
  refine ⟨a, fun ⟨dd, h1, h2⟩ => d n hn (hdel.2 ⟨text, dd, htext, h1, h2⟩), fun hno => k n hn ((hkeep hrep).2 ?_)⟩
  rintro ⟨text', dd, h0, h1, h2⟩
  rw [htext] at h0
  cases h0
  exact hno ⟨dd, h1, h2⟩

end agree

/-- the entry is among those trash-restore scans, and offered when in scope -/
theorem agree_restore_offers (fs : FS) (c : ReadCfg) (o : RestoreOpts) (t v : Bytes) (I : CPath) (n text rel : Bytes)
    (hdir : (t, v) ∈ restoreTrashDirs fs c o.trashDir)
    (hres : FS.resolve fs c.cwd (pjoin t (b "info")) true = .ok I) (hd : fs.isDirAt I = true)
    (hn : n ∈ (infoNames fs I).filter isTrashinfoName)
    (htext : contentsOf fs c.cwd (infoStr t n) = some text) (hrel : parsePath text = some rel) :
    ({ loc := pjoin v rel, date := parseDeletionDate text, info := infoStr t n } : Entry) ∈ restoreEntries fs c o ∧
    (inScope (C13Cmd.scopeOf c o) (pjoin v rel) = true →
      ({ loc := pjoin v rel, date := parseDeletionDate text, info := infoStr t n } : Entry) ∈ C13Cmd.offered fs c o) := by
  have hmem : ({ loc := pjoin v rel, date := parseDeletionDate text, info := infoStr t n } : Entry) ∈
      restoreEntriesOf fs c.cwd t v := by
    rw [Proofs.C19.restore_scan_itemwise fs c.cwd t v _ (listdir_resolved hres hd)]
    exact List.mem_filterMap.2 ⟨n, (List.mem_filter.1 hn).1, agree_restoreItem v (List.mem_filter.1 hn).2 htext hrel⟩
  have hall : ({ loc := pjoin v rel, date := parseDeletionDate text, info := infoStr t n } : Entry) ∈ restoreEntries fs c o := by
    unfold restoreEntries
    exact List.mem_flatMap.2 ⟨(t, v), hdir, hmem⟩
  exact ⟨hall, fun hs => (Proofs.C13Cmd.mem_offered fs c o _).2 ⟨hall, hs⟩⟩

/-- restoring the entry moves its payload to where the kernel resolves exactly the string
    `volume/Path` -/
theorem agree_restore_run (fs : FS) (c : ReadCfg) (o : RestoreOpts) (t v : Bytes) (I F : CPath) (names : List Bytes)
    (n text rel : Bytes) (S : Setting fs c.cwd t I F names) (hn : n ∈ names)
    (reply : Bytes) (idxs : List Nat) (sel : List C13Cmd.Item) (it : C13Cmd.Item)
    (hreply : parseIndexes reply (C13Cmd.offered fs c o).length = .ok idxs)
    (hsel : C13Cmd.selected (C13Cmd.offered fs c o) idxs = sel.map (·.e))
    (RS : C13Cmd.RSetting fs c.cwd I F sel) (hit : it ∈ sel)
    (he : it.e = { loc := pjoin v rel, date := parseDeletionDate text, info := infoStr t n }) :
    it.name = n ∧ FS.resolve fs c.cwd (pjoin v rel) = .ok it.dst ∧
    (run noFaults (runRestore c o (some reply)) { fs := fs }).1.exit = 0 ∧
    (run noFaults (runRestore c o (some reply)) { fs := fs }).1.crash = none ∧
    (∀ r, (run noFaults (runRestore c o (some reply)) { fs := fs }).2.fs.get (it.dst ++ r) = fs.get (F ++ [stemOf n] ++ r)) ∧
    (run noFaults (runRestore c o (some reply)) { fs := fs }).2.fs.get (I ++ [n]) = none ∧
    (∀ r, (run noFaults (runRestore c o (some reply)) { fs := fs }).2.fs.get (F ++ [stemOf n] ++ r) = none) := by
  obtain ⟨r1, _, r3, _⟩ := RS.resolves fs (Proofs.C13Cmd.reach_refl I F sel fs) it hit
  rw [he] at r1 r3
  have r3' := (S.resolves fs (within_refl I F fs) n hn).1
  have hname : it.name = n := by
    have : (Except.ok (I ++ [it.name]) : Except Errno CPath) = .ok (I ++ [n]) := r3.symm.trans r3'
    simpa using this
  obtain ⟨x, y, P⟩ := Proofs.C13Cmd.restore_selects_exactly fs c o reply I F idxs sel hreply hsel RS
  refine ⟨hname, r1, x, y, fun r => ?_, ?_, ?_⟩
  · rw [← hname]; exact P.back it hit r
  · rw [← hname]; exact P.infoGone it hit
  · rw [← hname]; exact P.payloadGone it hit

theorem commands_agree_on_entry (fs : FS) (c : ReadCfg) (t v : Bytes) (I F : CPath) (n text rel : Bytes)
    (hvol : listVolumes c = c.mountPoints)
    (hf : (t, v) ∈ foundDirs (scanTrashDirs fs c))
    (hres : FS.resolve fs c.cwd (pjoin t (b "info")) true = .ok I)
    (S : Setting fs c.cwd t I F ((infoNames fs I).filter isTrashinfoName))
    (hn : n ∈ (infoNames fs I).filter isTrashinfoName)
    (htext : contentsOf fs c.cwd (infoStr t n) = some text) (hrel : parsePath text = some rel) :
    -- (0) the scan hands every command the same info path and the same volume
    (infosOf fs c.cwd t = .ok (infoStrs t ((infoNames fs I).filter isTrashinfoName)) ∧
     (t, v) ∈ restoreTrashDirs fs c none) ∧
    -- (1) trash-list
    (listOne fs c.cwd v (infoStr t n) = .stdout (listDate text ++ [32] ++ pjoin v rel) ∧
     ∀ (φ : Oracle) (s : RunState), s.fs = fs →
       Out.stdout (listDate text ++ [32] ++ pjoin v rel) ∈ (run φ (listEvents c.cwd [.found t v]) s).2.outs) ∧
    -- (2) trash-restore
    (∀ o : RestoreOpts, o.trashDir = none →
      scannedEntry t v n text rel ∈ restoreEntries fs c o ∧
      (inScope (C13Cmd.scopeOf c o) (pjoin v rel) = true → scannedEntry t v n text rel ∈ C13Cmd.offered fs c o) ∧
      (∀ k, restoreLine k (scannedEntry t v n text rel) =
        List.replicate (4 - (Bytes.ofNat k).length) 32 ++ Bytes.ofNat k ++ [32] ++
          dateStrOpt (parseDeletionDate text) ++ [32] ++ pjoin v rel) ∧
      ∀ (reply : Bytes) (idxs : List Nat) (sel : List C13Cmd.Item) (it : C13Cmd.Item),
        parseIndexes reply (C13Cmd.offered fs c o).length = .ok idxs →
        C13Cmd.selected (C13Cmd.offered fs c o) idxs = sel.map (·.e) →
        C13Cmd.RSetting fs c.cwd I F sel → it ∈ sel → it.e = scannedEntry t v n text rel →
        it.name = n ∧ FS.resolve fs c.cwd (pjoin v rel) = .ok it.dst ∧
        (run noFaults (runRestore c o (some reply)) { fs := fs }).1.exit = 0 ∧
        (run noFaults (runRestore c o (some reply)) { fs := fs }).1.crash = none ∧
        (∀ r, (run noFaults (runRestore c o (some reply)) { fs := fs }).2.fs.get (it.dst ++ r) = fs.get (F ++ [stemOf n] ++ r)) ∧
        (run noFaults (runRestore c o (some reply)) { fs := fs }).2.fs.get (I ++ [n]) = none ∧
        (∀ r, (run noFaults (runRestore c o (some reply)) { fs := fs }).2.fs.get (F ++ [stemOf n] ++ r) = none)) ∧
    -- (3) trash-rm
    (∀ pattern : Bytes,
      rmSelects fs c.cwd pattern v (infoStr t n) = decide (rmMatches pattern (pjoin v rel) = some true) ∧
      (pattern ≠ [] →
        (run noFaults (rmDirs c.cwd pattern [(t, v)]) { fs := fs }).1 = none ∧
        (rmMatches pattern (pjoin v rel) = some true →
          EntryGone (run noFaults (rmDirs c.cwd pattern [(t, v)]) { fs := fs }).2.fs I F n) ∧
        (rmMatches pattern (pjoin v rel) ≠ some true →
          EntryIntact fs (run noFaults (rmDirs c.cwd pattern [(t, v)]) { fs := fs }).2.fs I F n))) ∧
    -- (4) trash-empty DAYS
    (∀ (o : EmptyOpts) (days : Nat), o.days = some days →
      okToDelete fs c.cwd o (infoStr t n) =
        (match parseDeletionDate text with
         | none => .keep
         | some d => (match olderThan days o.now o.nowUs d with | .overflow => .crash .overflow | .yes => .delete | .no => .keep)) ∧
      (o.dryRun = false → o.now.valid = true → o.nowUs < 1000000 → C10.minusDays days o.now ≠ none →
        (run noFaults (emptyInfos c.cwd o (infoStrs t ((infoNames fs I).filter isTrashinfoName))) { fs := fs }).1 = none ∧
        ((∃ d, parseDeletionDate text = some d ∧ C10.shouldPurge days o.now o.nowUs d = true) →
          EntryGone (run noFaults (emptyInfos c.cwd o (infoStrs t ((infoNames fs I).filter isTrashinfoName))) { fs := fs }).2.fs I F n) ∧
        ((¬ ∃ d, parseDeletionDate text = some d ∧ C10.shouldPurge days o.now o.nowUs d = true) →
          EntryIntact fs (run noFaults (emptyInfos c.cwd o (infoStrs t ((infoNames fs I).filter isTrashinfoName))) { fs := fs }).2.fs I F n))) := by
  have hinfos : infosOf fs c.cwd t = .ok (infoStrs t ((infoNames fs I).filter isTrashinfoName)) :=
    Proofs.C09Hist.infosOf_resolved hres S.inv.infoDir
  have hdir := Proofs.C20.bases_agree fs c hvol t v hf
  refine ⟨⟨hinfos, hdir⟩, ⟨agree_list v htext hrel, fun φ s hs => agree_list_run φ v s hs hinfos hn htext hrel⟩,
    fun o ho => ?_, fun pattern => ⟨agree_rm_decision pattern v htext hrel, fun hp => agree_rm_run pattern v hp S hinfos hn htext hrel⟩,
    fun o days hd => ⟨agree_empty_decision o days hd htext, fun hdry hv hus hrep => agree_empty_run o days hd hdry hv hus hrep S hn htext⟩⟩
  obtain ⟨h1, h2⟩ := agree_restore_offers fs c o t v I n text rel (by rw [ho]; exact hdir) hres S.inv.infoDir hn htext hrel
  exact ⟨h1, h2, fun k => rfl, fun reply idxs sel it hreply hsel RS hit he =>
    agree_restore_run fs c o t v I F _ n text rel S hn reply idxs sel it hreply hsel RS hit he⟩

end TrashVerif.Proofs.C20Cmd
