/-
  Proofs/C13CmdEx.lean — concrete worlds for Props/C13Cmd.lean: non-vacuity of the setting of the
  command-level selection theorem (a trash directory holding three entries), the runs evaluated
  through the kernel-evaluable twins (`runRestore = runRestoreS`, Proofs/C02CmdEval.lean), and
  kernel-checked counterexamples to the statement without its side conditions.
-/
import TrashVerif.Proofs.C13Cmd
import TrashVerif.Proofs.C02CmdEx
import TrashVerif.Proofs.C10LoopEx
namespace TrashVerif.Proofs.C13CmdEx
open TrashVerif Prog FS PutCore C09Hist C13Cmd
open TrashVerif.Proofs.C16Eval TrashVerif.Proofs.C02CmdEval TrashVerif.Proofs.C13Cmd
open TrashVerif.Proofs.C02CmdEx (restoreS restore_twin)
open TrashVerif.Proofs.C10LoopEx (plainCheck plain_of_check)

namespace Demo

def dirN : Node := .dir 0o755 7
def T : CPath := [b "t"]
def I : CPath := T ++ [b "info"]
def F : CPath := T ++ [b "files"]
def aN : Bytes := b "a.trashinfo"
def bN : Bytes := b "b.trashinfo"
def cN : Bytes := b "c.trashinfo"

def W : FS := FS.ofList [
  ([], dirN), (T, dirN), (I, dirN), (F, dirN),
  (I ++ [aN], .file (b "[Trash Info]\nPath=/home/a\nDeletionDate=2024-01-03T00:00:00\n") 0o600 3),
  (I ++ [bN], .file (b "[Trash Info]\nPath=/home/b\nDeletionDate=2024-01-01T00:00:00\n") 0o600 3),
  (I ++ [cN], .file (b "[Trash Info]\nPath=/home/c\nDeletionDate=2024-01-02T00:00:00\n") 0o600 3),
  (F ++ [b "a"], .file [65] 0o644 3),
  (F ++ [b "b"], dirN), (F ++ [b "b", b "x"], .file [66] 0o644 3),
  (F ++ [b "c"], .link (b "/home/keep")),
  ([b "home"], dirN), ([b "home", b "keep"], .file [124] 0o644 3)] [[]]

def rc : ReadCfg := { cwd := [], env := {}, uid := 0, mountPoints := [] }
def op : RestoreOpts := { path := b "/", trashDir := some (b "/t") }

end Demo
open Demo

/-! ### tools -/

/-- `trash-restore` evaluated through the twins -/
theorem offered_twin (fs : FS) (c : ReadCfg) (o : RestoreOpts) :
    offered fs c o = sortEntriesS o.sort ((restoreEntriesS fs c o).filter fun e => inScope (scopeOf c o) e.loc) := by
  unfold offered; rw [sortEntries_eq, restoreEntries_eq]

theorem run_twin (c : ReadCfg) (o : RestoreOpts) (reply : Bytes) (fs : FS) :
    run noFaults (runRestore c o (some reply)) { fs := fs } = restoreS c o reply fs := restore_twin c o reply fs

theorem goodNames_of_dec {p : CPath}
    (h : ∀ n ∈ p, n ≠ [] ∧ slash ∉ n ∧ n ≠ [dot] ∧ n ≠ dotdot ∧ n.length ≤ 255) : Proofs.C07.GoodNames p := h

/-! ### the demo: `/t` holds `b` (2024-01-01, a directory with a file), `c` (2024-01-02, a symbolic link),
    `a` (2024-01-03, a file), trashed from `/home`; `trash-restore / --trash-dir /t` -/

namespace Demo

def eA : Entry := { loc := b "/home/a", date := some ⟨2024, 1, 3, 0, 0, 0⟩, info := b "/t/info/a.trashinfo" }
def eB : Entry := { loc := b "/home/b", date := some ⟨2024, 1, 1, 0, 0, 0⟩, info := b "/t/info/b.trashinfo" }
def eC : Entry := { loc := b "/home/c", date := some ⟨2024, 1, 2, 0, 0, 0⟩, info := b "/t/info/c.trashinfo" }
def itA : Item := { e := eA, name := aN, dst := [b "home", b "a"] }
def itB : Item := { e := eB, name := bN, dst := [b "home", b "b"] }
def itC : Item := { e := eC, name := cN, dst := [b "home", b "c"] }

theorem tStr : toStr T = b "/t" := by decide +kernel

/-- the listing, in the order of the deletion dates: 0 = `/home/b`, 1 = `/home/c`, 2 = `/home/a` -/
theorem W_offered : offered W rc op = [eB, eC, eA] := by rw [offered_twin]; decide +kernel

/-- the setting holds for all three entries (hence for every sub-selection), for every world that
    agrees with `W` on what the conditions look at — here `W` itself -/
theorem setting_of (fs : FS) (items : List Item) (hsub : items.Sublist [itB, itC, itA])
    (hI : plainCheck fs I = true) (hF : plainCheck fs F = true) (hH : plainCheck fs [b "home"] = true)
    (ok : ∀ it ∈ [itB, itC, itA], it ∈ items → Op.ok fs I F (.restore it.name it.dst)) :
    RSetting fs [] I F items := by
  have hmem : ∀ it ∈ items, it = itB ∨ it = itC ∨ it = itA := fun it hit => by
    have := hsub.subset hit
    simpa using this
  refine plain_rsetting fs [] T items (by decide) (goodNames_of_dec (by decide +kernel)) (plain_of_check hI)
    (plain_of_check hF) (fun it hit => ?_) (fun it hit => ?_) (fun it hit => ?_) (fun it hit => ?_) (fun it hit => ?_)
    (fun it hit => ?_) ((show [itB, itC, itA].Pairwise Apart by decide +kernel).sublist hsub)
  · rcases hmem it hit with rfl | rfl | rfl <;> decide +kernel
  · rcases hmem it hit with rfl | rfl | rfl <;> decide +kernel
  · rw [tStr]; rcases hmem it hit with rfl | rfl | rfl <;> decide +kernel
  · rcases hmem it hit with rfl | rfl | rfl <;> decide +kernel
  · rcases hmem it hit with rfl | rfl | rfl <;> exact ⟨goodNames_of_dec (by decide +kernel), plain_of_check hH⟩
  · rcases hmem it hit with rfl | rfl | rfl
    · exact ok _ (by simp) hit
    · exact ok _ (by simp) hit
    · exact ok _ (by simp) hit

theorem W_setting (items : List Item) (hsub : items.Sublist [itB, itC, itA]) : RSetting W [] I F items :=
  setting_of W items hsub (by decide +kernel) (by decide +kernel) (by decide +kernel)
    (fun it hit _ => by
      simp only [List.mem_cons, List.not_mem_nil, or_false] at hit
      rcases hit with rfl | rfl | rfl <;> decide +kernel)

/-! #### reply "0,2" -/

theorem reply_0_2 : parseIndexes (b "0,2") (offered W rc op).length = .ok [0, 2] ∧
    selected (offered W rc op) [0, 2] = [itB, itA].map (·.e) := by rw [W_offered]; decide +kernel

/-- the selection theorem instantiated -/
theorem W_theorem_0_2 :
    (run noFaults (runRestore rc op (some (b "0,2"))) { fs := W }).1.exit = 0 ∧
    (run noFaults (runRestore rc op (some (b "0,2"))) { fs := W }).1.crash = none ∧
    RestoredExactly W (run noFaults (runRestore rc op (some (b "0,2"))) { fs := W }).2.fs I F [itB, itA] :=
  restore_selects_exactly W rc op (b "0,2") I F [0, 2] [itB, itA] reply_0_2.1 reply_0_2.2
    (W_setting _ (by decide +kernel))

/-- … and the run itself, evaluated: two `rename`s and two `unlink`s; `/home/b` (with `/home/b/x`) and
    `/home/a` are back, their payloads and info files are gone, entry `c` — info file and payload, a
    symbolic link — is as before, `/home/keep` too; the touched directories have the fresh mtime 0 -/
theorem W_run_0_2 :
    (restoreS rc op (b "0,2") W).1.exit = 0 ∧ (restoreS rc op (b "0,2") W).2.trace.length = 4 ∧
    (restoreS rc op (b "0,2") W).2.fs.toList =
      [([b "home", b "a"], .file [65] 0o644 3), ([b "home", b "b"], dirN), ([b "home", b "b", b "x"], .file [66] 0o644 3),
       ([], dirN), (T, dirN), (I, .dir 0o755 0), (F, .dir 0o755 0),
       (I ++ [cN], .file (b "[Trash Info]\nPath=/home/c\nDeletionDate=2024-01-02T00:00:00\n") 0o600 3),
       (F ++ [b "c"], .link (b "/home/keep")), ([b "home"], .dir 0o755 0), ([b "home", b "keep"], .file [124] 0o644 3)] := by
  decide +kernel

/-! #### reply "1-2" -/

theorem reply_1_2 : parseIndexes (b "1-2") (offered W rc op).length = .ok [1, 2] ∧
    selected (offered W rc op) [1, 2] = [itC, itA].map (·.e) := by rw [W_offered]; decide +kernel

theorem W_theorem_1_2 :
    (run noFaults (runRestore rc op (some (b "1-2"))) { fs := W }).1.exit = 0 ∧
    (run noFaults (runRestore rc op (some (b "1-2"))) { fs := W }).1.crash = none ∧
    RestoredExactly W (run noFaults (runRestore rc op (some (b "1-2"))) { fs := W }).2.fs I F [itC, itA] :=
  restore_selects_exactly W rc op (b "1-2") I F [1, 2] [itC, itA] reply_1_2.1 reply_1_2.2
    (W_setting _ (by decide +kernel))

theorem W_run_1_2 :
    (restoreS rc op (b "1-2") W).1.exit = 0 ∧
    (restoreS rc op (b "1-2") W).2.fs.toList =
      [([b "home", b "a"], .file [65] 0o644 3), ([b "home", b "c"], .link (b "/home/keep")),
       ([], dirN), (T, dirN), (I, .dir 0o755 0), (F, .dir 0o755 0),
       (I ++ [bN], .file (b "[Trash Info]\nPath=/home/b\nDeletionDate=2024-01-01T00:00:00\n") 0o600 3),
       (F ++ [b "b"], dirN), (F ++ [b "b", b "x"], .file [66] 0o644 3),
       ([b "home"], .dir 0o755 0), ([b "home", b "keep"], .file [124] 0o644 3)] := by
  decide +kernel

/-! #### replies that select nothing -/

theorem W_no_selection :
    parseIndexes (b "3") (offered W rc op).length = .invalid ∧
    parseIndexes (b "0,3") (offered W rc op).length = .invalid ∧
    parseIndexes (b "0-1-2") (offered W rc op).length = .crash ∧
    parseIndexes (b "x") (offered W rc op).length = .invalid ∧
    parseIndexes (b "2-1") (offered W rc op).length = .ok [] := by rw [W_offered]; decide +kernel

/-! #### the same index twice: "2,2" -/

theorem reply_2_2 : parseIndexes (b "2,2") (offered W rc op).length = .ok [2, 2] ∧
    selected (offered W rc op) [2, 2] = [itA].map (·.e) ++ itA.e :: [] := by rw [W_offered]; decide +kernel

theorem W_theorem_2_2 (ov : Bool) :
    (run noFaults (runRestore rc { op with overwrite := ov } (some (b "2,2"))) { fs := W }).1.exit = 1 ∧
    RestoredExactly W (run noFaults (runRestore rc { op with overwrite := ov } (some (b "2,2"))) { fs := W }).2.fs I F [itA] := by
  have h := restore_same_index_twice W rc { op with overwrite := ov } (b "2,2") I F [2, 2] [itA] itA []
    reply_2_2.1 reply_2_2.2 (W_setting _ (by decide +kernel)) List.mem_cons_self
  exact ⟨h.1, h.2.2.1⟩

/-- evaluated: `/home/a` is restored once; the second round is refused (no `--overwrite`: no further
    call) resp. fails (`--overwrite`: one failing `rename`); exit status 1 -/
theorem W_run_2_2 :
    (restoreS rc op (b "2,2") W).1.exit = 1 ∧ (restoreS rc op (b "2,2") W).2.trace.length = 2 ∧
    (restoreS rc op (b "2,2") W).2.fs.get [b "home", b "a"] = some (.file [65] 0o644 3) ∧
    (restoreS rc { op with overwrite := true } (b "2,2") W).1.exit = 1 ∧
    (restoreS rc { op with overwrite := true } (b "2,2") W).2.trace.length = 3 ∧
    (restoreS rc { op with overwrite := true } (b "2,2") W).2.fs.get [b "home", b "a"] = some (.file [65] 0o644 3) := by
  decide +kernel

end Demo

/-! ### a refusal in the middle: `/home/c` exists; reply "0-2" -/

namespace Demo

/-- as `W`, plus a file at `/home/c` -/
def WR : FS := FS.ofList (W.toList ++ [([b "home", b "c"], .file [99] 0o644 3)]) [[]]

theorem WR_offered : offered WR rc op = [eB, eC, eA] := by rw [offered_twin]; decide +kernel

theorem reply_0_to_2 : parseIndexes (b "0-2") (offered WR rc op).length = .ok [0, 1, 2] ∧
    selected (offered WR rc op) [0, 1, 2] = [itB].map (·.e) ++ eC :: [eA] := by rw [WR_offered]; decide +kernel

theorem WR_setting : RSetting WR [] I F [itB] :=
  setting_of WR [itB] (by decide +kernel) (by decide +kernel) (by decide +kernel) (by decide +kernel)
    (fun it _ hin => by
      simp only [List.mem_cons, List.not_mem_nil, or_false] at hin
      subst hin; decide +kernel)

/-- `/home/c` is there in every state in which exactly `b` has been restored -/
theorem WR_exists (fs' : FS) (P : RestoredExactly WR fs' I F [itB]) : pLexists fs' [] eC.loc = true := by
  have e : eC.loc = toStr ([b "home"] ++ [b "c"]) := by decide +kernel
  have key : ∀ k ∈ List.range 3, ∀ it ∈ [itB], ¬ Foot I F it (([b "home"] ++ [b "c"] : CPath).take k) := by decide +kernel
  rw [e]
  exact lexists_stays (reach_of_restored P) [] (plain_of_check (by decide +kernel)) (goodNames_of_dec (by decide +kernel))
    (by decide +kernel) fun q hq => by
      rw [List.prefix_iff_eq_take.1 hq]
      exact key _ (List.mem_range.2 (Nat.lt_succ_of_le hq.length_le))

/-- the refusal theorem instantiated: `b` is restored, the run stops at `c` with exit status 1 -/
theorem WR_theorem :
    (run noFaults (runRestore rc op (some (b "0-2"))) { fs := WR }).1.exit = 1 ∧
    RestoredExactly WR (run noFaults (runRestore rc op (some (b "0-2"))) { fs := WR }).2.fs I F [itB] := by
  have h := restore_stops_at_first_refusal_cmd WR rc op (b "0-2") I F [0, 1, 2] [itB] eC [eA] rfl
    reply_0_to_2.1 reply_0_to_2.2 WR_setting WR_exists
  exact ⟨h.1, h.2.2.1⟩

/-- … evaluated: one `rename`, one `unlink`; `c` and `a` are still in the trash, `/home/c` is what it was -/
theorem WR_run :
    (restoreS rc op (b "0-2") WR).1.exit = 1 ∧ (restoreS rc op (b "0-2") WR).2.trace.length = 2 ∧
    (restoreS rc op (b "0-2") WR).2.fs.get [b "home", b "b", b "x"] = some (.file [66] 0o644 3) ∧
    (restoreS rc op (b "0-2") WR).2.fs.get [b "home", b "c"] = some (.file [99] 0o644 3) ∧
    (restoreS rc op (b "0-2") WR).2.fs.get (F ++ [b "c"]) = some (.link (b "/home/keep")) ∧
    (restoreS rc op (b "0-2") WR).2.fs.get (I ++ [cN]) = WR.get (I ++ [cN]) ∧
    (restoreS rc op (b "0-2") WR).2.fs.get (F ++ [b "a"]) = some (.file [65] 0o644 3) ∧
    (restoreS rc op (b "0-2") WR).2.fs.get (I ++ [aN]) = WR.get (I ++ [aN]) ∧
    (restoreS rc op (b "0-2") WR).2.fs.get [b "home", b "a"] = none := by
  decide +kernel

end Demo

/-! ### the side conditions matter -/

namespace Cex
open Demo (dirN T I F rc op)

def info (loc date : String) : Node :=
  .file (b "[Trash Info]\nPath=" ++ b loc ++ b "\nDeletionDate=" ++ b date ++ b "T00:00:00\n") 0o600 3

/-- two entries trashed from the same location `/home/a`: `a` (2024-01-01) and `a_1` (2024-01-02) -/
def WS : FS := FS.ofList [
  ([], dirN), (T, dirN), (I, dirN), (F, dirN),
  (I ++ [b "a.trashinfo"], info "/home/a" "2024-01-01"), (I ++ [b "a_1.trashinfo"], info "/home/a" "2024-01-02"),
  (F ++ [b "a"], .file [65] 0o644 3), (F ++ [b "a_1"], .file [66] 0o644 3),
  ([b "home"], dirN)] [[]]

/-- Without "the destinations are pairwise apart" the selection theorem is FALSE.  Both entries satisfy
    every local condition in the initial state (`Op.ok`), their info names differ; answered "0,1" the
    first is restored, the second is refused (its destination exists by then): exit status 1, and
    the second entry stays in the trash. -/
theorem same_destination :
    Op.ok WS I F (.restore (b "a.trashinfo") [b "home", b "a"]) ∧
    Op.ok WS I F (.restore (b "a_1.trashinfo") [b "home", b "a"]) ∧
    (offered WS rc op).map (·.loc) = [b "/home/a", b "/home/a"] ∧
    parseIndexes (b "0,1") 2 = .ok [0, 1] ∧
    (restoreS rc op (b "0,1") WS).1.exit = 1 ∧
    (restoreS rc op (b "0,1") WS).2.fs.get [b "home", b "a"] = some (.file [65] 0o644 3) ∧
    (restoreS rc op (b "0,1") WS).2.fs.get (F ++ [b "a_1"]) = some (.file [66] 0o644 3) ∧
    (restoreS rc op (b "0,1") WS).2.fs.get (I ++ [b "a_1.trashinfo"]) = WS.get (I ++ [b "a_1.trashinfo"]) := by
  rw [offered_twin]; decide +kernel

/-- the directory `d` (2024-01-01, from `/home/d`, empty) and the file `z` (2024-01-02, from `/home/d/z`) -/
def WN : FS := FS.ofList [
  ([], dirN), (T, dirN), (I, dirN), (F, dirN),
  (I ++ [b "d.trashinfo"], info "/home/d" "2024-01-01"), (I ++ [b "z.trashinfo"], info "/home/d/z" "2024-01-02"),
  (F ++ [b "d"], dirN), (F ++ [b "z"], .file [90] 0o644 3),
  ([b "home"], dirN)] [[]]

/-- Without "the parent of every destination exists initially" (which, with "free", keeps a destination
    from lying inside another one) the claim "every selected entry is back WHOLE — what is at
    `dst/rel` is what was at `payload/rel`" is FALSE.  `d` satisfies every local condition, `z` all
    but the existence of its parent `/home/d`.  Answered "0,1": `d` is restored, then `z` goes INTO
    it — exit status 0, and `/home/d/z` is there although the payload of `d` held no `z`.
    Answered "1,0": `os.makedirs` creates `/home/d` for `z`; then `d` is refused (its destination exists
    now): exit status 1, the directory `d` stays in the trash. -/
theorem nested_destination :
    Op.ok WN I F (.restore (b "d.trashinfo") [b "home", b "d"]) ∧
    WN.get [b "home", b "d", b "z"] = none ∧ WN.isDirAt [b "home", b "d"] = false ∧
    (offered WN rc op).map (·.loc) = [b "/home/d", b "/home/d/z"] ∧
    (restoreS rc op (b "0,1") WN).1.exit = 0 ∧
    (restoreS rc op (b "0,1") WN).2.fs.get ([b "home", b "d"] ++ [b "z"]) = some (.file [90] 0o644 3) ∧
    WN.get (F ++ [b "d"] ++ [b "z"]) = none ∧
    (restoreS rc op (b "1,0") WN).1.exit = 1 ∧
    (restoreS rc op (b "1,0") WN).2.fs.get [b "home", b "d", b "z"] = some (.file [90] 0o644 3) ∧
    (restoreS rc op (b "1,0") WN).2.fs.get (F ++ [b "d"]) = some dirN := by
  rw [offered_twin]; decide +kernel

/-- the symbolic link `l -> /home` (2024-01-01, from `/home/l`) and the file `w` (2024-01-02, from `/home/l/w`) -/
def WL : FS := FS.ofList [
  ([], dirN), (T, dirN), (I, dirN), (F, dirN),
  (I ++ [b "l.trashinfo"], info "/home/l" "2024-01-01"), (I ++ [b "w.trashinfo"], info "/home/l/w" "2024-01-02"),
  (F ++ [b "l"], .link (b "/home")), (F ++ [b "w"], .file [87] 0o644 3),
  ([b "home"], dirN)] [[]]

/-- Without the resolved layer being STABLE (`RSetting.resolves` quantifies over every reachable state)
    "everything outside the destinations is unchanged" is FALSE: answered "0,1" the link `/home/l` is
    restored first, and the location `/home/l/w` of the second entry then resolves THROUGH it: the
    file lands at `/home/w` — a path that is at or below neither `/home/l` nor `/home/l/w`.  Exit 0. -/
theorem through_restored_link :
    (offered WL rc op).map (·.loc) = [b "/home/l", b "/home/l/w"] ∧
    FS.resolve WL [] (b "/home/l/w") = .error .ENOENT ∧
    (restoreS rc op (b "0,1") WL).1.exit = 0 ∧
    (restoreS rc op (b "0,1") WL).2.fs.get [b "home", b "l"] = some (.link (b "/home")) ∧
    WL.get [b "home", b "w"] = none ∧
    (restoreS rc op (b "0,1") WL).2.fs.get [b "home", b "w"] = some (.file [87] 0o644 3) ∧
    (restoreS rc op (b "0,1") WL).2.fs.get [b "home", b "l", b "w"] = none := by
  rw [offered_twin, resolve_eq]; decide +kernel

end Cex

end TrashVerif.Proofs.C13CmdEx
