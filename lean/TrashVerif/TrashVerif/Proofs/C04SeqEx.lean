/-
  Proofs/C04SeqEx.lean — a concrete world for Props/C04Seq.lean: three entries named `x` (a file, a
  directory tree, a dangling link) trashed in sequence; and the worlds showing that the sources of later
  puts must lie outside `files/` and `info/`.
-/
import TrashVerif.Proofs.C04Seq
namespace TrashVerif.Proofs.C04SeqEx
open TrashVerif Prog FS PutCore C04Seq

deriving instance DecidableEq for Except

/-- `/t` is the trash directory (empty `info/`, `files/`); `/a/x` a file, `/b/x` a directory tree,
    `/c/x` a dangling symbolic link -/
def fsW : FS := FS.ofList
  [([], .dir 0o755 0), ([b "t"], .dir 0o700 0), ([b "t", b "info"], .dir 0o700 0), ([b "t", b "files"], .dir 0o700 0),
   ([b "a"], .dir 0o755 0), ([b "a", b "x"], .file (b "one") 0o644 7),
   ([b "b"], .dir 0o755 0), ([b "b", b "x"], .dir 0o750 5), ([b "b", b "x", b "in"], .file (b "two") 0o600 3),
   ([b "b", b "x", b "sub"], .dir 0o755 4), ([b "b", b "x", b "sub", b "deep"], .file (b "three") 0o644 2),
   ([b "c"], .dir 0o755 0), ([b "c", b "x"], .link (b "nowhere"))] []
def I : CPath := [b "t", b "info"]
def F : CPath := [b "t", b "files"]
def items : List (CPath × Bytes × Bytes) :=
  [([b "a", b "x"], b "x", b "i1"), ([b "b", b "x"], b "x", b "i2"), ([b "c", b "x"], b "x", b "i3")]
def st0 : PutSt := { replies := [], ints := [] }

/-- names returned, the listing of `files/`, the listing of `info/` (`FS.children`: newest first), and
    every node of the final state -/
structure View where
  names : List Bytes
  files : List CPath
  info : List CPath
  nodes : List (CPath × Node)
deriving DecidableEq

def view (r : List Step × FS × PutSt) : View :=
  ⟨r.1.map (·.name), children r.2.1 F, children r.2.1 I, r.2.1.toList⟩

def expected : View :=
  ⟨[b "x.trashinfo", b "x_1.trashinfo", b "x_2.trashinfo"],
   [F ++ [b "x_2"], F ++ [b "x_1"], F ++ [b "x"]],
   [I ++ [b "x_2.trashinfo"], I ++ [b "x_1.trashinfo"], I ++ [b "x.trashinfo"]],
   [(F ++ [b "x_2"], .link (b "nowhere")), (I ++ [b "x_2.trashinfo"], .file (b "i3") 0o600 0),
    (F ++ [b "x_1"], .dir 0o750 5), (F ++ [b "x_1", b "in"], .file (b "two") 0o600 3),
    (F ++ [b "x_1", b "sub"], .dir 0o755 4), (F ++ [b "x_1", b "sub", b "deep"], .file (b "three") 0o644 2),
    (I ++ [b "x_1.trashinfo"], .file (b "i2") 0o600 0),
    (F ++ [b "x"], .file (b "one") 0o644 7), (I ++ [b "x.trashinfo"], .file (b "i1") 0o600 0),
    ([], .dir 0o755 0), ([b "t"], .dir 0o700 0), (I, .dir 0o700 0), (F, .dir 0o700 0),
    ([b "a"], .dir 0o755 0), ([b "b"], .dir 0o755 0), ([b "c"], .dir 0o755 0)]⟩

theorem three_eval : (putSeq I F items st0 fsW).map view = some expected := by decide +kernel

theorem three_chain : ∃ ks fsN stN, Puts I F fsW st0 ks fsN stN ∧
    ks.map (fun k => (k.src, k.base, k.content)) = items ∧ view (ks, fsN, stN) = expected := by
  have h := three_eval
  cases hp : putSeq I F items st0 fsW with
  | none => rw [hp] at h; cases h
  | some r =>
    obtain ⟨ks, fsN, stN⟩ := r
    rw [hp] at h
    obtain ⟨p, q⟩ := putSeq_sound I F items st0 fsW ks fsN stN hp
    exact ⟨ks, fsN, stN, p, q, by simpa using h⟩

/-! ### later sources must be outside `files/` and `info/` -/

/-- first `/a/x`, then the payload `files/x` the first put has just made -/
def run1 := run noFaults (putCore I F (b "x") (b "i1") (fun _ => .ok [b "a", b "x"]) st0) { fs := fsW }
def run2F := run noFaults (putCore I F (b "x") (b "i2") (fun _ => .ok (F ++ [b "x"])) run1.1.2) { fs := run1.2.fs }
def run2I := run noFaults (putCore I F (b "y") (b "i2") (fun _ => .ok (I ++ [b "x.trashinfo"])) run1.1.2) { fs := run1.2.fs }

theorem run1_ok : run1.1.1 = .ok (b "x.trashinfo") := by decide +kernel
theorem run2F_ok : run2F.1.1 = .ok (b "x_1.trashinfo") := by decide +kernel
theorem run2I_ok : run2I.1.1 = .ok (b "y.trashinfo") := by decide +kernel
theorem set1 : settingB fsW I F [b "a", b "x"] = true := by decide +kernel

theorem needs_outside_files :
    ∃ (fs : FS) (I F src1 src2 : CPath) (base c1 c2 : Bytes) (st0 st1 st2 : PutSt) (n1 n2 : Bytes) (s1 s2 : RunState),
      Setting fs I F src1 ∧
      run noFaults (putCore I F base c1 (fun _ => .ok src1) st0) { fs := fs } = ((.ok n1, st1), s1) ∧
      (s1.fs.isDirAt I = true ∧ s1.fs.isDirAt F = true ∧
        (¬ FS.under I F = true ∧ ¬ FS.under F I = true) ∧ (s1.fs.get src2).isSome = true ∧ src2 ≠ [] ∧
        s1.fs.isMount src2 = false ∧ s1.fs.dev (FS.parent src2) = s1.fs.dev F ∧
        (¬ FS.under src2 I = true ∧ ¬ FS.under src2 F = true) ∧ ¬ FS.under I src2 = true) ∧
      run noFaults (putCore I F base c2 (fun _ => .ok src2) st1) { fs := s1.fs } = ((.ok n2, st2), s2) ∧
      s2.fs.get (F ++ [stemOf n1]) = none ∧ s2.fs.get (I ++ [n1]) = some (.file c1 0o600 0) := by
  refine ⟨fsW, I, F, [b "a", b "x"], F ++ [b "x"], b "x", b "i1", b "i2", st0, run1.1.2, run2F.1.2,
    b "x.trashinfo", b "x_1.trashinfo", run1.2, run2F.2, settingB_sound set1, ?_, ?_, ?_, ?_, ?_⟩
  · exact Prod.ext (Prod.ext run1_ok rfl) rfl
  · decide +kernel
  · exact Prod.ext (Prod.ext run2F_ok rfl) rfl
  · decide +kernel
  · decide +kernel

theorem needs_outside_info :
    ∃ (fs : FS) (I F src1 src2 : CPath) (b1 b2 c1 c2 : Bytes) (st0 st1 st2 : PutSt) (n1 n2 : Bytes) (s1 s2 : RunState),
      Setting fs I F src1 ∧
      run noFaults (putCore I F b1 c1 (fun _ => .ok src1) st0) { fs := fs } = ((.ok n1, st1), s1) ∧
      (s1.fs.isDirAt I = true ∧ s1.fs.isDirAt F = true ∧
        (¬ FS.under I F = true ∧ ¬ FS.under F I = true) ∧ (s1.fs.get src2).isSome = true ∧ src2 ≠ [] ∧
        s1.fs.isMount src2 = false ∧ s1.fs.dev (FS.parent src2) = s1.fs.dev F ∧
        (¬ FS.under src2 I = true ∧ ¬ FS.under src2 F = true) ∧ ¬ FS.under F src2 = true) ∧
      run noFaults (putCore I F b2 c2 (fun _ => .ok src2) st1) { fs := s1.fs } = ((.ok n2, st2), s2) ∧
      s2.fs.get (I ++ [n1]) = none ∧ (s2.fs.get (F ++ [stemOf n1])).isSome = true := by
  refine ⟨fsW, I, F, [b "a", b "x"], I ++ [b "x.trashinfo"], b "x", b "y", b "i1", b "i2", st0, run1.1.2, run2I.1.2,
    b "x.trashinfo", b "y.trashinfo", run1.2, run2I.2, settingB_sound set1, ?_, ?_, ?_, ?_, ?_⟩
  · exact Prod.ext (Prod.ext run1_ok rfl) rfl
  · decide +kernel
  · exact Prod.ext (Prod.ext run2I_ok rfl) rfl
  · decide +kernel
  · decide +kernel

end TrashVerif.Proofs.C04SeqEx
