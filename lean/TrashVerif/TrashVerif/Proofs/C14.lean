/-
  Proofs/C14.lean — proofs of the statements of Props/C14.lean.
-/
import TrashVerif.Proofs.C04
import TrashVerif.Model.Cmds
namespace TrashVerif.Proofs.C14
open TrashVerif Prog FS PutLemmas C04

/-! ### programs that issue no call -/

/-- no call at all -/
abbrev NC {α} (p : Prog α) : Prop := Iss InvT (fun _ => False) p

theorem NC.sound {α} (φ : Oracle) (p : Prog α) : ∀ s : RunState, NC p →
    (run φ p s).2.trace = s.trace ∧ (run φ p s).2.fs = s.fs := by
  induction p with
  | ret a => intro s _; exact ⟨rfl, rfl⟩
  | get k ih => intro s hp; simp only [run]; exact ih _ s (hp _ trivial)
  | emit o k ih => intro s hp; simp only [run]; exact ih _ hp
  | call c k ih => intro s hp; exact absurd hp.1 id

theorem nc_say (o : Out) : NC (say o) := by
  show Iss InvT (fun _ => False) (Prog.emit o (.ret ()))
  exact trivial

theorem nc_emitAll : ∀ os : List Out, NC (emitAll os) := by
  intro os
  induction os with
  | nil => exact Iss.pure _
  | cons o os ih => unfold emitAll; exact Iss.bind (nc_say o) fun _ => ih

section dry
variable (o : EmptyOpts) (h : o.dryRun = true)
include h

theorem nc_emptyPathR (path : Bytes) (p : Except Errno CPath) : NC (emptyPathR o path p) := by
  unfold emptyPathR
  rw [if_pos h]
  exact nc_say _

theorem nc_emptyPath (cwd : CPath) (path : Bytes) : NC (emptyPath cwd o path) := by
  unfold emptyPath
  exact Iss.read_bind fun fs _ => nc_emptyPathR o h _ _

theorem nc_emptyInfos (cwd : CPath) : ∀ is : List Bytes, NC (emptyInfos cwd o is) := by
  intro is
  induction is with
  | nil => exact Iss.pure _
  | cons i rest ih =>
    unfold emptyInfos
    refine Iss.read_bind fun fs _ => ?_
    split
    · exact Iss.pure _
    · exact ih
    · exact Iss.bind (nc_emptyPathR o h _ _) fun _ => Iss.bind (nc_emptyPathR o h _ _) fun _ => ih

theorem nc_emptyPaths (cwd : CPath) : ∀ ps : List Bytes, NC (emptyPaths cwd o ps) := by
  intro ps
  induction ps with
  | nil => exact Iss.pure _
  | cons p ps ih => unfold emptyPaths; exact Iss.bind (nc_emptyPath o h cwd p) fun _ => ih

theorem nc_emptyDirs (cwd : CPath) : ∀ ds : List (Bytes × Bytes), NC (emptyDirs cwd o ds) := by
  intro ds
  induction ds with
  | nil => exact Iss.pure _
  | cons d rest ih =>
    obtain ⟨t, v⟩ := d
    unfold emptyDirs
    refine Iss.read_bind fun fs _ => ?_
    split
    · exact Iss.pure _
    · refine Iss.bind (nc_emptyInfos o h cwd _) fun r => ?_
      split
      · exact Iss.pure _
      · refine Iss.read_bind fun fs2 _ => ?_
        split
        · exact Iss.pure _
        · exact Iss.bind (nc_emptyPaths o h cwd _) fun _ => ih

theorem nc_runEmpty (c : ReadCfg) (reply : Option Bytes) : NC (runEmpty c o reply) := by
  unfold runEmpty
  refine Iss.read_bind fun fs _ => ?_
  have hgo : NC (emptyDirs c.cwd o (foundDirs (selectTrashDirs fs c o.userDirs)) >>= fun r =>
      match r with
      | some cr => (do say (.stderr "traceback" []); pure { exit := 1, crash := some cr } : Prog CmdResult)
      | none => pure { exit := 0 }) := by
    refine Iss.bind (nc_emptyDirs o h c.cwd _) fun r => ?_
    split
    · exact Iss.bind (nc_say _) fun _ => Iss.pure _
    · exact Iss.pure _
  simp only []
  split
  · split
    · exact Iss.bind (nc_say _) fun _ => Iss.pure _
    · split
      · exact hgo
      · exact Iss.pure _
  · exact hgo

end dry

theorem dry_run_frame (φ : Oracle) (c : ReadCfg) (o : EmptyOpts) (reply : Option Bytes) (s : RunState) (h : o.dryRun = true) :
    let r := run φ (runEmpty c o reply) s
    r.2.trace = s.trace ∧ r.2.fs = s.fs := NC.sound φ _ s (nc_runEmpty o h c reply)

/-! ### the guard -/

theorem reply_yes_iff (r : Bytes) : emptyReplyYes r = true ↔ ∃ rest, r = 121 :: rest ∨ r = 89 :: rest := by
  cases r with
  | nil => simp [emptyReplyYes]
  | cons c cs =>
    simp only [emptyReplyYes, decide_eq_true_eq, List.cons.injEq, and_true, exists_or, exists_and_left,
      exists_eq', and_true]

theorem guard_refuses (φ : Oracle) (c : ReadCfg) (o : EmptyOpts) (reply : Option Bytes) (s : RunState) (h : o.interactive = true)
    (hn : ∀ r, reply = some r → ¬ (∃ rest, r = 121 :: rest ∨ r = 89 :: rest)) :
    let r := run φ (runEmpty c o reply) s
    r.2.trace = s.trace ∧ r.2.fs = s.fs := by
  refine NC.sound φ _ s ?_
  unfold runEmpty
  refine Iss.read_bind fun fs _ => ?_
  simp only [h, if_true]
  cases reply with
  | none => exact Iss.bind (nc_say _) fun _ => Iss.pure _
  | some r =>
    have : emptyReplyYes r = false := by
      rw [Bool.eq_false_iff]; intro hy; exact hn r rfl ((reply_yes_iff r).1 hy)
    simp only [this]
    exact Iss.pure _

/-! ### what a dry run prints -/

theorem trace_len_mono {α} (φ : Oracle) (p : Prog α) : ∀ s : RunState, s.trace.length ≤ (run φ p s).2.trace.length := by
  induction p with
  | ret a => intro s; exact Nat.le_refl _
  | get k ih => intro s; simp only [run]; exact ih _ s
  | emit o k ih => intro s; simp only [run]; exact ih { s with outs := o :: s.outs }
  | call c k ih =>
    intro s
    simp only [run]
    split
    · refine Nat.le_trans (Nat.le_succ _) (Nat.le_trans ?_ (ih _ _)); simp
    · refine Nat.le_trans (Nat.le_succ _) (Nat.le_trans ?_ (ih _ _)); simp

theorem dry_prints_what_real_removes (φ : Oracle) (o : EmptyOpts) (path : Bytes) (p : Except Errno CPath) (s : RunState) :
    (o.dryRun = true → (run φ (emptyPathR o path p) s).2.outs = Out.stdout (b "would remove " ++ path) :: s.outs) ∧
    (o.dryRun = false → o.verbose = 0 → (run φ (emptyPathR o path p) s).2.trace.length ≥ s.trace.length) := by
  refine ⟨fun h => ?_, fun _ _ => trace_len_mono φ _ s⟩
  unfold emptyPathR
  rw [if_pos h]
  rfl

end TrashVerif.Proofs.C14
