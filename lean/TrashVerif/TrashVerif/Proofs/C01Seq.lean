/-
  Proofs/C01Seq.lean — the frame induction behind Props/C01Seq.lean: the `Trashed` facts of argument i
  are carried through the trashings i+1..N-1.
-/
import TrashVerif.Props.C01SeqDefs
import TrashVerif.Proofs.C16SeqHome
import TrashVerif.Props.C04SeqDefs
namespace TrashVerif.Proofs.C01Seq
open TrashVerif Prog FS PutCore PutLemmas C16Indep C16Seq C01Seq
open TrashVerif.Proofs.C16Seq
open TrashVerif.Proofs.C16IndepHome
open TrashVerif.Proofs.C16SeqHome

/-! ### paths -/

theorem cmp_absurd {a b' q : CPath} (ha : a <+: q) (hb : b' <+: q) (h1 : ¬ a <+: b') (h2 : ¬ b' <+: a) : False := by
  rcases List.prefix_or_prefix_of_prefix ha hb with h | h
  · exact h1 h
  · exact h2 h

theorem pfx3 (a b' r : CPath) : a <+: a ++ b' ++ r := by
  rw [List.append_assoc]; exact List.prefix_append _ _

theorem IF1 (H : CPath) : ¬ infoC H <+: filesC H := fun h => (distinct_IF H).1 ((under_iff _ _).2 h)
theorem IF2 (H : CPath) : ¬ filesC H <+: infoC H := fun h => (distinct_IF H).2 ((under_iff _ _).2 h)

/-- what the path lemmas need of two items -/
structure Sep (H : CPath) (x y : Item) : Prop where
  unrel : Unrel x y
  xI : ¬ x.src <+: infoC H ∧ ¬ infoC H <+: x.src
  xF : ¬ x.src <+: filesC H ∧ ¬ filesC H <+: x.src
  yI : ¬ y.src <+: infoC H ∧ ¬ infoC H <+: y.src
  yF : ¬ y.src <+: filesC H ∧ ¬ filesC H <+: y.src
  names : x.name ≠ y.name
  stems : stemOf x.name ≠ stemOf y.name

theorem src_pfx (y : Item) : y.P <+: y.src := List.prefix_append _ _

/-- the paths of the origin of `x` are clear of `y` -/
theorem clear_src {H : CPath} {x y : Item} (S : Sep H x y) (rel : CPath) :
    (Clear H y (x.src ++ rel) ∧ x.src ++ rel ≠ y.P) ∧ x.src ++ rel ≠ filesC H ∧ x.src ++ rel ≠ infoC H := by
  have hx : x.src <+: x.src ++ rel := List.prefix_append _ _
  refine ⟨⟨⟨?_, ?_, ?_⟩, ?_⟩, ?_, ?_⟩
  · intro h; exact cmp_absurd h hx S.unrel.2 S.unrel.1
  · intro h; exact cmp_absurd ((List.prefix_append _ _).trans h) hx S.xF.2 S.xF.1
  · intro e
    have h : x.src <+: infoC H ++ [y.name] := e ▸ hx
    exact cmp_absurd h (List.prefix_append _ _) S.xI.1 S.xI.2
  · intro e
    have h : x.src <+: y.P := e ▸ hx
    exact S.unrel.1 (h.trans (src_pfx y))
  · intro e; exact S.xF.1 (e ▸ hx)
  · intro e; exact S.xI.1 (e ▸ hx)

/-- the paths of the payload of `x` are clear of `y` -/
theorem clear_payload {H : CPath} {x y : Item} (S : Sep H x y) (rel : CPath) :
    (Clear H y (filesC H ++ [stemOf x.name] ++ rel) ∧ filesC H ++ [stemOf x.name] ++ rel ≠ y.P) ∧
    filesC H ++ [stemOf x.name] ++ rel ≠ filesC H ∧ filesC H ++ [stemOf x.name] ++ rel ≠ infoC H := by
  have hF : filesC H <+: filesC H ++ [stemOf x.name] ++ rel := pfx3 _ _ _
  refine ⟨⟨⟨?_, ?_, ?_⟩, ?_⟩, ?_, ?_⟩
  · intro h; exact cmp_absurd h hF S.yF.1 S.yF.2
  · intro h
    rw [List.append_assoc, List.prefix_append_right_inj] at h
    have : stemOf y.name = stemOf x.name := by
      have h' : stemOf y.name :: [] <+: stemOf x.name :: rel := h
      exact (List.cons_prefix_cons.1 h').1
    exact S.stems this.symm
  · intro e
    have h : infoC H <+: filesC H ++ [stemOf x.name] ++ rel := e ▸ List.prefix_append _ _
    exact cmp_absurd h hF (IF1 H) (IF2 H)
  · intro e
    have h : filesC H <+: y.P := e ▸ hF
    exact S.yF.2 (h.trans (src_pfx y))
  · intro e
    have := congrArg List.length e
    simp at this
  · intro e; exact IF2 H (e ▸ hF)

/-- the info file of `x` is clear of `y` -/
theorem clear_info {H : CPath} {x y : Item} (S : Sep H x y) :
    (Clear H y (infoC H ++ [x.name]) ∧ infoC H ++ [x.name] ≠ y.P) ∧
    infoC H ++ [x.name] ≠ filesC H ∧ infoC H ++ [x.name] ≠ infoC H := by
  have hI : infoC H <+: infoC H ++ [x.name] := List.prefix_append _ _
  refine ⟨⟨⟨?_, ?_, ?_⟩, ?_⟩, ?_, ?_⟩
  · intro h; exact cmp_absurd h hI S.yI.1 S.yI.2
  · intro h; exact cmp_absurd ((List.prefix_append _ _).trans h) hI (IF2 H) (IF1 H)
  · intro e
    have := List.append_cancel_left e
    exact S.names (by simpa using this)
  · intro e
    have h : infoC H <+: y.P := e ▸ hI
    exact S.yI.2 (h.trans (src_pfx y))
  · intro e; exact IF1 H (e ▸ hI)
  · intro e
    have := congrArg List.length e
    simp at this

/-! ### the chain -/

theorem keptDir_trans {a b' d : FS} {q : CPath} (h1 : keptDir a b' q) (h2 : keptDir b' d q) : keptDir a d q := by
  intro m t h
  obtain ⟨t', h'⟩ := h1 m t h
  exact h2 m t' h'

theorem keptDir_of_eq {a b' : FS} {q : CPath} (h : b'.get q = a.get q) : keptDir a b' q := by
  intro m t e; exact ⟨t, by rw [h, e]⟩

theorem trashed_of {c : PutCfg} {fs : FS} {H : CPath} {st : PutSt} {x : Item} (W : HomeWorld c fs H)
    (A : GoodArg fs H x.P x.n) (hA : (run noFaults (homeCore c H x.P x.n st) { fs := fs }).1.1 = .ok x.name) :
    Trashed fs (run noFaults (homeCore c H x.P x.n st) { fs := fs }).2.fs (infoC H) (filesC H) (x.P ++ [x.n])
      x.name (contentOf c x) := by
  have hra : run noFaults (homeCore c H x.P x.n st) { fs := fs } =
      ((.ok x.name, (run noFaults (homeCore c H x.P x.n st) { fs := fs }).1.2),
        (run noFaults (homeCore c H x.P x.n st) { fs := fs }).2) := Prod.ext (Prod.ext hA rfl) rfl
  exact C01.put_ok_moves_whole fs (infoC H) (filesC H) (x.P ++ [x.n]) _ _ st _ (W_setting W A) x.name _ hra

theorem parent_src (x : Item) : FS.parent (x.P ++ [x.n]) = x.P := by
  rw [FS.parent, List.dropLast_concat]

/-- THE FRAME INDUCTION -/
theorem chain {c : PutCfg} {H : CPath} {st : PutSt} :
    ∀ (items : List Item) (fs : FS), HomeWorld c fs H → HomeItems c fs H st items →
      AllTrashed c H fs (coreFs c H st items fs) items := by
  intro items
  induction items with
  | nil =>
    intro fs _ _
    exact { gone := (fun _ h => nomatch h), whole := (fun _ h => nomatch h), info := (fun _ h => nomatch h),
            wasFree := (fun _ h => nomatch h), distinct := List.Pairwise.nil, frame := fun _ _ _ _ => rfl,
            dirs := fun _ _ => keptDir_of_eq rfl }
  | cons x rest ih =>
    intro fs W HI
    have Ax := HI.good x List.mem_cons_self
    have T := trashed_of W Ax (HI.core x List.mem_cons_self)
    obtain ⟨W', HI'⟩ := items_after W HI
    have R := ih _ W' HI'
    show AllTrashed c H fs (coreFs c H st rest (run noFaults (homeCore c H x.P x.n st) { fs := fs }).2.fs) (x :: rest)
    generalize (run noFaults (homeCore c H x.P x.n st) { fs := fs }).2.fs = fs1 at T W' HI' R
    generalize coreFs c H st rest fs1 = fsN at R
    have hun := List.pairwise_cons.1 HI.unrel
    -- names of the head differ from those of every later item
    have hd : ∀ y ∈ rest, x.name ≠ y.name ∧ stemOf x.name ≠ stemOf y.name := by
      intro y hy
      have Ty := trashed_of W' (HI'.good y hy) (HI'.core y hy)
      constructor
      · intro e
        have := Ty.wasFreeInfo
        rw [← e, T.info] at this; cases this
      · intro e
        have h1 := Ty.wasFreePayload
        have h2 := T.whole []
        rw [List.append_nil, List.append_nil] at h2
        rw [← e, h2] at h1
        have := Ax.present
        rw [h1] at this; cases this
    have sep : ∀ y ∈ rest, Sep H x y := fun y hy =>
      have Ay := HI.good y (List.mem_cons_of_mem _ hy)
      { unrel := hun.1 y hy, xI := Ax.apartInfo, xF := Ax.apartFiles, yI := Ay.apartInfo, yF := Ay.apartFiles,
        names := (hd y hy).1, stems := (hd y hy).2 }
    refine { gone := ?_, whole := ?_, info := ?_, wasFree := ?_, distinct := ?_, frame := ?_, dirs := ?_ }
    · intro y hy rel
      rcases List.mem_cons.1 hy with rfl | hy
      · rw [R.frame _ (fun z hz => (clear_src (sep z hz) rel).1) (clear_src_F Ax rel) (clear_src_I Ax rel)]
        exact T.gone rel
      · exact R.gone y hy rel
    · intro y hy rel
      rcases List.mem_cons.1 hy with rfl | hy
      · rw [R.frame _ (fun z hz => (clear_payload (sep z hz) rel).1) (payload_ne_F H _ rel) (payload_ne_I H _ rel)]
        exact T.whole rel
      · rw [R.whole y hy rel]
        have Sy := sep y hy
        have cl := clear_src (x := y) (y := x)
          { unrel := ⟨Sy.unrel.2, Sy.unrel.1⟩, xI := Sy.yI, xF := Sy.yF, yI := Sy.xI, yF := Sy.xF,
            names := Sy.names.symm, stems := Sy.stems.symm } rel
        have := T.frame (y.src ++ rel) (by rw [under_iff]; exact cl.1.1.1) (by rw [under_iff]; exact cl.1.1.2.1)
          cl.1.1.2.2 (by rw [parent_src]; exact cl.1.2) cl.2.1 cl.2.2
        exact this
    · intro y hy
      rcases List.mem_cons.1 hy with rfl | hy
      · rw [R.frame _ (fun z hz => (clear_info (sep z hz)).1) (info_ne_F H _) (info_ne_I H _)]
        exact T.info
      · exact R.info y hy
    · intro y hy
      have Ty := trashed_of W (HI.good y hy) (HI.core y hy)
      exact ⟨Ty.wasFreePayload, Ty.wasFreeInfo⟩
    · exact List.pairwise_cons.2 ⟨hd, R.distinct⟩
    · intro q hq hF hI
      have hx := hq x List.mem_cons_self
      rw [R.frame q (fun z hz => hq z (List.mem_cons_of_mem _ hz)) hF hI]
      exact T.frame q (by rw [under_iff]; exact hx.1.1) (by rw [under_iff]; exact hx.1.2.1) hx.1.2.2
        (by rw [parent_src]; exact hx.2) hF hI
    · intro q hq
      have hx := hq x List.mem_cons_self
      refine keptDir_trans ?_ (R.dirs q (fun z hz => hq z (List.mem_cons_of_mem _ hz)))
      by_cases h1 : q = x.P
      · have := T.dirs.1; rw [parent_src] at this; rw [h1]; exact this
      · by_cases h2 : q = filesC H
        · rw [h2]; exact T.dirs.2.1
        · by_cases h3 : q = infoC H
          · rw [h3]; exact T.dirs.2.2
          · exact keptDir_of_eq (T.frame q (by rw [under_iff]; exact hx.1) (by rw [under_iff]; exact hx.2.1) hx.2.2
              (by rw [parent_src]; exact h1) h2 h3)
where
  clear_src_F {fs : FS} {H : CPath} {x : Item} (A : GoodArg fs H x.P x.n) (rel : CPath) : x.src ++ rel ≠ filesC H :=
    fun e => A.apartFiles.1 (e ▸ List.prefix_append _ _)
  clear_src_I {fs : FS} {H : CPath} {x : Item} (A : GoodArg fs H x.P x.n) (rel : CPath) : x.src ++ rel ≠ infoC H :=
    fun e => A.apartInfo.1 (e ▸ List.prefix_append _ _)
  payload_ne_F (H : CPath) (n : Bytes) (rel : CPath) : filesC H ++ [n] ++ rel ≠ filesC H := by
    intro e; have := congrArg List.length e; simp at this
  payload_ne_I (H : CPath) (n : Bytes) (rel : CPath) : filesC H ++ [n] ++ rel ≠ infoC H :=
    fun e => IF2 H (e ▸ pfx3 _ _ _)
  info_ne_F (H : CPath) (n : Bytes) : infoC H ++ [n] ≠ filesC H :=
    fun e => IF1 H (e ▸ List.prefix_append _ _)
  info_ne_I (H : CPath) (n : Bytes) : infoC H ++ [n] ≠ infoC H := by
    intro e; have := congrArg List.length e; simp at this

/-! ### the command-level run reaches the file system of the chain -/

theorem fold_fs {c : PutCfg} {H : CPath} {st : PutSt} (hints : st.ints = []) :
    ∀ (items : List Item) (fs : FS) (acc : List (Bytes × ArgOutcome)) (s : RunState), s.fs = fs →
      HomeWorld c fs H → HomeItems c fs H st items →
      ((items.map Item.arg).foldl (stepArg noFaults c) ⟨acc, none, st, s⟩).s.fs = coreFs c H st items fs := by
  intro items
  induction items with
  | nil => intro fs acc s hs _ _; exact hs
  | cons x rest ih =>
    intro fs acc s hs W HI
    obtain ⟨s1, e1, e2, _⟩ := step_home W (HI.good x List.mem_cons_self) hints (HI.core x List.mem_cons_self) acc s hs
    obtain ⟨W', HI'⟩ := items_after W HI
    rw [List.map_cons, List.foldl_cons, e1]
    exact ih _ _ s1 e2 W' HI'

theorem run_fs {c : PutCfg} {fs : FS} {H : CPath} {st : PutSt} {items : List Item} (W : HomeWorld c fs H)
    (hints : st.ints = []) (HI : HomeItems c fs H st items) :
    (run noFaults (runPut c (items.map Item.arg) st) { fs := fs }).2.fs = coreFs c H st items fs := by
  rw [run_is_fold]
  exact fold_fs hints items fs [] { fs := fs } rfl W HI

/-! ### inert arguments anywhere between the items -/

theorem step_inert {c : PutCfg} (hm : c.mode ≠ .interactive) (acc : List (Bytes × ArgOutcome)) (st : PutSt)
    (s : RunState) (a : Bytes) (h : Inert c s.fs a) :
    ∃ s1, stepArg noFaults c ⟨acc, none, st, s⟩ a = ⟨acc ++ [(a, inertOutcome c s.fs a)], none, st, s1⟩ ∧
      s1.fs = s.fs := by
  rw [stepArg_go noFaults c _ _ rfl]
  show ∃ s1, (match (run noFaults (putOne c a st) s).1.1 with
      | .ok o => (⟨acc ++ [(a, o)], none, (run noFaults (putOne c a st) s).1.2,
          (run noFaults (putOne c a st) s).2⟩ : SeqSt)
      | .error e => ⟨acc, some e, (run noFaults (putOne c a st) s).1.2,
          (run noFaults (putOne c a st) s).2⟩) = _ ∧ _
  rw [run_putOne, TrashVerif.Proofs.C16Indep.inert_run noFaults c hm a st s h]
  have hnc := TrashVerif.Proofs.C16Indep.inertOutcome_not_crashed c s.fs a
  generalize inertOutcome c s.fs a = o at hnc ⊢
  cases o with
  | crashed e => exact absurd rfl (hnc e)
  | trashed t n => exact ⟨_, rfl, rfl⟩
  | skippedMissing => exact ⟨_, rfl, rfl⟩
  | declined => exact ⟨_, rfl, rfl⟩
  | failedDot => exact ⟨_, rfl, rfl⟩
  | failedMissing => exact ⟨_, rfl, rfl⟩
  | failedAll rs => exact ⟨_, rfl, rfl⟩

theorem mixed_fold {c : PutCfg} {H : CPath} {st : PutSt} (hints : st.ints = []) :
    ∀ (fs : FS) (args : List Bytes) (items : List Item), Interleaved c H st fs args items →
      ∀ (acc : List (Bytes × ArgOutcome)) (s : RunState), s.fs = fs →
      HomeWorld c fs H → HomeItems c fs H st items →
      (args.foldl (stepArg noFaults c) ⟨acc, none, st, s⟩).s.fs = coreFs c H st items fs ∧
      (args.foldl (stepArg noFaults c) ⟨acc, none, st, s⟩).crash = none ∧
      (args.foldl (stepArg noFaults c) ⟨acc, none, st, s⟩).outcomes.map (·.1) = acc.map (·.1) ++ args := by
  intro fs args items hI
  induction hI with
  | nil fs => intro acc s hs _ _; exact ⟨hs, rfl, by simp⟩
  | @inert fs a args items ha _ ih =>
    intro acc s hs W HI
    obtain ⟨s1, e1, e2⟩ := step_inert W.noPrompt acc st s a (hs ▸ ha)
    rw [List.foldl_cons, e1]
    obtain ⟨i1, i2, i3⟩ := ih _ s1 (e2.trans hs) W HI
    refine ⟨i1, i2, ?_⟩
    rw [i3]; simp
  | @item fs x args items _ ih =>
    intro acc s hs W HI
    obtain ⟨s1, e1, e2, _⟩ := step_home W (HI.good x List.mem_cons_self) hints (HI.core x List.mem_cons_self) acc s hs
    obtain ⟨W', HI'⟩ := items_after W HI
    rw [List.foldl_cons, e1]
    obtain ⟨i1, i2, i3⟩ := ih _ s1 e2 W' HI'
    refine ⟨i1, i2, ?_⟩
    rw [i3]; simp

theorem run_mixed {c : PutCfg} {fs : FS} {H : CPath} {st : PutSt} {items : List Item} {args : List Bytes}
    (W : HomeWorld c fs H) (hints : st.ints = []) (HI : HomeItems c fs H st items)
    (hI : Interleaved c H st fs args items) :
    (run noFaults (runPut c args st) { fs := fs }).2.fs = coreFs c H st items fs ∧
    (run noFaults (runPut c args st) { fs := fs }).1.crash = none ∧
    (run noFaults (runPut c args st) { fs := fs }).1.outcomes.map (·.1) = args := by
  rw [run_is_fold]
  have := mixed_fold hints fs args items hI [] { fs := fs } rfl W HI
  have h3 := this.2.2
  rw [List.map_nil, List.nil_append] at h3
  exact ⟨this.1, this.2.1, h3⟩

/-- items only: the interleaving without inert arguments -/
theorem interleaved_items (c : PutCfg) (H : CPath) (st : PutSt) :
    ∀ (items : List Item) (fs : FS), Interleaved c H st fs (items.map Item.arg) items := by
  intro items
  induction items with
  | nil => intro fs; exact .nil fs
  | cons x rest ih => intro fs; exact .item (ih _)

/-- inert arguments in front (in the initial state) and behind (in the final state) -/
theorem interleaved_around {c : PutCfg} {H : CPath} {st : PutSt} (pre post : List Bytes) :
    ∀ (items : List Item) (fs : FS), (∀ a ∈ pre, Inert c fs a) → (∀ a ∈ post, Inert c (coreFs c H st items fs) a) →
      Interleaved c H st fs (pre ++ items.map Item.arg ++ post) items := by
  intro items fs hpre hpost
  induction pre with
  | cons a pre ih =>
    exact .inert (hpre a List.mem_cons_self) (ih (fun z hz => hpre z (List.mem_cons_of_mem _ hz)))
  | nil =>
    clear hpre
    rw [List.nil_append]
    induction items generalizing fs with
    | cons x rest ih => exact .item (ih _ hpost)
    | nil =>
      show Interleaved c H st fs post []
      induction post with
      | nil => exact .nil fs
      | cons a post ih =>
        exact .inert (hpost a List.mem_cons_self) (ih (fun z hz => hpost z (List.mem_cons_of_mem _ hz)))

/-! ### the touched directories are clear of every item -/

theorem pw_sym {α : Type} {R : α → α → Prop} (sym : ∀ a b', R a b' → R b' a) :
    ∀ {l : List α}, l.Pairwise R → ∀ {x y : α}, x ∈ l → y ∈ l → x ≠ y → R x y := by
  intro l
  induction l with
  | nil => intro _ x y hx; cases hx
  | cons a l ih =>
    intro hp x y hx hy hne
    obtain ⟨h1, h2⟩ := List.pairwise_cons.1 hp
    rcases List.mem_cons.1 hx with ex | hx'
    · rcases List.mem_cons.1 hy with ey | hy'
      · exact absurd (ex.trans ey.symm) hne
      · rw [ex]; exact h1 y hy'
    · rcases List.mem_cons.1 hy with ey | hy'
      · rw [ey]; exact sym _ _ (h1 x hx')
      · exact ih h2 hx' hy' hne

theorem clear_parent {c : PutCfg} {fs : FS} {H : CPath} {st : PutSt} {items : List Item}
    (HI : HomeItems c fs H st items) {x : Item} (hx : x ∈ items) : ∀ y ∈ items, Clear H y x.P := by
  intro y hy
  have Ax := HI.good x hx
  have hP : x.P <+: x.src := src_pfx x
  refine ⟨?_, ?_, ?_⟩
  · intro h
    by_cases e : y = x
    · subst e
      have := h.length_le
      simp [Item.src] at this
      omega
    · exact (pw_sym (R := Unrel) (fun _ _ h => ⟨h.2, h.1⟩) HI.unrel hy hx e).1 (h.trans hP)
  · intro h; exact Ax.apartFiles.2 (((List.prefix_append _ _).trans h).trans hP)
  · intro e
    have h : infoC H <+: x.P := e ▸ List.prefix_append _ _
    exact Ax.apartInfo.2 (h.trans hP)

theorem clear_files {c : PutCfg} {fs : FS} {H : CPath} {st : PutSt} {items : List Item}
    (HI : HomeItems c fs H st items) : ∀ y ∈ items, Clear H y (filesC H) := by
  intro y hy
  refine ⟨(HI.good y hy).apartFiles.1, ?_, ?_⟩
  · intro h
    have := h.length_le
    simp at this
    omega
  · intro e; exact IF1 H (e ▸ List.prefix_append _ _)

theorem clear_infoDir {c : PutCfg} {fs : FS} {H : CPath} {st : PutSt} {items : List Item}
    (HI : HomeItems c fs H st items) : ∀ y ∈ items, Clear H y (infoC H) := by
  intro y hy
  refine ⟨(HI.good y hy).apartInfo.1, ?_, ?_⟩
  · intro h; exact IF2 H ((List.prefix_append _ _).trans h)
  · intro e
    have := congrArg List.length e
    simp at this

/-! ### the bridge to Props/C04Seq.lean: the items form a `Puts` chain -/

def stepOf (c : PutCfg) (x : Item) (pre : FS) : C04Seq.Step :=
  { src := x.src, base := basename (locOf x.P x.n), content := contentOf c x, name := x.name, pre := pre }

theorem puts_chain {c : PutCfg} {H : CPath} {st : PutSt} (hints : st.ints = []) :
    ∀ (items : List Item) (fs : FS), HomeWorld c fs H → HomeItems c fs H st items →
      ∃ ks, C04Seq.Puts (infoC H) (filesC H) fs st ks (coreFs c H st items fs) st ∧
        ks.map (·.src) = items.map Item.src ∧ ks.map (·.name) = items.map (·.name) ∧
        ks.map (·.content) = items.map (contentOf c) := by
  intro items
  induction items with
  | nil => intro fs _ _; exact ⟨[], .nil fs st, rfl, rfl, rfl⟩
  | cons x rest ih =>
    intro fs W HI
    have Ax := HI.good x List.mem_cons_self
    have hA := HI.core x List.mem_cons_self
    obtain ⟨W', HI'⟩ := items_after W HI
    obtain ⟨ks, hk, e1, e2, e3⟩ := ih _ W' HI'
    have hst := homeCore_noints W Ax st hints
    refine ⟨stepOf c x fs :: ks, ?_, ?_, ?_, ?_⟩
    · refine C04Seq.Puts.cons (k := stepOf c x fs) (st' := st)
        (s' := (run noFaults (homeCore c H x.P x.n st) { fs := fs }).2) rfl (W_setting W Ax) ?_ hk
      exact Prod.ext (Prod.ext hA hst) rfl
    · rw [List.map_cons, List.map_cons, e1]; rfl
    · rw [List.map_cons, List.map_cons, e2]; rfl
    · rw [List.map_cons, List.map_cons, e3]; rfl

end TrashVerif.Proofs.C01Seq
