/-
  Proofs/C10CmdEx.lean — non-vacuity of Props/C10Cmd.lean: a world with the home trash and a volume
  trash directory, five entries (one second older than the boundary, exactly on the boundary, young,
  undated, dated in the future) and an orphan payload; `trash-empty 30` and `trash-empty`; the
  hypotheses checked and the runs evaluated by the kernel.
-/
import TrashVerif.Proofs.C10CmdTop
import TrashVerif.Proofs.C12CmdEx
import TrashVerif.Proofs.C14LoopEx
namespace TrashVerif.Proofs.C10CmdEx
open TrashVerif Prog FS PutCore C09Hist C10Loop C12Cmd C10Cmd
open TrashVerif.Proofs.C16Eval TrashVerif.Proofs.C02CmdEval TrashVerif.Proofs.C08CmdEval
open TrashVerif.Proofs.C08CmdEx (dN TH TA rc)
open TrashVerif.Proofs.C11CmdEval (emptyT empty_twin)
open TrashVerif.Proofs.C12CmdEx (HF HI AF AI)
open TrashVerif.Proofs.C14LoopEx (dirCheck hyps_of_dirCheck)
open TrashVerif.Proofs.C10Cmd

/-! World `WE`: two volumes, `/` and the mount point `/m`; HOME=/h, uid 1000, cwd `/`; the clock says
    2024-03-31 12:00:00, so that `trash-empty 30` purges what was trashed before 2024-03-01 12:00:00.
    Home trash `/h/.local/share/Trash`: `old` (2024-03-01 11:59:59: one second older than the boundary;
    a directory holding `x`), `edge` (2024-03-01 12:00:00: exactly 30 days ago), `young` (2024-03-20).
    Volume trash `/m/.Trash-1000`: `und` (no DeletionDate line), `fut` (2030-01-01), and the ORPHAN
    payload `files/stray`.  Outside: `/q/keep`, `/m/keep`. -/

def infoAt (loc date : Bytes) : Bytes := formatTrashinfoWith loc date

def nodesE : List (CPath × Node) :=
  [([], dN), ([b "h"], dN), ([b "h", b ".local"], dN), ([b "h", b ".local", b "share"], dN), (TH, dN),
   (HF, dN), (HI, dN),
   (HI ++ [b "old.trashinfo"], .file (infoAt (b "/q/old") (b "2024-03-01T11:59:59")) 0o600 3), (HF ++ [b "old"], dN),
   (HF ++ [b "old", b "x"], .file [1] 0o644 3),
   (HI ++ [b "edge.trashinfo"], .file (infoAt (b "/q/edge") (b "2024-03-01T12:00:00")) 0o600 3), (HF ++ [b "edge"], .file [2] 0o644 3),
   (HI ++ [b "young.trashinfo"], .file (infoAt (b "/q/young") (b "2024-03-20T00:00:00")) 0o600 3), (HF ++ [b "young"], .file [3] 0o644 3),
   ([b "q"], dN), ([b "q", b "keep"], .file [9] 0o644 5),
   ([b "m"], dN), ([b "m", b "keep"], .file [75] 0o644 0), (TA, .dir 0o700 0),
   (AF, dN), (AI, dN),
   (AI ++ [b "und.trashinfo"], .file (b "[Trash Info]\nPath=src/und\n") 0o600 3), (AF ++ [b "und"], .file [4] 0o644 3),
   (AI ++ [b "fut.trashinfo"], .file (infoAt (b "src/fut") (b "2030-01-01T00:00:00")) 0o600 3), (AF ++ [b "fut"], .file [5] 0o644 3),
   (AF ++ [b "stray"], .file [6] 0o644 3)]

def WE : FS := FS.ofList nodesE [[], [b "m"]]

def dH : TDir := { T := TH, v := [slash], names := [b "edge.trashinfo", b "old.trashinfo", b "young.trashinfo"] }
def dA : TDir := { T := TA, v := b "/m", names := [b "fut.trashinfo", b "und.trashinfo"] }

def nowE : Date := ⟨2024, 3, 31, 12, 0, 0⟩
/-- `trash-empty 30` -/
def o30 : EmptyOpts := { days := some 30, now := nowE }
/-- `trash-empty` -/
def oAll : EmptyOpts := { now := nowE }

theorem WE_wf : DomWf WE := Proofs.C09Hist.domwf_ofList _ _

theorem WE_scan : foundDirs (selectTrashDirs WE rc o30.userDirs) = [dH, dA].map TDir.pair := by
  rw [selectTrashDirs_eq]; decide +kernel

theorem world_of_hyps {fs : FS} {d : TDir} (H : C14Loop.PlainDirHyps fs d.T) (hl : C14Loop.listed fs d.I = d.names) :
    PlainDir fs d ∧ OrphansOk fs d := by
  have hl' : C14Loop.listed fs (d.T ++ [b "info"]) = d.names := hl
  refine ⟨⟨H.ne, H.good, H.plainI, H.plainF, hl.symm, ?_, ?_, ?_, ?_⟩, ⟨H.goodP, H.orphTree⟩⟩
  · rw [← hl']; exact H.goodL
  · rw [← hl']; exact H.notLink
  · rw [← hl']; exact H.infoTree
  · rw [← hl']; exact H.payTree

theorem WE_listed : C14Loop.listed WE dH.I = dH.names ∧ C14Loop.listed WE dA.I = dA.names := by
  constructor <;> (unfold C14Loop.listed infoNames; rw [sortedChildren_eq]; decide +kernel)

theorem WE_orphans : orphans WE dH = [] ∧ orphans WE dA = [b "stray"] := by
  constructor <;> (unfold orphans C14Loop.orphanNames infoNames; rw [sortedChildren_eq]; decide +kernel)

theorem WE_dH : PlainDir WE dH ∧ OrphansOk WE dH :=
  world_of_hyps (hyps_of_dirCheck (names := dH.names) (orph := []) WE_wf WE_listed.1 WE_orphans.1 (by decide +kernel)) WE_listed.1

theorem WE_dA : PlainDir WE dA ∧ OrphansOk WE dA :=
  world_of_hyps (hyps_of_dirCheck (names := dA.names) (orph := [b "stray"]) WE_wf WE_listed.2 WE_orphans.2 (by decide +kernel)) WE_listed.2

theorem WE_apart : [dH, dA].Pairwise Apart := by
  refine List.pairwise_cons.2 ⟨fun e he => ?_, List.pairwise_cons.2 ⟨fun _ h => (nomatch h), List.Pairwise.nil⟩⟩
  have e1 : e = dA := List.mem_singleton.1 he
  subst e1
  refine ⟨fun h => ?_, fun h => ?_⟩
  · have := (PutLemmas.under_iff _ _).2 h; revert this; decide +kernel
  · have := (PutLemmas.under_iff _ _).2 h; revert this; decide +kernel

theorem WE_world : EmptyWorld WE [dH, dA] :=
  ⟨⟨WE_wf, fun d hd => by
      rcases List.mem_cons.1 hd with e | hd
      · rw [e]; exact WE_dH.1
      · rw [List.mem_singleton.1 hd]; exact WE_dA.1, WE_apart⟩,
   fun d hd => by
      rcases List.mem_cons.1 hd with e | hd
      · rw [e]; exact WE_dH.2
      · rw [List.mem_singleton.1 hd]; exact WE_dA.2⟩

/-- no date makes `olderThan 30` overflow on 2024-03-31 -/
theorem WE_no_overflow : ∀ dt, olderThan 30 o30.now o30.nowUs dt ≠ .overflow := by
  intro dt h
  have := (overflow_indep 30 o30.now o30.nowUs dt nowE).1 h
  revert this
  decide +kernel

/-- the five entries: texts, dates, verdicts -/
theorem WE_entries :
    (∃ text, contentsOf WE rc.cwd (infoStr (toStr dH.T) (b "old.trashinfo")) = some text ∧
      parseDeletionDate text = some ⟨2024, 3, 1, 11, 59, 59⟩) ∧
    (∃ text, contentsOf WE rc.cwd (infoStr (toStr dH.T) (b "edge.trashinfo")) = some text ∧
      parseDeletionDate text = some ⟨2024, 3, 1, 12, 0, 0⟩) ∧
    (∃ text, contentsOf WE rc.cwd (infoStr (toStr dH.T) (b "young.trashinfo")) = some text ∧
      parseDeletionDate text = some ⟨2024, 3, 20, 0, 0, 0⟩) ∧
    (∃ text, contentsOf WE rc.cwd (infoStr (toStr dA.T) (b "und.trashinfo")) = some text ∧
      parseDeletionDate text = none) ∧
    (∃ text, contentsOf WE rc.cwd (infoStr (toStr dA.T) (b "fut.trashinfo")) = some text ∧
      parseDeletionDate text = some ⟨2030, 1, 1, 0, 0, 0⟩) := by
  refine ⟨⟨infoAt (b "/q/old") (b "2024-03-01T11:59:59"), ?_, ?_⟩, ⟨infoAt (b "/q/edge") (b "2024-03-01T12:00:00"), ?_, ?_⟩,
    ⟨infoAt (b "/q/young") (b "2024-03-20T00:00:00"), ?_, ?_⟩, ⟨b "[Trash Info]\nPath=src/und\n", ?_, ?_⟩,
    ⟨infoAt (b "src/fut") (b "2030-01-01T00:00:00"), ?_, ?_⟩⟩ <;>
  first
  | (rw [contentsOf_eq]; decide +kernel)
  | decide +kernel

theorem WE_verdicts :
    olderThan 30 nowE 0 ⟨2024, 3, 1, 11, 59, 59⟩ = .yes ∧ olderThan 30 nowE 0 ⟨2024, 3, 1, 12, 0, 0⟩ = .no ∧
    olderThan 30 nowE 0 ⟨2024, 3, 20, 0, 0, 0⟩ = .no ∧ olderThan 30 nowE 0 ⟨2030, 1, 1, 0, 0, 0⟩ = .no ∧
    C10.minusDays 30 nowE = some ⟨2024, 3, 1, 12, 0, 0⟩ := by decide +kernel

theorem WE_selected : emptySel WE rc.cwd o30 dH = [b "old.trashinfo"] ∧ emptySel WE rc.cwd o30 dA = [] := by
  unfold emptySel emptySelected; simp only [Proofs.C10LoopEval.okToDelete_eq]; decide +kernel

/-- `trash-empty 30` evaluated: exit 0; `old` is gone whole (with `files/old/x`) — and so is the ORPHAN
    `files/stray`; `edge`, `young`, `und`, `fut` and everything outside are exactly as before -/
theorem WE_run30 :
    (emptyT rc o30 WE).1.exit = 0 ∧ (emptyT rc o30 WE).1.crash = none ∧
    (emptyT rc o30 WE).2.fs.toList = nodesE.filter (fun pn =>
      pn.1 ∉ [HI ++ [b "old.trashinfo"], HF ++ [b "old"], HF ++ [b "old", b "x"], AF ++ [b "stray"]]) := by
  decide +kernel

/-- `trash-empty` evaluated: exit 0; every entry and the orphan are gone; the directories stay -/
theorem WE_runAll :
    (emptyT rc oAll WE).1.exit = 0 ∧
    (emptyT rc oAll WE).2.fs.toList =
      [([], dN), ([b "h"], dN), ([b "h", b ".local"], dN), ([b "h", b ".local", b "share"], dN), (TH, dN),
       (HF, dN), (HI, dN), ([b "q"], dN), ([b "q", b "keep"], .file [9] 0o644 5),
       ([b "m"], dN), ([b "m", b "keep"], .file [75] 0o644 0), (TA, .dir 0o700 0), (AF, dN), (AI, dN)] := by
  decide +kernel

/-- a DAYS so large that now − DAYS days is not representable: the first DATED entry met (`edge`, the
    first name of the home trash) raises OverflowError — exit 1, nothing removed -/
def oHuge : EmptyOpts := { days := some 800000, now := nowE }

theorem WE_runHuge :
    (emptyT rc oHuge WE).1.exit = 1 ∧ (emptyT rc oHuge WE).1.crash = some .overflow ∧
    (emptyT rc oHuge WE).2.fs.toList = nodesE := by
  decide +kernel

theorem WE_huge_overflows : ∀ dt, olderThan 800000 oHuge.now oHuge.nowUs dt = .overflow := by
  intro dt
  refine (overflow_indep 800000 oHuge.now oHuge.nowUs nowE dt).1 ?_
  decide +kernel

theorem WE_scanHuge : foundDirs (selectTrashDirs WE rc oHuge.userDirs) = ([] ++ dH :: [dA]).map TDir.pair := WE_scan

end TrashVerif.Proofs.C10CmdEx
