/-
  Proofs/C11Cmd.lean — proofs of the command-level frame theorems of Props/C11Cmd.lean.
  The loops of trash-empty and trash-rm issue only `unlink`/`rmdir` calls of paths STRICTLY below a
  root (where `t/files` or `t/info` of a visited trash directory led in the initial state); such a
  call keeps every path outside the roots exactly and every path that is not strictly inside one up
  to a directory's mtime.  Machinery: Proofs/C11.lean (removal programs), Proofs/C08CmdCore.lean
  (resolution in a state that only shrank), Proofs/C08Cmd.lean (the bodies of the commands).
-/
import TrashVerif.Props.C11CmdDefs
import TrashVerif.Proofs.C08Cmd
import TrashVerif.Proofs.C11CmdPath
namespace TrashVerif.Proofs.C11Cmd
open TrashVerif Prog FS PutLemmas C04 C11 TrashVerif.C08Cmd TrashVerif.Proofs.C08Cmd TrashVerif.C11Cmd

/-! ### calls strictly below a root -/

/-- strictly below some root -/
def Below (Rt : CPath → Prop) (r : CPath) : Prop := ∃ D, Rt D ∧ SU D r

/-- an `unlink`/`rmdir` of a path strictly below a root -/
abbrev KIn (Rt : CPath → Prop) : Call → Prop := KR (Below Rt)

theorem su_of_child {D x : CPath} {n : Bytes} (h : D ++ [n] <+: x) : SU D x :=
  ⟨(List.prefix_append D [n]).trans h, by have := h.length_le; simp at this; omega⟩

theorem su_iff {D q : CPath} : FS.strictlyUnder D q = true ↔ SU D q := by
  unfold FS.strictlyUnder SU
  simp only [Bool.and_eq_true, decide_eq_true_eq, List.isPrefixOf_iff_prefix]

/-! ### the invariant -/

/-- what the state `x` keeps of `fs0`, relative to the roots `Rt` -/
def Keeps (Rt : CPath → Prop) (fs0 x : FS) : Prop :=
  (∀ q, (∀ D, Rt D → ¬ D <+: q) → x.get q = fs0.get q) ∧
  (∀ q, (∀ D, Rt D → ¬ SU D q) → touch (x.get q) = touch (fs0.get q))

theorem keeps_keep (Rt : CPath → Prop) (fs0 : FS) :
    ∀ c, KIn Rt c → ∀ fs fs', Keeps Rt fs0 fs → c.apply fs = .ok fs' → Keeps Rt fs0 fs' := by
  intro c hc fs fs' hk h
  obtain ⟨r, ⟨D, hD, hsu⟩, rfl, _⟩ := apply_rm hc h
  refine ⟨fun q hq => ?_, fun q hq => ?_⟩
  · obtain ⟨a, c'⟩ := SU.away (hq D hD) hsu
    rw [rm_get_other fs a c']; exact hk.1 q hq
  · have hne : q ≠ r := fun e => hq D hD (e ▸ hsu)
    rw [rm_get_touch fs hne]; exact hk.2 q hq

theorem sameButMtime_of_touch {a c : Option Node} (h : touch c = touch a) : SameButMtime a c := by
  rcases a with _ | (_ | _ | _) <;> rcases c with _ | (_ | _ | _) <;> simp_all [touch, SameButMtime]

/-- what a program that only removes strictly below the roots leaves, in the final state and in
    every state recorded on the way -/
theorem frame_of_iss {α} (φ : Oracle) (Rt : CPath → Prop) {p : Prog α} (s : RunState)
    (hp : Iss (Shr s.fs) (KIn Rt) p) :
    (Shr s.fs (run φ p s).2.fs ∧ Keeps Rt s.fs (run φ p s).2.fs) ∧
    ∀ x ∈ (run φ p s).2.hist, x ∈ s.hist ∨ (Shr s.fs x ∧ Keeps Rt s.fs x) := by
  refine Iss.thru φ (Inv := fun x => Shr s.fs x ∧ Keeps Rt s.fs x) ?_ p s
    (Iss.weaken (fun _ h => h.1) (fun _ h => h) hp) ⟨Shr.refl _, fun _ _ => rfl, fun _ _ => rfl⟩
  intro c hc fs fs' hi h
  exact ⟨shr_keep s.fs c hc fs fs' hi.1 h, keeps_keep Rt s.fs c hc fs fs' hi.2 h⟩

/-! ### the loops only remove strictly below the roots -/

section loops
variable (fs0 : FS) (cwd : CPath) (Rt : CPath → Prop)

/-- `t/info` and `t/files`, where they lead in the initial state, are roots -/
def DirIn (t : Bytes) : Prop :=
  (∀ q, resolve fs0 cwd (pjoin t (b "info")) true = .ok q → Rt q) ∧
  (∀ q, resolve fs0 cwd (pjoin t (b "files")) true = .ok q → Rt q)

/-- a child of a root -/
def ChildOfRoot (p : CPath) : Prop := ∃ D n, Rt D ∧ p = D ++ [n]

theorem iss_removeIfExistsR {R : Except Errno CPath} (h : ∀ p, R = .ok p → ChildOfRoot Rt p) :
    Iss (Shr fs0) (KIn Rt) (removeIfExistsR R) := by
  unfold removeIfExistsR
  split
  · next q =>
    obtain ⟨D, n, hD, e⟩ := h q rfl
    subst e
    exact Iss.weaken (fun _ _ => trivial) (fun c hc => KR.mono (fun x hx => ⟨D, hD, su_of_child hx⟩) hc)
      (iss_removeIfExists (D ++ [n]))
  · exact Iss.pure _

theorem iss_removeFile2R {R : Except Errno CPath} (h : ∀ p, R = .ok p → ChildOfRoot Rt p) :
    Iss (Shr fs0) (KIn Rt) (removeFile2R R) := by
  unfold removeFile2R
  split
  · next q =>
    obtain ⟨D, n, hD, e⟩ := h q rfl
    subst e
    exact Iss.weaken (fun _ _ => trivial) (fun c hc => KR.mono (fun x hx => ⟨D, hD, su_of_child hx⟩) hc)
      (iss_removeFile2 (D ++ [n]))
  · exact Iss.pure _

theorem iss_purgePairR {R1 R2 : Except Errno CPath} (h1 : ∀ p, R1 = .ok p → ChildOfRoot Rt p)
    (h2 : ∀ p, R2 = .ok p → ChildOfRoot Rt p) : Iss (Shr fs0) (KIn Rt) (purgePair R1 R2) := by
  unfold purgePair
  refine Iss.bind (iss_removeIfExistsR fs0 Rt h1) fun x => ?_
  split
  · exact Iss.pure _
  · exact iss_removeFile2R fs0 Rt h2

theorem iss_emptyPathR (o : EmptyOpts) (path : Bytes) {R : Except Errno CPath} (h : ∀ p, R = .ok p → ChildOfRoot Rt p) :
    Iss (Shr fs0) (KIn Rt) (emptyPathR o path R) := by
  unfold emptyPathR
  have jp : Iss (Shr fs0) (KIn Rt) (removeIfExistsR R >>= fun x =>
      match x with
      | .ok () => (pure () : Prog Unit)
      | .error _ => say (.stderr "cannot-remove" path)) := by
    refine Iss.bind (iss_removeIfExistsR fs0 Rt h) fun x => ?_
    split
    · exact Iss.pure _
    · exact trivial
  split
  · exact trivial
  · dsimp only
    split
    · exact Iss.bind trivial fun _ => jp
    · exact jp

variable {fs0 cwd Rt}

/-- in a state that only shrank from `fs0`, a path string that leads to a name below where `D` leads
    denotes a child of a root -/
theorem leads_child {D i : Bytes} (hin : ∀ q, resolve fs0 cwd D true = .ok q → Rt q) (hl : Leads cwd D i)
    {fs : FS} (hs : Shr fs0 fs) (p : CPath) (h : resolve fs cwd i = .ok p) : ChildOfRoot Rt p := by
  obtain ⟨n, hn⟩ := hl
  obtain ⟨q, hq, e⟩ := hn fs0 fs hs p h
  exact ⟨q, n, hin q hq, e⟩

theorem iss_emptyInfos (o : EmptyOpts) {t : Bytes} (hin : DirIn fs0 cwd Rt t) :
    ∀ infos : List Bytes, (∀ i ∈ infos, InfoForm t i) → Iss (Shr fs0) (KIn Rt) (emptyInfos cwd o infos) := by
  intro infos
  induction infos with
  | nil => intro _; exact Iss.pure _
  | cons i rest ih =>
    intro hall
    have hi := hall i List.mem_cons_self
    have ih' := ih fun j hj => hall j (List.mem_cons_of_mem _ hj)
    unfold emptyInfos
    refine Iss.read_bind fun fs hs => ?_
    split
    · exact Iss.pure _
    · exact ih'
    · refine Iss.bind (iss_emptyPathR fs0 Rt o _ (leads_child hin.2 (backup_leads cwd hi) hs)) fun _ => ?_
      exact Iss.bind (iss_emptyPathR fs0 Rt o _ (leads_child hin.1 (info_leads cwd hi) hs)) fun _ => ih'

theorem iss_emptyPaths (o : EmptyOpts) {t : Bytes} (hin : DirIn fs0 cwd Rt t) :
    ∀ ps : List Bytes, (∀ i ∈ ps, FilesForm t i) → Iss (Shr fs0) (KIn Rt) (emptyPaths cwd o ps) := by
  intro ps
  induction ps with
  | nil => intro _; exact Iss.pure _
  | cons i rest ih =>
    intro hall
    unfold emptyPaths
    refine Iss.bind ?_ fun _ => ih fun j hj => hall j (List.mem_cons_of_mem _ hj)
    unfold emptyPath
    exact Iss.read_bind fun fs hs =>
      iss_emptyPathR fs0 Rt o _ (leads_child hin.2 (files_leads cwd (hall i List.mem_cons_self)) hs)

theorem iss_emptyDirs (o : EmptyOpts) (hn : PlainNames fs0) :
    ∀ dirs : List (Bytes × Bytes), (∀ tv ∈ dirs, DirIn fs0 cwd Rt tv.1) →
      Iss (Shr fs0) (KIn Rt) (emptyDirs cwd o dirs) := by
  intro dirs
  induction dirs with
  | nil => intro _; exact Iss.pure _
  | cons tv rest ih =>
    intro hall
    obtain ⟨t, v⟩ := tv
    have hin := hall (t, v) List.mem_cons_self
    unfold emptyDirs
    refine Iss.read_bind fun fs hs => ?_
    split
    · exact Iss.pure _
    · next infos hinf =>
      refine Iss.bind (iss_emptyInfos o hin infos (infosOf_form (plainNames_shr hs hn) hinf)) fun x => ?_
      split
      · exact Iss.pure _
      · refine Iss.read_bind fun fs' hs' => ?_
        split
        · exact Iss.pure _
        · next os hos =>
          refine Iss.bind (iss_emptyPaths o hin os (orphansOf_form (plainNames_shr hs' hn) hos)) fun _ => ?_
          exact ih fun tv' h' => hall tv' (List.mem_cons_of_mem _ h')

theorem iss_rmInfos (pattern volume : Bytes) {t : Bytes} (hin : DirIn fs0 cwd Rt t) :
    ∀ infos : List Bytes, (∀ i ∈ infos, InfoForm t i) → Iss (Shr fs0) (KIn Rt) (rmInfos cwd pattern volume infos) := by
  intro infos
  induction infos with
  | nil => intro _; exact Iss.pure _
  | cons i rest ih =>
    intro hall
    have hi := hall i List.mem_cons_self
    have ih' := ih fun j hj => hall j (List.mem_cons_of_mem _ hj)
    unfold rmInfos
    refine Iss.read_bind fun fs hs => ?_
    split
    · exact Iss.bind trivial fun _ => ih'
    · split
      · exact Iss.bind trivial fun _ => ih'
      · split
        · exact Iss.pure _
        · exact ih'
        · refine Iss.bind (iss_purgePairR fs0 Rt (leads_child hin.2 (backup_leads cwd hi) hs)
            (leads_child hin.1 (info_leads cwd hi) hs)) fun x => ?_
          split
          · exact Iss.pure _
          · exact ih'

theorem iss_rmDirs (pattern : Bytes) (hn : PlainNames fs0) :
    ∀ dirs : List (Bytes × Bytes), (∀ tv ∈ dirs, DirIn fs0 cwd Rt tv.1) →
      Iss (Shr fs0) (KIn Rt) (rmDirs cwd pattern dirs) := by
  intro dirs
  induction dirs with
  | nil => intro _; exact Iss.pure _
  | cons tv rest ih =>
    intro hall
    obtain ⟨t, v⟩ := tv
    have hin := hall (t, v) List.mem_cons_self
    unfold rmDirs
    refine Iss.read_bind fun fs hs => ?_
    split
    · exact Iss.pure _
    · next infos hinf =>
      refine Iss.bind (iss_rmInfos pattern v hin infos (infosOf_form (plainNames_shr hs hn) hinf)) fun x => ?_
      split
      · exact Iss.pure _
      · exact ih fun tv' h' => hall tv' (List.mem_cons_of_mem _ h')

end loops

/-! ### from the invariant to `Framed` -/

theorem dirIn_root (fs0 : FS) (cwd : CPath) (dirs : List (Bytes × Bytes)) :
    ∀ tv ∈ dirs, DirIn fs0 cwd (Root fs0 cwd dirs) tv.1 :=
  fun tv htv => ⟨fun _ hq => ⟨tv, htv, Or.inr hq⟩, fun _ hq => ⟨tv, htv, Or.inl hq⟩⟩

theorem framed_of_keeps {fs0 x : FS} {cwd : CPath} {dirs : List (Bytes × Bytes)}
    (hs : Shr fs0 x) (h : Keeps (Root fs0 cwd dirs) fs0 x) : Framed fs0 cwd dirs x := by
  refine ⟨fun q hq => h.1 q fun D hD hp => hq D hD ((under_iff _ _).2 hp), fun q hq => ?_,
    fun q => (hs q).imp id sameButMtime_of_touch⟩
  exact sameButMtime_of_touch (h.2 q fun D hD hs => hq D hD (su_iff.2 hs))

theorem framed_of_iss {α} (φ : Oracle) (cwd : CPath) (dirs : List (Bytes × Bytes)) {p : Prog α} (s : RunState)
    (hp : Iss (Shr s.fs) (KIn (Root s.fs cwd dirs)) p) :
    Framed s.fs cwd dirs (run φ p s).2.fs ∧
    ∀ x ∈ (run φ p s).2.hist, x ∈ s.hist ∨ Framed s.fs cwd dirs x := by
  obtain ⟨a, bb⟩ := frame_of_iss φ _ s hp
  exact ⟨framed_of_keeps a.1 a.2, fun x hx => (bb x hx).imp id fun h => framed_of_keeps h.1 h.2⟩

/-- KEY LEMMA (trash-empty), under every fault oracle -/
theorem emptyDirs_frame (φ : Oracle) (cwd : CPath) (o : EmptyOpts) (dirs : List (Bytes × Bytes))
    (s : RunState) (hn : PlainNames s.fs) :
    Framed s.fs cwd dirs (run φ (emptyDirs cwd o dirs) s).2.fs ∧
    ∀ x ∈ (run φ (emptyDirs cwd o dirs) s).2.hist, x ∈ s.hist ∨ Framed s.fs cwd dirs x :=
  framed_of_iss φ cwd dirs s (iss_emptyDirs o hn dirs (dirIn_root s.fs cwd dirs))

/-- KEY LEMMA (trash-rm), under every fault oracle -/
theorem rmDirs_frame (φ : Oracle) (cwd : CPath) (pattern : Bytes) (dirs : List (Bytes × Bytes))
    (s : RunState) (hn : PlainNames s.fs) :
    Framed s.fs cwd dirs (run φ (rmDirs cwd pattern dirs) s).2.fs ∧
    ∀ x ∈ (run φ (rmDirs cwd pattern dirs) s).2.hist, x ∈ s.hist ∨ Framed s.fs cwd dirs x :=
  framed_of_iss φ cwd dirs s (iss_rmDirs pattern hn dirs (dirIn_root s.fs cwd dirs))

/-! ### the commands -/

theorem iss_emptyBody (c : ReadCfg) (o : EmptyOpts) (reply : Option Bytes) (fs0 : FS) (hn : PlainNames fs0) :
    Iss (Shr fs0) (KIn (Root fs0 c.cwd (foundDirs (selectTrashDirs fs0 c o.userDirs)))) (emptyBody c o reply fs0) := by
  have hgo : Iss (Shr fs0) (KIn (Root fs0 c.cwd (foundDirs (selectTrashDirs fs0 c o.userDirs))))
      (emptyDirs c.cwd o (foundDirs (selectTrashDirs fs0 c o.userDirs)) >>= fun x =>
      match x with
      | some cr => (do say (.stderr "traceback" []); pure { exit := 1, crash := some cr } : Prog CmdResult)
      | none => pure { exit := 0 }) := by
    refine Iss.bind (iss_emptyDirs o hn _ (dirIn_root _ _ _)) fun x => ?_
    split
    · exact trivial
    · exact Iss.pure _
  unfold emptyBody
  dsimp only
  split
  · split
    · exact trivial
    · split
      · exact hgo
      · exact Iss.pure _
  · exact hgo

theorem runEmpty_frame (φ : Oracle) (c : ReadCfg) (o : EmptyOpts) (reply : Option Bytes) (s : RunState)
    (hn : PlainNames s.fs) :
    Framed s.fs c.cwd (foundDirs (selectTrashDirs s.fs c o.userDirs)) (run φ (runEmpty c o reply) s).2.fs ∧
    ∀ x ∈ (run φ (runEmpty c o reply) s).2.hist,
      x ∈ s.hist ∨ Framed s.fs c.cwd (foundDirs (selectTrashDirs s.fs c o.userDirs)) x := by
  rw [runEmpty_body]
  exact framed_of_iss φ c.cwd _ s (iss_emptyBody c o reply s.fs hn)

theorem runRm_frame (φ : Oracle) (c : ReadCfg) (args : List Bytes) (s : RunState) (hn : PlainNames s.fs) :
    Framed s.fs c.cwd (foundDirs (scanTrashDirs s.fs c)) (run φ (runRm c args) s).2.fs ∧
    ∀ x ∈ (run φ (runRm c args) s).2.hist, x ∈ s.hist ∨ Framed s.fs c.cwd (foundDirs (scanTrashDirs s.fs c)) x := by
  cases args with
  | nil =>
    rw [runRm_nil]
    exact ⟨framed_of_keeps (Shr.refl _) ⟨fun _ _ => rfl, fun _ _ => rfl⟩, fun x hx => Or.inl hx⟩
  | cons pattern rest =>
    rw [runRm_body]
    refine framed_of_iss φ c.cwd _ s ?_
    unfold rmBody
    refine Iss.bind (iss_rmDirs pattern hn _ (dirIn_root _ _ _)) fun x => ?_
    split
    · exact trivial
    · exact Iss.pure _

theorem mem_crashStates_iff {α} {φ : Oracle} {p : Prog α} {fs x : FS} :
    x ∈ crashStates φ p fs ↔ x = (run φ p { fs := fs }).2.fs ∨ x ∈ (run φ p { fs := fs }).2.hist := by
  unfold crashStates
  simp only [List.mem_reverse, List.mem_cons]

theorem empty_frame (φ : Oracle) (c : ReadCfg) (o : EmptyOpts) (reply : Option Bytes) (fs : FS) (hn : PlainNames fs) :
    ∀ x ∈ crashStates φ (runEmpty c o reply) fs, Framed fs c.cwd (foundDirs (selectTrashDirs fs c o.userDirs)) x := by
  intro x hx
  obtain ⟨a, bb⟩ := runEmpty_frame φ c o reply { fs := fs } hn
  rcases mem_crashStates_iff.1 hx with h | h
  · rw [h]; exact a
  · rcases bb x h with h' | h'
    · cases h'
    · exact h'

theorem rm_frame (φ : Oracle) (c : ReadCfg) (args : List Bytes) (fs : FS) (hn : PlainNames fs) :
    ∀ x ∈ crashStates φ (runRm c args) fs, Framed fs c.cwd (foundDirs (scanTrashDirs fs c)) x := by
  intro x hx
  obtain ⟨a, bb⟩ := runRm_frame φ c args { fs := fs } hn
  rcases mem_crashStates_iff.1 hx with h | h
  · rw [h]; exact a
  · rcases bb x h with h' | h'
    · cases h'
    · exact h'

/-! ### the roots, computed -/

theorem root_iff_mem {fs : FS} {cwd : CPath} {dirs : List (Bytes × Bytes)} {D : CPath} :
    Root fs cwd dirs D ↔ D ∈ rootsOf fs cwd dirs := by
  unfold Root rootsOf
  rw [List.mem_flatMap]
  constructor
  · rintro ⟨tv, htv, h | h⟩
    · exact ⟨tv, htv, by rw [h]; simp⟩
    · exact ⟨tv, htv, by rw [h]; simp⟩
  · rintro ⟨tv, htv, h⟩
    refine ⟨tv, htv, ?_⟩
    rcases List.mem_append.1 h with h | h
    · left
      split at h
      · next D' e => rw [e, List.mem_singleton.1 h]
      · cases h
    · right
      split at h
      · next D' e => rw [e, List.mem_singleton.1 h]
      · cases h

/-! ### when `files/` and `info/` are not symbolic links -/

/-- then every root is the directory entry `files` / `info` itself -/
theorem root_real {fs : FS} {cwd : CPath} {dirs : List (Bytes × Bytes)}
    (hreal : ∀ tv ∈ dirs, RealSubdirs fs cwd tv.1) {D : CPath} (h : Root fs cwd dirs D) :
    SubdirEntry fs cwd dirs D := by
  obtain ⟨tv, htv, h | h⟩ := h
  · rw [resolve_follow_eq fs cwd (tidy_files tv.1) (not_link_of_pIslink (hreal tv htv).1)] at h
    exact ⟨tv, htv, Or.inl h⟩
  · rw [resolve_follow_eq fs cwd (tidy_info tv.1) (not_link_of_pIslink (hreal tv htv).2)] at h
    exact ⟨tv, htv, Or.inr h⟩

theorem subdirEntry_shape {fs : FS} {cwd : CPath} {dirs : List (Bytes × Bytes)} {p : CPath}
    (h : SubdirEntry fs cwd dirs p) : ∃ T, p = T ++ [b "files"] ∨ p = T ++ [b "info"] := by
  obtain ⟨tv, _, h | h⟩ := h
  · obtain ⟨q, e⟩ := resolve_pjoin_name_shape fs cwd tv.1 plain_files h
    exact ⟨q, Or.inl e⟩
  · obtain ⟨q, e⟩ := resolve_pjoin_name_shape fs cwd tv.1 plain_info h
    exact ⟨q, Or.inr e⟩

theorem outside_of_real {fs : FS} {cwd : CPath} {dirs : List (Bytes × Bytes)}
    (hreal : ∀ tv ∈ dirs, RealSubdirs fs cwd tv.1) {q : CPath}
    (hq : ∀ p, SubdirEntry fs cwd dirs p → ¬ FS.under p q = true) : Outside fs cwd dirs q :=
  fun D hD => hq D (root_real hreal hD)

/-! ### "a symlink is unlinked, never followed" -/

/-- a subtree apart from every root is outside, wholly -/
theorem outside_of_apart {fs : FS} {cwd : CPath} {dirs : List (Bytes × Bytes)} {x : CPath}
    (h : ∀ D, Root fs cwd dirs D → Apart D x) (rel : CPath) : Outside fs cwd dirs (x ++ rel) := by
  intro D hD hu
  obtain ⟨h1, h2⟩ := apart_iff.1 (h D hD)
  exact (pfx_comparable ((under_iff _ _).1 hu) (List.prefix_append x rel)).elim h1 h2

end TrashVerif.Proofs.C11Cmd
