/-
  Proofs/C14LoopEx.lean — concrete worlds for Props/C14Loop.lean, evaluated by the kernel through the
  twins (Proofs/C10LoopEval.lean, Proofs/C11CmdEval.lean): the demo directory `/t` (three entries, an
  orphan), the payload-less entry, and the symbolic link in `info/` (the recorded finding).
-/
import TrashVerif.Proofs.C14LoopPlainMulti
import TrashVerif.Proofs.C10LoopEx
import TrashVerif.Proofs.C11CmdEval
import TrashVerif.Proofs.C19CmdEx
namespace TrashVerif.Proofs.C14LoopEx
open TrashVerif Prog FS PutCore C09Hist C10Loop C14Loop
open TrashVerif.Proofs.C16Eval TrashVerif.Proofs.C02CmdEval TrashVerif.Proofs.C10LoopEval
open TrashVerif.Proofs.C10LoopEx (plainCheck plain_of_check setting_of_check hyps_of_check)
open TrashVerif.Proofs.C10Loop (treeOk_of_check)
open TrashVerif.Proofs.C14LoopPlainMulti (plain_dir_of_hyps plain_dirs_setting)

/-! ### a decidable check of the hypotheses of `plain_dir_setting` -/

def goodPay (m : Bytes) : Bool :=
  decide (m ≠ []) && decide (slash ∉ m) && decide (m ≠ [dot]) && decide (m ≠ dotdot) && decide (m.length ≤ 245)

/-- every present child of `F` listed in `dom` has a good name -/
def goodPCheck (fs : FS) (F : CPath) : Bool :=
  fs.dom.all fun q => !((fs.get q).isSome && decide (q.dropLast = F) && decide (q ≠ [])) ||
    (match q.getLast? with | some m => goodPay m | none => false)

def dirCheck (fs : FS) (T : CPath) (names orph : List Bytes) : Bool :=
  decide (T ≠ []) && decide (∀ n ∈ T, n ≠ [] ∧ slash ∉ n ∧ n ≠ [dot] ∧ n ≠ dotdot ∧ n.length ≤ 255) &&
  plainCheck fs (T ++ [b "info"]) && plainCheck fs (T ++ [b "files"]) &&
  names.all (fun n => decide (slash ∉ n) && decide (n.length ≤ 255) && !fs.isLinkAt (T ++ [b "info"] ++ [n]) &&
    treeCheck fs (T ++ [b "info"] ++ [n]) && treeCheck fs (T ++ [b "files"] ++ [stemOf n])) &&
  goodPCheck fs (T ++ [b "files"]) &&
  orph.all (fun m => treeCheck fs (T ++ [b "files"] ++ [m]) && treeCheck fs (T ++ [b "info"] ++ [infoNameOf m]))

theorem hyps_of_dirCheck {fs : FS} {T : CPath} {names orph : List Bytes} (hw : DomWf fs)
    (hl : listed fs (T ++ [b "info"]) = names) (ho : orphanNames fs (T ++ [b "info"]) (T ++ [b "files"]) = orph)
    (h : dirCheck fs T names orph = true) : PlainDirHyps fs T := by
  unfold dirCheck at h
  simp only [Bool.and_eq_true, decide_eq_true_eq, List.all_eq_true, Bool.not_eq_true'] at h
  obtain ⟨⟨⟨⟨⟨⟨h0, hg⟩, hI⟩, hF⟩, hn⟩, hp⟩, hor⟩ := h
  refine ⟨h0, hg, plain_of_check hI, plain_of_check hF, ?_, ?_, ?_, ?_, ?_, ?_⟩
  · intro n hn'; rw [hl] at hn'; exact ⟨(hn n hn').1.1.1.1, (hn n hn').1.1.1.2⟩
  · intro n hn'; rw [hl] at hn'; exact (hn n hn').1.1.2
  · intro n hn'; rw [hl] at hn'; exact treeOk_of_check hw (hn n hn').1.2
  · intro n hn'; rw [hl] at hn'; exact treeOk_of_check hw (hn n hn').2
  · intro m hm
    unfold goodPCheck at hp
    rw [List.all_eq_true] at hp
    have := hp _ (hw _ hm)
    rw [hm, PutLemmas.dropLast_concat, List.getLast?_concat] at this
    simp only [decide_true, Bool.true_and, ne_eq, List.append_eq_nil_iff, List.cons_ne_self, and_false, not_false_eq_true,
      Bool.not_true, Bool.false_or] at this
    unfold goodPay at this
    simp only [Bool.and_eq_true, decide_eq_true_eq] at this
    exact ⟨this.1.1.1.1, this.1.1.1.2, this.1.1.2, this.1.2, this.2⟩
  · intro m hm; rw [ho] at hm
    exact ⟨treeOk_of_check hw (hor m hm).1, treeOk_of_check hw (hor m hm).2⟩

theorem dir_setting_of_check {fs : FS} (cwd : CPath) {T : CPath} {names orph : List Bytes} (hw : DomWf fs)
    (hl : listed fs (T ++ [b "info"]) = names) (ho : orphanNames fs (T ++ [b "info"]) (T ++ [b "files"]) = orph)
    (h : dirCheck fs T names orph = true) :
    DirSetting fs cwd (toStr T) (T ++ [b "info"]) (T ++ [b "files"]) :=
  plain_dir_of_hyps fs cwd T (hyps_of_dirCheck hw hl ho h) hw

/-! ### the demo world: `/t` with `old` (directory payload), `mid`, `new`, and the orphan `stray` -/

namespace Demo

def dirN : Node := .dir 0o755 7
def T : CPath := [b "t"]
def I : CPath := T ++ [b "info"]
def F : CPath := T ++ [b "files"]
def oldN : Bytes := b "old.trashinfo"
def midN : Bytes := b "mid.trashinfo"
def newN : Bytes := b "new.trashinfo"

/-- `old` (2020-01-01, payload a directory holding a file), `mid` (2023-06-15), `new` (2024-03-01 12:00);
    the orphan `files/stray`; `/home/keep` outside.  `/` is the only mount point. -/
def W : FS := FS.ofList [
  ([], dirN), (T, dirN), (I, dirN), (F, dirN),
  (I ++ [oldN], .file (b "[Trash Info]\nPath=/home/a/old\nDeletionDate=2020-01-01T00:00:00\n") 0o600 3),
  (I ++ [midN], .file (b "[Trash Info]\nPath=/home/a/mid\nDeletionDate=2023-06-15T08:30:00\n") 0o600 3),
  (I ++ [newN], .file (b "[Trash Info]\nPath=/home/a/new\nDeletionDate=2024-03-01T12:00:00\n") 0o600 3),
  (F ++ [b "old"], dirN), (F ++ [b "old", b "x"], .file [120] 0o644 3),
  (F ++ [b "mid"], .file [121] 0o644 3), (F ++ [b "new"], .file [122] 0o644 3),
  (F ++ [b "stray"], .file [123] 0o644 3),
  ([b "home"], dirN), ([b "home", b "keep"], .file [124] 0o644 3)] [[]]

def t : Bytes := b "/t"
/-- the listing of `info/`, sorted -/
def names : List Bytes := [midN, newN, oldN]

def rc : ReadCfg := { cwd := [], env := {}, uid := 1000, mountPoints := [] }
/-- `trash-empty --trash-dir /t 1` on 2024-03-02 00:00:00: `old` and `mid` are selected, `new` is not -/
def o1 : EmptyOpts := { userDirs := [t], days := some 1, now := ⟨2024, 3, 2, 0, 0, 0⟩ }
def oDry : EmptyOpts := { o1 with dryRun := true }
def oV : EmptyOpts := { o1 with verbose := 1 }

theorem tStr : toStr T = t := by decide +kernel
theorem W_wf : DomWf W := Proofs.C09Hist.domwf_ofList _ _

theorem W_listed : listed W I = names := by
  unfold listed infoNames; rw [sortedChildren_eq]; decide +kernel

theorem W_orphans : orphanNames W I F = [b "stray"] := by
  unfold orphanNames infoNames; rw [sortedChildren_eq]; decide +kernel

theorem W_setting (cwd : CPath) : Setting W cwd t I F names := by
  rw [← tStr]; exact setting_of_check cwd W_wf (by decide +kernel)

theorem W_dir (cwd : CPath) : DirSetting W cwd t I F := by
  rw [← tStr]; exact dir_setting_of_check cwd W_wf W_listed W_orphans (by decide +kernel)

theorem W_selected : emptySelected W [] o1 t names = [midN, oldN] := by
  unfold emptySelected; simp only [okToDelete_eq]; decide +kernel

theorem W_nocrash : ∀ n ∈ names, ∀ c, okToDelete W [] o1 (infoStr t n) ≠ .crash c := by
  have h : ∀ n ∈ names, okToDelete W [] o1 (infoStr t n) = .delete ∨ okToDelete W [] o1 (infoStr t n) = .keep := by
    simp only [okToDelete_eq]; decide +kernel
  intro n hn c hc
  rcases h n hn with e | e <;> rw [e] at hc <;> cases hc

theorem W_complete : ∀ n ∈ emptySelected W [] o1 t names,
    (W.get (I ++ [n])).isSome = true ∧ (W.get (F ++ [stemOf n])).isSome = true := by
  rw [W_selected]; decide +kernel

theorem W_found : foundDirs (selectTrashDirs W rc o1.userDirs) = [(t, b "/")] := by
  rw [Proofs.C08CmdEval.selectTrashDirs_eq]; decide +kernel

theorem W_announced : announcedDir W [] o1 t =
    [b "/t/files/mid", b "/t/info/mid.trashinfo", b "/t/files/old", b "/t/info/old.trashinfo", b "/t/files/stray"] := by
  unfold announcedDir selectedInfos
  simp only [infosOf_eq, Proofs.C08CmdEval.orphansOf_eq, okToDelete_eq]
  decide +kernel

theorem W_dirPaths : dirPaths W [] t =
    [b "/t/files/mid", b "/t/info/mid.trashinfo", b "/t/files/new", b "/t/info/new.trashinfo",
     b "/t/files/old", b "/t/info/old.trashinfo", b "/t/files/stray"] := by
  unfold dirPaths
  simp only [infosOf_eq, Proofs.C08CmdEval.orphansOf_eq]
  decide +kernel

/-- the dry run of the whole command, evaluated: exit 0, no call, the file system as it was, five lines -/
theorem W_dry_run :
    (run noFaults (runEmpty rc oDry none) { fs := W }).1.exit = 0 ∧
    (run noFaults (runEmpty rc oDry none) { fs := W }).2.trace = [] ∧
    (run noFaults (runEmpty rc oDry none) { fs := W }).2.fs.toList = W.toList ∧
    (run noFaults (runEmpty rc oDry none) { fs := W }).2.outs.reverse =
      [dryLine (b "/t/files/mid"), dryLine (b "/t/info/mid.trashinfo"), dryLine (b "/t/files/old"),
       dryLine (b "/t/info/old.trashinfo"), dryLine (b "/t/files/stray")] := by
  rw [Proofs.C11CmdEval.runEmpty_eq]; decide +kernel

/-- the real run with `-v`, evaluated: exit 0; the same five paths in "removing" lines; the final state is the
    initial one without `mid`, `old` (with `files/old/x`) and the orphan -/
theorem W_real_run :
    (run noFaults (runEmpty rc oV none) { fs := W }).1.exit = 0 ∧
    (run noFaults (runEmpty rc oV none) { fs := W }).2.outs.reverse =
      [removingLine (b "/t/files/mid"), removingLine (b "/t/info/mid.trashinfo"), removingLine (b "/t/files/old"),
       removingLine (b "/t/info/old.trashinfo"), removingLine (b "/t/files/stray")] ∧
    (run noFaults (runEmpty rc oV none) { fs := W }).2.fs.toList =
      [([], dirN), (T, dirN), (I, .dir 0o755 0), (F, .dir 0o755 0),
       (I ++ [newN], .file (b "[Trash Info]\nPath=/home/a/new\nDeletionDate=2024-03-01T12:00:00\n") 0o600 3),
       (F ++ [b "new"], .file [122] 0o644 3),
       ([b "home"], dirN), ([b "home", b "keep"], .file [124] 0o644 3)] := by
  rw [Proofs.C11CmdEval.runEmpty_eq]; decide +kernel

/-- … and what was removed, evaluated independently of the theorems -/
theorem W_removed :
    removedOf W (run noFaults (runEmpty rc o1 none) { fs := W }).2.fs [] (dirPaths W [] t) =
      [b "/t/files/mid", b "/t/info/mid.trashinfo", b "/t/files/old", b "/t/info/old.trashinfo", b "/t/files/stray"] := by
  rw [W_dirPaths, Proofs.C11CmdEval.runEmpty_eq]
  unfold removedOf
  simp only [pLexists_eq]
  decide +kernel

/-! #### two trash directories: `/t` as above and `/u` (`x` of 2021, `y` of today, the orphan `lost`) -/

def U : CPath := [b "u"]
def xN : Bytes := b "x.trashinfo"
def yN : Bytes := b "y.trashinfo"

def W2 : FS := FS.ofList (W.toList ++ [
  (U, dirN), (U ++ [b "info"], dirN), (U ++ [b "files"], dirN),
  (U ++ [b "info", xN], .file (b "[Trash Info]\nPath=/home/a/x\nDeletionDate=2021-05-05T05:05:05\n") 0o600 3),
  (U ++ [b "info", yN], .file (b "[Trash Info]\nPath=/home/a/y\nDeletionDate=2024-03-01T23:59:59\n") 0o600 3),
  (U ++ [b "files", b "x"], .file [125] 0o644 3), (U ++ [b "files", b "y"], .file [126] 0o644 3),
  (U ++ [b "files", b "lost"], dirN), (U ++ [b "files", b "lost", b "z"], .link (b "/home/keep"))]) [[]]

/-- `trash-empty --trash-dir /t --trash-dir /u 1` -/
def o2 : EmptyOpts := { o1 with userDirs := [b "/t", b "/u"] }
def ds2 : List TDir := [(T, b "/"), (U, b "/")].map fun Tv => plainDir Tv.1 Tv.2

theorem W2_wf : DomWf W2 := Proofs.C09Hist.domwf_ofList _ _

theorem W2_found : foundDirs (selectTrashDirs W2 rc o2.userDirs) = TDir.pairs ds2 := by
  rw [Proofs.C08CmdEval.selectTrashDirs_eq]; decide +kernel

theorem W2_hyps : ∀ Tv ∈ [(T, b "/"), (U, b "/")], PlainDirHyps W2 Tv.1 := by
  have hT : PlainDirHyps W2 T := hyps_of_dirCheck (names := names) (orph := [b "stray"]) W2_wf
    (by unfold listed infoNames; rw [sortedChildren_eq]; decide +kernel)
    (by unfold orphanNames infoNames; rw [sortedChildren_eq]; decide +kernel) (by decide +kernel)
  have hU : PlainDirHyps W2 U := hyps_of_dirCheck (names := [xN, yN]) (orph := [b "lost"]) W2_wf
    (by unfold listed infoNames; rw [sortedChildren_eq]; decide +kernel)
    (by unfold orphanNames infoNames; rw [sortedChildren_eq]; decide +kernel) (by decide +kernel)
  intro Tv h
  simp only [List.mem_cons, List.not_mem_nil, or_false] at h
  rcases h with rfl | rfl
  · exact hT
  · exact hU

theorem W2_apart : ds2.Pairwise TDir.Apart := by
  show List.Pairwise TDir.Apart [plainDir T (b "/"), plainDir U (b "/")]
  refine List.Pairwise.cons (fun c hc => ?_) (List.Pairwise.cons (fun _ h => nomatch h) List.Pairwise.nil)
  simp only [List.mem_cons, List.not_mem_nil, or_false] at hc
  subst hc
  unfold TDir.Apart Incomp plainDir
  simp only [← List.isPrefixOf_iff_prefix]
  decide +kernel

theorem W2_dirs (cwd : CPath) : DirsSetting W2 cwd ds2 := plain_dirs_setting W2 cwd _ W2_wf W2_hyps W2_apart

theorem W2_announced : announced W2 [] o2 (TDir.pairs ds2) =
    [b "/t/files/mid", b "/t/info/mid.trashinfo", b "/t/files/old", b "/t/info/old.trashinfo", b "/t/files/stray",
     b "/u/files/x", b "/u/info/x.trashinfo", b "/u/files/lost"] := by
  unfold announced announcedDir selectedInfos
  simp only [infosOf_eq, Proofs.C08CmdEval.orphansOf_eq, okToDelete_eq]
  decide +kernel

/-- the dry run and the real run over the two directories, evaluated -/
theorem W2_runs :
    (run noFaults (runEmpty rc { o2 with dryRun := true } none) { fs := W2 }).2.outs.reverse =
      (announced W2 [] o2 (TDir.pairs ds2)).map dryLine ∧
    (run noFaults (runEmpty rc { o2 with dryRun := true } none) { fs := W2 }).2.trace = [] ∧
    (run noFaults (runEmpty rc o2 none) { fs := W2 }).1.exit = 0 ∧
    (run noFaults (runEmpty rc o2 none) { fs := W2 }).2.fs.toList =
      [([], dirN), (T, dirN), (I, .dir 0o755 0), (F, .dir 0o755 0),
       (I ++ [newN], .file (b "[Trash Info]\nPath=/home/a/new\nDeletionDate=2024-03-01T12:00:00\n") 0o600 3),
       (F ++ [b "new"], .file [122] 0o644 3),
       ([b "home"], dirN), ([b "home", b "keep"], .file [124] 0o644 3),
       (U, dirN), (U ++ [b "info"], .dir 0o755 0), (U ++ [b "files"], .dir 0o755 0),
       (U ++ [b "info", yN], .file (b "[Trash Info]\nPath=/home/a/y\nDeletionDate=2024-03-01T23:59:59\n") 0o600 3),
       (U ++ [b "files", b "y"], .file [126] 0o644 3)] := by
  rw [W2_announced, Proofs.C11CmdEval.runEmpty_eq, Proofs.C11CmdEval.runEmpty_eq]; decide +kernel

end Demo

/-! ### a selected entry without payload is announced all the same -/

namespace Cex
open Demo (dirN T I F t)

def aN : Bytes := b "a.trashinfo"

/-- `info/a.trashinfo` without `files/a` -/
def WP : FS := FS.ofList [
  ([], dirN), (T, dirN), (I, dirN), (F, dirN),
  (I ++ [aN], .file (b "[Trash Info]\nPath=/home/a/aa\nDeletionDate=2020-01-01T00:00:00\n") 0o600 3)] [[]]

/-- plain `trash-empty`, `--dry-run` -/
def oAll : EmptyOpts := { now := ⟨2024, 3, 2, 0, 0, 0⟩ }

theorem WP_setting (cwd : CPath) : Setting WP cwd t I F [aN] := by
  rw [← Demo.tStr]; exact setting_of_check cwd (Proofs.C09Hist.domwf_ofList _ _) (by decide +kernel)

theorem WP_facts :
    emptySelected WP [] oAll t [aN] = [aN] ∧
    pathsOf t [aN] = [b "/t/files/a", b "/t/info/a.trashinfo"] ∧
    pLexists WP [] (b "/t/files/a") = false ∧
    (run noFaults (emptyInfos [] { oAll with dryRun := true } (infoStrs t [aN])) { fs := WP }).2.outs.reverse =
      [dryLine (b "/t/files/a"), dryLine (b "/t/info/a.trashinfo")] ∧
    removedOf WP (run noFaults (emptyInfos [] oAll (infoStrs t [aN])) { fs := WP }).2.fs [] (pathsOf t [aN]) =
      [b "/t/info/a.trashinfo"] := by
  refine ⟨?_, by decide +kernel, ?_, ?_, ?_⟩
  · unfold emptySelected; simp only [okToDelete_eq]; decide +kernel
  · rw [pLexists_eq]; decide +kernel
  · rw [emptyInfos_eq]; decide +kernel
  · rw [emptyInfos_eq]; unfold removedOf; simp only [pLexists_eq]; decide +kernel

end Cex

/-! ### the recorded finding: an info file that is a symbolic link to a sibling -/

namespace Link
open TrashVerif.Proofs.C19CmdEx.Demo (T I F t v rc o1 dirN)
open TrashVerif.Proofs.C19CmdEx.Cex (WSold aN zN)

def oDry : EmptyOpts := { o1 with dryRun := true }

theorem found : foundDirs (selectTrashDirs WSold rc o1.userDirs) = [(t, v)] := by
  rw [Proofs.C08CmdEval.selectTrashDirs_eq]; decide +kernel

theorem listed_eq : listed WSold I = [aN, zN] := by
  unfold listed infoNames; rw [sortedChildren_eq]; decide +kernel

theorem hyps : PlainHyps WSold T [aN, zN] ∧ (∀ m ∈ [aN, zN], TreeOk WSold (T ++ [b "files"] ++ [stemOf m])) := by
  obtain ⟨h1, _, h3, _⟩ := hyps_of_check (fs := WSold) (T := T) (names := [aN, zN]) (links := true) (mounts := false)
    (Proofs.C09Hist.domwf_ofList _ _) (by decide +kernel)
  exact ⟨h1, h3 rfl⟩

theorem selected : emptySelected WSold [] o1 t [aN, zN] = [aN, zN] := by
  unfold emptySelected; simp only [okToDelete_eq]; decide +kernel

theorem dry_run :
    (run noFaults (runEmpty rc oDry none) { fs := WSold }).1.exit = 0 ∧
    (run noFaults (runEmpty rc oDry none) { fs := WSold }).2.trace = [] ∧
    (run noFaults (runEmpty rc oDry none) { fs := WSold }).2.outs.reverse =
      [dryLine (b "/m/.Trash-1000/files/a"), dryLine (b "/m/.Trash-1000/info/a.trashinfo"),
       dryLine (b "/m/.Trash-1000/files/z"), dryLine (b "/m/.Trash-1000/info/z.trashinfo")] := by
  rw [Proofs.C11CmdEval.runEmpty_eq]; decide +kernel

theorem real_run :
    (run noFaults (runEmpty rc o1 none) { fs := WSold }).1.exit = 0 ∧
    (run noFaults (runEmpty rc o1 none) { fs := WSold }).2.fs.get (F ++ [b "a"]) = none ∧
    (run noFaults (runEmpty rc o1 none) { fs := WSold }).2.fs.get (I ++ [aN]) = none ∧
    (run noFaults (runEmpty rc o1 none) { fs := WSold }).2.fs.get (F ++ [b "z"]) = none ∧
    (run noFaults (runEmpty rc o1 none) { fs := WSold }).2.fs.get (I ++ [zN]) = some (.link aN) ∧
    (run noFaults (runEmpty rc { o1 with verbose := 1 } none) { fs := WSold }).2.outs.reverse =
      [removingLine (b "/m/.Trash-1000/files/a"), removingLine (b "/m/.Trash-1000/info/a.trashinfo"),
       removingLine (b "/m/.Trash-1000/files/z")] := by
  rw [Proofs.C11CmdEval.runEmpty_eq, Proofs.C11CmdEval.runEmpty_eq]; decide +kernel

theorem still_there :
    pLexists WSold [] (b "/m/.Trash-1000/info/z.trashinfo") = true ∧
    pLexists (run noFaults (runEmpty rc o1 none) { fs := WSold }).2.fs [] (b "/m/.Trash-1000/info/z.trashinfo") = true := by
  rw [Proofs.C11CmdEval.runEmpty_eq]; simp only [pLexists_eq]; decide +kernel

end Link

end TrashVerif.Proofs.C14LoopEx
