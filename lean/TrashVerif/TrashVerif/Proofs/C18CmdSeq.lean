/-
  Proofs/C18CmdSeq.lean — two arguments in one run of `trash-put`: `link/inside`, then `link/`
  (lemmas for Props/C18Cmd.lean, part 4).
-/
import TrashVerif.Proofs.C18CmdThrough
import TrashVerif.Proofs.C18CmdHome
namespace TrashVerif.Proofs.C18CmdSeq
open TrashVerif Prog FS PutCore PutLemmas C18Cmd C16Indep C07Cmd
open TrashVerif.Proofs.C07 (Plain GoodNames isAbs_toStr comps_toStr_cons walk_skip body_last toStr_ne)
open TrashVerif.Proofs.C17 (isDirAt_iff)
open TrashVerif.Proofs.C16IndepHome (walk_nil toStr_ne_nil)
open TrashVerif.Proofs.C16Indep (putAll_step run_noFaults_fs)
open TrashVerif.Proofs.C07CmdCore (walk_plain_append)
open TrashVerif.Proofs.C18Cmd TrashVerif.Proofs.C18CmdThrough

/-! ### the second argument runs from the state the first one leaves -/

/-- Fault-free: when `trash-put a1` trashes `a1`, then `trash-put a1 a2` reports that for `a1` and, for
    `a2`, what `trash-put a2` reports from the file system the first run leaves (with the scripted
    input `st1` the first argument left): same outcome, abort and exit status, final file system. -/
theorem runPut_then (c : PutCfg) (a1 a2 : Bytes) (st : PutSt) (fs : FS) (d1 n1 : Bytes)
    (h : (run noFaults (runPut c [a1] st) { fs := fs }).1.outcomes = [(a1, .trashed d1 n1)]) :
    ∃ st1,
      (run noFaults (runPut c [a1, a2] st) { fs := fs }).1.outcomes =
        (a1, .trashed d1 n1) ::
          (run noFaults (runPut c [a2] st1) { fs := (run noFaults (runPut c [a1] st) { fs := fs }).2.fs }).1.outcomes ∧
      (run noFaults (runPut c [a1, a2] st) { fs := fs }).1.crash =
        (run noFaults (runPut c [a2] st1) { fs := (run noFaults (runPut c [a1] st) { fs := fs }).2.fs }).1.crash ∧
      (run noFaults (runPut c [a1, a2] st) { fs := fs }).1.exit =
        (run noFaults (runPut c [a2] st1) { fs := (run noFaults (runPut c [a1] st) { fs := fs }).2.fs }).1.exit ∧
      (run noFaults (runPut c [a1, a2] st) { fs := fs }).2.fs =
        (run noFaults (runPut c [a2] st1) { fs := (run noFaults (runPut c [a1] st) { fs := fs }).2.fs }).2.fs := by
  obtain ⟨st1, h1⟩ := runPut_single_inv c a1 st { fs := fs } d1 n1 h
  refine ⟨st1, ?_⟩
  generalize (run noFaults (runPut c [a1] st) { fs := fs }).2 = s1 at h1 ⊢
  have hstep := putAll_step noFaults c a1 [a2] st st1 [] { fs := fs } s1 _ h1 (by intro e h; cases h)
  have e2 : run noFaults (runPut c [a1, a2] st) { fs := fs } = run noFaults (putAll c [a2] st1 [(a1, .trashed d1 n1)]) s1 := by
    show run noFaults (putAll c [a1, a2] st []) { fs := fs } = _
    rw [hstep]; rfl
  -- the accumulated outcome is carried along
  have key : ∀ s : RunState,
      (run noFaults (putAll c [a2] st1 [(a1, .trashed d1 n1)]) s).1.outcomes =
        (a1, .trashed d1 n1) :: (run noFaults (putAll c [a2] st1 []) s).1.outcomes ∧
      (run noFaults (putAll c [a2] st1 [(a1, .trashed d1 n1)]) s).1.crash = (run noFaults (putAll c [a2] st1 []) s).1.crash ∧
      (run noFaults (putAll c [a2] st1 [(a1, .trashed d1 n1)]) s).1.exit = (run noFaults (putAll c [a2] st1 []) s).1.exit ∧
      (run noFaults (putAll c [a2] st1 [(a1, .trashed d1 n1)]) s).2 = (run noFaults (putAll c [a2] st1 []) s).2 := by
    intro s
    rw [putAll, putAll, run_bind, run_bind]
    generalize run noFaults (trashSingle c a2 st1) s = R
    obtain ⟨⟨r, st2⟩, s2⟩ := R
    cases r with
    | error e => exact ⟨rfl, rfl, rfl, rfl⟩
    | ok o => cases o <;> exact ⟨rfl, rfl, rfl, rfl⟩
  -- and without faults only the file system matters
  obtain ⟨f1, f2⟩ := run_noFaults_fs (putAll c [a2] st1 []) s1 { fs := s1.fs } rfl
  obtain ⟨k1, k2, k3, k4⟩ := key s1
  have e3 : runPut c [a2] st1 = putAll c [a2] st1 [] := rfl
  rw [e2, e3, k1, k2, k3, k4, f1, f2]
  exact ⟨rfl, rfl, rfl, rfl⟩

/-! ### where the link leads, its final component followed -/

theorem walk_link_last (fs : FS) (fuel : Nat) (P : CPath) (n : Name) (t : Bytes)
    (hP : fs.isDirAt P = true) (hn : GoodNames [n]) (hl : fs.get (P ++ [n]) = some (.link t)) (ht : t ≠ []) :
    walk fs true (fuel + 1) P [n] = walk fs true fuel (if isAbs t = true then [] else P) (comps t ++ []) := by
  obtain ⟨m, tt, hg⟩ := isDirAt_iff.1 hP
  obtain ⟨h1, _, h3, h4, h5⟩ := hn n (by simp)
  rw [walk, hg]
  simp only
  rw [if_neg (by simp [h1, h3]), if_neg h4, if_neg (by unfold nameMax; omega)]
  simp only [hl]
  rw [if_pos (Or.inr trivial), if_neg ht]

/-- `stat("P/n")`: the directory the link names -/
theorem resolve_follow {fs : FS} {P : CPath} {n : Name} {D : CPath} (T : Through fs P n D) (cwd : CPath) :
    resolve fs cwd (toStr (P ++ [n])) true = .ok D := by
  have gn := T.gn
  obtain ⟨m, t, hroot⟩ := isDirAt_iff.1 (T.pp [] List.nil_prefix)
  obtain ⟨n0, rest0, e0⟩ : ∃ n0 rest0, P ++ [n] = n0 :: rest0 := List.exists_cons_of_ne_nil (by simp)
  have hc := comps_toStr_cons n0 rest0 (e0 ▸ gn)
  obtain ⟨w, x, hw, hx⟩ := body_last (q := n0 :: rest0) (by simp) (e0 ▸ gn)
  have hs : toStr (n0 :: rest0) = w ++ [x] := by rw [toStr_ne (by simp), hw]
  have h1 : walk fs true linkFuel [] ([] :: n0 :: rest0) = .ok D := by
    rw [walk_skip _ _ _ _ _ hroot, ← e0]
    have := walk_plain_append fs true linkFuel P [n] [] (by simpa using T.pp) gn.left
    rw [List.nil_append] at this
    rw [this]
    have hf : linkFuel = 39 + 1 := rfl
    rw [hf, walk_link_last fs 39 P n (toStr D) (T.pp P List.prefix_rfl) gn.right T.link (toStr_ne_nil D),
      isAbs_toStr, if_pos rfl, walk_comps_toStr fs true 39 D T.tp T.tn, walk_nil]
  rw [e0]
  unfold resolve
  rw [if_neg (by rw [hs]; simp), isAbs_toStr, hc]
  have htr : ¬ ((toStr (n0 :: rest0)).getLast? = some slash ∧ ¬ ((toStr (n0 :: rest0)).all (· = slash)) = true) := by
    rw [hs]; simp [hx]
  simp only [htr, decide_false, Bool.or_false, if_true, h1, if_false]

theorem slashOk_through {fs : FS} {P : CPath} {n : Name} {D : CPath} (T : Through fs P n D) (cwd : CPath) (k : Nat) :
    SlashOk fs cwd P n k := by
  obtain ⟨m, t, hD⟩ := isDirAt_iff.1 (T.tp D List.prefix_rfl)
  exact Proofs.C18CmdHome.slashOk_of_dir (c := { cwd := cwd, env := {}, uid := 0, dateStr := [] }) (resolve_follow T cwd) hD k

/-! ### the state the first argument leaves -/

/-- `fs1` is `fs` but for: the entry `src` (gone), whatever is at or below `X` (a directory that was
    not there), and the directories `K1`, `K2`, which keep kind and mode -/
structure After (fs fs1 : FS) (src X K1 K2 : CPath) : Prop where
  mounts : fs1.mounts = fs.mounts
  frame : ∀ q, ¬ src <+: q → ¬ X <+: q → q ≠ K1 → q ≠ K2 → fs1.get q = fs.get q
  kept1 : keptDir fs fs1 K1
  kept2 : keptDir fs fs1 K2
  gone : ∀ rel, fs1.get (src ++ rel) = none
  fresh : ∀ rel, fs.get (X ++ rel) = none
  dir1 : fs.isDirAt K1 = true
  dir2 : fs.isDirAt K2 = true

section after
variable {fs fs1 : FS} {src X K1 K2 : CPath} (Af : After fs fs1 src X K1 K2)
include Af

theorem After.notX {q : CPath} (h : (fs.get q).isSome = true) : ¬ X <+: q := by
  rintro ⟨rel, rfl⟩
  rw [Af.fresh] at h; cases h

theorem After.dir {q : CPath} (h : fs.isDirAt q = true) (hs : ¬ src <+: q) : fs1.isDirAt q = true := by
  obtain ⟨m, t, hg⟩ := isDirAt_iff.1 h
  by_cases h1 : q = K1
  · subst h1
    obtain ⟨t', ht'⟩ := Af.kept1 m t hg
    unfold isDirAt; rw [ht']; rfl
  · by_cases h2 : q = K2
    · subst h2
      obtain ⟨t', ht'⟩ := Af.kept2 m t hg
      unfold isDirAt; rw [ht']; rfl
    · unfold isDirAt
      rw [Af.frame q hs (Af.notX (by rw [hg]; rfl)) h1 h2, hg]; rfl

theorem After.plain {Q : CPath} (hp : Plain fs Q) (hs : ¬ src <+: Q) : Plain fs1 Q :=
  fun q hq => Af.dir (hp q hq) (fun h => hs (h.trans hq))

theorem After.nondir {q : CPath} {nd : Node} (hq : fs.get q = some nd) (hnd : nd.isDir = false) (hs : ¬ src <+: q) :
    fs1.get q = some nd := by
  have n1 : q ≠ K1 := by
    rintro rfl
    have := Af.dir1; unfold isDirAt at this; rw [hq] at this
    simp only [hnd] at this; cases this
  have n2 : q ≠ K2 := by
    rintro rfl
    have := Af.dir2; unfold isDirAt at this; rw [hq] at this
    simp only [hnd] at this; cases this
  rw [Af.frame q hs (Af.notX (by rw [hq]; rfl)) n1 n2, hq]

theorem After.absent {q : CPath} (hq : fs.get q = none) (hX : ¬ X <+: q) : fs1.get q = none := by
  by_cases hs : src <+: q
  · obtain ⟨rel, rfl⟩ := hs; exact Af.gone rel
  · have n1 : q ≠ K1 := by
      rintro rfl
      have := Af.dir1; unfold isDirAt at this; rw [hq] at this; cases this
    have n2 : q ≠ K2 := by
      rintro rfl
      have := Af.dir2; unfold isDirAt at this; rw [hq] at this; cases this
    rw [Af.frame q hs hX n1 n2, hq]

theorem After.world {c : PutCfg} {H : CPath} (W : HomeWorld c fs H) (hF : ¬ src <+: filesC H) (hI : ¬ src <+: infoC H) :
    HomeWorld c fs1 H :=
  { noTrashDir := W.noTrashDir, noForcedVolume := W.noForcedVolume, noPrompt := W.noPrompt, xdgUnset := W.xdgUnset
    home := W.home, homeNotRoot := W.homeNotRoot, homeNames := W.homeNames
    filesPlain := Af.plain W.filesPlain hF, infoPlain := Af.plain W.infoPlain hI
    rootMounted := by rw [isMount_congr Af.mounts]; exact W.rootMounted
    filesSameVolume := by rw [dev_congr Af.mounts, dev_congr Af.mounts]; exact W.filesSameVolume }

theorem After.arg {H P : CPath} {n : Name} {t : Bytes} (A : GoodArg fs H P n) (L : IsLink fs (P ++ [n]) t)
    (hs : ¬ src <+: P ++ [n]) : GoodArg fs1 H P n :=
  { names := A.names
    parentPlain := Af.plain A.parentPlain (fun h => hs (h.trans (List.prefix_append _ _)))
    present := by rw [Af.nondir L.node rfl hs]; rfl
    notMount := by rw [isMount_congr Af.mounts]; exact A.notMount
    sameVolume := by rw [dev_congr Af.mounts, dev_congr Af.mounts]; exact A.sameVolume
    apartInfo := A.apartInfo, apartFiles := A.apartFiles }

/-- a path that is not a directory is not on the way to `X = B/x` when `B` is reached through directories -/
theorem After.notX_below {B : CPath} {x : Name} (hX : X = B ++ [x]) (pB : Plain fs B) {L : CPath}
    (hL : (fs.get L).isSome = true) (hnd : fs.isDirAt L = false) (rel : CPath) : ¬ X <+: L ++ rel := by
  intro h
  rcases pfx_comparable h (List.prefix_append L rel) with h1 | h1
  · exact Af.notX hL h1
  · rw [hX, pfx_concat] at h1
    rcases h1 with h1 | h1
    · rw [h1, ← hX] at hL
      have := Af.fresh []
      rw [List.append_nil] at this
      rw [this] at hL; cases hL
    · rw [pB L h1] at hnd; cases hnd

theorem After.link {B : CPath} {x : Name} (hX : X = B ++ [x]) (pB : Plain fs B) {L : CPath} {t : Bytes}
    (Lk : IsLink fs L t) (hs : ¬ src <+: L) : IsLink fs1 L t :=
  { node := Af.nondir Lk.node rfl hs
    leaf := fun z rel => Af.absent (Lk.leaf z rel)
      (Af.notX_below hX pB (by rw [Lk.node]; rfl) (by unfold isDirAt; rw [Lk.node]; rfl) (z :: rel)) }

theorem After.through {P : CPath} {n : Name} {D : CPath} (T : Through fs P n D) (hs : ¬ src <+: P ++ [n])
    (hD : ¬ src <+: D) : Through fs1 P n D :=
  { linkNames := T.linkNames
    parentPlain := Af.plain T.pp (fun h => hs (h.trans (List.prefix_append _ _)))
    link := Af.nondir T.link rfl hs
    targetNames := T.targetNames
    targetPlain := Af.plain T.tp hD }

/-- a free name `Y/y` in an existing directory `Y ≠ B` is not at, below or above `X = B/x` -/
theorem After.slot_notX {B : CPath} {x : Name} (hX : X = B ++ [x]) (pB : Plain fs B) {Y : CPath} {y : Name}
    (hY : (fs.get Y).isSome = true) (hfreeY : fs.get (Y ++ [y]) = none) (hYB : Y ≠ B) (rel : CPath) :
    ¬ X <+: (Y ++ [y]) ++ rel := by
  have hne : X ≠ Y ++ [y] := by
    intro e
    rw [hX] at e
    exact hYB (List.append_inj' e rfl).1.symm
  intro h
  rcases pfx_comparable h (List.prefix_append (Y ++ [y]) rel) with h1 | h1
  · rw [pfx_concat] at h1
    rcases h1 with h1 | h1
    · exact hne h1
    · exact Af.notX hY h1
  · rw [hX, pfx_concat] at h1
    rcases h1 with h1 | h1
    · exact hne (hX.trans h1.symm)
    · have := pB _ h1
      unfold isDirAt at this
      rw [hfreeY] at this; cases this

end after

/-! ### `trash-put link/inside link/` -/

open TrashVerif.Proofs.C07 (dev_self dev_snoc dev_prefix)
open TrashVerif.Proofs.C07CmdCore (dev_fresh stem_base)

theorem put_through_link_then_link {c : PutCfg} {fs : FS} {H Qh Rh B D' P : CPath} {n e : Name} (C : HomeCfg c H)
    (W : OtherVolume fs H Qh Rh B) (hm : MountsOk fs) (S : FreshSite fs B (altName c.uid) [])
    (T : Through fs P n (B ++ D')) (A : Arg fs (B ++ D') e) (hon : dev fs (B ++ D') = B)
    (hu : GoodNames [uidName c.uid]) (hnoTop : fs.get (B ++ [b ".Trash"]) = none)
    (Wh : HomeWorld c fs H) (Al : GoodArg fs H P n) (Lk : IsLink fs (P ++ [n]) (toStr (B ++ D')))
    (hlen : n.length + 10 ≤ 255) (hfree : ∀ rel, fs.get (filesC H ++ [n] ++ rel) = none)
    (hfreeI : fs.get (infoC H ++ [n ++ trashinfoExt]) = none) (hinm : fs.isMount (infoC H) = false)
    (hs1 : ¬ ((B ++ D') ++ [e]) <+: P ++ [n]) (hs2 : ¬ ((B ++ D') ++ [e]) <+: filesC H)
    (hs3 : ¬ ((B ++ D') ++ [e]) <+: infoC H) (k : Nat) (st : PutSt) :
    let r := run noFaults (runPut c [toStr ((P ++ [n]) ++ [e]), spelled P n k] st) { fs := fs }
    let fs2 := r.2.fs
    r.1.outcomes = [(toStr ((P ++ [n]) ++ [e]), .trashed (toStr (B ++ [altName c.uid])) (e ++ trashinfoExt)),
                    (spelled P n k, .trashed (homeStr H) (n ++ trashinfoExt))] ∧
    r.1.crash = none ∧ r.1.exit = 0 ∧
    (∀ rel, fs2.get (filesOf (B ++ [altName c.uid]) ++ [e] ++ rel) = fs.get ((B ++ D') ++ [e] ++ rel)) ∧
    fs2.get (infoOf (B ++ [altName c.uid]) ++ [e ++ trashinfoExt]) =
      some (.file (formatTrashinfoWith (relLoc D' e) c.dateStr) 0o600 0) ∧
    fs2.get ((B ++ D') ++ [e]) = none ∧
    fs2.get (filesC H ++ [n]) = some (.link (toStr (B ++ D'))) ∧
    fs2.get (infoC H ++ [n ++ trashinfoExt]) = some (.file (formatTrashinfoWith (toStr (P ++ [n])) c.dateStr) 0o600 0) ∧
    fs2.get (P ++ [n]) = none ∧
    fs2.isDirAt (B ++ D') = true := by
  intro r fs2
  -- the first argument
  obtain ⟨o1, _, _, _, _, fs1', SC, Tr⟩ := put_through_link C W hm S T A hon hu hnoTop st
  have hapart : ¬ ((B ++ D') ++ [e]) <+: B := fun h => by have := h.length_le; simp at this; omega
  obtain ⟨_, _, _, _, whole, gone, info, frame, keptB, keptD⟩ :=
    Proofs.C07Cmd.first_use_final SC Tr S.fresh A.present hapart
  have hpar : FS.parent ((B ++ D') ++ [e]) = B ++ D' := by simp [FS.parent]
  rw [hpar] at frame keptD
  rw [stem_base] at whole
  generalize hfs1 : (run noFaults (runPut c [toStr ((P ++ [n]) ++ [e])] st) { fs := fs }).2.fs = fs1 at whole gone info frame keptB keptD
  have hmounts : fs1.mounts = fs.mounts := by rw [← hfs1]; exact C02.run_mounts noFaults _ { fs := fs }
  have Af : After fs fs1 ((B ++ D') ++ [e]) (B ++ [altName c.uid]) B (B ++ D') :=
    { mounts := hmounts, frame := frame, kept1 := keptB, kept2 := keptD, gone := gone
      fresh := fun rel => by
        have := S.fresh rel
        simpa using this
      dir1 := W.volPlain B List.prefix_rfl
      dir2 := A.parentPlain _ List.prefix_rfl }
  -- the second argument, from there
  obtain ⟨st1, q1, q2, q3, q4⟩ := runPut_then c (toStr ((P ++ [n]) ++ [e])) (spelled P n k) st fs _ _ o1
  rw [hfs1] at q1 q2 q3 q4
  have hD : ¬ ((B ++ D') ++ [e]) <+: B ++ D' := fun h => by have := h.length_le; simp at this; omega
  have W1 := Af.world Wh hs2 hs3
  have A1 := Af.arg Al Lk hs1
  have L1 := Af.link rfl W.volPlain Lk hs1
  have hk1 := slashOk_through (Af.through T hs1 hD) c.cwd k
  have hFB : filesC H ≠ B := by
    intro e
    have h1 := dev_self fs B W.volMount
    rw [← e, Wh.filesSameVolume] at h1
    have := (h1 ▸ dev_prefix fs (trashC H)).length_le
    simp [filesC] at this; omega
  have hIB : infoC H ≠ B := by
    intro e
    rw [e, W.volMount] at hinm; cases hinm
  have hF0 : fs.get (filesC H ++ [n]) = none := by simpa using hfree []
  have hfree1 : ∀ rel, fs1.get (filesC H ++ [n] ++ rel) = none := fun rel =>
    Af.absent (hfree rel) (Af.slot_notX rfl W.volPlain (isSome_of_isDirAt (Wh.filesPlain _ List.prefix_rfl)) hF0 hFB rel)
  have hfreeI1 : fs1.get (infoC H ++ [n ++ trashinfoExt]) = none := by
    have := Af.slot_notX rfl W.volPlain (isSome_of_isDirAt (Wh.infoPlain _ List.prefix_rfl)) hfreeI hIB []
    rw [List.append_nil] at this
    exact Af.absent hfreeI this
  obtain ⟨p1, p2, p3, l1, l2, l3, _⟩ := Proofs.C18CmdHome.put_link_home W1 A1 L1 hlen hfree1 hfreeI1 k hk1 st1
  obtain ⟨_, dv⟩ := Proofs.C18CmdHome.put_link_home_devices' W1 A1 L1 hlen hfree1 hfreeI1
    (by rw [isMount_congr hmounts]; exact Proofs.C18CmdHome.not_mount_of_absent hm hF0)
    (by rw [isMount_congr hmounts]; exact Proofs.C18CmdHome.not_mount_of_absent hm hfreeI)
    (by rw [isMount_congr hmounts]; exact hinm) k hk1 st1
  -- the home trash is not on the device `B`
  have hRh : Rh = [] := by
    cases hR : Rh with
    | nil => rfl
    | cons x R' =>
      exfalso
      have := W.homeSite.missing x R' hR R'
      rw [← hR, ← W.homeSplit] at this
      have hd := Wh.filesPlain (trashC H) (List.prefix_append _ _)
      unfold isDirAt at hd
      rw [this] at hd; cases hd
  have hPB : dev fs P ≠ B := by
    rw [Al.sameVolume, W.homeSplit, hRh, List.append_nil]
    exact W.homeElsewhere
  have onB : ∀ q, dev fs q = B →
      (run noFaults (runPut c [spelled P n k] st1) { fs := fs1 }).2.fs.get q = fs1.get q := by
    intro q hq
    apply dv q
    rw [dev_congr hmounts, dev_congr hmounts, hq]
    exact fun e => hPB e.symm
  have hBdev : dev fs B = B := dev_self fs B W.volMount
  have hr2 : fs2 = (run noFaults (runPut c [spelled P n k] st1) { fs := fs1 }).2.fs := q4
  refine ⟨by rw [q1, p1], by rw [q2, p2], by rw [q3, p3], fun rel => ?_, ?_, ?_, by rw [hr2]; exact l1, by rw [hr2]; exact l3,
    by rw [hr2]; exact l2, ?_⟩
  · rw [hr2, onB _ ?_, whole]
    have e1 : filesOf (B ++ [altName c.uid]) ++ [e] ++ rel = B ++ altName c.uid :: (b "files" :: e :: rel) := by
      simp [filesOf]
    rw [e1, dev_fresh hm.mountsExist S.fresh, hBdev]
  · rw [hr2, onB _ ?_, info]
    have e1 : infoOf (B ++ [altName c.uid]) ++ [e ++ trashinfoExt] = B ++ altName c.uid :: [b "info", e ++ trashinfoExt] := by
      simp [infoOf]
    rw [e1, dev_fresh hm.mountsExist S.fresh, hBdev]
  · rw [hr2, onB _ ((dev_snoc fs _ e A.notMount).trans hon)]
    simpa using gone []
  · unfold isDirAt
    rw [hr2, onB _ hon]
    exact Af.dir (A.parentPlain _ List.prefix_rfl) hD

end TrashVerif.Proofs.C18CmdSeq
