/-
  Proofs/C17SeqEx.lean — concrete two-argument runs under ONE fault for Props/C17Seq.lean (the world of
  Proofs/C16IndepHome.lean: HOME=/h with its trash directory, the files `/p/x` and `/p/y`, one volume),
  evaluated by the kernel through the twin `C16Eval.runPutS`.
-/
import TrashVerif.Props.C17SingleDefs
import TrashVerif.Proofs.C16SeqHome
import TrashVerif.Proofs.C16Eval
namespace TrashVerif.Proofs.C17SeqEx
open TrashVerif Prog FS C16Seq C16Indep SingleFault
open TrashVerif.Proofs.C16Eval
open TrashVerif.Proofs.C16IndepHome.Ex

def argsXY : List Bytes := [b "/p/x", b "/p/y"]

/-- as `cfgH`, with `--trash-dir /h/.local/share/Trash`: the home trash is the ONLY candidate -/
def cfgT : PutCfg := { cfgH with trashDir := some (homeStr H) }

/-- the run with the only candidate `--trash-dir` -/
def runT (φ : Oracle) := run φ (runPutS cfgT argsXY st0) { fs := fsH }
/-- the run in the everyday configuration (`HomeWorld`): home trash first, then the volume's trash directories -/
def runH (φ : Oracle) := run φ (runPutS cfgH argsXY st0) { fs := fsH }

/-- fault-free: 7 calls per argument (3 × mkdir -p, createExcl, write, close, rename) -/
theorem clean_runs : (runT noFaults).2.n = 14 ∧ (runH noFaults).2.n = 14 ∧ (runT noFaults).1.exit = 0 ∧
    (runT noFaults).2.trace.reverse.map (·.1.kind) =
      ["mkdir", "mkdir", "mkdir", "createExcl", "write", "close", "rename",
       "mkdir", "mkdir", "mkdir", "createExcl", "write", "close", "rename"] := by decide +kernel

/-- EACCES on the exclusive create of the FIRST argument's info file (call 3) -/
theorem first_create_faulted :
    (runT (faultAt 3 .EACCES)).1.outcomes =
      [(b "/p/x", .failedAll [.persistError .EACCES]), (b "/p/y", .trashed (homeStr H) (b "y.trashinfo"))] ∧
    (runT (faultAt 3 .EACCES)).1.crash = none ∧ (runT (faultAt 3 .EACCES)).1.exit = 74 ∧
    (runT (faultAt 3 .EACCES)).2.outs = [.stderr "cannot-trash" (b "/p/x")] ∧
    (runT (faultAt 3 .EACCES)).2.n = 11 ∧
    (runT (faultAt 3 .EACCES)).2.fs.get [b "p", b "x"] = some (.file [120] 0o644 0) ∧
    (runT (faultAt 3 .EACCES)).2.fs.get (filesC H ++ [b "x"]) = none ∧
    (runT (faultAt 3 .EACCES)).2.fs.get (infoC H ++ [b "x.trashinfo"]) = none ∧
    (runT (faultAt 3 .EACCES)).2.fs.get [b "p", b "y"] = none ∧
    (runT (faultAt 3 .EACCES)).2.fs.get (filesC H ++ [b "y"]) = some (.file [121] 0o644 0) ∧
    (runT (faultAt 3 .EACCES)).2.fs.get (infoC H ++ [b "y.trashinfo"]) =
      some (.file (b "[Trash Info]\nPath=p/y\nDeletionDate=D\n") 0o600 0) := by decide +kernel

/-- ENOSPC on the write of the SECOND argument's info file (call 11): the clean-up unlink runs (14 calls) -/
theorem second_write_faulted :
    (runT (faultAt 11 .ENOSPC)).1.outcomes =
      [(b "/p/x", .trashed (homeStr H) (b "x.trashinfo")), (b "/p/y", .failedAll [.persistError .ENOSPC])] ∧
    (runT (faultAt 11 .ENOSPC)).1.crash = none ∧ (runT (faultAt 11 .ENOSPC)).1.exit = 74 ∧
    (runT (faultAt 11 .ENOSPC)).2.outs = [.stderr "cannot-trash" (b "/p/y")] ∧
    (runT (faultAt 11 .ENOSPC)).2.n = 14 ∧
    (runT (faultAt 11 .ENOSPC)).2.trace.head?.map (·.1.kind) = some "unlink" ∧
    (runT (faultAt 11 .ENOSPC)).2.fs.get [b "p", b "y"] = some (.file [121] 0o644 0) ∧
    (runT (faultAt 11 .ENOSPC)).2.fs.get (filesC H ++ [b "y"]) = none ∧
    (runT (faultAt 11 .ENOSPC)).2.fs.get (infoC H ++ [b "y.trashinfo"]) = none ∧
    (runT (faultAt 11 .ENOSPC)).2.fs.get [b "p", b "x"] = none ∧
    (runT (faultAt 11 .ENOSPC)).2.fs.get (filesC H ++ [b "x"]) = some (.file [120] 0o644 0) ∧
    (runT (faultAt 11 .ENOSPC)).2.fs.get (infoC H ++ [b "x.trashinfo"]) =
      some (.file (b "[Trash Info]\nPath=p/x\nDeletionDate=D\n") 0o600 0) := by decide +kernel

/-- THE COUNTEREXAMPLE to "trashed under `files/<name>` of the HOME trash, or untouched", in the everyday
    configuration: the same fault (EACCES on call 3).  `trash-put` goes on to the NEXT candidate, creates
    `/.Trash-0` and trashes `/p/x` THERE; exit status 0, no diagnostic; nothing of `x` in the home trash. -/
theorem first_create_faulted_everyday :
    (runH (faultAt 3 .EACCES)).1.outcomes =
      [(b "/p/x", .trashed (b "/.Trash-0") (b "x.trashinfo")), (b "/p/y", .trashed (homeStr H) (b "y.trashinfo"))] ∧
    (runH (faultAt 3 .EACCES)).1.crash = none ∧ (runH (faultAt 3 .EACCES)).1.exit = 0 ∧
    (runH (faultAt 3 .EACCES)).2.outs = [] ∧ (runH (faultAt 3 .EACCES)).2.n = 18 ∧
    fsH.get [b ".Trash-0"] = none ∧
    (runH (faultAt 3 .EACCES)).2.fs.get [b "p", b "x"] = none ∧
    (runH (faultAt 3 .EACCES)).2.fs.get (filesC H ++ [b "x"]) = none ∧
    (runH (faultAt 3 .EACCES)).2.fs.get (infoC H ++ [b "x.trashinfo"]) = none ∧
    (runH (faultAt 3 .EACCES)).2.fs.get [b ".Trash-0", b "files", b "x"] = some (.file [120] 0o644 0) ∧
    (runH (faultAt 3 .EACCES)).2.fs.get [b ".Trash-0", b "info", b "x.trashinfo"] =
      some (.file (b "[Trash Info]\nPath=p/x\nDeletionDate=D\n") 0o600 0) ∧
    (runH (faultAt 3 .EACCES)).2.fs.get (filesC H ++ [b "y"]) = some (.file [121] 0o644 0) := by decide +kernel

end TrashVerif.Proofs.C17SeqEx
