/-
  Proofs/C15LoopRerun.lean — re-running a killed trash-empty completes the purge
  (`empty_rerun_completes` of Props/C15Loop.lean).
-/
import TrashVerif.Proofs.C15Loop
namespace TrashVerif.Proofs.C15Loop
open TrashVerif Prog FS PutCore PutLemmas C04 C11 C09Hist C10Loop C19Cmd C15Loop
open TrashVerif.Proofs.C09Hist (GeoI)
open TrashVerif.Proofs.C15 (G nothing_below)
open TrashVerif.Proofs.C10Loop

/-! ### what the re-run uses of a crash state -/

structure Mid (fs s : FS) (I F : CPath) (sel : List Bytes) : Prop where
  sub : Sub fs s
  within : Within I F fs s
  frame : ∀ q, q ≠ I → q ≠ F → (∀ n ∈ sel, ¬ EP I F n q) → s.get q = fs.get q
  infoLast : ∀ n, isTrashinfoName n = true → InfoLast fs s I F n

theorem mid_of_prefix {I F : CPath} (g : GeoI I F) {fs s : FS} {sel : List Bytes}
    (hsel : ∀ d ∈ sel, isTrashinfoName d = true) (h : PrefixState fs I F sel s) (sub : Sub fs s) :
    Mid fs s I F sel := by
  have hframe : ∀ q, q ≠ I → q ≠ F → (∀ n ∈ sel, ¬ EP I F n q) → s.get q = fs.get q := by
    intro q hI hF hq
    obtain ⟨done, s0, P, h⟩ := h
    rcases h with ⟨e, rfl⟩ | ⟨cur, later, e, hx, _, _⟩
    · exact P.frame q hI hF (all_of_not_ep fun n hn => hq n (by rw [e]; exact hn))
    · obtain ⟨st, _⟩ := purge_state g noFaults cur hx
      rw [st.frame q (hq cur (by rw [e]; simp)) hI hF]
      exact P.frame q hI hF (all_of_not_ep fun n hn => hq n (by rw [e]; exact List.mem_append_left _ hn))
  have hdm : (keptDir fs s I ∧ keptDir fs s F) ∧ s.mounts = fs.mounts := by
    obtain ⟨done, s0, P, h⟩ := h
    rcases h with ⟨_, rfl⟩ | ⟨cur, later, _, hx, _, _⟩
    · exact ⟨P.dirs, P.mounts⟩
    · obtain ⟨st, _⟩ := purge_state g noFaults cur hx
      exact ⟨⟨keptDir_trans P.dirs.1 (keptDir_of_touch st.touchI), keptDir_trans P.dirs.2 (keptDir_of_touch st.touchF)⟩,
        st.mounts.trans P.mounts⟩
  refine ⟨sub, ⟨hdm.2, fun q hI hF hsI hsF => hframe q hI hF fun n _ hep => ?_, hdm.1⟩, hframe,
    prefix_infoLast g hsel h⟩
  rcases hep.su with e | e
  · exact hsI (su_iff.2 e)
  · exact hsF (su_iff.2 e)

theorem gone_of_root {P : CPath} {s : FS} (hG : G P s) (h : s.get P = none) : ∀ q, P <+: q → s.get q = none := by
  intro q hq
  by_cases e : q = P
  · rw [e]; exact h
  · exact nothing_below hG.2.1 (List.prefix_refl P) (by simp [isDirAt, h])
      ⟨hq, Nat.lt_of_le_of_ne hq.length_le fun hl => e (hq.eq_of_length hl).symm⟩

theorem shr_file {fs s : FS} (h : Shr fs s) {q : CPath} {d : Bytes} {m t : Nat} (hs : s.get q = some (.file d m t)) :
    fs.get q = some (.file d m t) := by
  rcases h q with h | h
  · rw [hs] at h; cases h
  · rw [hs] at h
    rcases hf : fs.get q with _ | (_ | _ | _) <;> rw [hf] at h <;> simp [touch] at h
    obtain ⟨rfl, rfl, rfl⟩ := h
    rfl

theorem shr_notLink {fs s : FS} (h : Shr fs s) {q : CPath} (hf : fs.isLinkAt q = false) : s.isLinkAt q = false := by
  rcases h q with h | h
  · simp [isLinkAt, h]
  · unfold isLinkAt at hf ⊢
    rcases hs : s.get q with _ | (_ | _ | _) <;> rcases hq : fs.get q with _ | (_ | _ | _) <;>
      simp_all [touch, Node.isLink]

section mid
variable {fs s : FS} {cwd : CPath} {t : Bytes} {I F : CPath} {names sel : List Bytes}

theorem setting_mid (S : Setting fs cwd t I F names) (M : Mid fs s I F sel) {names' : List Bytes}
    (hnd : names'.Nodup) (hsub : ∀ m ∈ names', m ∈ names) : Setting s cwd t I F names' := by
  have hwf := M.sub.wf S.wf
  exact ⟨⟨keptDir_isDir M.within.dirs.1 S.inv.infoDir, keptDir_isDir M.within.dirs.2 S.inv.filesDir, S.inv.apartIF, S.inv.apartFI⟩,
    hwf, hnd, fun m hm => S.isInfo m (hsub m hm), fun m hm => shr_notLink M.sub.shr (S.notLink m (hsub m hm)),
    fun m hm => (treeOk_iff hwf).2 (M.sub.tree _ ((treeOk_iff S.wf).1 (S.infoTree m (hsub m hm)))),
    fun m hm => (treeOk_iff hwf).2 (M.sub.tree _ ((treeOk_iff S.wf).1 (S.payTree m (hsub m hm)))),
    fun fs' hW m hm => S.resolves fs' (within_trans M.within hW) m (hsub m hm)⟩

/-- an entry whose info file was there and is gone is gone whole -/
theorem entry_gone_of_info_gone (S : Setting fs cwd t I F names) (M : Mid fs s I F sel) {m : Bytes} (hm : m ∈ names)
    (h1 : s.get (I ++ [m]) = none) (h2 : (fs.get (I ++ [m])).isSome = true) : ∀ q, EP I F m q → s.get q = none := by
  obtain ⟨hGi, hGp⟩ := setting_G S hm
  have hp : s.get (F ++ [stemOf m]) = none := by
    cases hg : s.get (F ++ [stemOf m]) with
    | none => rfl
    | some nd =>
      have := M.infoLast m (S.isInfo m hm) (by rw [hg]; rfl)
      rw [h1] at this
      rw [← this] at h2
      cases h2
  intro q hq
  rcases hq with hq | hq
  · exact gone_of_root (M.sub.tree _ hGi) h1 q hq
  · exact gone_of_root (M.sub.tree _ hGp) hp q hq

/-- the text the readers see of an info file that was changed: none -/
theorem contents_changed (S : Setting fs cwd t I F names) (M : Mid fs s I F sel) {m : Bytes} (hm : m ∈ names)
    (hne : s.get (I ++ [m]) ≠ fs.get (I ++ [m])) : contentsOf s cwd (infoStr t m) = none := by
  rw [contentsOf_info S M.within hm (shr_notLink M.sub.shr (S.notLink m hm))]
  rcases hg : s.get (I ++ [m]) with _ | (_ | _ | _)
  · rfl
  · exact absurd (hg.trans (shr_file M.sub.shr hg).symm) hne
  · rfl
  · rfl

/-- an info file that was a regular file is the same or gone -/
theorem file_same_or_gone (M : Mid fs s I F sel) {q : CPath} {d : Bytes} {m t' : Nat}
    (hf : fs.get q = some (.file d m t')) : s.get q = fs.get q ∨ s.get q = none := by
  rcases M.sub.shr q with h | h
  · exact Or.inr h
  · left
    rw [hf] at h ⊢
    rcases hs : s.get q with _ | (_ | _ | _) <;> rw [hs] at h <;> simp [touch] at h
    obtain ⟨rfl, rfl, rfl⟩ := h
    rfl

end mid

theorem keptDir_both {fs a c : FS} {q : CPath} (hd : fs.isDirAt q = true) (ka : keptDir fs a q) (kc : keptDir fs c q) :
    keptDir a c q := by
  intro m t ha
  obtain ⟨m0, t0, hf⟩ := isDirAt_get hd
  obtain ⟨t1, h1⟩ := ka m0 t0 hf
  rw [ha] at h1
  cases h1
  exact kc m t0 hf

theorem ep_cases {I F : CPath} {m : Bytes} {q : CPath} (h : EP I F m q) :
    (∃ rel, q = I ++ [m] ++ rel) ∨ ∃ rel, q = F ++ [stemOf m] ++ rel := by
  rcases h with ⟨rel, e⟩ | ⟨rel, e⟩
  · exact Or.inl ⟨rel, e.symm⟩
  · exact Or.inr ⟨rel, e.symm⟩

theorem purged_gone {I F : CPath} {fs fs' : FS} {D : List Bytes} (P : PurgedExactly fs fs' I F D) {m : Bytes} (hm : m ∈ D)
    {q : CPath} (hq : EP I F m q) : fs'.get q = none := by
  rcases ep_cases hq with ⟨rel, rfl⟩ | ⟨rel, rfl⟩
  · exact P.infoGone m hm rel
  · exact P.payloadGone m hm rel

/-- The comparison behind the re-run theorems.  `selF` / `selS`: the verdict of the command on a
    listed name, evaluated on the initial state / on the crash state; `r0` / `r`: the state the
    uninterrupted run / the re-run (over `names'`) ends in. -/
theorem rerun_compare {fs s : FS} {cwd : CPath} {t : Bytes} {I F : CPath} {names names' : List Bytes}
    (S : Setting fs cwd t I F names) (selF selS : Bytes → Bool) (M : Mid fs s I F (names.filter selF))
    (hsub : ∀ m ∈ names', m ∈ names)
    (hcov : ∀ m ∈ names, m ∉ names' → (fs.get (I ++ [m])).isSome = true ∧ s.get (I ++ [m]) = none)
    (p1 : ∀ m ∈ names, s.get (I ++ [m]) = fs.get (I ++ [m]) → selS m = selF m)
    (p2 : ∀ m ∈ names, selF m = true → selS m = false → s.get (I ++ [m]) ≠ fs.get (I ++ [m]) →
      s.get (I ++ [m]) = none ∧ (fs.get (I ++ [m])).isSome = true)
    {r r0 : FS} (P' : PurgedExactly s r I F (names'.filter selS)) (P0 : PurgedExactly fs r0 I F (names.filter selF)) :
    (∀ q, q ≠ I → q ≠ F → r.get q = r0.get q) ∧ keptDir r0 r I ∧ keptDir r0 r F ∧ r.mounts = r0.mounts := by
  have g := setting_geo S
  have hselN : ∀ d ∈ names.filter selF, isTrashinfoName d = true := fun d hd => S.isInfo d (List.mem_filter.1 hd).1
  refine ⟨fun q hI hF => ?_, keptDir_both S.inv.infoDir P0.dirs.1 (keptDir_trans M.within.dirs.1 P'.dirs.1),
    keptDir_both S.inv.filesDir P0.dirs.2 (keptDir_trans M.within.dirs.2 P'.dirs.2),
    P'.mounts.trans (M.sub.mounts.trans P0.mounts.symm)⟩
  by_cases hex : ∃ m ∈ names, EP I F m q
  · obtain ⟨m, hm, hq⟩ := hex
    have hmi := S.isInfo m hm
    have hdis : ∀ n ∈ names, n ≠ m → ¬ EP I F n q := fun n hn hne h => EP.disjoint g (S.isInfo n hn) hmi hne h hq
    have hinfo : EP I F m (I ++ [m]) := by have := EP.info I F m []; rwa [List.append_nil] at this
    by_cases h0 : m ∈ names.filter selF
    · rw [purged_gone P0 h0 hq]
      by_cases h1 : m ∈ names'.filter selS
      · exact purged_gone P' h1 hq
      · rw [P'.frame q hI hF (all_of_not_ep fun n hn => by
          by_cases e : n = m
          · exact absurd (e ▸ hn) h1
          · exact hdis n (hsub n (List.mem_filter.1 hn).1) e)]
        have hfd : selF m = true := (List.mem_filter.1 h0).2
        have key : s.get (I ++ [m]) = none ∧ (fs.get (I ++ [m])).isSome = true := by
          by_cases hmn : m ∈ names'
          · have hsd : selS m = false := by
              cases h : selS m with
              | false => rfl
              | true => exact absurd (List.mem_filter.2 ⟨hmn, h⟩) h1
            have hne : s.get (I ++ [m]) ≠ fs.get (I ++ [m]) := fun e => by
              have := p1 m hm e
              rw [hsd, hfd] at this
              cases this
            exact p2 m hm hfd hsd hne
          · exact ⟨(hcov m hm hmn).2, (hcov m hm hmn).1⟩
        exact entry_gone_of_info_gone S M hm key.1 key.2 q hq
    · have hothers : ∀ n ∈ names.filter selF, ¬ EP I F n q := fun n hn =>
        hdis n (List.mem_filter.1 hn).1 (fun e => h0 (e ▸ hn))
      have hint : ∀ q', EP I F m q' → s.get q' = fs.get q' := fun q' hq' =>
        M.frame q' (EP.ne_I g hq') (EP.ne_F g hq') fun n hn hep =>
          EP.disjoint g (hselN n hn) hmi (fun e => h0 (e ▸ hn)) hep hq'
      have h1 : m ∉ names'.filter selS := by
        intro h1
        have := p1 m hm (hint _ hinfo)
        rw [(List.mem_filter.1 h1).2] at this
        exact h0 (List.mem_filter.2 ⟨hm, this.symm⟩)
      rw [P0.frame q hI hF (all_of_not_ep hothers), ← hint q hq]
      exact P'.frame q hI hF (all_of_not_ep fun n hn => by
        by_cases e : n = m
        · exact absurd (e ▸ hn) h1
        · exact hdis n (hsub n (List.mem_filter.1 hn).1) e)
  · have hno : ∀ n ∈ names, ¬ EP I F n q := fun n hn h => hex ⟨n, hn, h⟩
    rw [P'.frame q hI hF (all_of_not_ep fun n hn => hno n (hsub n (List.mem_filter.1 hn).1)),
      M.frame q hI hF (fun n hn => hno n (List.mem_filter.1 hn).1),
      P0.frame q hI hF (all_of_not_ep fun n hn => hno n (List.mem_filter.1 hn).1)]

/-- the info file of a listed name that can be read is a regular file -/
theorem file_of_contents {fs : FS} {cwd : CPath} {t : Bytes} {I F : CPath} {names : List Bytes}
    (S : Setting fs cwd t I F names) {m : Bytes} (hm : m ∈ names) {text : Bytes}
    (h : contentsOf fs cwd (infoStr t m) = some text) : ∃ dt md tm, fs.get (I ++ [m]) = some (.file dt md tm) := by
  have hci := contentsOf_info S (within_refl I F fs) hm (S.notLink m hm)
  rw [h] at hci
  rcases hg : fs.get (I ++ [m]) with _ | (_ | _ | _)
  · rw [hg] at hci; cases hci
  · exact ⟨_, _, _, rfl⟩
  · rw [hg] at hci; cases hci
  · rw [hg] at hci; cases hci

theorem empty_rerun_completes (fs : FS) (cwd : CPath) (t : Bytes) (I F : CPath) (names : List Bytes) (o : EmptyOpts)
    (S : Setting fs cwd t I F names) (hdry : o.dryRun = false)
    (hnc : ∀ n ∈ names, ∀ c, okToDelete fs cwd o (infoStr t n) ≠ .crash c)
    (s : FS) (hs : s ∈ crashStates noFaults (emptyInfos cwd o (infoStrs t names)) fs)
    (names' : List Bytes) (hnd : names'.Nodup) (hsub : ∀ m ∈ names', m ∈ names)
    (hcov : ∀ m ∈ names, m ∉ names' → (fs.get (I ++ [m])).isSome = true ∧ s.get (I ++ [m]) = none) :
    (run noFaults (emptyInfos cwd o (infoStrs t names')) { fs := s }).1 = none ∧
    (∀ q, q ≠ I → q ≠ F →
      (run noFaults (emptyInfos cwd o (infoStrs t names')) { fs := s }).2.fs.get q =
        (run noFaults (emptyInfos cwd o (infoStrs t names)) { fs := fs }).2.fs.get q) ∧
    keptDir (run noFaults (emptyInfos cwd o (infoStrs t names)) { fs := fs }).2.fs
      (run noFaults (emptyInfos cwd o (infoStrs t names')) { fs := s }).2.fs I ∧
    keptDir (run noFaults (emptyInfos cwd o (infoStrs t names)) { fs := fs }).2.fs
      (run noFaults (emptyInfos cwd o (infoStrs t names')) { fs := s }).2.fs F ∧
    (run noFaults (emptyInfos cwd o (infoStrs t names')) { fs := s }).2.fs.mounts =
      (run noFaults (emptyInfos cwd o (infoStrs t names)) { fs := fs }).2.fs.mounts := by
  have g := setting_geo S
  have hselN : ∀ d ∈ emptySelected fs cwd o t names, isTrashinfoName d = true :=
    fun d hd => S.isInfo d (List.mem_filter.1 hd).1
  have PS := empty_loop_states_are_prefix_states fs cwd t I F names o S hdry s hs
  have sub : Sub fs s := all_crashStates (all_sub noFaults (iss_emptyInfos_any cwd o _) { fs := fs }) s hs
  have M := mid_of_prefix g hselN PS sub
  have S' := setting_mid S M hnd hsub
  have dec : ∀ m ∈ names, s.get (I ++ [m]) = fs.get (I ++ [m]) →
      okToDelete s cwd o (infoStr t m) = okToDelete fs cwd o (infoStr t m) :=
    fun m hm he => okToDelete_stable o S M.within hm he
  have chg : ∀ m ∈ names, s.get (I ++ [m]) ≠ fs.get (I ++ [m]) →
      okToDelete s cwd o (infoStr t m) = (match o.days with | none => Decision.delete | some _ => Decision.keep) := by
    intro m hm hne
    unfold okToDelete
    rw [contents_changed S M hm hne]
    cases o.days <;> rfl
  have hnc' : ∀ n ∈ names', ∀ c, okToDelete s cwd o (infoStr t n) ≠ .crash c := by
    intro n hn c
    by_cases he : s.get (I ++ [n]) = fs.get (I ++ [n])
    · rw [dec n (hsub n hn) he]; exact hnc n (hsub n hn) c
    · rw [chg n (hsub n hn) he]
      cases o.days <;> exact fun h => nomatch h
  obtain ⟨a, P'⟩ := emptyInfos_loop o hdry cwd t I F names' { fs := s } S' hnc'
  obtain ⟨_, P0⟩ := emptyInfos_loop o hdry cwd t I F names { fs := fs } S hnc
  refine ⟨a, rerun_compare S (fun n => decide (okToDelete fs cwd o (infoStr t n) = .delete))
    (fun n => decide (okToDelete s cwd o (infoStr t n) = .delete)) M hsub hcov (fun m hm he => by rw [dec m hm he]) ?_ P' P0⟩
  intro m hm hfd hsd hne
  have hfd : okToDelete fs cwd o (infoStr t m) = .delete := by simpa using hfd
  have hsd : okToDelete s cwd o (infoStr t m) ≠ .delete := by simpa using hsd
  have hc := chg m hm hne
  cases hdays : o.days with
  | none => rw [hdays] at hc; exact absurd hc hsd
  | some d =>
    have hfile : ∃ dt md tm, fs.get (I ++ [m]) = some (.file dt md tm) := by
      unfold okToDelete at hfd
      rw [hdays] at hfd
      simp only [] at hfd
      cases hct : contentsOf fs cwd (infoStr t m) with
      | none => rw [hct] at hfd; cases hfd
      | some text => exact file_of_contents S hm hct
    obtain ⟨dt, md, tm, hfile⟩ := hfile
    rcases file_same_or_gone M hfile with e | e
    · exact absurd e hne
    · exact ⟨e, by rw [hfile]; rfl⟩

theorem rm_rerun_completes (fs : FS) (cwd : CPath) (t : Bytes) (I F : CPath) (names : List Bytes)
    (pattern volume : Bytes) (S : Setting fs cwd t I F names) (hp : pattern ≠ [])
    (s : FS) (hs : s ∈ crashStates noFaults (rmInfos cwd pattern volume (infoStrs t names)) fs)
    (names' : List Bytes) (hnd : names'.Nodup) (hsub : ∀ m ∈ names', m ∈ names)
    (hcov : ∀ m ∈ names, m ∉ names' → (fs.get (I ++ [m])).isSome = true ∧ s.get (I ++ [m]) = none) :
    (run noFaults (rmInfos cwd pattern volume (infoStrs t names')) { fs := s }).1 = none ∧
    (∀ q, q ≠ I → q ≠ F →
      (run noFaults (rmInfos cwd pattern volume (infoStrs t names')) { fs := s }).2.fs.get q =
        (run noFaults (rmInfos cwd pattern volume (infoStrs t names)) { fs := fs }).2.fs.get q) ∧
    keptDir (run noFaults (rmInfos cwd pattern volume (infoStrs t names)) { fs := fs }).2.fs
      (run noFaults (rmInfos cwd pattern volume (infoStrs t names')) { fs := s }).2.fs I ∧
    keptDir (run noFaults (rmInfos cwd pattern volume (infoStrs t names)) { fs := fs }).2.fs
      (run noFaults (rmInfos cwd pattern volume (infoStrs t names')) { fs := s }).2.fs F ∧
    (run noFaults (rmInfos cwd pattern volume (infoStrs t names')) { fs := s }).2.fs.mounts =
      (run noFaults (rmInfos cwd pattern volume (infoStrs t names)) { fs := fs }).2.fs.mounts := by
  have g := setting_geo S
  have hselN : ∀ d ∈ rmSelected fs cwd pattern volume t names, isTrashinfoName d = true :=
    fun d hd => S.isInfo d (List.mem_filter.1 hd).1
  have PS := rm_loop_states_are_prefix_states fs cwd t I F names pattern volume S s hs
  have sub : Sub fs s := all_crashStates (all_sub noFaults (iss_rmInfos_any cwd pattern volume _) { fs := fs }) s hs
  have M := mid_of_prefix g hselN PS sub
  have S' := setting_mid S M hnd hsub
  obtain ⟨a, P', _⟩ := rmInfos_loop pattern volume hp cwd t I F names' { fs := s } S'
  obtain ⟨_, P0, _⟩ := rmInfos_loop pattern volume hp cwd t I F names { fs := fs } S
  refine ⟨a, rerun_compare S (fun n => rmSelects fs cwd pattern volume (infoStr t n))
    (fun n => rmSelects s cwd pattern volume (infoStr t n)) M hsub hcov
    (fun m hm he => (rmSelects_stable pattern volume S M.within hm he).1) ?_ P' P0⟩
  intro m hm hfd _ hne
  have hfile : ∃ dt md tm, fs.get (I ++ [m]) = some (.file dt md tm) := by
    simp only [rmSelects] at hfd
    cases hct : contentsOf fs cwd (infoStr t m) with
    | none => rw [hct] at hfd; cases hfd
    | some text => exact file_of_contents S hm hct
  obtain ⟨dt, md, tm, hfile⟩ := hfile
  rcases file_same_or_gone M hfile with e | e
  · exact absurd e hne
  · exact ⟨e, by rw [hfile]; rfl⟩

/-- the names a new scan of `info/` finds in a crash state, when `names` is what the scan of the
    initial state found: fewer, and a name is missing only when its info file is gone -/
theorem rescan_names {fs s : FS} {I : CPath} (hw : DomWf fs) (hw' : DomWf s) (hshr : Shr fs s) :
    (∀ m ∈ (infoNames s I).filter isTrashinfoName, m ∈ (infoNames fs I).filter isTrashinfoName) ∧
    (∀ m ∈ (infoNames fs I).filter isTrashinfoName, m ∉ (infoNames s I).filter isTrashinfoName →
      (fs.get (I ++ [m])).isSome = true ∧ s.get (I ++ [m]) = none) := by
  constructor
  · intro m hm
    obtain ⟨h1, h2⟩ := List.mem_filter.1 hm
    exact List.mem_filter.2 ⟨(Proofs.C09Hist.mem_infoNames hw m).2 (hshr.isSome ((Proofs.C09Hist.mem_infoNames hw' m).1 h1)), h2⟩
  · intro m hm hnot
    obtain ⟨h1, h2⟩ := List.mem_filter.1 hm
    refine ⟨(Proofs.C09Hist.mem_infoNames hw m).1 h1, ?_⟩
    cases hg : s.get (I ++ [m]) with
    | none => rfl
    | some nd =>
      exact absurd (List.mem_filter.2 ⟨(Proofs.C09Hist.mem_infoNames hw' m).2 (by show (s.get (I ++ [m])).isSome = true; rw [hg]; rfl), h2⟩) hnot

theorem empty_rerun_rescanned (fs : FS) (cwd : CPath) (t : Bytes) (I F : CPath) (o : EmptyOpts)
    (S : Setting fs cwd t I F ((infoNames fs I).filter isTrashinfoName)) (hdry : o.dryRun = false)
    (hnc : ∀ n ∈ (infoNames fs I).filter isTrashinfoName, ∀ c, okToDelete fs cwd o (infoStr t n) ≠ .crash c)
    (s : FS) (hs : s ∈ crashStates noFaults (emptyInfos cwd o (infoStrs t ((infoNames fs I).filter isTrashinfoName))) fs) :
    (run noFaults (emptyInfos cwd o (infoStrs t ((infoNames s I).filter isTrashinfoName))) { fs := s }).1 = none ∧
    (∀ q, q ≠ I → q ≠ F →
      (run noFaults (emptyInfos cwd o (infoStrs t ((infoNames s I).filter isTrashinfoName))) { fs := s }).2.fs.get q =
        (run noFaults (emptyInfos cwd o (infoStrs t ((infoNames fs I).filter isTrashinfoName))) { fs := fs }).2.fs.get q) := by
  have sub : Sub fs s := all_crashStates (all_sub noFaults (iss_emptyInfos_any cwd o _) { fs := fs }) s hs
  obtain ⟨h1, h2⟩ := rescan_names (I := I) S.wf (sub.wf S.wf) sub.shr
  obtain ⟨a, c, _⟩ := empty_rerun_completes fs cwd t I F _ o S hdry hnc s hs _
    ((Proofs.C09Hist.nodup_infoNames s I).filter _) h1 h2
  exact ⟨a, c⟩

theorem rm_rerun_rescanned (fs : FS) (cwd : CPath) (t : Bytes) (I F : CPath) (pattern volume : Bytes)
    (S : Setting fs cwd t I F ((infoNames fs I).filter isTrashinfoName)) (hp : pattern ≠ [])
    (s : FS) (hs : s ∈ crashStates noFaults (rmInfos cwd pattern volume (infoStrs t ((infoNames fs I).filter isTrashinfoName))) fs) :
    (run noFaults (rmInfos cwd pattern volume (infoStrs t ((infoNames s I).filter isTrashinfoName))) { fs := s }).1 = none ∧
    (∀ q, q ≠ I → q ≠ F →
      (run noFaults (rmInfos cwd pattern volume (infoStrs t ((infoNames s I).filter isTrashinfoName))) { fs := s }).2.fs.get q =
        (run noFaults (rmInfos cwd pattern volume (infoStrs t ((infoNames fs I).filter isTrashinfoName))) { fs := fs }).2.fs.get q) := by
  have sub : Sub fs s := all_crashStates (all_sub noFaults (iss_rmInfos_any cwd pattern volume _) { fs := fs }) s hs
  obtain ⟨h1, h2⟩ := rescan_names (I := I) S.wf (sub.wf S.wf) sub.shr
  obtain ⟨a, c, _⟩ := rm_rerun_completes fs cwd t I F _ pattern volume S hp s hs _
    ((Proofs.C09Hist.nodup_infoNames s I).filter _) h1 h2
  exact ⟨a, c⟩

end TrashVerif.Proofs.C15Loop
