/-
  Proofs/C06.lean — proofs of the statements of Props/C06.lean.
-/
import TrashVerif.Proofs.C15
import TrashVerif.Proofs.C16Eval
import TrashVerif.Proofs.C02CmdEval
namespace TrashVerif.Proofs.C06
open TrashVerif Prog FS PutLemmas C04 C11

/-! ### refusal -/

theorem restore_refuses_existing (φ : Oracle) (cwd : CPath) (e : Entry) (s : RunState)
    (h : pLexists s.fs cwd e.loc = true) :
    let r := run φ (restoreOne cwd false e) s
    r.1 = .error .EEXIST ∧ r.2.trace = s.trace ∧ r.2.fs = s.fs := by
  unfold restoreOne
  rw [run_read_bind, if_pos ⟨by simp, h⟩]
  exact ⟨rfl, rfl, rfl⟩

theorem restore_stops_at_refusal (φ : Oracle) (cwd : CPath) (e : Entry) (rest : List Entry) (s : RunState)
    (h : pLexists s.fs cwd e.loc = true) :
    let r := run φ (restoreMany cwd false (e :: rest)) s
    r.1 = .error .EEXIST ∧ r.2.trace = s.trace ∧ r.2.fs = s.fs := by
  obtain ⟨h1, h2, h3⟩ := restore_refuses_existing φ cwd e s h
  unfold restoreMany
  rw [run_bind, h1]
  exact ⟨rfl, h2, h3⟩

/-! ### which outputs a program can emit -/

/-- every output `p` can emit satisfies `P` -/
def Emits {α} (P : Out → Prop) : Prog α → Prop
  | .ret _ => True
  | .get k => ∀ fs, Emits P (k fs)
  | .call _ k => ∀ r, Emits P (k r)
  | .emit o k => P o ∧ Emits P k

section emits
variable {P : Out → Prop}

theorem Emits.bind {α β} {p : Prog α} {f : α → Prog β} (hp : Emits P p) (hf : ∀ a, Emits P (f a)) :
    Emits P (p >>= f) := by
  show Emits P (Prog.bind p f)
  induction p with
  | ret a => exact hf a
  | get k ih => exact fun fs => ih fs (hp fs)
  | emit o k ih => exact ⟨hp.1, ih hp.2⟩
  | call c k ih => exact fun r => ih r (hp r)

theorem Emits.pure {α} (a : α) : Emits P (pure a : Prog α) := trivial
theorem Emits.sys (c : Call) : Emits P (sys c) := fun _ => trivial
theorem Emits.say {o : Out} (h : P o) : Emits P (say o) := ⟨h, trivial⟩
theorem Emits.read_bind {β} {f : FS → Prog β} (h : ∀ fs, Emits P (f fs)) : Emits P (read >>= f) := h

theorem Emits.sound {α} (φ : Oracle) (p : Prog α) : ∀ s : RunState, Emits P p →
    ∀ o ∈ (run φ p s).2.outs, o ∈ s.outs ∨ P o := by
  induction p with
  | ret a => intro s _ o h; exact Or.inl h
  | get k ih => intro s hp; simp only [run]; exact ih _ s (hp _)
  | emit o' k ih =>
    intro s hp o h
    simp only [run] at h
    rcases ih { s with outs := o' :: s.outs } hp.2 o h with h | h
    · rcases List.mem_cons.1 h with e | e
      · right; rw [e]; exact hp.1
      · exact Or.inl e
    · exact Or.inr h
  | call c k ih =>
    intro s hp o h
    simp only [run] at h
    split at h
    · have := ih _ _ (hp _) o h; exact this
    · have := ih _ _ (hp _) o h; exact this

/-! the routines below emit nothing -/

theorem em_makedirs : ∀ (fuel : Nat) (p : CPath) (mode : Nat), Emits P (makedirs fuel p mode) := by
  intro fuel
  induction fuel with
  | zero => intro p mode; unfold makedirs; exact Emits.sys _
  | succ fuel ih =>
    intro p mode
    unfold makedirs
    refine Emits.read_bind fun fs => ?_
    split
    · refine Emits.bind (ih _ _) fun r => ?_
      split
      · exact Emits.sys _
      · exact Emits.pure _
      · exact Emits.sys _
    · exact Emits.sys _

theorem em_mkdirStr (cwd : CPath) (name : Bytes) (mode : Nat) : Emits P (mkdirStr cwd name mode) := by
  unfold mkdirStr atPath
  refine Emits.read_bind fun fs => ?_
  split
  · exact Emits.sys _
  · exact Emits.pure _

theorem em_makedirsStr (cwd : CPath) : ∀ (fuel : Nat) (name : Bytes) (mode : Nat),
    Emits P (makedirsStr cwd fuel name mode) := by
  intro fuel
  induction fuel with
  | zero => intro name mode; unfold makedirsStr; exact em_mkdirStr _ _ _
  | succ fuel ih =>
    intro name mode
    unfold makedirsStr
    refine Emits.read_bind fun fs => ?_
    simp only []
    split
    · refine Emits.bind (ih _ _) fun r => ?_
      split
      · split
        · exact Emits.pure _
        · exact em_mkdirStr _ _ _
      · exact Emits.pure _
      · split
        · exact Emits.pure _
        · exact em_mkdirStr _ _ _
    · exact em_mkdirStr _ _ _

theorem em_copystat (src dst : CPath) : Emits P (copystat src dst) := by
  unfold copystat
  refine Emits.read_bind fun fs => ?_
  have main : ∀ m t, Emits P (sys (.utime dst t) >>= fun r =>
      match r with
      | .error e => (pure (.error e) : Prog Res)
      | .ok () => sys (.chmod dst m)) := by
    intro m t
    refine Emits.bind (Emits.sys _) fun r => ?_
    split
    · exact Emits.pure _
    · exact Emits.sys _
  split
  · exact main _ _
  · exact main _ _
  · exact Emits.pure _

theorem em_copy2 (src dst : CPath) : Emits P (copy2 src dst) := by
  unfold copy2
  refine Emits.read_bind fun fs => ?_
  split
  · refine Emits.bind (Emits.sys _) fun r => ?_
    split
    · exact Emits.pure _
    · refine Emits.bind ?_ fun w => ?_
      · split
        · exact Emits.pure _
        · exact Emits.sys _
      · split
        · exact Emits.pure _
        · exact em_copystat _ _
  · exact Emits.pure _
  · exact Emits.pure _
  · exact Emits.pure _

theorem em_copytree : ∀ (fuel : Nat) (src d : CPath), Emits P (copytree fuel src d) := by
  intro fuel
  induction fuel with
  | zero => intro src d; unfold copytree; exact Emits.pure _
  | succ fuel ih =>
    intro src d
    have hgo : ∀ (cs : List CPath) (failed : Bool), Emits P (copytree.go fuel d cs failed) := by
      intro cs
      induction cs with
      | nil => intro failed; unfold copytree.go; exact Emits.pure _
      | cons c cs ihc =>
        intro failed
        unfold copytree.go
        refine Emits.read_bind fun fs' => ?_
        refine Emits.bind ?_ fun r => ihc _
        split
        · exact Emits.sys _
        · exact ih _ _
        · exact em_copy2 _ _
        · exact Emits.pure _
    unfold copytree
    refine Emits.read_bind fun fs => ?_
    refine Emits.bind (em_makedirs _ _ _) fun r => ?_
    split
    · exact Emits.pure _
    · refine Emits.bind (hgo _ _) fun failed => ?_
      refine Emits.bind (em_copystat _ _) fun r2 => ?_
      split
      · exact Emits.pure _
      · exact Emits.pure _

theorem em_rmInner : ∀ (fuel : Nat) (p : CPath), Emits P (rmInner fuel p) := by
  intro fuel
  induction fuel with
  | zero => intro p; unfold rmInner; exact Emits.pure _
  | succ fuel ih =>
    intro p
    have hgo : ∀ cs : List CPath, Emits P (rmInner.go fuel cs) := by
      intro cs
      induction cs with
      | nil => unfold rmInner.go; exact Emits.pure _
      | cons c cs ihc =>
        unfold rmInner.go
        refine Emits.read_bind fun fs' => ?_
        split
        · refine Emits.bind (ih _) fun r => ?_
          split
          · exact Emits.pure _
          · refine Emits.bind (Emits.sys _) fun r => ?_
            split
            · exact Emits.pure _
            · exact ihc
        · refine Emits.bind (Emits.sys _) fun r => ?_
          split
          · exact Emits.pure _
          · exact ihc
    unfold rmInner
    exact Emits.read_bind fun fs => hgo _

theorem em_rmtree (p : CPath) : Emits P (rmtree p) := by
  unfold rmtree
  refine Emits.read_bind fun fs => ?_
  split
  · exact Emits.pure _
  · exact Emits.pure _
  · exact Emits.pure _
  · refine Emits.bind (em_rmInner _ _) fun r => ?_
    split
    · exact Emits.pure _
    · exact Emits.sys _

theorem em_removeFile (p : CPath) : Emits P (removeFile p) := by
  unfold removeFile
  refine Emits.read_bind fun fs => ?_
  split
  · refine Emits.bind (Emits.sys _) fun r => ?_
    split
    · exact Emits.pure _
    · exact em_rmtree p
  · exact Emits.pure _

theorem em_move (src dst : CPath) : Emits P (move src dst) := by
  unfold move
  refine Emits.read_bind fun fs => ?_
  simp only []
  generalize (if isdirC fs dst = true then (followC fs dst).getD dst ++ [src.getLast?.getD []] else dst) = realDst
  split
  · exact Emits.sys _
  · split
    · exact Emits.pure _
    · refine Emits.bind (Emits.sys _) fun r => ?_
      split
      · exact Emits.pure _
      · refine Emits.read_bind fun fs' => ?_
        split
        · refine Emits.bind (Emits.sys _) fun r => ?_
          split
          · exact Emits.pure _
          · exact Emits.sys _
        · split
          · exact Emits.pure _
          · refine Emits.bind (em_copytree _ _ _) fun r => ?_
            split
            · exact Emits.pure _
            · exact em_rmtree _
        · refine Emits.bind (em_copy2 _ _) fun r => ?_
          split
          · exact Emits.pure _
          · exact Emits.sys _
        · exact Emits.pure _

theorem em_restoreCore (src dst info : Except Errno CPath) : Emits P (restoreCore src dst info) := by
  unfold restoreCore
  split
  · refine Emits.bind (em_move _ _) fun r => ?_
    split
    · exact Emits.pure _
    · split
      · exact em_removeFile _
      · exact Emits.pure _
  · exact Emits.pure _
  · exact Emits.pure _

theorem em_restoreOne (cwd : CPath) (ow : Bool) (e : Entry) : Emits P (restoreOne cwd ow e) := by
  unfold restoreOne
  refine Emits.read_bind fun fs => ?_
  split
  · exact Emits.pure _
  · refine Emits.bind ?_ fun mk => ?_
    · split
      · exact Emits.pure _
      · split
        · exact Emits.pure _
        · split
          · exact em_makedirsStr _ _ _ _
          · exact em_makedirs _ _ _
    · split
      · exact Emits.pure _
      · refine Emits.read_bind fun fs2 => ?_
        split
        · exact Emits.pure _
        · refine Emits.bind ?_ fun cl => ?_
          · split
            · unfold atPath
              refine Emits.read_bind fun fs3 => ?_
              split
              · exact em_removeFile _
              · exact Emits.pure _
            · exact Emits.pure _
          · split
            · exact Emits.pure _
            · exact Emits.read_bind fun fs4 => em_restoreCore _ _ _

theorem em_restoreMany (cwd : CPath) (ow : Bool) : ∀ es : List Entry, Emits P (restoreMany cwd ow es) := by
  intro es
  induction es with
  | nil => exact Emits.pure _
  | cons e es ih =>
    unfold restoreMany
    refine Emits.bind (em_restoreOne cwd ow e) fun r => ?_
    split
    · exact Emits.pure _
    · exact ih

theorem em_emitAll : ∀ os : List Out, (∀ o ∈ os, P o) → Emits P (emitAll os) := by
  intro os
  induction os with
  | nil => intro _; exact Emits.pure _
  | cons o os ih =>
    intro h
    unfold emitAll
    exact Emits.bind (Emits.say (h o List.mem_cons_self)) fun _ => ih fun o' h' => h o' (List.mem_cons_of_mem _ h')

end emits

/-! ### the exit status after "die" -/

def IsStd (o : Out) : Prop := ∃ l, o = Out.stdout l

/-- only standard output was added -/
def StdOnly (s s' : RunState) : Prop := ∀ o ∈ s'.outs, o ∈ s.outs ∨ IsStd o

theorem StdOnly.trans {a c d : RunState} (h1 : StdOnly a c) (h2 : StdOnly c d) : StdOnly a d := by
  intro o ho
  rcases h2 o ho with h | h
  · exact h1 o h
  · exact Or.inr h

theorem stdOnly_of_emits {α} (φ : Oracle) {p : Prog α} (h : Emits IsStd p) (s : RunState) : StdOnly s (run φ p s).2 :=
  Emits.sound φ p s h

/-- exit status 1, or only standard output was added -/
def Q (s : RunState) (x : CmdResult × RunState) : Prop := x.1.exit = 1 ∨ StdOnly s x.2

theorem lines_std (offered : List Entry) :
    ∀ x ∈ ((List.range offered.length).filterMap fun i => (offered[i]?).map fun e => Out.stdout (restoreLine i e)),
      IsStd x := by
  intro x hx
  obtain ⟨i, _, hi⟩ := List.mem_filterMap.1 hx
  obtain ⟨e, _, rfl⟩ := Option.map_eq_some_iff.1 hi
  exact ⟨_, rfl⟩

theorem runRestore_Q (φ : Oracle) (c : ReadCfg) (o : RestoreOpts) (reply : Bytes) (s : RunState) :
    Q s (run φ (runRestore c o (some reply)) s) := by
  unfold runRestore
  rw [run_read_bind]
  simp only []
  generalize sortEntries _ _ = offered
  split
  · right
    exact stdOnly_of_emits φ (Emits.bind (Emits.say ⟨_, rfl⟩) fun _ => Emits.pure _) s
  · rw [run_bind]
    have h1 := stdOnly_of_emits φ (em_emitAll _ (lines_std offered)) s
    revert h1
    generalize (run φ (emitAll _) s).2 = s1
    intro h1
    split
    · right
      exact h1.trans (stdOnly_of_emits φ (Emits.bind (Emits.say ⟨_, rfl⟩) fun _ => Emits.pure _) s1)
    · split
      · left; rfl
      · left; rfl
      · rw [run_bind]
        split
        · right
          exact h1.trans (stdOnly_of_emits φ (em_restoreMany _ _ _) s1)
        · left; rfl

/-- `refusal_exit_nonzero` needs the "die" event not to be in the output already (the statement
    quantifies over every initial run state, including ones whose `outs` already contain it). -/
theorem refusal_exit_nonzero_partial (φ : Oracle) (c : ReadCfg) (o : RestoreOpts) (reply : Bytes) (s : RunState)
    (hfresh : Out.stderr "die" [] ∉ s.outs)
    (r : CmdResult) (s' : RunState) (hr : run φ (runRestore c o (some reply)) s = (r, s'))
    (hdie : Out.stderr "die" [] ∈ s'.outs) : r.exit = 1 := by
  have := runRestore_Q φ c o reply s
  rw [hr] at this
  rcases this with h | h
  · exact h
  · rcases h _ hdie with h | ⟨l, h⟩
    · exact absurd h hfresh
    · cases h

/-! ### --overwrite -/

/-- `overwrite_replaces_nondir` under the two hypotheses it needs: the payload does not lie below
    the destination (possible only in an ill-formed tree, where a non-directory has children), and
    the info path is not a directory containing the destination (`remove_file(info)` would
    `rmtree` it). -/
theorem overwrite_replaces_nondir_partial (fs : FS) (src dst info : CPath) (nsrc ndst : Node)
    (hs : fs.get src = some nsrc) (hd : fs.get dst = some ndst) (hsd : nsrc.isDir = false) (hdd : ndst.isDir = false)
    (hdl : ndst.isLink = false)
    (hnm : fs.isMount src = false ∧ fs.isMount dst = false) (hdev : fs.dev (FS.parent src) = fs.dev (FS.parent dst))
    (hpar : fs.isDirAt (FS.parent dst) = true) (hne : src ≠ dst) (hnr : dst ≠ [])
    (hname : ∀ n, dst.getLast? = some n → n.length ≤ 255) (_hinfo : info ≠ dst ∧ info ≠ src)
    (hds : ¬ FS.under dst src = true) (hid : ¬ FS.under info dst = true) :
    let r := run noFaults (restoreCore (.ok src) (.ok dst) (.ok info)) { fs := fs }
    r.2.fs.get dst = some nsrc ∧ r.2.fs.get src = none := by
  rw [under_iff] at hds hid
  obtain ⟨c, x, rfl⟩ := C07.exists_snoc hnr
  obtain ⟨m, t, hc⟩ := isDirAt_get (by simpa [parent] using hpar : fs.isDirAt c = true)
  have hx : x.length ≤ 255 := hname x (by simp)
  have hidir : isdirC fs (c ++ [x]) = false := by
    cases ndst with
    | dir m t => cases hdd
    | link t => cases hdl
    | file d m t => simp [isdirC, statC, followC, hd, Node.isDir]
  have hcp : checkParent fs (c ++ [x]) = .ok () := C17.checkParent_ok hc hx
  have hdev' : fs.dev (List.dropLast src) = fs.dev c := by simpa [parent] using hdev
  have hr : fs.rename src (c ++ [x]) = .ok (touchDir (touchDir (moveTree fs src (c ++ [x])) (parent src)) c) := by
    unfold FS.rename
    simp [hs, hd, hnm.1, hnm.2, parent, hdev', hcp, hne, hsd, hdd, Bind.bind, Except.bind]
  have hmove : run noFaults (move src (c ++ [x])) { fs := fs } =
      (.ok (), { fs := touchDir (touchDir (moveTree fs src (c ++ [x])) (parent src)) c, hist := [fs],
                 trace := [(.rename src (c ++ [x]), .ok ())], n := 1 }) := by
    unfold move
    rw [run_read_bind]
    simp only [hidir, Bool.false_eq_true, false_and, if_false]
    rw [run_bind, run_sys]
    simp only [Call.apply, hr]
    rfl
  have hrun : run noFaults (restoreCore (.ok src) (.ok (c ++ [x])) (.ok info)) { fs := fs } =
      run noFaults (removeFile info) (run noFaults (move src (c ++ [x])) { fs := fs }).2 := by
    show run noFaults (move src (c ++ [x]) >>= _) _ = _
    rw [run_bind, hmove]
  -- the state after the rename
  have e1 : touch ((touchDir (touchDir (moveTree fs src (c ++ [x])) (parent src)) c).get (c ++ [x])) = touch (some nsrc) := by
    rw [C15.touch_get_touchDir, C15.touch_get_touchDir, get_moveTree', if_pos (List.prefix_refl _)]
    simp [hs]
  have e2 : (touchDir (touchDir (moveTree fs src (c ++ [x])) (parent src)) c).get src = none := by
    apply touch_eq_none.1
    rw [C15.touch_get_touchDir, C15.touch_get_touchDir, get_moveTree', if_neg hds, if_pos (List.prefix_refl _)]
    rfl
  have key : ∀ s1 : RunState, s1.fs = touchDir (touchDir (moveTree fs src (c ++ [x])) (parent src)) c →
      (run noFaults (removeFile info) s1).2.fs.get (c ++ [x]) = some nsrc ∧
      (run noFaults (removeFile info) s1).2.fs.get src = none := by
    intro s1 hs1
    constructor
    · have := (Iss.inv noFaults (fun y => touch (y.get (c ++ [x])) = touch (some nsrc))
        (touch_keep _ (fun r (hr : info <+: r) e => hid (e ▸ hr))) _ s1 (iss_removeFile info) (by rw [hs1]; exact e1)).1
      refine C15.touch_nondir this ?_
      intro m t e
      cases e; cases hsd
    · exact (Iss.inv noFaults (fun y => y.get src = none) (none_keep src) _ s1 (iss_removeFile info) (by rw [hs1]; exact e2)).1
  show (run noFaults (restoreCore (.ok src) (.ok (c ++ [x])) (.ok info)) { fs := fs }).2.fs.get (c ++ [x]) = some nsrc ∧ _
  rw [hrun, hmove]
  exact key _ rfl

/-! ### --overwrite with a missing payload; a dangling link on the way to the destination -/

/-- `shutil.move` of a source that is not there: `rename` fails (`ENOENT`, or whatever the oracle
    injects), the fallback finds nothing to copy; nothing changes -/
theorem move_missing (φ : Oracle) (src dst : CPath) (s : RunState) (h : s.fs.get src = none) :
    (∃ er, (run φ (move src dst) s).1 = .error er) ∧ (run φ (move src dst) s).2.fs = s.fs := by
  have hren : ∀ d, ∃ er, run φ (sys (.rename src d)) s = (.error er, C17.after s (.rename src d) (.error er) s.fs) := by
    intro d
    rcases C17.sys_cases φ (.rename src d) s with h1 | ⟨fs', _, ha, _⟩
    · exact h1
    · exfalso; simp [Call.apply, FS.rename, h] at ha
  unfold move
  rw [run_read_bind]
  simp only []
  generalize (if isdirC s.fs dst = true then (followC s.fs dst).getD dst ++ [src.getLast?.getD []] else dst) = realDst
  split
  · obtain ⟨er, he⟩ := hren dst
    rw [he]; exact ⟨⟨er, rfl⟩, rfl⟩
  · split
    · exact ⟨⟨_, rfl⟩, rfl⟩
    · rw [run_bind]
      obtain ⟨er, he⟩ := hren realDst
      rw [he]
      simp only [run_read_bind, C17.after_fs, h]
      exact ⟨⟨_, rfl⟩, rfl⟩

theorem overwrite_keeps_destination_when_payload_missing (φ : Oracle) (cwd : CPath) (e : Entry) (s : RunState)
    (hpar : pIsdir s.fs cwd (dirname e.loc) = true)
    (hpay : pLexists s.fs cwd (pathOfBackupCopy e.info) = false) :
    let r := run φ (restoreOne cwd true e) s
    (∃ er, r.1 = .error er) ∧ r.2.fs = s.fs := by
  intro r
  have hr : r = run φ (restoreOne cwd true e) s := rfl
  unfold restoreOne at hr
  rw [run_read_bind, if_neg (by simp)] at hr
  simp only [hpar, if_true] at hr
  rw [run_bind] at hr
  simp only [run_pure, run_read_bind, hpay, Bool.false_eq_true, false_and, and_false, if_false] at hr
  rw [if_neg (by simp), run_bind] at hr
  simp only [run_pure, run_read_bind] at hr
  rw [hr]
  unfold pLexists lstat at hpay
  cases hsrc : resolve s.fs cwd (pathOfBackupCopy e.info) with
  | error er => exact ⟨⟨er, rfl⟩, rfl⟩
  | ok p =>
    rw [hsrc] at hpay
    have hp : s.fs.get p = none := by simpa using hpay
    cases hdst : resolve s.fs cwd e.loc with
    | error er => exact ⟨⟨er, rfl⟩, rfl⟩
    | ok d =>
      obtain ⟨⟨er, h1⟩, h2⟩ := move_missing φ p d s hp
      unfold restoreCore
      simp only []
      rw [run_bind]
      generalize run φ (move p d) s = rm at h1 h2
      obtain ⟨res, sm⟩ := rm
      simp only at h1 h2
      subst h1
      exact ⟨⟨er, rfl⟩, h2⟩

theorem restore_blocked_by_dangling_parent (φ : Oracle) (cwd : CPath) (overwrite : Bool) (e : Entry) (s : RunState)
    (er : Errno)
    (hnd : pIsdir s.fs cwd (dirname e.loc) = false)
    (hd : danglingOnPath s.fs cwd (dirname e.loc) = some er)
    (hfree : overwrite = false → pLexists s.fs cwd e.loc = false) :
    let r := run φ (restoreOne cwd overwrite e) s
    r.1 = .error er ∧ r.2.fs = s.fs ∧ r.2.trace = s.trace := by
  intro r
  have hr : r = run φ (restoreOne cwd overwrite e) s := rfl
  unfold restoreOne at hr
  have hc : ¬ ((¬ overwrite = true) ∧ pLexists s.fs cwd e.loc = true) := by
    rintro ⟨h1, h2⟩
    rw [hfree (by simpa using h1)] at h2
    cases h2
  rw [run_read_bind, if_neg hc] at hr
  simp only [hnd, hd, Bool.false_eq_true, if_false] at hr
  rw [run_bind] at hr
  simp only [run_pure] at hr
  rw [hr]
  exact ⟨rfl, rfl, rfl⟩



/-! ### before the first `rename`: nothing but `mkdir`

`fs.mkdirs(parent)` may leave directories behind although the restore fails (`os.makedirs` works on
the path string: `x/gone/..` makes `x/gone`, then fails with `EEXIST`).  What a restore that never
reached its `rename` can have done is bounded here: only `mkdir` calls, so every node that was there
is still there (a directory possibly with a fresh mtime) and whatever is new is a directory. -/

/-- every call `p` issues before its first `rename` is a `mkdir`; a run that ends without having
    issued a `rename` returns a value satisfying `Q` -/
def MUR {α} (Q : α → Prop) : Prog α → Prop
  | .ret a => Q a
  | .get k => ∀ fs, MUR Q (k fs)
  | .emit _ k => MUR Q k
  | .call c k => (∃ a b, c = .rename a b) ∨ ((∃ p m, c = .mkdir p m) ∧ ∀ r, MUR Q (k r))

def IsErr (r : Res) : Prop := ∃ er, r = .error er

section mur

theorem MUR.bind {α β} {Q' : α → Prop} {Q : β → Prop} {p : Prog α} {f : α → Prog β} (hp : MUR Q' p)
    (hf : ∀ a, Q' a → MUR Q (f a)) : MUR Q (p >>= f) := by
  show MUR Q (Prog.bind p f)
  induction p with
  | ret a => exact hf a hp
  | get k ih => exact fun fs => ih fs (hp fs)
  | emit o k ih => exact ih hp
  | call c k ih =>
    rcases hp with h | ⟨h, hk⟩
    · exact Or.inl h
    · exact Or.inr ⟨h, fun r => ih r (hk r)⟩

theorem MUR.pure {α} {Q : α → Prop} {a : α} (h : Q a) : MUR Q (pure a : Prog α) := h
theorem MUR.read_bind {β} {Q : β → Prop} {f : FS → Prog β} (h : ∀ fs, MUR Q (f fs)) : MUR Q (read >>= f) := h
theorem MUR.mkdir (p : CPath) (m : Nat) : MUR (fun _ : Res => True) (sys (.mkdir p m)) :=
  Or.inr ⟨⟨p, m, rfl⟩, fun _ => trivial⟩
theorem MUR.rename {Q : Res → Prop} (a c : CPath) : MUR Q (sys (.rename a c)) := Or.inl ⟨a, c, rfl⟩
theorem MUR.rename_bind {β} {Q : β → Prop} (a c : CPath) (f : Res → Prog β) : MUR Q (sys (.rename a c) >>= f) :=
  Or.inl ⟨a, c, rfl⟩

theorem MUR.sound {α} (φ : Oracle) {Q : α → Prop} (J : FS → Prop)
    (hJ : ∀ p m x x', J x → FS.mkdir x p m = .ok x' → J x') (p : Prog α) :
    ∀ s : RunState, MUR Q p → J s.fs → (∀ a c res, (Call.rename a c, res) ∉ (run φ p s).2.trace) →
      Q (run φ p s).1 ∧ J (run φ p s).2.fs ∧
      ∀ cr ∈ (run φ p s).2.trace, cr ∈ s.trace ∨ ∃ p m, cr.1 = .mkdir p m := by
  induction p with
  | ret a => intro s hp hi _; exact ⟨hp, hi, fun cr h => Or.inl h⟩
  | get k ih => intro s hp hi hnr; simp only [run] at hnr ⊢; exact ih _ s (hp _) hi hnr
  | emit o k ih => intro s hp hi hnr; simp only [run] at hnr ⊢; exact ih _ hp hi hnr
  | call c k ih =>
    intro s hp hi hnr
    rcases hp with ⟨a, c', rfl⟩ | ⟨⟨p, m, rfl⟩, hk⟩
    · exfalso
      revert hnr
      simp only [run]
      split
      · intro hnr
        exact hnr a c' (.ok ()) (C04.trace_mono φ _ _ _ List.mem_cons_self)
      · next e _ =>
        intro hnr
        exact hnr a c' (.error e) (C04.trace_mono φ _ _ _ List.mem_cons_self)
    · have lift : ∀ (s1 : RunState) (r : Res), s1.trace = (.mkdir p m, r) :: s.trace → J s1.fs →
          (∀ a c res, (Call.rename a c, res) ∉ (run φ (k r) s1).2.trace) →
          Q (run φ (k r) s1).1 ∧ J (run φ (k r) s1).2.fs ∧
          ∀ cr ∈ (run φ (k r) s1).2.trace, cr ∈ s.trace ∨ ∃ p m, cr.1 = .mkdir p m := by
        intro s1 r ht hi1 hnr1
        obtain ⟨a, b, c⟩ := ih r s1 (hk r) hi1 hnr1
        refine ⟨a, b, fun cr hcr => ?_⟩
        rcases c cr hcr with h | h
        · rw [ht] at h
          rcases List.mem_cons.1 h with e | e
          · right; rw [e]; exact ⟨p, m, rfl⟩
          · exact Or.inl e
        · exact Or.inr h
      revert hnr
      simp only [run]
      split
      · next fs' heq =>
        intro hnr
        refine lift _ _ rfl ?_ hnr
        split at heq
        · cases heq
        · exact hJ p m _ _ hi heq
      · intro hnr
        exact lift _ _ rfl hi hnr

theorem mur_makedirs : ∀ (fuel : Nat) (p : CPath) (mode : Nat), MUR (fun _ : Res => True) (makedirs fuel p mode) := by
  intro fuel
  induction fuel with
  | zero => intro p mode; unfold makedirs; exact MUR.mkdir _ _
  | succ fuel ih =>
    intro p mode
    unfold makedirs
    refine MUR.read_bind fun fs => ?_
    split
    · refine MUR.bind (ih _ _) fun r _ => ?_
      split
      · exact MUR.mkdir _ _
      · exact MUR.pure trivial
      · exact MUR.mkdir _ _
    · exact MUR.mkdir _ _

theorem mur_mkdirStr (cwd : CPath) (name : Bytes) (mode : Nat) : MUR (fun _ : Res => True) (mkdirStr cwd name mode) := by
  unfold mkdirStr atPath
  refine MUR.read_bind fun fs => ?_
  split
  · exact MUR.mkdir _ _
  · exact MUR.pure trivial

theorem mur_makedirsStr (cwd : CPath) : ∀ (fuel : Nat) (name : Bytes) (mode : Nat),
    MUR (fun _ : Res => True) (makedirsStr cwd fuel name mode) := by
  intro fuel
  induction fuel with
  | zero => intro name mode; unfold makedirsStr; exact mur_mkdirStr _ _ _
  | succ fuel ih =>
    intro name mode
    unfold makedirsStr
    refine MUR.read_bind fun fs => ?_
    simp only []
    split
    · refine MUR.bind (ih _ _) fun r _ => ?_
      split
      · split
        · exact MUR.pure trivial
        · exact mur_mkdirStr _ _ _
      · exact MUR.pure trivial
      · split
        · exact MUR.pure trivial
        · exact mur_mkdirStr _ _ _
    · exact mur_mkdirStr _ _ _

theorem mur_move (src dst : CPath) : MUR IsErr (move src dst) := by
  unfold move
  refine MUR.read_bind fun fs => ?_
  simp only []
  generalize (if isdirC fs dst = true then (followC fs dst).getD dst ++ [src.getLast?.getD []] else dst) = realDst
  split
  · exact MUR.rename _ _
  · split
    · exact MUR.pure ⟨_, rfl⟩
    · exact MUR.rename_bind _ _ _

theorem mur_restoreCore (src dst info : Except Errno CPath) : MUR IsErr (restoreCore src dst info) := by
  unfold restoreCore
  split
  · refine MUR.bind (mur_move _ _) fun r hr => ?_
    obtain ⟨er, rfl⟩ := hr
    exact MUR.pure ⟨er, rfl⟩
  · exact MUR.pure ⟨_, rfl⟩
  · exact MUR.pure ⟨_, rfl⟩

theorem mur_restoreOne (cwd : CPath) (e : Entry) : MUR IsErr (restoreOne cwd false e) := by
  unfold restoreOne
  refine MUR.read_bind fun fs => ?_
  split
  · exact MUR.pure ⟨_, rfl⟩
  · refine MUR.bind (Q' := fun _ => True) ?_ fun mk _ => ?_
    · split
      · exact MUR.pure trivial
      · split
        · exact MUR.pure trivial
        · split
          · exact mur_makedirsStr _ _ _ _
          · exact mur_makedirs _ _ _
    · split
      · exact MUR.pure ⟨_, rfl⟩
      · refine MUR.read_bind fun fs2 => ?_
        split
        · exact MUR.pure ⟨_, rfl⟩
        · refine MUR.bind (Q' := fun _ => True) ?_ fun cl _ => ?_
          · split
            · next h => exact absurd h.1 (by simp)
            · exact MUR.pure trivial
          · split
            · exact MUR.pure ⟨_, rfl⟩
            · exact MUR.read_bind fun fs4 => mur_restoreCore _ _ _

end mur

/-- `q` holds in `x` what it held in `fs0`, or a directory that is new or was a directory with the
    same mode (its mtime may differ: an entry was added to it) -/
def KeptOrDir (fs0 x : FS) : Prop :=
  ∀ q, x.get q = fs0.get q ∨
    ∃ m t, x.get q = some (.dir m t) ∧ (fs0.get q = none ∨ ∃ t', fs0.get q = some (.dir m t'))

theorem keptOrDir_mkdir (fs0 : FS) (p : CPath) (m : Nat) (x x' : FS) (hx : KeptOrDir fs0 x)
    (h : FS.mkdir x p m = .ok x') : KeptOrDir fs0 x' := by
  unfold FS.mkdir at h
  cases hcp : checkParent x p with
  | error er => rw [hcp] at h; cases h
  | ok u =>
    rw [hcp] at h
    simp only [Bind.bind, Except.bind] at h
    split at h
    · cases h
    · next hex =>
      cases h
      have hp : x.get p = none := by simpa [exists_] using hex
      have hnew : ∀ q, q = p → KeptOrDir fs0 x →
          ∃ m' t, some (Node.dir (applyUmask m) 0) = some (.dir m' t) ∧ (fs0.get q = none ∨ ∃ t', fs0.get q = some (.dir m' t')) := by
        intro q hq _
        subst hq
        refine ⟨_, _, rfl, Or.inl ?_⟩
        rcases hx q with h1 | ⟨m', t, h1, _⟩
        · rw [← h1]; exact hp
        · rw [hp] at h1; cases h1
      have htouch : ∀ q (o : Option Node),
          (o = fs0.get q ∨ ∃ m' t, o = some (.dir m' t) ∧ (fs0.get q = none ∨ ∃ t', fs0.get q = some (.dir m' t'))) →
          (touch o = fs0.get q ∨ ∃ m' t, touch o = some (.dir m' t) ∧ (fs0.get q = none ∨ ∃ t', fs0.get q = some (.dir m' t'))) := by
        intro q o ho
        cases o with
        | none => exact ho
        | some nd =>
          cases nd with
          | file d m' t => exact ho
          | link t => exact ho
          | dir m' t =>
            right
            refine ⟨m', 0, rfl, ?_⟩
            rcases ho with h1 | ⟨m'', t'', h1, h2⟩
            · exact Or.inr ⟨t, h1.symm⟩
            · cases h1; exact h2
      intro q
      rw [get_touchDir]
      by_cases hq : q = parent p
      · rw [if_pos hq, ← hq, get_setNode]
        apply htouch
        by_cases hqp : q = p
        · rw [if_pos hqp]; exact Or.inr (hnew q hqp hx)
        · rw [if_neg hqp]; exact hx q
      · rw [if_neg hq, get_setNode]
        by_cases hqp : q = p
        · rw [if_pos hqp]; exact Or.inr (hnew q hqp hx)
        · rw [if_neg hqp]; exact hx q

/-- A restore without --overwrite that never issued a `rename` — it was refused, or `fs.mkdirs`
    failed (possibly after having made some directories), or a path did not resolve — failed, issued
    nothing but `mkdir` calls, and left every path as it was or holding a directory that is new or
    was a directory of the same mode.  Under every fault oracle. -/
theorem restore_without_rename_only_makes_dirs (φ : Oracle) (cwd : CPath) (e : Entry) (fs : FS) :
    let r := run φ (restoreOne cwd false e) { fs := fs }
    (∀ a c res, (Call.rename a c, res) ∉ r.2.trace) →
    (∃ er, r.1 = .error er) ∧ (∀ cr ∈ r.2.trace, ∃ p m, cr.1 = .mkdir p m) ∧ KeptOrDir fs r.2.fs := by
  intro r hnr
  obtain ⟨h1, h2, h3⟩ := MUR.sound φ (KeptOrDir fs) (keptOrDir_mkdir fs) (restoreOne cwd false e) { fs := fs }
    (mur_restoreOne cwd e) (fun _ => Or.inl rfl) hnr
  refine ⟨h1, fun cr hcr => ?_, h2⟩
  rcases h3 cr hcr with h | h
  · cases h
  · exact h


/-! ### without --overwrite no `rename` ever has an existing destination

`RF cur p`: every `rename a d` that `p` issues is issued in a state — known because it was read and
no call was issued since (`cur`) — in which nothing is at `d`. -/

def RF {α} : Option FS → Prog α → Prop
  | _, .ret _ => True
  | cur, .get k => match cur with
    | some fs => RF (some fs) (k fs)
    | none => ∀ fs, RF (some fs) (k fs)
  | cur, .emit _ k => RF cur k
  | cur, .call c k => (∀ a d, c = .rename a d → ∃ fs, cur = some fs ∧ fs.get d = none) ∧ ∀ r, RF none (k r)

/-- not a `rename` -/
def NR (c : Call) : Prop := ∀ a d, c ≠ .rename a d

/-- the state recorded before a `rename` has nothing at the destination -/
def RenOK (z : FS × (Call × Res)) : Prop := ∀ a d res, z.2 = (Call.rename a d, res) → z.1.get d = none

/-- `hist` and `trace` are aligned, and every recorded `rename` had a free destination -/
def ZAll (s : RunState) : Prop := s.hist.length = s.trace.length ∧ ∀ z ∈ s.hist.zip s.trace, RenOK z

section rf

theorem RF.mono {α} {p : Prog α} : ∀ {cur : Option FS}, RF none p → RF cur p := by
  induction p with
  | ret a => intro _ _; trivial
  | get k ih =>
    intro cur hp
    cases cur with
    | none => exact hp
    | some fs => exact hp fs
  | emit o k ih => intro cur hp; exact ih hp
  | call c k ih =>
    intro cur hp
    refine ⟨fun a d h => ?_, hp.2⟩
    obtain ⟨fs, h1, _⟩ := hp.1 a d h
    cases h1

theorem RF.of_iss {α} {p : Prog α} : ∀ {cur : Option FS}, Iss InvT NR p → RF cur p := by
  induction p with
  | ret a => intro _ _; trivial
  | get k ih =>
    intro cur hp
    cases cur with
    | none => exact fun fs => ih fs (hp fs trivial)
    | some fs => exact ih fs (hp fs trivial)
  | emit o k ih => intro cur hp; exact ih hp
  | call c k ih =>
    intro cur hp
    exact ⟨fun a d h => absurd h (hp.1 a d), fun r => ih r (hp.2 r)⟩

theorem RF.bind {α β} {p : Prog α} {f : α → Prog β} (hf : ∀ a, RF none (f a)) :
    ∀ {cur : Option FS}, RF cur p → RF cur (p >>= f) := by
  show ∀ {cur : Option FS}, RF cur p → RF cur (Prog.bind p f)
  induction p with
  | ret a => intro cur _; exact RF.mono (hf a)
  | get k ih =>
    intro cur hp
    cases cur with
    | none => exact fun fs => ih fs (hp fs)
    | some fs => exact ih fs hp
  | emit o k ih => intro cur hp; exact ih hp
  | call c k ih => intro cur hp; exact ⟨hp.1, fun r => ih r (hp.2 r)⟩

theorem RF.pure {α} {cur : Option FS} (a : α) : RF cur (pure a : Prog α) := trivial
theorem RF.read_bind_none {β} {f : FS → Prog β} (h : ∀ fs, RF (some fs) (f fs)) : RF none (read >>= f) := h
theorem RF.read_bind_some {β} {f : FS → Prog β} {fs : FS} (h : RF (some fs) (f fs)) : RF (some fs) (read >>= f) := h
theorem RF.sys_bind {β} {cur : Option FS} {c : Call} {f : Res → Prog β}
    (h : ∀ a d, c = .rename a d → ∃ fs, cur = some fs ∧ fs.get d = none) (hf : ∀ r, RF none (f r)) :
    RF cur (sys c >>= f) := ⟨h, hf⟩

theorem zall_after {s : RunState} {c : Call} {res : Res} {fs' : FS} (hz : ZAll s)
    (h : ∀ a d, c = .rename a d → s.fs.get d = none) :
    ZAll { s with fs := fs', hist := s.fs :: s.hist, trace := (c, res) :: s.trace, n := s.n + 1 } := by
  refine ⟨by simp [hz.1], fun z hz' => ?_⟩
  simp only [List.zip_cons_cons, List.mem_cons] at hz'
  rcases hz' with rfl | hz'
  · intro a d res' heq
    cases heq
    exact h a d rfl
  · exact hz.2 z hz'

theorem RF.sound {α} (φ : Oracle) (p : Prog α) : ∀ (cur : Option FS) (s : RunState), RF cur p →
    (∀ fs, cur = some fs → s.fs = fs) → ZAll s → ZAll (run φ p s).2 := by
  induction p with
  | ret a => intro _ s _ _ hz; exact hz
  | get k ih =>
    intro cur s hp hcur hz
    simp only [run]
    cases cur with
    | none => exact ih s.fs (some s.fs) s (hp s.fs) (fun fs h => by cases h; rfl) hz
    | some fs0 =>
      have e : s.fs = fs0 := hcur fs0 rfl
      subst e
      exact ih s.fs (some s.fs) s hp (fun fs h => by cases h; rfl) hz
  | emit o k ih => intro cur s hp hcur hz; simp only [run]; exact ih cur _ hp hcur hz
  | call c k ih =>
    intro cur s hp hcur hz
    have hg : ∀ a d, c = .rename a d → s.fs.get d = none := by
      intro a d h
      obtain ⟨fs, h1, h2⟩ := hp.1 a d h
      rw [hcur fs h1]; exact h2
    simp only [run]
    split
    · exact ih _ none _ (hp.2 _) (fun fs h => by cases h) (zall_after hz hg)
    · exact ih _ none _ (hp.2 _) (fun fs h => by cases h) (zall_after hz hg)

/-! the routines below issue no `rename` -/

theorem nr_of_kr {A : CPath → Prop} {c : Call} (h : KR A c) : NR c := by
  obtain ⟨r, h | h, _⟩ := h <;> subst h <;> intro a d h' <;> cases h'

theorem nr_makedirs : ∀ (fuel : Nat) (p : CPath) (mode : Nat), Iss InvT NR (makedirs fuel p mode) := by
  intro fuel
  induction fuel with
  | zero => intro p mode; unfold makedirs; exact Iss.sys (fun _ _ h => nomatch h)
  | succ fuel ih =>
    intro p mode
    unfold makedirs
    refine Iss.read_bind fun fs _ => ?_
    split
    · refine Iss.bind (ih _ _) fun r => ?_
      split
      · exact Iss.sys (fun _ _ h => nomatch h)
      · exact Iss.pure _
      · exact Iss.sys (fun _ _ h => nomatch h)
    · exact Iss.sys (fun _ _ h => nomatch h)

theorem nr_mkdirStr (cwd : CPath) (name : Bytes) (mode : Nat) : Iss InvT NR (mkdirStr cwd name mode) := by
  unfold mkdirStr atPath
  refine Iss.read_bind fun fs _ => ?_
  split
  · exact Iss.sys (fun _ _ h => nomatch h)
  · exact Iss.pure _

theorem nr_makedirsStr (cwd : CPath) : ∀ (fuel : Nat) (name : Bytes) (mode : Nat),
    Iss InvT NR (makedirsStr cwd fuel name mode) := by
  intro fuel
  induction fuel with
  | zero => intro name mode; unfold makedirsStr; exact nr_mkdirStr _ _ _
  | succ fuel ih =>
    intro name mode
    unfold makedirsStr
    refine Iss.read_bind fun fs _ => ?_
    simp only []
    split
    · refine Iss.bind (ih _ _) fun r => ?_
      split
      · split
        · exact Iss.pure _
        · exact nr_mkdirStr _ _ _
      · exact Iss.pure _
      · split
        · exact Iss.pure _
        · exact nr_mkdirStr _ _ _
    · exact nr_mkdirStr _ _ _

theorem nr_copystat (src dst : CPath) : Iss InvT NR (copystat src dst) := by
  unfold copystat
  refine Iss.read_bind fun fs _ => ?_
  have main : ∀ m t, Iss InvT NR (sys (.utime dst t) >>= fun r =>
      match r with
      | .error e => (pure (.error e) : Prog Res)
      | .ok () => sys (.chmod dst m)) := by
    intro m t
    refine Iss.bind (Iss.sys (fun _ _ h => nomatch h)) fun r => ?_
    split
    · exact Iss.pure _
    · exact Iss.sys (fun _ _ h => nomatch h)
  split
  · exact main _ _
  · exact main _ _
  · exact Iss.pure _

theorem nr_copy2 (src dst : CPath) : Iss InvT NR (copy2 src dst) := by
  unfold copy2
  refine Iss.read_bind fun fs _ => ?_
  split
  · refine Iss.bind (Iss.sys (fun _ _ h => nomatch h)) fun r => ?_
    split
    · exact Iss.pure _
    · refine Iss.bind ?_ fun w => ?_
      · split
        · exact Iss.pure _
        · exact Iss.sys (fun _ _ h => nomatch h)
      · split
        · exact Iss.pure _
        · exact nr_copystat _ _
  · exact Iss.pure _
  · exact Iss.pure _
  · exact Iss.pure _

theorem nr_copytree : ∀ (fuel : Nat) (src d : CPath), Iss InvT NR (copytree fuel src d) := by
  intro fuel
  induction fuel with
  | zero => intro src d; unfold copytree; exact Iss.pure _
  | succ fuel ih =>
    intro src d
    have hgo : ∀ (cs : List CPath) (failed : Bool), Iss InvT NR (copytree.go fuel d cs failed) := by
      intro cs
      induction cs with
      | nil => intro failed; unfold copytree.go; exact Iss.pure _
      | cons c cs ihc =>
        intro failed
        unfold copytree.go
        refine Iss.read_bind fun fs' _ => ?_
        refine Iss.bind ?_ fun r => ihc _
        split
        · exact Iss.sys (fun _ _ h => nomatch h)
        · exact ih _ _
        · exact nr_copy2 _ _
        · exact Iss.pure _
    unfold copytree
    refine Iss.read_bind fun fs _ => ?_
    refine Iss.bind (nr_makedirs _ _ _) fun r => ?_
    split
    · exact Iss.pure _
    · refine Iss.bind (hgo _ _) fun failed => ?_
      refine Iss.bind (nr_copystat _ _) fun r2 => ?_
      split
      · exact Iss.pure _
      · exact Iss.pure _

theorem nr_rmtree (p : CPath) : Iss InvT NR (rmtree p) := Iss.mono (fun _ => nr_of_kr) (iss_rmtree p)
theorem nr_removeFile (p : CPath) : Iss InvT NR (removeFile p) := Iss.mono (fun _ => nr_of_kr) (iss_removeFile p)

/-- `shutil.move` to a destination at which nothing is: the `rename` is issued in that state, and
    whatever follows (the copy fallback) issues no further `rename` -/
theorem rf_move {fs : FS} (src : CPath) {dst : CPath} (hd : fs.get dst = none) : RF (some fs) (move src dst) := by
  have hidir : isdirC fs dst = false := by simp [isdirC, statC, followC, hd]
  unfold move
  refine RF.read_bind_some ?_
  simp only [hidir, Bool.false_eq_true, false_and, if_false]
  refine RF.sys_bind (fun a d h => ?_) fun r => ?_
  · cases h; exact ⟨fs, rfl, hd⟩
  · refine RF.of_iss ?_
    split
    · exact Iss.pure _
    · refine Iss.read_bind fun fs' _ => ?_
      split
      · refine Iss.bind (Iss.sys (fun _ _ h => nomatch h)) fun r => ?_
        split
        · exact Iss.pure _
        · exact Iss.sys (fun _ _ h => nomatch h)
      · split
        · exact Iss.pure _
        · refine Iss.bind (nr_copytree _ _ _) fun r => ?_
          split
          · exact Iss.pure _
          · exact nr_rmtree _
      · refine Iss.bind (nr_copy2 _ _) fun r => ?_
        split
        · exact Iss.pure _
        · exact Iss.sys (fun _ _ h => nomatch h)
      · exact Iss.pure _

theorem rf_restoreCore {fs : FS} (R1 : Except Errno CPath) {R2 : Except Errno CPath} (R3 : Except Errno CPath)
    (hd : ∀ d, R2 = .ok d → fs.get d = none) : RF (some fs) (restoreCore R1 R2 R3) := by
  unfold restoreCore
  split
  · next s d =>
    refine RF.bind (fun r => ?_) (rf_move s (hd d rfl))
    split
    · exact RF.pure _
    · split
      · exact RF.of_iss (nr_removeFile _)
      · exact RF.pure _
  · exact RF.pure _
  · exact RF.pure _

theorem free_of_not_lexists {fs : FS} {cwd : CPath} {loc : Bytes} (h : pLexists fs cwd loc = false) :
    ∀ d, resolve fs cwd loc = .ok d → fs.get d = none := by
  intro d hres
  unfold pLexists lstat at h
  rw [hres] at h
  simpa using h

theorem rf_restoreOne (cwd : CPath) (e : Entry) : RF none (restoreOne cwd false e) := by
  unfold restoreOne
  refine RF.read_bind_none fun fs => ?_
  split
  · exact RF.pure _
  · refine RF.bind (fun mk => ?_) (RF.of_iss ?_)
    · split
      · exact RF.pure _
      · refine RF.read_bind_none fun fs2 => ?_
        split
        · exact RF.pure _
        · next hfree =>
          have hl : pLexists fs2 cwd e.loc = false := by
            cases h : pLexists fs2 cwd e.loc with
            | false => rfl
            | true => exact absurd ⟨by simp, h⟩ hfree
          split
          · next h => exact absurd h.1 (by simp)
          · exact rf_restoreCore (fs := fs2) _ _ (free_of_not_lexists hl)
    · split
      · exact Iss.pure _
      · split
        · exact Iss.pure _
        · split
          · exact nr_makedirsStr _ _ _ _
          · exact nr_makedirs _ _ _

end rf

/-- Without --overwrite, under every fault oracle: every `rename` the restore of an entry issues —
    successful or not, there is at most one, `shutil.move`'s — is issued in a state in which nothing
    is at its destination.  `hist` holds the state before each call of `trace` (both newest first,
    of the same length), so `(x, (rename a d, res)) ∈ zip hist trace` says: `x` is the file system
    the call `rename a d` was issued in. -/
theorem restore_never_clobbers (φ : Oracle) (cwd : CPath) (e : Entry) (fs : FS) :
    let r := run φ (restoreOne cwd false e) { fs := fs }
    r.2.hist.length = r.2.trace.length ∧
    ∀ x a d res, (x, (Call.rename a d, res)) ∈ r.2.hist.zip r.2.trace → x.get d = none := by
  intro r
  obtain ⟨h1, h2⟩ := RF.sound φ (restoreOne cwd false e) none { fs := fs } (rf_restoreOne cwd e)
    (fun _ h => by cases h) ⟨rfl, fun z hz => by cases hz⟩
  exact ⟨h1, fun x a d res hm => h2 _ hm a d res rfl⟩

/-! non-vacuity: concrete worlds, evaluated through the twins of Proofs/C16Eval.lean -/

namespace Ex
open TrashVerif.Proofs.C16Eval

def dN : Node := .dir 0o755 0
/-- `/d/f` is there (say, restored a moment ago); the trash `/t` still lists `f.trashinfo`, but
    `/t/files/f` is gone -/
def fsGone : FS := FS.ofList [([], dN), ([b "d"], dN), ([b "d", b "f"], .file [1] 0o644 0), ([b "t"], dN),
  ([b "t", b "files"], dN), ([b "t", b "info"], dN), ([b "t", b "info", b "f.trashinfo"], .file [2] 0o600 0)] [[]]
def entF : Entry := { loc := b "/d/f", date := none, info := b "/t/info/f.trashinfo" }

theorem hyps_gone : pIsdir fsGone [] (dirname entF.loc) = true ∧
    pLexists fsGone [] (pathOfBackupCopy entF.info) = false ∧ pLexists fsGone [] entF.loc = true := by
  rw [pIsdir_eq, pLexists_eq, pLexists_eq]; decide +kernel

/-- `/d -> /nowhere` (missing); the trash `/t` holds `f` -/
def fsLink : FS := FS.ofList [([], dN), ([b "d"], .link (b "/nowhere")), ([b "t"], dN),
  ([b "t", b "files"], dN), ([b "t", b "files", b "f"], .file [1] 0o644 0), ([b "t", b "info"], dN),
  ([b "t", b "info", b "f.trashinfo"], .file [2] 0o600 0)] [[]]
/-- original location `/d/f`: the parent is the dangling link itself -/
def entOn : Entry := { loc := b "/d/f", date := none, info := b "/t/info/f.trashinfo" }
/-- original location `/d/sub/f`: the dangling link is a proper prefix of the parent -/
def entThrough : Entry := { loc := b "/d/sub/f", date := none, info := b "/t/info/f.trashinfo" }

theorem hyps_on : pIsdir fsLink [] (dirname entOn.loc) = false ∧
    danglingOnPath fsLink [] (dirname entOn.loc) = some .EEXIST ∧ pLexists fsLink [] entOn.loc = false := by
  rw [pIsdir_eq, danglingOnPath_eq, pLexists_eq]; decide +kernel

theorem hyps_through : pIsdir fsLink [] (dirname entThrough.loc) = false ∧
    danglingOnPath fsLink [] (dirname entThrough.loc) = some .ENOENT ∧ pLexists fsLink [] entThrough.loc = false := by
  rw [pIsdir_eq, danglingOnPath_eq, pLexists_eq]; decide +kernel

/-! `os.makedirs` on a parent string with `..` behind a missing component -/

deriving instance DecidableEq for Except

/-- `/w/precious.txt` is there, `/w/gone` is not; the trash `/t` holds `p` -/
def fsDots : FS := FS.ofList [([], dN), ([b "w"], dN), ([b "w", b "precious.txt"], .file (b "precious") 0o644 7),
  ([b "t"], dN), ([b "t", b "files"], dN), ([b "t", b "files", b "p"], .file (b "from trash") 0o644 0),
  ([b "t", b "info"], dN), ([b "t", b "info", b "p.trashinfo"], .file [2] 0o600 0)] [[]]
/-- recorded `Path=/w/gone/../precious.txt` -/
def entDots : Entry := { loc := b "/w/gone/../precious.txt", date := none, info := b "/t/info/p.trashinfo" }

/-- which branch of `restoreOne` the entry takes: nothing `lexists` at the destination as spelled
    (`/w/gone` is missing), the parent `/w/gone/..` is not a directory, no dangling link, and the
    parent string has a dot component -/
theorem hyps_dots : pLexists fsDots [] entDots.loc = false ∧ pIsdir fsDots [] (dirname entDots.loc) = false ∧
    danglingOnPath fsDots [] (dirname entDots.loc) = none ∧ hasDotComp (dirname entDots.loc) = true := by
  rw [pLexists_eq, pIsdir_eq, danglingOnPath_eq]; decide +kernel

theorem restore_dotdot_through_missing_creates_dir :
    let r := run noFaults (restoreOne [] false entDots) { fs := fsDots }
    r.1 = .error .EEXIST ∧
    fsDots.get [b "w", b "gone"] = none ∧ r.2.fs.get [b "w", b "gone"] = some (.dir 0o755 0) ∧
    r.2.fs.get [b "w", b "precious.txt"] = fsDots.get [b "w", b "precious.txt"] ∧
    r.2.fs.get [b "t", b "info", b "p.trashinfo"] = fsDots.get [b "t", b "info", b "p.trashinfo"] ∧
    r.2.fs.get [b "t", b "files", b "p"] = fsDots.get [b "t", b "files", b "p"] ∧
    r.2.trace = [(.mkdir [b "w"] 0o777, .error .EEXIST), (.mkdir [b "w", b "gone"] 0o777, .ok ())] := by
  intro r
  have hr : r = run noFaults (C02CmdEval.restoreOneS [] false entDots) { fs := fsDots } := by
    show run noFaults (restoreOne [] false entDots) { fs := fsDots } = _
    rw [C02CmdEval.restoreOne_eq]
  rw [hr]
  decide +kernel

/-- `/w/sub/precious.txt` is there, `/w/gone` is not; the trash `/t` holds `p` -/
def fsClobber : FS := FS.ofList [([], dN), ([b "w"], dN), ([b "w", b "sub"], dN),
  ([b "w", b "sub", b "precious.txt"], .file (b "precious") 0o644 7),
  ([b "t"], dN), ([b "t", b "files"], dN), ([b "t", b "files", b "p"], .file (b "from trash") 0o644 0),
  ([b "t", b "info"], dN), ([b "t", b "info", b "p.trashinfo"], .file [2] 0o600 0)] [[]]
/-- recorded `Path=/w/gone/../sub/./precious.txt` -/
def entClobber : Entry := { loc := b "/w/gone/../sub/./precious.txt", date := none, info := b "/t/info/p.trashinfo" }

/-- the run, evaluated: `os.makedirs("/w/gone/../sub/.")` makes `/w/gone`, swallows the `EEXIST` of
    `mkdir("/w/gone/..")` and of `mkdir("/w/gone/../sub")`, and stops at the tail `.` — success; the
    destination string now resolves to the existing `/w/sub/precious.txt`: the second look at the
    destination refuses the entry -/
theorem restore_dot_after_dotdot_refused :
    pLexists fsClobber [] entClobber.loc = false ∧
    (let r := run noFaults (restoreOne [] false entClobber) { fs := fsClobber }
     r.1 = .error .EEXIST ∧
     pLexists r.2.fs [] entClobber.loc = true ∧
     r.2.fs.get [b "w", b "sub", b "precious.txt"] = some (.file (b "precious") 0o644 7) ∧
     r.2.fs.get [b "w", b "gone"] = some (.dir 0o755 0) ∧ fsClobber.get [b "w", b "gone"] = none ∧
     r.2.fs.get [b "t", b "files", b "p"] = fsClobber.get [b "t", b "files", b "p"] ∧
     r.2.fs.get [b "t", b "info", b "p.trashinfo"] = fsClobber.get [b "t", b "info", b "p.trashinfo"] ∧
     (fsClobber.get [b "t", b "files", b "p"]).isSome = true ∧
     r.2.trace = [(.mkdir [b "w", b "sub"] 0o777, .error .EEXIST), (.mkdir [b "w"] 0o777, .error .EEXIST),
                  (.mkdir [b "w", b "gone"] 0o777, .ok ())]) := by
  have hr : run noFaults (restoreOne [] false entClobber) { fs := fsClobber } =
      run noFaults (C02CmdEval.restoreOneS [] false entClobber) { fs := fsClobber } := by
    rw [C02CmdEval.restoreOne_eq]
  simp only [pLexists_eq, hr]
  decide +kernel

end Ex

/-! ### the statements as first written are false -/

def cexCfg : ReadCfg := { cwd := [], env := {}, uid := 0, mountPoints := [] }
/-- an empty world, in a run state whose output already contains the "die" event -/
def cexSt : RunState := { fs := FS.ofList [([], .dir 0o755 0)] [], outs := [Out.stderr "die" []] }

/-- `refusal_exit_nonzero` without `hfresh` is FALSE: nothing is trashed, trash-restore prints
    "No files trashed …" and exits 0, and the "die" event that was already in `outs` is still there. -/
theorem refusal_exit_nonzero_counterexample :
    ∃ (φ : Oracle) (c : ReadCfg) (o : RestoreOpts) (reply : Bytes) (s : RunState) (r : CmdResult) (s' : RunState),
      run φ (runRestore c o (some reply)) s = (r, s') ∧ Out.stderr "die" [] ∈ s'.outs ∧ r.exit ≠ 1 := by
  have h3 : Out.stderr "die" [] ∈ (run noFaults (runRestore cexCfg { sort := .none } (some [])) cexSt).2.outs := by
    decide +kernel
  exact ⟨noFaults, cexCfg, { sort := .none }, [], cexSt, _, _, rfl, h3, by decide⟩

/-- an ill-formed tree: the file `/a` has the "child" `/a/b`, which has the "child" `/a/b/b` -/
def cexFsB : FS := FS.ofList [([], .dir 0o755 0), ([[97]], .file [] 0o644 0), ([[97], [98]], .file [1] 0o644 0),
  ([[97], [98], [98]], .file [2] 0o644 0)] []

/-- `overwrite_replaces_nondir` without `hds` is FALSE: restoring `/a/b` over `/a` in `cexFsB`
    (info file absent) leaves the former `/a/b/b` at `/a/b`. -/
theorem overwrite_replaces_nondir_counterexample :
    ∃ (fs : FS) (src dst info : CPath) (nsrc ndst : Node),
      fs.get src = some nsrc ∧ fs.get dst = some ndst ∧ nsrc.isDir = false ∧ ndst.isDir = false ∧ ndst.isLink = false ∧
      (fs.isMount src = false ∧ fs.isMount dst = false) ∧ fs.dev (FS.parent src) = fs.dev (FS.parent dst) ∧
      fs.isDirAt (FS.parent dst) = true ∧ src ≠ dst ∧ dst ≠ [] ∧ (∀ n, dst.getLast? = some n → n.length ≤ 255) ∧
      (info ≠ dst ∧ info ≠ src) ∧
      ¬ ((run noFaults (restoreCore (.ok src) (.ok dst) (.ok info)) { fs := fs }).2.fs.get dst = some nsrc ∧
         (run noFaults (restoreCore (.ok src) (.ok dst) (.ok info)) { fs := fs }).2.fs.get src = none) := by
  have h : (run noFaults (restoreCore (.ok [[97], [98]]) (.ok [[97]]) (.ok [[122]])) { fs := cexFsB }).2.fs.get [[97], [98]]
      = some (.file [2] 0o644 0) := by decide +kernel
  refine ⟨cexFsB, [[97], [98]], [[97]], [[122]], .file [1] 0o644 0, .file [] 0o644 0, by decide +kernel, by decide +kernel,
    rfl, rfl, rfl, ⟨by decide +kernel, by decide +kernel⟩, by decide +kernel, by decide +kernel, by decide, by decide, ?_,
    ⟨by decide, by decide⟩, ?_⟩
  · intro n hn
    simp only [List.getLast?_singleton, Option.some.injEq] at hn
    subst hn; decide
  · intro hh
    rw [h] at hh
    cases hh.2

/-- … and without `hid` it is FALSE as well: with `info = /d` a directory and `dst = /d/f`, the
    `rmtree(/d)` fallback of `remove_file(info)` deletes the restored file.  (Checked by evaluation:
    the kernel cannot unfold `List.mergeSort`, which `rmtree` reaches through `sortedChildren`.) -/
def cexFsC : FS := FS.ofList [([], .dir 0o755 0), ([[100]], .dir 0o755 0), ([[100], [102]], .file [] 0o644 0),
  ([[115]], .file [1] 0o644 0)] []
#guard (run noFaults (restoreCore (.ok [[115]]) (.ok [[100], [102]]) (.ok [[100]])) { fs := cexFsC }).2.fs.get [[100], [102]]
  == none

end TrashVerif.Proofs.C06
