/-
  Proofs/C06.lean — proofs of the statements of Props/C06.lean.
-/
import TrashVerif.Proofs.C15
import TrashVerif.Proofs.C16Eval
namespace TrashVerif.Proofs.C06
open TrashVerif Prog FS PutLemmas C04 C11

/-! ### refusal -/

theorem restore_refuses_existing (φ : Oracle) (cwd : CPath) (e : Entry) (s : RunState)
    (h : pLexists s.fs cwd e.loc = true) :
    let r := run φ (restoreOne cwd false e) s
    r.1 = .error .EEXIST ∧ r.2.trace = s.trace ∧ r.2.fs = s.fs := by
  unfold restoreOne
  rw [run_read_bind, if_pos ⟨by simp, h⟩]
  exact ⟨rfl, rfl, rfl⟩

theorem restore_stops_at_refusal (φ : Oracle) (cwd : CPath) (e : Entry) (rest : List Entry) (s : RunState)
    (h : pLexists s.fs cwd e.loc = true) :
    let r := run φ (restoreMany cwd false (e :: rest)) s
    r.1 = .error .EEXIST ∧ r.2.trace = s.trace ∧ r.2.fs = s.fs := by
  obtain ⟨h1, h2, h3⟩ := restore_refuses_existing φ cwd e s h
  unfold restoreMany
  rw [run_bind, h1]
  exact ⟨rfl, h2, h3⟩

/-! ### which outputs a program can emit -/

/-- every output `p` can emit satisfies `P` -/
def Emits {α} (P : Out → Prop) : Prog α → Prop
  | .ret _ => True
  | .get k => ∀ fs, Emits P (k fs)
  | .call _ k => ∀ r, Emits P (k r)
  | .emit o k => P o ∧ Emits P k

section emits
variable {P : Out → Prop}

theorem Emits.bind {α β} {p : Prog α} {f : α → Prog β} (hp : Emits P p) (hf : ∀ a, Emits P (f a)) :
    Emits P (p >>= f) := by
  show Emits P (Prog.bind p f)
  induction p with
  | ret a => exact hf a
  | get k ih => exact fun fs => ih fs (hp fs)
  | emit o k ih => exact ⟨hp.1, ih hp.2⟩
  | call c k ih => exact fun r => ih r (hp r)

theorem Emits.pure {α} (a : α) : Emits P (pure a : Prog α) := trivial
theorem Emits.sys (c : Call) : Emits P (sys c) := fun _ => trivial
theorem Emits.say {o : Out} (h : P o) : Emits P (say o) := ⟨h, trivial⟩
theorem Emits.read_bind {β} {f : FS → Prog β} (h : ∀ fs, Emits P (f fs)) : Emits P (read >>= f) := h

theorem Emits.sound {α} (φ : Oracle) (p : Prog α) : ∀ s : RunState, Emits P p →
    ∀ o ∈ (run φ p s).2.outs, o ∈ s.outs ∨ P o := by
  induction p with
  | ret a => intro s _ o h; exact Or.inl h
  | get k ih => intro s hp; simp only [run]; exact ih _ s (hp _)
  | emit o' k ih =>
    intro s hp o h
    simp only [run] at h
    rcases ih { s with outs := o' :: s.outs } hp.2 o h with h | h
    · rcases List.mem_cons.1 h with e | e
      · right; rw [e]; exact hp.1
      · exact Or.inl e
    · exact Or.inr h
  | call c k ih =>
    intro s hp o h
    simp only [run] at h
    split at h
    · have := ih _ _ (hp _) o h; exact this
    · have := ih _ _ (hp _) o h; exact this

/-! the routines below emit nothing -/

theorem em_makedirs : ∀ (fuel : Nat) (p : CPath) (mode : Nat), Emits P (makedirs fuel p mode) := by
  intro fuel
  induction fuel with
  | zero => intro p mode; unfold makedirs; exact Emits.sys _
  | succ fuel ih =>
    intro p mode
    unfold makedirs
    refine Emits.read_bind fun fs => ?_
    split
    · refine Emits.bind (ih _ _) fun r => ?_
      split
      · exact Emits.sys _
      · exact Emits.pure _
      · exact Emits.sys _
    · exact Emits.sys _

theorem em_copystat (src dst : CPath) : Emits P (copystat src dst) := by
  unfold copystat
  refine Emits.read_bind fun fs => ?_
  have main : ∀ m t, Emits P (sys (.utime dst t) >>= fun r =>
      match r with
      | .error e => (pure (.error e) : Prog Res)
      | .ok () => sys (.chmod dst m)) := by
    intro m t
    refine Emits.bind (Emits.sys _) fun r => ?_
    split
    · exact Emits.pure _
    · exact Emits.sys _
  split
  · exact main _ _
  · exact main _ _
  · exact Emits.pure _

theorem em_copy2 (src dst : CPath) : Emits P (copy2 src dst) := by
  unfold copy2
  refine Emits.read_bind fun fs => ?_
  split
  · refine Emits.bind (Emits.sys _) fun r => ?_
    split
    · exact Emits.pure _
    · refine Emits.bind ?_ fun w => ?_
      · split
        · exact Emits.pure _
        · exact Emits.sys _
      · split
        · exact Emits.pure _
        · exact em_copystat _ _
  · exact Emits.pure _
  · exact Emits.pure _
  · exact Emits.pure _

theorem em_copytree : ∀ (fuel : Nat) (src d : CPath), Emits P (copytree fuel src d) := by
  intro fuel
  induction fuel with
  | zero => intro src d; unfold copytree; exact Emits.pure _
  | succ fuel ih =>
    intro src d
    have hgo : ∀ (cs : List CPath) (failed : Bool), Emits P (copytree.go fuel d cs failed) := by
      intro cs
      induction cs with
      | nil => intro failed; unfold copytree.go; exact Emits.pure _
      | cons c cs ihc =>
        intro failed
        unfold copytree.go
        refine Emits.read_bind fun fs' => ?_
        refine Emits.bind ?_ fun r => ihc _
        split
        · exact Emits.sys _
        · exact ih _ _
        · exact em_copy2 _ _
        · exact Emits.pure _
    unfold copytree
    refine Emits.read_bind fun fs => ?_
    refine Emits.bind (em_makedirs _ _ _) fun r => ?_
    split
    · exact Emits.pure _
    · refine Emits.bind (hgo _ _) fun failed => ?_
      refine Emits.bind (em_copystat _ _) fun r2 => ?_
      split
      · exact Emits.pure _
      · exact Emits.pure _

theorem em_rmInner : ∀ (fuel : Nat) (p : CPath), Emits P (rmInner fuel p) := by
  intro fuel
  induction fuel with
  | zero => intro p; unfold rmInner; exact Emits.pure _
  | succ fuel ih =>
    intro p
    have hgo : ∀ cs : List CPath, Emits P (rmInner.go fuel cs) := by
      intro cs
      induction cs with
      | nil => unfold rmInner.go; exact Emits.pure _
      | cons c cs ihc =>
        unfold rmInner.go
        refine Emits.read_bind fun fs' => ?_
        split
        · refine Emits.bind (ih _) fun r => ?_
          split
          · exact Emits.pure _
          · refine Emits.bind (Emits.sys _) fun r => ?_
            split
            · exact Emits.pure _
            · exact ihc
        · refine Emits.bind (Emits.sys _) fun r => ?_
          split
          · exact Emits.pure _
          · exact ihc
    unfold rmInner
    exact Emits.read_bind fun fs => hgo _

theorem em_rmtree (p : CPath) : Emits P (rmtree p) := by
  unfold rmtree
  refine Emits.read_bind fun fs => ?_
  split
  · exact Emits.pure _
  · exact Emits.pure _
  · exact Emits.pure _
  · refine Emits.bind (em_rmInner _ _) fun r => ?_
    split
    · exact Emits.pure _
    · exact Emits.sys _

theorem em_removeFile (p : CPath) : Emits P (removeFile p) := by
  unfold removeFile
  refine Emits.read_bind fun fs => ?_
  split
  · refine Emits.bind (Emits.sys _) fun r => ?_
    split
    · exact Emits.pure _
    · exact em_rmtree p
  · exact Emits.pure _

theorem em_move (src dst : CPath) : Emits P (move src dst) := by
  unfold move
  refine Emits.read_bind fun fs => ?_
  simp only []
  generalize (if isdirC fs dst = true then (followC fs dst).getD dst ++ [src.getLast?.getD []] else dst) = realDst
  split
  · exact Emits.sys _
  · split
    · exact Emits.pure _
    · refine Emits.bind (Emits.sys _) fun r => ?_
      split
      · exact Emits.pure _
      · refine Emits.read_bind fun fs' => ?_
        split
        · refine Emits.bind (Emits.sys _) fun r => ?_
          split
          · exact Emits.pure _
          · exact Emits.sys _
        · split
          · exact Emits.pure _
          · refine Emits.bind (em_copytree _ _ _) fun r => ?_
            split
            · exact Emits.pure _
            · exact em_rmtree _
        · refine Emits.bind (em_copy2 _ _) fun r => ?_
          split
          · exact Emits.pure _
          · exact Emits.sys _
        · exact Emits.pure _

theorem em_restoreCore (src dst info : Except Errno CPath) : Emits P (restoreCore src dst info) := by
  unfold restoreCore
  split
  · refine Emits.bind (em_move _ _) fun r => ?_
    split
    · exact Emits.pure _
    · split
      · exact em_removeFile _
      · exact Emits.pure _
  · exact Emits.pure _
  · exact Emits.pure _

theorem em_restoreOne (cwd : CPath) (ow : Bool) (e : Entry) : Emits P (restoreOne cwd ow e) := by
  unfold restoreOne
  refine Emits.read_bind fun fs => ?_
  split
  · exact Emits.pure _
  · refine Emits.bind ?_ fun mk => ?_
    · split
      · exact Emits.pure _
      · split
        · exact Emits.pure _
        · exact em_makedirs _ _ _
    · split
      · exact Emits.pure _
      · refine Emits.read_bind fun fs2 => ?_
        refine Emits.bind ?_ fun cl => ?_
        · split
          · unfold atPath
            refine Emits.read_bind fun fs3 => ?_
            split
            · exact em_removeFile _
            · exact Emits.pure _
          · exact Emits.pure _
        · split
          · exact Emits.pure _
          · exact Emits.read_bind fun fs4 => em_restoreCore _ _ _

theorem em_restoreMany (cwd : CPath) (ow : Bool) : ∀ es : List Entry, Emits P (restoreMany cwd ow es) := by
  intro es
  induction es with
  | nil => exact Emits.pure _
  | cons e es ih =>
    unfold restoreMany
    refine Emits.bind (em_restoreOne cwd ow e) fun r => ?_
    split
    · exact Emits.pure _
    · exact ih

theorem em_emitAll : ∀ os : List Out, (∀ o ∈ os, P o) → Emits P (emitAll os) := by
  intro os
  induction os with
  | nil => intro _; exact Emits.pure _
  | cons o os ih =>
    intro h
    unfold emitAll
    exact Emits.bind (Emits.say (h o List.mem_cons_self)) fun _ => ih fun o' h' => h o' (List.mem_cons_of_mem _ h')

end emits

/-! ### the exit status after "die" -/

def IsStd (o : Out) : Prop := ∃ l, o = Out.stdout l

/-- only standard output was added -/
def StdOnly (s s' : RunState) : Prop := ∀ o ∈ s'.outs, o ∈ s.outs ∨ IsStd o

theorem StdOnly.trans {a c d : RunState} (h1 : StdOnly a c) (h2 : StdOnly c d) : StdOnly a d := by
  intro o ho
  rcases h2 o ho with h | h
  · exact h1 o h
  · exact Or.inr h

theorem stdOnly_of_emits {α} (φ : Oracle) {p : Prog α} (h : Emits IsStd p) (s : RunState) : StdOnly s (run φ p s).2 :=
  Emits.sound φ p s h

/-- exit status 1, or only standard output was added -/
def Q (s : RunState) (x : CmdResult × RunState) : Prop := x.1.exit = 1 ∨ StdOnly s x.2

theorem lines_std (offered : List Entry) :
    ∀ x ∈ ((List.range offered.length).filterMap fun i => (offered[i]?).map fun e => Out.stdout (restoreLine i e)),
      IsStd x := by
  intro x hx
  obtain ⟨i, _, hi⟩ := List.mem_filterMap.1 hx
  obtain ⟨e, _, rfl⟩ := Option.map_eq_some_iff.1 hi
  exact ⟨_, rfl⟩

theorem runRestore_Q (φ : Oracle) (c : ReadCfg) (o : RestoreOpts) (reply : Bytes) (s : RunState) :
    Q s (run φ (runRestore c o (some reply)) s) := by
  unfold runRestore
  rw [run_read_bind]
  simp only []
  generalize sortEntries _ _ = offered
  split
  · right
    exact stdOnly_of_emits φ (Emits.bind (Emits.say ⟨_, rfl⟩) fun _ => Emits.pure _) s
  · rw [run_bind]
    have h1 := stdOnly_of_emits φ (em_emitAll _ (lines_std offered)) s
    revert h1
    generalize (run φ (emitAll _) s).2 = s1
    intro h1
    split
    · right
      exact h1.trans (stdOnly_of_emits φ (Emits.bind (Emits.say ⟨_, rfl⟩) fun _ => Emits.pure _) s1)
    · split
      · left; rfl
      · left; rfl
      · rw [run_bind]
        split
        · right
          exact h1.trans (stdOnly_of_emits φ (em_restoreMany _ _ _) s1)
        · left; rfl

/-- `refusal_exit_nonzero` needs the "die" event not to be in the output already (the statement
    quantifies over every initial run state, including ones whose `outs` already contain it). -/
theorem refusal_exit_nonzero_partial (φ : Oracle) (c : ReadCfg) (o : RestoreOpts) (reply : Bytes) (s : RunState)
    (hfresh : Out.stderr "die" [] ∉ s.outs)
    (r : CmdResult) (s' : RunState) (hr : run φ (runRestore c o (some reply)) s = (r, s'))
    (hdie : Out.stderr "die" [] ∈ s'.outs) : r.exit = 1 := by
  have := runRestore_Q φ c o reply s
  rw [hr] at this
  rcases this with h | h
  · exact h
  · rcases h _ hdie with h | ⟨l, h⟩
    · exact absurd h hfresh
    · cases h

/-! ### --overwrite -/

/-- `overwrite_replaces_nondir` under the two hypotheses it needs: the payload does not lie below
    the destination (possible only in an ill-formed tree, where a non-directory has children), and
    the info path is not a directory containing the destination (`remove_file(info)` would
    `rmtree` it). -/
theorem overwrite_replaces_nondir_partial (fs : FS) (src dst info : CPath) (nsrc ndst : Node)
    (hs : fs.get src = some nsrc) (hd : fs.get dst = some ndst) (hsd : nsrc.isDir = false) (hdd : ndst.isDir = false)
    (hdl : ndst.isLink = false)
    (hnm : fs.isMount src = false ∧ fs.isMount dst = false) (hdev : fs.dev (FS.parent src) = fs.dev (FS.parent dst))
    (hpar : fs.isDirAt (FS.parent dst) = true) (hne : src ≠ dst) (hnr : dst ≠ [])
    (hname : ∀ n, dst.getLast? = some n → n.length ≤ 255) (_hinfo : info ≠ dst ∧ info ≠ src)
    (hds : ¬ FS.under dst src = true) (hid : ¬ FS.under info dst = true) :
    let r := run noFaults (restoreCore (.ok src) (.ok dst) (.ok info)) { fs := fs }
    r.2.fs.get dst = some nsrc ∧ r.2.fs.get src = none := by
  rw [under_iff] at hds hid
  obtain ⟨c, x, rfl⟩ := C07.exists_snoc hnr
  obtain ⟨m, t, hc⟩ := isDirAt_get (by simpa [parent] using hpar : fs.isDirAt c = true)
  have hx : x.length ≤ 255 := hname x (by simp)
  have hidir : isdirC fs (c ++ [x]) = false := by
    cases ndst with
    | dir m t => cases hdd
    | link t => cases hdl
    | file d m t => simp [isdirC, statC, followC, hd, Node.isDir]
  have hcp : checkParent fs (c ++ [x]) = .ok () := C17.checkParent_ok hc hx
  have hdev' : fs.dev (List.dropLast src) = fs.dev c := by simpa [parent] using hdev
  have hr : fs.rename src (c ++ [x]) = .ok (touchDir (touchDir (moveTree fs src (c ++ [x])) (parent src)) c) := by
    unfold FS.rename
    simp [hs, hd, hnm.1, hnm.2, parent, hdev', hcp, hne, hsd, hdd, Bind.bind, Except.bind]
  have hmove : run noFaults (move src (c ++ [x])) { fs := fs } =
      (.ok (), { fs := touchDir (touchDir (moveTree fs src (c ++ [x])) (parent src)) c, hist := [fs],
                 trace := [(.rename src (c ++ [x]), .ok ())], n := 1 }) := by
    unfold move
    rw [run_read_bind]
    simp only [hidir, Bool.false_eq_true, false_and, if_false]
    rw [run_bind, run_sys]
    simp only [Call.apply, hr]
    rfl
  have hrun : run noFaults (restoreCore (.ok src) (.ok (c ++ [x])) (.ok info)) { fs := fs } =
      run noFaults (removeFile info) (run noFaults (move src (c ++ [x])) { fs := fs }).2 := by
    show run noFaults (move src (c ++ [x]) >>= _) _ = _
    rw [run_bind, hmove]
  -- the state after the rename
  have e1 : touch ((touchDir (touchDir (moveTree fs src (c ++ [x])) (parent src)) c).get (c ++ [x])) = touch (some nsrc) := by
    rw [C15.touch_get_touchDir, C15.touch_get_touchDir, get_moveTree', if_pos (List.prefix_refl _)]
    simp [hs]
  have e2 : (touchDir (touchDir (moveTree fs src (c ++ [x])) (parent src)) c).get src = none := by
    apply touch_eq_none.1
    rw [C15.touch_get_touchDir, C15.touch_get_touchDir, get_moveTree', if_neg hds, if_pos (List.prefix_refl _)]
    rfl
  have key : ∀ s1 : RunState, s1.fs = touchDir (touchDir (moveTree fs src (c ++ [x])) (parent src)) c →
      (run noFaults (removeFile info) s1).2.fs.get (c ++ [x]) = some nsrc ∧
      (run noFaults (removeFile info) s1).2.fs.get src = none := by
    intro s1 hs1
    constructor
    · have := (Iss.inv noFaults (fun y => touch (y.get (c ++ [x])) = touch (some nsrc))
        (touch_keep _ (fun r (hr : info <+: r) e => hid (e ▸ hr))) _ s1 (iss_removeFile info) (by rw [hs1]; exact e1)).1
      refine C15.touch_nondir this ?_
      intro m t e
      cases e; cases hsd
    · exact (Iss.inv noFaults (fun y => y.get src = none) (none_keep src) _ s1 (iss_removeFile info) (by rw [hs1]; exact e2)).1
  show (run noFaults (restoreCore (.ok src) (.ok (c ++ [x])) (.ok info)) { fs := fs }).2.fs.get (c ++ [x]) = some nsrc ∧ _
  rw [hrun, hmove]
  exact key _ rfl

/-! ### --overwrite with a missing payload; a dangling link on the way to the destination -/

/-- `shutil.move` of a source that is not there: `rename` fails (`ENOENT`, or whatever the oracle
    injects), the fallback finds nothing to copy; nothing changes -/
theorem move_missing (φ : Oracle) (src dst : CPath) (s : RunState) (h : s.fs.get src = none) :
    (∃ er, (run φ (move src dst) s).1 = .error er) ∧ (run φ (move src dst) s).2.fs = s.fs := by
  have hren : ∀ d, ∃ er, run φ (sys (.rename src d)) s = (.error er, C17.after s (.rename src d) (.error er) s.fs) := by
    intro d
    rcases C17.sys_cases φ (.rename src d) s with h1 | ⟨fs', _, ha, _⟩
    · exact h1
    · exfalso; simp [Call.apply, FS.rename, h] at ha
  unfold move
  rw [run_read_bind]
  simp only []
  generalize (if isdirC s.fs dst = true then (followC s.fs dst).getD dst ++ [src.getLast?.getD []] else dst) = realDst
  split
  · obtain ⟨er, he⟩ := hren dst
    rw [he]; exact ⟨⟨er, rfl⟩, rfl⟩
  · split
    · exact ⟨⟨_, rfl⟩, rfl⟩
    · rw [run_bind]
      obtain ⟨er, he⟩ := hren realDst
      rw [he]
      simp only [run_read_bind, C17.after_fs, h]
      exact ⟨⟨_, rfl⟩, rfl⟩

theorem overwrite_keeps_destination_when_payload_missing (φ : Oracle) (cwd : CPath) (e : Entry) (s : RunState)
    (hpar : pIsdir s.fs cwd (dirname e.loc) = true)
    (hpay : pLexists s.fs cwd (pathOfBackupCopy e.info) = false) :
    let r := run φ (restoreOne cwd true e) s
    (∃ er, r.1 = .error er) ∧ r.2.fs = s.fs := by
  intro r
  have hr : r = run φ (restoreOne cwd true e) s := rfl
  unfold restoreOne at hr
  rw [run_read_bind, if_neg (by simp)] at hr
  simp only [hpar, if_true] at hr
  rw [run_bind] at hr
  simp only [run_pure, run_read_bind, hpay, Bool.false_eq_true, false_and, and_false, if_false] at hr
  rw [run_bind] at hr
  simp only [run_pure, run_read_bind] at hr
  rw [hr]
  unfold pLexists lstat at hpay
  cases hsrc : resolve s.fs cwd (pathOfBackupCopy e.info) with
  | error er => exact ⟨⟨er, rfl⟩, rfl⟩
  | ok p =>
    rw [hsrc] at hpay
    have hp : s.fs.get p = none := by simpa using hpay
    cases hdst : resolve s.fs cwd e.loc with
    | error er => exact ⟨⟨er, rfl⟩, rfl⟩
    | ok d =>
      obtain ⟨⟨er, h1⟩, h2⟩ := move_missing φ p d s hp
      unfold restoreCore
      simp only []
      rw [run_bind]
      generalize run φ (move p d) s = rm at h1 h2
      obtain ⟨res, sm⟩ := rm
      simp only at h1 h2
      subst h1
      exact ⟨⟨er, rfl⟩, h2⟩

theorem restore_blocked_by_dangling_parent (φ : Oracle) (cwd : CPath) (overwrite : Bool) (e : Entry) (s : RunState)
    (er : Errno)
    (hnd : pIsdir s.fs cwd (dirname e.loc) = false)
    (hd : danglingOnPath s.fs cwd (dirname e.loc) = some er)
    (hfree : overwrite = false → pLexists s.fs cwd e.loc = false) :
    let r := run φ (restoreOne cwd overwrite e) s
    r.1 = .error er ∧ r.2.fs = s.fs ∧ r.2.trace = s.trace := by
  intro r
  have hr : r = run φ (restoreOne cwd overwrite e) s := rfl
  unfold restoreOne at hr
  have hc : ¬ ((¬ overwrite = true) ∧ pLexists s.fs cwd e.loc = true) := by
    rintro ⟨h1, h2⟩
    rw [hfree (by simpa using h1)] at h2
    cases h2
  rw [run_read_bind, if_neg hc] at hr
  simp only [hnd, hd, Bool.false_eq_true, if_false] at hr
  rw [run_bind] at hr
  simp only [run_pure] at hr
  rw [hr]
  exact ⟨rfl, rfl, rfl⟩


/-! non-vacuity: concrete worlds, evaluated through the twins of Proofs/C16Eval.lean -/

namespace Ex
open TrashVerif.Proofs.C16Eval

def dN : Node := .dir 0o755 0
/-- `/d/f` is there (say, restored a moment ago); the trash `/t` still lists `f.trashinfo`, but
    `/t/files/f` is gone -/
def fsGone : FS := FS.ofList [([], dN), ([b "d"], dN), ([b "d", b "f"], .file [1] 0o644 0), ([b "t"], dN),
  ([b "t", b "files"], dN), ([b "t", b "info"], dN), ([b "t", b "info", b "f.trashinfo"], .file [2] 0o600 0)] [[]]
def entF : Entry := { loc := b "/d/f", date := none, info := b "/t/info/f.trashinfo" }

theorem hyps_gone : pIsdir fsGone [] (dirname entF.loc) = true ∧
    pLexists fsGone [] (pathOfBackupCopy entF.info) = false ∧ pLexists fsGone [] entF.loc = true := by
  rw [pIsdir_eq, pLexists_eq, pLexists_eq]; decide +kernel

/-- `/d -> /nowhere` (missing); the trash `/t` holds `f` -/
def fsLink : FS := FS.ofList [([], dN), ([b "d"], .link (b "/nowhere")), ([b "t"], dN),
  ([b "t", b "files"], dN), ([b "t", b "files", b "f"], .file [1] 0o644 0), ([b "t", b "info"], dN),
  ([b "t", b "info", b "f.trashinfo"], .file [2] 0o600 0)] [[]]
/-- original location `/d/f`: the parent is the dangling link itself -/
def entOn : Entry := { loc := b "/d/f", date := none, info := b "/t/info/f.trashinfo" }
/-- original location `/d/sub/f`: the dangling link is a proper prefix of the parent -/
def entThrough : Entry := { loc := b "/d/sub/f", date := none, info := b "/t/info/f.trashinfo" }

theorem hyps_on : pIsdir fsLink [] (dirname entOn.loc) = false ∧
    danglingOnPath fsLink [] (dirname entOn.loc) = some .EEXIST ∧ pLexists fsLink [] entOn.loc = false := by
  rw [pIsdir_eq, danglingOnPath_eq, pLexists_eq]; decide +kernel

theorem hyps_through : pIsdir fsLink [] (dirname entThrough.loc) = false ∧
    danglingOnPath fsLink [] (dirname entThrough.loc) = some .ENOENT ∧ pLexists fsLink [] entThrough.loc = false := by
  rw [pIsdir_eq, danglingOnPath_eq, pLexists_eq]; decide +kernel

end Ex

/-! ### the statements as first written are false -/

def cexCfg : ReadCfg := { cwd := [], env := {}, uid := 0, mountPoints := [] }
/-- an empty world, in a run state whose output already contains the "die" event -/
def cexSt : RunState := { fs := FS.ofList [([], .dir 0o755 0)] [], outs := [Out.stderr "die" []] }

/-- `refusal_exit_nonzero` without `hfresh` is FALSE: nothing is trashed, trash-restore prints
    "No files trashed …" and exits 0, and the "die" event that was already in `outs` is still there. -/
theorem refusal_exit_nonzero_counterexample :
    ∃ (φ : Oracle) (c : ReadCfg) (o : RestoreOpts) (reply : Bytes) (s : RunState) (r : CmdResult) (s' : RunState),
      run φ (runRestore c o (some reply)) s = (r, s') ∧ Out.stderr "die" [] ∈ s'.outs ∧ r.exit ≠ 1 := by
  have h3 : Out.stderr "die" [] ∈ (run noFaults (runRestore cexCfg { sort := .none } (some [])) cexSt).2.outs := by
    decide +kernel
  exact ⟨noFaults, cexCfg, { sort := .none }, [], cexSt, _, _, rfl, h3, by decide⟩

/-- an ill-formed tree: the file `/a` has the "child" `/a/b`, which has the "child" `/a/b/b` -/
def cexFsB : FS := FS.ofList [([], .dir 0o755 0), ([[97]], .file [] 0o644 0), ([[97], [98]], .file [1] 0o644 0),
  ([[97], [98], [98]], .file [2] 0o644 0)] []

/-- `overwrite_replaces_nondir` without `hds` is FALSE: restoring `/a/b` over `/a` in `cexFsB`
    (info file absent) leaves the former `/a/b/b` at `/a/b`. -/
theorem overwrite_replaces_nondir_counterexample :
    ∃ (fs : FS) (src dst info : CPath) (nsrc ndst : Node),
      fs.get src = some nsrc ∧ fs.get dst = some ndst ∧ nsrc.isDir = false ∧ ndst.isDir = false ∧ ndst.isLink = false ∧
      (fs.isMount src = false ∧ fs.isMount dst = false) ∧ fs.dev (FS.parent src) = fs.dev (FS.parent dst) ∧
      fs.isDirAt (FS.parent dst) = true ∧ src ≠ dst ∧ dst ≠ [] ∧ (∀ n, dst.getLast? = some n → n.length ≤ 255) ∧
      (info ≠ dst ∧ info ≠ src) ∧
      ¬ ((run noFaults (restoreCore (.ok src) (.ok dst) (.ok info)) { fs := fs }).2.fs.get dst = some nsrc ∧
         (run noFaults (restoreCore (.ok src) (.ok dst) (.ok info)) { fs := fs }).2.fs.get src = none) := by
  have h : (run noFaults (restoreCore (.ok [[97], [98]]) (.ok [[97]]) (.ok [[122]])) { fs := cexFsB }).2.fs.get [[97], [98]]
      = some (.file [2] 0o644 0) := by decide +kernel
  refine ⟨cexFsB, [[97], [98]], [[97]], [[122]], .file [1] 0o644 0, .file [] 0o644 0, by decide +kernel, by decide +kernel,
    rfl, rfl, rfl, ⟨by decide +kernel, by decide +kernel⟩, by decide +kernel, by decide +kernel, by decide, by decide, ?_,
    ⟨by decide, by decide⟩, ?_⟩
  · intro n hn
    simp only [List.getLast?_singleton, Option.some.injEq] at hn
    subst hn; decide
  · intro hh
    rw [h] at hh
    cases hh.2

/-- … and without `hid` it is FALSE as well: with `info = /d` a directory and `dst = /d/f`, the
    `rmtree(/d)` fallback of `remove_file(info)` deletes the restored file.  (Checked by evaluation:
    the kernel cannot unfold `List.mergeSort`, which `rmtree` reaches through `sortedChildren`.) -/
def cexFsC : FS := FS.ofList [([], .dir 0o755 0), ([[100]], .dir 0o755 0), ([[100], [102]], .file [] 0o644 0),
  ([[115]], .file [1] 0o644 0)] []
#guard (run noFaults (restoreCore (.ok [[115]]) (.ok [[100], [102]]) (.ok [[100]])) { fs := cexFsC }).2.fs.get [[100], [102]]
  == none

end TrashVerif.Proofs.C06
