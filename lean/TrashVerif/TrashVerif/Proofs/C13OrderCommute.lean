/-
  Proofs/C13OrderCommute.lean — entries that are pairwise apart can be restored in any order.
-/
import TrashVerif.Proofs.C13Order
namespace TrashVerif.Proofs.C13Order
open TrashVerif Prog FS PutCore PutLemmas C09Hist C13Cmd C13Order
open TrashVerif.Proofs.C13Cmd
open TrashVerif.Proofs.C09Hist (GeoI not_concat_pfx info_ne_dir isFileAt_get)
open TrashVerif.Proofs.C10Loop (pay_not_pfx_info)

/-! ### the touched directories, exactly -/

/-- the three directories a restore of `it` writes into have the fresh mtime afterwards -/
structure Touched1 (I F : CPath) (it : Item) (fs fs1 : FS) : Prop where
  tI : fs1.get I = touch (fs.get I)
  tF : fs1.get F = touch (fs.get F)
  tP : fs1.get (parent it.dst) = touch (fs.get (parent it.dst))

theorem touched1_of_ok {fs : FS} {I F : CPath} {it : Item} (inv : TrashInv fs I F)
    (hinfo : isTrashinfoName it.name = true) (ok : Op.ok fs I F (.restore it.name it.dst))
    (s : RunState) (hs : s.fs = fs) :
    Touched1 I F it fs
      (run noFaults (restoreCore (.ok (F ++ [stemOf it.name])) (.ok it.dst) (.ok (I ++ [it.name]))) s).2.fs := by
  have g := GeoI.of_inv inv
  have gi := gi_of_ok hinfo ok
  obtain ⟨hfile, hsrc, hnm, hdst, hnr, hlen, hpar, hdev, -⟩ := ok
  unfold payloadOf at hsrc hnm
  obtain ⟨d, m, t, hi⟩ := isFileAt_get hfile
  have hname : ∀ n, it.dst.getLast? = some n → n.length ≤ 255 := by
    intro n hn; rw [hn] at hlen; exact hlen
  have hpa : parent (F ++ [stemOf it.name]) = F := parent_concat _ _
  have hpi : parent (I ++ [it.name]) = I := parent_concat _ _
  have hdev' : fs.dev (parent (F ++ [stemOf it.name])) = fs.dev (parent it.dst) := by rw [hpa]; exact hdev
  have hsd : ¬ F ++ [stemOf it.name] <+: it.dst := fun e => gi.Fd ((List.prefix_append F _).trans e)
  have hIn : I <+: I ++ [it.name] := List.prefix_append I [it.name]
  have hFa : F <+: F ++ [stemOf it.name] := List.prefix_append F _
  have I_pd : I ≠ parent it.dst := fun e => gi.Id (e ▸ parent_pfx _)
  have F_pd : F ≠ parent it.dst := fun e => gi.Fd (e ▸ parent_pfx _)
  have pd_d : ¬ it.dst <+: parent it.dst := not_pfx_parent_self gi.ne
  have pd_a : ¬ F ++ [stemOf it.name] <+: parent it.dst := fun e => gi.Fd ((hFa.trans e).trans (parent_pfx _))
  have info_pd : I ++ [it.name] ≠ parent it.dst := fun e => gi.Id (hIn.trans (e ▸ parent_pfx _))
  have info_d : ¬ it.dst <+: I ++ [it.name] := fun e => child_vs gi.Id gi.dI (List.prefix_refl _) e
  have info_a : ¬ F ++ [stemOf it.name] <+: I ++ [it.name] := pay_not_pfx_info g _ _
  have hM : ∀ q, ¬ it.dst <+: q → ¬ F ++ [stemOf it.name] <+: q →
      (moveTree fs (F ++ [stemOf it.name]) it.dst).get q = fs.get q := by
    intro q h1 h2; rw [get_moveTree', if_neg h1, if_neg h2]
  have hi' : (fsC fs (F ++ [stemOf it.name]) it.dst (parent it.dst)).get (I ++ [it.name]) = some (.file d m t) := by
    rw [fsC_get, if_neg info_pd, hpa, if_neg (Ne.symm (g.F_ne_info it.name)), hM _ info_d info_a, hi]
  obtain ⟨na, hna⟩ := Option.isSome_iff_exists.1 hsrc
  obtain ⟨dm, dt, hp⟩ := isDirAt_get hpar
  obtain ⟨r1, r2⟩ := Proofs.C09.restore_spec hdst hna hnm hdev' hnr hname hp hsd hi'
  obtain ⟨k1, k2⟩ := Proofs.C16Indep.run_noFaults_fs
    (restoreCore (.ok (F ++ [stemOf it.name])) (.ok it.dst) (.ok (I ++ [it.name]))) s { fs := fs } hs
  rw [k2, r2]
  have I_d : ¬ it.dst <+: I := gi.dI
  have I_a : ¬ F ++ [stemOf it.name] <+: I := g.P_I _
  have F_d : ¬ it.dst <+: F := gi.dF
  have F_a : ¬ F ++ [stemOf it.name] <+: F := not_concat_pfx F _
  refine ⟨?_, ?_, ?_⟩
  · rw [Proofs.C09.fsR, get_touchDir, hpi, if_pos rfl, get_removeNode, if_neg (Ne.symm (info_ne_dir I it.name)),
      fsC_get, if_neg I_pd, hpa, if_neg g.I_ne_F, hM I I_d I_a]
  · rw [Proofs.C09.fsR, get_touchDir, hpi, if_neg (Ne.symm g.I_ne_F), get_removeNode,
      if_neg (g.F_ne_info it.name), fsC_get, if_neg F_pd, hpa, if_pos rfl, hM F F_d F_a]
  · rw [Proofs.C09.fsR, get_touchDir, hpi, if_neg (Ne.symm I_pd), get_removeNode, if_neg (Ne.symm info_pd),
      fsC_get, if_pos rfl, hpa, if_neg (Ne.symm F_pd), hM _ pd_d pd_a]

/-- every directory the run writes into — `info/`, `files/`, the parents of the destinations — has the
    fresh mtime afterwards (and is otherwise what it was) -/
def TouchedAll (I F : CPath) (D : List Item) (fs fs' : FS) : Prop :=
  ∀ q, (q = I ∨ q = F ∨ ∃ d ∈ D, q = parent d.dst) → fs'.get q = touch (fs.get q)

theorem restoreMany_touched (cwd : CPath) (ov : Bool) (I F : CPath) :
    ∀ (items : List Item) (s : RunState), RSetting s.fs cwd I F items → items ≠ [] →
      TouchedAll I F items s.fs (run noFaults (restoreMany cwd ov (items.map (·.e))) s).2.fs := by
  intro items
  induction items with
  | nil => intro s _ h; exact absurd rfl h
  | cons it rest ih =>
    intro s S _
    have g := GeoI.of_inv S.inv
    have hmem : it ∈ it :: rest := List.mem_cons_self
    have gi := rsetting_gi S hmem
    have hap := List.pairwise_cons.1 S.apart
    obtain ⟨r1, r2, r3, r4⟩ := S.resolves s.fs (reach_refl _ _ _ _) it hmem
    have ok := S.ok it hmem
    have hone := restoreOne_resolved noFaults cwd ov it.e s r1 r2 r3 r4 ok.2.2.2.1 ok.2.2.2.2.2.2.1
    obtain ⟨hok, R⟩ := restored1_of_ok S.inv (S.isInfo it hmem) ok s rfl
    have T1 := touched1_of_ok S.inv (S.isInfo it hmem) ok s rfl
    rw [← hone] at hok R T1
    show TouchedAll I F (it :: rest) s.fs (run noFaults (restoreMany cwd ov (it.e :: rest.map (·.e))) s).2.fs
    rw [restoreMany, run_bind, hok]
    simp only []
    have S1 := rsetting_step S R
    obtain ⟨_, P⟩ := restoreMany_loop cwd ov I F rest _ S1
    -- a directory of the rest, or `info/`, `files/`: touched by the rest, and not in the footprint of `it`
    have viaRest : rest ≠ [] → ∀ q, (q = I ∨ q = F ∨ ∃ d ∈ rest, q = parent d.dst) →
        (run noFaults (restoreMany cwd ov (rest.map (·.e))) (run noFaults (restoreOne cwd ov it.e) s).2).2.fs.get q =
          touch (s.fs.get q) := by
      intro hne q hq
      have hnf : ¬ Foot I F it q := by
        rcases hq with rfl | rfl | ⟨d, hd, rfl⟩
        · exact not_foot_I g gi
        · exact not_foot_F g gi
        · exact not_foot_parent (rsetting_gi S (List.mem_cons_of_mem _ hd)) (Or.inr (hap.1 d hd))
      have h1 := ih _ S1 hne q hq
      have h2 := R.upTo q hnf
      rw [fresh_eq, fresh_eq] at h2
      rw [h1, h2]
    intro q hq
    by_cases hr : rest = []
    · subst hr
      have e := P.nothing rfl
      show (run noFaults (restoreMany cwd ov []) (run noFaults (restoreOne cwd ov it.e) s).2).2.fs.get q = _
      have e' : (run noFaults (restoreMany cwd ov []) (run noFaults (restoreOne cwd ov it.e) s).2).2.fs =
          (run noFaults (restoreOne cwd ov it.e) s).2.fs := rfl
      rw [e']
      rcases hq with rfl | rfl | ⟨d, hd, rfl⟩
      · exact T1.tI
      · exact T1.tF
      · rw [List.mem_singleton] at hd; subst hd; exact T1.tP
    · by_cases hq' : q = I ∨ q = F ∨ ∃ d ∈ rest, q = parent d.dst
      · exact viaRest hr q hq'
      · have hqp : q = parent it.dst := by
          rcases hq with h | h | ⟨d, hd, h⟩
          · exact absurd (Or.inl h) hq'
          · exact absurd (Or.inr (Or.inl h)) hq'
          · rcases List.mem_cons.1 hd with rfl | hd'
            · exact h
            · exact absurd (Or.inr (Or.inr ⟨d, hd', h⟩)) hq'
        rw [P.frame q (fun h => hq' (Or.inl h)) (fun h => hq' (Or.inr (Or.inl h))) fun d hd =>
          ⟨by rw [hqp]; exact not_foot_parent gi (Or.inr (apart_symm (hap.1 d hd))),
           fun h => hq' (Or.inr (Or.inr ⟨d, hd, h⟩))⟩]
        rw [hqp]; exact T1.tP

/-! ### the final state is determined by the SET of restored entries -/

theorem same_of_restored {fs fs1 fs2 : FS} {I F : CPath} {D D' : List Item} (hmem : ∀ it, it ∈ D' ↔ it ∈ D)
    (P1 : RestoredExactly fs fs1 I F D) (T1 : D ≠ [] → TouchedAll I F D fs fs1)
    (P2 : RestoredExactly fs fs2 I F D') (T2 : D' ≠ [] → TouchedAll I F D' fs fs2) : SameFS fs1 fs2 := by
  by_cases hD : D = []
  · have hD' : D' = [] := by
      cases D' with
      | nil => rfl
      | cons x xs => exact absurd ((hmem x).1 List.mem_cons_self) (by rw [hD]; simp)
    rw [P1.nothing hD, P2.nothing hD']
    exact ⟨fun _ => rfl, rfl⟩
  · have hD' : D' ≠ [] := by
      intro h
      cases D with
      | nil => exact hD rfl
      | cons x xs => exact absurd ((hmem x).2 List.mem_cons_self) (by rw [h]; simp)
    refine ⟨fun q => ?_, P1.mounts.trans P2.mounts.symm⟩
    by_cases hfoot : ∃ it ∈ D, Foot I F it q
    · obtain ⟨it, hit, hf⟩ := hfoot
      have hit' := (hmem it).2 hit
      rcases hf with rfl | hf | hf
      · rw [P1.infoGone it hit, P2.infoGone it hit']
      · obtain ⟨rel, rfl⟩ := hf
        rw [P1.payloadGone it hit rel, P2.payloadGone it hit' rel]
      · obtain ⟨rel, rfl⟩ := hf
        rw [P1.back it hit rel, P2.back it hit' rel]
    · by_cases hdir : q = I ∨ q = F ∨ ∃ d ∈ D, q = parent d.dst
      · have hdir' : q = I ∨ q = F ∨ ∃ d ∈ D', q = parent d.dst := by
          rcases hdir with h | h | ⟨d, hd, h⟩
          · exact Or.inl h
          · exact Or.inr (Or.inl h)
          · exact Or.inr (Or.inr ⟨d, (hmem d).2 hd, h⟩)
        rw [T1 hD q hdir, T2 hD' q hdir']
      · have c1 : ∀ it ∈ D, ¬ Foot I F it q ∧ q ≠ parent it.dst := fun it hit =>
          ⟨fun h => hfoot ⟨it, hit, h⟩, fun h => hdir (Or.inr (Or.inr ⟨it, hit, h⟩))⟩
        rw [P1.frame q (fun h => hdir (Or.inl h)) (fun h => hdir (Or.inr (Or.inl h))) c1,
          P2.frame q (fun h => hdir (Or.inl h)) (fun h => hdir (Or.inr (Or.inl h))) fun it hit => c1 it ((hmem it).1 hit)]

/-! ### permutations -/

theorem perm_map_lift {α β : Type} (f : α → β) : ∀ {l1 l2 : List β}, l1.Perm l2 → ∀ sel : List α, sel.map f = l1 →
    ∃ sel' : List α, sel'.Perm sel ∧ sel'.map f = l2 := by
  intro l1 l2 h
  induction h with
  | nil => intro sel hs; exact ⟨sel, List.Perm.refl _, hs⟩
  | cons x _ ih =>
    intro sel hs
    obtain ⟨a, t, rfl, ha, ht⟩ := List.map_eq_cons_iff.1 hs
    obtain ⟨t', p, e⟩ := ih t ht
    exact ⟨a :: t', p.cons a, by rw [List.map_cons, ha, e]⟩
  | swap x y l =>
    intro sel hs
    obtain ⟨a, t, rfl, ha, ht⟩ := List.map_eq_cons_iff.1 hs
    obtain ⟨c, t2, rfl, hc, ht2⟩ := List.map_eq_cons_iff.1 ht
    exact ⟨c :: a :: t2, List.Perm.swap a c t2, by rw [List.map_cons, List.map_cons, ha, hc, ht2]⟩
  | trans _ _ ih1 ih2 =>
    intro sel hs
    obtain ⟨s1, p1, e1⟩ := ih1 sel hs
    obtain ⟨s2, p2, e2⟩ := ih2 s1 e1
    exact ⟨s2, p2.trans p1, e2⟩

theorem rsetting_perm {fs : FS} {cwd I F : CPath} {items items' : List Item} (S : RSetting fs cwd I F items)
    (h : items'.Perm items) : RSetting fs cwd I F items' :=
  ⟨S.inv, fun it hit => S.isInfo it (h.mem_iff.1 hit), fun it hit => S.ok it (h.mem_iff.1 hit),
   (List.Perm.pairwise_iff (fun h => apart_symm h) h).2 S.apart,
   fun fs' hR it hit => S.resolves fs' (reach_mono hR fun _ hx => h.mem_iff.1 hx) it (h.mem_iff.1 hit)⟩

/-! ### the command -/

/-- `restore_selects_exactly`, with the touched directories -/
theorem selects_touched (fs : FS) (c : ReadCfg) (o : RestoreOpts) (reply : Bytes) (I F : CPath)
    (idxs : List Nat) (sel : List Item)
    (hreply : parseIndexes reply (offered fs c o).length = .ok idxs)
    (hsel : selected (offered fs c o) idxs = sel.map (·.e))
    (S : RSetting fs c.cwd I F sel) (hne : sel ≠ []) :
    TouchedAll I F sel fs (run noFaults (runRestore c o (some reply)) { fs := fs }).2.fs := by
  rw [runRestore_run]
  have h0 : offered fs c o ≠ [] := by
    intro h0
    rw [h0, selected_nil] at hsel
    exact hne (List.map_eq_nil_iff.1 hsel.symm)
  rw [if_neg h0]
  simp only [if_neg (Proofs.C02Cmd.reply_ne_nil hreply), hreply, hsel]
  obtain ⟨a, _⟩ := restoreMany_loop c.cwd o.overwrite I F sel (listed c o { fs := fs }) S
  rw [a]
  exact restoreMany_touched c.cwd o.overwrite I F sel (listed c o { fs := fs }) S hne

theorem entries_commute (fs : FS) (c : ReadCfg) (o : RestoreOpts) (reply reply' : Bytes) (I F : CPath)
    (idxs idxs' : List Nat) (sel : List Item)
    (hreply : parseIndexes reply (offered fs c o).length = .ok idxs)
    (hreply' : parseIndexes reply' (offered fs c o).length = .ok idxs')
    (hperm : idxs'.Perm idxs)
    (hsel : selected (offered fs c o) idxs = sel.map (·.e))
    (S : RSetting fs c.cwd I F sel) :
    (run noFaults (runRestore c o (some reply)) { fs := fs }).1.exit = 0 ∧
    (run noFaults (runRestore c o (some reply')) { fs := fs }).1.exit = 0 ∧
    (run noFaults (runRestore c o (some reply)) { fs := fs }).1.crash = none ∧
    (run noFaults (runRestore c o (some reply')) { fs := fs }).1.crash = none ∧
    SameFS (run noFaults (runRestore c o (some reply)) { fs := fs }).2.fs
      (run noFaults (runRestore c o (some reply')) { fs := fs }).2.fs ∧
    RestoredExactly fs (run noFaults (runRestore c o (some reply')) { fs := fs }).2.fs I F sel := by
  have hp : (selected (offered fs c o) idxs).Perm (selected (offered fs c o) idxs') := by
    unfold selected; exact (hperm.filterMap _).symm
  obtain ⟨sel', psel, hsel'⟩ := perm_map_lift (·.e) hp sel hsel.symm
  have S' := rsetting_perm S psel
  obtain ⟨a1, a2, P⟩ := restore_selects_exactly fs c o reply I F idxs sel hreply hsel S
  obtain ⟨b1, b2, P'⟩ := restore_selects_exactly fs c o reply' I F idxs' sel' hreply' hsel'.symm S'
  have same := same_of_restored (fun it => psel.mem_iff) P
    (fun hne => selects_touched fs c o reply I F idxs sel hreply hsel S hne) P'
    (fun hne => selects_touched fs c o reply' I F idxs' sel' hreply' hsel'.symm S' hne)
  refine ⟨a1, b1, a2, b2, same, ?_⟩
  -- `RestoredExactly` speaks of the SET of items
  exact ⟨fun it hit => P'.back it (psel.mem_iff.2 hit), fun it hit => P'.infoGone it (psel.mem_iff.2 hit),
    fun it hit => P'.payloadGone it (psel.mem_iff.2 hit),
    fun q hI hF h => P'.frame q hI hF fun it hit => h it (psel.mem_iff.1 hit),
    fun q h => P'.upToMtime q fun it hit => h it (psel.mem_iff.1 hit), P'.mounts,
    fun h => P'.nothing (by subst h; exact psel.eq_nil)⟩

end TrashVerif.Proofs.C13Order
