/-
  Proofs/C09Hist.lean — proofs of the statements of Props/C09Hist.lean: every operation on one trash
  directory preserves `TrashInv` and refines `specStep` on the bag; induction over histories.
-/
import TrashVerif.Props.C09HistDefs
namespace TrashVerif.Proofs.C09Hist
open TrashVerif Prog FS PutCore PutLemmas C09 C09Hist

/-! ### small facts -/

theorem isDirAt_of_get {fs : FS} {p : CPath} {m t : Nat} (h : fs.get p = some (.dir m t)) :
    fs.isDirAt p = true := by
  simp [isDirAt, h, Node.isDir]

theorem isDirAt_of_touch {fs fs' : FS} {p : CPath} (h : fs.isDirAt p = true)
    (e : fs'.get p = touch (fs.get p)) : fs'.isDirAt p = true := by
  obtain ⟨m, t, hg⟩ := isDirAt_get h
  rw [hg] at e
  exact isDirAt_of_get e

theorem isDirAt_of_kept {fs fs' : FS} {p : CPath} (h : fs.isDirAt p = true) (k : keptDir fs fs' p) :
    fs'.isDirAt p = true := by
  obtain ⟨m, t, hg⟩ := isDirAt_get h
  obtain ⟨t', e⟩ := k m t hg
  exact isDirAt_of_get e

/-- the geometry of the invariant, on `<+:` -/
structure GeoI (I F : CPath) : Prop where
  hIF : ¬ I <+: F
  hFI : ¬ F <+: I

theorem GeoI.of_inv {fs : FS} {I F : CPath} (h : TrashInv fs I F) : GeoI I F :=
  ⟨fun e => h.apartIF ((under_iff _ _).2 e), fun e => h.apartFI ((under_iff _ _).2 e)⟩

section geoI
variable {I F : CPath} (g : GeoI I F) (t n : Name)
include g

theorem GeoI.P_I : ¬ F ++ [t] <+: I := fun e => g.hFI ((List.prefix_append F [t]).trans e)
theorem GeoI.I_P : ¬ I <+: F ++ [t] := by
  rw [pfx_concat]; rintro (e | e)
  · exact g.hFI (e ▸ List.prefix_append F [t])
  · exact g.hIF e
theorem GeoI.I_ne_F : I ≠ F := fun e => g.hIF (e ▸ List.prefix_refl I)
theorem GeoI.F_ne_info : F ≠ I ++ [n] := fun e => g.hIF (e ▸ List.prefix_append I [n])
end geoI

theorem not_concat_pfx (F : CPath) (t : Name) : ¬ F ++ [t] <+: F := fun h => by
  have := h.length_le; simp only [List.length_append, List.length_singleton] at this; omega

theorem info_ne_dir (I : CPath) (n : Name) : I ++ [n] ≠ I := by
  intro h; simpa using congrArg List.length h

/-! ### `dom` stays a superset of the support -/

theorem dom_touchDir (fs : FS) (p : CPath) : (fs.touchDir p).dom = fs.dom := by
  unfold touchDir; split <;> rfl

theorem touch_isSome (o : Option Node) : (touch o).isSome = o.isSome := by
  rcases o with _ | (_ | _ | _) <;> rfl

theorem domwf_touchDir {fs : FS} (p : CPath) (h : DomWf fs) : DomWf (fs.touchDir p) := by
  intro q hq
  rw [dom_touchDir]
  apply h
  rw [get_touchDir] at hq
  by_cases e : q = p
  · rw [if_pos e, touch_isSome] at hq; rw [e]; exact hq
  · rw [if_neg e] at hq; exact hq

theorem domwf_setNode {fs : FS} (p : CPath) (n : Node) (h : DomWf fs) : DomWf (fs.setNode p n) := by
  intro q hq
  show q ∈ p :: fs.dom
  rw [get_setNode] at hq
  by_cases e : q = p
  · rw [e]; exact List.mem_cons_self
  · rw [if_neg e] at hq; exact List.mem_cons_of_mem _ (h q hq)

theorem domwf_removeNode {fs : FS} (p : CPath) (h : DomWf fs) : DomWf (fs.removeNode p) := by
  intro q hq
  show q ∈ fs.dom
  rw [get_removeNode] at hq
  by_cases e : q = p
  · rw [if_pos e] at hq; cases hq
  · rw [if_neg e] at hq; exact h q hq

theorem domwf_moveTree {fs : FS} (a c : CPath) (h : DomWf fs) : DomWf (fs.moveTree a c) := by
  intro q hq
  show q ∈ (fs.dom.filterMap fun q => if under a q then some (c ++ q.drop a.length) else none) ++ fs.dom
  rw [get_moveTree'] at hq
  by_cases h1 : c <+: q
  · rw [if_pos h1] at hq
    refine List.mem_append_left _ (List.mem_filterMap.2 ⟨a ++ q.drop c.length, h _ hq, ?_⟩)
    have hu : under a (a ++ q.drop c.length) = true := (under_iff _ _).2 (List.prefix_append _ _)
    obtain ⟨t, rfl⟩ := h1
    rw [List.drop_left] at hu ⊢
    simp [hu]
  · rw [if_neg h1] at hq
    by_cases h2 : a <+: q
    · rw [if_pos h2] at hq; cases hq
    · rw [if_neg h2] at hq; exact List.mem_append_right _ (h q hq)

/-! ### put -/

theorem setting_of {fs : FS} {I F src : CPath} {base content : Bytes} (inv : TrashInv fs I F)
    (ok : Op.ok fs I F (.put src base content)) : Setting fs I F src := by
  obtain ⟨h1, h2, h3, h4, h5, h6, h7, h8⟩ := ok
  exact ⟨inv.infoDir, inv.filesDir, ⟨inv.apartIF, inv.apartFI⟩, h1, h2, h3, h4, ⟨h5, h6⟩, ⟨h7, h8⟩⟩

theorem step_put {fs : FS} {I F src : CPath} {base content : Bytes} (st : PutSt) (inv : TrashInv fs I F)
    (ok : Op.ok fs I F (.put src base content)) :
    TrashInv (applyOp I F (fs, st) (.put src base content)).1.1 I F ∧
    bag (applyOp I F (fs, st) (.put src base content)).1.1 I =
      specStep (bag fs I) (applyOp I F (fs, st) (.put src base content)).2 ∧
    (∀ name c, (applyOp I F (fs, st) (.put src base content)).2 = some (.added name c) →
      c = content ∧ bag fs I name = none ∧ fs.get (payloadOf F name) = none ∧
      name = stemOf name ++ trashinfoExt ∧
      ∀ rel, (applyOp I F (fs, st) (.put src base content)).1.1.get (payloadOf F name ++ rel) = fs.get (src ++ rel)) ∧
    ((applyOp I F (fs, st) (.put src base content)).2 = none →
      (applyOp I F (fs, st) (.put src base content)).1.1 = fs) ∧
    (∀ name, (applyOp I F (fs, st) (.put src base content)).2 ≠ some (.removed name)) ∧
    (DomWf fs → DomWf (applyOp I F (fs, st) (.put src base content)).1.1) := by
  have hS := setting_of inv ok
  have cs := core_spec base content st { fs := fs } hS
  simp only [applyOp]
  generalize hrun : run noFaults (putCore I F base content (fun _ => .ok src) st) { fs := fs } = r at cs
  obtain ⟨⟨res, st'⟩, s'⟩ := r
  cases res with
  | error e =>
    rcases cs with ⟨e', _, b, _⟩ | ⟨nm, a, _⟩
    · simp only at b
      have b' : s' = { s' with fs := fs } := by rw [← b]
      rw [b']
      exact ⟨inv, rfl, (fun _ _ h => nomatch h), (fun _ => rfl), (fun _ h => nomatch h), (fun h => h)⟩
    · cases a
  | ok name =>
    have T := C01.put_ok_moves_whole fs I F src base content st st' hS name s' hrun
    have A := Proofs.C09.put_adds_one fs I F src base content st st' hS name s' hrun
    have hst : name = stemOf name ++ trashinfoExt ∧
        s'.fs = fsC (fsB fs (I ++ [name]) content) src (F ++ [stemOf name]) F := by
      rcases cs with ⟨e', a, _⟩ | ⟨nm, a, hst, _, _, hfs, _⟩
      · cases a
      · simp only at a hfs; cases a; exact ⟨hst, hfs⟩
    obtain ⟨hst, hfs⟩ := hst
    refine ⟨⟨isDirAt_of_kept inv.infoDir T.dirs.2.2, isDirAt_of_kept inv.filesDir T.dirs.2.1, inv.apartIF, inv.apartFI⟩,
      ?_, ?_, (fun h => nomatch h), (fun _ h => nomatch h), fun hw => ?_⟩
    · funext n
      show bag s'.fs I n = if n = name then some (infoNode content) else bag fs I n
      by_cases hn : n = name
      · rw [if_pos hn, hn]; exact A.2.1
      · rw [if_neg hn]; exact A.2.2 n hn
    · intro nm c h
      have h' : some (Event.added name content) = some (Event.added nm c) := h
      simp only [Option.some.injEq, Event.added.injEq] at h'
      obtain ⟨rfl, rfl⟩ := h'
      exact ⟨rfl, A.1, T.wasFreePayload, hst, T.whole⟩
    · show DomWf s'.fs
      rw [hfs]
      exact domwf_touchDir _ (domwf_touchDir _ (domwf_moveTree _ _
        (domwf_setNode _ _ (domwf_touchDir _ (domwf_setNode _ _ hw)))))

/-! ### purge -/

/-- what the removal of the payload cannot disturb -/
def InvP (fs0 : FS) (I F : CPath) (fs : FS) : Prop :=
  (∀ n, fs.get (I ++ [n]) = fs0.get (I ++ [n])) ∧ fs.isDirAt I = true ∧ fs.isDirAt F = true ∧
  fs.mounts = fs0.mounts ∧ (DomWf fs0 → DomWf fs)

theorem InvP.preserves {fs0 : FS} {I F : CPath} (g : GeoI I F) (t : Name) :
    ∀ c, Proofs.C09.KUnder (F ++ [t]) c → ∀ fs fs', InvP fs0 I F fs → c.apply fs = .ok fs' → InvP fs0 I F fs' := by
  intro c hc fs fs' hi ha
  have key : ∀ q, F ++ [t] <+: q → InvP fs0 I F (touchDir (removeNode fs q) (parent q)) := by
    intro q hq
    obtain ⟨hb, hI, hF, hm, hw⟩ := hi
    refine ⟨Proofs.C09.bag_after_remove (g.P_I t) (g.I_P t) hq hb, ?_, ?_, by simp [hm],
      fun h0 => domwf_touchDir _ (domwf_removeNode _ (hw h0))⟩
    · have a : I ≠ q := fun e => g.P_I t (e ▸ hq)
      by_cases c : I = parent q
      · refine isDirAt_of_touch hI ?_
        rw [get_touchDir, if_pos c, ← c, get_removeNode, if_neg a]
      · obtain ⟨m, t', hg⟩ := isDirAt_get hI
        refine isDirAt_of_get (m := m) (t := t') ?_
        rw [get_touchDir, if_neg c, get_removeNode, if_neg a, hg]
    · have a : F ≠ q := fun e => not_concat_pfx F t (e ▸ hq)
      by_cases c : F = parent q
      · refine isDirAt_of_touch hF ?_
        rw [get_touchDir, if_pos c, ← c, get_removeNode, if_neg a]
      · obtain ⟨m, t', hg⟩ := isDirAt_get hF
        refine isDirAt_of_get (m := m) (t := t') ?_
        rw [get_touchDir, if_neg c, get_removeNode, if_neg a, hg]
  rcases hc with ⟨q, rfl, hq⟩ | ⟨q, rfl, hq⟩
  · rw [Proofs.C09.unlink_inv ha]; exact key q hq
  · rw [Proofs.C09.rmdir_inv ha]; exact key q hq

/-- `remove_file2` on a path that is not a directory: absent → ENOENT twice, nothing changes;
    a regular file or a symlink → one successful `unlink` -/
theorem removeFile2_nondir {p : CPath} {s : RunState} (h : s.fs.isDirAt p = false) :
    ((run noFaults (removeFile2 p) s).1 = .ok () ∧ (s.fs.get p).isSome = true ∧
      (run noFaults (removeFile2 p) s).2.fs = touchDir (removeNode s.fs p) (parent p)) ∨
    ((∃ e, (run noFaults (removeFile2 p) s).1 = .error e) ∧ s.fs.get p = none ∧
      (run noFaults (removeFile2 p) s).2.fs = s.fs) := by
  cases hg : s.fs.get p with
  | none =>
    right
    have hu : s.fs.unlink p = .error .ENOENT := by simp [FS.unlink, hg]
    unfold removeFile2 rmtree
    simp [run_bind, run_sys, Call.apply, hu, hg]
  | some nd =>
    left
    have hu : s.fs.unlink p = .ok (touchDir (removeNode s.fs p) (parent p)) := by
      cases nd with
      | dir m t => simp [isDirAt, hg, Node.isDir] at h
      | file d m t => simp [FS.unlink, hg]
      | link t => simp [FS.unlink, hg]
    unfold removeFile2
    simp [run_bind, run_sys, Call.apply, hu]

theorem step_purge {fs : FS} {I F : CPath} {name : Bytes} (st : PutSt) (inv : TrashInv fs I F)
    (ok : Op.ok fs I F (.purge name)) :
    TrashInv (applyOp I F (fs, st) (.purge name)).1.1 I F ∧
    bag (applyOp I F (fs, st) (.purge name)).1.1 I =
      specStep (bag fs I) (applyOp I F (fs, st) (.purge name)).2 ∧
    ((applyOp I F (fs, st) (.purge name)).2 = some (.removed name) ∨
     (applyOp I F (fs, st) (.purge name)).2 = none) ∧
    ((applyOp I F (fs, st) (.purge name)).2 = some (.removed name) → (bag fs I name).isSome = true) ∧
    (DomWf fs → DomWf (applyOp I F (fs, st) (.purge name)).1.1) := by
  have g := GeoI.of_inv inv
  have ok' : fs.isDirAt (I ++ [name]) = false := ok
  have hsound := C04.Iss.sound (Inv := InvP fs I F) noFaults (InvP.preserves g (stemOf name))
    (removeIfExists (F ++ [stemOf name])) { fs := fs }
    (Proofs.C09.iss_removeIfExists List.prefix_rfl) ⟨fun _ => rfl, inv.infoDir, inv.filesDir, rfl, fun h => h⟩
  simp only [applyOp, payloadOf]
  unfold purgePair removeIfExistsR removeFile2R
  simp only [run_bind]
  generalize run noFaults (removeIfExists (F ++ [stemOf name])) { fs := fs } = r1 at hsound
  obtain ⟨res, s1⟩ := r1
  obtain ⟨⟨hbag, hI, hF, _, hw1⟩, _⟩ := hsound
  simp only at hbag hI hF
  have inv1 : TrashInv s1.fs I F := ⟨hI, hF, inv.apartIF, inv.apartFI⟩
  have bag1 : bag s1.fs I = bag fs I := funext hbag
  cases res with
  | error e =>
    exact ⟨inv1, bag1, Or.inr rfl, (fun h => nomatch h), hw1⟩
  | ok u =>
    cases u
    simp only
    have hnd : s1.fs.isDirAt (I ++ [name]) = false := by
      unfold isDirAt at ok' ⊢; rw [hbag]; exact ok'
    rcases removeFile2_nondir hnd with ⟨a, hsome, c⟩ | ⟨⟨e, a⟩, _, c⟩
    · rw [a, c]
      refine ⟨⟨?_, ?_, inv.apartIF, inv.apartFI⟩, ?_, Or.inl rfl, (fun _ => ?_),
        fun h0 => domwf_touchDir _ (domwf_removeNode _ (hw1 h0))⟩
      · refine isDirAt_of_touch hI ?_
        rw [get_touchDir, parent, dropLast_concat, if_pos rfl, get_removeNode, if_neg (info_ne_dir I name).symm]
      · obtain ⟨m, t', hg⟩ := isDirAt_get hF
        refine isDirAt_of_get (m := m) (t := t') ?_
        rw [get_touchDir, parent, dropLast_concat, if_neg (Ne.symm g.I_ne_F), get_removeNode,
          if_neg (g.F_ne_info name), hg]
      · funext n
        show (touchDir (removeNode s1.fs (I ++ [name])) (parent (I ++ [name]))).get (I ++ [n]) =
          if n = name then none else bag fs I n
        rw [get_touchDir, parent, dropLast_concat, if_neg (info_ne_dir I n), get_removeNode]
        by_cases hn : n = name
        · rw [if_pos hn, if_pos (by rw [hn])]
        · rw [if_neg hn, if_neg (fun e => hn (Proofs.C09.concat_inj e).2)]
          exact hbag n
      · rw [← bag1]; exact hsome
    · rw [a, c]
      exact ⟨inv1, bag1, Or.inr rfl, (fun h => nomatch h), hw1⟩

theorem removeIfExists_nondir_ok {p : CPath} {s : RunState} (h : s.fs.isDirAt p = false) :
    (run noFaults (removeIfExists p) s).1 = .ok () := by
  unfold removeIfExists
  rw [run_read_bind]
  by_cases hl : lexistsC s.fs p = true
  · rw [if_pos hl]
    rcases removeFile2_nondir h with ⟨a, _, _⟩ | ⟨_, hn, _⟩
    · exact a
    · simp [lexistsC, hn] at hl
  · rw [if_neg hl]; rfl

/-- a purge does remove the entry when the info file is there and the payload is not a directory
    (absent, a regular file, a symlink) -/
theorem purge_succeeds {fs : FS} {I F : CPath} {name : Bytes} (st : PutSt) (inv : TrashInv fs I F)
    (ok : Op.ok fs I F (.purge name)) (hthere : (bag fs I name).isSome = true)
    (hpay : fs.isDirAt (payloadOf F name) = false) :
    (applyOp I F (fs, st) (.purge name)).2 = some (.removed name) := by
  have g := GeoI.of_inv inv
  have ok' : fs.isDirAt (I ++ [name]) = false := ok
  have hbag := Proofs.C09.removeIfExists_bag noFaults I (F ++ [stemOf name]) (g.P_I _) (g.I_P _) { fs := fs }
  have h1 := removeIfExists_nondir_ok (s := { fs := fs }) hpay
  simp only [applyOp, payloadOf] at hpay h1 ⊢
  unfold purgePair removeIfExistsR removeFile2R
  simp only [run_bind]
  generalize run noFaults (removeIfExists (F ++ [stemOf name])) { fs := fs } = r1 at hbag h1
  obtain ⟨res, s1⟩ := r1
  simp only at hbag h1
  subst h1
  simp only
  have hnd : s1.fs.isDirAt (I ++ [name]) = false := by
    unfold isDirAt at ok' ⊢; rw [hbag]; exact ok'
  rcases removeFile2_nondir hnd with ⟨a, _, _⟩ | ⟨_, hn, _⟩
  · rw [a]; rfl
  · rw [hbag] at hn
    unfold bag at hthere
    rw [hn] at hthere; cases hthere

/-! ### restore -/

theorem isFileAt_get {fs : FS} {p : CPath} (h : isFileAt fs p = true) : ∃ d m t, fs.get p = some (.file d m t) := by
  unfold isFileAt at h
  split at h
  · next nd hg => cases nd <;> simp_all [Node.isFile]
  · cases h

theorem step_restore {fs : FS} {I F dst : CPath} {name : Bytes} (st : PutSt) (inv : TrashInv fs I F)
    (ok : Op.ok fs I F (.restore name dst)) :
    TrashInv (applyOp I F (fs, st) (.restore name dst)).1.1 I F ∧
    bag (applyOp I F (fs, st) (.restore name dst)).1.1 I =
      specStep (bag fs I) (applyOp I F (fs, st) (.restore name dst)).2 ∧
    (applyOp I F (fs, st) (.restore name dst)).2 = some (.removed name) ∧
    (∀ rel, (applyOp I F (fs, st) (.restore name dst)).1.1.get (dst ++ rel) = fs.get (payloadOf F name ++ rel)) ∧
    (DomWf fs → DomWf (applyOp I F (fs, st) (.restore name dst)).1.1) := by
  have g := GeoI.of_inv inv
  obtain ⟨hfile, hsrc, hnm, hdst, hnr, hlen, hpar, hdev, hdI, hdF, hId, hFd⟩ := ok
  rw [under_iff] at hdI hdF hId hFd
  obtain ⟨d, m, t, hi⟩ := isFileAt_get hfile
  have hname : ∀ n, dst.getLast? = some n → n.length ≤ 255 := by
    intro n hn; rw [hn] at hlen; exact hlen
  have hdev' : fs.dev (parent (payloadOf F name)) = fs.dev (parent dst) := by
    rw [payloadOf, parent, dropLast_concat]; exact hdev
  -- geometry of payload / destination
  have hsd : ¬ payloadOf F name <+: dst := fun e => hFd ((List.prefix_append F _).trans e)
  have hds : ¬ dst <+: payloadOf F name := by
    unfold payloadOf; rw [pfx_concat]; rintro (e | e)
    · exact hFd (e ▸ List.prefix_append F _)
    · exact hdF e
  have hapart : ¬ FS.under (payloadOf F name) dst = true ∧ ¬ FS.under dst (payloadOf F name) = true ∧
      ¬ FS.under (payloadOf F name) I = true ∧ ¬ FS.under dst I = true ∧
      ¬ FS.under I (payloadOf F name) = true ∧ ¬ FS.under I dst = true := by
    simp only [under_iff]
    exact ⟨hsd, hds, g.P_I _, hdI, g.I_P _, hId⟩
  have R := Proofs.C09.restore_removes_one fs I name (payloadOf F name) dst d m t hi hsrc hnm hdst hpar hdev'
    hname hnr hapart
  -- the final state, for the invariant
  obtain ⟨na, hna⟩ := Option.isSome_iff_exists.1 hsrc
  obtain ⟨dm, dt, hp⟩ := isDirAt_get hpar
  have hIn : I <+: I ++ [name] := List.prefix_append I [name]
  have hmtI : ∀ q, ¬ dst <+: q → ¬ payloadOf F name <+: q → q ≠ parent dst → q ≠ F →
      (fsC fs (payloadOf F name) dst (parent dst)).get q = fs.get q := by
    intro q h1 h2 h3 h4
    have h4' : q ≠ parent (payloadOf F name) := by rw [payloadOf, parent, dropLast_concat]; exact h4
    rw [fsC_get, if_neg h3, if_neg h4', get_moveTree', if_neg h1, if_neg h2]
  have hi' : (fsC fs (payloadOf F name) dst (parent dst)).get (I ++ [name]) = some (.file d m t) := by
    rw [hmtI _ ?_ ?_ ?_ (Ne.symm (g.F_ne_info name)), hi]
    · rw [pfx_concat]; rintro (e | e)
      · exact hId (e ▸ hIn)
      · exact hdI e
    · rw [pfx_concat]; rintro (e | e)
      · exact g.I_P _ (e ▸ hIn)
      · exact g.P_I _ e
    · exact Proofs.C09.ne_parent_of_pfx fun e => hId (hIn.trans e)
  obtain ⟨r1, r2⟩ := Proofs.C09.restore_spec hdst hna hnm hdev' hnr hname hp hsd hi'
  simp only [applyOp]
  obtain ⟨R1, R2, R3, R4⟩ := R
  rw [R1]
  refine ⟨⟨?_, ?_, inv.apartIF, inv.apartFI⟩, ?_, rfl, R4, fun hw => ?_⟩
  · -- info/ is still a directory
    rw [r2]
    refine isDirAt_of_touch inv.infoDir ?_
    rw [Proofs.C09.fsR, get_touchDir, parent, dropLast_concat, if_pos rfl, get_removeNode,
      if_neg (info_ne_dir I name).symm]
    rw [hmtI I hdI (g.P_I _) (Proofs.C09.ne_parent_of_pfx hId) g.I_ne_F]
  · -- files/ is still a directory
    rw [r2]
    refine isDirAt_of_touch inv.filesDir ?_
    have hFpd : F ≠ parent dst := Proofs.C09.ne_parent_of_pfx hFd
    have hps : parent (payloadOf F name) = F := by rw [payloadOf, parent, dropLast_concat]
    rw [Proofs.C09.fsR, get_touchDir, parent, dropLast_concat, if_neg (Ne.symm g.I_ne_F), get_removeNode,
      if_neg (g.F_ne_info name), fsC_get, if_neg hFpd, hps, if_pos rfl, get_moveTree', if_neg hdF,
      if_neg (show ¬ payloadOf F name <+: F from not_concat_pfx F _)]
  · funext n
    show bag _ I n = if n = name then none else bag fs I n
    by_cases hn : n = name
    · rw [if_pos hn, hn]; exact R2
    · rw [if_neg hn]; exact R3 n hn
  · show DomWf (run noFaults _ _).2.fs
    rw [r2]
    exact domwf_touchDir _ (domwf_removeNode _ (domwf_touchDir _ (domwf_touchDir _ (domwf_moveTree _ _ hw))))

/-! ### every operation: invariant and refinement -/

theorem step_inv {fs : FS} {I F : CPath} (st : PutSt) (op : Op) (inv : TrashInv fs I F) (ok : Op.ok fs I F op) :
    TrashInv (applyOp I F (fs, st) op).1.1 I F := by
  cases op with
  | put src base content => exact (step_put st inv ok).1
  | purge name => exact (step_purge st inv ok).1
  | restore name dst => exact (step_restore st inv ok).1

theorem step_refines {fs : FS} {I F : CPath} (st : PutSt) (op : Op) (inv : TrashInv fs I F) (ok : Op.ok fs I F op) :
    bag (applyOp I F (fs, st) op).1.1 I = specStep (bag fs I) (applyOp I F (fs, st) op).2 := by
  cases op with
  | put src base content => exact (step_put st inv ok).2.1
  | purge name => exact (step_purge st inv ok).2.1
  | restore name dst => exact (step_restore st inv ok).2.1

theorem step_domwf {fs : FS} {I F : CPath} (st : PutSt) (op : Op) (inv : TrashInv fs I F) (ok : Op.ok fs I F op)
    (hw : DomWf fs) : DomWf (applyOp I F (fs, st) op).1.1 := by
  cases op with
  | put src base content => exact (step_put st inv ok).2.2.2.2.2 hw
  | purge name => exact (step_purge st inv ok).2.2.2.2 hw
  | restore name dst => exact (step_restore st inv ok).2.2.2.2 hw

/-! ### histories -/

theorem history (I F : CPath) (ops : List Op) :
    ∀ (σ : FS × PutSt), TrashInv σ.1 I F → HistOk I F σ ops →
      TrashInv (runOps I F σ ops).1.1 I F ∧
      bag (runOps I F σ ops).1.1 I = (runOps I F σ ops).2.foldl specStep (bag σ.1 I) := by
  induction ops with
  | nil => intro σ inv _; exact ⟨inv, rfl⟩
  | cons op ops ih =>
    intro σ inv hok
    obtain ⟨fs, st⟩ := σ
    obtain ⟨ok, hrest⟩ := hok
    have i1 := step_inv st op inv ok
    have b1 := step_refines st op inv ok
    obtain ⟨i2, b2⟩ := ih (applyOp I F (fs, st) op).1 i1 hrest
    refine ⟨i2, ?_⟩
    simp only [runOps, List.foldl_cons]
    rw [b2, b1]

theorem history_domwf (I F : CPath) (ops : List Op) :
    ∀ (σ : FS × PutSt), TrashInv σ.1 I F → HistOk I F σ ops → DomWf σ.1 → DomWf (runOps I F σ ops).1.1 := by
  induction ops with
  | nil => intro σ _ _ hw; exact hw
  | cons op ops ih =>
    intro σ inv hok hw
    obtain ⟨fs, st⟩ := σ
    obtain ⟨ok, hrest⟩ := hok
    exact ih (applyOp I F (fs, st) op).1 (step_inv st op inv ok) hrest (step_domwf st op inv ok hw)

/-! ### the specification on lists of names -/

theorem support_step (bg : Bag) (l : List Bytes) (ev : Option Event)
    (h : ∀ n, n ∈ l ↔ (bg n).isSome = true) :
    ∀ n, n ∈ liveStep l ev ↔ (specStep bg ev n).isSome = true := by
  intro n
  cases ev with
  | none => exact h n
  | some e =>
    cases e with
    | added name content =>
      show n ∈ name :: l ↔ (if n = name then some (infoNode content) else bg n).isSome = true
      by_cases hn : n = name
      · rw [if_pos hn, hn]; simp
      · rw [if_neg hn, List.mem_cons, ← h n]; simp [hn]
    | removed name =>
      show n ∈ l.filter (· ≠ name) ↔ (if n = name then none else bg n).isSome = true
      by_cases hn : n = name
      · rw [if_pos hn, hn]; simp
      · rw [if_neg hn, List.mem_filter, ← h n]; simp [hn]

theorem support_fold (evs : List (Option Event)) :
    ∀ (bg : Bag) (l : List Bytes), (∀ n, n ∈ l ↔ (bg n).isSome = true) →
      ∀ n, n ∈ liveNames l evs ↔ (evs.foldl specStep bg n).isSome = true := by
  induction evs with
  | nil => intro bg l h; exact h
  | cons ev evs ih =>
    intro bg l h
    exact ih (specStep bg ev) (liveStep l ev) (support_step bg l ev h)

/-! ### what a listing of `info/` sees -/

theorem mem_infoNames {fs : FS} {I : CPath} (hw : DomWf fs) (n : Bytes) :
    n ∈ infoNames fs I ↔ (bag fs I n).isSome = true := by
  unfold infoNames sortedChildren children bag
  simp only [List.mem_filterMap, List.mem_mergeSort, List.mem_eraseDups, List.mem_filter, Bool.and_eq_true,
    decide_eq_true_eq, isPrefix, exists_, List.isPrefixOf_iff_prefix]
  constructor
  · rintro ⟨q, ⟨_, ⟨hl, ⟨t, rfl⟩⟩, hs⟩, hlast⟩
    have ht : t.length = 1 := by simpa using hl
    obtain ⟨x, rfl⟩ := List.length_eq_one_iff.1 ht
    rw [List.getLast?_concat] at hlast
    cases hlast
    exact hs
  · intro hs
    exact ⟨I ++ [n], ⟨hw _ hs, ⟨by simp, List.prefix_append _ _⟩, hs⟩, List.getLast?_concat⟩

theorem nodup_eraseDups {α} [BEq α] [LawfulBEq α] : ∀ (k : Nat) (l : List α), l.length = k → l.eraseDups.Nodup := by
  intro k
  induction k using Nat.strongRecOn with
  | _ k ih =>
    intro l hl
    cases l with
    | nil => simp
    | cons a as =>
      rw [List.eraseDups_cons, List.nodup_cons]
      refine ⟨fun hm => ?_, ih _ ?_ _ rfl⟩
      · have := (List.mem_filter.1 (List.mem_eraseDups.1 hm)).2
        simp at this
      · have := List.length_filter_le (fun b => !b == a) as
        simp only [List.length_cons] at hl; omega

theorem nodup_infoNames (fs : FS) (I : CPath) : (infoNames fs I).Nodup := by
  unfold infoNames sortedChildren
  have hc : (children fs I).Nodup := by unfold children; exact nodup_eraseDups _ _ rfl
  have hs := ((List.mergeSort_perm (children fs I)
    fun a c => bytesLe (a.getLast?.getD []) (c.getLast?.getD [])).nodup_iff).2 hc
  have hmem : ∀ q ∈ (children fs I).mergeSort (fun a c => bytesLe (a.getLast?.getD []) (c.getLast?.getD [])),
      ∃ x, q = I ++ [x] := by
    intro q hq
    rw [List.mem_mergeSort] at hq
    unfold children at hq
    rw [List.mem_eraseDups, List.mem_filter] at hq
    have h2 := hq.2
    simp only [Bool.and_eq_true, decide_eq_true_eq, isPrefix, List.isPrefixOf_iff_prefix] at h2
    obtain ⟨⟨hl, ⟨t, rfl⟩⟩, _⟩ := h2
    have ht : t.length = 1 := by simpa using hl
    obtain ⟨x, rfl⟩ := List.length_eq_one_iff.1 ht
    exact ⟨x, rfl⟩
  generalize (children fs I).mergeSort (fun a c => bytesLe (a.getLast?.getD []) (c.getLast?.getD [])) = L at hs hmem
  induction L with
  | nil => simp
  | cons q L ih =>
    rw [List.nodup_cons] at hs
    obtain ⟨x, rfl⟩ := hmem _ List.mem_cons_self
    rw [List.filterMap_cons, List.getLast?_concat]
    simp only
    rw [List.nodup_cons]
    refine ⟨fun hm => ?_, ih hs.2 fun q hq => hmem q (List.mem_cons_of_mem _ hq)⟩
    obtain ⟨q', hq', hl⟩ := List.mem_filterMap.1 hm
    obtain ⟨y, rfl⟩ := hmem q' (List.mem_cons_of_mem _ hq')
    rw [List.getLast?_concat] at hl
    cases hl
    exact hs.1 hq'

/-- when the string `trashDir/info` resolves to the directory `I`, the scan of trash-list /
    trash-rm / trash-empty finds exactly the `.trashinfo` names of the listing of `I` -/
theorem infosOf_resolved {fs : FS} {cwd I : CPath} {p : Bytes}
    (hres : FS.resolve fs cwd (pjoin p (b "info")) true = .ok I) (hd : fs.isDirAt I = true) :
    infosOf fs cwd p =
      .ok (((infoNames fs I).filter isTrashinfoName).map fun n => pjoin (pjoin p (b "info")) n) := by
  obtain ⟨m, t, hg⟩ := isDirAt_get hd
  unfold infosOf entriesIfDirExists pExists stat listdirStr infoNames
  simp only [hres, hg]
  rfl

theorem domwf_ofList (nodes : List (CPath × Node)) (mounts : List CPath) : DomWf (FS.ofList nodes mounts) := by
  intro q hq
  show q ∈ nodes.map (·.1)
  have hq' : ((nodes.find? fun x => decide (x.1 = q)).map (·.2)).isSome = true := hq
  rw [Option.isSome_map] at hq'
  obtain ⟨x, hx⟩ := Option.isSome_iff_exists.1 hq'
  have h1 := List.mem_of_find?_eq_some hx
  have h2 := List.find?_some hx
  simp only [decide_eq_true_eq] at h2
  exact List.mem_map.2 ⟨x, h1, h2⟩

/-! ### the history theorem on names, and what trash-list prints afterwards -/

theorem history_names (I F : CPath) (ops : List Op) (σ : FS × PutSt) (l0 : List Bytes)
    (inv : TrashInv σ.1 I F) (hok : HistOk I F σ ops) (hl0 : ∀ n, n ∈ l0 ↔ (bag σ.1 I n).isSome = true) :
    ∀ n, (bag (runOps I F σ ops).1.1 I n).isSome = true ↔ n ∈ liveNames l0 (runOps I F σ ops).2 := by
  intro n
  rw [(history I F ops σ inv hok).2]
  exact (support_fold _ _ _ hl0 n).symm

theorem list_after_history (φ : Oracle) (cwd : CPath) (p v : Bytes) (I F : CPath) (ops : List Op)
    (σ : FS × PutSt) (l0 : List Bytes)
    (inv : TrashInv σ.1 I F) (hok : HistOk I F σ ops) (hw : DomWf σ.1)
    (hl0 : ∀ n, n ∈ l0 ↔ (bag σ.1 I n).isSome = true)
    (hres : FS.resolve (runOps I F σ ops).1.1 cwd (pjoin p (b "info")) true = .ok I) :
    (run φ (listEvents cwd [.found p v]) { fs := (runOps I F σ ops).1.1 }).2.outs =
      ((((infoNames (runOps I F σ ops).1.1 I).filter isTrashinfoName).map fun n =>
          listOne (runOps I F σ ops).1.1 cwd v (pjoin (pjoin p (b "info")) n))).reverse ∧
    (infoNames (runOps I F σ ops).1.1 I).Nodup ∧
    ∀ n, n ∈ infoNames (runOps I F σ ops).1.1 I ↔ n ∈ liveNames l0 (runOps I F σ ops).2 := by
  have H := history I F ops σ inv hok
  have hw' := history_domwf I F ops σ inv hok hw
  have hi := infosOf_resolved hres H.1.infoDir
  refine ⟨?_, nodup_infoNames _ _, fun n => ?_⟩
  · have := (Proofs.C09.list_is_bag φ cwd p v { fs := (runOps I F σ ops).1.1 } _ hi).1
    rw [this, List.map_map]
    simp only [List.append_nil]
    rfl
  · rw [mem_infoNames hw' n]
    exact history_names I F ops σ l0 inv hok hl0 n

/-! ### the local conditions cannot simply be dropped -/

namespace HCex

def dirN : Node := .dir 0o755 7
/-- `/t/i`: the info directory -/
def I : CPath := [[116], [105]]
/-- `/t/f`: the files directory -/
def F : CPath := [[116], [102]]
/-- `a.trashinfo` -/
def nm : Bytes := [97] ++ trashinfoExt
def st0 : PutSt := ⟨[], []⟩

/-- `/t/i/a.trashinfo` with its payload `/t/f/a` -/
def fsRestore : FS := FS.ofList
  [([], dirN), ([[116]], dirN), (I, dirN), (F, dirN), (I ++ [nm], .file [67] 0o600 0),
   (F ++ [[97]], .file [120] 0o644 3)] [[]]

/-- an entry `/t/i/x` that is put into the very trash directory it lives in -/
def fsPut : FS := FS.ofList
  [([], dirN), ([[116]], dirN), (I, dirN), (F, dirN), (I ++ [[120]], .file [67] 0o600 0)] [[]]

/-- `/t/i/d` is a directory (mtime 7) holding a file and a mount point -/
def fsPurge : FS := FS.ofList
  [([], dirN), ([[116]], dirN), (I, dirN), (F, dirN), (I ++ [[100]], dirN),
   (I ++ [[100], [97]], .file [120] 0o644 3), (I ++ [[100], [109]], dirN)] [[], I ++ [[100], [109]]]

end HCex

open HCex in
/-- Without `Outside … dst` the refinement is FALSE for restore: restoring `a.trashinfo` to the
    destination `/t/i/b` (inside `info/`; every other condition of `Op.ok` holds) reports
    `removed a.trashinfo`, yet the bag also gained the element `b`. -/
theorem restore_into_info_counterexample :
    ∃ (fs : FS) (infoC filesC : CPath) (st : PutSt) (name : Bytes) (dst : CPath),
      TrashInv fs infoC filesC ∧
      isFileAt fs (infoC ++ [name]) = true ∧
      (fs.get (payloadOf filesC name)).isSome = true ∧ fs.isMount (payloadOf filesC name) = false ∧
      fs.get dst = none ∧ dst ≠ [] ∧ (dst.getLast?.getD []).length ≤ 255 ∧
      fs.isDirAt (FS.parent dst) = true ∧ fs.dev filesC = fs.dev (FS.parent dst) ∧
      bag (applyOp infoC filesC (fs, st) (.restore name dst)).1.1 infoC ≠
        specStep (bag fs infoC) (applyOp infoC filesC (fs, st) (.restore name dst)).2 := by
  refine ⟨fsRestore, I, F, st0, nm, I ++ [[98]], ⟨?_, ?_, ?_, ?_⟩, ?_, ?_, ?_, ?_, ?_, ?_, ?_, ?_, fun h => ?_⟩
  all_goals try decide +kernel
  have h' := congrFun h [98]
  revert h'
  decide +kernel

open HCex in
/-- Without `Outside … src` the refinement is FALSE for put: trashing `/t/i/x` (an element of the
    bag itself; every other condition of `Op.ok` holds) reports `added x.trashinfo` only, yet the
    bag lost the element `x`. -/
theorem put_from_info_counterexample :
    ∃ (fs : FS) (infoC filesC : CPath) (st : PutSt) (src : CPath) (base content : Bytes),
      TrashInv fs infoC filesC ∧
      (fs.get src).isSome = true ∧ src ≠ [] ∧ fs.isMount src = false ∧ fs.dev (FS.parent src) = fs.dev filesC ∧
      bag (applyOp infoC filesC (fs, st) (.put src base content)).1.1 infoC ≠
        specStep (bag fs infoC) (applyOp infoC filesC (fs, st) (.put src base content)).2 := by
  refine ⟨fsPut, I, F, st0, I ++ [[120]], [120], [68], ⟨?_, ?_, ?_, ?_⟩, ?_, ?_, ?_, ?_, fun h => ?_⟩
  all_goals try decide +kernel
  have h' := congrFun h [120]
  revert h'
  decide +kernel

/-! The condition of purge (`info/<name>` is not a directory) cannot be dropped either, in the model:
    purging the directory `/t/i/d` of `HCex.fsPurge` falls back to `rmtree`, which unlinks `/t/i/d/a`
    (so `/t/i/d` gets a fresh mtime) and then fails on the mount point `/t/i/d/m` (EBUSY): no event,
    but the node of the element `d` of the bag changed.  Checked by evaluation — the kernel cannot
    unfold `List.mergeSort`, which `rmtree` reaches through `sortedChildren`, so this is a `#guard`. -/
section
open HCex
#guard fsPurge.isDirAt I && fsPurge.isDirAt F && !FS.under I F && !FS.under F I &&
  ((applyOp I F (fsPurge, st0) (.purge [100])).2 == none) &&
  (bag fsPurge I [100] == some (.dir 0o755 7)) &&
  (bag (applyOp I F (fsPurge, st0) (.purge [100])).1.1 I [100] == some (.dir 0o755 0))
end

end TrashVerif.Proofs.C09Hist
