/-
  Proofs/C12Cmd.lean — proofs of the command-level selection theorem of trash-rm
  (Props/C12Cmd.lean): induction over the list of trash directories on top of
  `Proofs.C10Loop.rmInfos_loop`.
-/
import TrashVerif.Props.C12CmdDefs
import TrashVerif.Proofs.C10Loop
import TrashVerif.Proofs.C07Cmd
namespace TrashVerif.Proofs.C12Cmd
open TrashVerif Prog FS PutCore PutLemmas C04 C11 C09Hist C10Loop C12Cmd
open TrashVerif.C07 (Plain GoodNames)
open TrashVerif.Proofs.C09Hist (GeoI isDirAt_of_get domwf_touchDir domwf_removeNode nodup_infoNames infosOf_resolved)
open TrashVerif.Proofs.C10Loop
open TrashVerif.Proofs.C16IndepHome (pjoin_toStr goodNames_append good_info)

/-! ### the loop issues removal calls only: `dom` is kept, `DomWf` is kept -/

def AnyP : CPath → Prop := fun _ => True

theorem iss_purgePair_any (R1 R2 : Except Errno CPath) : Iss InvT (KR AnyP) (purgePair R1 R2) := by
  unfold purgePair removeIfExistsR removeFile2R
  refine Iss.bind ?_ fun r => ?_
  · split
    · exact Iss.mono (fun _ hc => KR.mono (fun _ _ => trivial) hc) (iss_removeIfExists _)
    · exact Iss.pure _
  · split
    · exact Iss.pure _
    · split
      · exact Iss.mono (fun _ hc => KR.mono (fun _ _ => trivial) hc) (iss_removeFile2 _)
      · exact Iss.pure _

theorem iss_rmInfos_any (cwd : CPath) (pattern volume : Bytes) :
    ∀ infos : List Bytes, Iss InvT (KR AnyP) (rmInfos cwd pattern volume infos) := by
  intro infos
  induction infos with
  | nil => exact Iss.pure _
  | cons i rest ih =>
    unfold rmInfos
    refine Iss.read_bind fun fs _ => ?_
    split
    · exact Iss.bind trivial fun _ => ih
    · split
      · exact Iss.bind trivial fun _ => ih
      · split
        · exact Iss.pure _
        · exact ih
        · refine Iss.bind (iss_purgePair_any _ _) fun x => ?_
          split
          · exact Iss.pure _
          · exact ih

theorem rmInfos_keeps (φ : Oracle) (cwd : CPath) (pattern volume : Bytes) (infos : List Bytes) (s : RunState) :
    (DomWf s.fs → DomWf (run φ (rmInfos cwd pattern volume infos) s).2.fs) ∧
    (run φ (rmInfos cwd pattern volume infos) s).2.fs.dom = s.fs.dom := by
  refine ⟨fun hw => ?_, ?_⟩
  · refine (Iss.inv φ DomWf ?_ _ s (iss_rmInfos_any cwd pattern volume infos) hw).1
    intro c hc a a' hj h
    obtain ⟨r, _, rfl, _⟩ := apply_rm hc h
    exact domwf_touchDir _ (domwf_removeNode _ hj)
  · refine (Iss.inv φ (fun x => x.dom = s.fs.dom) ?_ _ s (iss_rmInfos_any cwd pattern volume infos) rfl).1
    intro c hc a a' hj h
    obtain ⟨r, _, rfl, _⟩ := apply_rm hc h
    rw [Proofs.C09Hist.dom_touchDir]; exact hj

/-! ### geometry of trash directories that are apart -/

theorem apart_off {d e : TDir} (h : Apart d e) {q : CPath} (hq : e.T <+: q) : ¬ d.T <+: q := by
  intro hd
  rcases pfx_comparable hd hq with h1 | h1
  · exact h.1 h1
  · exact h.2 h1

theorem apart_symm {d e : TDir} (h : Apart d e) : Apart e d := ⟨h.2, h.1⟩

/-- an ancestor-or-self of `e.T/x` is not at or below `d.T` -/
theorem apart_anc {d e : TDir} (h : Apart d e) {q : CPath} {x : Name} (hq : q <+: e.T ++ [x]) : ¬ d.T <+: q := by
  intro hd
  rcases pfx_concat.1 (hd.trans hq) with e1 | e1
  · exact h.2 (e1 ▸ List.prefix_append _ _)
  · exact h.1 e1

theorem T_pfx_I (d : TDir) : d.T <+: d.I := List.prefix_append _ _
theorem T_pfx_F (d : TDir) : d.T <+: d.F := List.prefix_append _ _

theorem within_off {d : TDir} {fs fs1 : FS} (hW : Within d.I d.F fs fs1) {q : CPath} (hq : ¬ d.T <+: q) :
    fs1.get q = fs.get q := by
  refine hW.same q (fun e => hq (e ▸ T_pfx_I d)) (fun e => hq (e ▸ T_pfx_F d)) (fun h => ?_) (fun h => ?_)
  · exact hq ((T_pfx_I d).trans (su_iff.1 h).1)
  · exact hq ((T_pfx_F d).trans (su_iff.1 h).1)

theorem treeOk_off {fs fs1 : FS} {P : CPath} (hsame : ∀ q, P <+: q → fs1.get q = fs.get q) (hm : fs1.mounts = fs.mounts)
    (h : TreeOk fs P) : TreeOk fs1 P := by
  refine ⟨fun q x hq hx => ?_, fun q hq => ?_⟩
  · have pq := (under_iff _ _).1 hq
    have e1 := hsame q pq
    have e2 := hsame (q ++ [x]) (pq.trans (List.prefix_append _ _))
    rw [e2] at hx
    have := h.closed q x hq hx
    unfold isDirAt at this ⊢; rw [e1]; exact this
  · have := h.noMount q hq
    unfold isMount at this ⊢; rw [hm]; exact this

theorem infoNames_off {fs fs1 : FS} {I : CPath} (hsame : ∀ q, I <+: q → fs1.get q = fs.get q) (hdom : fs1.dom = fs.dom) :
    infoNames fs1 I = infoNames fs I := by
  unfold infoNames sortedChildren children
  rw [hdom]
  have : ∀ q, (decide (q.length = I.length + 1) && isPrefix I q && exists_ fs1 q) =
      (decide (q.length = I.length + 1) && isPrefix I q && exists_ fs q) := by
    intro q
    by_cases hp : isPrefix I q = true
    · have e : fs1.get q = fs.get q := hsame q ((under_iff _ _).1 hp)
      unfold exists_; rw [e]
    · have hp' : isPrefix I q = false := by simpa using hp
      rw [hp']; simp
  rw [funext this]

/-- the plain setting of a directory apart from `d.T` survives whatever happens below `d.T` -/
theorem plainDir_off {d e : TDir} {fs fs1 : FS} (hap : Apart d e)
    (hsame : ∀ q, ¬ d.T <+: q → fs1.get q = fs.get q) (hm : fs1.mounts = fs.mounts) (hdom : fs1.dom = fs.dom)
    (P : PlainDir fs e) : PlainDir fs1 e := by
  have below : ∀ q, e.T <+: q → fs1.get q = fs.get q := fun q hq => hsame q (apart_off hap hq)
  have plain : ∀ x : Name, Plain fs (e.T ++ [x]) → Plain fs1 (e.T ++ [x]) := by
    intro x hp q hq
    have := hp q hq
    unfold isDirAt at this ⊢
    rw [hsame q (apart_anc hap hq)]; exact this
  refine ⟨P.hT0, P.hTn, plain _ P.hI, plain _ P.hF, ?_, P.good, fun n hn => ?_, fun n hn => ?_, fun n hn => ?_⟩
  · rw [infoNames_off (fun q hq => below q ((T_pfx_I e).trans hq)) hdom]; exact P.listed
  · have := P.notLink n hn
    unfold isLinkAt at this ⊢
    rw [below _ ((T_pfx_I e).trans (List.prefix_append _ _))]; exact this
  · exact treeOk_off (fun q hq => below q (((T_pfx_I e).trans (List.prefix_append _ _)).trans hq)) hm (P.infoTree n hn)
  · exact treeOk_off (fun q hq => below q (((T_pfx_F e).trans (List.prefix_append _ _)).trans hq)) hm (P.payTree n hn)

/-! ### from `PlainDir` to the `Setting` of the loop and to the scan -/

theorem plainDir_nodup {fs : FS} {d : TDir} (P : PlainDir fs d) :
    d.names.Nodup ∧ ∀ n ∈ d.names, isTrashinfoName n = true := by
  rw [P.listed]
  exact ⟨(nodup_infoNames fs d.I).filter _, fun _ hn => (List.mem_filter.1 hn).2⟩

theorem setting_of_plain {fs : FS} (cwd : CPath) {d : TDir} (wf : DomWf fs) (P : PlainDir fs d) :
    Setting fs cwd (toStr d.T) d.I d.F d.names :=
  plain_setting fs cwd d.T d.names P.hT0 P.hTn P.hI P.hF wf (plainDir_nodup P).1 (plainDir_nodup P).2 P.good P.notLink
    P.infoTree P.payTree

theorem infosOf_plain {fs : FS} (cwd : CPath) {d : TDir} (P : PlainDir fs d) :
    infosOf fs cwd (toStr d.T) = .ok (infoStrs (toStr d.T) d.names) := by
  have hd : fs.isDirAt d.I = true := P.hI d.I List.prefix_rfl
  have hT : Plain fs d.T := fun q hq => P.hI q (hq.trans (T_pfx_I d))
  have hres : FS.resolve fs cwd (pjoin (toStr d.T) (b "info")) true = .ok d.I := by
    rw [pjoin_toStr P.hT0 P.hTn _ (by decide +kernel)]
    refine Proofs.C07Cmd.resolve_leaf_nl fs cwd d.T (b "info") true hT (goodNames_append P.hTn good_info) fun t ht => ?_
    obtain ⟨m, t', hg⟩ := isDirAt_get hd
    have : fs.get d.I = some (.link t) := ht
    rw [hg] at this; cases this
  rw [P.listed]
  exact infosOf_resolved hres hd

/-- the readers' view of a listed info file depends on the node at `info/N.trashinfo` only -/
theorem contentsOf_plain {fs fs1 : FS} {cwd : CPath} {d : TDir} {n : Bytes}
    (S : Setting fs cwd (toStr d.T) d.I d.F d.names) (S1 : Setting fs1 cwd (toStr d.T) d.I d.F d.names) (hn : n ∈ d.names)
    (he : fs1.get (d.I ++ [n]) = fs.get (d.I ++ [n])) :
    contentsOf fs1 cwd (infoStr (toStr d.T) n) = contentsOf fs cwd (infoStr (toStr d.T) n) := by
  rw [contentsOf_info S1 (within_refl _ _ _) hn (S1.notLink n hn), contentsOf_info S (within_refl _ _ _) hn (S.notLink n hn), he]

theorem selected_off {fs fs1 : FS} {cwd : CPath} (pattern : Bytes) {d : TDir}
    (S : Setting fs cwd (toStr d.T) d.I d.F d.names) (S1 : Setting fs1 cwd (toStr d.T) d.I d.F d.names)
    (he : ∀ n ∈ d.names, fs1.get (d.I ++ [n]) = fs.get (d.I ++ [n])) :
    selected fs1 cwd pattern d = selected fs cwd pattern d := by
  unfold selected rmSelected
  refine List.filter_congr fun n hn => ?_
  unfold rmSelects
  rw [contentsOf_plain S S1 hn (he n hn)]

/-- a readable info file is a regular file: it is there -/
theorem readable_present {fs : FS} {cwd : CPath} {d : TDir} {n text : Bytes}
    (S : Setting fs cwd (toStr d.T) d.I d.F d.names) (hn : n ∈ d.names)
    (h : contentsOf fs cwd (infoStr (toStr d.T) n) = some text) : fs.get (d.I ++ [n]) ≠ none := by
  rw [contentsOf_info S (within_refl _ _ _) hn (S.notLink n hn)] at h
  intro e
  rw [e] at h
  cases h

/-! ### the loop over the trash directories -/

theorem purgedAll_nil (fs : FS) (sel : TDir → List Bytes) : PurgedAll fs fs [] sel :=
  ⟨fun _ h => (nomatch h), fun _ h => (nomatch h), fun _ _ => rfl, fun _ h => (nomatch h), rfl⟩

theorem keptDir_of_eq {fs fs' : FS} {q : CPath} (h : fs'.get q = fs.get q) : keptDir fs fs' q :=
  fun m t hg => ⟨t, by rw [h]; exact hg⟩

theorem rmDirs_cons (φ : Oracle) (cwd : CPath) (pattern t v : Bytes) (rest : List (Bytes × Bytes)) (s : RunState)
    (infos : List Bytes) (h : infosOf s.fs cwd t = .ok infos)
    (hnone : (run φ (rmInfos cwd pattern v infos) s).1 = none) :
    run φ (rmDirs cwd pattern ((t, v) :: rest)) s =
      run φ (rmDirs cwd pattern rest) (run φ (rmInfos cwd pattern v infos) s).2 := by
  conv => lhs; unfold rmDirs
  rw [run_read_bind, h]
  simp only []
  rw [run_bind, hnone]

theorem rmDirs_loop (pattern : Bytes) (hp : pattern ≠ []) (cwd : CPath) :
    ∀ (ds : List TDir) (s : RunState), PlainWorld s.fs ds →
      ∀ sel : TDir → List Bytes, (∀ d ∈ ds, sel d = selected s.fs cwd pattern d) →
      (run noFaults (rmDirs cwd pattern (ds.map TDir.pair)) s).1 = none ∧
      PurgedAll s.fs (run noFaults (rmDirs cwd pattern (ds.map TDir.pair)) s).2.fs ds sel := by
  intro ds
  induction ds with
  | nil => intro s _ sel _; unfold rmDirs; exact ⟨rfl, purgedAll_nil _ _⟩
  | cons d rest ih =>
    intro s W sel hsel
    have Pd := W.plain d List.mem_cons_self
    have S := setting_of_plain cwd W.wf Pd
    have hinf := infosOf_plain cwd Pd
    obtain ⟨hnone, P1, _⟩ := rmInfos_loop pattern d.v hp cwd (toStr d.T) d.I d.F d.names s S
    obtain ⟨hwf, hdom⟩ := rmInfos_keeps noFaults cwd pattern d.v (infoStrs (toStr d.T) d.names) s
    have hrun : run noFaults (rmDirs cwd pattern ((d :: rest).map TDir.pair)) s =
        run noFaults (rmDirs cwd pattern (rest.map TDir.pair))
          (run noFaults (rmInfos cwd pattern d.v (infoStrs (toStr d.T) d.names)) s).2 :=
      rmDirs_cons noFaults cwd pattern (toStr d.T) d.v _ s _ hinf hnone
    rw [hrun]
    generalize (run noFaults (rmInfos cwd pattern d.v (infoStrs (toStr d.T) d.names)) s).2 = s1 at *
    have hW := purged_within P1
    have hap := List.pairwise_cons.1 W.apart
    have hoff : ∀ q, ¬ d.T <+: q → s1.fs.get q = s.fs.get q := fun q hq => within_off hW hq
    have W1 : PlainWorld s1.fs rest :=
      ⟨hwf W.wf, fun e he => plainDir_off (hap.1 e he) hoff P1.mounts hdom (W.plain e (List.mem_cons_of_mem _ he)), hap.2⟩
    have hsel1 : ∀ e ∈ rest, sel e = selected s1.fs cwd pattern e := by
      intro e he
      rw [hsel e (List.mem_cons_of_mem _ he)]
      have Pe := W.plain e (List.mem_cons_of_mem _ he)
      refine (selected_off pattern (setting_of_plain cwd W.wf Pe) (setting_of_plain cwd W1.wf (W1.plain e he)) fun n _ => ?_).symm
      exact hoff _ (apart_off (hap.1 e he) ((T_pfx_I e).trans (List.prefix_append _ _)))
    obtain ⟨hnone2, P2⟩ := ih s1 W1 sel hsel1
    refine ⟨hnone2, ?_⟩
    replace P1 : PurgedExactly s.fs s1.fs d.I d.F (sel d) := by rw [hsel d List.mem_cons_self]; exact P1
    -- paths at or below `d.T` are not touched by the rest of the run
    have keep : ∀ q, d.T <+: q → (run noFaults (rmDirs cwd pattern (rest.map TDir.pair)) s1).2.fs.get q = s1.fs.get q := by
      intro q hq
      refine P2.frame q fun e he => ?_
      have ha := apart_symm (hap.1 e he)
      have hne : ¬ e.T <+: q := apart_off ha hq
      refine ⟨fun e1 => hne (e1 ▸ T_pfx_I e), fun e1 => hne (e1 ▸ T_pfx_F e), fun n _ => ⟨fun h => ?_, fun h => ?_⟩⟩
      · exact hne (((T_pfx_I e).trans (List.prefix_append _ _)).trans ((under_iff _ _).1 h))
      · exact hne (((T_pfx_F e).trans (List.prefix_append _ _)).trans ((under_iff _ _).1 h))
    have dI : d.T <+: d.I := T_pfx_I d
    have dF : d.T <+: d.F := T_pfx_F d
    refine ⟨fun e he n hn rel => ?_, fun e he n hn rel => ?_, fun q hq => ?_, fun e he => ?_, P2.mounts.trans P1.mounts⟩
    · rcases List.mem_cons.1 he with rfl | he
      · rw [keep _ (dI.trans ((List.prefix_append _ _).trans (List.prefix_append _ _)))]
        exact P1.infoGone n hn rel
      · exact P2.infoGone e he n hn rel
    · rcases List.mem_cons.1 he with rfl | he
      · rw [keep _ (dF.trans ((List.prefix_append _ _).trans (List.prefix_append _ _)))]
        exact P1.payloadGone n hn rel
      · exact P2.payloadGone e he n hn rel
    · rw [P2.frame q fun e he => hq e (List.mem_cons_of_mem _ he)]
      have h0 := hq d List.mem_cons_self
      exact P1.frame q h0.1 h0.2.1 h0.2.2
    · rcases List.mem_cons.1 he with rfl | he
      · exact ⟨keptDir_trans P1.dirs.1 (keptDir_of_eq (keep _ dI)), keptDir_trans P1.dirs.2 (keptDir_of_eq (keep _ dF))⟩
      · have h1 := hoff _ (apart_off (hap.1 e he) (T_pfx_I e))
        have h2 := hoff _ (apart_off (hap.1 e he) (T_pfx_F e))
        exact ⟨keptDir_trans (keptDir_of_eq h1) (P2.dirs e he).1, keptDir_trans (keptDir_of_eq h2) (P2.dirs e he).2⟩

end TrashVerif.Proofs.C12Cmd
