/-
  Proofs/C14LoopDir.lean — C14 at the level of `emptyDirs` (scan, loop, orphan pass): what the dry run
  of the whole command prints (any list of directories), and what the real pass over ONE trash
  directory in a `DirSetting` removes.
-/
import TrashVerif.Proofs.C14Loop
namespace TrashVerif.Proofs.C14LoopDir
open TrashVerif Prog FS PutCore PutLemmas C04 C11 C09Hist C10Loop C14Loop
open TrashVerif.Proofs.C09Hist (GeoI mem_infoNames nodup_infoNames infosOf_resolved)
open TrashVerif.Proofs.C15 (G nothing_below)
open TrashVerif.Proofs.C10Loop TrashVerif.Proofs.C14Loop

/-! ### `--dry-run`: the whole command -/

theorem run_emptyPath (φ : Oracle) (cwd : CPath) (o : EmptyOpts) (path : Bytes) (s : RunState) :
    run φ (emptyPath cwd o path) s = run φ (emptyPathR o path (resolve s.fs cwd path)) s := rfl

theorem dry_paths (φ : Oracle) (cwd : CPath) (o : EmptyOpts) (h : o.dryRun = true) : ∀ (ps : List Bytes) (s : RunState),
    run φ (emptyPaths cwd o ps) s = ((), { s with outs := (ps.map dryLine).reverse ++ s.outs }) := by
  intro ps
  induction ps with
  | nil => intro s; rfl
  | cons p ps ih =>
    intro s
    rw [emptyPaths, run_bind, run_emptyPath, run_emptyPathR_dry φ o h]
    refine (ih { s with outs := dryLine p :: s.outs }).trans ?_
    simp only [List.map_cons, List.reverse_cons, List.append_assoc, List.cons_append, List.nil_append]

theorem announced_cons (fs : FS) (cwd : CPath) (o : EmptyOpts) (tv : Bytes × Bytes) (rest : List (Bytes × Bytes)) :
    announced fs cwd o (tv :: rest) = announcedDir fs cwd o tv.1 ++ announced fs cwd o rest := rfl

/-- the dry run over ANY list of trash directories, from any state, under any oracle, when nothing
    raises: the whole result -/
theorem dry_dirs (φ : Oracle) (cwd : CPath) (o : EmptyOpts) (h : o.dryRun = true) :
    ∀ (dirs : List (Bytes × Bytes)) (s : RunState), (∀ tv ∈ dirs, NoCrashDir s.fs cwd o tv.1) →
      run φ (emptyDirs cwd o dirs) s =
        (none, { s with outs := ((announced s.fs cwd o dirs).map dryLine).reverse ++ s.outs }) := by
  intro dirs
  induction dirs with
  | nil => intro s _; rfl
  | cons d rest ih =>
    intro s hnc
    obtain ⟨t, v⟩ := d
    obtain ⟨⟨infos, hinf, hdec⟩, orph, horph⟩ := hnc (t, v) List.mem_cons_self
    rw [emptyDirs, run_read_bind, hinf]
    simp only []
    rw [run_bind, dry_infos φ cwd o h infos s hdec]
    simp only []
    rw [run_read_bind]
    simp only []
    rw [horph]
    simp only []
    rw [run_bind, dry_paths φ cwd o h]
    refine (ih { s with outs := (orph.map dryLine).reverse ++
        ((((selectedInfos s.fs cwd o infos).flatMap fun i => [pathOfBackupCopy i, i]).map dryLine).reverse ++ s.outs) }
      fun tv htv => hnc tv (List.mem_cons_of_mem _ htv)).trans ?_
    simp only [announced_cons, announcedDir, hinf, horph, List.map_append, List.reverse_append, List.append_assoc]

/-! ### the scan of `files/` -/

theorem orphansOf_resolved {fs : FS} {cwd F : CPath} {t : Bytes}
    (hres : FS.resolve fs cwd (pjoin t (b "files")) true = .ok F) (hd : fs.isDirAt F = true) :
    orphansOf fs cwd t =
      .ok (((infoNames fs F).filter fun m => ¬ pExists fs cwd (infoStr t (infoNameOf m))).map (orphanStr t)) := by
  obtain ⟨m, t', hg⟩ := isDirAt_get hd
  unfold orphansOf entriesIfDirExists pExists stat listdirStr infoNames
  simp only [hres, hg]
  rfl

/-! ### `PurgedExactly`: what it says of every path, and its composition -/

theorem purged_cases {I F : CPath} {D : List Bytes} {fs fs' : FS} (P : PurgedExactly fs fs' I F D) (q : CPath)
    (hI : q ≠ I) (hF : q ≠ F) : fs'.get q = none ∨ fs'.get q = fs.get q := by
  by_cases h : ∀ n ∈ D, ¬ EP I F n q
  · exact Or.inr (P.frame q hI hF (all_of_not_ep h))
  · left
    have : ∃ n, n ∈ D ∧ EP I F n q := by
      apply Classical.byContradiction
      intro hn
      exact h fun n hn' hep => hn ⟨n, hn', hep⟩
    obtain ⟨n, hn, hep⟩ := this
    rcases hep with ⟨rel, rfl⟩ | ⟨rel, rfl⟩
    · exact P.infoGone n hn rel
    · exact P.payloadGone n hn rel

theorem purged_append {I F : CPath} (g : GeoI I F) {D1 D2 : List Bytes} {a c d : FS}
    (h1 : ∀ x ∈ D1, isTrashinfoName x = true) (h2 : ∀ x ∈ D2, isTrashinfoName x = true) (hdis : ∀ x ∈ D1, x ∉ D2)
    (P1 : PurgedExactly a c I F D1) (P2 : PurgedExactly c d I F D2) : PurgedExactly a d I F (D1 ++ D2) := by
  have keep : ∀ n ∈ D1, ∀ q, EP I F n q → d.get q = c.get q := fun n hn q hq =>
    P2.frame q (EP.ne_I g hq) (EP.ne_F g hq)
      (all_of_not_ep fun x hx => EP.disjoint g (h1 n hn) (h2 x hx) (fun e => hdis n hn (e ▸ hx)) hq)
  refine ⟨fun n hn rel => ?_, fun n hn rel => ?_, fun q hI hF hall => ?_,
    ⟨keptDir_trans P1.dirs.1 P2.dirs.1, keptDir_trans P1.dirs.2 P2.dirs.2⟩, P2.mounts.trans P1.mounts, fun h => ?_⟩
  · rcases List.mem_append.1 hn with hn | hn
    · rw [keep n hn _ (EP.info I F n rel)]; exact P1.infoGone n hn rel
    · exact P2.infoGone n hn rel
  · rcases List.mem_append.1 hn with hn | hn
    · rw [keep n hn _ (EP.payload I F n rel)]; exact P1.payloadGone n hn rel
    · exact P2.payloadGone n hn rel
  · rw [P2.frame q hI hF fun n hn => hall n (List.mem_append_right _ hn)]
    exact P1.frame q hI hF fun n hn => hall n (List.mem_append_left _ hn)
  · obtain ⟨e1, e2⟩ := List.append_eq_nil_iff.1 h
    rw [P2.nothing e2, P1.nothing e1]

/-! ### the orphan pass -/

theorem stemOf_infoNameOf (m : Bytes) : stemOf (infoNameOf m) = m := stemOf_append m

theorem infoNameOf_inj {a c : Bytes} (h : infoNameOf a = infoNameOf c) : a = c := List.append_cancel_right h

/-- the orphan pass over a list `L` of orphan names, each treated as the entry of its absent info file -/
theorem orphans_loop (o : EmptyOpts) (hdry : o.dryRun = false) (cwd : CPath) (t : Bytes) (I F : CPath) :
    ∀ (L : List Bytes) (s : RunState), Setting s.fs cwd t I F (L.map infoNameOf) →
      (∀ fs', Within I F s.fs fs' → ∀ m ∈ L, FS.resolve fs' cwd (orphanStr t m) = .ok (F ++ [m])) →
      (∀ m ∈ L, s.fs.get (I ++ [infoNameOf m]) = none) →
      PurgedExactly s.fs (run noFaults (emptyPaths cwd o (L.map (orphanStr t))) s).2.fs I F (L.map infoNameOf) ∧
      (run noFaults (emptyPaths cwd o (L.map (orphanStr t))) s).2.outs =
        (vlines o (L.map (orphanStr t))).reverse ++ s.outs := by
  intro L
  induction L with
  | nil => intro s _ _ _; exact ⟨purged_nil _ _ _, by simp [vlines]; rfl⟩
  | cons m rest ih =>
    intro s S0 hres habs
    have S : Setting s.fs cwd t I F (infoNameOf m :: rest.map infoNameOf) := S0
    have g := setting_geo S
    have hmem : infoNameOf m ∈ infoNameOf m :: rest.map infoNameOf := List.mem_cons_self
    have hnd := List.nodup_cons.1 S.nodup
    show PurgedExactly s.fs (run noFaults (emptyPaths cwd o (orphanStr t m :: rest.map (orphanStr t))) s).2.fs I F
        (infoNameOf m :: rest.map infoNameOf) ∧
      (run noFaults (emptyPaths cwd o (orphanStr t m :: rest.map (orphanStr t))) s).2.outs = _
    rw [emptyPaths, run_bind, run_emptyPath, hres s.fs (within_refl I F s.fs) m List.mem_cons_self]
    obtain ⟨hGi, hGp⟩ := setting_G S hmem
    rw [stemOf_infoNameOf] at hGp
    obtain ⟨ok1, gone1⟩ := removeIfExists_all_gone _ s hGp
    have step1 := step_of_iss g (infoNameOf m) noFaults
      (iss_payload (I := I) (infoNameOf m) (iss_removeIfExists (F ++ [stemOf (infoNameOf m)]))) s
    rw [stemOf_infoNameOf] at step1
    have hm0 := habs m List.mem_cons_self
    have R : Removed I F (infoNameOf m) s.fs (run noFaults (emptyPathR o (orphanStr t m) (.ok (F ++ [m]))) s).2.fs := by
      rw [emptyPathR_fs o hdry]
      refine ⟨step1, fun q hq => ?_⟩
      rcases hq with hq | hq
      · apply step1.none
        by_cases e : q = I ++ [infoNameOf m]
        · rw [e]; exact hm0
        · exact nothing_below hGi.2.1 (List.prefix_refl _) (by simp [isDirAt, hm0])
            ⟨hq, Nat.lt_of_le_of_ne hq.length_le fun hl => e (hq.eq_of_length hl).symm⟩
      · rw [stemOf_infoNameOf] at hq
        exact gone1 q hq
    have O := emptyPathR_real_outs o hdry (orphanStr t m) (F ++ [m]) s ok1
    generalize (run noFaults (emptyPathR o (orphanStr t m) (.ok (F ++ [m]))) s).2 = s2 at R O ⊢
    have S2 := setting_step S R.step
    obtain ⟨P, c⟩ := ih s2 S2 (fun fs' hW' x hx => hres fs' (within_trans R.step.within hW') x (List.mem_cons_of_mem _ hx))
      (fun x hx => R.step.none _ (habs x (List.mem_cons_of_mem _ hx)))
    refine ⟨purged_cons g (S.isInfo _ hmem) (fun d hd => ?_) R P, ?_⟩
    · exact ⟨S.isInfo d (List.mem_cons_of_mem _ hd), fun e => hnd.1 (e ▸ hd)⟩
    · rw [c, O]
      rw [show (m :: rest).map (orphanStr t) = [orphanStr t m] ++ rest.map (orphanStr t) from rfl,
        vlines_append, List.reverse_append, List.append_assoc]

/-! ### one trash directory: the listing of `files/` before and after the loop -/

section dir
variable {fs fs1 : FS} {cwd : CPath} {t : Bytes} {I F : CPath}

theorem listed_present (D : DirSetting fs cwd t I F) {n : Bytes} (hn : n ∈ listed fs I) :
    (fs.get (I ++ [n])).isSome = true ∧ isTrashinfoName n = true := by
  obtain ⟨h1, h2⟩ := List.mem_filter.1 hn
  exact ⟨(mem_infoNames D.all.wf n).1 h1, h2⟩

theorem orphan_spec (D : DirSetting fs cwd t I F) {m : Bytes} :
    m ∈ orphanNames fs I F ↔ (fs.get (F ++ [m])).isSome = true ∧ fs.get (I ++ [infoNameOf m]) = none := by
  unfold orphanNames
  rw [List.mem_filter, mem_infoNames D.all.wf m]
  simp only [C09.bag, Option.isNone_iff_eq_none]

theorem listed_mem_all (_D : DirSetting fs cwd t I F) {n : Bytes} (hn : n ∈ listed fs I) :
    n ∈ listed fs I ++ (orphanNames fs I F).map infoNameOf := List.mem_append_left _ hn

theorem orphan_mem_all (_D : DirSetting fs cwd t I F) {m : Bytes} (hm : m ∈ orphanNames fs I F) :
    infoNameOf m ∈ listed fs I ++ (orphanNames fs I F).map infoNameOf :=
  List.mem_append_right _ (List.mem_map.2 ⟨m, hm, rfl⟩)

/-- the info name of a child of `files/` is one of the names of the setting -/
theorem child_mem_all (D : DirSetting fs cwd t I F) {m : Bytes} (hc : (fs.get (F ++ [m])).isSome = true) :
    infoNameOf m ∈ listed fs I ++ (orphanNames fs I F).map infoNameOf := by
  cases hi : fs.get (I ++ [infoNameOf m]) with
  | none => exact orphan_mem_all D ((orphan_spec D).2 ⟨hc, hi⟩)
  | some nd =>
    refine listed_mem_all D (List.mem_filter.2 ⟨(mem_infoNames D.all.wf _).2 ?_, D.payNames m hc⟩)
    simp [C09.bag, hi]

theorem pExists_info {all : List Bytes} (S : Setting fs cwd t I F all) (hW : Within I F fs fs1) {n : Bytes} (hn : n ∈ all)
    (hl : fs1.isLinkAt (I ++ [n]) = false) : pExists fs1 cwd (infoStr t n) = (fs1.get (I ++ [n])).isSome := by
  unfold pExists stat
  rw [resolve_follow_of_notLink (S.resolves fs1 hW n hn).1 hl]

/-- after the removal of listed entries `sel`: what `os.path.exists` says of the info path of a name
    that is still in `files/`, and the info file itself, are as in the initial state -/
theorem child_info_after (D : DirSetting fs cwd t I F) {sel : List Bytes} (hsel : ∀ d ∈ sel, d ∈ listed fs I)
    (P : PurgedExactly fs fs1 I F sel) {m : Bytes} (hc : (fs1.get (F ++ [m])).isSome = true) :
    (fs.get (F ++ [m])).isSome = true ∧
    fs1.get (I ++ [infoNameOf m]) = fs.get (I ++ [infoNameOf m]) ∧
    pExists fs1 cwd (infoStr t (infoNameOf m)) = (fs.get (I ++ [infoNameOf m])).isSome := by
  have g := setting_geo D.all
  have hW := purged_within P
  have hDi : ∀ d ∈ sel, isTrashinfoName d = true := fun d hd => (listed_present D (hsel d hd)).2
  have ep : EP I F (infoNameOf m) (F ++ [m]) := by
    have := EP.payload I F (infoNameOf m) []
    rwa [stemOf_infoNameOf, List.append_nil] at this
  have hc0 : (fs.get (F ++ [m])).isSome = true := by
    rcases purged_cases P (F ++ [m]) (EP.ne_I g ep) (EP.ne_F g ep) with h | h
    · rw [h] at hc; cases hc
    · rw [← h]; exact hc
  have hall := child_mem_all D hc0
  have hnsel : infoNameOf m ∉ sel := by
    intro h
    have := P.payloadGone _ h []
    rw [stemOf_infoNameOf, List.append_nil] at this
    rw [this] at hc; cases hc
  have hsame : fs1.get (I ++ [infoNameOf m]) = fs.get (I ++ [infoNameOf m]) := by
    have := (purged_other g P hDi (D.payNames m hc0) hnsel).1 []
    rwa [List.append_nil] at this
  refine ⟨hc0, hsame, ?_⟩
  have hl : fs1.isLinkAt (I ++ [infoNameOf m]) = false := by
    have := D.all.notLink _ hall
    unfold isLinkAt at this ⊢
    rw [hsame]; exact this
  rw [pExists_info D.all hW hall hl, hsame]

/-- the orphans the scan finds after the removal of listed entries are the initial orphans -/
theorem orphans_after (D : DirSetting fs cwd t I F) (hw1 : DomWf fs1) {sel : List Bytes} (hsel : ∀ d ∈ sel, d ∈ listed fs I)
    (P : PurgedExactly fs fs1 I F sel) (m : Bytes) :
    m ∈ (infoNames fs1 F).filter (fun m => ¬ pExists fs1 cwd (infoStr t (infoNameOf m))) ↔ m ∈ orphanNames fs I F := by
  have g := setting_geo D.all
  have hDi : ∀ d ∈ sel, isTrashinfoName d = true := fun d hd => (listed_present D (hsel d hd)).2
  rw [List.mem_filter, mem_infoNames hw1 m, orphan_spec D]
  simp only [C09.bag, decide_eq_true_eq, Bool.not_eq_true]
  constructor
  · rintro ⟨hc, hp⟩
    obtain ⟨hc0, _, he⟩ := child_info_after D hsel P hc
    rw [he] at hp
    refine ⟨hc0, ?_⟩
    cases hi : fs.get (I ++ [infoNameOf m]) with
    | none => rfl
    | some nd => rw [hi] at hp; cases hp
  · rintro ⟨hc0, hi⟩
    have hnsel : infoNameOf m ∉ sel := by
      intro h
      have := (listed_present D (hsel _ h)).1
      rw [hi] at this; cases this
    obtain ⟨_, k2⟩ := purged_other g P hDi (D.payNames m hc0) hnsel
    have h2 := k2 []
    rw [stemOf_infoNameOf, List.append_nil] at h2
    have hc : (fs1.get (F ++ [m])).isSome = true := by rw [h2]; exact hc0
    refine ⟨hc, ?_⟩
    rw [(child_info_after D hsel P hc).2.2, hi]
    rfl

/-- on the initial state the orphans the scan finds are `orphanNames`, in the same order -/
theorem orphans_initial (D : DirSetting fs cwd t I F) :
    (infoNames fs F).filter (fun m => ¬ pExists fs cwd (infoStr t (infoNameOf m))) = orphanNames fs I F := by
  unfold orphanNames
  apply List.filter_congr
  intro m hm
  have hc : (fs.get (F ++ [m])).isSome = true := (mem_infoNames D.all.wf m).1 hm
  have := (child_info_after D (sel := []) (fun _ h => nomatch h) (purged_nil fs I F) hc).2.2
  rw [this]
  cases fs.get (I ++ [infoNameOf m]) <;> rfl

theorem dir_scan (D : DirSetting fs cwd t I F) :
    infosOf fs cwd t = .ok (infoStrs t (listed fs I)) ∧
    orphansOf fs cwd t = .ok ((orphanNames fs I F).map (orphanStr t)) := by
  refine ⟨infosOf_resolved D.infoLeads D.all.inv.infoDir, ?_⟩
  rw [orphansOf_resolved (D.filesLeads fs (within_refl I F fs)) D.all.inv.filesDir, orphans_initial D]

end dir

/-! ### one trash directory: the real pass -/

/-- the scan, the loop and the orphan pass over ONE trash directory in a `DirSetting`, from any state -/
theorem real_dir (o : EmptyOpts) (hdry : o.dryRun = false) (cwd : CPath) (t v : Bytes) (I F : CPath) (s : RunState)
    (D : DirSetting s.fs cwd t I F)
    (hnc : ∀ n ∈ listed s.fs I, ∀ c, okToDelete s.fs cwd o (infoStr t n) ≠ .crash c) :
    (run noFaults (emptyDirs cwd o [(t, v)]) s).1 = none ∧
    ∃ L1 : List Bytes, L1.Perm (orphanNames s.fs I F) ∧
      PurgedExactly s.fs (run noFaults (emptyDirs cwd o [(t, v)]) s).2.fs I F
        (emptySelected s.fs cwd o t (listed s.fs I) ++ L1.map infoNameOf) ∧
      (run noFaults (emptyDirs cwd o [(t, v)]) s).2.outs =
        (vlines o (pathsOf t (emptySelected s.fs cwd o t (listed s.fs I)) ++ L1.map (orphanStr t))).reverse ++ s.outs := by
  have g := setting_geo D.all
  obtain ⟨a, P, c, Sx⟩ := real_infos o hdry cwd t I F ((orphanNames s.fs I F).map infoNameOf) (listed s.fs I) s D.all hnc
  have hselsub : ∀ d ∈ emptySelected s.fs cwd o t (listed s.fs I), d ∈ listed s.fs I := fun d hd => (List.mem_filter.1 hd).1
  have hw1 : DomWf (run noFaults (emptyInfos cwd o (infoStrs t (listed s.fs I))) s).2.fs := Sx.wf
  have hW := purged_within P
  have hres1 := D.filesLeads _ hW
  have hd1 := keptDir_isDir hW.dirs.2 D.all.inv.filesDir
  have horph := orphansOf_resolved hres1 hd1
  have hmemL := orphans_after D hw1 hselsub P
  rw [emptyDirs, run_read_bind, (dir_scan D).1]
  simp only []
  rw [run_bind]
  generalize run noFaults (emptyInfos cwd o (infoStrs t (listed s.fs I))) s = r1 at a P c Sx hw1 hW hres1 hd1 horph hmemL
  obtain ⟨res, s1⟩ := r1
  simp only [] at a P c Sx hw1 hW hres1 hd1 horph hmemL
  subst a
  simp only []
  rw [run_read_bind, horph]
  simp only []
  rw [run_bind]
  generalize hL : (infoNames s1.fs F).filter (fun m => ¬ pExists s1.fs cwd (infoStr t (infoNameOf m))) = L1 at hmemL
  have hL1nd : L1.Nodup := by rw [← hL]; exact (nodup_infoNames _ _).filter _
  have hperm : L1.Perm (orphanNames s.fs I F) :=
    (List.perm_ext_iff_of_nodup hL1nd ((nodup_infoNames _ _).filter _)).2 hmemL
  have S1 : Setting s1.fs cwd t I F (L1.map infoNameOf) := by
    refine setting_sub Sx ?_ fun x hx => ?_
    · exact List.Pairwise.map infoNameOf (fun a b hab e => hab (infoNameOf_inj e)) hL1nd
    · obtain ⟨m, hm, rfl⟩ := List.mem_map.1 hx
      exact List.mem_map.2 ⟨m, (hmemL m).1 hm, rfl⟩
  have habs : ∀ m ∈ L1, s1.fs.get (I ++ [infoNameOf m]) = none := by
    intro m hm
    have hm0 := (hmemL m).1 hm
    have hi := ((orphan_spec D).1 hm0).2
    have hnsel : infoNameOf m ∉ emptySelected s.fs cwd o t (listed s.fs I) := by
      intro h
      have := (listed_present D (hselsub _ h)).1
      rw [hi] at this; cases this
    have := (purged_other g P (fun d hd => (listed_present D (hselsub d hd)).2)
      (D.payNames m ((orphan_spec D).1 hm0).1) hnsel).1 []
    rw [List.append_nil] at this
    rw [this]; exact hi
  obtain ⟨P2, c2⟩ := orphans_loop o hdry cwd t I F L1 s1 S1
    (fun fs' hW' m hm => D.orphResolves fs' (within_trans hW hW') m ((hmemL m).1 hm)) habs
  refine ⟨rfl, L1, hperm, ?_, ?_⟩
  · refine purged_append g (fun x hx => (listed_present D (hselsub x hx)).2) (fun x hx => S1.isInfo x hx) (fun x hx hx2 => ?_) P P2
    obtain ⟨m, hm, rfl⟩ := List.mem_map.1 hx2
    have := (listed_present D (hselsub _ hx)).1
    rw [((orphan_spec D).1 ((hmemL m).1 hm)).2] at this
    cases this
  · show (run noFaults (emptyPaths cwd o (L1.map (orphanStr t))) s1).2.outs = _
    rw [c2, c, vlines_append, List.reverse_append, List.append_assoc]

/-! ### one trash directory: the comparison -/

section compare
variable {fs fs' : FS} {cwd : CPath} {t : Bytes} {I F : CPath}

theorem announcedDir_eq (D : DirSetting fs cwd t I F) (o : EmptyOpts) :
    announcedDir fs cwd o t =
      pathsOf t (emptySelected fs cwd o t (listed fs I)) ++ (orphanNames fs I F).map (orphanStr t) := by
  unfold announcedDir
  rw [(dir_scan D).1, (dir_scan D).2]
  simp only []
  rw [selectedInfos_infoStrs, flatMap_infoStrs]

theorem dirPaths_eq (D : DirSetting fs cwd t I F) :
    dirPaths fs cwd t = pathsOf t (listed fs I) ++ (orphanNames fs I F).map (orphanStr t) := by
  unfold dirPaths
  rw [(dir_scan D).1, (dir_scan D).2]
  simp only []
  rw [flatMap_infoStrs]

/-- an orphan's path exists before, and no longer once the orphan is among the removed entries -/
theorem orphan_path (D : DirSetting fs cwd t I F) {Dall : List Bytes} (P : PurgedExactly fs fs' I F Dall)
    {m : Bytes} (hm : m ∈ orphanNames fs I F) (hmD : infoNameOf m ∈ Dall) :
    pLexists fs cwd (orphanStr t m) = true ∧ pLexists fs' cwd (orphanStr t m) = false := by
  unfold pLexists lstat
  rw [D.orphResolves fs (within_refl I F fs) m hm, D.orphResolves fs' (purged_within P) m hm]
  have h := P.payloadGone _ hmD []
  rw [stemOf_infoNameOf, List.append_nil] at h
  simp only []
  rw [h]
  exact ⟨((orphan_spec D).1 hm).1, rfl⟩

/-- THE COMPARISON for one trash directory: `fs'` is `fs` with the selected entries and the orphans
    removed.  Of the paths the dry run announces, those that exist are exactly the root paths of the
    directory that exist before and no longer after. -/
theorem announced_existing_eq_removed (D : DirSetting fs cwd t I F) (o : EmptyOpts) {L1 : List Bytes}
    (hperm : L1.Perm (orphanNames fs I F))
    (P : PurgedExactly fs fs' I F (emptySelected fs cwd o t (listed fs I) ++ L1.map infoNameOf)) :
    (announcedDir fs cwd o t).filter (pLexists fs cwd) = removedOf fs fs' cwd (dirPaths fs cwd t) ∧
    (∀ p ∈ announcedDir fs cwd o t, pLexists fs' cwd p = false) ∧
    (∀ p ∈ dirPaths fs cwd t, p ∉ announcedDir fs cwd o t → lstat fs' cwd p = lstat fs cwd p) := by
  have hselsub : ∀ d ∈ emptySelected fs cwd o t (listed fs I), d ∈ listed fs I := fun d hd => (List.mem_filter.1 hd).1
  have hDall : ∀ d ∈ emptySelected fs cwd o t (listed fs I) ++ L1.map infoNameOf,
      d ∈ listed fs I ++ (orphanNames fs I F).map infoNameOf := by
    intro d hd
    rcases List.mem_append.1 hd with h | h
    · exact List.mem_append_left _ (hselsub d h)
    · obtain ⟨m, hm, rfl⟩ := List.mem_map.1 h
      exact orphan_mem_all D (hperm.mem_iff.1 hm)
  have hsel : ∀ n ∈ listed fs I, (decide (okToDelete fs cwd o (infoStr t n) = .delete) = true ↔
      n ∈ emptySelected fs cwd o t (listed fs I) ++ L1.map infoNameOf) := by
    intro n hn
    constructor
    · intro h; exact List.mem_append_left _ (List.mem_filter.2 ⟨hn, h⟩)
    · intro h
      rcases List.mem_append.1 h with h | h
      · exact (List.mem_filter.1 h).2
      · obtain ⟨m, hm, rfl⟩ := List.mem_map.1 h
        have := (listed_present D hn).1
        rw [((orphan_spec D).1 (hperm.mem_iff.1 hm)).2] at this
        cases this
  have horph : ∀ m ∈ orphanNames fs I F, pLexists fs cwd (orphanStr t m) = true ∧ pLexists fs' cwd (orphanStr t m) = false :=
    fun m hm => orphan_path D P hm (List.mem_append_right _ (List.mem_map.2 ⟨m, hperm.mem_iff.2 hm, rfl⟩))
  obtain ⟨gone, kept⟩ := paths_after D.all hDall P
  refine ⟨?_, fun p hp => ?_, fun p hp hnp => ?_⟩
  · rw [announcedDir_eq D, dirPaths_eq D]
    unfold removedOf
    rw [List.filter_append, List.filter_append]
    congr 1
    · exact selected_existing_eq_removed D.all (listed fs I) (fun n hn => listed_mem_all D hn) _ hDall _ hsel P
    · apply List.filter_congr
      intro p hp
      obtain ⟨m, hm, rfl⟩ := List.mem_map.1 hp
      rw [(horph m hm).1, (horph m hm).2]
      rfl
  · rw [announcedDir_eq D] at hp
    rcases List.mem_append.1 hp with h | h
    · refine gone p ?_
      rw [pathsOf_append]
      exact List.mem_append_left _ h
    · obtain ⟨m, hm, rfl⟩ := List.mem_map.1 h
      exact (horph m hm).2
  · rw [dirPaths_eq D] at hp
    rw [announcedDir_eq D] at hnp
    rcases List.mem_append.1 hp with h | h
    · refine kept p ?_ fun hq => ?_
      · rw [pathsOf_append]; exact List.mem_append_left _ h
      · rw [pathsOf_append] at hq
        rcases List.mem_append.1 hq with hq | hq
        · exact hnp (List.mem_append_left _ hq)
        · -- a path of a listed entry is not a path of an orphan's pseudo entry
          obtain ⟨n, hn, hpn⟩ := List.mem_flatMap.1 (show p ∈ (listed fs I).flatMap (entryPaths t) from h)
          obtain ⟨x, hx, hpx⟩ := List.mem_flatMap.1 (show p ∈ (L1.map infoNameOf).flatMap (entryPaths t) from hq)
          obtain ⟨m, hm, rfl⟩ := List.mem_map.1 hx
          have hm0 := hperm.mem_iff.1 hm
          have e := paths_inj D.all (listed_mem_all D hn) (orphan_mem_all D hm0) hpn hpx
          have := (listed_present D hn).1
          rw [e, ((orphan_spec D).1 hm0).2] at this
          cases this
    · exact absurd (List.mem_append_right _ h) hnp

end compare

/-! ### the command around `emptyDirs` -/

/-- `runEmpty` when the guard lets it pass (not interactive, or a reply beginning with 'y'/'Y'): it is the
    loop over the selected directories, plus the traceback when that raises -/
theorem run_go (φ : Oracle) (c : ReadCfg) (o : EmptyOpts) (reply : Option Bytes) (s : RunState)
    (hgo : o.interactive = false ∨ ∃ r, reply = some r ∧ emptyReplyYes r = true) :
    run φ (runEmpty c o reply) s =
      match (run φ (emptyDirs c.cwd o (foundDirs (selectTrashDirs s.fs c o.userDirs))) s).1 with
      | some cr => ({ exit := 1, crash := some cr },
          { (run φ (emptyDirs c.cwd o (foundDirs (selectTrashDirs s.fs c o.userDirs))) s).2 with
            outs := .stderr "traceback" [] :: (run φ (emptyDirs c.cwd o (foundDirs (selectTrashDirs s.fs c o.userDirs))) s).2.outs })
      | none => ({ exit := 0 }, (run φ (emptyDirs c.cwd o (foundDirs (selectTrashDirs s.fs c o.userDirs))) s).2) := by
  have hgo' : run φ (emptyDirs c.cwd o (foundDirs (selectTrashDirs s.fs c o.userDirs)) >>= fun r =>
      match r with
      | some cr => (do say (.stderr "traceback" []); pure { exit := 1, crash := some cr } : Prog CmdResult)
      | none => pure { exit := 0 }) s = _ := run_bind φ _ _ s
  unfold runEmpty
  rw [run_read_bind]
  simp only []
  rcases hgo with hi | ⟨r, rfl, hr⟩
  · simp only [hi]
    refine hgo'.trans ?_
    generalize run φ (emptyDirs c.cwd o (foundDirs (selectTrashDirs s.fs c o.userDirs))) s = x
    obtain ⟨res, s2⟩ := x
    cases res <;> rfl
  · cases hi : o.interactive with
    | false =>
      simp only []
      refine hgo'.trans ?_
      generalize run φ (emptyDirs c.cwd o (foundDirs (selectTrashDirs s.fs c o.userDirs))) s = x
      obtain ⟨res, s2⟩ := x
      cases res <;> rfl
    | true =>
      simp only [hr, if_true]
      refine hgo'.trans ?_
      generalize run φ (emptyDirs c.cwd o (foundDirs (selectTrashDirs s.fs c o.userDirs))) s = x
      obtain ⟨res, s2⟩ := x
      cases res <;> rfl

/-- `--trash-dir d`: the only directory visited is `d`, verbatim -/
theorem found_user_dir (fs : FS) (c : ReadCfg) (d : Bytes) :
    foundDirs (selectTrashDirs fs c [d]) = [(d, volumeOf fs c.cwd d)] := rfl

end TrashVerif.Proofs.C14LoopDir
