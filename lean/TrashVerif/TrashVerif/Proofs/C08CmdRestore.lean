/-
  Proofs/C08CmdRestore.lean — trash-restore for Props/C08Cmd.lean: which calls `restoreOne` issues
  (makedirs, the clearing of the destination, `shutil.move` with its copy fallback, the removal of
  the info file), and the frame of the whole command.
-/
import TrashVerif.Proofs.C08Cmd
namespace TrashVerif.Proofs.C08Cmd
open TrashVerif Prog FS PutLemmas C04 C11 TrashVerif.C08Cmd

section restore
variable {Inv : FS → Prop} {Ok : Call → Res → Prop} {r : CPath}

theorem not_pfx_dropLast {p : CPath} (h : ¬ r <+: p) : ¬ r <+: p.dropLast := fun h' => h (h'.trans (dropLast_pfx p))

theorem issf_makedirs : ∀ (fuel : Nat) (p : CPath) (mode : Nat), ¬ r <+: p →
    IssF Inv (Avoids r) Ok (makedirs fuel p mode) := by
  intro fuel
  induction fuel with
  | zero => intro p mode h; unfold makedirs; exact IssF.sys h
  | succ fuel ih =>
    intro p mode h
    unfold makedirs
    refine IssF.read_bind fun fs _ => ?_
    split
    · refine IssF.bind (ih _ _ (not_pfx_dropLast h)) fun x => ?_
      split
      · exact IssF.sys h
      · exact IssF.pure _
      · exact IssF.sys h
    · exact IssF.sys h

theorem issf_mkdirStr (cwd : CPath) (name : Bytes) (mode : Nat)
    (h : ∀ x, Inv x → ∀ p, FS.resolve x cwd name = .ok p → ¬ r <+: p) :
    IssF Inv (Avoids r) Ok (mkdirStr cwd name mode) := by
  unfold mkdirStr atPath
  refine IssF.read_bind fun fs hI => ?_
  split
  · next p hp => exact IssF.sys (h fs hI p hp)
  · exact IssF.pure _

theorem issf_makedirsStr (cwd : CPath) : ∀ (fuel : Nat) (name : Bytes) (mode : Nat),
    (∀ x, Inv x → ∀ q ∈ makedirsHeads fuel name, ∀ p, FS.resolve x cwd q = .ok p → ¬ r <+: p) →
    IssF Inv (Avoids r) Ok (makedirsStr cwd fuel name mode) := by
  intro fuel
  induction fuel with
  | zero =>
    intro name mode h
    unfold makedirsStr
    exact issf_mkdirStr cwd name mode fun x hx => h x hx name (by simp [makedirsHeads])
  | succ fuel ih =>
    intro name mode h
    have hname : IssF Inv (Avoids r) Ok (mkdirStr cwd name mode) :=
      issf_mkdirStr cwd name mode fun x hx => h x hx name (by unfold makedirsHeads; split <;> simp)
    unfold makedirsStr
    refine IssF.read_bind fun fs _ => ?_
    simp only []
    split
    · next hc =>
      have hheads : ∀ q ∈ makedirsHeads fuel (makedirsSplit name).1, q ∈ makedirsHeads (fuel + 1) name := by
        intro q hq
        unfold makedirsHeads
        rw [if_pos ⟨hc.1, hc.2.1⟩]
        exact List.mem_cons_of_mem _ hq
      refine IssF.bind (ih _ _ fun x hx q hq => h x hx q (hheads q hq)) fun y => ?_
      split
      · split
        · exact IssF.pure _
        · exact hname
      · exact IssF.pure _
      · split
        · exact IssF.pure _
        · exact hname
    · exact hname

theorem issf_of_rm {α} {p : CPath} {X : Prog α} (hp : Apart r p) (hX : Iss InvT (KR (U p)) X) :
    IssF Inv (Avoids r) Ok X :=
  IssF.of_iss (fun _ _ => trivial) (fun _ hc => kout_avoids (KR.mono (fun _ hx => apart_below hp hx) hc)) hX

theorem issf_copystat (src : CPath) {dst : CPath} (h : ¬ r <+: dst) : IssF Inv (Avoids r) Ok (copystat src dst) := by
  unfold copystat
  refine IssF.read_bind fun fs _ => ?_
  have main : ∀ m t, IssF Inv (Avoids r) Ok (sys (.utime dst t) >>= fun x =>
      match x with
      | .error e => (pure (.error e) : Prog Res)
      | .ok () => sys (.chmod dst m)) := by
    intro m t
    refine IssF.bind (IssF.sys h) fun x => ?_
    split
    · exact IssF.pure _
    · exact IssF.sys h
  split
  · exact main _ _
  · exact main _ _
  · exact IssF.pure _

theorem issf_copy2 (hS : ∀ x, Inv x → Sealed x r) (src : CPath) {dst : CPath} (h : Apart r dst) :
    IssF Inv (Avoids r) Ok (copy2 src dst) := by
  unfold copy2
  refine IssF.read_bind fun fs hI => ?_
  split
  · next data _ _ _ =>
    dsimp only
    have hd' : ¬ r <+: (if isdirC fs dst = true then dst ++ [src.getLast?.getD []] else dst) := by
      split
      · exact (apart_iff.1 (apart_append h _)).1
      · exact (apart_iff.1 h).1
    have ht : ¬ r <+: (followC fs (if isdirC fs dst = true then dst ++ [src.getLast?.getD []] else dst)).getD
        (if isdirC fs dst = true then dst ++ [src.getLast?.getD []] else dst) := by
      cases hf : followC fs (if isdirC fs dst = true then dst ++ [src.getLast?.getD []] else dst) with
      | none => exact hd'
      | some q =>
        have := hS fs hI _ q (fun e => hd' ((under_iff _ _).1 e)) hf
        exact fun e => this ((under_iff _ _).2 e)
    refine IssF.bind (IssF.sys ht) fun x => ?_
    split
    · exact IssF.pure _
    · refine IssF.bind ?_ fun w => ?_
      · split
        · exact IssF.pure _
        · exact IssF.sys ht
      · split
        · exact IssF.pure _
        · exact issf_copystat _ ht
  · exact IssF.pure _
  · exact IssF.pure _
  · exact IssF.pure _

theorem issf_copytree (hS : ∀ x, Inv x → Sealed x r) : ∀ (fuel : Nat) (src d : CPath), Apart r d →
    IssF Inv (Avoids r) Ok (copytree fuel src d) := by
  intro fuel
  induction fuel with
  | zero => intro src d _; unfold copytree; exact IssF.pure _
  | succ fuel ih =>
    intro src d hd
    have hgo : ∀ (cs : List CPath) (failed : Bool), IssF Inv (Avoids r) Ok (copytree.go fuel d cs failed) := by
      intro cs
      induction cs with
      | nil => intro failed; unfold copytree.go; exact IssF.pure _
      | cons c cs ihc =>
        intro failed
        unfold copytree.go
        refine IssF.read_bind fun fs' _ => ?_
        refine IssF.bind ?_ fun x => ihc _
        split
        · exact IssF.sys (apart_iff.1 (apart_append hd _)).1
        · exact ih _ _ (apart_append hd _)
        · exact issf_copy2 hS _ (apart_append hd _)
        · exact IssF.pure _
    unfold copytree
    refine IssF.read_bind fun fs _ => ?_
    refine IssF.bind (issf_makedirs _ _ _ (apart_iff.1 hd).1) fun x => ?_
    split
    · exact IssF.pure _
    · refine IssF.bind (hgo _ _) fun failed => ?_
      refine IssF.bind (issf_copystat _ (apart_iff.1 hd).1) fun r2 => ?_
      split
      · exact IssF.pure _
      · exact IssF.pure _

/-- `shutil.move`: the rename; after a failed rename either `Ok` rules the run out, or the copy
    fallback runs in sealed states -/
theorem issf_move (hfb : (∀ x, Inv x → Sealed x r) ∨ ∀ a c e, ¬ Ok (.rename a c) (.error e))
    {src dst : CPath} (hs : Apart r src) (hd : Apart r dst)
    (hinto : ∀ x, Inv x → ∀ q, followC x dst = some q → Apart r q) :
    IssF Inv (Avoids r) Ok (move src dst) := by
  have hren : ∀ d', Apart r d' → Avoids r (.rename src d') := fun d' h' =>
    ⟨apart_iff.1 hs, apart_iff.1 h'⟩
  unfold move
  refine IssF.read_bind fun fs hI => ?_
  dsimp only
  split
  · exact IssF.sys (hren _ hd)
  · have hreal : Apart r (if isdirC fs dst = true then (followC fs dst).getD dst ++ [src.getLast?.getD []] else dst) := by
      split
      · cases hf : followC fs dst with
        | none => exact apart_append hd _
        | some q => exact apart_append (hinto fs hI q hf) _
      · exact hd
    generalize (if isdirC fs dst = true then (followC fs dst).getD dst ++ [src.getLast?.getD []] else dst) = realDst
      at hreal ⊢
    split
    · exact IssF.pure _
    · rcases hfb with hS | hno
      · refine IssF.bind (IssF.sys (hren _ hreal)) fun x => ?_
        split
        · exact IssF.pure _
        · refine IssF.read_bind fun fs' _ => ?_
          split
          · refine IssF.bind (IssF.sys (apart_iff.1 hreal).1) fun y => ?_
            split
            · exact IssF.pure _
            · exact IssF.sys (apart_iff.1 hs).1
          · split
            · exact IssF.pure _
            · refine IssF.bind (issf_copytree hS _ _ _ hreal) fun y => ?_
              split
              · exact IssF.pure _
              · exact issf_of_rm hs (iss_rmtree src)
          · refine IssF.bind (issf_copy2 hS _ hreal) fun y => ?_
            split
            · exact IssF.pure _
            · exact IssF.sys (apart_iff.1 hs).1
          · exact IssF.pure _
      · exact IssF.sys_bind_ok (hren _ hreal) (hno _ _) (IssF.pure _)

theorem issf_restoreCore (hfb : (∀ x, Inv x → Sealed x r) ∨ ∀ a c e, ¬ Ok (.rename a c) (.error e))
    {R1 R2 R3 : Except Errno CPath} (h1 : ∀ p, R1 = .ok p → Apart r p) (h2 : ∀ p, R2 = .ok p → Apart r p)
    (h3 : ∀ p, R3 = .ok p → Apart r p)
    (hinto : ∀ d, R2 = .ok d → ∀ x, Inv x → ∀ q, followC x d = some q → Apart r q) :
    IssF Inv (Avoids r) Ok (restoreCore R1 R2 R3) := by
  unfold restoreCore
  split
  · next s d =>
    refine IssF.bind (issf_move hfb (h1 s rfl) (h2 d rfl) (hinto d rfl)) fun x => ?_
    split
    · exact IssF.pure _
    · split
      · next i => exact issf_of_rm (h3 i rfl) (iss_removeFile i)
      · exact IssF.pure _
  · exact IssF.pure _
  · exact IssF.pure _

/-- one entry -/
theorem issf_restoreOne (S : List FS) (cwd : CPath) (ov : Bool) (e : Entry)
    (hfb : (∀ x, Inv x → Sealed x r) ∨ ∀ a c er, ¬ Ok (.rename a c) (.error er))
    (hS : ∀ x, Inv x → x ∈ S) (hE : ∀ x, Inv x → EntryApart S x cwd r e) :
    IssF Inv (Avoids r) Ok (restoreOne cwd ov e) := by
  unfold restoreOne
  refine IssF.read_bind fun fs0 h0 => ?_
  split
  · exact IssF.pure _
  · refine IssF.bind ?_ fun mk => ?_
    · split
      · exact IssF.pure _
      · split
        · exact IssF.pure _
        · split
          · next hdot =>
            exact issf_makedirsStr cwd _ _ _ fun x hx q hq p hp h =>
              (hE x hx).parentHeads hdot q hq p hp ((under_iff _ _).2 h)
          · exact issf_makedirs _ _ _ (fun h => (hE fs0 h0).parent ((under_iff _ _).2 h))
    · split
      · exact IssF.pure _
      · refine IssF.read_bind fun fs1 _ => ?_
        split
        · exact IssF.pure _
        · refine IssF.bind ?_ fun cl => ?_
          · split
            · unfold atPath
              refine IssF.read_bind fun fs2 h2 => ?_
              split
              · next p hp => exact issf_of_rm ((hE fs2 h2).dest p hp) (iss_removeFile p)
              · exact IssF.pure _
            · exact IssF.pure _
          · split
            · exact IssF.pure _
            · refine IssF.read_bind fun fs3 h3 => ?_
              exact issf_restoreCore hfb (hE fs3 h3).payload (hE fs3 h3).dest (hE fs3 h3).info
                (fun d hd x hx q hq => (hE x hx).into fs3 (hS fs3 h3) d hd q hq)

theorem issf_restoreMany (S : List FS) (cwd : CPath) (ov : Bool)
    (hfb : (∀ x, Inv x → Sealed x r) ∨ ∀ a c er, ¬ Ok (.rename a c) (.error er))
    (hS : ∀ x, Inv x → x ∈ S) :
    ∀ es : List Entry, (∀ e ∈ es, ∀ x, Inv x → EntryApart S x cwd r e) →
      IssF Inv (Avoids r) Ok (restoreMany cwd ov es) := by
  intro es
  induction es with
  | nil => intro _; exact IssF.pure _
  | cons e es ih =>
    intro hall
    unfold restoreMany
    refine IssF.bind (issf_restoreOne S cwd ov e hfb hS (hall e List.mem_cons_self)) fun x => ?_
    split
    · exact IssF.pure _
    · exact ih fun e' he' => hall e' (List.mem_cons_of_mem _ he')

end restore

/-! ### the command -/

theorem mem_crashStates_iff {α} {φ : Oracle} {p : Prog α} {fs x : FS} :
    x ∈ crashStates φ p fs ↔ x = (run φ p { fs := fs }).2.fs ∨ x ∈ (run φ p { fs := fs }).2.hist := by
  unfold crashStates
  simp only [List.mem_reverse, List.mem_cons]

/-- what `runRestore` does once the file system was read -/
def restoreBody (c : ReadCfg) (o : RestoreOpts) (reply : Option Bytes) (fs : FS) : Prog CmdResult :=
  let cwdStr := toStr c.cwd
  let dir := restoreScopeDir cwdStr o.path
  let all := restoreEntries fs c o
  let offered := sortEntries o.sort (all.filter fun e => inScope dir e.loc)
  if offered = [] then do
    say (.stdout (b "No files trashed from current dir ('" ++ cwdStr ++ b "')"))
    pure { exit := 0 }
  else do
    emitAll ((List.range offered.length).filterMap fun i => (offered[i]?).map fun e => Out.stdout (restoreLine i e))
    match reply with
    | none => do say (.stderr "quit" []); pure { exit := 1 }
    | some r =>
      if r = [] then do say (.stdout (b "No files were restored")); pure { exit := 0 }
      else
        match parseIndexes r offered.length with
        | .invalid => do say (.stderr "invalid-entry" r); pure { exit := 1 }
        | .crash => do say (.stderr "traceback" r); pure { exit := 1, crash := some .typeError }
        | .ok is =>
          match ← restoreMany c.cwd o.overwrite (is.filterMap fun i => offered[i]?) with
          | .ok () => pure { exit := 0 }
          | .error _ => do say (.stderr "die" []); pure { exit := 1 }

theorem runRestore_body (φ : Oracle) (c : ReadCfg) (o : RestoreOpts) (reply : Option Bytes) (s : RunState) :
    run φ (runRestore c o reply) s = run φ (restoreBody c o reply s.fs) s := rfl

theorem issf_emitAll {Inv : FS → Prop} {K : Call → Prop} {Ok : Call → Res → Prop} :
    ∀ os : List Out, IssF Inv K Ok (emitAll os) := by
  intro os
  induction os with
  | nil => exact IssF.pure _
  | cons o os ih => unfold emitAll; exact IssF.bind (IssF.say o) fun _ => ih

theorem mem_sortEntries {mode : SortMode} {es : List Entry} {e : Entry} (h : e ∈ sortEntries mode es) : e ∈ es := by
  unfold sortEntries at h
  cases mode
  · exact List.mem_mergeSort.1 h
  · exact List.mem_mergeSort.1 h
  · exact h

theorem issf_restoreBody {Inv : FS → Prop} {Ok : Call → Res → Prop} {r : CPath} (S : List FS)
    (c : ReadCfg) (o : RestoreOpts) (reply : Option Bytes) (fs : FS)
    (hfb : (∀ x, Inv x → Sealed x r) ∨ ∀ a c er, ¬ Ok (.rename a c) (.error er))
    (hS : ∀ x, Inv x → x ∈ S)
    (hE : ∀ e ∈ restoreEntries fs c o, ∀ x, Inv x → EntryApart S x c.cwd r e) :
    IssF Inv (Avoids r) Ok (restoreBody c o reply fs) := by
  unfold restoreBody
  dsimp only
  split
  · exact trivial
  · refine IssF.bind (issf_emitAll _) fun _ => ?_
    split
    · exact trivial
    · split
      · exact trivial
      · split
        · exact trivial
        · exact trivial
        · next is _ =>
          refine IssF.bind (issf_restoreMany S c.cwd o.overwrite hfb hS _ ?_) fun x => ?_
          · intro e he
            obtain ⟨i, _, hi⟩ := List.mem_filterMap.1 he
            have h1 := List.mem_of_getElem? hi
            have h2 := mem_sortEntries h1
            exact hE e (List.mem_filter.1 h2).1
          · split
            · exact IssF.pure _
            · exact trivial

/-- the directories trash-restore reads, when `--trash-dir` does not name the insecure directory -/
theorem restoreDirs_ne_top {fs : FS} {c : ReadCfg} {o : RestoreOpts} {v : Bytes}
    (hi : pIslink fs c.cwd (dirname (topDir c v)) = true ∨ pIsdir fs c.cwd (dirname (topDir c v)) = false ∨
          pSticky fs c.cwd (dirname (topDir c v)) ≠ some true)
    (hhome : topDir c v ∉ homeTrashPaths c.env) (hdir : o.trashDir ≠ some (topDir c v)) :
    ∀ tv ∈ restoreTrashDirs fs c o.trashDir, tv.1 ≠ topDir c v := by
  intro tv htv
  have hnone : ∀ td : Option Bytes, (td = none ∨ td = some []) → restoreTrashDirs fs c td = restoreTrashDirs fs c none := by
    rintro td (rfl | rfl)
    · rfl
    · unfold restoreTrashDirs; simp
  cases hd : o.trashDir with
  | none => rw [hd] at htv; exact top_not_restored hi hhome tv htv
  | some d =>
    rw [hd] at htv hdir
    by_cases hd0 : d = []
    · subst hd0
      rw [hnone _ (Or.inr rfl)] at htv
      exact top_not_restored hi hhome tv htv
    · unfold restoreTrashDirs at htv
      simp only [ne_eq, hd0, not_false_eq_true, if_true, List.mem_singleton] at htv
      rw [htv]
      exact fun e => hdir (by rw [← e])

theorem mem_restoreEntries {fs : FS} {c : ReadCfg} {o : RestoreOpts} {e : Entry} (h : e ∈ restoreEntries fs c o) :
    ∃ tv ∈ restoreTrashDirs fs c o.trashDir, e ∈ restoreEntriesOf fs c.cwd tv.1 tv.2 := by
  unfold restoreEntries at h
  obtain ⟨tv, htv, he⟩ := List.mem_flatMap.1 h
  exact ⟨tv, htv, he⟩

/-- The frame of a program all of whose calls avoid `r` — given, in every state of the run, the
    geometry `G` (and either sealedness, or no failed rename in the whole run). -/
theorem frame_partial {α} (φ : Oracle) (p : Prog α) (fs : FS) (r : CPath) (G : List FS → FS → Prop)
    (hp : ∀ (Inv : FS → Prop) (Ok : Call → Res → Prop),
        ((∀ x, Inv x → Sealed x r) ∨ ∀ a c er, ¬ Ok (.rename a c) (.error er)) →
        (∀ x, Inv x → x ∈ crashStates φ p fs ∧ G (crashStates φ p fs) x) → IssF Inv (Avoids r) Ok p)
    (hgeo : ∀ x ∈ crashStates φ p fs, G (crashStates φ p fs) x)
    (hmove : (∀ x ∈ crashStates φ p fs, Sealed x r) ∨ NoRenameFailed (run φ p { fs := fs }).2.trace) :
    ∀ x ∈ crashStates φ p fs, ∀ rel, x.get (r ++ rel) = fs.get (r ++ rel) := by
  let S := crashStates φ p fs
  let NF : Prop := NoRenameFailed (run φ p { fs := fs }).2.trace
  let Inv : FS → Prop := fun x => (x ∈ S ∧ G S x) ∧ (NF ∨ Sealed x r)
  let Ok : Call → Res → Prop := fun cl res => NF → ∀ a b er, ¬ (cl = .rename a b ∧ res = .error er)
  have hfb : (∀ x, Inv x → Sealed x r) ∨ ∀ a c er, ¬ Ok (.rename a c) (.error er) := by
    by_cases hnf : NF
    · exact Or.inr fun a c er hok => hok hnf a c er ⟨rfl, rfl⟩
    · exact Or.inl fun x hx => hx.2.resolve_left hnf
  have hiss : IssF Inv (Avoids r) Ok p := hp Inv Ok hfb (fun x hx => hx.1)
  have hinv : ∀ x ∈ S, Inv x := by
    intro x hx
    refine ⟨⟨hx, hgeo x hx⟩, ?_⟩
    rcases hmove with h | h
    · exact Or.inr (h x hx)
    · exact Or.inl h
  obtain ⟨a, bb⟩ := IssF.sound φ (fun x => ∀ rel, x.get (r ++ rel) = fs.get (r ++ rel))
    (fun cl hc x x' hj h rel => (avoids_keep hc h rel).trans (hj rel)) p
    { fs := fs } (run φ p { fs := fs }).2.hist (run φ p { fs := fs }).2.trace hiss (fun _ => rfl) (by simp) (by simp)
    (fun x hx => hinv x (mem_crashStates_iff.2 hx))
    (fun cr hcr hnf a b er ⟨e1, e2⟩ => hnf a b er (by
      show (Call.rename a b, Except.error er) ∈ (run φ p { fs := fs }).2.trace
      rw [← e1, ← e2]; exact hcr))
  intro x hx
  rcases mem_crashStates_iff.1 hx with h | h
  · rw [h]; exact a
  · exact bb x h

/-- KEY LEMMA (trash-restore): the restoring of a list of entries -/
theorem restoreMany_frame (φ : Oracle) (cwd : CPath) (ov : Bool) (es : List Entry) (fs : FS) (r : CPath)
    (hgeo : ∀ e ∈ es, ∀ x ∈ crashStates φ (restoreMany cwd ov es) fs,
      EntryApart (crashStates φ (restoreMany cwd ov es) fs) x cwd r e)
    (hmove : (∀ x ∈ crashStates φ (restoreMany cwd ov es) fs, Sealed x r) ∨
      NoRenameFailed (run φ (restoreMany cwd ov es) { fs := fs }).2.trace) :
    ∀ x ∈ crashStates φ (restoreMany cwd ov es) fs, ∀ rel, x.get (r ++ rel) = fs.get (r ++ rel) :=
  frame_partial φ _ fs r (fun S x => ∀ e ∈ es, EntryApart S x cwd r e)
    (fun _ _ hfb hI => issf_restoreMany _ cwd ov hfb (fun x hx => (hI x hx).1) es (fun e he x hx => (hI x hx).2 e he))
    (fun x hx e he => hgeo e he x hx) hmove

theorem crashStates_restore (φ : Oracle) (c : ReadCfg) (o : RestoreOpts) (reply : Option Bytes) (fs : FS) :
    crashStates φ (runRestore c o reply) fs = crashStates φ (restoreBody c o reply fs) fs := rfl

theorem restore_frames_insecure (φ : Oracle) (c : ReadCfg) (o : RestoreOpts) (reply : Option Bytes) (fs : FS)
    (v : Bytes) (r : CPath)
    (hi : pIslink fs c.cwd (dirname (topDir c v)) = true ∨ pIsdir fs c.cwd (dirname (topDir c v)) = false ∨
          pSticky fs c.cwd (dirname (topDir c v)) ≠ some true)
    (hhome : topDir c v ∉ homeTrashPaths c.env) (hdir : o.trashDir ≠ some (topDir c v))
    (hgeo : ∀ tv ∈ restoreTrashDirs fs c o.trashDir, tv.1 ≠ topDir c v →
      ∀ e ∈ restoreEntriesOf fs c.cwd tv.1 tv.2, ∀ x ∈ crashStates φ (runRestore c o reply) fs,
        EntryApart (crashStates φ (runRestore c o reply) fs) x c.cwd r e)
    (hmove : (∀ x ∈ crashStates φ (runRestore c o reply) fs, Sealed x r) ∨
      NoRenameFailed (run φ (runRestore c o reply) { fs := fs }).2.trace) :
    (∀ tv ∈ restoreTrashDirs fs c o.trashDir, tv.1 ≠ topDir c v) ∧
    ∀ x ∈ crashStates φ (runRestore c o reply) fs, ∀ rel, x.get (r ++ rel) = fs.get (r ++ rel) := by
  have hne := restoreDirs_ne_top hi hhome hdir
  refine ⟨hne, ?_⟩
  rw [crashStates_restore] at hgeo hmove ⊢
  have hrun := runRestore_body φ c o reply { fs := fs }
  rw [hrun] at hmove
  refine frame_partial φ (restoreBody c o reply fs) fs r
    (fun S x => ∀ e ∈ restoreEntries fs c o, EntryApart S x c.cwd r e)
    (fun _ _ hfb hI => issf_restoreBody _ c o reply fs hfb (fun x hx => (hI x hx).1) (fun e he x hx => (hI x hx).2 e he))
    (fun x hx e he => ?_) hmove
  obtain ⟨tv, htv, he'⟩ := mem_restoreEntries he
  exact hgeo tv htv (hne tv htv) e he' x hx

/-- "neither show nor restore": every entry trash-restore offers comes from a directory of its
    list that is not the insecure `.Trash/$uid` -/
theorem restore_offers_nothing_insecure (c : ReadCfg) (o : RestoreOpts) (fs : FS) (v : Bytes)
    (hi : pIslink fs c.cwd (dirname (topDir c v)) = true ∨ pIsdir fs c.cwd (dirname (topDir c v)) = false ∨
          pSticky fs c.cwd (dirname (topDir c v)) ≠ some true)
    (hhome : topDir c v ∉ homeTrashPaths c.env) (hdir : o.trashDir ≠ some (topDir c v)) :
    ∀ e ∈ restoreEntries fs c o, ∃ tv ∈ restoreTrashDirs fs c o.trashDir, tv.1 ≠ topDir c v ∧
      e ∈ restoreEntriesOf fs c.cwd tv.1 tv.2 := by
  intro e he
  obtain ⟨tv, htv, he'⟩ := mem_restoreEntries he
  exact ⟨tv, htv, restoreDirs_ne_top hi hhome hdir tv htv, he'⟩

/-- the listing of trash-restore (the prompt answered by EOF): nothing is touched; every stdout line
    is the "No files trashed" message or the line of an offered entry, and every offered entry comes
    from a directory of the list that is not the insecure `.Trash/$uid` -/
theorem restore_shows_nothing_insecure (φ : Oracle) (c : ReadCfg) (o : RestoreOpts) (s : RunState) (v : Bytes)
    (hi : pIslink s.fs c.cwd (dirname (topDir c v)) = true ∨ pIsdir s.fs c.cwd (dirname (topDir c v)) = false ∨
          pSticky s.fs c.cwd (dirname (topDir c v)) ≠ some true)
    (hhome : topDir c v ∉ homeTrashPaths c.env) (hdir : o.trashDir ≠ some (topDir c v)) :
    (run φ (runRestore c o none) s).2.fs = s.fs ∧ (run φ (runRestore c o none) s).2.trace = s.trace ∧
    ∀ line, Out.stdout line ∈ (run φ (runRestore c o none) s).2.outs → Out.stdout line ∈ s.outs ∨
      line = b "No files trashed from current dir ('" ++ toStr c.cwd ++ b "')" ∨
      ∃ i e, line = restoreLine i e ∧ ∃ tv ∈ restoreTrashDirs s.fs c o.trashDir, tv.1 ≠ topDir c v ∧
        e ∈ restoreEntriesOf s.fs c.cwd tv.1 tv.2 := by
  rw [runRestore_body]
  unfold restoreBody
  dsimp only
  split
  · refine ⟨rfl, rfl, fun line hl => ?_⟩
    have hl' : Out.stdout line ∈ Out.stdout (b "No files trashed from current dir ('" ++ toStr c.cwd ++ b "')") :: s.outs := hl
    rcases List.mem_cons.1 hl' with h | h
    · cases h; exact Or.inr (Or.inl rfl)
    · exact Or.inl h
  · rw [run_bind, C09.emitAll_run]
    refine ⟨rfl, rfl, fun line hl => ?_⟩
    have hl' : Out.stdout line ∈ Out.stderr "quit" [] :: (((List.range (sortEntries o.sort (List.filter
        (fun e => inScope (restoreScopeDir (toStr c.cwd) o.path) e.loc) (restoreEntries s.fs c o))).length).filterMap
        fun i => ((sortEntries o.sort (List.filter (fun e => inScope (restoreScopeDir (toStr c.cwd) o.path) e.loc)
          (restoreEntries s.fs c o)))[i]?).map fun e => Out.stdout (restoreLine i e)).reverse ++ s.outs) := hl
    rcases List.mem_cons.1 hl' with h | h
    · cases h
    rcases List.mem_append.1 h with h | h
    · right; right
      obtain ⟨i, _, hi'⟩ := List.mem_filterMap.1 (List.mem_reverse.1 h)
      obtain ⟨e, he, hline⟩ := Option.map_eq_some_iff.1 hi'
      cases hline
      have h1 := mem_sortEntries (List.mem_of_getElem? he)
      obtain ⟨tv, htv, hne, he'⟩ := restore_offers_nothing_insecure c o s.fs v hi hhome hdir e (List.mem_filter.1 h1).1
      exact ⟨i, e, rfl, tv, htv, hne, he'⟩
    · exact Or.inl h

end TrashVerif.Proofs.C08Cmd
