/-
  Proofs/C11CmdEx.lean — concrete worlds for Props/C11Cmd.lean: non-vacuity of the command-level
  frame theorems (home trash + a volume trash directory whose payloads are symbolic links to outside
  files and directories, trees containing such links, a dangling link; an outside sentinel tree),
  the runs evaluated through the kernel-evaluable twins, and the kernel-checked boundary worlds.
-/
import TrashVerif.Proofs.C11Cmd
import TrashVerif.Proofs.C08CmdEx
import TrashVerif.Proofs.C11CmdEval
namespace TrashVerif.Proofs.C11CmdEx
open TrashVerif Prog FS TrashVerif.C08Cmd TrashVerif.C11Cmd
open TrashVerif.Proofs.C16Eval TrashVerif.Proofs.C02CmdEval TrashVerif.Proofs.C08CmdEval TrashVerif.Proofs.C08Cmd
open TrashVerif.Proofs.C11Cmd
open TrashVerif.Proofs.C08CmdEx (dN TH TA R infoOf rc eo plainNames_ofList WN)
open TrashVerif.Proofs.C11CmdEval (emptyT rmT empty_twin rm_twin runEmptyT runRmT)

/-! ### checkers -/

def rootsOfS (fs : FS) (cwd : CPath) (dirs : List (Bytes × Bytes)) : List CPath :=
  dirs.flatMap fun tv =>
    (match resolveS fs cwd (pjoin tv.1 (b "files")) true with | .ok D => [D] | .error _ => []) ++
    (match resolveS fs cwd (pjoin tv.1 (b "info")) true with | .ok D => [D] | .error _ => [])

theorem rootsOf_eq (fs : FS) (cwd : CPath) (dirs : List (Bytes × Bytes)) : rootsOf fs cwd dirs = rootsOfS fs cwd dirs := by
  unfold rootsOf rootsOfS; simp only [resolve_eq] <;> rfl

/-- the directory entries `files` / `info` (final component not followed), computed -/
def subdirEntriesS (fs : FS) (cwd : CPath) (dirs : List (Bytes × Bytes)) : List CPath :=
  dirs.flatMap fun tv =>
    (match resolveS fs cwd (pjoin tv.1 (b "files")) false with | .ok D => [D] | .error _ => []) ++
    (match resolveS fs cwd (pjoin tv.1 (b "info")) false with | .ok D => [D] | .error _ => [])

theorem subdirEntry_mem {fs : FS} {cwd : CPath} {dirs : List (Bytes × Bytes)} {p : CPath}
    (h : SubdirEntry fs cwd dirs p) : p ∈ subdirEntriesS fs cwd dirs := by
  unfold subdirEntriesS
  rw [List.mem_flatMap]
  obtain ⟨tv, htv, h | h⟩ := h
  · rw [resolve_eq] at h; exact ⟨tv, htv, by rw [h]; simp⟩
  · rw [resolve_eq] at h; exact ⟨tv, htv, by rw [h]; simp⟩

theorem outside_of_roots {fs : FS} {cwd : CPath} {dirs : List (Bytes × Bytes)} {rs : List CPath}
    (hr : rootsOf fs cwd dirs = rs) {q : CPath} (h : ∀ D ∈ rs, ¬ FS.under D q = true) : Outside fs cwd dirs q :=
  fun D hD => h D (hr ▸ root_iff_mem.1 hD)

theorem notInside_of_roots {fs : FS} {cwd : CPath} {dirs : List (Bytes × Bytes)} {rs : List CPath}
    (hr : rootsOf fs cwd dirs = rs) {q : CPath} (h : ∀ D ∈ rs, ¬ FS.strictlyUnder D q = true) :
    NotInside fs cwd dirs q :=
  fun D hD => h D (hr ▸ root_iff_mem.1 hD)

/-! ### the world `WE`

    Two volumes, `/` and the mount point `/m`; HOME=/h, uid 1000, cwd `/`.
    Outside sentinel tree: `/o/f`, `/o/d/g`, `/o/d/sub/h`, `/q`, `/m/keep`.
    Home trash `/h/.local/share/Trash`:
      `lf -> /o/f` (absolute link to an outside file), `ld -> ../../../../../o/d` (relative link to
      an outside directory), `tree/` = { `a`, `lnk -> /o/d`, `sub/rel -> ../../ld` } (a tree with links, one of
      them to a link), `dang -> /nowhere` (dangling) — each with its `.trashinfo` — and the orphan
      `orph -> /o`.
    Volume trash `/m/.Trash-1000`:
      `y -> /m/keep`, `tree2/` = { `l -> /o/d`, `up -> ../../..` } with their `.trashinfo`, and the three
      odd info names `.trashinfo`, `..trashinfo`, `...trashinfo`. -/

def HF : CPath := TH ++ [b "files"]
def HI : CPath := TH ++ [b "info"]
def AF : CPath := TA ++ [b "files"]
def AI : CPath := TA ++ [b "info"]

/-- the outside sentinels -/
def outsideE : List (CPath × Node) :=
  [([], dN), ([b "h"], dN), ([b "h", b ".local"], dN), ([b "h", b ".local", b "share"], dN), (TH, dN),
   ([b "o"], dN), ([b "o", b "f"], .file [70] 0o644 7), ([b "o", b "d"], .dir 0o755 9),
   ([b "o", b "d", b "g"], .file [71] 0o600 0), ([b "o", b "d", b "sub"], .dir 0o700 3),
   ([b "o", b "d", b "sub", b "h"], .file [72] 0o644 0), ([b "q"], dN),
   ([b "m"], dN), ([b "m", b "keep"], .file [75] 0o644 0), (TA, .dir 0o700 0)]

def nodesE : List (CPath × Node) :=
  outsideE ++
  [(HF, dN), (HI, dN),
   (HF ++ [b "lf"], .link (b "/o/f")), (HI ++ [b "lf.trashinfo"], .file (infoOf (b "/q/lf")) 0o600 0),
   (HF ++ [b "ld"], .link (b "../../../../../o/d")), (HI ++ [b "ld.trashinfo"], .file (infoOf (b "/q/ld")) 0o600 0),
   (HF ++ [b "tree"], dN), (HF ++ [b "tree", b "a"], .file [97] 0o644 0),
   (HF ++ [b "tree", b "lnk"], .link (b "/o/d")), (HF ++ [b "tree", b "sub"], dN),
   (HF ++ [b "tree", b "sub", b "rel"], .link (b "../../ld")),
   (HI ++ [b "tree.trashinfo"], .file (infoOf (b "/q/tree")) 0o600 0),
   (HF ++ [b "dang"], .link (b "/nowhere")), (HI ++ [b "dang.trashinfo"], .file (infoOf (b "/q/dang")) 0o600 0),
   (HF ++ [b "orph"], .link (b "/o")),
   (AF, dN), (AI, dN),
   (AF ++ [b "y"], .link (b "/m/keep")), (AI ++ [b "y.trashinfo"], .file (infoOf (b "y")) 0o600 0),
   (AF ++ [b "tree2"], dN), (AF ++ [b "tree2", b "l"], .link (b "/o/d")), (AF ++ [b "tree2", b "up"], .link (b "../../..")),
   (AI ++ [b "tree2.trashinfo"], .file (infoOf (b "tree2")) 0o600 0),
   (AI ++ [b ".trashinfo"], .file (infoOf (b "e0")) 0o600 0), (AI ++ [b "..trashinfo"], .file (infoOf (b "e1")) 0o600 0),
   (AI ++ [b "...trashinfo"], .file (infoOf (b "e2")) 0o600 0)]

def WE : FS := FS.ofList nodesE [[], [b "m"]]

/-- the directories the run visits -/
def dirsE : List (Bytes × Bytes) := [(b "/h/.local/share/Trash", [slash]), (b "/m/.Trash-1000", b "/m")]

theorem plainE : PlainNames WE := plainNames_ofList (by decide +kernel)

theorem foundE : foundDirs (selectTrashDirs WE rc []) = dirsE := by
  rw [selectTrashDirs_eq]; decide +kernel

theorem scanE : foundDirs (scanTrashDirs WE rc) = dirsE := by
  rw [scanTrashDirs_eq]; decide +kernel

/-- the four roots: `files/` and `info/` of the two directories -/
theorem rootsE : rootsOf WE rc.cwd dirsE = [HF, HI, AF, AI] := by
  rw [rootsOf_eq]; decide +kernel

/-- every sentinel is outside; the four roots are not strictly inside a root -/
theorem outsideE_ok : ∀ pn ∈ outsideE, Outside WE rc.cwd dirsE pn.1 := by
  intro pn hpn
  refine outside_of_roots rootsE ?_
  revert pn; decide +kernel

theorem rootsE_notInside : ∀ D ∈ [HF, HI, AF, AI], NotInside WE rc.cwd dirsE D := by
  intro D hD
  refine notInside_of_roots rootsE ?_
  revert D; decide +kernel

/-- where the link payloads lead: outside -/
theorem leadsE :
    LinkLeads WE (HF ++ [b "lf"]) (b "/o/f") [b "o", b "f"] ∧
    LinkLeads WE (HF ++ [b "ld"]) (b "../../../../../o/d") [b "o", b "d"] ∧
    LinkLeads WE (HF ++ [b "tree", b "lnk"]) (b "/o/d") [b "o", b "d"] ∧
    LinkLeads WE (HF ++ [b "tree", b "sub", b "rel"]) (b "../../ld") [b "o", b "d"] ∧
    LinkLeads WE (HF ++ [b "orph"]) (b "/o") [b "o"] ∧
    LinkLeads WE (AF ++ [b "y"]) (b "/m/keep") [b "m", b "keep"] ∧
    LinkLeads WE (AF ++ [b "tree2", b "l"]) (b "/o/d") [b "o", b "d"] := by
  unfold LinkLeads
  simp only [resolve_eq]
  decide +kernel

theorem apartE : ∀ x ∈ [[b "o"], [b "o", b "f"], [b "o", b "d"], [b "m", b "keep"]],
    ∀ D, Root WE rc.cwd dirsE D → Apart D x := by
  intro x hx D hD
  have hm := root_iff_mem.1 hD
  rw [rootsE] at hm
  clear hD
  revert D; revert x; decide +kernel

/-- the run of `trash-empty`, evaluated: exit 0, every pair and the orphan gone, every outside
    sentinel exactly as it was, `files/` and `info/` still there, the three odd info files left alone -/
theorem emptyE_eval :
    (emptyT rc eo WE).1.exit = 0 ∧
    (∀ n ∈ [b "lf", b "ld", b "tree", b "dang", b "orph"], (emptyT rc eo WE).2.fs.get (HF ++ [n]) = none) ∧
    (∀ n ∈ [b "lf.trashinfo", b "ld.trashinfo", b "tree.trashinfo", b "dang.trashinfo"],
      (emptyT rc eo WE).2.fs.get (HI ++ [n]) = none) ∧
    (∀ n ∈ [b "y", b "tree2"], (emptyT rc eo WE).2.fs.get (AF ++ [n]) = none) ∧
    (∀ n ∈ [b "y.trashinfo", b "tree2.trashinfo"], (emptyT rc eo WE).2.fs.get (AI ++ [n]) = none) ∧
    (∀ pn ∈ outsideE, (emptyT rc eo WE).2.fs.get pn.1 = some pn.2) ∧
    (∀ D ∈ [HF, HI, AF, AI], (emptyT rc eo WE).2.fs.get D = some dN) ∧
    (∀ n ∈ [b ".trashinfo", b "..trashinfo", b "...trashinfo"],
      (emptyT rc eo WE).2.fs.get (AI ++ [n]) = WE.get (AI ++ [n]) ∧ (WE.get (AI ++ [n])).isSome = true) := by
  decide +kernel

/-- … and every state a kill can leave behind keeps every outside sentinel -/
theorem emptyE_crash :
    ∀ x ∈ crashStates noFaults (runEmptyT rc eo none) WE, ∀ pn ∈ outsideE, x.get pn.1 = some pn.2 := by
  decide +kernel

/-- the run of `trash-rm '*'`, evaluated -/
theorem rmE_eval :
    (rmT rc [b "*"] WE).1.exit = 0 ∧
    (∀ n ∈ [b "lf", b "ld", b "tree", b "dang"], (rmT rc [b "*"] WE).2.fs.get (HF ++ [n]) = none) ∧
    (rmT rc [b "*"] WE).2.fs.get (HF ++ [b "orph"]) = some (.link (b "/o")) ∧
    (∀ n ∈ [b "y", b "tree2"], (rmT rc [b "*"] WE).2.fs.get (AF ++ [n]) = none) ∧
    (∀ pn ∈ outsideE, (rmT rc [b "*"] WE).2.fs.get pn.1 = some pn.2) ∧
    (∀ D ∈ [HF, HI, AF, AI], (rmT rc [b "*"] WE).2.fs.get D = some dN) ∧
    (∀ n ∈ [b ".trashinfo", b "..trashinfo", b "...trashinfo"],
      (rmT rc [b "*"] WE).2.fs.get (AI ++ [n]) = WE.get (AI ++ [n])) := by
  decide +kernel

/-! ### `--trash-dir` with trailing slashes; a fault oracle -/

/-- `trash-empty --trash-dir /m/.Trash-1000//` -/
def eoU : EmptyOpts := { now := ⟨2024, 1, 1, 0, 0, 0⟩, userDirs := [b "/m/.Trash-1000//"] }
def dirsU : List (Bytes × Bytes) := [(b "/m/.Trash-1000//", b "/m")]

theorem foundU : foundDirs (selectTrashDirs WE rc eoU.userDirs) = dirsU := by
  rw [selectTrashDirs_eq]; decide +kernel

theorem rootsU : rootsOf WE rc.cwd dirsU = [AF, AI] := by
  rw [rootsOf_eq]; decide +kernel

/-- the readers list `…//files`, `path_of_backup_copy` says `…/files/y`: different strings -/
theorem stringsU :
    pjoin (pjoin (b "/m/.Trash-1000//") (b "files")) (b "y") = b "/m/.Trash-1000//files/y" ∧
    pathOfBackupCopy (pjoin (pjoin (b "/m/.Trash-1000//") (b "info")) (b "y.trashinfo")) = b "/m/.Trash-1000/files/y" := by
  decide +kernel

/-- the run evaluated: the volume trash directory is emptied, the home trash is not visited, the
    sentinels are as they were -/
theorem emptyU_eval :
    (emptyT rc eoU WE).1.exit = 0 ∧
    (∀ n ∈ [b "y", b "tree2"], (emptyT rc eoU WE).2.fs.get (AF ++ [n]) = none) ∧
    (∀ n ∈ [b "y.trashinfo", b "tree2.trashinfo"], (emptyT rc eoU WE).2.fs.get (AI ++ [n]) = none) ∧
    (∀ pn ∈ outsideE, (emptyT rc eoU WE).2.fs.get pn.1 = some pn.2) ∧
    (∀ n ∈ [b "lf", b "ld", b "tree", b "dang", b "orph"], (emptyT rc eoU WE).2.fs.get (HF ++ [n]) = WE.get (HF ++ [n])) ∧
    (emptyT rc eoU WE).2.fs.get AF = some dN ∧ (emptyT rc eoU WE).2.fs.get AI = some dN := by
  decide +kernel

/-- every `unlink` fails with EACCES: `remove_file2` falls back to `shutil.rmtree`, which refuses a
    symbolic link and fails inside a tree -/
def noUnlink : Oracle := fun _ _ c => if c.kind = "unlink" then some .EACCES else none

/-- the run under `noUnlink`, evaluated: nothing at all is removed — the link payloads are still there,
    unfollowed — and every sentinel is as it was; each failure is reported -/
theorem emptyE_noUnlink :
    (run noUnlink (runEmptyT rc eo none) { fs := WE }).1.exit = 0 ∧
    (∀ pn ∈ nodesE, ((run noUnlink (runEmptyT rc eo none) { fs := WE }).2.fs.get pn.1).isSome = true) ∧
    (∀ pn ∈ outsideE, (run noUnlink (runEmptyT rc eo none) { fs := WE }).2.fs.get pn.1 = some pn.2) ∧
    (run noUnlink (runEmptyT rc eo none) { fs := WE }).2.fs.get (HF ++ [b "lf"]) = some (.link (b "/o/f")) ∧
    Out.stderr "cannot-remove" (b "/h/.local/share/Trash/files/lf") ∈ (run noUnlink (runEmptyT rc eo none) { fs := WE }).2.outs := by
  decide +kernel

/-! ### boundary: `files/` and `info/` that are symbolic links

    `WI`: `/m/.Trash-1000/info -> /o/i` and `/m/.Trash-1000/files -> /o/d`; `/o/i` holds
    `x.trashinfo`, `/o/d` holds `x`, `g` and `sub/h`. -/

def nodesI : List (CPath × Node) :=
  [([], dN), ([b "h"], dN), ([b "m"], dN), (TA, .dir 0o700 0),
   (AF, .link (b "/o/d")), (AI, .link (b "/o/i")),
   ([b "o"], dN), ([b "o", b "i"], dN), ([b "o", b "i", b "x.trashinfo"], .file (infoOf (b "x")) 0o600 0),
   ([b "o", b "d"], dN), ([b "o", b "d", b "x"], .file [120] 0o644 0), ([b "o", b "d", b "g"], .file [71] 0o644 0),
   ([b "o", b "d", b "sub"], dN), ([b "o", b "d", b "sub", b "h"], .file [72] 0o644 0)]

def WI : FS := FS.ofList nodesI [[], [b "m"]]

/-- the places deleted from in `WI` -/
def goneI : List CPath :=
  [[b "o", b "i", b "x.trashinfo"], [b "o", b "d", b "x"], [b "o", b "d", b "g"], [b "o", b "d", b "sub"],
   [b "o", b "d", b "sub", b "h"]]

theorem foundI : foundDirs (selectTrashDirs WI rc []) = dirsE := by
  rw [selectTrashDirs_eq]; decide +kernel

theorem scanI : foundDirs (scanTrashDirs WI rc) = dirsE := by
  rw [scanTrashDirs_eq]; decide +kernel

/-- The frame relative to the directory ENTRIES `files` / `info` (or to the subtree of the trash
    directory) is FALSE without `RealSubdirs`: in `WI` the names are plain, the run visits the home
    trash (missing) and `/m/.Trash-1000`, whose `files` and `info` are symbolic links; the five paths
    of `goneI` are at or below no entry `files`/`info` of a visited directory, nor below
    `/m/.Trash-1000`, nor below `/h`; `trash-empty` removes all five, `trash-rm '*'` the pair
    `/o/i/x.trashinfo`, `/o/d/x`.  The ROOTS of `WI` (links followed) are `/o/d` and `/o/i`: this is what
    `empty_frame` / `rm_frame` promise, and no more. -/
theorem linked_subdirs_delete_elsewhere :
    PlainNames WI ∧
    foundDirs (selectTrashDirs WI rc []) = dirsE ∧ foundDirs (scanTrashDirs WI rc) = dirsE ∧
    ¬ RealSubdirs WI rc.cwd (b "/m/.Trash-1000") ∧
    (∀ q ∈ goneI, (∀ p, SubdirEntry WI rc.cwd dirsE p → ¬ FS.under p q = true) ∧
      ¬ FS.under TA q = true ∧ ¬ FS.under [b "h"] q = true ∧ (WI.get q).isSome = true) ∧
    (∀ q ∈ goneI, (run noFaults (runEmpty rc eo none) { fs := WI }).2.fs.get q = none) ∧
    (run noFaults (runRm rc [b "*"]) { fs := WI }).2.fs.get [b "o", b "i", b "x.trashinfo"] = none ∧
    (run noFaults (runRm rc [b "*"]) { fs := WI }).2.fs.get [b "o", b "d", b "x"] = none ∧
    rootsOf WI rc.cwd dirsE = [[b "o", b "d"], [b "o", b "i"]] := by
  refine ⟨plainNames_ofList (by decide +kernel), foundI, scanI, ?_, ?_, ?_, ?_, ?_, ?_⟩
  · unfold RealSubdirs; rw [pIslink_eq, pIslink_eq]; decide +kernel
  · intro q hq
    refine ⟨fun p hp => ?_, ?_⟩
    · have hm := subdirEntry_mem hp
      clear hp
      revert p; revert q; decide +kernel
    · revert q; decide +kernel
  · rw [empty_twin]; decide +kernel
  · rw [rm_twin]; decide +kernel
  · rw [rm_twin]; decide +kernel
  · rw [rootsOf_eq]; decide +kernel

/-! ### boundary: names that no kernel produces -/

/-- `empty_frame` WITHOUT `PlainNames` is FALSE (world `WN` of Proofs/C08CmdEx.lean: an entry of
    `/m/.Trash-1000/info` whose NAME is `../../.Trash/1000/info/x.trashinfo`): the pair under
    `/m/.Trash/1000` — a directory the run does not visit — is outside every root, and removed. -/
theorem plain_names_needed :
    ¬ PlainNames WN ∧
    foundDirs (selectTrashDirs WN rc []) = dirsE ∧
    Outside WN rc.cwd dirsE (R ++ [b "files", b "x"]) ∧ Outside WN rc.cwd dirsE (R ++ [b "info", b "x.trashinfo"]) ∧
    (WN.get (R ++ [b "files", b "x"])).isSome = true ∧ (WN.get (R ++ [b "info", b "x.trashinfo"])).isSome = true ∧
    (run noFaults (runEmpty rc eo none) { fs := WN }).2.fs.get (R ++ [b "files", b "x"]) = none ∧
    (run noFaults (runEmpty rc eo none) { fs := WN }).2.fs.get (R ++ [b "info", b "x.trashinfo"]) = none := by
  have hr : rootsOf WN rc.cwd dirsE = [HF, HI, AF, AI] := by rw [rootsOf_eq]; decide +kernel
  refine ⟨TrashVerif.Proofs.C08CmdEx.plain_names_needed.2.2.2.1, ?_, outside_of_roots hr (by decide +kernel),
    outside_of_roots hr (by decide +kernel), ?_⟩
  · rw [selectTrashDirs_eq]; decide +kernel
  · rw [empty_twin]; decide +kernel

/-! ### a volume mounted inside a payload -/

/-- `WM`: the payload `tree/` of the home trash holds the mount point `mnt` of a third volume with the
    file `data` on it -/
def nodesM : List (CPath × Node) :=
  [([], dN), ([b "h"], dN), ([b "h", b ".local"], dN), ([b "h", b ".local", b "share"], dN),
   (TH, dN), (HF, dN), (HI, dN),
   (HF ++ [b "tree"], dN), (HF ++ [b "tree", b "mnt"], dN), (HF ++ [b "tree", b "mnt", b "data"], .file [100] 0o644 0),
   (HI ++ [b "tree.trashinfo"], .file (infoOf (b "/q/tree")) 0o600 0), ([b "m"], dN)]

def WM : FS := FS.ofList nodesM [[], [b "m"], HF ++ [b "tree", b "mnt"]]

/-- `shutil.rmtree` does not stop at mount points: what is mounted below a payload is emptied (the
    mount point itself stays: `rmdir` fails with EBUSY, reported on stderr).  No contradiction with the
    frame: the mounted volume lies below `files/` — the frame is about PATHS, not devices. -/
theorem mounted_volume_inside_payload_is_emptied :
    FS.isMount WM (HF ++ [b "tree", b "mnt"]) = true ∧
    rootsOf WM rc.cwd (foundDirs (selectTrashDirs WM rc [])) = [HF, HI] ∧
    (WM.get (HF ++ [b "tree", b "mnt", b "data"])).isSome = true ∧
    (run noFaults (runEmpty rc eo none) { fs := WM }).2.fs.get (HF ++ [b "tree", b "mnt", b "data"]) = none ∧
    (run noFaults (runEmpty rc eo none) { fs := WM }).2.fs.get (HF ++ [b "tree", b "mnt"]) = some dN ∧
    Out.stderr "cannot-remove" (b "/h/.local/share/Trash/files/tree") ∈ (run noFaults (runEmpty rc eo none) { fs := WM }).2.outs := by
  refine ⟨by decide +kernel, ?_, by decide +kernel, ?_⟩
  · rw [rootsOf_eq, selectTrashDirs_eq]; decide +kernel
  · rw [empty_twin]; decide +kernel

end TrashVerif.Proofs.C11CmdEx
