/-
  Proofs/C19.lean — proofs of the statements of Props/C19.lean
  (a malformed trash entry never prevents the well-formed ones from being handled).
-/
import TrashVerif.Props.ReadDefs
import TrashVerif.Proofs.C08
import TrashVerif.Proofs.C13
namespace TrashVerif.Proofs.C19
open TrashVerif Prog FS ReadDefs
open TrashVerif.Proofs.C17 (run_bind run_read_bind run_pure)
open TrashVerif.Proofs.C08 (run_say)

/-! ### trash-restore: the scan of one trash directory is item-wise -/

theorem filterMap_filter_ite {α β} (p : α → Bool) (g : α → Option β) (l : List α) :
    (l.filter p).filterMap g = l.filterMap fun x => if p x then g x else none := by
  induction l with
  | nil => rfl
  | cons x xs ih =>
    by_cases hx : p x = true
    · simp only [List.filter_cons, hx, if_true, List.filterMap_cons, ih]
    · simp only [List.filter_cons, hx, if_false, List.filterMap_cons, ih, Bool.false_eq_true]

theorem restore_scan_itemwise (fs : FS) (cwd : CPath) (t v : Bytes) (ns : List Bytes)
    (h : listdirStr fs cwd (pjoin t (b "info")) = some ns) :
    restoreEntriesOf fs cwd t v = ns.filterMap (restoreItem fs cwd (pjoin t (b "info")) v) := by
  unfold restoreEntriesOf
  simp only [h]
  rw [filterMap_filter_ite]
  rfl

/-! ### isolation -/

/-- As first stated (without `l.Nodup`) the property is false: `l = [a, a]`, `good = [a]`,
    `f a = some 1` satisfies both hypotheses (the dropped `a` also occurs in `good`, so `hbad`
    says nothing about it), yet `[1, 1] ≠ [1]`. -/
theorem filterMap_isolation_counterexample :
    ¬ (∀ (f : Nat → Option Nat) (l good : List Nat), List.Sublist good l →
        (∀ x ∈ l, x ∉ good → f x = none) → l.filterMap f = good.filterMap f) := by
  intro h
  have := h (fun _ => some 1) [0, 0] [0] (by decide)
    (by intro x hx hn; simp at hx; subst hx; simp at hn)
  simp at this

/-- The names of a directory are pairwise distinct: under `l.Nodup` an item dropped by the
    sublist cannot occur in `good`, so `hbad` covers exactly the dropped items. -/
theorem filterMap_isolation_partial {α β : Type} (f : α → Option β) (l good : List α) (hnd : l.Nodup)
    (hsub : List.Sublist good l) (hbad : ∀ x ∈ l, x ∉ good → f x = none) :
    l.filterMap f = good.filterMap f := by
  induction hsub with
  | slnil => rfl
  | @cons g l a hs ih =>
    -- `a` is dropped: it is not in `l` (nodup), hence not in `g`
    have hnd' := List.nodup_cons.1 hnd
    have ha : a ∉ g := fun hg => hnd'.1 (hs.subset hg)
    have hfa : f a = none := hbad a List.mem_cons_self ha
    rw [List.filterMap_cons, hfa]
    exact ih hnd'.2 fun x hx hxg => hbad x (List.mem_cons_of_mem _ hx) hxg
  | @cons_cons g l a hs ih =>
    have hnd' := List.nodup_cons.1 hnd
    rw [List.filterMap_cons, List.filterMap_cons]
    have := ih hnd'.2 fun x hx hxg => hbad x (List.mem_cons_of_mem _ hx) (by
      intro hm
      rcases List.mem_cons.1 hm with e | hm
      · exact hnd'.1 (e ▸ hx)
      · exact hxg hm)
    rw [this]

theorem filterMap_filter_isSome {α β : Type} (f : α → Option β) (l : List α) :
    (l.filter fun x => (f x).isSome).filterMap f = l.filterMap f := by
  induction l with
  | nil => rfl
  | cons x xs ih =>
    cases hx : f x with
    | none => simp [hx, ih]
    | some y => simp [hx, ih]

/-- The same without `Nodup`, the malformed items being identified by position instead of by
    value: `good` lies between the well-formed part of `l` and `l`. -/
theorem filterMap_isolation_positional {α β : Type} (f : α → Option β) (l good : List α)
    (hsub : List.Sublist good l) (hall : List.Sublist (l.filter fun x => (f x).isSome) good) :
    l.filterMap f = good.filterMap f := by
  have h1 : List.Sublist (l.filterMap f) (good.filterMap f) := by
    rw [← filterMap_filter_isSome]; exact hall.filterMap f
  have h2 : List.Sublist (good.filterMap f) (l.filterMap f) := hsub.filterMap f
  exact h1.eq_of_length_le h2.length_le

/-! ### sorting -/

theorem sort_total (m : SortMode) (es : List Entry) : (sortEntries m es).length = es.length :=
  (TrashVerif.Proofs.C13.offered_perm m es).length_eq

/-! ### trash-list -/

theorem emitAll_run (φ : Oracle) (os : List Out) (s : RunState) :
    (run φ (emitAll os) s).2.outs = os.reverse ++ s.outs ∧ (run φ (emitAll os) s).2.trace = s.trace := by
  induction os generalizing s with
  | nil => exact ⟨rfl, rfl⟩
  | cons o os ih =>
    rw [emitAll, run_bind, run_say]
    obtain ⟨h1, h2⟩ := ih { s with outs := o :: s.outs }
    refine ⟨?_, h2⟩
    rw [h1]
    simp

theorem list_one_event (φ : Oracle) (fs : FS) (cwd : CPath) (v : Bytes) (infos : List Bytes) (s : RunState) :
    (run φ (emitAll (infos.map (listOne fs cwd v))) s).2.outs = (infos.map (listOne fs cwd v)).reverse ++ s.outs ∧
    (run φ (emitAll (infos.map (listOne fs cwd v))) s).2.trace = s.trace :=
  emitAll_run φ _ s

/-! ### trash-rm -/

theorem rm_skips_malformed (φ : Oracle) (cwd : CPath) (pattern volume i : Bytes) (rest : List Bytes) (s : RunState)
    (h : (contentsOf s.fs cwd i).bind parsePath = none) :
    run φ (rmInfos cwd pattern volume (i :: rest)) s =
      run φ (rmInfos cwd pattern volume rest) { s with outs := Out.stderr "unparsable" i :: s.outs } := by
  rw [rmInfos, run_read_bind]
  cases hc : contentsOf s.fs cwd i with
  | none =>
    simp only [run_bind, run_say]
  | some text =>
    rw [hc] at h
    have hp : parsePath text = none := h
    simp only [hp, run_bind, run_say]

/-! ### trash-empty -/

theorem okToDelete_undated (fs : FS) (cwd : CPath) (o : EmptyOpts) (days : Nat) (i : Bytes)
    (hd : o.days = some days) (h : (contentsOf fs cwd i).bind parseDeletionDate = none) :
    okToDelete fs cwd o i = .keep := by
  unfold okToDelete
  simp only [hd]
  cases hc : contentsOf fs cwd i with
  | none => rfl
  | some text =>
    rw [hc] at h
    have hp : parseDeletionDate text = none := h
    simp only [hp]

theorem empty_keeps_undated (φ : Oracle) (cwd : CPath) (o : EmptyOpts) (days : Nat) (i : Bytes) (rest : List Bytes) (s : RunState)
    (hd : o.days = some days) (h : (contentsOf s.fs cwd i).bind parseDeletionDate = none) :
    run φ (emptyInfos cwd o (i :: rest)) s = run φ (emptyInfos cwd o rest) s := by
  rw [emptyInfos, run_read_bind, okToDelete_undated s.fs cwd o days i hd h]

/-! ### only trashinfo names are looked at -/

theorem infos_only_trashinfo_names (fs : FS) (cwd : CPath) (t : Bytes) (l : List Bytes) (h : infosOf fs cwd t = .ok l) :
    ∀ p ∈ l, ∃ n, p = pjoin (pjoin t (b "info")) n ∧ isTrashinfoName n = true := by
  unfold infosOf at h
  simp only at h
  cases he : entriesIfDirExists fs cwd (pjoin t (b "info")) with
  | crash => rw [he] at h; cases h
  | names ns =>
    rw [he] at h
    simp only [Except.ok.injEq] at h
    subst h
    intro p hp
    obtain ⟨n, hn, rfl⟩ := List.mem_map.1 hp
    exact ⟨n, rfl, (List.mem_filter.1 hn).2⟩

end TrashVerif.Proofs.C19
