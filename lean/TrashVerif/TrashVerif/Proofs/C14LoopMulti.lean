/-
  Proofs/C14LoopMulti.lean — the real run of `emptyDirs` over SEVERAL trash directories that lie apart
  (`DirsSetting`): each directory is handled as if it were alone (Proofs/C14LoopDir.lean), the passes
  over the other directories happen beside it.
-/
import TrashVerif.Proofs.C14LoopThm
namespace TrashVerif.Proofs.C14LoopMulti
open TrashVerif Prog FS PutCore PutLemmas C04 C11 C09Hist C10Loop C14Loop
open TrashVerif.Proofs.C09Hist (GeoI mem_infoNames nodup_infoNames domwf_touchDir domwf_removeNode)
open TrashVerif.Proofs.C10Loop TrashVerif.Proofs.C14Loop TrashVerif.Proofs.C14LoopDir

/-! ### the command issues `unlink` / `rmdir` only: `dom` never changes, `DomWf` is kept -/

abbrev KT : Call → Prop := KR (fun _ => True)

theorem kt_say (o : Out) : Iss InvT KT (say o) := by
  show Iss InvT KT (Prog.emit o (.ret ()))
  exact trivial

theorem kt_removeIfExistsR (p : Except Errno CPath) : Iss InvT KT (removeIfExistsR p) := by
  unfold removeIfExistsR
  split
  · exact Iss.mono (fun c h => KR.mono (fun _ _ => trivial) h) (iss_removeIfExists _)
  · exact Iss.pure _

theorem kt_emptyPathR (o : EmptyOpts) (path : Bytes) (p : Except Errno CPath) : Iss InvT KT (emptyPathR o path p) := by
  unfold emptyPathR
  have jp : Iss InvT KT (removeIfExistsR p >>= fun x =>
      match x with
      | .ok () => (pure () : Prog Unit)
      | .error _ => say (.stderr "cannot-remove" path)) := by
    refine Iss.bind (kt_removeIfExistsR p) fun x => ?_
    split
    · exact Iss.pure _
    · exact kt_say _
  split
  · exact kt_say _
  · dsimp only
    split
    · exact Iss.bind (kt_say _) fun _ => jp
    · exact jp

theorem kt_emptyInfos (cwd : CPath) (o : EmptyOpts) : ∀ infos : List Bytes, Iss InvT KT (emptyInfos cwd o infos) := by
  intro infos
  induction infos with
  | nil => exact Iss.pure _
  | cons i rest ih =>
    unfold emptyInfos
    refine Iss.read_bind fun fs _ => ?_
    split
    · exact Iss.pure _
    · exact ih
    · exact Iss.bind (kt_emptyPathR o _ _) fun _ => Iss.bind (kt_emptyPathR o _ _) fun _ => ih

theorem kt_emptyPaths (cwd : CPath) (o : EmptyOpts) : ∀ ps : List Bytes, Iss InvT KT (emptyPaths cwd o ps) := by
  intro ps
  induction ps with
  | nil => exact Iss.pure _
  | cons p ps ih =>
    unfold emptyPaths
    refine Iss.bind ?_ fun _ => ih
    unfold emptyPath
    exact Iss.read_bind fun fs _ => kt_emptyPathR o _ _

theorem kt_emptyDirs (cwd : CPath) (o : EmptyOpts) : ∀ dirs : List (Bytes × Bytes), Iss InvT KT (emptyDirs cwd o dirs) := by
  intro dirs
  induction dirs with
  | nil => exact Iss.pure _
  | cons tv rest ih =>
    obtain ⟨t, v⟩ := tv
    unfold emptyDirs
    refine Iss.read_bind fun fs _ => ?_
    split
    · exact Iss.pure _
    · refine Iss.bind (kt_emptyInfos cwd o _) fun x => ?_
      split
      · exact Iss.pure _
      · refine Iss.read_bind fun fs' _ => ?_
        split
        · exact Iss.pure _
        · exact Iss.bind (kt_emptyPaths cwd o _) fun _ => ih

theorem dom_emptyDirs (φ : Oracle) (cwd : CPath) (o : EmptyOpts) (dirs : List (Bytes × Bytes)) (s : RunState) :
    (run φ (emptyDirs cwd o dirs) s).2.fs.dom = s.fs.dom := by
  refine (Iss.inv φ (fun x => x.dom = s.fs.dom) ?_ _ s (kt_emptyDirs cwd o dirs) rfl).1
  intro c hc a a' hj h
  obtain ⟨r, _, rfl, _⟩ := apply_rm hc h
  rw [Proofs.C15.dom_touchDir]
  exact hj

theorem wf_emptyDirs (φ : Oracle) (cwd : CPath) (o : EmptyOpts) (dirs : List (Bytes × Bytes)) (s : RunState)
    (hw : DomWf s.fs) : DomWf (run φ (emptyDirs cwd o dirs) s).2.fs := by
  refine (Iss.inv φ DomWf ?_ _ s (kt_emptyDirs cwd o dirs) hw).1
  intro c hc a a' hj h
  obtain ⟨r, _, rfl, _⟩ := apply_rm hc h
  exact domwf_touchDir _ (domwf_removeNode _ hj)

/-! ### one directory after the other -/

theorem emptyDirs_cons (φ : Oracle) (cwd : CPath) (o : EmptyOpts) (t v : Bytes) (rest : List (Bytes × Bytes)) (s : RunState) :
    run φ (emptyDirs cwd o ((t, v) :: rest)) s =
      match (run φ (emptyDirs cwd o [(t, v)]) s).1 with
      | none => run φ (emptyDirs cwd o rest) (run φ (emptyDirs cwd o [(t, v)]) s).2
      | some c => (some c, (run φ (emptyDirs cwd o [(t, v)]) s).2) := by
  simp only [emptyDirs]
  simp only [run_read_bind]
  cases hinf : infosOf s.fs cwd t with
  | error c => rfl
  | ok infos =>
    simp only []
    rw [run_bind, run_bind]
    generalize run φ (emptyInfos cwd o infos) s = x
    obtain ⟨res, s1⟩ := x
    cases res with
    | some c => rfl
    | none =>
      simp only []
      simp only [run_read_bind]
      cases horph : orphansOf s1.fs cwd t with
      | error c => rfl
      | ok orph =>
        simp only []
        rw [run_bind, run_bind]
        rfl

/-! ### `Beside` -/

theorem beside_refl (I F : CPath) (fs : FS) : Beside I F fs fs := ⟨rfl, rfl, fun _ _ => rfl⟩

theorem beside_trans {I F : CPath} {a c d : FS} (h1 : Beside I F a c) (h2 : Beside I F c d) : Beside I F a d :=
  ⟨h2.dom.trans h1.dom, h2.mounts.trans h1.mounts, fun q hq => (h2.same q hq).trans (h1.same q hq)⟩

theorem region_under_I {I F : CPath} (rel : CPath) : Region I F (I ++ rel) := Or.inl (List.prefix_append _ _)
theorem region_under_F {I F : CPath} (rel : CPath) : Region I F (F ++ rel) := Or.inr (Or.inl (List.prefix_append _ _))

/-- a path in the region of one directory is not at or below `info/`, `files/` of a directory apart from it -/
theorem apart_region {a c : TDir} (h : TDir.Apart a c) {q : CPath} (hq : Region a.I a.F q) : ¬ c.I <+: q ∧ ¬ c.F <+: q := by
  obtain ⟨⟨h1, h1'⟩, ⟨h2, h2'⟩, ⟨h3, h3'⟩, ⟨h4, h4'⟩⟩ := h
  rcases hq with hq | hq | hq | hq
  · exact ⟨fun hc => (pfx_comparable hq hc).elim h1 h1', fun hc => (pfx_comparable hq hc).elim h2 h2'⟩
  · exact ⟨fun hc => (pfx_comparable hq hc).elim h3 h3', fun hc => (pfx_comparable hq hc).elim h4 h4'⟩
  · exact ⟨fun hc => h1' (hc.trans hq), fun hc => h2' (hc.trans hq)⟩
  · exact ⟨fun hc => h3' (hc.trans hq), fun hc => h4' (hc.trans hq)⟩

theorem apart_symm {a c : TDir} (h : TDir.Apart a c) : TDir.Apart c a := by
  obtain ⟨⟨h1, h1'⟩, ⟨h2, h2'⟩, ⟨h3, h3'⟩, ⟨h4, h4'⟩⟩ := h
  exact ⟨⟨h1', h1⟩, ⟨h3', h3⟩, ⟨h2', h2⟩, ⟨h4', h4⟩⟩

/-- listings below a path where nothing changed (and `dom` is the same) are the same -/
theorem infoNames_same {fs fs' : FS} (hdom : fs'.dom = fs.dom) (P : CPath) (h : ∀ q, P <+: q → fs'.get q = fs.get q) :
    infoNames fs' P = infoNames fs P := by
  unfold infoNames sortedChildren children
  rw [hdom]
  have : (fs.dom.filter fun q => decide (q.length = P.length + 1) && isPrefix P q && exists_ fs' q) =
      (fs.dom.filter fun q => decide (q.length = P.length + 1) && isPrefix P q && exists_ fs q) := by
    apply List.filter_congr
    intro q _
    cases hp : isPrefix P q with
    | false => simp
    | true =>
      have := h q (List.isPrefixOf_iff_prefix.1 hp)
      simp [exists_, this]
  rw [this]

section stable
variable {fs fs' : FS} {cwd : CPath} {t : Bytes} {I F : CPath}

theorem listed_beside (B : Beside I F fs fs') : listed fs' I = listed fs I := by
  unfold listed
  rw [infoNames_same B.dom I fun q hq => B.same q (Or.inl hq)]

theorem orphanNames_beside (B : Beside I F fs fs') : orphanNames fs' I F = orphanNames fs I F := by
  unfold orphanNames
  rw [infoNames_same B.dom F fun q hq => B.same q (Or.inr (Or.inl hq))]
  apply List.filter_congr
  intro m _
  rw [B.same _ (region_under_I [infoNameOf m])]

theorem okToDelete_beside (B : Beside I F fs fs') (D : DirSetting fs cwd t I F) (D' : DirSetting fs' cwd t I F) (o : EmptyOpts)
    {n : Bytes} (hn : n ∈ listed fs I) : okToDelete fs' cwd o (infoStr t n) = okToDelete fs cwd o (infoStr t n) := by
  have hn' : n ∈ listed fs' I := by rw [listed_beside B]; exact hn
  unfold okToDelete
  rw [contentsOf_info D'.all (within_refl I F fs') (listed_mem_all D' hn') (D'.all.notLink n (listed_mem_all D' hn')),
    contentsOf_info D.all (within_refl I F fs) (listed_mem_all D hn) (D.all.notLink n (listed_mem_all D hn)),
    B.same _ (region_under_I [n])]

theorem selected_beside (B : Beside I F fs fs') (D : DirSetting fs cwd t I F) (D' : DirSetting fs' cwd t I F) (o : EmptyOpts) :
    emptySelected fs' cwd o t (listed fs' I) = emptySelected fs cwd o t (listed fs I) := by
  rw [listed_beside B]
  exact emptySelected_congr fun m hm => okToDelete_beside B D D' o hm

theorem announcedDir_beside (B : Beside I F fs fs') (D : DirSetting fs cwd t I F) (D' : DirSetting fs' cwd t I F) (o : EmptyOpts) :
    announcedDir fs' cwd o t = announcedDir fs cwd o t := by
  rw [announcedDir_eq D' o, announcedDir_eq D o, selected_beside B D D' o, orphanNames_beside B]

theorem dirPaths_beside (B : Beside I F fs fs') (D : DirSetting fs cwd t I F) (D' : DirSetting fs' cwd t I F) :
    dirPaths fs' cwd t = dirPaths fs cwd t := by
  rw [dirPaths_eq D', dirPaths_eq D, listed_beside B, orphanNames_beside B]

/-- a root path of the directory is looked up at the same node, which is the same -/
theorem lstat_beside (B : Beside I F fs fs') (D : DirSetting fs cwd t I F) (D' : DirSetting fs' cwd t I F)
    {p : Bytes} (hp : p ∈ dirPaths fs cwd t) : lstat fs' cwd p = lstat fs cwd p := by
  rw [dirPaths_eq D] at hp
  rcases List.mem_append.1 hp with h | h
  · obtain ⟨n, hn, e⟩ := mem_pathsOf.1 h
    have hn' : n ∈ listed fs' I := by rw [listed_beside B]; exact hn
    obtain ⟨a1, a2⟩ := lstat_info D'.all (within_refl I F fs') (listed_mem_all D' hn')
    obtain ⟨c1, c2⟩ := lstat_info D.all (within_refl I F fs) (listed_mem_all D hn)
    rcases e with rfl | rfl
    · rw [a2, c2, B.same _ (region_under_F [stemOf n])]
    · rw [a1, c1, B.same _ (region_under_I [n])]
  · obtain ⟨m, hm, rfl⟩ := List.mem_map.1 h
    have hm' : m ∈ orphanNames fs' I F := by rw [orphanNames_beside B]; exact hm
    unfold lstat
    rw [D'.orphResolves fs' (within_refl I F fs') m hm', D.orphResolves fs (within_refl I F fs) m hm]
    exact B.same _ (region_under_F [m])

theorem announced_sub_dirPaths (D : DirSetting fs cwd t I F) (o : EmptyOpts) {p : Bytes}
    (hp : p ∈ announcedDir fs cwd o t) : p ∈ dirPaths fs cwd t := by
  rw [announcedDir_eq D o] at hp
  rw [dirPaths_eq D]
  rcases List.mem_append.1 hp with h | h
  · refine List.mem_append_left _ ?_
    obtain ⟨n, hn, e⟩ := mem_pathsOf.1 h
    exact mem_pathsOf.2 ⟨n, (List.mem_filter.1 hn).1, e⟩
  · exact List.mem_append_right _ h

end stable

/-- the conclusions about one directory, relative to the states `a` (before) and `r` (after) -/
def DirResult (a r : FS) (cwd : CPath) (o : EmptyOpts) (t : Bytes) : Prop :=
  (announcedDir a cwd o t).filter (pLexists a cwd) = removedOf a r cwd (dirPaths a cwd t) ∧
  (∀ p ∈ announcedDir a cwd o t, pLexists r cwd p = false) ∧
  (∀ p ∈ dirPaths a cwd t, p ∉ announcedDir a cwd o t → lstat r cwd p = lstat a cwd p)

/-- … carried from a state beside the directory to the initial one -/
theorem dirResult_beside {fs mid r : FS} {cwd : CPath} {t : Bytes} {I F : CPath} (B : Beside I F fs mid)
    (D : DirSetting fs cwd t I F) (D' : DirSetting mid cwd t I F) (o : EmptyOpts)
    (h : DirResult mid r cwd o t) : DirResult fs r cwd o t := by
  obtain ⟨e1, e2, e3⟩ := h
  rw [announcedDir_beside B D D' o] at e1 e2 e3
  rw [dirPaths_beside B D D'] at e1 e3
  have hl : ∀ p ∈ dirPaths fs cwd t, pLexists mid cwd p = pLexists fs cwd p := fun p hp => by
    unfold pLexists; rw [lstat_beside B D D' hp]
  refine ⟨?_, e2, fun p hp hnp => ?_⟩
  · unfold removedOf at e1 ⊢
    rw [List.filter_congr (fun p hp => (hl p (announced_sub_dirPaths D o hp)).symm), e1]
    exact List.filter_congr fun p hp => by rw [hl p hp]
  · rw [e3 p hp hnp, lstat_beside B D D' hp]

/-! ### the state "as initially in the region of the directory, as finally everywhere else" -/

def regionB (I F q : CPath) : Bool := FS.under I q || FS.under F q || FS.under q I || FS.under q F

theorem regionB_iff {I F q : CPath} : regionB I F q = true ↔ Region I F q := by
  unfold regionB Region
  simp only [Bool.or_eq_true, PutLemmas.under_iff, or_assoc]

def midFS (I F : CPath) (a r : FS) : FS :=
  { get := fun q => if regionB I F q then a.get q else r.get q, dom := a.dom, mounts := a.mounts }

theorem mid_get_in {I F : CPath} (a r : FS) {q : CPath} (h : Region I F q) : (midFS I F a r).get q = a.get q := by
  show (if regionB I F q then a.get q else r.get q) = _
  rw [if_pos (regionB_iff.2 h)]

theorem mid_get_out {I F : CPath} (a r : FS) {q : CPath} (h : ¬ Region I F q) : (midFS I F a r).get q = r.get q := by
  show (if regionB I F q then a.get q else r.get q) = _
  rw [if_neg (fun e => h (regionB_iff.1 e))]

theorem mid_beside (I F : CPath) (a r : FS) : Beside I F a (midFS I F a r) :=
  ⟨rfl, rfl, fun _ hq => mid_get_in a r hq⟩

theorem mid_wf {I F : CPath} {a r : FS} (hwa : DomWf a) (hwr : DomWf r) (hdom : r.dom = a.dom) : DomWf (midFS I F a r) := by
  intro q hq
  show q ∈ a.dom
  by_cases h : Region I F q
  · rw [mid_get_in a r h] at hq; exact hwa q hq
  · rw [mid_get_out a r h] at hq; rw [← hdom]; exact hwr q hq

/-- the pass over the directory took `a` to `c` (removing the entries `D`); afterwards nothing changed in the
    region of the directory up to `r`: then `r` is `midFS` with exactly `D` removed -/
theorem purged_mid {I F : CPath} {a c r : FS} {D : List Bytes} (P : PurgedExactly a c I F D)
    (hr : ∀ q, Region I F q → r.get q = c.get q) (hm : r.mounts = c.mounts) (hd : r.dom = a.dom) :
    PurgedExactly (midFS I F a r) r I F D := by
  refine ⟨fun n hn rel => ?_, fun n hn rel => ?_, fun q hI hF hall => ?_, ⟨?_, ?_⟩, hm.trans P.mounts, fun h => ?_⟩
  · rw [hr _ (by rw [List.append_assoc]; exact region_under_I _)]; exact P.infoGone n hn rel
  · rw [hr _ (by rw [List.append_assoc]; exact region_under_F _)]; exact P.payloadGone n hn rel
  · by_cases h : Region I F q
    · rw [mid_get_in a r h, hr q h]; exact P.frame q hI hF hall
    · rw [mid_get_out a r h]
  · intro m t hg
    rw [mid_get_in a r (region_under_I (F := F) [] |> fun h => by simpa using h)] at hg
    obtain ⟨t', h'⟩ := P.dirs.1 m t hg
    exact ⟨t', by rw [hr I (Or.inl List.prefix_rfl)]; exact h'⟩
  · intro m t hg
    rw [mid_get_in a r (region_under_F (I := I) [] |> fun h => by simpa using h)] at hg
    obtain ⟨t', h'⟩ := P.dirs.2 m t hg
    exact ⟨t', by rw [hr F (Or.inr (Or.inl List.prefix_rfl))]; exact h'⟩
  · have hca := P.nothing h
    obtain ⟨rg, rd, rm⟩ := r
    unfold midFS
    simp only at hr hm hd ⊢
    congr 1
    · funext q
      by_cases hq : regionB I F q = true
      · rw [if_pos hq, hr q (regionB_iff.1 hq), hca]
      · rw [if_neg hq]
    · rw [hm, hca]

/-! ### the run over several directories -/

def FrameAll (ds : List TDir) (a r : FS) : Prop :=
  r.dom = a.dom ∧ r.mounts = a.mounts ∧ DomWf r ∧ ∀ q, (∀ d ∈ ds, ¬ d.I <+: q ∧ ¬ d.F <+: q) → r.get q = a.get q

theorem frame_of_not_under {I F : CPath} {a c : FS} {D : List Bytes} (P : PurgedExactly a c I F D) {q : CPath}
    (h : ¬ I <+: q ∧ ¬ F <+: q) : c.get q = a.get q := by
  refine P.frame q (fun e => h.1 (e ▸ List.prefix_rfl)) (fun e => h.2 (e ▸ List.prefix_rfl)) fun n _ => ⟨fun hu => ?_, fun hu => ?_⟩
  · exact h.1 ((List.prefix_append I [n]).trans ((PutLemmas.under_iff _ _).1 hu))
  · exact h.2 ((List.prefix_append F [stemOf n]).trans ((PutLemmas.under_iff _ _).1 hu))

theorem real_dirs (o : EmptyOpts) (hdry : o.dryRun = false) (cwd : CPath)
    (hnc : ∀ (fs' : FS) (i : Bytes) (c : Crash), okToDelete fs' cwd o i ≠ .crash c) :
    ∀ (ds : List TDir) (s : RunState), DirsSetting s.fs cwd ds →
      (run noFaults (emptyDirs cwd o (TDir.pairs ds)) s).1 = none ∧
      FrameAll ds s.fs (run noFaults (emptyDirs cwd o (TDir.pairs ds)) s).2.fs ∧
      ∀ d ∈ ds, ∃ (mid : FS) (L1 : List Bytes), Beside d.I d.F s.fs mid ∧ DomWf mid ∧
        L1.Perm (orphanNames s.fs d.I d.F) ∧
        PurgedExactly mid (run noFaults (emptyDirs cwd o (TDir.pairs ds)) s).2.fs d.I d.F
          (emptySelected s.fs cwd o d.t (listed s.fs d.I) ++ L1.map infoNameOf) := by
  intro ds
  induction ds with
  | nil => intro s M; exact ⟨rfl, ⟨rfl, rfl, M.wf, fun _ _ => rfl⟩, fun _ h => nomatch h⟩
  | cons d rest ih =>
    intro s M
    have hdmem : d ∈ d :: rest := List.mem_cons_self
    have D0 := M.robust d hdmem s.fs (beside_refl _ _ _) M.wf
    obtain ⟨a, L1, hperm, P, _⟩ := real_dir o hdry cwd d.t d.v d.I d.F s D0 (fun n _ c => hnc _ _ c)
    have hdom1 := dom_emptyDirs noFaults cwd o [(d.t, d.v)] s
    have hw1 := wf_emptyDirs noFaults cwd o [(d.t, d.v)] s M.wf
    show (run noFaults (emptyDirs cwd o ((d.t, d.v) :: TDir.pairs rest)) s).1 = none ∧
      FrameAll (d :: rest) s.fs (run noFaults (emptyDirs cwd o ((d.t, d.v) :: TDir.pairs rest)) s).2.fs ∧
      ∀ d' ∈ d :: rest, ∃ (mid : FS) (L1 : List Bytes), Beside d'.I d'.F s.fs mid ∧ DomWf mid ∧
        L1.Perm (orphanNames s.fs d'.I d'.F) ∧
        PurgedExactly mid (run noFaults (emptyDirs cwd o ((d.t, d.v) :: TDir.pairs rest)) s).2.fs d'.I d'.F
          (emptySelected s.fs cwd o d'.t (listed s.fs d'.I) ++ L1.map infoNameOf)
    rw [emptyDirs_cons, a]
    simp only []
    generalize (run noFaults (emptyDirs cwd o [(d.t, d.v)]) s).2 = s1 at P hdom1 hw1
    have hap := List.pairwise_cons.1 M.apart
    have B1 : ∀ d' ∈ rest, Beside d'.I d'.F s.fs s1.fs := fun d' hd' =>
      ⟨hdom1, P.mounts, fun q hq => frame_of_not_under P (apart_region (apart_symm (hap.1 d' hd')) hq)⟩
    have M1 : DirsSetting s1.fs cwd rest :=
      ⟨hw1, fun d' hd' fs' B' w' => M.robust d' (List.mem_cons_of_mem _ hd') fs' (beside_trans (B1 d' hd') B') w', hap.2⟩
    obtain ⟨a', ⟨fd, fm, fw, ff⟩, hall⟩ := ih s1 M1
    refine ⟨a', ⟨fd.trans hdom1, fm.trans P.mounts, fw, fun q hq => ?_⟩, fun d' hd' => ?_⟩
    · rw [ff q fun d' hd' => hq d' (List.mem_cons_of_mem _ hd')]
      exact frame_of_not_under P (hq d hdmem)
    · rcases List.mem_cons.1 hd' with rfl | hd'
      · refine ⟨midFS d'.I d'.F s.fs (run noFaults (emptyDirs cwd o (TDir.pairs rest)) s1).2.fs, L1, mid_beside _ _ _ _,
          mid_wf M.wf fw (fd.trans hdom1), hperm, purged_mid P (fun q hq => ?_) fm (fd.trans hdom1)⟩
        exact ff q fun d'' hd'' => apart_region (hap.1 d'' hd'') hq
      · obtain ⟨mid', L1', B', w', perm', P'⟩ := hall d' hd'
        have Ds := M.robust d' (List.mem_cons_of_mem _ hd') s.fs (beside_refl _ _ _) M.wf
        have Ds1 := M1.robust d' hd' s1.fs (beside_refl _ _ _) hw1
        rw [orphanNames_beside (B1 d' hd')] at perm'
        rw [selected_beside (B1 d' hd') Ds Ds1 o] at P'
        exact ⟨mid', L1', beside_trans (B1 d' hd') B', w', perm', P'⟩

/-- the conclusions, directory by directory, relative to the initial state -/
theorem real_dirs_results (fs : FS) (cwd : CPath) (ds : List TDir) (o : EmptyOpts) (s : RunState) (hs : s.fs = fs)
    (M : DirsSetting fs cwd ds) (hdry : o.dryRun = false)
    (hnc : ∀ (fs' : FS) (i : Bytes) (c : Crash), okToDelete fs' cwd o i ≠ .crash c) :
    (run noFaults (emptyDirs cwd o (TDir.pairs ds)) s).1 = none ∧
    (∀ d ∈ ds, DirResult fs (run noFaults (emptyDirs cwd o (TDir.pairs ds)) s).2.fs cwd o d.t) ∧
    (∀ q, (∀ d ∈ ds, ¬ d.I <+: q ∧ ¬ d.F <+: q) → (run noFaults (emptyDirs cwd o (TDir.pairs ds)) s).2.fs.get q = fs.get q) := by
  subst hs
  obtain ⟨a, ⟨_, _, _, ff⟩, hall⟩ := real_dirs o hdry cwd hnc ds s M
  refine ⟨a, fun d hd => ?_, ff⟩
  obtain ⟨mid, L1, B, w, perm, P⟩ := hall d hd
  have D := M.robust d hd s.fs (beside_refl _ _ _) M.wf
  have Dm := M.robust d hd mid B w
  rw [← orphanNames_beside B] at perm
  rw [← selected_beside B D Dm o] at P
  exact dirResult_beside B D Dm o (announced_existing_eq_removed Dm o perm P)

/-- … and for the whole list of paths the dry run announces -/
theorem results_all (fs r : FS) (cwd : CPath) (o : EmptyOpts) : ∀ ds : List TDir,
    (∀ d ∈ ds, DirResult fs r cwd o d.t) →
    (announced fs cwd o (TDir.pairs ds)).filter (pLexists fs cwd) =
      removedOf fs r cwd ((TDir.pairs ds).flatMap fun tv => dirPaths fs cwd tv.1) ∧
    (∀ p ∈ announced fs cwd o (TDir.pairs ds), pLexists r cwd p = false) := by
  intro ds
  induction ds with
  | nil => intro _; exact ⟨rfl, fun _ h => nomatch h⟩
  | cons d rest ih =>
    intro h
    obtain ⟨e1, e2⟩ := ih fun d' hd' => h d' (List.mem_cons_of_mem _ hd')
    obtain ⟨k1, k2, _⟩ := h d List.mem_cons_self
    show (announced fs cwd o ((d.t, d.v) :: TDir.pairs rest)).filter (pLexists fs cwd) =
        removedOf fs r cwd (((d.t, d.v) :: TDir.pairs rest).flatMap fun tv => dirPaths fs cwd tv.1) ∧
      ∀ p ∈ announced fs cwd o ((d.t, d.v) :: TDir.pairs rest), pLexists r cwd p = false
    rw [announced_cons, List.flatMap_cons]
    refine ⟨?_, fun p hp => ?_⟩
    · unfold removedOf at e1 k1 ⊢
      rw [List.filter_append, List.filter_append, e1, k1]
    · rcases List.mem_append.1 hp with hp | hp
      · exact k2 p hp
      · exact e2 p hp

/-! ### the whole command, with and without `--dry-run` -/

theorem mem_pairs {ds : List TDir} {tv : Bytes × Bytes} (h : tv ∈ TDir.pairs ds) : ∃ d ∈ ds, tv = (d.t, d.v) := by
  obtain ⟨d, hd, e⟩ := List.mem_map.1 h
  exact ⟨d, hd, e.symm⟩

theorem dry_run_command_multi (φ : Oracle) (c : ReadCfg) (o : EmptyOpts) (reply : Option Bytes) (fs : FS) (ds : List TDir)
    (hgo : o.interactive = false ∨ ∃ r, reply = some r ∧ emptyReplyYes r = true)
    (hfound : foundDirs (selectTrashDirs fs c o.userDirs) = TDir.pairs ds)
    (M : DirsSetting fs c.cwd ds)
    (hnc : ∀ (fs' : FS) (i : Bytes) (cr : Crash), okToDelete fs' c.cwd o i ≠ .crash cr) :
    (run φ (runEmpty c { o with dryRun := true } reply) { fs := fs }).1 = { exit := 0 } ∧
    (run φ (runEmpty c { o with dryRun := true } reply) { fs := fs }).2.trace = [] ∧
    (run φ (runEmpty c { o with dryRun := true } reply) { fs := fs }).2.fs = fs ∧
    (run φ (runEmpty c { o with dryRun := true } reply) { fs := fs }).2.outs.reverse =
      (announced fs c.cwd o (TDir.pairs ds)).map dryLine ∧
    (run noFaults (runEmpty c { o with dryRun := false } reply) { fs := fs }).1 = { exit := 0 } ∧
    (∀ p ∈ announced fs c.cwd o (TDir.pairs ds),
      pLexists (run noFaults (runEmpty c { o with dryRun := false } reply) { fs := fs }).2.fs c.cwd p = false) ∧
    (announced fs c.cwd o (TDir.pairs ds)).filter (pLexists fs c.cwd) =
      removedOf fs (run noFaults (runEmpty c { o with dryRun := false } reply) { fs := fs }).2.fs c.cwd
        ((TDir.pairs ds).flatMap fun tv => dirPaths fs c.cwd tv.1) ∧
    (∀ d ∈ ds, ∀ p ∈ dirPaths fs c.cwd d.t, p ∉ announcedDir fs c.cwd o d.t →
      lstat (run noFaults (runEmpty c { o with dryRun := false } reply) { fs := fs }).2.fs c.cwd p = lstat fs c.cwd p) ∧
    (∀ q, (∀ d ∈ ds, ¬ d.I <+: q ∧ ¬ d.F <+: q) →
      (run noFaults (runEmpty c { o with dryRun := false } reply) { fs := fs }).2.fs.get q = fs.get q) := by
  have hncd : ∀ tv ∈ foundDirs (selectTrashDirs fs c o.userDirs), NoCrashDir fs c.cwd { o with dryRun := true } tv.1 := by
    intro tv htv
    rw [hfound] at htv
    obtain ⟨d, hd, rfl⟩ := mem_pairs htv
    exact Proofs.C14LoopThm.noCrashDir_of fs c.cwd d.t d.I d.F _ (M.robust d hd fs (beside_refl _ _ _) M.wf)
      fun n _ cr => hnc fs _ cr
  have hd := Proofs.C14LoopThm.dry_run_command φ c { o with dryRun := true } reply { fs := fs } rfl hgo hncd
  have hr := run_go noFaults c { o with dryRun := false } reply { fs := fs } hgo
  obtain ⟨a, res, ff⟩ := real_dirs_results fs c.cwd ds { o with dryRun := false } { fs := fs } rfl M rfl hnc
  obtain ⟨e1, e2⟩ := results_all fs _ c.cwd { o with dryRun := false } ds res
  have hfound' : foundDirs (selectTrashDirs fs c ({ o with dryRun := false } : EmptyOpts).userDirs) = TDir.pairs ds := hfound
  simp only [] at hr
  rw [hfound', a] at hr
  simp only [] at hr
  rw [hr, hd]
  refine ⟨rfl, rfl, rfl, ?_, rfl, e2, e1, fun d hd' p hp hnp => (res d hd').2.2 p hp hnp, ff⟩
  simp only [List.append_nil, List.reverse_reverse]
  rw [hfound]
  rfl

end TrashVerif.Proofs.C14LoopMulti
