/-
  Proofs/C07CmdEx.lean — concrete worlds for the non-vacuity examples of Props/C07Cmd.lean.
-/
import TrashVerif.Proofs.C07Cmd
namespace TrashVerif.Proofs.C07CmdEx
open TrashVerif Prog FS PutCore C07Cmd C16Indep
open TrashVerif.Proofs.C16Eval

/-- nothing is at or below `A` in a world given as a list none of whose paths has the prefix `A` -/
theorem ofList_fresh (nodes : List (CPath × Node)) (mounts : List CPath) (A : CPath)
    (h : nodes.all (fun pn => !(A.isPrefixOf pn.1)) = true) : ∀ rel, (FS.ofList nodes mounts).get (A ++ rel) = none := by
  intro rel
  show (nodes.find? fun (p, _) => p = A ++ rel).map (·.2) = none
  rw [Option.map_eq_none_iff, List.find?_eq_none]
  intro pn hpn
  have := List.all_eq_true.1 h pn hpn
  intro e
  have e' : pn.1 = A ++ rel := by simpa using e
  rw [e'] at this
  have hp : A.isPrefixOf (A ++ rel) = true := List.isPrefixOf_iff_prefix.2 (List.prefix_append _ _)
  rw [hp] at this
  cases this

theorem plain_of_takes {fs : FS} {Q : CPath} (h : ∀ k, k < Q.length + 1 → fs.isDirAt (Q.take k) = true) :
    TrashVerif.C07.Plain fs Q := by
  intro q hq
  rw [List.prefix_iff_eq_take.1 hq]
  exact h _ (Nat.lt_succ_of_le hq.length_le)

def dN : Node := .dir 0o755 0
def st0 : PutSt := ⟨[], []⟩
/-- HOME = /h -/
def H : CPath := [b "h"]
def cfgH : PutCfg := { cwd := [], env := { home := some (toStr H) }, uid := 0, dateStr := b "D" }

theorem homeCfg : HomeCfg cfgH H :=
  { noTrashDir := rfl, noForcedVolume := rfl, noPrompt := by decide, xdgUnset := rfl, home := rfl,
    homeNotRoot := by decide }

/-! ### first use of the home trash -/

def nodes1 : List (CPath × Node) :=
  [([], dN), (H, dN), (H ++ [b ".local"], dN), (H ++ [b ".local", b "share"], dN),
   ([b "p"], dN), ([b "p", b "x"], .file [120] 0o644 7)]
/-- `/h/.local/share` exists, `Trash` does not; `/p/x` is a regular file; one volume -/
def fs1 : FS := FS.ofList nodes1 [[]]

def nodes2 : List (CPath × Node) := [([], dN), (H, dN), ([b "p"], dN), ([b "p", b "x"], .file [120] 0o644 7)]
/-- only `/h` exists -/
def fs2 : FS := FS.ofList nodes2 [[]]

theorem site1 : FreshSite fs1 (H ++ [b ".local", b "share"]) (b "Trash") [] :=
  { names := by unfold TrashVerif.C07.GoodNames; decide +kernel
    basePlain := plain_of_takes (by decide +kernel)
    fresh := fun rel => by
      have := ofList_fresh nodes1 [[]] ((H ++ [b ".local", b "share"]) ++ [b "Trash"]) (by decide +kernel) rel
      show (FS.ofList nodes1 [[]]).get _ = none
      simpa using this }

theorem site2 : FreshSite fs2 H (b ".local") [b "share", b "Trash"] :=
  { names := by unfold TrashVerif.C07.GoodNames; decide +kernel
    basePlain := plain_of_takes (by decide +kernel)
    fresh := fun rel => by
      have := ofList_fresh nodes2 [[]] (H ++ [b ".local"]) (by decide +kernel) rel
      show (FS.ofList nodes2 [[]]).get _ = none
      simpa using this }

theorem arg1 : Arg fs1 [b "p"] (b "x") :=
  { names := by unfold TrashVerif.C07.GoodNames; decide +kernel, shortName := by decide +kernel
    parentPlain := plain_of_takes (by decide +kernel), present := by decide +kernel, notMount := by decide +kernel }

theorem arg2 : Arg fs2 [b "p"] (b "x") :=
  { names := by unfold TrashVerif.C07.GoodNames; decide +kernel, shortName := by decide +kernel
    parentPlain := plain_of_takes (by decide +kernel), present := by decide +kernel, notMount := by decide +kernel }

theorem mounts1 : MountsOk fs1 := ⟨by decide +kernel, by decide +kernel⟩
theorem mounts2 : MountsOk fs2 := ⟨by decide +kernel, by decide +kernel⟩

/-- the model itself, evaluated by the kernel on the second world -/
theorem eval2 :
    (run noFaults (runPut cfgH [b "/p/x"] st0) { fs := fs2 }).1.outcomes =
      [(b "/p/x", .trashed (b "/h/.local/share/Trash") (b "x.trashinfo"))] ∧
    (let fs' := (run noFaults (runPut cfgH [b "/p/x"] st0) { fs := fs2 }).2.fs
     fs'.get [b "h", b ".local"] = some (.dir 0o755 0) ∧ fs'.get [b "h", b ".local", b "share"] = some (.dir 0o755 0) ∧
     fs'.get [b "h", b ".local", b "share", b "Trash"] = some (.dir 0o700 0) ∧
     fs'.get [b "h", b ".local", b "share", b "Trash", b "files"] = some (.dir 0o700 0) ∧
     fs'.get [b "h", b ".local", b "share", b "Trash", b "info"] = some (.dir 0o700 0) ∧
     fs'.get [b "h", b ".local", b "share", b "Trash", b "files", b "x"] = some (.file [120] 0o644 7) ∧
     fs'.get [b "p", b "x"] = none) := by
  rw [runPut_eq]; decide +kernel

/-! ### a second volume `/v` -/

def V : CPath := [b "v"]
def fileX : Node := .file [120] 0o644 7

def nodesO : List (CPath × Node) :=
  [([], dN), (H, dN), (V, dN), (V ++ [b "d"], dN), (V ++ [b "d", b "x"], fileX)]
/-- `/h` (home, no trash yet) on the root volume; the mount point `/v` with the file `/v/d/x`;
    neither `/v/.Trash` nor `/v/.Trash-0` -/
def fsO : FS := FS.ofList nodesO [[], V]

def nodesT (m : Nat) : List (CPath × Node) := nodesO ++ [(V ++ [b ".Trash"], .dir m 0)]
/-- as `fsO`, with a sticky directory `/v/.Trash` (mode 1777) -/
def fsT : FS := FS.ofList (nodesT 0o1777) [[], V]
/-- as `fsO`, with a directory `/v/.Trash` WITHOUT the sticky bit (mode 0777) -/
def fsI : FS := FS.ofList (nodesT 0o777) [[], V]

theorem otherVolume (nodes : List (CPath × Node)) (hn : nodes.all (fun pn => !((H ++ [b ".local"]).isPrefixOf pn.1)) = true)
    (hpH : TrashVerif.C07.Plain (FS.ofList nodes [[], V]) H) (hpV : TrashVerif.C07.Plain (FS.ofList nodes [[], V]) V) :
    OtherVolume (FS.ofList nodes [[], V]) H H [b ".local", b "share", b "Trash"] V :=
  { homeSplit := rfl
    homeSite :=
      { names := by unfold TrashVerif.C07.GoodNames; decide +kernel
        basePlain := hpH
        missing := fun x R' e rel => by
          cases e
          have := ofList_fresh nodes [[], V] (H ++ [b ".local"]) hn rel
          simpa using this }
    homeElsewhere := by
      show dev (FS.ofList [] [[], V]) H ≠ V
      decide +kernel
    volPlain := hpV
    volNames := by unfold TrashVerif.C07.GoodNames; decide +kernel
    volMount := by
      show isMount (FS.ofList [] [[], V]) V = true
      decide +kernel }

theorem otherO : OtherVolume fsO H H [b ".local", b "share", b "Trash"] V :=
  otherVolume nodesO (by decide +kernel) (plain_of_takes (by decide +kernel)) (plain_of_takes (by decide +kernel))
theorem otherT : OtherVolume fsT H H [b ".local", b "share", b "Trash"] V :=
  otherVolume (nodesT 0o1777) (by decide +kernel) (plain_of_takes (by decide +kernel)) (plain_of_takes (by decide +kernel))
theorem otherI : OtherVolume fsI H H [b ".local", b "share", b "Trash"] V :=
  otherVolume (nodesT 0o777) (by decide +kernel) (plain_of_takes (by decide +kernel)) (plain_of_takes (by decide +kernel))

theorem argO : Arg fsO (V ++ [b "d"]) (b "x") :=
  { names := by unfold TrashVerif.C07.GoodNames; decide +kernel, shortName := by decide +kernel
    parentPlain := plain_of_takes (by decide +kernel), present := by decide +kernel, notMount := by decide +kernel }
theorem argT : Arg fsT (V ++ [b "d"]) (b "x") :=
  { names := by unfold TrashVerif.C07.GoodNames; decide +kernel, shortName := by decide +kernel
    parentPlain := plain_of_takes (by decide +kernel), present := by decide +kernel, notMount := by decide +kernel }
theorem argI : Arg fsI (V ++ [b "d"]) (b "x") :=
  { names := by unfold TrashVerif.C07.GoodNames; decide +kernel, shortName := by decide +kernel
    parentPlain := plain_of_takes (by decide +kernel), present := by decide +kernel, notMount := by decide +kernel }

theorem mountsO : MountsOk fsO := ⟨by decide +kernel, by decide +kernel⟩
theorem mountsT : MountsOk fsT := ⟨by decide +kernel, by decide +kernel⟩
theorem mountsI : MountsOk fsI := ⟨by decide +kernel, by decide +kernel⟩

theorem uidGood : TrashVerif.C07.GoodNames [uidName cfgH.uid] := by unfold TrashVerif.C07.GoodNames; decide +kernel

/-- `/v/.Trash-0` is yet to be made -/
theorem altSite (nodes : List (CPath × Node)) (hn : nodes.all (fun pn => !((V ++ [altName cfgH.uid]).isPrefixOf pn.1)) = true)
    (hpV : TrashVerif.C07.Plain (FS.ofList nodes [[], V]) V) : FreshSite (FS.ofList nodes [[], V]) V (altName cfgH.uid) [] :=
  { names := by unfold TrashVerif.C07.GoodNames; decide +kernel
    basePlain := hpV
    fresh := fun rel => by
      have := ofList_fresh nodes [[], V] (V ++ [altName cfgH.uid]) hn rel
      simpa using this }

theorem altO : FreshSite fsO V (altName cfgH.uid) [] := altSite nodesO (by decide +kernel) (plain_of_takes (by decide +kernel))
theorem altI : FreshSite fsI V (altName cfgH.uid) [] :=
  altSite (nodesT 0o777) (by decide +kernel) (plain_of_takes (by decide +kernel))

/-- `/v/.Trash/0` is yet to be made -/
theorem topSite : FreshSite fsT (V ++ [b ".Trash"]) (uidName cfgH.uid) [] :=
  { names := by unfold TrashVerif.C07.GoodNames; decide +kernel
    basePlain := plain_of_takes (by decide +kernel)
    fresh := fun rel => by
      have := ofList_fresh (nodesT 0o1777) [[], V] ((V ++ [b ".Trash"]) ++ [uidName cfgH.uid]) (by decide +kernel) rel
      show (FS.ofList (nodesT 0o1777) [[], V]).get _ = none
      simpa using this }

theorem insecureI : InsecureTop fsI V :=
  ⟨.dir 0o777 0, by decide +kernel, fun m t e => by cases e; decide⟩

/-- the model itself, evaluated by the kernel: where `/v/d/x` goes in the three worlds -/
theorem evalVolumes :
    (run noFaults (runPut cfgH [b "/v/d/x"] st0) { fs := fsO }).1.outcomes =
      [(b "/v/d/x", .trashed (b "/v/.Trash-0") (b "x.trashinfo"))] ∧
    (run noFaults (runPut cfgH [b "/v/d/x"] st0) { fs := fsT }).1.outcomes =
      [(b "/v/d/x", .trashed (b "/v/.Trash/0") (b "x.trashinfo"))] ∧
    (run noFaults (runPut cfgH [b "/v/d/x"] st0) { fs := fsI }).1.outcomes =
      [(b "/v/d/x", .trashed (b "/v/.Trash-0") (b "x.trashinfo"))] ∧
    (run noFaults (runPut cfgH [b "/v/d/x"] st0) { fs := fsO }).2.fs.get (V ++ [altName 0, b "info", b "x.trashinfo"]) =
      some (.file (formatTrashinfoWith (b "d/x") (b "D")) 0o600 0) := by
  simp only [runPut_eq]; decide +kernel

/-! ### `--trash-dir` -/

/-- `trash-put --trash-dir /v/t` -/
def cfgSame : PutCfg := { cfgH with trashDir := some (toStr (V ++ [b "t"])) }
/-- `trash-put --trash-dir /h/t` -/
def cfgOther : PutCfg := { cfgH with trashDir := some (toStr (H ++ [b "t"])) }

theorem customSame : CustomCfg cfgSame (V ++ b "t" :: []) := ⟨rfl, rfl, by decide⟩
theorem customOther : CustomCfg cfgOther (H ++ [b "t"]) := ⟨rfl, rfl, by decide⟩

theorem siteSame : FreshSite fsO V (b "t") [] :=
  { names := by unfold TrashVerif.C07.GoodNames; decide +kernel
    basePlain := plain_of_takes (by decide +kernel)
    fresh := fun rel => by
      have := ofList_fresh nodesO [[], V] (V ++ [b "t"]) (by decide +kernel) rel
      show (FS.ofList nodesO [[], V]).get _ = none
      simpa using this }

theorem siteOther : Site fsO H [b "t"] :=
  { names := by unfold TrashVerif.C07.GoodNames; decide +kernel
    basePlain := plain_of_takes (by decide +kernel)
    missing := fun x R' e rel => by
      cases e
      have := ofList_fresh nodesO [[], V] (H ++ [b "t"]) (by decide +kernel) rel
      show (FS.ofList nodesO [[], V]).get _ = none
      simpa using this }

theorem evalCustom :
    (run noFaults (runPut cfgSame [b "/v/d/x"] st0) { fs := fsO }).1.outcomes =
      [(b "/v/d/x", .trashed (b "/v/t") (b "x.trashinfo"))] ∧
    (run noFaults (runPut cfgOther [b "/v/d/x"] st0) { fs := fsO }).1.outcomes =
      [(b "/v/d/x", .failedAll [.differentVolumes])] ∧
    (run noFaults (runPut cfgOther [b "/v/d/x"] st0) { fs := fsO }).1.exit = 74 := by
  simp only [runPut_eq]; decide +kernel

/-! ### what the hypotheses are for: two kernel-checked counterexamples -/

/-- kind of a call and the errno it was answered with (`none`: success) -/
def brief (cr : Call × Res) : String × Option Errno :=
  (cr.1.kind, match cr.2 with | .ok _ => none | .error e => some e)

/-- as `fs2`, but the mount table names the ABSENT path `/h/.local/share/Trash/files` -/
def fsM : FS := FS.ofList nodes2 [[], filesC H]

/-- Without `MountsOk.mountsExist` the first use is NOT a rename: `volume_of` ignores a mount-table entry
    whose path is absent (the gate lets the home trash through), but once `files/` has been made the
    entry counts, `rename` answers EXDEV and `shutil.move` copies (`createTrunc`, `write`, `utime`,
    `chmod`, `unlink`).  A modelling artefact (no real mount table names an absent path), the same
    as C16Indep `independence_full_counterexample_absent_mount_entry`. -/
theorem absent_mount_entry_copies :
    (run noFaults (runPut cfgH [b "/p/x"] st0) { fs := fsM }).1.outcomes =
      [(b "/p/x", .trashed (b "/h/.local/share/Trash") (b "x.trashinfo"))] ∧
    (run noFaults (runPut cfgH [b "/p/x"] st0) { fs := fsM }).2.trace.map brief =
      [("unlink", none), ("chmod", none), ("utime", none), ("write", none), ("createTrunc", none),
       ("rename", some .EXDEV), ("close", none), ("write", none), ("createExcl", none),
       ("mkdir", none), ("mkdir", none), ("mkdir", none), ("mkdir", none), ("mkdir", none)] := by
  simp only [runPut_eq]; decide +kernel

/-- a name of 250 bytes: `name.trashinfo` would be 260 bytes long -/
def longN : Name := List.replicate 250 120
def nodesL : List (CPath × Node) := [([], dN), (H, dN), ([b "p"], dN), ([b "p", longN], .file [120] 0o644 7)]
def fsL : FS := FS.ofList nodesL [[]]

/-- Without `Arg.shortName` the entry is NOT recorded as `n.trashinfo`: the exclusive create of the
    260-byte name fails (ENAMETOOLONG), the next attempt (index 1, suffix `_1`) shortens the name to
    238 bytes + `_1.trashinfo` and the entry is trashed as `files/<the first 238 bytes>_1`
    (real behaviour of trash-cli). -/
theorem long_name_is_shortened :
    (run noFaults (runPut cfgH [toStr [b "p", longN]] st0) { fs := fsL }).1.outcomes =
      [(toStr [b "p", longN], .trashed (b "/h/.local/share/Trash") (List.replicate 238 120 ++ b "_1" ++ trashinfoExt))] ∧
    (run noFaults (runPut cfgH [toStr [b "p", longN]] st0) { fs := fsL }).2.trace.map brief =
      [("rename", none), ("close", none), ("write", none), ("createExcl", none),
       ("createExcl", some .ENAMETOOLONG),
       ("mkdir", none), ("mkdir", none), ("mkdir", none), ("mkdir", none), ("mkdir", none)] := by
  simp only [runPut_eq]; decide +kernel

end TrashVerif.Proofs.C07CmdEx
