/-
  Proofs/C10Loop.lean — proofs of the loop-level selection theorems of Props/C10Loop.lean
  (trash-empty `emptyInfos`, trash-rm `rmInfos` over one trash directory).
-/
import TrashVerif.Props.C10LoopDefs
import TrashVerif.Proofs.C09Hist
import TrashVerif.Proofs.C15
import TrashVerif.Proofs.C06
import TrashVerif.Proofs.C14
import TrashVerif.Proofs.C10
import TrashVerif.Proofs.C12
import TrashVerif.Proofs.C16IndepHome
namespace TrashVerif.Proofs.C10Loop
open TrashVerif Prog FS PutCore PutLemmas C04 C11 C09Hist C10Loop
open TrashVerif.Proofs.C09Hist (GeoI isDirAt_of_get domwf_touchDir domwf_removeNode info_ne_dir not_concat_pfx)
open TrashVerif.Proofs.C15 (G Wf Closed NoMnt G_keep nothing_below rmInner_ok removeIfExists_ok
  removeIfExists_okGone hasChildren_of_gone le_foldl_max isDirAt_isSome)

/-! ### geometry of the entries of one trash directory -/

theorem su_iff {a p : CPath} : FS.strictlyUnder a p = true ↔ SU a p := by
  unfold FS.strictlyUnder SU
  simp only [Bool.and_eq_true, decide_eq_true_eq, List.isPrefixOf_iff_prefix]

theorem stemOf_append (s : Bytes) : stemOf (s ++ trashinfoExt) = s := by
  unfold stemOf
  have : (s ++ trashinfoExt).length - trashinfoExt.length = s.length := by simp
  rw [this, List.take_left]

theorem name_eq_stem {n : Bytes} (h : isTrashinfoName n = true) : n = stemOf n ++ trashinfoExt := by
  obtain ⟨s, rfl, _⟩ := trashinfo_name_stem n h
  rw [stemOf_append]

theorem stem_inj {n d : Bytes} (hn : isTrashinfoName n = true) (hd : isTrashinfoName d = true)
    (h : stemOf n = stemOf d) : n = d := by
  rw [name_eq_stem hn, name_eq_stem hd, h]

/-- `q` is at or below the info file or the payload of the entry `n` -/
def EP (I F : CPath) (n : Bytes) (q : CPath) : Prop := (I ++ [n]) <+: q ∨ (F ++ [stemOf n]) <+: q

theorem concat_pfx_su {I q : CPath} {x : Name} (h : (I ++ [x]) <+: q) : SU I q :=
  ⟨(List.prefix_append I [x]).trans h, by have := h.length_le; simp at this; omega⟩

theorem EP.su {I F : CPath} {n : Bytes} {q : CPath} (h : EP I F n q) : SU I q ∨ SU F q := by
  rcases h with h | h
  · exact Or.inl (concat_pfx_su h)
  · exact Or.inr (concat_pfx_su h)

theorem concat_pfx_concat {A : CPath} {x y : Name} (h : (A ++ [x]) <+: (A ++ [y])) : x = y := by
  have := h.eq_of_length (by simp)
  exact (Proofs.C09.concat_inj this).2

section geo
variable {I F : CPath} (g : GeoI I F)
include g

theorem not_su_dirs : ¬ SU I I ∧ ¬ SU I F ∧ ¬ SU F I ∧ ¬ SU F F :=
  ⟨fun h => by have := h.2; omega, fun h => g.hIF h.1, fun h => g.hFI h.1, fun h => by have := h.2; omega⟩

theorem EP.ne_I {n : Bytes} {q : CPath} (h : EP I F n q) : q ≠ I := by
  rintro rfl
  rcases h.su with h | h
  · exact (not_su_dirs g).1 h
  · exact (not_su_dirs g).2.2.1 h

theorem EP.ne_F {n : Bytes} {q : CPath} (h : EP I F n q) : q ≠ F := by
  rintro rfl
  rcases h.su with h | h
  · exact (not_su_dirs g).2.1 h
  · exact (not_su_dirs g).2.2.2 h

theorem EP.disjoint {n d : Bytes} {q : CPath} (hn : isTrashinfoName n = true) (hd : isTrashinfoName d = true)
    (hne : n ≠ d) (h1 : EP I F n q) : ¬ EP I F d q := by
  intro h2
  have cross : ∀ (x y : Name), (I ++ [x]) <+: q → (F ++ [y]) <+: q → False := by
    intro x y a c
    rcases pfx_comparable a c with h | h
    · exact g.I_P y ((List.prefix_append I [x]).trans h)
    · rcases pfx_concat.1 ((List.prefix_append F [y]).trans h) with e | e
      · exact g.F_ne_info x e
      · exact g.hFI e
  rcases h1 with h1 | h1 <;> rcases h2 with h2 | h2
  · rcases pfx_comparable h1 h2 with h | h
    · exact hne (concat_pfx_concat h)
    · exact hne (concat_pfx_concat h).symm
  · exact cross _ _ h1 h2
  · exact cross _ _ h2 h1
  · rcases pfx_comparable h1 h2 with h | h
    · exact hne (stem_inj hn hd (concat_pfx_concat h))
    · exact hne (stem_inj hn hd (concat_pfx_concat h).symm)

theorem pay_not_pfx_info (x y : Name) : ¬ (F ++ [x]) <+: (I ++ [y]) := by
  intro h
  rcases pfx_concat.1 h with e | e
  · exact g.I_ne_F (Proofs.C09.concat_inj e).1.symm
  · exact g.P_I x e

end geo

theorem EP.info (I F : CPath) (n : Bytes) (rel : CPath) : EP I F n (I ++ [n] ++ rel) :=
  Or.inl (List.prefix_append _ _)
theorem EP.payload (I F : CPath) (n : Bytes) (rel : CPath) : EP I F n (F ++ [stemOf n] ++ rel) :=
  Or.inr (List.prefix_append _ _)

/-! ### what the removal calls of one entry preserve -/

theorem keptDir_of_touch {fs fs' : FS} {q : CPath} (h : touch (fs'.get q) = touch (fs.get q)) : keptDir fs fs' q := by
  intro m t hg
  rw [hg] at h
  rcases hq : fs'.get q with _ | (_ | _ | _) <;> rw [hq] at h <;> simp [touch] at h
  exact ⟨_, by rw [h]⟩

theorem keptDir_trans {a c d : FS} {q : CPath} (h1 : keptDir a c q) (h2 : keptDir c d q) : keptDir a d q := by
  intro m t hg
  obtain ⟨t', h⟩ := h1 m t hg
  exact h2 m t' h

theorem keptDir_refl (a : FS) (q : CPath) : keptDir a a q := fun _ t h => ⟨t, h⟩

theorem keptDir_isDir {a c : FS} {q : CPath} (h : keptDir a c q) (hd : a.isDirAt q = true) : c.isDirAt q = true := by
  obtain ⟨m, t, hg⟩ := isDirAt_get hd
  obtain ⟨t', h'⟩ := h m t hg
  exact isDirAt_of_get h'

/-- the effect on the rest of the world of calls that remove at or below the entry `n` only -/
structure Step (I F : CPath) (n : Bytes) (fs fs1 : FS) : Prop where
  mounts : fs1.mounts = fs.mounts
  wf : DomWf fs → DomWf fs1
  frame : ∀ q, ¬ EP I F n q → q ≠ I → q ≠ F → fs1.get q = fs.get q
  touchI : touch (fs1.get I) = touch (fs.get I)
  touchF : touch (fs1.get F) = touch (fs.get F)
  tree : ∀ P, G P fs → G P fs1
  none : ∀ q, fs.get q = none → fs1.get q = none

theorem Step.refl (I F : CPath) (n : Bytes) (fs : FS) : Step I F n fs fs :=
  ⟨rfl, id, fun _ _ _ _ => rfl, rfl, rfl, fun _ h => h, fun _ h => h⟩

theorem Step.trans {I F : CPath} {n : Bytes} {a c d : FS} (h1 : Step I F n a c) (h2 : Step I F n c d) : Step I F n a d :=
  ⟨h2.mounts.trans h1.mounts, fun h => h2.wf (h1.wf h),
   fun q x y z => (h2.frame q x y z).trans (h1.frame q x y z),
   h2.touchI.trans h1.touchI, h2.touchF.trans h1.touchF, fun P h => h2.tree P (h1.tree P h),
   fun q h => h2.none q (h1.none q h)⟩

theorem mounts_rm (fs : FS) (r : CPath) : (touchDir (removeNode fs r) (parent r)).mounts = fs.mounts := by simp

theorem step_of_iss {α} {I F : CPath} (g : GeoI I F) (n : Bytes) (φ : Oracle) {X : Prog α}
    (hX : Iss InvT (KR (EP I F n)) X) (s : RunState) : Step I F n s.fs (run φ X s).2.fs := by
  have hI : ∀ r, EP I F n r → I ≠ r := fun r hr e => EP.ne_I g hr e.symm
  have hF : ∀ r, EP I F n r → F ≠ r := fun r hr e => EP.ne_F g hr e.symm
  refine ⟨?_, fun hw => ?_, fun q hq hqI hqF => ?_, ?_, ?_, fun P hG => ?_, fun q hq => ?_⟩
  · refine (Iss.inv φ (fun x => x.mounts = s.fs.mounts) ?_ X s hX rfl).1
    intro c hc a a' hj h
    obtain ⟨r, _, rfl, _⟩ := apply_rm hc h
    rw [mounts_rm]; exact hj
  · refine (Iss.inv φ DomWf ?_ X s hX hw).1
    intro c hc a a' hj h
    obtain ⟨r, _, rfl, _⟩ := apply_rm hc h
    exact domwf_touchDir _ (domwf_removeNode _ hj)
  · refine (Iss.inv φ (fun x => x.get q = s.fs.get q) ?_ X s hX rfl).1
    intro c hc a a' hj h
    obtain ⟨r, hr, rfl, _⟩ := apply_rm hc h
    have h1 : q ≠ r := fun e => hq (e ▸ hr)
    have h2 : q ≠ parent r := by
      intro e
      rcases hr with hr | hr
      · by_cases hrr : r = I ++ [n]
        · rw [hrr, parent, dropLast_concat] at e; exact hqI e
        · exact hq (Or.inl (e ▸ parent_under hr hrr))
      · by_cases hrr : r = F ++ [stemOf n]
        · rw [hrr, parent, dropLast_concat] at e; exact hqF e
        · exact hq (Or.inr (e ▸ parent_under hr hrr))
    rw [rm_get_other a h1 h2]; exact hj
  · exact (Iss.inv φ (fun x => touch (x.get I) = touch (s.fs.get I)) (touch_keep _ hI) X s hX rfl).1
  · exact (Iss.inv φ (fun x => touch (x.get F) = touch (s.fs.get F)) (touch_keep _ hF) X s hX rfl).1
  · exact (Iss.inv φ (G P) (G_keep P) X s hX hG).1
  · exact (Iss.inv φ (fun x => x.get q = none) (none_keep q) X s hX hq).1

/-- the entry `n` was removed whole -/
structure Removed (I F : CPath) (n : Bytes) (fs fs1 : FS) : Prop where
  step : Step I F n fs fs1
  gone : ∀ q, EP I F n q → fs1.get q = none

/-! ### a removal that is given a well-formed tree removes all of it -/

theorem rm_none {fs : FS} {r q : CPath} (h : fs.get q = none) : (touchDir (removeNode fs r) (parent r)).get q = none := by
  rcases rm_get_shrink fs r q with h1 | h1
  · exact h1
  · rw [h] at h1; exact touch_eq_none.1 h1

theorem rmtree_all_gone (p : CPath) (s : RunState) (hG : G p s.fs) (hd : s.fs.isDirAt p = true) :
    (run noFaults (rmtree p) s).1 = .ok () ∧ ∀ q, p <+: q → (run noFaults (rmtree p) s).2.fs.get q = none := by
  obtain ⟨m, t, hg⟩ := isDirAt_get hd
  have hf : Proofs.C15.Fu ((s.fs.dom.map List.length).foldl max 0 + 1) p s.fs := by
    intro q _ hdq
    have : q.length ≤ (s.fs.dom.map List.length).foldl max 0 :=
      le_foldl_max _ 0 _ (Or.inr (List.mem_map.2 ⟨q, hG.1 q (isDirAt_isSome hdq), rfl⟩))
    omega
  obtain ⟨ok1, gone1⟩ := rmInner_ok _ p s hG hd hf
  have hG2 := (Iss.inv noFaults (G p) (G_keep p) _ s (iss_rmInner ((s.fs.dom.map List.length).foldl max 0 + 1) p) hG).1
  have hd2 : (run noFaults (rmInner ((s.fs.dom.map List.length).foldl max 0 + 1) p) s).2.fs.isDirAt p = true := by
    have := (Iss.inv noFaults (fun fs => touch (fs.get p) = touch (s.fs.get p))
      (touch_keep _ (fun r (hr : SU p r) => hr.ne.symm)) _ s (iss_rmInner ((s.fs.dom.map List.length).foldl max 0 + 1) p) rfl).1
    rw [isDirAt_touch this]; exact hd
  obtain ⟨m2, t2, hg2⟩ := isDirAt_get hd2
  have hrm : Call.apply (run noFaults (rmInner ((s.fs.dom.map List.length).foldl max 0 + 1) p) s).2.fs (.rmdir p) =
      .ok (touchDir (removeNode (run noFaults (rmInner ((s.fs.dom.map List.length).foldl max 0 + 1) p) s).2.fs p) (parent p)) := by
    simp only [Call.apply, FS.rmdir, hg2]
    rw [if_neg (by rw [hG2.2.2 p (List.prefix_refl p)]; simp), if_neg (by rw [hasChildren_of_gone gone1]; simp)]
  unfold rmtree
  rw [run_read_bind, hg]
  simp only []
  rw [run_bind, ok1]
  simp only []
  rw [run_sys, hrm]
  refine ⟨rfl, fun q hq => ?_⟩
  show (touchDir (removeNode _ p) (parent p)).get q = none
  by_cases e : q = p
  · rw [e]; exact rm_get_self _ _
  · exact rm_none (gone1 q ⟨hq, Nat.lt_of_le_of_ne hq.length_le fun hl => e (hq.eq_of_length hl).symm⟩)

theorem removeFile2_unlinked {p : CPath} {s : RunState} {fs' : FS} (hu : s.fs.unlink p = .ok fs') :
    (run noFaults (removeFile2 p) s).1 = .ok () ∧ (run noFaults (removeFile2 p) s).2.fs = fs' := by
  unfold removeFile2
  rw [run_bind, run_sys]
  simp only [Call.apply, hu, run_pure]
  exact ⟨trivial, trivial⟩

theorem removeIfExists_all_gone (p : CPath) (s : RunState) (hG : G p s.fs) :
    (run noFaults (removeIfExists p) s).1 = .ok () ∧ ∀ q, p <+: q → (run noFaults (removeIfExists p) s).2.fs.get q = none := by
  -- nothing below a path that is not a directory
  have below : s.fs.isDirAt p = false → ∀ q, p <+: q → q ≠ p → s.fs.get q = none := fun hnd q hq e =>
    nothing_below hG.2.1 (List.prefix_refl p) hnd ⟨hq, Nat.lt_of_le_of_ne hq.length_le fun hl => e (hq.eq_of_length hl).symm⟩
  have nondir : s.fs.isDirAt p = false → s.fs.unlink p = .ok (touchDir (removeNode s.fs p) (parent p)) →
      (run noFaults (removeFile2 p) s).1 = .ok () ∧ ∀ q, p <+: q → (run noFaults (removeFile2 p) s).2.fs.get q = none := by
    intro hnd hu
    obtain ⟨a, c⟩ := removeFile2_unlinked hu
    refine ⟨a, fun q hq => ?_⟩
    rw [c]
    by_cases e : q = p
    · rw [e]; exact rm_get_self _ _
    · exact rm_none (below hnd q hq e)
  unfold removeIfExists
  rw [run_read_bind]
  split
  · next hl =>
    cases hg : s.fs.get p with
    | none => simp [lexistsC, hg] at hl
    | some nd =>
      cases nd with
      | file d m t => exact nondir (by simp [isDirAt, hg, Node.isDir]) (by simp [FS.unlink, hg])
      | link t => exact nondir (by simp [isDirAt, hg, Node.isDir]) (by simp [FS.unlink, hg])
      | dir m t =>
        unfold removeFile2
        rw [run_bind, run_sys]
        simp only [Call.apply, FS.unlink, hg]
        exact rmtree_all_gone p _ hG (by simp [isDirAt, hg, Node.isDir])
  · next hl =>
    have hg : s.fs.get p = none := by
      cases h : s.fs.get p with
      | none => rfl
      | some nd => simp [lexistsC, h] at hl
    refine ⟨rfl, fun q hq => ?_⟩
    show s.fs.get q = none
    by_cases e : q = p
    · rw [e]; exact hg
    · exact below (by simp [isDirAt, hg]) q hq e

/-! ### following a final component that is not a symbolic link changes nothing -/

theorem walk_follow_of_notLink (fs : FS) (fuel : Nat) :
    ∀ (cs : List Bytes) (cur p : CPath), walk fs false fuel cur cs = .ok p → fs.isLinkAt p = false →
      walk fs true fuel cur cs = .ok p := by
  induction fuel using Nat.strongRecOn with
  | _ fuel IH =>
  intro cs
  induction cs with
  | nil => intro cur p h _; rw [walk] at h ⊢; exact h
  | cons c rest ih =>
    intro cur p h hp
    rw [walk] at h ⊢
    cases hg : fs.get cur with
    | none => rw [hg] at h; cases h
    | some n =>
      rw [hg] at h
      cases n with
      | file d m t => cases h
      | link t => cases h
      | dir m t =>
        simp only at h ⊢
        by_cases h1 : c = [] ∨ c = [dot]
        · rw [if_pos h1] at h ⊢; exact ih _ _ h hp
        · rw [if_neg h1] at h ⊢
          by_cases h2 : c = dotdot
          · rw [if_pos h2] at h ⊢; exact ih _ _ h hp
          · rw [if_neg h2] at h ⊢
            by_cases h3 : c.length > nameMax
            · rw [if_pos h3] at h; cases h
            · rw [if_neg h3] at h ⊢
              cases hc : fs.get (cur ++ [c]) with
              | none => rw [hc] at h; exact h
              | some nc =>
                rw [hc] at h
                cases nc with
                | file d' m' t' => exact ih _ _ h hp
                | dir m' t' => exact ih _ _ h hp
                | link tgt =>
                  simp only at h ⊢
                  by_cases hr : rest ≠ []
                  · rw [if_pos (Or.inl hr)] at h
                    rw [if_pos (Or.inl hr)]
                    cases fuel with
                    | zero => cases h
                    | succ f =>
                      simp only at h ⊢
                      by_cases ht : tgt = []
                      · rw [if_pos ht] at h; cases h
                      · rw [if_neg ht] at h ⊢
                        exact IH f (Nat.lt_succ_self f) _ _ _ h hp
                  · have : ¬ (rest ≠ [] ∨ false = true) := by simp [hr]
                    rw [if_neg this] at h
                    cases h
                    simp [isLinkAt, hc, Node.isLink] at hp

theorem resolve_follow_of_notLink {fs : FS} {cwd p : CPath} {path : Bytes}
    (h : resolve fs cwd path = .ok p) (hp : fs.isLinkAt p = false) : resolve fs cwd path true = .ok p := by
  unfold resolve at h ⊢
  by_cases hpath : path = []
  · rw [if_pos hpath] at h; cases h
  · rw [if_neg hpath] at h ⊢
    by_cases htr : path.getLast? = some slash ∧ ¬ (path.all (· = slash)) = true
    · have e : (true || decide (path.getLast? = some slash ∧ ¬ (path.all (· = slash)) = true)) =
          (false || decide (path.getLast? = some slash ∧ ¬ (path.all (· = slash)) = true)) := by
        simp [htr]
      simp only [e]
      exact h
    · simp only [htr, decide_false, Bool.or_false, if_false] at h ⊢
      cases hw : walk fs false linkFuel (if isAbs path = true then [] else cwd) (comps path) with
      | error e => rw [hw] at h; cases h
      | ok q =>
        rw [hw] at h
        cases h
        rw [walk_follow_of_notLink fs linkFuel _ _ _ hw hp]

/-! ### `Within`, and what a `Setting` gives in every reachable state -/

theorem within_refl (I F : CPath) (fs : FS) : Within I F fs fs :=
  ⟨rfl, fun _ _ _ _ _ => rfl, keptDir_refl _ _, keptDir_refl _ _⟩

theorem within_trans {I F : CPath} {a c d : FS} (h1 : Within I F a c) (h2 : Within I F c d) : Within I F a d :=
  ⟨h2.mounts.trans h1.mounts, fun q x y z w => (h2.same q x y z w).trans (h1.same q x y z w),
   keptDir_trans h1.dirs.1 h2.dirs.1, keptDir_trans h1.dirs.2 h2.dirs.2⟩

theorem Step.within {I F : CPath} {n : Bytes} {fs fs1 : FS} (h : Step I F n fs fs1) : Within I F fs fs1 := by
  refine ⟨h.mounts, fun q hI hF hsI hsF => h.frame q (fun hep => ?_) hI hF, keptDir_of_touch h.touchI, keptDir_of_touch h.touchF⟩
  rcases hep.su with e | e
  · exact hsI (su_iff.2 e)
  · exact hsF (su_iff.2 e)

theorem treeOk_iff {fs : FS} {P : CPath} (hw : DomWf fs) : TreeOk fs P ↔ G P fs := by
  constructor
  · intro h
    exact ⟨hw, fun q x hq => h.closed q x ((under_iff _ _).2 hq), fun q hq => h.noMount q ((under_iff _ _).2 hq)⟩
  · intro h
    exact ⟨fun q x hq => h.2.1 q x ((under_iff _ _).1 hq), fun q hq => h.2.2 q ((under_iff _ _).1 hq)⟩

theorem setting_geo {fs : FS} {cwd : CPath} {t : Bytes} {I F : CPath} {names : List Bytes}
    (S : Setting fs cwd t I F names) : GeoI I F := GeoI.of_inv S.inv

theorem setting_tail {fs : FS} {cwd : CPath} {t : Bytes} {I F : CPath} {n : Bytes} {rest : List Bytes}
    (S : Setting fs cwd t I F (n :: rest)) : Setting fs cwd t I F rest :=
  ⟨S.inv, S.wf, (List.nodup_cons.1 S.nodup).2, fun m hm => S.isInfo m (List.mem_cons_of_mem _ hm),
   fun m hm => S.notLink m (List.mem_cons_of_mem _ hm), fun m hm => S.infoTree m (List.mem_cons_of_mem _ hm),
   fun m hm => S.payTree m (List.mem_cons_of_mem _ hm),
   fun fs' hW m hm => S.resolves fs' hW m (List.mem_cons_of_mem _ hm)⟩

/-- the info file of another entry is not touched by the step for `n` -/
theorem Step.other_info {I F : CPath} (g : GeoI I F) {n m : Bytes} {fs fs1 : FS} (h : Step I F n fs fs1)
    (hn : isTrashinfoName n = true) (hm : isTrashinfoName m = true) (hne : m ≠ n) :
    fs1.get (I ++ [m]) = fs.get (I ++ [m]) := by
  have e := EP.info I F m []
  rw [List.append_nil] at e
  exact h.frame _ (EP.disjoint g hm hn hne e) (EP.ne_I g e) (EP.ne_F g e)

theorem setting_step {fs fs1 : FS} {cwd : CPath} {t : Bytes} {I F : CPath} {n : Bytes} {rest : List Bytes}
    (S : Setting fs cwd t I F (n :: rest)) (h : Step I F n fs fs1) : Setting fs1 cwd t I F rest := by
  have g := setting_geo S
  have hnd := List.nodup_cons.1 S.nodup
  have hW := h.within
  have hwf := h.wf S.wf
  refine ⟨⟨keptDir_isDir hW.dirs.1 S.inv.infoDir, keptDir_isDir hW.dirs.2 S.inv.filesDir, S.inv.apartIF, S.inv.apartFI⟩, hwf,
    hnd.2, fun m hm => S.isInfo m (List.mem_cons_of_mem _ hm), fun m hm => ?_, fun m hm => ?_, fun m hm => ?_,
    fun fs' hW' m hm => S.resolves fs' (within_trans hW hW') m (List.mem_cons_of_mem _ hm)⟩
  · have hne : m ≠ n := fun e => hnd.1 (e ▸ hm)
    have := h.other_info g (S.isInfo n List.mem_cons_self) (S.isInfo m (List.mem_cons_of_mem _ hm)) hne
    unfold isLinkAt
    rw [this]
    exact S.notLink m (List.mem_cons_of_mem _ hm)
  · exact (treeOk_iff hwf).2 (h.tree _ ((treeOk_iff S.wf).1 (S.infoTree m (List.mem_cons_of_mem _ hm))))
  · exact (treeOk_iff hwf).2 (h.tree _ ((treeOk_iff S.wf).1 (S.payTree m (List.mem_cons_of_mem _ hm))))

/-- what the readers see of the info file of a listed name, in every reachable state in which it is
    not a symbolic link -/
theorem contentsOf_info {fs fs' : FS} {cwd : CPath} {t : Bytes} {I F : CPath} {names : List Bytes} {n : Bytes}
    (S : Setting fs cwd t I F names) (hW : Within I F fs fs') (hn : n ∈ names)
    (hl : fs'.isLinkAt (I ++ [n]) = false) :
    contentsOf fs' cwd (infoStr t n) =
      match fs'.get (I ++ [n]) with
      | some (.file data _ _) => readText data
      | _ => none := by
  unfold contentsOf stat
  rw [resolve_follow_of_notLink (S.resolves fs' hW n hn).1 hl]
  rfl

/-- … hence the same as initially when the node is the same -/
theorem contentsOf_stable {fs fs' : FS} {cwd : CPath} {t : Bytes} {I F : CPath} {names : List Bytes} {n : Bytes}
    (S : Setting fs cwd t I F names) (hW : Within I F fs fs') (hn : n ∈ names)
    (he : fs'.get (I ++ [n]) = fs.get (I ++ [n])) :
    contentsOf fs' cwd (infoStr t n) = contentsOf fs cwd (infoStr t n) := by
  have hl := S.notLink n hn
  have hl' : fs'.isLinkAt (I ++ [n]) = false := by unfold isLinkAt at hl ⊢; rw [he]; exact hl
  rw [contentsOf_info S hW hn hl', contentsOf_info S (within_refl I F fs) hn hl, he]

theorem okToDelete_stable {fs fs' : FS} {cwd : CPath} {t : Bytes} {I F : CPath} {names : List Bytes} {n : Bytes}
    (o : EmptyOpts) (S : Setting fs cwd t I F names) (hW : Within I F fs fs') (hn : n ∈ names)
    (he : fs'.get (I ++ [n]) = fs.get (I ++ [n])) :
    okToDelete fs' cwd o (infoStr t n) = okToDelete fs cwd o (infoStr t n) := by
  unfold okToDelete
  rw [contentsOf_stable S hW hn he]

theorem rmSelects_stable {fs fs' : FS} {cwd : CPath} {t : Bytes} {I F : CPath} {names : List Bytes} {n : Bytes}
    (pattern volume : Bytes) (S : Setting fs cwd t I F names) (hW : Within I F fs fs') (hn : n ∈ names)
    (he : fs'.get (I ++ [n]) = fs.get (I ++ [n])) :
    rmSelects fs' cwd pattern volume (infoStr t n) = rmSelects fs cwd pattern volume (infoStr t n) ∧
    rmUnparsable fs' cwd (infoStr t n) = rmUnparsable fs cwd (infoStr t n) := by
  unfold rmSelects rmUnparsable
  rw [contentsOf_stable S hW hn he]
  exact ⟨rfl, rfl⟩

/-! ### `PurgedExactly`: composition -/

theorem purged_nil (fs : FS) (I F : CPath) : PurgedExactly fs fs I F [] :=
  ⟨(fun _ h => nomatch h), (fun _ h => nomatch h), fun _ _ _ _ => rfl, ⟨keptDir_refl _ _, keptDir_refl _ _⟩, rfl, fun _ => rfl⟩

theorem not_ep_of_all {I F : CPath} {D : List Bytes} {q : CPath}
    (h : ∀ n ∈ D, ¬ FS.under (I ++ [n]) q = true ∧ ¬ FS.under (F ++ [stemOf n]) q = true) :
    ∀ n ∈ D, ¬ EP I F n q := by
  intro n hn hep
  rcases hep with e | e
  · exact (h n hn).1 ((under_iff _ _).2 e)
  · exact (h n hn).2 ((under_iff _ _).2 e)

theorem all_of_not_ep {I F : CPath} {D : List Bytes} {q : CPath} (h : ∀ n ∈ D, ¬ EP I F n q) :
    ∀ n ∈ D, ¬ FS.under (I ++ [n]) q = true ∧ ¬ FS.under (F ++ [stemOf n]) q = true :=
  fun n hn => ⟨fun e => h n hn (Or.inl ((under_iff _ _).1 e)), fun e => h n hn (Or.inr ((under_iff _ _).1 e))⟩

theorem purged_cons {I F : CPath} (g : GeoI I F) {n : Bytes} {D : List Bytes} {fs fs1 fs2 : FS}
    (hn : isTrashinfoName n = true) (hD : ∀ d ∈ D, isTrashinfoName d = true ∧ d ≠ n)
    (R : Removed I F n fs fs1) (P : PurgedExactly fs1 fs2 I F D) : PurgedExactly fs fs2 I F (n :: D) := by
  have keep : ∀ q, EP I F n q → fs2.get q = fs1.get q := fun q hq =>
    P.frame q (EP.ne_I g hq) (EP.ne_F g hq)
      (all_of_not_ep fun d hd => EP.disjoint g hn (hD d hd).1 (Ne.symm (hD d hd).2) hq)
  refine ⟨fun m hm rel => ?_, fun m hm rel => ?_, fun q hI hF hall => ?_,
    ⟨keptDir_trans (keptDir_of_touch R.step.touchI) P.dirs.1, keptDir_trans (keptDir_of_touch R.step.touchF) P.dirs.2⟩,
    P.mounts.trans R.step.mounts, fun h => nomatch h⟩
  · rcases List.mem_cons.1 hm with rfl | hm
    · rw [keep _ (EP.info I F m rel)]; exact R.gone _ (EP.info I F m rel)
    · exact P.infoGone m hm rel
  · rcases List.mem_cons.1 hm with rfl | hm
    · rw [keep _ (EP.payload I F m rel)]; exact R.gone _ (EP.payload I F m rel)
    · exact P.payloadGone m hm rel
  · have h1 := not_ep_of_all hall
    rw [P.frame q hI hF fun d hd => hall d (List.mem_cons_of_mem _ hd)]
    exact R.step.frame q (h1 n List.mem_cons_self) hI hF

theorem purged_within {I F : CPath} {D : List Bytes} {fs fs' : FS} (P : PurgedExactly fs fs' I F D) :
    Within I F fs fs' := by
  refine ⟨P.mounts, fun q hI hF hsI hsF => P.frame q hI hF (all_of_not_ep fun n _ hep => ?_), P.dirs⟩
  rcases hep.su with e | e
  · exact hsI (su_iff.2 e)
  · exact hsF (su_iff.2 e)

/-- an entry that is not among the purged ones is intact: its info file and its whole payload -/
theorem purged_other {I F : CPath} (g : GeoI I F) {D : List Bytes} {fs fs' : FS} (P : PurgedExactly fs fs' I F D)
    (hD : ∀ d ∈ D, isTrashinfoName d = true) {m : Bytes} (hm : isTrashinfoName m = true) (hmD : m ∉ D) :
    (∀ rel, fs'.get (I ++ [m] ++ rel) = fs.get (I ++ [m] ++ rel)) ∧
    (∀ rel, fs'.get (F ++ [stemOf m] ++ rel) = fs.get (F ++ [stemOf m] ++ rel)) := by
  have key : ∀ q, EP I F m q → fs'.get q = fs.get q := fun q hq =>
    P.frame q (EP.ne_I g hq) (EP.ne_F g hq)
      (all_of_not_ep fun d hd => EP.disjoint g hm (hD d hd) (fun e => hmD (e ▸ hd)) hq)
  exact ⟨fun rel => key _ (EP.info I F m rel), fun rel => key _ (EP.payload I F m rel)⟩

/-! ### one entry of trash-empty -/

theorem run_say (φ : Oracle) (o : Out) (s : RunState) : run φ (say o) s = ((), { s with outs := o :: s.outs }) := rfl

/-- what `emptyPathR` does to the file system is what `remove_file_if_exists` does (the messages aside) -/
theorem emptyPathR_fs (o : EmptyOpts) (hdry : o.dryRun = false) (path : Bytes) (p : CPath) (s : RunState) :
    (run noFaults (emptyPathR o path (.ok p)) s).2.fs = (run noFaults (removeIfExists p) s).2.fs := by
  have tail : ∀ s' : RunState, s'.fs = s.fs →
      (run noFaults (removeIfExistsR (.ok p) >>= fun r => match r with
        | .ok () => (pure () : Prog Unit)
        | .error _ => say (.stderr "cannot-remove" path)) s').2.fs = (run noFaults (removeIfExists p) s).2.fs := by
    intro s' hs'
    rw [run_bind]
    have h2 := (Proofs.C16Indep.run_noFaults_fs (removeIfExists p) s' s hs').2
    show (run noFaults (match (run noFaults (removeIfExists p) s').1 with
        | .ok () => (pure () : Prog Unit)
        | .error _ => say (.stderr "cannot-remove" path)) (run noFaults (removeIfExists p) s').2).2.fs = _
    split
    · exact h2
    · exact h2
  unfold emptyPathR
  rw [if_neg (by simp [hdry])]
  by_cases hv : o.verbose > 0
  · simp only [hv, if_true]
    rw [run_bind, run_say]
    exact tail _ rfl
  · simp only [hv, if_false]
    exact tail s rfl

theorem setting_G {fs : FS} {cwd : CPath} {t : Bytes} {I F : CPath} {names : List Bytes} {n : Bytes}
    (S : Setting fs cwd t I F names) (hn : n ∈ names) : G (I ++ [n]) fs ∧ G (F ++ [stemOf n]) fs :=
  ⟨(treeOk_iff S.wf).1 (S.infoTree n hn), (treeOk_iff S.wf).1 (S.payTree n hn)⟩

theorem iss_info {I F : CPath} (n : Bytes) {α} {X : Prog α} (h : Iss InvT (KR (U (I ++ [n]))) X) :
    Iss InvT (KR (EP I F n)) X := Iss.mono (fun _ => KR.mono fun _ hr => Or.inl hr) h
theorem iss_payload {I F : CPath} (n : Bytes) {α} {X : Prog α} (h : Iss InvT (KR (U (F ++ [stemOf n]))) X) :
    Iss InvT (KR (EP I F n)) X := Iss.mono (fun _ => KR.mono fun _ hr => Or.inr hr) h

/-- removing the payload, then the info file, each with `remove_file_if_exists` -/
theorem removed_two {I F : CPath} (g : GeoI I F) (n : Bytes) (s : RunState)
    (hGi : G (I ++ [n]) s.fs) (hGp : G (F ++ [stemOf n]) s.fs) :
    Removed I F n s.fs
      (run noFaults (removeIfExists (I ++ [n])) (run noFaults (removeIfExists (F ++ [stemOf n])) s).2).2.fs := by
  have step1 := step_of_iss g n noFaults (iss_payload (I := I) n (iss_removeIfExists (F ++ [stemOf n]))) s
  have gone1 := (removeIfExists_all_gone _ s hGp).2
  have step2 := step_of_iss g n noFaults (iss_info (F := F) n (iss_removeIfExists (I ++ [n])))
    (run noFaults (removeIfExists (F ++ [stemOf n])) s).2
  have gone2 := (removeIfExists_all_gone _ (run noFaults (removeIfExists (F ++ [stemOf n])) s).2 (step1.tree _ hGi)).2
  refine ⟨step1.trans step2, fun q hq => ?_⟩
  rcases hq with hq | hq
  · exact gone2 q hq
  · exact step2.none q (gone1 q hq)

theorem removed_empty {I F : CPath} (g : GeoI I F) (n : Bytes) (o : EmptyOpts) (hdry : o.dryRun = false)
    (pstr istr : Bytes) (s : RunState) (hGi : G (I ++ [n]) s.fs) (hGp : G (F ++ [stemOf n]) s.fs) :
    Removed I F n s.fs
      (run noFaults (emptyPathR o istr (.ok (I ++ [n]))) (run noFaults (emptyPathR o pstr (.ok (F ++ [stemOf n]))) s).2).2.fs := by
  rw [emptyPathR_fs o hdry]
  have e := emptyPathR_fs o hdry pstr (F ++ [stemOf n]) s
  rw [(Proofs.C16Indep.run_noFaults_fs (removeIfExists (I ++ [n])) _ (run noFaults (removeIfExists (F ++ [stemOf n])) s).2 e).2]
  exact removed_two g n s hGi hGp

/-! ### the loop of trash-empty -/

theorem emptySelected_congr {fs fs' : FS} {cwd : CPath} {o : EmptyOpts} {t : Bytes} {l : List Bytes}
    (h : ∀ m ∈ l, okToDelete fs' cwd o (infoStr t m) = okToDelete fs cwd o (infoStr t m)) :
    emptySelected fs' cwd o t l = emptySelected fs cwd o t l := by
  unfold emptySelected
  apply List.filter_congr
  intro m hm
  rw [h m hm]

theorem emptyInfos_loop (o : EmptyOpts) (hdry : o.dryRun = false) (cwd : CPath) (t : Bytes) (I F : CPath) :
    ∀ (names : List Bytes) (s : RunState), Setting s.fs cwd t I F names →
      (∀ n ∈ names, ∀ c, okToDelete s.fs cwd o (infoStr t n) ≠ .crash c) →
      (run noFaults (emptyInfos cwd o (infoStrs t names)) s).1 = none ∧
      PurgedExactly s.fs (run noFaults (emptyInfos cwd o (infoStrs t names)) s).2.fs I F
        (emptySelected s.fs cwd o t names) := by
  intro names
  induction names with
  | nil => intro s _ _; exact ⟨rfl, purged_nil _ _ _⟩
  | cons n rest ih =>
    intro s S hnc
    have g := setting_geo S
    have hmem : n ∈ n :: rest := List.mem_cons_self
    have hnd := List.nodup_cons.1 S.nodup
    show (run noFaults (emptyInfos cwd o (infoStr t n :: infoStrs t rest)) s).1 = none ∧
      PurgedExactly s.fs (run noFaults (emptyInfos cwd o (infoStr t n :: infoStrs t rest)) s).2.fs I F _
    rw [emptyInfos, run_read_bind]
    cases hdec : okToDelete s.fs cwd o (infoStr t n) with
    | crash c => exact absurd hdec (hnc n hmem c)
    | keep =>
      simp only []
      have hsel : emptySelected s.fs cwd o t (n :: rest) = emptySelected s.fs cwd o t rest := by
        unfold emptySelected
        rw [List.filter_cons_of_neg (by simp [hdec])]
      rw [hsel]
      exact ih s (setting_tail S) fun m hm => hnc m (List.mem_cons_of_mem _ hm)
    | delete =>
      simp only []
      obtain ⟨r1, r2⟩ := S.resolves s.fs (within_refl I F s.fs) n hmem
      rw [r1, r2, run_bind, run_bind]
      obtain ⟨hGi, hGp⟩ := setting_G S hmem
      have R := removed_empty g n o hdry (pathOfBackupCopy (infoStr t n)) (infoStr t n) s hGi hGp
      generalize (run noFaults (emptyPathR o (infoStr t n) (.ok (I ++ [n])))
        (run noFaults (emptyPathR o (pathOfBackupCopy (infoStr t n)) (.ok (F ++ [stemOf n]))) s).2).2 = s2 at R ⊢
      have S2 := setting_step S R.step
      have hst : ∀ m ∈ rest, okToDelete s2.fs cwd o (infoStr t m) = okToDelete s.fs cwd o (infoStr t m) := fun m hm =>
        okToDelete_stable o (setting_tail S) R.step.within hm
          (R.step.other_info g (S.isInfo n hmem) (S.isInfo m (List.mem_cons_of_mem _ hm)) (fun e => hnd.1 (e ▸ hm)))
      obtain ⟨a, P⟩ := ih s2 S2 fun m hm c => by rw [hst m hm]; exact hnc m (List.mem_cons_of_mem _ hm) c
      rw [emptySelected_congr hst] at P
      have hsel : emptySelected s.fs cwd o t (n :: rest) = n :: emptySelected s.fs cwd o t rest := by
        unfold emptySelected
        rw [List.filter_cons_of_pos (by simp [hdec])]
      rw [hsel]
      refine ⟨a, purged_cons g (S.isInfo n hmem) (fun d hd => ?_) R P⟩
      have hd' : d ∈ rest := (List.mem_filter.1 hd).1
      exact ⟨S.isInfo d (List.mem_cons_of_mem _ hd'), fun e => hnd.1 (e ▸ hd')⟩

/-! ### programs that print nothing -/

theorem silent_outs {α} (φ : Oracle) (p : Prog α) : ∀ s : RunState, Proofs.C06.Emits (fun _ => False) p →
    (run φ p s).2.outs = s.outs := by
  induction p with
  | ret a => intro s _; rfl
  | get k ih => intro s hp; simp only [run]; exact ih _ s (hp _)
  | emit o k ih => intro s hp; exact absurd hp.1 id
  | call c k ih =>
    intro s hp
    simp only [run]
    split
    · exact ih _ _ (hp _)
    · exact ih _ _ (hp _)

theorem em_removeFile2 {P : Out → Prop} (p : CPath) : Proofs.C06.Emits P (removeFile2 p) := by
  unfold removeFile2
  refine Proofs.C06.Emits.bind (Proofs.C06.Emits.sys _) fun r => ?_
  split
  · exact Proofs.C06.Emits.pure _
  · exact Proofs.C06.em_rmtree _

theorem em_removeIfExists {P : Out → Prop} (p : CPath) : Proofs.C06.Emits P (removeIfExists p) := by
  unfold removeIfExists
  refine Proofs.C06.Emits.read_bind fun fs => ?_
  split
  · exact em_removeFile2 p
  · exact Proofs.C06.Emits.pure _

theorem em_purgePair {P : Out → Prop} (payload info : Except Errno CPath) : Proofs.C06.Emits P (purgePair payload info) := by
  unfold purgePair removeIfExistsR removeFile2R
  refine Proofs.C06.Emits.bind ?_ fun r => ?_
  · split
    · exact em_removeIfExists _
    · exact Proofs.C06.Emits.pure _
  · split
    · exact Proofs.C06.Emits.pure _
    · split
      · exact em_removeFile2 _
      · exact Proofs.C06.Emits.pure _

/-! ### one entry of trash-rm -/

/-- `purgePair` on an entry whose info file is a regular file: it succeeds and the entry is gone whole -/
theorem removed_rm {I F : CPath} (g : GeoI I F) (n : Bytes) (s : RunState)
    (hGi : G (I ++ [n]) s.fs) (hGp : G (F ++ [stemOf n]) s.fs)
    {d : Bytes} {m t : Nat} (hfile : s.fs.get (I ++ [n]) = some (.file d m t)) :
    (run noFaults (purgePair (.ok (F ++ [stemOf n])) (.ok (I ++ [n]))) s).1 = .ok () ∧
    Removed I F n s.fs (run noFaults (purgePair (.ok (F ++ [stemOf n])) (.ok (I ++ [n]))) s).2.fs := by
  have step1 := step_of_iss g n noFaults (iss_payload (I := I) n (iss_removeIfExists (F ++ [stemOf n]))) s
  obtain ⟨ok1, gone1⟩ := removeIfExists_all_gone _ s hGp
  have hinfo : (run noFaults (removeIfExists (F ++ [stemOf n])) s).2.fs.get (I ++ [n]) = s.fs.get (I ++ [n]) :=
    (frame_U noFaults (iss_removeIfExists (F ++ [stemOf n])) s (pay_not_pfx_info g _ _)
      (by rw [parent, dropLast_concat]; exact fun e => g.F_ne_info n e.symm)).1
  have hu : (run noFaults (removeIfExists (F ++ [stemOf n])) s).2.fs.unlink (I ++ [n]) =
      .ok (touchDir (removeNode (run noFaults (removeIfExists (F ++ [stemOf n])) s).2.fs (I ++ [n])) (parent (I ++ [n]))) := by
    simp [FS.unlink, hinfo, hfile]
  obtain ⟨ok2, fs2⟩ := removeFile2_unlinked hu
  have step2 := step_of_iss g n noFaults (iss_info (F := F) n (iss_removeFile2 (I ++ [n])))
    (run noFaults (removeIfExists (F ++ [stemOf n])) s).2
  have hrun : run noFaults (purgePair (.ok (F ++ [stemOf n])) (.ok (I ++ [n]))) s =
      run noFaults (removeFile2 (I ++ [n])) (run noFaults (removeIfExists (F ++ [stemOf n])) s).2 := by
    unfold purgePair removeIfExistsR removeFile2R
    rw [run_bind, ok1]
  rw [hrun]
  refine ⟨ok2, step1.trans step2, fun q hq => ?_⟩
  rcases hq with hq | hq
  · by_cases e : q = I ++ [n]
    · rw [e, fs2]; exact rm_get_self _ _
    · have hnd : s.fs.isDirAt (I ++ [n]) = false := by simp [isDirAt, hfile, Node.isDir]
      exact step2.none q (step1.none q (nothing_below hGi.2.1 (List.prefix_refl _) hnd
        ⟨hq, Nat.lt_of_le_of_ne hq.length_le fun hl => e (hq.eq_of_length hl).symm⟩))
  · exact step2.none q (gone1 q hq)

/-! ### the loop of trash-rm -/

theorem rmMatches_some {pattern : Bytes} (hp : pattern ≠ []) (loc : Bytes) : ∃ v, rmMatches pattern loc = some v := by
  unfold rmMatches
  rw [if_neg hp]
  exact ⟨_, rfl⟩

theorem mem_infoStrs {t : Bytes} {l : List Bytes} {i : Bytes} (h : i ∈ infoStrs t l) : ∃ m ∈ l, i = infoStr t m := by
  obtain ⟨m, hm, e⟩ := List.mem_map.1 h
  exact ⟨m, hm, e.symm⟩

theorem rmInfos_loop (pattern volume : Bytes) (hp : pattern ≠ []) (cwd : CPath) (t : Bytes) (I F : CPath) :
    ∀ (names : List Bytes) (s : RunState), Setting s.fs cwd t I F names →
      (run noFaults (rmInfos cwd pattern volume (infoStrs t names)) s).1 = none ∧
      PurgedExactly s.fs (run noFaults (rmInfos cwd pattern volume (infoStrs t names)) s).2.fs I F
        (rmSelected s.fs cwd pattern volume t names) ∧
      (run noFaults (rmInfos cwd pattern volume (infoStrs t names)) s).2.outs =
        (((infoStrs t names).filter (rmUnparsable s.fs cwd)).map (Out.stderr "unparsable")).reverse ++ s.outs := by
  intro names
  induction names with
  | nil => intro s _; exact ⟨rfl, purged_nil _ _ _, rfl⟩
  | cons n rest ih =>
    intro s S
    have g := setting_geo S
    have hmem : n ∈ n :: rest := List.mem_cons_self
    have hnd := List.nodup_cons.1 S.nodup
    -- an entry that is left alone
    have skip : rmSelects s.fs cwd pattern volume (infoStr t n) = false →
        rmUnparsable s.fs cwd (infoStr t n) = false →
        (run noFaults (rmInfos cwd pattern volume (infoStrs t rest)) s).1 = none ∧
        PurgedExactly s.fs (run noFaults (rmInfos cwd pattern volume (infoStrs t rest)) s).2.fs I F
          (rmSelected s.fs cwd pattern volume t (n :: rest)) ∧
        (run noFaults (rmInfos cwd pattern volume (infoStrs t rest)) s).2.outs =
          (((infoStrs t (n :: rest)).filter (rmUnparsable s.fs cwd)).map (Out.stderr "unparsable")).reverse ++ s.outs := by
      intro h1 h2
      have hsel : rmSelected s.fs cwd pattern volume t (n :: rest) = rmSelected s.fs cwd pattern volume t rest := by
        unfold rmSelected
        rw [List.filter_cons_of_neg (by simp [h1])]
      have hun : (infoStrs t (n :: rest)).filter (rmUnparsable s.fs cwd) = (infoStrs t rest).filter (rmUnparsable s.fs cwd) := by
        show (infoStr t n :: infoStrs t rest).filter _ = _
        rw [List.filter_cons_of_neg (by simp [h2])]
      rw [hsel, hun]
      exact ih s (setting_tail S)
    -- an entry that is reported
    have report : rmSelects s.fs cwd pattern volume (infoStr t n) = false →
        rmUnparsable s.fs cwd (infoStr t n) = true →
        (run noFaults (do say (.stderr "unparsable" (infoStr t n)); rmInfos cwd pattern volume (infoStrs t rest)) s).1 = none ∧
        PurgedExactly s.fs (run noFaults (do say (.stderr "unparsable" (infoStr t n)); rmInfos cwd pattern volume (infoStrs t rest)) s).2.fs I F
          (rmSelected s.fs cwd pattern volume t (n :: rest)) ∧
        (run noFaults (do say (.stderr "unparsable" (infoStr t n)); rmInfos cwd pattern volume (infoStrs t rest)) s).2.outs =
          (((infoStrs t (n :: rest)).filter (rmUnparsable s.fs cwd)).map (Out.stderr "unparsable")).reverse ++ s.outs := by
      intro h1 h2
      have hsel : rmSelected s.fs cwd pattern volume t (n :: rest) = rmSelected s.fs cwd pattern volume t rest := by
        unfold rmSelected
        rw [List.filter_cons_of_neg (by simp [h1])]
      have hun : (infoStrs t (n :: rest)).filter (rmUnparsable s.fs cwd) =
          infoStr t n :: (infoStrs t rest).filter (rmUnparsable s.fs cwd) := by
        show (infoStr t n :: infoStrs t rest).filter _ = _
        rw [List.filter_cons_of_pos (by simp [h2])]
      rw [hsel, hun, run_bind, run_say]
      obtain ⟨a, P, c⟩ := ih { s with outs := Out.stderr "unparsable" (infoStr t n) :: s.outs } (setting_tail S)
      refine ⟨a, P, ?_⟩
      rw [c]
      simp
    show (run noFaults (rmInfos cwd pattern volume (infoStr t n :: infoStrs t rest)) s).1 = none ∧
      PurgedExactly s.fs (run noFaults (rmInfos cwd pattern volume (infoStr t n :: infoStrs t rest)) s).2.fs I F _ ∧
      (run noFaults (rmInfos cwd pattern volume (infoStr t n :: infoStrs t rest)) s).2.outs = _
    rw [rmInfos, run_read_bind]
    cases hc : contentsOf s.fs cwd (infoStr t n) with
    | none =>
      simp only []
      exact report (by simp [rmSelects, hc]) (by simp [rmUnparsable, hc])
    | some text =>
      simp only []
      cases hpp : parsePath text with
      | none =>
        simp only []
        exact report (by simp [rmSelects, hc, hpp]) (by simp [rmUnparsable, hc, hpp])
      | some rel =>
        simp only []
        obtain ⟨v, hv⟩ := rmMatches_some hp (pjoin volume rel)
        rw [hv]
        cases v with
        | false =>
          simp only []
          exact skip (by simp [rmSelects, hc, hpp, hv]) (by simp [rmUnparsable, hc, hpp])
        | true =>
          simp only []
          obtain ⟨r1, r2⟩ := S.resolves s.fs (within_refl I F s.fs) n hmem
          rw [r1, r2, run_bind]
          obtain ⟨hGi, hGp⟩ := setting_G S hmem
          have hfile : ∃ d m t', s.fs.get (I ++ [n]) = some (.file d m t') := by
            have := contentsOf_info S (within_refl I F s.fs) hmem (S.notLink n hmem)
            rw [hc] at this
            rcases hg : s.fs.get (I ++ [n]) with _ | (_ | _ | _)
            · rw [hg] at this; cases this
            · exact ⟨_, _, _, rfl⟩
            · rw [hg] at this; cases this
            · rw [hg] at this; cases this
          obtain ⟨d, m, t', hfile⟩ := hfile
          obtain ⟨ok, R⟩ := removed_rm g n s hGi hGp hfile
          have houts := silent_outs noFaults _ s (em_purgePair (P := fun _ => False) (.ok (F ++ [stemOf n])) (.ok (I ++ [n])))
          rw [ok]
          simp only []
          generalize (run noFaults (purgePair (.ok (F ++ [stemOf n])) (.ok (I ++ [n]))) s).2 = s2 at R houts ⊢
          have S2 := setting_step S R.step
          have hst : ∀ m' ∈ rest, rmSelects s2.fs cwd pattern volume (infoStr t m') = rmSelects s.fs cwd pattern volume (infoStr t m') ∧
              rmUnparsable s2.fs cwd (infoStr t m') = rmUnparsable s.fs cwd (infoStr t m') := fun m' hm' =>
            rmSelects_stable pattern volume (setting_tail S) R.step.within hm'
              (R.step.other_info g (S.isInfo n hmem) (S.isInfo m' (List.mem_cons_of_mem _ hm')) (fun e => hnd.1 (e ▸ hm')))
          obtain ⟨a, P, c⟩ := ih s2 S2
          have e1 : rmSelected s2.fs cwd pattern volume t rest = rmSelected s.fs cwd pattern volume t rest := by
            unfold rmSelected
            exact List.filter_congr fun m' hm' => (hst m' hm').1
          have e2 : (infoStrs t rest).filter (rmUnparsable s2.fs cwd) = (infoStrs t rest).filter (rmUnparsable s.fs cwd) := by
            apply List.filter_congr
            intro i hi
            obtain ⟨m', hm', rfl⟩ := mem_infoStrs hi
            exact (hst m' hm').2
          rw [e1] at P
          rw [e2, houts] at c
          have hsel : rmSelected s.fs cwd pattern volume t (n :: rest) = n :: rmSelected s.fs cwd pattern volume t rest := by
            unfold rmSelected
            rw [List.filter_cons_of_pos (by simp [rmSelects, hc, hpp, hv])]
          have hun : (infoStrs t (n :: rest)).filter (rmUnparsable s.fs cwd) = (infoStrs t rest).filter (rmUnparsable s.fs cwd) := by
            show (infoStr t n :: infoStrs t rest).filter _ = _
            rw [List.filter_cons_of_neg (by simp [rmUnparsable, hc, hpp])]
          rw [hsel, hun]
          refine ⟨a, purged_cons g (S.isInfo n hmem) (fun d' hd => ?_) R P, c⟩
          have hd' : d' ∈ rest := (List.mem_filter.1 hd).1
          exact ⟨S.isInfo d' (List.mem_cons_of_mem _ hd'), fun e => hnd.1 (e ▸ hd')⟩

/-! ### the DAYS overflow: the loop stops at the first dated entry, everything before it was handled -/

theorem emptyInfos_append (φ : Oracle) (cwd : CPath) (o : EmptyOpts) : ∀ (a c : List Bytes) (s : RunState),
    run φ (emptyInfos cwd o (a ++ c)) s =
      match (run φ (emptyInfos cwd o a) s).1 with
      | none => run φ (emptyInfos cwd o c) (run φ (emptyInfos cwd o a) s).2
      | some _ => run φ (emptyInfos cwd o a) s := by
  intro a
  induction a with
  | nil => intro c s; rfl
  | cons i a ih =>
    intro c s
    rw [List.cons_append, emptyInfos, emptyInfos, run_read_bind, run_read_bind]
    split
    · rfl
    · exact ih c s
    · rw [run_bind, run_bind, run_bind, run_bind]
      exact ih c _

theorem setting_sub {fs : FS} {cwd : CPath} {t : Bytes} {I F : CPath} {names names' : List Bytes}
    (S : Setting fs cwd t I F names) (hnd : names'.Nodup) (hsub : ∀ m ∈ names', m ∈ names) :
    Setting fs cwd t I F names' :=
  ⟨S.inv, S.wf, hnd, fun m hm => S.isInfo m (hsub m hm), fun m hm => S.notLink m (hsub m hm),
   fun m hm => S.infoTree m (hsub m hm), fun m hm => S.payTree m (hsub m hm),
   fun fs' hW m hm => S.resolves fs' hW m (hsub m hm)⟩

theorem emptyInfos_crash (o : EmptyOpts) (hdry : o.dryRun = false) (cwd : CPath) (t : Bytes) (I F : CPath)
    (pre post : List Bytes) (n : Bytes) (c : Crash) (s : RunState)
    (S : Setting s.fs cwd t I F (pre ++ n :: post))
    (hpre : ∀ m ∈ pre, ∀ c', okToDelete s.fs cwd o (infoStr t m) ≠ .crash c')
    (hn : okToDelete s.fs cwd o (infoStr t n) = .crash c) :
    (run noFaults (emptyInfos cwd o (infoStrs t (pre ++ n :: post))) s).1 = some c ∧
    PurgedExactly s.fs (run noFaults (emptyInfos cwd o (infoStrs t (pre ++ n :: post))) s).2.fs I F
      (emptySelected s.fs cwd o t pre) := by
  have g := setting_geo S
  have hnd := List.nodup_append.1 S.nodup
  have Spre : Setting s.fs cwd t I F pre := setting_sub S hnd.1 fun m hm => List.mem_append_left _ hm
  obtain ⟨a, P⟩ := emptyInfos_loop o hdry cwd t I F pre s Spre hpre
  have hmem : n ∈ pre ++ n :: post := List.mem_append_right _ List.mem_cons_self
  have hnpre : n ∉ pre := fun h => hnd.2.2 n h n List.mem_cons_self rfl
  have hsame : (run noFaults (emptyInfos cwd o (infoStrs t pre)) s).2.fs.get (I ++ [n]) = s.fs.get (I ++ [n]) := by
    have := (purged_other g P (fun d hd => Spre.isInfo d (List.mem_filter.1 hd).1) (S.isInfo n hmem)
      (fun h => hnpre (List.mem_filter.1 h).1)).1 []
    simpa using this
  have hdec := okToDelete_stable o S (purged_within P) hmem hsame
  have e : infoStrs t (pre ++ n :: post) = infoStrs t pre ++ infoStr t n :: infoStrs t post := by
    unfold infoStrs; rw [List.map_append, List.map_cons]
  rw [e, emptyInfos_append, a]
  simp only []
  rw [emptyInfos, run_read_bind, hdec, hn]
  exact ⟨rfl, P⟩

/-! ### the resolved layer discharged: a trash directory given by its canonical spelling -/

section plain
open TrashVerif.Proofs.C07 (Plain GoodNames body toStr_ne body_last)
open TrashVerif.Proofs.C16IndepHome (resolve_leaf pjoin_toStr goodNames_append goodNames_single good_info good_files)

theorem ext_length : trashinfoExt.length = 10 := by decide +kernel

theorem good_name {n : Bytes} (hi : isTrashinfoName n = true) (hs : slash ∉ n) (hl : n.length ≤ 255) :
    GoodNames [n] ∧ GoodNames [stemOf n] := by
  obtain ⟨st, rfl, h1, h2, h3⟩ := trashinfo_name_stem n hi
  rw [stemOf_append]
  have hlen : (st ++ trashinfoExt).length = st.length + 10 := by rw [List.length_append, ext_length]
  refine ⟨goodNames_single ⟨?_, hs, ?_, ?_, hl⟩, goodNames_single ⟨h1, fun h => hs (List.mem_append_left _ h), h2, h3, by omega⟩⟩
  · intro e; rw [e] at hlen; simp at hlen
  · intro e; rw [e] at hlen; simp at hlen
  · intro e; rw [e] at hlen; simp [dotdot] at hlen

theorem head_ne_slash {x : Name} (h : GoodNames [x]) : x.head? ≠ some slash := by
  obtain ⟨h1, h2, _⟩ := h x (by simp)
  obtain ⟨y, ys, rfl⟩ := List.exists_cons_of_ne_nil h1
  intro e
  simp only [List.head?_cons, Option.some.injEq] at e
  exact h2 (e ▸ List.mem_cons_self)

theorem plain_within {I F : CPath} (g : GeoI I F) {fs fs' : FS} (hW : Within I F fs fs') (hp : Plain fs I) : Plain fs' I := by
  intro q hq
  by_cases e : q = I
  · rw [e]; exact keptDir_isDir hW.dirs.1 (hp I List.prefix_rfl)
  · have h := hW.same q e (fun e' => g.hFI (e' ▸ hq))
      (fun h => e ((su_iff.1 h).1.eq_of_length (Nat.le_antisymm (su_iff.1 h).1.length_le hq.length_le)).symm)
      (fun h => g.hFI ((su_iff.1 h).1.trans hq))
    unfold isDirAt
    rw [h]
    exact hp q hq

theorem plain_setting (fs : FS) (cwd T : CPath) (names : List Bytes)
    (hT0 : T ≠ []) (hTn : GoodNames T)
    (hI : Plain fs (T ++ [b "info"])) (hF : Plain fs (T ++ [b "files"]))
    (wf : DomWf fs) (nodup : names.Nodup)
    (isInfo : ∀ n ∈ names, isTrashinfoName n = true)
    (good : ∀ n ∈ names, slash ∉ n ∧ n.length ≤ 255)
    (notLink : ∀ n ∈ names, fs.isLinkAt (T ++ [b "info"] ++ [n]) = false)
    (infoTree : ∀ n ∈ names, TreeOk fs (T ++ [b "info"] ++ [n]))
    (payTree : ∀ n ∈ names, TreeOk fs (T ++ [b "files"] ++ [stemOf n])) :
    Setting fs cwd (toStr T) (T ++ [b "info"]) (T ++ [b "files"]) names := by
  have hne : b "info" ≠ b "files" := by decide +kernel
  have inv : TrashInv fs (T ++ [b "info"]) (T ++ [b "files"]) := by
    refine ⟨hI _ List.prefix_rfl, hF _ List.prefix_rfl, fun h => ?_, fun h => ?_⟩
    · rcases pfx_concat.1 ((under_iff _ _).1 h) with e | e
      · exact hne (Proofs.C09.concat_inj e).2
      · exact not_concat_pfx T _ e
    · rcases pfx_concat.1 ((under_iff _ _).1 h) with e | e
      · exact hne (Proofs.C09.concat_inj e).2.symm
      · exact not_concat_pfx T _ e
  have g := GeoI.of_inv inv
  have gI : GoodNames (T ++ [b "info"]) := goodNames_append hTn good_info
  have gF : GoodNames (T ++ [b "files"]) := goodNames_append hTn good_files
  have g' : GeoI (T ++ [b "files"]) (T ++ [b "info"]) := ⟨g.hFI, g.hIF⟩
  obtain ⟨w, x, hw, hx⟩ := body_last hT0 hTn
  have hTstr : toStr T = w ++ [x] := by rw [toStr_ne hT0, hw]
  refine ⟨inv, wf, nodup, isInfo, notLink, infoTree, payTree, fun fs' hW n hn => ?_⟩
  obtain ⟨gn, gs⟩ := good_name (isInfo n hn) (good n hn).1 (good n hn).2
  have hW' : Within (T ++ [b "files"]) (T ++ [b "info"]) fs fs' :=
    ⟨hW.mounts, fun q a c d e => hW.same q c a e d, hW.dirs.2, hW.dirs.1⟩
  have e1 : infoStr (toStr T) n = toStr (T ++ [b "info"] ++ [n]) := by
    unfold infoStr
    rw [pjoin_toStr hT0 hTn _ (by decide +kernel), pjoin_toStr (by simp) gI n (head_ne_slash gn)]
  have e2 : pathOfBackupCopy (infoStr (toStr T) n) = toStr (T ++ [b "files"] ++ [stemOf n]) := by
    obtain ⟨st, hst, h1, _, _⟩ := trashinfo_name_stem n (isInfo n hn)
    have hss : slash ∉ st := fun h => (good n hn).1 (hst ▸ List.mem_append_left _ h)
    unfold infoStr
    rw [hst, stemOf_append, backup_path_under_files (toStr T) st ⟨by rw [hTstr]; simp, by rw [hTstr]; simpa using hx⟩ ⟨h1, hss⟩,
      pjoin_toStr hT0 hTn _ (by decide +kernel)]
    rw [hst, stemOf_append] at gs
    exact pjoin_toStr (by simp) gF st (head_ne_slash gs)
  rw [e1] at e2
  rw [e1, e2]
  exact ⟨resolve_leaf fs' cwd _ n (plain_within g hW hI) (goodNames_append gI gn),
    resolve_leaf fs' cwd _ _ (plain_within g' hW' hF) (goodNames_append gF gs)⟩

/-- `TreeOk` from the decidable check, on a world whose `dom` lists every present path -/
theorem treeOk_of_check {fs : FS} {P : CPath} (hw : DomWf fs) (h : treeCheck fs P = true) : TreeOk fs P := by
  unfold treeCheck at h
  rw [Bool.and_eq_true, List.all_eq_true, List.all_eq_true] at h
  obtain ⟨h1, h2⟩ := h
  refine ⟨fun q x hq hs => ?_, fun q hq => ?_⟩
  · have := h1 (q ++ [x]) (hw _ hs)
    rw [dropLast_concat, hs, hq] at this
    simpa using this
  · cases hm : fs.isMount q with
    | false => rfl
    | true =>
      have hmem : q ∈ fs.mounts := by simpa [FS.isMount] using hm
      have := h2 q hmem
      rw [hq] at this
      cases this

end plain

/-! ### the decisions, in the words of the properties -/

theorem parsed_date_valid {text : Bytes} {d : Date} (h : parseDeletionDate text = some d) : d.valid = true := by
  unfold parseDeletionDate parseDate at h
  split at h
  · next t heq =>
    cases h
    split at heq
    · cases heq
    · next l _ =>
      split at heq
      · next t' hs =>
        cases heq
        unfold strptimeBody at hs
        split at hs
        · split at hs
          · next hc => cases hs; exact hc.2
          · cases hs
        · cases hs
      · cases heq
  · cases h

theorem okToDelete_none (fs : FS) (cwd : CPath) (o : EmptyOpts) (i : Bytes) (h : o.days = none) :
    okToDelete fs cwd o i = .delete := by
  unfold okToDelete; rw [h]

theorem okToDelete_some (fs : FS) (cwd : CPath) (o : EmptyOpts) (i : Bytes) (days : Nat) (h : o.days = some days) :
    (okToDelete fs cwd o i = .delete ↔ ∃ text d, contentsOf fs cwd i = some text ∧ parseDeletionDate text = some d ∧
        olderThan days o.now o.nowUs d = .yes) ∧
    (okToDelete fs cwd o i = .keep ↔ contentsOf fs cwd i = none ∨
        (∃ text, contentsOf fs cwd i = some text ∧ parseDeletionDate text = none) ∨
        ∃ text d, contentsOf fs cwd i = some text ∧ parseDeletionDate text = some d ∧ olderThan days o.now o.nowUs d = .no) ∧
    (∀ c, okToDelete fs cwd o i = .crash c ↔ c = .overflow ∧ ∃ text d, contentsOf fs cwd i = some text ∧
        parseDeletionDate text = some d ∧ olderThan days o.now o.nowUs d = .overflow) := by
  unfold okToDelete
  rw [h]
  simp only []
  cases hc : contentsOf fs cwd i with
  | none => simp
  | some text =>
    simp only []
    cases hd : parseDeletionDate text with
    | none => simp [hd]
    | some d =>
      simp only []
      cases ho : olderThan days o.now o.nowUs d <;> simp [ho, hd]
      exact fun c => ⟨fun e => e.symm, fun e => e.symm⟩

/-! ### the statements of Props/C10Loop.lean -/

theorem empty_selects_exactly (fs : FS) (cwd : CPath) (t : Bytes) (I F : CPath) (names : List Bytes) (o : EmptyOpts)
    (S : Setting fs cwd t I F names) (hdry : o.dryRun = false)
    (hnc : ∀ n ∈ names, ∀ c, okToDelete fs cwd o (infoStr t n) ≠ .crash c) :
    (run noFaults (emptyInfos cwd o (infoStrs t names)) { fs := fs }).1 = none ∧
    (∀ n ∈ names, okToDelete fs cwd o (infoStr t n) = .delete →
      (∀ rel, (run noFaults (emptyInfos cwd o (infoStrs t names)) { fs := fs }).2.fs.get (I ++ [n] ++ rel) = none) ∧
      (∀ rel, (run noFaults (emptyInfos cwd o (infoStrs t names)) { fs := fs }).2.fs.get (F ++ [stemOf n] ++ rel) = none)) ∧
    (∀ n ∈ names, okToDelete fs cwd o (infoStr t n) = .keep →
      (∀ rel, (run noFaults (emptyInfos cwd o (infoStrs t names)) { fs := fs }).2.fs.get (I ++ [n] ++ rel) =
        fs.get (I ++ [n] ++ rel)) ∧
      (∀ rel, (run noFaults (emptyInfos cwd o (infoStrs t names)) { fs := fs }).2.fs.get (F ++ [stemOf n] ++ rel) =
        fs.get (F ++ [stemOf n] ++ rel))) ∧
    PurgedExactly fs (run noFaults (emptyInfos cwd o (infoStrs t names)) { fs := fs }).2.fs I F
      (emptySelected fs cwd o t names) := by
  obtain ⟨a, P⟩ := emptyInfos_loop o hdry cwd t I F names { fs := fs } S hnc
  refine ⟨a, fun n hn hd => ?_, fun n hn hk => ?_, P⟩
  · have hm : n ∈ emptySelected fs cwd o t names := List.mem_filter.2 ⟨hn, by simp [hd]⟩
    exact ⟨P.infoGone n hm, P.payloadGone n hm⟩
  · refine purged_other (setting_geo S) P (fun d hd => S.isInfo d (List.mem_filter.1 hd).1) (S.isInfo n hn) fun hm => ?_
    have := (List.mem_filter.1 hm).2
    simp [hk] at this

theorem empty_stops_at_overflow (fs : FS) (cwd : CPath) (t : Bytes) (I F : CPath) (pre post : List Bytes) (n : Bytes)
    (c : Crash) (o : EmptyOpts) (S : Setting fs cwd t I F (pre ++ n :: post)) (hdry : o.dryRun = false)
    (hpre : ∀ m ∈ pre, ∀ c', okToDelete fs cwd o (infoStr t m) ≠ .crash c')
    (hn : okToDelete fs cwd o (infoStr t n) = .crash c) :
    (run noFaults (emptyInfos cwd o (infoStrs t (pre ++ n :: post))) { fs := fs }).1 = some c ∧
    PurgedExactly fs (run noFaults (emptyInfos cwd o (infoStrs t (pre ++ n :: post))) { fs := fs }).2.fs I F
      (emptySelected fs cwd o t pre) :=
  emptyInfos_crash o hdry cwd t I F pre post n c { fs := fs } S hpre hn

theorem empty_dry_run_changes_nothing (φ : Oracle) (cwd : CPath) (o : EmptyOpts) (infos : List Bytes) (s : RunState)
    (h : o.dryRun = true) :
    (run φ (emptyInfos cwd o infos) s).2.trace = s.trace ∧ (run φ (emptyInfos cwd o infos) s).2.fs = s.fs :=
  Proofs.C14.NC.sound φ _ s (Proofs.C14.nc_emptyInfos o h cwd infos)

theorem rm_selects_exactly (fs : FS) (cwd : CPath) (t : Bytes) (I F : CPath) (names : List Bytes)
    (pattern volume : Bytes) (S : Setting fs cwd t I F names) (hp : pattern ≠ []) :
    (run noFaults (rmInfos cwd pattern volume (infoStrs t names)) { fs := fs }).1 = none ∧
    (∀ n ∈ names, rmSelects fs cwd pattern volume (infoStr t n) = true →
      (∀ rel, (run noFaults (rmInfos cwd pattern volume (infoStrs t names)) { fs := fs }).2.fs.get (I ++ [n] ++ rel) = none) ∧
      (∀ rel, (run noFaults (rmInfos cwd pattern volume (infoStrs t names)) { fs := fs }).2.fs.get (F ++ [stemOf n] ++ rel) = none)) ∧
    (∀ n ∈ names, rmSelects fs cwd pattern volume (infoStr t n) = false →
      (∀ rel, (run noFaults (rmInfos cwd pattern volume (infoStrs t names)) { fs := fs }).2.fs.get (I ++ [n] ++ rel) =
        fs.get (I ++ [n] ++ rel)) ∧
      (∀ rel, (run noFaults (rmInfos cwd pattern volume (infoStrs t names)) { fs := fs }).2.fs.get (F ++ [stemOf n] ++ rel) =
        fs.get (F ++ [stemOf n] ++ rel))) ∧
    PurgedExactly fs (run noFaults (rmInfos cwd pattern volume (infoStrs t names)) { fs := fs }).2.fs I F
      (rmSelected fs cwd pattern volume t names) ∧
    (run noFaults (rmInfos cwd pattern volume (infoStrs t names)) { fs := fs }).2.outs =
      (((infoStrs t names).filter (rmUnparsable fs cwd)).map (Out.stderr "unparsable")).reverse := by
  obtain ⟨a, P, c⟩ := rmInfos_loop pattern volume hp cwd t I F names { fs := fs } S
  refine ⟨a, fun n hn hd => ?_, fun n hn hk => ?_, P, by rw [c]; exact List.append_nil _⟩
  · have hm : n ∈ rmSelected fs cwd pattern volume t names := List.mem_filter.2 ⟨hn, hd⟩
    exact ⟨P.infoGone n hm, P.payloadGone n hm⟩
  · refine purged_other (setting_geo S) P (fun d hd => S.isInfo d (List.mem_filter.1 hd).1) (S.isInfo n hn) fun hm => ?_
    have := (List.mem_filter.1 hm).2
    rw [hk] at this; cases this

/-- outside the trash directory nothing changes -/
theorem purged_outside {I F : CPath} {D : List Bytes} {fs fs' : FS} (P : PurgedExactly fs fs' I F D) (q : CPath)
    (hq : Outside I F q) : fs'.get q = fs.get q := by
  obtain ⟨h1, h2, h3, h4⟩ := hq
  refine P.frame q (fun e => h1 (by rw [e, under_iff]; exact List.prefix_rfl))
    (fun e => h2 (by rw [e, under_iff]; exact List.prefix_rfl)) fun n _ => ⟨fun h => ?_, fun h => ?_⟩
  · exact h3 ((under_iff _ _).2 ((List.prefix_append I [n]).trans ((under_iff _ _).1 h)))
  · exact h4 ((under_iff _ _).2 ((List.prefix_append F [stemOf n]).trans ((under_iff _ _).1 h)))

theorem empty_decision_is_spec (fs : FS) (cwd : CPath) (o : EmptyOpts) (i : Bytes) :
    (o.days = none → okToDelete fs cwd o i = .delete) ∧
    (∀ days, o.days = some days → o.now.valid = true → o.nowUs < 1000000 →
      (okToDelete fs cwd o i = .delete ↔
        ∃ text d, contentsOf fs cwd i = some text ∧ parseDeletionDate text = some d ∧
          C10.shouldPurge days o.now o.nowUs d = true) ∧
      (∀ c, okToDelete fs cwd o i = .crash c ↔
        c = .overflow ∧ (∃ text d, contentsOf fs cwd i = some text ∧ parseDeletionDate text = some d) ∧
          C10.minusDays days o.now = none) ∧
      (C10.minusDays days o.now ≠ none →
        (okToDelete fs cwd o i = .keep ↔ ¬ ∃ text d, contentsOf fs cwd i = some text ∧
          parseDeletionDate text = some d ∧ C10.shouldPurge days o.now o.nowUs d = true))) := by
  refine ⟨okToDelete_none fs cwd o i, fun days hd hv hus => ?_⟩
  obtain ⟨h1, h2, h3⟩ := okToDelete_some fs cwd o i days hd
  have spec : ∀ {text d}, parseDeletionDate text = some d →
      (olderThan days o.now o.nowUs d = .yes ↔ C10.shouldPurge days o.now o.nowUs d = true) ∧
      (olderThan days o.now o.nowUs d = .overflow ↔ C10.minusDays days o.now = none) :=
    fun hp => Proofs.C10.olderThan_spec days o.now o.nowUs _ hv (parsed_date_valid hp) hus
  have hdel : okToDelete fs cwd o i = .delete ↔
      ∃ text d, contentsOf fs cwd i = some text ∧ parseDeletionDate text = some d ∧
        C10.shouldPurge days o.now o.nowUs d = true := by
    rw [h1]
    constructor
    · rintro ⟨text, d, a, b, c⟩; exact ⟨text, d, a, b, (spec b).1.1 c⟩
    · rintro ⟨text, d, a, b, c⟩; exact ⟨text, d, a, b, (spec b).1.2 c⟩
  have hcr : ∀ c, okToDelete fs cwd o i = .crash c ↔
      c = .overflow ∧ (∃ text d, contentsOf fs cwd i = some text ∧ parseDeletionDate text = some d) ∧
        C10.minusDays days o.now = none := by
    intro c
    rw [h3]
    constructor
    · rintro ⟨e, text, d, a, b, c'⟩; exact ⟨e, ⟨text, d, a, b⟩, (spec b).2.1 c'⟩
    · rintro ⟨e, ⟨text, d, a, b⟩, c'⟩; exact ⟨e, text, d, a, b, (spec b).2.2 c'⟩
  refine ⟨hdel, hcr, fun hno => ?_⟩
  rw [← hdel]
  constructor
  · intro hk hdl; rw [hk] at hdl; cases hdl
  · intro hnd
    cases hdc : okToDelete fs cwd o i with
    | delete => exact absurd hdc hnd
    | keep => rfl
    | crash c => exact absurd ((hcr c).1 hdc).2.2 hno

theorem deletion_date_first_line (pre post l : Bytes)
    (hpre : ∀ x ∈ lines pre, Bytes.startsWith x dateKey = false)
    (hl : Bytes.startsWith l dateKey = true) (hnl : (10 : UInt8) ∉ l) :
    parseDeletionDate (pre ++ [10] ++ l ++ [10] ++ post) = strptimeBody (l.drop dateKey.length) := by
  unfold parseDeletionDate
  rw [Proofs.C10.first_date_line_only pre post l hpre hl hnl]
  cases strptimeBody (l.drop dateKey.length) <;> rfl

theorem rm_decision_is_spec (fs : FS) (cwd : CPath) (pattern volume i : Bytes) (hp : pattern ≠ []) :
    (rmSelects fs cwd pattern volume i = true ↔
      ∃ text rel, contentsOf fs cwd i = some text ∧ parsePath text = some rel ∧
        Glob.globMatch (decodeSE pattern)
          (decodeSE (if pattern.head? = some slash then pjoin volume rel else basename (pjoin volume rel))) = true) ∧
    (rmUnparsable fs cwd i = true ↔
      contentsOf fs cwd i = none ∨ ∃ text, contentsOf fs cwd i = some text ∧ parsePath text = none) := by
  unfold rmSelects rmUnparsable
  cases hc : contentsOf fs cwd i with
  | none => simp
  | some text =>
    simp only []
    cases hpp : parsePath text with
    | none => simp [hpp]
    | some rel =>
      simp only []
      rw [Proofs.C12.rm_subject pattern (pjoin volume rel) hp]
      simp [hpp]

/-- no decision crashes when there is no DAYS argument or now − DAYS days is representable -/
theorem empty_no_crash (fs : FS) (cwd : CPath) (o : EmptyOpts)
    (h : o.days = none ∨ ∃ days, o.days = some days ∧ o.now.valid = true ∧ o.nowUs < 1000000 ∧
      C10.minusDays days o.now ≠ none) :
    ∀ i c, okToDelete fs cwd o i ≠ .crash c := by
  intro i c hc
  obtain ⟨h1, h2⟩ := empty_decision_is_spec fs cwd o i
  rcases h with h | ⟨days, hd, hv, hus, hno⟩
  · rw [h1 h] at hc; cases hc
  · exact hno (((h2 days hd hv hus).2.1 c).1 hc).2.2

/-- `rmDirs` on one trash directory is the scan followed by the loop -/
theorem rmDirs_one (φ : Oracle) (cwd : CPath) (pattern t v : Bytes) (s : RunState) (infos : List Bytes)
    (h : infosOf s.fs cwd t = .ok infos) :
    run φ (rmDirs cwd pattern [(t, v)]) s = run φ (rmInfos cwd pattern v infos) s := by
  unfold rmDirs
  rw [run_read_bind, h]
  simp only []
  rw [run_bind]
  generalize run φ (rmInfos cwd pattern v infos) s = r
  obtain ⟨res, s2⟩ := r
  cases res with
  | none => unfold rmDirs; rfl
  | some c => rfl

end TrashVerif.Proofs.C10Loop
