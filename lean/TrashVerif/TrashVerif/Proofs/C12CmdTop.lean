/-
  Proofs/C12CmdTop.lean — from the loop over the trash directories (`Proofs.C12Cmd.rmDirs_loop`) to
  the statements of Props/C12Cmd.lean about the whole command `runRm`.
-/
import TrashVerif.Proofs.C12Cmd
namespace TrashVerif.Proofs.C12Cmd
open TrashVerif Prog FS PutCore PutLemmas C04 C11 C09Hist C10Loop C12Cmd
open TrashVerif.Proofs.C09Hist (GeoI)
open TrashVerif.Proofs.C10Loop

theorem pairwise_mem {ds : List TDir} (h : ds.Pairwise Apart) {d e : TDir} (hd : d ∈ ds) (he : e ∈ ds) :
    d = e ∨ Apart d e := by
  induction ds with
  | nil => cases hd
  | cons x xs ih =>
    obtain ⟨h1, h2⟩ := List.pairwise_cons.1 h
    rcases List.mem_cons.1 hd with hd' | hd' <;> rcases List.mem_cons.1 he with he' | he'
    · exact Or.inl (hd'.trans he'.symm)
    · exact Or.inr (hd' ▸ h1 e he')
    · exact Or.inr (apart_symm (he' ▸ h1 d hd'))
    · exact ih h2 hd' he'

/-- the command is the loop over the scanned directories; exit code 0 when the loop does not crash -/
theorem runRm_run (c : ReadCfg) (pattern : Bytes) (more : List Bytes) (fs : FS) (dirs : List (Bytes × Bytes))
    (hscan : foundDirs (scanTrashDirs fs c) = dirs)
    (hnone : (run noFaults (rmDirs c.cwd pattern dirs) { fs := fs }).1 = none) :
    run noFaults (runRm c (pattern :: more)) { fs := fs } =
      ({ exit := 0 }, (run noFaults (rmDirs c.cwd pattern dirs) { fs := fs }).2) := by
  unfold runRm
  simp only []
  rw [run_read_bind]
  simp only []
  rw [hscan, run_bind, hnone]
  rfl

/-- every entry that is not selected — listed or not — is intact -/
theorem intact_of_not_selected {fs fs' : FS} {ds : List TDir} {sel : TDir → List Bytes} (cwd : CPath)
    (W : PlainWorld fs ds) (P : PurgedAll fs fs' ds sel)
    (hsel : ∀ d ∈ ds, ∀ n ∈ sel d, isTrashinfoName n = true)
    {d : TDir} (hd : d ∈ ds) {m : Bytes} (hm : isTrashinfoName m = true) (hmD : m ∉ sel d) : Intact fs fs' d m := by
  have g : GeoI d.I d.F := GeoI.of_inv (setting_of_plain cwd W.wf (W.plain d hd)).inv
  have key : ∀ q, EP d.I d.F m q → fs'.get q = fs.get q := by
    intro q hq
    have hT : d.T <+: q := by
      rcases hq with h | h
      · exact ((T_pfx_I d).trans (List.prefix_append _ _)).trans h
      · exact ((T_pfx_F d).trans (List.prefix_append _ _)).trans h
    refine P.frame q fun e he => ?_
    rcases pairwise_mem W.apart hd he with rfl | ha
    · exact ⟨EP.ne_I g hq, EP.ne_F g hq,
        all_of_not_ep fun n hn => EP.disjoint g hm (hsel _ he n hn) (fun e => hmD (e ▸ hn)) hq⟩
    · have hne : ¬ e.T <+: q := apart_off (apart_symm ha) hT
      refine ⟨fun e1 => hne (e1 ▸ T_pfx_I e), fun e1 => hne (e1 ▸ T_pfx_F e), fun n _ => ⟨fun h => ?_, fun h => ?_⟩⟩
      · exact hne (((T_pfx_I e).trans (List.prefix_append _ _)).trans ((under_iff _ _).1 h))
      · exact hne (((T_pfx_F e).trans (List.prefix_append _ _)).trans ((under_iff _ _).1 h))
  exact ⟨fun rel => key _ (EP.info _ _ m rel), fun rel => key _ (EP.payload _ _ m rel)⟩

theorem selected_isInfo {fs : FS} {cwd : CPath} {pattern : Bytes} {ds : List TDir} (W : PlainWorld fs ds) :
    ∀ d ∈ ds, ∀ n ∈ selected fs cwd pattern d, isTrashinfoName n = true :=
  fun d hd n hn => (plainDir_nodup (W.plain d hd)).2 n (List.mem_filter.1 hn).1

theorem mem_selected_iff {fs : FS} {cwd : CPath} {pattern : Bytes} {d : TDir} {n loc : Bytes}
    (hn : n ∈ d.names) (he : EntryAt fs cwd d n loc) :
    n ∈ selected fs cwd pattern d ↔ rmMatches pattern loc = some true := by
  obtain ⟨text, rel, h1, h2, rfl⟩ := he
  unfold selected rmSelected
  rw [List.mem_filter]
  unfold rmSelects
  rw [h1]
  simp only [h2, decide_eq_true_eq]
  exact ⟨fun h => h.2, fun h => ⟨hn, h⟩⟩

theorem not_selected_of_no_entry {fs : FS} {cwd : CPath} {pattern : Bytes} {d : TDir} {n : Bytes}
    (he : ¬ ∃ loc, EntryAt fs cwd d n loc) : n ∉ selected fs cwd pattern d := by
  intro h
  have := (List.mem_filter.1 h).2
  unfold rmSelects at this
  cases h1 : contentsOf fs cwd (infoStr (toStr d.T) n) with
  | none => rw [h1] at this; cases this
  | some text =>
    rw [h1] at this
    cases h2 : parsePath text with
    | none => simp only [h2] at this; cases this
    | some rel => exact he ⟨_, text, rel, h1, h2, rfl⟩

/-- THE SELECTION THEOREM of the command -/
theorem rm_command_selects_exactly (fs : FS) (c : ReadCfg) (pattern : Bytes) (more : List Bytes) (ds : List TDir)
    (hscan : foundDirs (scanTrashDirs fs c) = ds.map TDir.pair) (W : PlainWorld fs ds) (hp : pattern ≠ []) :
    (run noFaults (runRm c (pattern :: more)) { fs := fs }).1.exit = 0 ∧
    (run noFaults (runRm c (pattern :: more)) { fs := fs }).1.crash = none ∧
    (∀ d ∈ ds, ∀ n ∈ d.names, ∀ loc, EntryAt fs c.cwd d n loc →
      (Gone (run noFaults (runRm c (pattern :: more)) { fs := fs }).2.fs d n ↔ rmMatches pattern loc = some true) ∧
      (rmMatches pattern loc ≠ some true → Intact fs (run noFaults (runRm c (pattern :: more)) { fs := fs }).2.fs d n)) ∧
    (∀ d ∈ ds, ∀ n ∈ d.names, (¬ ∃ loc, EntryAt fs c.cwd d n loc) →
      Intact fs (run noFaults (runRm c (pattern :: more)) { fs := fs }).2.fs d n) ∧
    PurgedAll fs (run noFaults (runRm c (pattern :: more)) { fs := fs }).2.fs ds (selected fs c.cwd pattern) ∧
    (∀ q, (∀ d ∈ ds, ¬ FS.under d.I q = true ∧ ¬ FS.under d.F q = true) →
      (run noFaults (runRm c (pattern :: more)) { fs := fs }).2.fs.get q = fs.get q) := by
  obtain ⟨hnone, P⟩ := rmDirs_loop pattern hp c.cwd ds { fs := fs } W (selected fs c.cwd pattern) (fun _ _ => rfl)
  rw [runRm_run c pattern more fs _ hscan hnone]
  have hI := selected_isInfo (cwd := c.cwd) (pattern := pattern) W
  have intact : ∀ d ∈ ds, ∀ n ∈ d.names, n ∉ selected fs c.cwd pattern d →
      Intact fs (run noFaults (rmDirs c.cwd pattern (ds.map TDir.pair)) { fs := fs }).2.fs d n :=
    fun d hd n hn hns => intact_of_not_selected c.cwd W P hI hd ((plainDir_nodup (W.plain d hd)).2 n hn) hns
  refine ⟨rfl, rfl, fun d hd n hn loc he => ⟨⟨fun hg => ?_, fun hm => ?_⟩, fun hm => ?_⟩, fun d hd n hn he => ?_, P, fun q hq => ?_⟩
  · -- gone, hence matched: an unmatched entry is intact, and its info file was there
    refine Classical.byContradiction fun hm => ?_
    have hi := intact d hd n hn (fun h => hm ((mem_selected_iff hn he).1 h))
    obtain ⟨text, rel, h1, _, _⟩ := he
    have hpres := readable_present (setting_of_plain c.cwd W.wf (W.plain d hd)) hn h1
    have h2 := hi.1 []
    rw [hg.1 [], List.append_nil] at h2
    exact hpres h2.symm
  · have hs := (mem_selected_iff hn he).2 hm
    exact ⟨P.infoGone d hd n hs, P.payloadGone d hd n hs⟩
  · exact intact d hd n hn (fun h => hm ((mem_selected_iff hn he).1 h))
  · exact intact d hd n hn (not_selected_of_no_entry he)
  · refine P.frame q fun d hd => ⟨fun e => (hq d hd).1 (e ▸ (under_iff _ _).2 List.prefix_rfl),
      fun e => (hq d hd).2 (e ▸ (under_iff _ _).2 List.prefix_rfl), fun n _ => ⟨fun h => ?_, fun h => ?_⟩⟩
    · exact (hq d hd).1 ((under_iff _ _).2 ((List.prefix_append _ _).trans ((under_iff _ _).1 h)))
    · exact (hq d hd).2 ((under_iff _ _).2 ((List.prefix_append _ _).trans ((under_iff _ _).1 h)))

/-- payload and `.trashinfo` go together: every `*.trashinfo` name of every directory is either gone
    whole or intact whole -/
theorem rm_gone_or_intact (fs : FS) (c : ReadCfg) (pattern : Bytes) (more : List Bytes) (ds : List TDir)
    (hscan : foundDirs (scanTrashDirs fs c) = ds.map TDir.pair) (W : PlainWorld fs ds) (hp : pattern ≠ []) :
    ∀ d ∈ ds, ∀ m, isTrashinfoName m = true →
      Gone (run noFaults (runRm c (pattern :: more)) { fs := fs }).2.fs d m ∨
      Intact fs (run noFaults (runRm c (pattern :: more)) { fs := fs }).2.fs d m := by
  intro d hd m hm
  have P := (rm_command_selects_exactly fs c pattern more ds hscan W hp).2.2.2.2.1
  by_cases h : m ∈ selected fs c.cwd pattern d
  · exact Or.inl ⟨P.infoGone d hd m h, P.payloadGone d hd m h⟩
  · exact Or.inr (intact_of_not_selected c.cwd W P (selected_isInfo W) hd hm h)

theorem rm_pair_together (fs : FS) (c : ReadCfg) (pattern : Bytes) (more : List Bytes) (ds : List TDir)
    (hscan : foundDirs (scanTrashDirs fs c) = ds.map TDir.pair) (W : PlainWorld fs ds) (hp : pattern ≠ [])
    (d : TDir) (hd : d ∈ ds) (m : Bytes) (hm : isTrashinfoName m = true)
    (hinfo : fs.get (d.I ++ [m]) ≠ none) (hpay : fs.get (d.F ++ [stemOf m]) ≠ none) :
    ((run noFaults (runRm c (pattern :: more)) { fs := fs }).2.fs.get (d.I ++ [m]) = none ↔
     (run noFaults (runRm c (pattern :: more)) { fs := fs }).2.fs.get (d.F ++ [stemOf m]) = none) := by
  rcases rm_gone_or_intact fs c pattern more ds hscan W hp d hd m hm with h | h
  · have h1 := h.1 []; have h2 := h.2 []
    rw [List.append_nil] at h1 h2
    exact ⟨fun _ => h2, fun _ => h1⟩
  · have h1 := h.1 []; have h2 := h.2 []
    rw [List.append_nil] at h1 h2
    exact ⟨fun e => absurd (h1 ▸ e) hinfo, fun e => absurd (h2 ▸ e) hpay⟩

/-- only the first argument is looked at -/
theorem rm_only_first_pattern (c : ReadCfg) (pattern : Bytes) (more : List Bytes) :
    runRm c (pattern :: more) = runRm c [pattern] := rfl

theorem rm_no_argument (φ : Oracle) (c : ReadCfg) (s : RunState) :
    (run φ (runRm c []) s).1.exit = 8 ∧ (run φ (runRm c []) s).2.fs = s.fs ∧ (run φ (runRm c []) s).2.trace = s.trace :=
  ⟨rfl, rfl, rfl⟩

end TrashVerif.Proofs.C12Cmd
