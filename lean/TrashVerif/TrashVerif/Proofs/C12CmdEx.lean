/-
  Proofs/C12CmdEx.lean — non-vacuity of Props/C12Cmd.lean: a world with the home trash and a volume
  trash directory (relative `Path=` values), four entries, `trash-rm 'foo*'` matching one entry in
  each; the hypotheses checked and the run evaluated by the kernel.
-/
import TrashVerif.Proofs.C12CmdTop
import TrashVerif.Proofs.C10LoopEx
import TrashVerif.Proofs.C11CmdEx
namespace TrashVerif.Proofs.C12CmdEx
open TrashVerif Prog FS PutCore C09Hist C10Loop C12Cmd
open TrashVerif.Proofs.C16Eval TrashVerif.Proofs.C02CmdEval TrashVerif.Proofs.C08CmdEval
open TrashVerif.Proofs.C10LoopEx (settingCheck hyps_of_check)
open TrashVerif.Proofs.C08CmdEx (dN TH TA infoOf rc)
open TrashVerif.Proofs.C11CmdEval (rmT rm_twin)
open TrashVerif.Proofs.C12Cmd

/-! World `WR`: two volumes, `/` and the mount point `/m`; HOME=/h, uid 1000, cwd `/`.
    Home trash `/h/.local/share/Trash`: `foo.txt` (Path=/q/docs/foo.txt), `bar` (a directory holding `x`;
    Path=/q/bar).  Volume trash `/m/.Trash-1000`: `foo.c` (Path=src/foo.c — relative: `/m/src/foo.c`),
    `Foo` (Path=src/Foo).  Outside: `/q/foo.txt` (a file whose name matches), `/m/keep`. -/

def HF : CPath := TH ++ [b "files"]
def HI : CPath := TH ++ [b "info"]
def AF : CPath := TA ++ [b "files"]
def AI : CPath := TA ++ [b "info"]

def nodesR : List (CPath × Node) :=
  [([], dN), ([b "h"], dN), ([b "h", b ".local"], dN), ([b "h", b ".local", b "share"], dN), (TH, dN),
   (HF, dN), (HI, dN),
   (HI ++ [b "foo.txt.trashinfo"], .file (infoOf (b "/q/docs/foo.txt")) 0o600 3), (HF ++ [b "foo.txt"], .file [1] 0o644 3),
   (HI ++ [b "bar.trashinfo"], .file (infoOf (b "/q/bar")) 0o600 3), (HF ++ [b "bar"], dN),
   (HF ++ [b "bar", b "x"], .file [2] 0o644 3),
   ([b "q"], dN), ([b "q", b "foo.txt"], .file [9] 0o644 5),
   ([b "m"], dN), ([b "m", b "keep"], .file [75] 0o644 0), (TA, .dir 0o700 0),
   (AF, dN), (AI, dN),
   (AI ++ [b "foo.c.trashinfo"], .file (infoOf (b "src/foo.c")) 0o600 3), (AF ++ [b "foo.c"], .file [3] 0o644 3),
   (AI ++ [b "Foo.trashinfo"], .file (infoOf (b "src/Foo")) 0o600 3), (AF ++ [b "Foo"], .file [4] 0o644 3)]

def WR : FS := FS.ofList nodesR [[], [b "m"]]

/-- the home trash: absolute `Path=` values; the scan pairs it with the volume `/` -/
def dH : TDir := { T := TH, v := [slash], names := [b "bar.trashinfo", b "foo.txt.trashinfo"] }
/-- the volume trash directory of `/m`: relative `Path=` values, joined to `/m` -/
def dA : TDir := { T := TA, v := b "/m", names := [b "Foo.trashinfo", b "foo.c.trashinfo"] }

theorem WR_wf : DomWf WR := Proofs.C09Hist.domwf_ofList _ _

theorem WR_scan : foundDirs (scanTrashDirs WR rc) = [dH, dA].map TDir.pair := by
  rw [scanTrashDirs_eq]; decide +kernel

theorem plainDir_of_check {fs : FS} {d : TDir} (hw : DomWf fs) (h : settingCheck fs d.T d.names false false = true)
    (hl : d.names = (infoNames fs d.I).filter isTrashinfoName) : PlainDir fs d := by
  obtain ⟨⟨h0, hg, hI, hF, _, _, _, hgd, hit⟩, hnl, hp, _⟩ := hyps_of_check hw h
  exact ⟨h0, hg, hI, hF, hl, hgd, hnl rfl, hit, hp rfl⟩

theorem WR_dH : PlainDir WR dH :=
  plainDir_of_check WR_wf (by decide +kernel) (by unfold infoNames; rw [sortedChildren_eq]; decide +kernel)

theorem WR_dA : PlainDir WR dA :=
  plainDir_of_check WR_wf (by decide +kernel) (by unfold infoNames; rw [sortedChildren_eq]; decide +kernel)

theorem WR_apart : [dH, dA].Pairwise Apart := by
  refine List.pairwise_cons.2 ⟨fun e he => ?_, List.pairwise_cons.2 ⟨fun _ h => (nomatch h), List.Pairwise.nil⟩⟩
  have e1 : e = dA := List.mem_singleton.1 he
  subst e1
  refine ⟨fun h => ?_, fun h => ?_⟩
  · have := (PutLemmas.under_iff _ _).2 h; revert this; decide +kernel
  · have := (PutLemmas.under_iff _ _).2 h; revert this; decide +kernel

theorem WR_world : PlainWorld WR [dH, dA] :=
  ⟨WR_wf, fun d hd => by
    rcases List.mem_cons.1 hd with e | hd
    · rw [e]; exact WR_dH
    · rw [List.mem_singleton.1 hd]; exact WR_dA, WR_apart⟩

/-- the four entries and their original locations: the volume entries' relative Paths are joined to `/m` -/
theorem WR_entries :
    EntryAt WR rc.cwd dH (b "foo.txt.trashinfo") (b "/q/docs/foo.txt") ∧ EntryAt WR rc.cwd dH (b "bar.trashinfo") (b "/q/bar") ∧
    EntryAt WR rc.cwd dA (b "foo.c.trashinfo") (b "/m/src/foo.c") ∧ EntryAt WR rc.cwd dA (b "Foo.trashinfo") (b "/m/src/Foo") := by
  refine ⟨⟨infoOf (b "/q/docs/foo.txt"), b "/q/docs/foo.txt", ?_, ?_, ?_⟩, ⟨infoOf (b "/q/bar"), b "/q/bar", ?_, ?_, ?_⟩,
    ⟨infoOf (b "src/foo.c"), b "src/foo.c", ?_, ?_, ?_⟩, ⟨infoOf (b "src/Foo"), b "src/Foo", ?_, ?_, ?_⟩⟩ <;>
  first
  | (rw [contentsOf_eq]; decide +kernel)
  | decide +kernel

/-- the verdicts of `foo*`: one entry of each directory -/
theorem WR_verdicts :
    rmMatches (b "foo*") (b "/q/docs/foo.txt") = some true ∧ rmMatches (b "foo*") (b "/q/bar") = some false ∧
    rmMatches (b "foo*") (b "/m/src/foo.c") = some true ∧ rmMatches (b "foo*") (b "/m/src/Foo") = some false := by
  decide +kernel

theorem WR_selected : selected WR rc.cwd (b "foo*") dH = [b "foo.txt.trashinfo"] ∧
    selected WR rc.cwd (b "foo*") dA = [b "foo.c.trashinfo"] := by
  unfold selected rmSelected rmSelects; simp only [contentsOf_eq]; decide +kernel

/-- the run evaluated: exit 0; the two matching pairs are gone; everything else is exactly as it
    was (the four directories `info/`, `files/` have the fresh mtime 0 they already had) -/
theorem WR_run :
    (rmT rc [b "foo*"] WR).1.exit = 0 ∧
    (rmT rc [b "foo*"] WR).2.fs.toList = nodesR.filter (fun pn =>
      pn.1 ∉ [HI ++ [b "foo.txt.trashinfo"], HF ++ [b "foo.txt"], AI ++ [b "foo.c.trashinfo"], AF ++ [b "foo.c"]]) := by
  decide +kernel

/-- the empty pattern (the hypothesis `pattern ≠ []`): `self.pattern[0]` raises IndexError at the first
    parsable entry — exit 1, nothing removed -/
theorem WR_empty_pattern :
    (rmT rc [[]] WR).1.exit = 1 ∧ (rmT rc [[]] WR).1.crash = some .indexError ∧ (rmT rc [[]] WR).2.fs.toList = nodesR := by
  decide +kernel

/-- a second pattern is not looked at: `trash-rm 'foo*' bar` leaves `bar` alone -/
theorem WR_two_patterns :
    (rmT rc [b "foo*", b "bar"] WR).2.fs.get (HI ++ [b "bar.trashinfo"]) = WR.get (HI ++ [b "bar.trashinfo"]) ∧
    (WR.get (HI ++ [b "bar.trashinfo"])).isSome = true ∧
    (rmT rc [b "foo*", b "bar"] WR).2.fs.get (HI ++ [b "foo.txt.trashinfo"]) = none := by
  decide +kernel

end TrashVerif.Proofs.C12CmdEx
