/-
  Proofs/C05CmdCore.lean — generic lemmas for the command-level crash theorems of C05:
  the crash states of a fault-free run are the states its list of system calls goes through
  (`crashStates_replay`); closed forms of the successful calls; frames of the calls of a first use.
-/
import TrashVerif.Props.C05CmdDefs
import TrashVerif.Proofs.C07CmdCore
namespace TrashVerif.Proofs.C05CmdCore
open TrashVerif Prog FS PutCore PutLemmas C07Cmd C05Cmd
open TrashVerif.Proofs.C07CmdCore

/-! ### replaying a trace (newest first, as `RunState.trace` is) -/

/-- the state after the calls `cs` (newest first) -/
def after (fs0 : FS) : List Call → FS
  | [] => fs0
  | c :: older => stepFS (after fs0 older) c

/-- the states before each of the calls `cs` (newest first) -/
def histOf (fs0 : FS) : List Call → List FS
  | [] => []
  | _ :: older => after fs0 older :: histOf fs0 older

/-- the recorded results are those of the calls -/
def Consistent (fs0 : FS) : List (Call × Res) → Prop
  | [] => True
  | (c, r) :: older => Consistent fs0 older ∧
      (match c.apply (after fs0 (older.map (·.1))) with
       | .ok _ => r = .ok ()
       | .error e => r = .error e)

structure Replayed (fs0 : FS) (s : RunState) : Prop where
  fs : s.fs = after fs0 (s.trace.map (·.1))
  hist : s.hist = histOf fs0 (s.trace.map (·.1))
  cons : Consistent fs0 s.trace

theorem replayed_run {α} (fs0 : FS) (p : Prog α) : ∀ s, Replayed fs0 s → Replayed fs0 (run noFaults p s).2 := by
  induction p with
  | ret a => intro s h; exact h
  | get k ih => intro s h; simp only [run]; exact ih _ _ h
  | emit o k ih => intro s h; simp only [run]; exact ih _ ⟨h.fs, h.hist, h.cons⟩
  | call c k ih =>
    intro s h
    simp only [run, noFaults]
    cases hc : c.apply s.fs with
    | ok fs' =>
      refine ih _ _ ⟨?_, ?_, ?_⟩
      · show fs' = stepFS (after fs0 (s.trace.map (·.1))) c
        rw [← h.fs]; unfold stepFS; rw [hc]
      · show s.fs :: s.hist = after fs0 (s.trace.map (·.1)) :: histOf fs0 (s.trace.map (·.1))
        rw [← h.fs, ← h.hist]
      · refine ⟨h.cons, ?_⟩
        rw [← h.fs, hc]
    | error e =>
      refine ih _ _ ⟨?_, ?_, ?_⟩
      · show s.fs = stepFS (after fs0 (s.trace.map (·.1))) c
        rw [← h.fs]; unfold stepFS; rw [hc]
      · show s.fs :: s.hist = after fs0 (s.trace.map (·.1)) :: histOf fs0 (s.trace.map (·.1))
        rw [← h.fs, ← h.hist]
      · refine ⟨h.cons, ?_⟩
        rw [← h.fs, hc]

theorem replayed_init (fs : FS) : Replayed fs { fs := fs } := ⟨rfl, rfl, trivial⟩

/-! ### from newest-first to oldest-first -/

theorem statesAlong_snoc (cs : List Call) (c : Call) : ∀ fs,
    statesAlong fs (cs ++ [c]) = statesAlong fs cs ++ [stepFS (cs.foldl stepFS fs) c] := by
  induction cs with
  | nil => intro fs; rfl
  | cons d cs ih =>
    intro fs
    show fs :: statesAlong (stepFS fs d) (cs ++ [c]) = _
    rw [ih]
    rfl

theorem replay_rev (fs0 : FS) (cs : List Call) :
    (after fs0 cs :: histOf fs0 cs).reverse = statesAlong fs0 cs.reverse ∧
    cs.reverse.foldl stepFS fs0 = after fs0 cs := by
  induction cs with
  | nil => exact ⟨rfl, rfl⟩
  | cons c older ih =>
    obtain ⟨h1, h2⟩ := ih
    constructor
    · rw [List.reverse_cons (a := c), statesAlong_snoc, h2, ← h1]
      show (stepFS (after fs0 older) c :: after fs0 older :: histOf fs0 older).reverse = _
      rw [List.reverse_cons]
    · rw [List.reverse_cons, List.foldl_append, h2]
      rfl

/-- The crash states of a fault-free run are the states its system calls go through. -/
theorem crashStates_replay {α} (p : Prog α) (fs : FS) :
    crashStates noFaults p fs = statesAlong fs (callsOf (run noFaults p { fs := fs }).2.trace) := by
  have h := replayed_run fs p _ (replayed_init fs)
  unfold crashStates callsOf
  show ((run noFaults p { fs := fs }).2.fs :: (run noFaults p { fs := fs }).2.hist).reverse = _
  rw [h.fs, h.hist]
  exact (replay_rev fs _).1

/-- the initial state is the first of them -/
theorem init_mem_crashStates {α} (p : Prog α) (fs : FS) : fs ∈ crashStates noFaults p fs := by
  rw [crashStates_replay]
  cases callsOf (run noFaults p { fs := fs }).2.trace <;> simp [statesAlong]

/-- the final state is the last of them -/
theorem final_replay {α} (p : Prog α) (fs : FS) :
    (run noFaults p { fs := fs }).2.fs = after fs ((run noFaults p { fs := fs }).2.trace.map (·.1)) :=
  (replayed_run fs p _ (replayed_init fs)).fs

theorem consistent_run {α} (p : Prog α) (fs : FS) : Consistent fs (run noFaults p { fs := fs }).2.trace :=
  (replayed_run fs p _ (replayed_init fs)).cons

/-- a recorded success is a success -/
theorem consistent_ok {fs0 : FS} {c : Call} {older : List (Call × Res)} (h : Consistent fs0 ((c, .ok ()) :: older)) :
    Consistent fs0 older ∧ ∃ fs', c.apply (after fs0 (older.map (·.1))) = .ok fs' ∧
      after fs0 (c :: older.map (·.1)) = fs' := by
  refine ⟨h.1, ?_⟩
  have h2 := h.2
  cases hc : c.apply (after fs0 (older.map (·.1))) with
  | ok fs' => exact ⟨fs', rfl, by show stepFS _ c = fs'; unfold stepFS; rw [hc]⟩
  | error e => rw [hc] at h2; cases h2

/-! ### closed forms of successful calls -/

theorem mkdir_ok_eq {fs fs' : FS} {p : CPath} {mode : Nat} (h : fs.mkdir p mode = .ok fs') : fs' = mk1 fs p mode := by
  unfold FS.mkdir at h
  cases hc : checkParent fs p with
  | error e => rw [hc] at h; cases h
  | ok u =>
    rw [hc] at h
    by_cases he : exists_ fs p = true
    · simp [Bind.bind, Except.bind, he] at h
    · simp only [Bind.bind, Except.bind, he] at h
      cases h; rfl

theorem createExcl_ok_eq {fs fs' : FS} {p : CPath} (h : fs.createExcl p 0o600 = .ok fs') : fs' = fsA fs p := by
  unfold FS.createExcl at h
  cases hc : checkParent fs p with
  | error e => rw [hc] at h; cases h
  | ok u =>
    rw [hc] at h
    by_cases he : exists_ fs p = true
    · simp [Bind.bind, Except.bind, he] at h
    · simp only [Bind.bind, Except.bind, he, applyUmask_600] at h
      cases h; rfl

theorem rename_ok_eq {fs fs' : FS} {a c : CPath} (hne : a ≠ c) (h : fs.rename a c = .ok fs') :
    fs' = touchDir (touchDir (moveTree fs a c) (parent a)) (parent c) := by
  unfold FS.rename at h
  cases ha : fs.get a with
  | none => rw [ha] at h; cases h
  | some na =>
    rw [ha] at h
    simp only at h
    split at h
    · cases h
    · split at h
      · cases h
      · cases hc : checkParent fs c with
        | error e => rw [hc] at h; cases h
        | ok u =>
          rw [hc] at h
          simp only [Bind.bind, Except.bind] at h
          split at h
          · cases h
          · cases hg : fs.get c with
            | none => rw [hg] at h; cases h; rfl
            | some nc =>
              rw [hg] at h
              simp only at h
              split at h
              · cases h
              · split at h
                · cases h
                · split at h
                  · cases h
                  · split at h
                    · cases h
                    · cases h; rfl

/-! ### the chain of `mkdir`s, at the level of states -/

theorem made_base (fs : FS) (Q : CPath) (x : Name) (mode : Nat) : Made fs (mk1 fs (Q ++ [x]) mode) Q x [] mode := by
  refine ⟨mk1_mounts _ _ _, ?_, (fun k hk => absurd hk (Nat.not_lt_zero _)), ?_, ?_⟩
  · rw [mk1_get, if_neg (len_ne (by simp)), if_pos rfl]
  · rw [mk1_get, if_pos rfl]
  · intro q h1 h2
    have n1 : q ≠ Q ++ [x] := fun e => h2 (by rw [e]; exact ⟨List.prefix_rfl, List.prefix_rfl⟩)
    rw [mk1_get, if_neg n1, if_neg h1]

theorem made_snoc {fs s1 : FS} {Q : CPath} {x : Name} {R' : CPath} (y : Name) (mode : Nat)
    (hM : Made fs s1 Q x R' 0o777) : Made fs (mk1 s1 ((Q ++ x :: R') ++ [y]) mode) Q x (R' ++ [y]) mode := by
  have ec : Q ++ x :: (R' ++ [y]) = (Q ++ x :: R') ++ [y] := by simp
  have hleaf : s1.get (Q ++ x :: R') = some (.dir 0o755 0) := by rw [hM.leaf, applyUmask_777]
  refine ⟨?_, ?_, ?_, ?_, ?_⟩
  · rw [mk1_mounts]; exact hM.mounts
  · rw [mk1_get, if_neg (len_ne (by simp <;> omega)), if_neg (len_ne (by simp <;> omega))]
    exact hM.base
  · intro j hj
    have hj' : j ≤ R'.length := by simp at hj; omega
    rw [List.take_append_of_le_length hj', mk1_get,
      if_neg (len_ne (by simp [List.length_take] <;> omega))]
    by_cases hjl : j = R'.length
    · subst hjl
      rw [List.take_length, if_pos rfl, hleaf]; rfl
    · rw [if_neg (len_ne (by simp [List.length_take] <;> omega))]
      exact hM.anc j (by omega)
  · rw [ec, mk1_get, if_pos rfl]
  · intro q h1 h2
    have hpre : Q ++ [x] <+: Q ++ x :: R' := by rw [cons_eq_snoc Q x R']; exact List.prefix_append _ _
    rw [ec] at h2
    have n1 : q ≠ (Q ++ x :: R') ++ [y] :=
      fun e => h2 (by rw [e]; exact ⟨hpre.trans (List.prefix_append _ _), List.prefix_rfl⟩)
    have n2 : q ≠ Q ++ x :: R' := fun e => h2 (by rw [e]; exact ⟨hpre, List.prefix_append _ _⟩)
    rw [mk1_get, if_neg n1, if_neg n2]
    exact hM.frame q h1 (fun h => h2 ⟨h.1, h.2.trans (List.prefix_append _ _)⟩)

/-- the state after the successful `mkdir`s of the chain `Q/x, …, Q ++ x :: R` is `Made` -/
theorem made_chain (fs : FS) (Q : CPath) (x : Name) (k : Nat) : ∀ (R : CPath), R.length = k → ∀ (mode : Nat),
    Consistent fs ((Call.mkdir (Q ++ x :: R) mode, Except.ok ()) :: ancestorCalls Q x R) →
    Made fs (after fs (Call.mkdir (Q ++ x :: R) mode :: (ancestorCalls Q x R).map (·.1))) Q x R mode := by
  induction k with
  | zero =>
    intro R hR mode hc
    obtain rfl := List.length_eq_zero_iff.1 hR
    obtain ⟨_, fs', hok, haft⟩ := consistent_ok hc
    rw [haft]
    rw [ancestorCalls_nil] at hok
    have : fs' = mk1 fs (Q ++ [x]) mode := mkdir_ok_eq hok
    rw [this]; exact made_base fs Q x mode
  | succ k ih =>
    intro R hR mode hc
    have hR0 : R ≠ [] := by intro e; rw [e] at hR; cases hR
    obtain ⟨R', y, rfl⟩ := C07.exists_snoc hR0
    have hl : R'.length = k := by simpa using hR
    have ec : Q ++ x :: (R' ++ [y]) = (Q ++ x :: R') ++ [y] := by simp
    obtain ⟨hc', fs', hok, haft⟩ := consistent_ok hc
    rw [haft]
    rw [ancestorCalls_snoc] at hc' hok
    have hM := ih R' hl 0o777 hc'
    have e2 : List.map (fun x => x.1) ((Call.mkdir (Q ++ x :: R') 0o777, (Except.ok () : Res)) :: ancestorCalls Q x R') =
        Call.mkdir (Q ++ x :: R') 0o777 :: (ancestorCalls Q x R').map (·.1) := rfl
    rw [e2] at hok
    have : fs' = mk1 (after fs (Call.mkdir (Q ++ x :: R') 0o777 :: (ancestorCalls Q x R').map (·.1))) (Q ++ x :: (R' ++ [y])) mode :=
      mkdir_ok_eq hok
    rw [this, ec]
    exact made_snoc y mode hM

/-! ### `SiteCreated` and `Trashed` only look at `get` and `mounts` -/

theorem siteCreated_get_unique {fs a c : FS} {Q : CPath} {x : Name} {R : CPath}
    (A : SiteCreated fs a Q x R) (C : SiteCreated fs c Q x R) : ∀ q, a.get q = c.get q := by
  intro q
  by_cases h1 : q = Q
  · subst h1
    obtain ⟨m, t, h, ha⟩ := A.base
    obtain ⟨m', t', h', hc⟩ := C.base
    rw [h] at h'; cases h'
    rw [ha, hc]
  · by_cases h2 : Q ++ [x] <+: q ∧ q <+: Q ++ x :: R
    · obtain ⟨j, hj, rfl⟩ := chain_cases h2.1 h2.2
      by_cases hjl : j = R.length
      · subst hjl; rw [List.take_length, A.trashDir, C.trashDir]
      · rw [A.ancestors j (by omega), C.ancestors j (by omega)]
    · by_cases h3 : q = filesOf (Q ++ x :: R)
      · subst h3; rw [A.filesDir, C.filesDir]
      · by_cases h4 : q = infoOf (Q ++ x :: R)
        · subst h4; rw [A.infoDir, C.infoDir]
        · rw [A.frame q h1 h2 h3 h4, C.frame q h1 h2 h3 h4]

theorem trashed_congr {a c fs' : FS} {I F S : CPath} {name content : Bytes} (h : ∀ q, a.get q = c.get q)
    (T : Trashed a fs' I F S name content) : Trashed c fs' I F S name content := by
  obtain ⟨t1, t2, t3, t4, t5, t6, t7, t8, t9⟩ := T
  refine ⟨by rw [← h]; exact t1, by rw [← h]; exact t2, fun rel => by rw [← h]; exact t3 rel, t4, t5,
    fun q a1 a2 a3 a4 a5 a6 => by rw [← h]; exact t6 q a1 a2 a3 a4 a5 a6, ?_, ?_, ?_⟩
  · intro m t hq; exact t7 m t (by rw [h]; exact hq)
  · intro m t hq; exact t8 m t (by rw [h]; exact hq)
  · intro m t hq; exact t9 m t (by rw [h]; exact hq)

end TrashVerif.Proofs.C05CmdCore
