/-
  Proofs/C18.lean — proofs of the statements of Props/C18.lean.
-/
import TrashVerif.Proofs.C01
namespace TrashVerif.Proofs.C18
open TrashVerif Prog FS PutCore PutLemmas Bytes
open TrashVerif.Proofs.C01

/-! ### `normpath` never ends with a slash -/

theorem splitOn_no_sep (sep : UInt8) (s : Bytes) : ∀ x ∈ splitOn sep s, sep ∉ x := by
  induction s with
  | nil => intro x hx; simp [splitOn] at hx; subst hx; simp
  | cons c cs ih =>
    intro x hx
    unfold splitOn at hx
    split at hx
    · rcases List.mem_cons.1 hx with h | h
      · subst h; simp
      · exact ih x h
    · next hc =>
      split at hx
      · next h => exact absurd h (splitOn_ne_nil _ _)
      · next p ps h =>
        rw [h] at ih
        rcases List.mem_cons.1 hx with h' | h'
        · subst h'
          intro hm
          rcases List.mem_cons.1 hm with e | e
          · exact hc e.symm
          · exact ih p List.mem_cons_self e
        · exact ih x (List.mem_cons_of_mem _ h')

/-- every component `normComps` returns comes from the accumulator or is a non-empty input component -/
theorem normComps_mem (absolute : Bool) (cs : List Bytes) :
    ∀ acc x, x ∈ normComps absolute acc cs → x ∈ acc ∨ (x ∈ cs ∧ x ≠ []) := by
  induction cs with
  | nil => intro acc x hx; left; simpa [normComps] using hx
  | cons c cs ih =>
    intro acc x hx
    rw [normComps_cons] at hx
    have lift : (x ∈ cs ∧ x ≠ []) → (x ∈ c :: cs ∧ x ≠ []) := fun h => ⟨List.mem_cons_of_mem _ h.1, h.2⟩
    have consCase : ∀ acc0, (∀ y ∈ acc0, y ∈ acc ∨ (y = c ∧ c ≠ [])) → x ∈ normComps absolute acc0 cs →
        x ∈ acc ∨ (x ∈ c :: cs ∧ x ≠ []) := by
      intro acc0 hsub h
      rcases ih acc0 x h with h | h
      · rcases hsub x h with h | ⟨h, hne⟩
        · exact Or.inl h
        · exact Or.inr ⟨h ▸ List.mem_cons_self, h ▸ hne⟩
      · exact Or.inr (lift h)
    split at hx
    · exact consCase acc (fun y hy => Or.inl hy) hx
    · next h1 =>
      have hcne : c ≠ [] := fun e => h1 (Or.inl e)
      have hcons : ∀ y ∈ c :: acc, y ∈ acc ∨ (y = c ∧ c ≠ []) := by
        intro y hy
        rcases List.mem_cons.1 hy with e | e
        · exact Or.inr ⟨e, hcne⟩
        · exact Or.inl e
      split at hx
      · exact consCase _ hcons hx
      · split at hx
        · split at hx
          · exact consCase _ (fun y hy => Or.inl hy) hx
          · exact consCase _ (fun y hy => by
              rcases List.mem_cons.1 hy with e | e
              · exact Or.inr ⟨e, hcne⟩
              · cases e) hx
        · next top rest =>
          split at hx
          · exact consCase _ hcons hx
          · exact consCase _ (fun y hy => Or.inl (List.mem_cons_of_mem _ hy)) hx

theorem normpath_no_trailing_slash (a : Bytes) :
    (normpath a).getLast? = some slash → normpath a = [slash] ∨ normpath a = [slash, slash] := by
  unfold normpath
  split
  · intro h; exact absurd h (by decide)
  · simp only []
    generalize hini : (if startsWith a [slash] = true then
        (if startsWith a [slash, slash] = true ∧ ¬ startsWith a [slash, slash, slash] = true then 2 else 1)
      else 0) = initial
    have hi : initial = 0 ∨ initial = 1 ∨ initial = 2 := by
      rw [← hini]; split
      · split <;> simp
      · simp
    generalize hcs : normComps (decide (initial ≠ 0)) [] (splitOn slash a) = comps
    have hgood : ∀ x ∈ comps, x ≠ [] ∧ slash ∉ x := by
      intro x hx
      rw [← hcs] at hx
      rcases normComps_mem _ _ _ _ hx with h | ⟨h, hne⟩
      · cases h
      · exact ⟨hne, splitOn_no_sep _ _ _ h⟩
    rcases List.eq_nil_or_concat comps with rfl | ⟨L, c, rfl⟩
    · intro h
      rcases hi with rfl | rfl | rfl
      · simp [joinWith] at h; exact absurd h (by decide)
      · left; simp [joinWith]
      · right; simp [joinWith]
    · rw [List.concat_eq_append] at hgood ⊢
      obtain ⟨hc1, hc2⟩ := hgood c (by simp)
      rw [joinWith_concat]
      obtain ⟨w, x, hcx⟩ : ∃ w x, c = w ++ [x] := by
        rcases List.eq_nil_or_concat c with h | ⟨w, x, h⟩
        · exact absurd h hc1
        · exact ⟨w, x, by rw [h, List.concat_eq_append]⟩
      have hx : x ≠ slash := fun e => hc2 (by rw [hcx, e]; simp)
      have hne : ¬ (List.replicate initial slash ++ ((if L = [] then [] else joinWith [slash] L ++ [slash]) ++ c) = []) := by
        simp [hc1]
      rw [if_neg hne, hcx]
      intro h
      rw [← List.append_assoc, ← List.append_assoc, List.getLast?_concat] at h
      exact absurd (Option.some.inj h) hx

/-! ### trailing slashes do not change the name -/

theorem isPrefixOf_slashes (n : Nat) (a t : Bytes) (h : ∃ ch ∈ a, ch ≠ slash) :
    (List.replicate n slash).isPrefixOf (a ++ t) = (List.replicate n slash).isPrefixOf a := by
  induction a generalizing n with
  | nil => obtain ⟨_, hm, _⟩ := h; cases hm
  | cons y a' ih =>
    cases n with
    | zero => simp
    | succ n =>
      rw [List.replicate_succ, List.cons_append, List.isPrefixOf_cons_cons, List.isPrefixOf_cons_cons]
      by_cases hy : y = slash
      · have h' : ∃ ch ∈ a', ch ≠ slash := by
          obtain ⟨ch, hm, hne⟩ := h
          rcases List.mem_cons.1 hm with e | e
          · exact absurd (e.trans hy) hne
          · exact ⟨ch, e, hne⟩
        rw [ih n h']
      · have : (slash == y) = false := by simpa using fun e => hy e.symm
        rw [this]; rfl

theorem splitOn_trailing (a : Bytes) (k : Nat) :
    splitOn slash (a ++ List.replicate k slash) = splitOn slash a ++ List.replicate k [] := by
  cases k with
  | zero => simp
  | succ k => rw [List.replicate_succ, splitOn_append_sep, splitOn_replicate]

theorem normComps_trailing (absolute : Bool) (P : List Bytes) (k : Nat) :
    normComps absolute [] (P ++ List.replicate k []) = normComps absolute [] P := by
  obtain ⟨acc', h⟩ := normComps_append absolute P []
  have h0 := h []
  rw [List.append_nil] at h0
  rw [h, normComps_empties, h0]; rfl

theorem normpath_trailing (a : Bytes) (k : Nat) (hne : ∃ c ∈ a, c ≠ slash) :
    normpath (a ++ List.replicate k slash) = normpath a := by
  have ha : a ≠ [] := by rintro rfl; obtain ⟨_, hm, _⟩ := hne; cases hm
  have ha' : a ++ List.replicate k slash ≠ [] := by simp [ha]
  have e1 : startsWith (a ++ List.replicate k slash) [slash] = startsWith a [slash] :=
    isPrefixOf_slashes 1 a _ hne
  have e2 : startsWith (a ++ List.replicate k slash) [slash, slash] = startsWith a [slash, slash] :=
    isPrefixOf_slashes 2 a _ hne
  have e3 : startsWith (a ++ List.replicate k slash) [slash, slash, slash] = startsWith a [slash, slash, slash] :=
    isPrefixOf_slashes 3 a _ hne
  unfold normpath
  rw [if_neg ha, if_neg ha']
  simp only [e1, e2, e3, splitOn_trailing, normComps_trailing]

theorem rstrip_noop {a : Bytes} (hl : a.getLast? ≠ some slash) : rstripSlash a = a := by
  rcases List.eq_nil_or_concat a with rfl | ⟨w, x, rfl⟩
  · rfl
  · rw [List.concat_eq_append] at hl ⊢
    have hx : x ≠ slash := by simpa using hl
    simpa using rstrip_gen w x 0 hx

theorem trailing_slashes_same_name (a : Bytes) (k : Nat) (hne : ∃ c ∈ a, c ≠ slash) (hl : a.getLast? ≠ some slash)
    (hd : isDotEntry a = false) :
    basename (normpath (a ++ List.replicate k slash)) = basename a ∧
    dirname (normpath (a ++ List.replicate k slash)) = dirname (normpath a) := by
  rw [normpath_trailing a k hne]
  refine ⟨?_, rfl⟩
  have hs := rstrip_noop hl
  have := (norm_keeps_last_component a hne (by rw [hs]; exact hd)).1
  rw [hs] at this
  exact this

/-! ### the kernel does not follow a final link -/

theorem resolve_nofollow_last (fs : FS) (parent : CPath) (name : Bytes)
    (hp : fs.isDirAt parent = true) (hn : name ≠ [] ∧ name ≠ [dot] ∧ name ≠ dotdot ∧ slash ∉ name ∧ name.length ≤ 255) :
    FS.walk fs false FS.linkFuel parent [name] = .ok (parent ++ [name]) := by
  obtain ⟨m, t, hg⟩ := isDirAt_get hp
  obtain ⟨h1, h2, h3, _, h5⟩ := hn
  unfold FS.walk
  simp only [hg]
  have hc : ¬ (name = [] ∨ name = [dot]) := by simp [h1, h2]
  have hlen : ¬ name.length > nameMax := by simp [nameMax]; omega
  rw [if_neg hc, if_neg h3, if_neg hlen]
  cases hq : fs.get (parent ++ [name]) with
  | none => simp
  | some nd =>
    cases nd with
    | link t' => simp
    | file d m' t' => simp [FS.walk]
    | dir m' t' => simp [FS.walk]

/-! ### the core moves the link itself -/

theorem moves_the_link (fs : FS) (infoC filesC src : CPath) (base content : Bytes) (st st' : PutSt)
    (h : Setting fs infoC filesC src) (t : Bytes) (hl : fs.get src = some (.link t)) (name : Bytes) (s' : RunState)
    (hr : run noFaults (putCore infoC filesC base content (fun _ => .ok src) st) { fs := fs } = ((.ok name, st'), s')) :
    s'.fs.get (filesC ++ [stemOf name]) = some (.link t) ∧ s'.fs.get src = none ∧
    ∀ q, ¬ FS.under src q = true → ¬ FS.under (filesC ++ [stemOf name]) q = true → q ≠ infoC ++ [name] →
      q ≠ FS.parent src → q ≠ filesC → q ≠ infoC → s'.fs.get q = fs.get q := by
  have T := C01.put_ok_moves_whole fs infoC filesC src base content st st' h name s' hr
  refine ⟨?_, ?_, T.frame⟩
  · have := T.whole []
    simpa [hl] using this
  · simpa using T.gone []

theorem origloc_of_link (fs : FS) (cwd : CPath) (path : Bytes) (cand : Candidate) (h : cand.relative = false) :
    originalLocation fs cwd path cand =
      pjoin (realpathStr fs cwd (dirname (normpath path))) (basename (normpath path)) := by
  simp [originalLocation, h]

end TrashVerif.Proofs.C18
