/-
  Proofs/C17Seq.lean — proofs for Props/C17Seq.lean: where the ONE fault of a single-fault oracle lands
  in the fold `C16Seq.putSeq` of an N-argument run of `trash-put`.
-/
import TrashVerif.Props.C17SingleDefs
import TrashVerif.Props.C16SeqDefs
import TrashVerif.Proofs.C17Single
import TrashVerif.Proofs.C16Seq
namespace TrashVerif.Proofs.C17Seq
open TrashVerif Prog FS C16Seq SingleFault
open TrashVerif.Proofs.C17Single (run_n_le run_congr_upto agree_below)
open TrashVerif.Proofs.C16Seq (stepArg_go)

/-- an oracle that is quiet from the counter of the start state on gives the fault-free run -/
theorem run_quiet_from {α} {φ : Oracle} (p : Prog α) :
    ∀ s : RunState, QuietFrom φ s.n → run φ p s = run noFaults p s := by
  induction p with
  | ret a => intro s _; rfl
  | get k ih => intro s h; simp only [run]; exact ih _ s h
  | emit o k ih => intro s h; simp only [run]; exact ih _ h
  | call c k ih =>
    intro s h
    have hφ : φ s.n (kindCount s.trace c.kind) c = none := h _ _ _ (Nat.le_refl _)
    have hq : QuietFrom φ (s.n + 1) := fun n k' c' hn => h n k' c' (by omega)
    cases ha : c.apply s.fs with
    | ok fs' =>
      simp only [run, hφ, ha, noFaults]
      exact ih _ _ hq
    | error e =>
      simp only [run, hφ, ha, noFaults]
      exact ih _ _ hq

theorem quietFrom_of_only {φ : Oracle} {k m : Nat} (h : FaultOnlyAt φ k) (hk : k < m) : QuietFrom φ m :=
  fun n k' c' hn => h n k' c' (by omega)

/-- the counter never decreases in a round of the loop -/
theorem stepArg_n_le (φ : Oracle) (c : PutCfg) (σ : SeqSt) (a : Bytes) : σ.s.n ≤ (stepArg φ c σ a).s.n := by
  unfold stepArg
  split
  · exact Nat.le_refl _
  · split <;> exact run_n_le φ _ _

theorem foldl_n_le (φ : Oracle) (c : PutCfg) : ∀ (args : List Bytes) (σ : SeqSt),
    σ.s.n ≤ (args.foldl (stepArg φ c) σ).s.n := by
  intro args
  induction args with
  | nil => intro σ; exact Nat.le_refl _
  | cons a rest ih => intro σ; exact Nat.le_trans (stepArg_n_le φ c σ a) (ih _)

/-- the counter at the end of a round is that of the run of `putOne` (when the round runs at all) -/
theorem stepArg_n (φ : Oracle) (c : PutCfg) (σ : SeqSt) (a : Bytes) (h : σ.crash = none) :
    (stepArg φ c σ a).s = (run φ (putOne c a σ.st) σ.s).2 := by
  rw [stepArg_go φ c σ a h]
  split <;> rfl

/-- AFTER the fault: a round that starts beyond the faulted index is the fault-free round -/
theorem step_after {φ : Oracle} {k : Nat} (h : FaultOnlyAt φ k) (c : PutCfg) (σ : SeqSt) (a : Bytes)
    (hk : k < σ.s.n) : stepArg φ c σ a = stepArg noFaults c σ a := by
  unfold stepArg
  rw [run_quiet_from (putOne c a σ.st) σ.s (quietFrom_of_only h hk)]

/-- BEFORE the fault: a round that ends at or below the faulted index is the fault-free round -/
theorem step_before {φ : Oracle} {k : Nat} (h : FaultOnlyAt φ k) (c : PutCfg) (σ : SeqSt) (a : Bytes)
    (hk : (stepArg φ c σ a).s.n ≤ k) : stepArg φ c σ a = stepArg noFaults c σ a := by
  cases hc : σ.crash with
  | some e => unfold stepArg; simp only [hc]
  | none =>
    rw [stepArg_n φ c σ a hc] at hk
    have e := run_congr_upto (φ := φ) (ψ := noFaults) k (fun n k' c' hn => h n k' c' (by omega)) _ _ hk
    unfold stepArg
    rw [e]

theorem foldl_after {φ : Oracle} {k : Nat} (h : FaultOnlyAt φ k) (c : PutCfg) :
    ∀ (args : List Bytes) (σ : SeqSt), k < σ.s.n →
      args.foldl (stepArg φ c) σ = args.foldl (stepArg noFaults c) σ := by
  intro args
  induction args with
  | nil => intro σ _; rfl
  | cons a rest ih =>
    intro σ hk
    rw [List.foldl_cons, List.foldl_cons, step_after h c σ a hk]
    exact ih _ (Nat.lt_of_lt_of_le hk (stepArg_n_le noFaults c σ a))

/-- THE SPLIT.  From a loop state whose counter has not passed the faulted index `k`: either the whole
    fold is the fault-free fold and ends at or below `k`, or the argument list splits as
    `pre ++ a :: suf` where `pre` runs as without faults and ends at or below `k`, the round of `a`
    starts at or below `k` and ends above it, and `suf` runs as without faults from the state the round
    of `a` left. -/
theorem fold_split {φ : Oracle} {k : Nat} (h : FaultOnlyAt φ k) (c : PutCfg) :
    ∀ (args : List Bytes) (σ : SeqSt), σ.s.n ≤ k →
      (args.foldl (stepArg φ c) σ = args.foldl (stepArg noFaults c) σ ∧
        (args.foldl (stepArg φ c) σ).s.n ≤ k) ∨
      (∃ pre a suf, args = pre ++ a :: suf ∧
        pre.foldl (stepArg φ c) σ = pre.foldl (stepArg noFaults c) σ ∧
        (pre.foldl (stepArg noFaults c) σ).s.n ≤ k ∧
        k < (stepArg φ c (pre.foldl (stepArg noFaults c) σ) a).s.n ∧
        args.foldl (stepArg φ c) σ =
          suf.foldl (stepArg noFaults c) (stepArg φ c (pre.foldl (stepArg noFaults c) σ) a)) := by
  intro args
  induction args with
  | nil => intro σ hk; exact .inl ⟨rfl, hk⟩
  | cons a rest ih =>
    intro σ hk
    by_cases hend : (stepArg φ c σ a).s.n ≤ k
    · have e := step_before h c σ a hend
      rcases ih (stepArg φ c σ a) hend with ⟨h1, h2⟩ | ⟨pre, a', suf, h1, h2, h3, h4, h5⟩
      · refine .inl ⟨?_, h2⟩
        rw [List.foldl_cons, List.foldl_cons, h1, e]
      · refine .inr ⟨a :: pre, a', suf, by rw [h1]; rfl, ?_, ?_, ?_, ?_⟩
        · rw [List.foldl_cons, List.foldl_cons, h2, e]
        · rw [List.foldl_cons, ← e]; exact h3
        · rw [List.foldl_cons, ← e]; exact h4
        · rw [List.foldl_cons, List.foldl_cons, ← e]; exact h5
    · have hlt : k < (stepArg φ c σ a).s.n := by omega
      refine .inr ⟨[], a, rest, rfl, rfl, hk, hlt, ?_⟩
      rw [List.foldl_cons]
      exact foldl_after h c rest _ hlt

/-- the rounds are consecutive intervals of the counter: the one that contains `k` is unique -/
theorem interval_unique (φ : Oracle) (c : PutCfg) (σ : SeqSt) (pre pre' : List Bytes) (a a' : Bytes)
    (suf suf' : List Bytes) (k : Nat) (e : pre ++ a :: suf = pre' ++ a' :: suf')
    (h1 : (pre.foldl (stepArg φ c) σ).s.n ≤ k) (h2 : k < (stepArg φ c (pre.foldl (stepArg φ c) σ) a).s.n)
    (h1' : (pre'.foldl (stepArg φ c) σ).s.n ≤ k) (h2' : k < (stepArg φ c (pre'.foldl (stepArg φ c) σ) a').s.n) :
    pre.length = pre'.length := by
  rcases Nat.lt_trichotomy pre.length pre'.length with hl | hl | hl
  · exfalso
    -- `pre ++ [a]` is a prefix of `pre'`
    have hp : pre ++ [a] <+: pre' := by
      have h3 : pre ++ [a] <+: pre' ++ a' :: suf' := ⟨suf, by rw [← e]; simp⟩
      have h4 : pre' <+: pre' ++ a' :: suf' := List.prefix_append _ _
      exact List.prefix_of_prefix_length_le h3 h4 (by simp; omega)
    obtain ⟨t, ht⟩ := hp
    rw [← ht, List.foldl_append, List.foldl_append, List.foldl_cons, List.foldl_nil] at h1'
    have := foldl_n_le φ c t (stepArg φ c (pre.foldl (stepArg φ c) σ) a)
    omega
  · exact hl
  · exfalso
    have hp : pre' ++ [a'] <+: pre := by
      have h3 : pre' ++ [a'] <+: pre ++ a :: suf := ⟨suf', by rw [e]; simp⟩
      have h4 : pre <+: pre ++ a :: suf := List.prefix_append _ _
      exact List.prefix_of_prefix_length_le h3 h4 (by simp; omega)
    obtain ⟨t, ht⟩ := hp
    rw [← ht, List.foldl_append, List.foldl_append, List.foldl_cons, List.foldl_nil] at h1
    have := foldl_n_le φ c t (stepArg φ c (pre'.foldl (stepArg φ c) σ) a')
    omega

/-! ### the oracle as a round sees it: shifting the call counter -/

/-- the oracle `φ` as seen by a program started in the run state `s0` (counter `s0.n`, same-kind counts
    of `s0.trace`), re-indexed from 0 -/
def shift (φ : Oracle) (s0 : RunState) : Oracle :=
  fun n k c => φ (n + s0.n) (k + kindCount s0.trace c.kind) c

/-- the local run state `t` (started from counter 0, empty logs) put on top of `s0` -/
def lift (s0 t : RunState) : RunState :=
  { fs := t.fs, hist := t.hist ++ s0.hist, trace := t.trace ++ s0.trace, outs := t.outs ++ s0.outs, n := t.n + s0.n }

theorem kindCount_append (a b' : List (Call × Res)) (k : String) :
    kindCount (a ++ b') k = kindCount a k + kindCount b' k := by
  unfold kindCount
  rw [List.filter_append, List.length_append]

theorem run_lift {α} (φ : Oracle) (s0 : RunState) (p : Prog α) :
    ∀ t : RunState, run φ p (lift s0 t) = ((run (shift φ s0) p t).1, lift s0 (run (shift φ s0) p t).2) := by
  induction p with
  | ret a => intro t; rfl
  | get k ih => intro t; simp only [run]; exact ih _ t
  | emit o k ih => intro t; simp only [run]; exact ih { t with outs := o :: t.outs }
  | call c k ih =>
    intro t
    have hq : φ (lift s0 t).n (kindCount (lift s0 t).trace c.kind) c =
        shift φ s0 t.n (kindCount t.trace c.kind) c := by
      show φ (t.n + s0.n) (kindCount (t.trace ++ s0.trace) c.kind) c = _
      rw [kindCount_append]; rfl
    have hn : t.n + s0.n + 1 = t.n + 1 + s0.n := by omega
    cases hφ : shift φ s0 t.n (kindCount t.trace c.kind) c with
    | some e =>
      rw [hφ] at hq
      simp only [run, hq, hφ]
      have := ih (.error e) { t with hist := t.fs :: t.hist, trace := (c, .error e) :: t.trace, n := t.n + 1 }
      simp only [lift, List.cons_append] at this ⊢
      rw [hn]; exact this
    | none =>
      rw [hφ] at hq
      cases ha : c.apply t.fs with
      | ok fs' =>
        have ha' : c.apply (lift s0 t).fs = .ok fs' := ha
        simp only [run, hq, hφ, ha, ha']
        have := ih (.ok ()) { t with fs := fs', hist := t.fs :: t.hist, trace := (c, .ok ()) :: t.trace, n := t.n + 1 }
        simp only [lift, List.cons_append] at this ⊢
        rw [hn]; exact this
      | error e =>
        have ha' : c.apply (lift s0 t).fs = .error e := ha
        simp only [run, hq, hφ, ha, ha']
        have := ih (.error e) { t with hist := t.fs :: t.hist, trace := (c, .error e) :: t.trace, n := t.n + 1 }
        simp only [lift, List.cons_append] at this ⊢
        rw [hn]; exact this

theorem lift_init (s0 : RunState) : lift s0 { fs := s0.fs } = s0 := by
  cases s0; simp [lift]

/-- a run from ANY run state is the run from the fresh state on its file system under the shifted oracle -/
theorem run_from (φ : Oracle) {α} (p : Prog α) (s : RunState) :
    run φ p s = ((run (shift φ s) p { fs := s.fs }).1, lift s (run (shift φ s) p { fs := s.fs }).2) := by
  have := run_lift φ s p { fs := s.fs }
  rw [lift_init] at this
  exact this

theorem atMostOne_shift {φ : Oracle} (h : AtMostOneFault φ) (s : RunState) : AtMostOneFault (shift φ s) := by
  intro n k c n' k' c' h1 h2
  have := h _ _ _ _ _ _ h1 h2
  omega

theorem faultOnlyAt_shift {φ : Oracle} {k : Nat} (h : FaultOnlyAt φ k) (s : RunState) (hs : s.n ≤ k) :
    FaultOnlyAt (shift φ s) (k - s.n) := by
  intro n k' c hn
  exact h _ _ _ (by omega)

theorem quiet_shift {φ : Oracle} {k : Nat} (h : FaultOnlyAt φ k) (s : RunState) (hs : k < s.n) :
    ∀ n k' c, shift φ s n k' c = none := by
  intro n k' c
  exact h _ _ _ (by omega)

end TrashVerif.Proofs.C17Seq
