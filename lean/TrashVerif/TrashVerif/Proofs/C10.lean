/-
  Proofs/C10.lean — helper lemmas for Props/C10.lean (calendar arithmetic, older_than).
-/
import TrashVerif.Spec.C10
namespace TrashVerif.Proofs.C10
open TrashVerif Bytes TrashVerif.C10

/-! ### calendar arithmetic -/

/-- length of year `y` in days -/
def yearLen (y : Nat) : Nat := if isLeap y then 366 else 365

theorem valid_iff (t : Date) : t.valid = true ↔
    1 ≤ t.y ∧ t.y ≤ 9999 ∧ 1 ≤ t.m ∧ t.m ≤ 12 ∧ 1 ≤ t.d ∧ t.d ≤ daysInMonth t.y t.m ∧
    t.H ≤ 23 ∧ t.M ≤ 59 ∧ t.S ≤ 59 := by
  simp [Date.valid, and_assoc]

theorem isLeap_iff (y : Nat) :
    isLeap y = true ↔ ((y % 4 = 0 ∧ y % 100 ≠ 0) ∨ y % 400 = 0) := by
  simp [isLeap]

theorem dby_succ_aux (p : Nat) :
    (p+1)*365 + (p+1)/4 - (p+1)/100 + (p+1)/400 =
      p*365 + p/4 - p/100 + p/400 +
        (if ((p+1)%4 = 0 ∧ (p+1)%100 ≠ 0) ∨ (p+1)%400 = 0 then 366 else 365) := by
  have h4 : ((p+1)%4 = 0 ∧ (p+1)/4 = p/4 + 1) ∨ ((p+1)%4 ≠ 0 ∧ (p+1)/4 = p/4) := by omega
  have h100 : ((p+1)%100 = 0 ∧ (p+1)/100 = p/100 + 1) ∨ ((p+1)%100 ≠ 0 ∧ (p+1)/100 = p/100) := by omega
  have h400 : ((p+1)%400 = 0 ∧ (p+1)/400 = p/400 + 1) ∨ ((p+1)%400 ≠ 0 ∧ (p+1)/400 = p/400) := by omega
  have i1 : (p+1)%400 = 0 → (p+1)%100 = 0 := by omega
  have i2 : (p+1)%100 = 0 → (p+1)%4 = 0 := by omega
  have l1 : p/100 ≤ p/4 := by omega
  have l2 : (p+1)/100 ≤ (p+1)/4 := by omega
  generalize (p+1)/4 = a' at *
  generalize p/4 = a at *
  generalize (p+1)/100 = b' at *
  generalize p/100 = b at *
  generalize (p+1)/400 = c' at *
  generalize p/400 = c at *
  generalize (p+1)%4 = r4 at *
  generalize (p+1)%100 = r100 at *
  generalize (p+1)%400 = r400 at *
  split <;> omega

theorem dby_succ (y : Nat) (hy : 1 ≤ y) :
    daysBeforeYear (y + 1) = daysBeforeYear y + yearLen y := by
  obtain ⟨p, rfl⟩ : ∃ p, y = p + 1 := ⟨y - 1, by omega⟩
  have h := dby_succ_aux p
  simp only [← isLeap_iff] at h
  simpa [daysBeforeYear, yearLen] using h

theorem dby_mono {a c : Nat} (h : a ≤ c) : daysBeforeYear a ≤ daysBeforeYear c := by
  induction h with
  | refl => exact Nat.le_refl _
  | @step k _ ih =>
    rcases Nat.eq_zero_or_pos k with hk | hk
    · have e : daysBeforeYear (k + 1) = daysBeforeYear k := by
        rw [hk]; simp [daysBeforeYear]
      show daysBeforeYear a ≤ daysBeforeYear (k + 1)
      omega
    · show daysBeforeYear a ≤ daysBeforeYear (k + 1)
      rw [dby_succ k hk]; omega

theorem dim_bounds (y m : Nat) : 28 ≤ daysInMonth y m ∧ daysInMonth y m ≤ 31 := by
  unfold daysInMonth; repeat' split
  all_goals omega

theorem dbm_one (y : Nat) : daysBeforeMonth y 1 = 0 := by simp [daysBeforeMonth]

theorem dbm_succ (y m : Nat) (hm : 1 ≤ m) :
    daysBeforeMonth y (m + 1) = daysBeforeMonth y m + daysInMonth y m := by
  obtain ⟨k, rfl⟩ : ∃ k, m = k + 1 := ⟨m - 1, by omega⟩
  simp [daysBeforeMonth, List.range_succ, List.sum_append]

theorem dbm_mono (y : Nat) {a c : Nat} (h : a ≤ c) : daysBeforeMonth y a ≤ daysBeforeMonth y c := by
  induction h with
  | refl => exact Nat.le_refl _
  | @step k _ ih =>
    rcases Nat.eq_zero_or_pos k with hk | hk
    · have e : daysBeforeMonth y (k + 1) = daysBeforeMonth y k := by
        rw [hk]; simp [daysBeforeMonth]
      show daysBeforeMonth y a ≤ daysBeforeMonth y (k + 1)
      omega
    · show daysBeforeMonth y a ≤ daysBeforeMonth y (k + 1)
      rw [dbm_succ y k hk]; omega

theorem dbm_13 (y : Nat) : daysBeforeMonth y 13 = yearLen y := by
  simp [daysBeforeMonth, List.range_succ, daysInMonth, yearLen]
  split <;> rfl

theorem dim_12 (y : Nat) : daysInMonth y 12 = 31 := by simp [daysInMonth]

/-- day of the year is at most the year length -/
theorem doy_le (t : Date) (ht : t.valid = true) :
    daysBeforeMonth t.y t.m + t.d ≤ yearLen t.y := by
  rw [valid_iff] at ht
  have h1 := dbm_succ t.y t.m ht.2.2.1
  have h2 : daysBeforeMonth t.y (t.m + 1) ≤ daysBeforeMonth t.y 13 := dbm_mono t.y (by omega)
  rw [dbm_13] at h2
  omega

theorem ordinal_pos (t : Date) (ht : t.valid = true) : 1 ≤ t.ordinal := by
  rw [valid_iff] at ht; unfold Date.ordinal; omega

theorem ordinal_le (t : Date) (ht : t.valid = true) : t.ordinal ≤ 3652059 := by
  have h := doy_le t ht
  rw [valid_iff] at ht
  have h1 := dby_succ t.y ht.1
  have h2 : daysBeforeYear (t.y + 1) ≤ daysBeforeYear 10000 := dby_mono (by omega)
  have h3 : daysBeforeYear 10000 = 3652059 := by decide
  unfold Date.ordinal; omega

/-- calendar order on the day part implies order on ordinals -/
theorem ordinal_lt (a c : Date) (ha : a.valid = true) (hc : c.valid = true)
    (h : a.y < c.y ∨ (a.y = c.y ∧ (a.m < c.m ∨ (a.m = c.m ∧ a.d < c.d)))) :
    a.ordinal < c.ordinal := by
  have hda := doy_le a ha
  rw [valid_iff] at ha hc
  unfold Date.ordinal
  rcases h with h | ⟨hy, h | ⟨hm, hd⟩⟩
  · have h1 := dby_succ a.y ha.1
    have h2 : daysBeforeYear (a.y + 1) ≤ daysBeforeYear c.y := dby_mono h
    omega
  · have h1 := dbm_succ a.y a.m ha.2.2.1
    have h2 : daysBeforeMonth a.y (a.m + 1) ≤ daysBeforeMonth a.y c.m := dbm_mono a.y h
    rw [← hy]; omega
  · rw [← hy, ← hm]; omega

theorem lexLt_iff (a : Date) (ua : Nat) (c : Date) (uc : Nat) :
    lexLt a ua c uc = true ↔
      a.y < c.y ∨ (a.y = c.y ∧ (a.m < c.m ∨ (a.m = c.m ∧ (a.d < c.d ∨ (a.d = c.d ∧
      (a.H < c.H ∨ (a.H = c.H ∧ (a.M < c.M ∨ (a.M = c.M ∧ (a.S < c.S ∨ (a.S = c.S ∧
      ua < uc))))))))))) := by
  simp [lexLt, List.cons_lt_cons_iff]

theorem toMicros_lt_of_lex (a c : Date) (ha : a.valid = true) (hc : c.valid = true) (ua uc : Nat)
    (hua : ua < 1000000) (huc : uc < 1000000) (h : lexLt a ua c uc = true) :
    a.toMicros ua < c.toMicros uc := by
  rw [lexLt_iff] at h
  have ha' := (valid_iff a).1 ha
  have hc' := (valid_iff c).1 hc
  unfold Date.toMicros Date.toSec
  by_cases hday : a.y < c.y ∨ (a.y = c.y ∧ (a.m < c.m ∨ (a.m = c.m ∧ a.d < c.d)))
  · have := ordinal_lt a c ha hc hday
    omega
  · have hyy : a.y = c.y := by omega
    have hmm : a.m = c.m := by omega
    have hdd : a.d = c.d := by omega
    have : a.ordinal = c.ordinal := by unfold Date.ordinal; rw [hyy, hmm, hdd]
    omega

theorem toSec_lex (a c : Date) (ha : a.valid = true) (hc : c.valid = true) (ua uc : Nat)
    (hua : ua < 1000000) (huc : uc < 1000000) :
    lexLt a ua c uc = true ↔ a.toMicros ua < c.toMicros uc := by
  refine ⟨toMicros_lt_of_lex a c ha hc ua uc hua huc, fun hlt => ?_⟩
  -- trichotomy of the lexicographic order
  by_cases h1 : lexLt a ua c uc = true
  · exact h1
  · by_cases h2 : lexLt c uc a ua = true
    · have := toMicros_lt_of_lex c a hc ha uc ua huc hua h2
      omega
    · rw [lexLt_iff] at h1 h2
      have hy : a.y = c.y := by omega
      have hm : a.m = c.m := by omega
      have hd : a.d = c.d := by omega
      have hH : a.H = c.H := by omega
      have hM : a.M = c.M := by omega
      have hS : a.S = c.S := by omega
      have hu : ua = uc := by omega
      have : a = c := by
        cases a; cases c; simp_all
      subst this; subst hu
      exact absurd hlt (Nat.lt_irrefl _)

/-! ### prevDay / minusDays -/

theorem prevDay_spec (t : Date) (ht : t.valid = true) :
    (∀ r, prevDay t = some r →
      r.valid = true ∧ r.ordinal + 1 = t.ordinal ∧ r.H = t.H ∧ r.M = t.M ∧ r.S = t.S) ∧
    (prevDay t = none ↔ t.ordinal ≤ 1) := by
  have hpos := ordinal_pos t ht
  have hv := (valid_iff t).1 ht
  unfold prevDay
  split
  · -- same month
    rename_i hd
    refine ⟨fun r hr => ?_, by unfold Date.ordinal; simp; omega⟩
    cases hr
    refine ⟨?_, ?_, rfl, rfl, rfl⟩
    · rw [valid_iff]; simp only; omega
    · simp only [Date.ordinal]; unfold Date.ordinal at hpos; omega
  · split
    · -- previous month
      rename_i hd hm
      have hb := dim_bounds t.y (t.m - 1)
      have hs := dbm_succ t.y (t.m - 1) (by omega)
      have hmm : t.m - 1 + 1 = t.m := by omega
      rw [hmm] at hs
      refine ⟨fun r hr => ?_, ?_⟩
      · cases hr
        refine ⟨?_, ?_, rfl, rfl, rfl⟩
        · rw [valid_iff]; simp only; omega
        · simp only [Date.ordinal]; omega
      · simp only [Date.ordinal] at *; simp; omega
    · split
      · -- previous year
        rename_i hd hm hy
        have hs := dby_succ (t.y - 1) (by omega)
        have hyy : t.y - 1 + 1 = t.y := by omega
        rw [hyy] at hs
        have h13 := dbm_13 (t.y - 1)
        have h12 : daysBeforeMonth (t.y - 1) 13 =
            daysBeforeMonth (t.y - 1) 12 + daysInMonth (t.y - 1) 12 :=
          dbm_succ (t.y - 1) 12 (by omega)
        have hd12 := dim_12 (t.y - 1)
        have hm1 : t.m = 1 := by omega
        have hb1 := dbm_one t.y
        refine ⟨fun r hr => ?_, ?_⟩
        · cases hr
          refine ⟨?_, ?_, rfl, rfl, rfl⟩
          · rw [valid_iff]; simp only; omega
          · simp only [Date.ordinal]; rw [hm1]; omega
        · simp only [Date.ordinal] at *; rw [hm1] at *; simp; omega
      · rename_i hd hm hy
        have hm1 : t.m = 1 := by omega
        have hy1 : t.y = 1 := by omega
        have hd1 : t.d = 1 := by omega
        refine ⟨fun r hr => (by cases hr), ?_⟩
        simp only [Date.ordinal, hm1, hy1, hd1, dbm_one]
        simp [daysBeforeYear]

theorem minusDays_ordinal (n : Nat) (t : Date) (ht : t.valid = true) :
    (∀ r, minusDays n t = some r →
      r.valid = true ∧ r.ordinal + n = t.ordinal ∧ r.H = t.H ∧ r.M = t.M ∧ r.S = t.S) ∧
    (minusDays n t = none ↔ t.ordinal ≤ n) := by
  induction n generalizing t with
  | zero =>
    have hpos := ordinal_pos t ht
    refine ⟨fun r hr => ?_, ?_⟩
    · simp only [minusDays, Option.some.injEq] at hr
      subst hr; exact ⟨ht, rfl, rfl, rfl, rfl⟩
    · simp [minusDays]; omega
  | succ n ih =>
    have hp := prevDay_spec t ht
    simp only [minusDays]
    cases hprev : prevDay t with
    | none =>
      have := hp.2.1 hprev
      refine ⟨fun r hr => by simp at hr, ?_⟩
      simp; omega
    | some p =>
      obtain ⟨hpv, hpo, hpH, hpM, hpS⟩ := hp.1 p hprev
      have hne : ¬ t.ordinal ≤ 1 := fun h => by
        have := hp.2.2 h; rw [hprev] at this; cases this
      have ihp := ih p hpv
      simp only [Option.bind_some]
      refine ⟨fun r hr => ?_, ?_⟩
      · obtain ⟨h1, h2, h3, h4, h5⟩ := ihp.1 r hr
        exact ⟨h1, by omega, by omega, by omega, by omega⟩
      · rw [ihp.2]; omega

/-! ### older_than -/

theorem toMicros_eq (t : Date) (us : Nat) :
    t.toMicros us = (t.ordinal * 86400 + t.H * 3600 + t.M * 60 + t.S) * 1000000 + us := rfl

theorem minMicros_eq : minMicros = 86400000000 := rfl

/-- `olderThan` as a flat case distinction -/
theorem olderThan_cases (days : Nat) (now : Date) (us : Nat) (d : Date) :
    (olderThan days now us d = .overflow ∧
      (days > 999999999 ∨ now.toMicros us < minMicros + days * 86400 * 1000000)) ∨
    (olderThan days now us d = .yes ∧ days ≤ 999999999 ∧
      minMicros + days * 86400 * 1000000 ≤ now.toMicros us ∧
      d.toMicros < now.toMicros us - days * 86400 * 1000000) ∨
    (olderThan days now us d = .no ∧ days ≤ 999999999 ∧
      minMicros + days * 86400 * 1000000 ≤ now.toMicros us ∧
      ¬ d.toMicros < now.toMicros us - days * 86400 * 1000000) := by
  simp only [olderThan]
  split
  · exact Or.inl ⟨rfl, Or.inl (by assumption)⟩
  · split
    · exact Or.inl ⟨rfl, Or.inr (by assumption)⟩
    · split
      · exact Or.inr (Or.inl ⟨rfl, by omega, by omega, by assumption⟩)
      · exact Or.inr (Or.inr ⟨rfl, by omega, by omega, by assumption⟩)

theorem olderThan_spec (days : Nat) (now : Date) (us : Nat) (d : Date)
    (hn : now.valid = true) (hd : d.valid = true) (hus : us < 1000000) :
    (olderThan days now us d = .yes ↔ shouldPurge days now us d = true) ∧
    (olderThan days now us d = .overflow ↔ minusDays days now = none) := by
  have hmd := minusDays_ordinal days now hn
  have hle := ordinal_le now hn
  have hv := (valid_iff now).1 hn
  have hM := toMicros_eq now us
  have hmin := minMicros_eq
  have hcases := olderThan_cases days now us d
  by_cases hov : now.ordinal ≤ days
  · -- now − days is not representable
    have hnone := hmd.2.2 hov
    have hover : olderThan days now us d = .overflow := by
      rcases hcases with h | h | h
      · exact h.1
      · exfalso; omega
      · exfalso; omega
    simp [hover, shouldPurge, hnone]
  · cases hlim : minusDays days now with
    | none => exact absurd (hmd.2.1 hlim) hov
    | some limit =>
      obtain ⟨hlv, hlo, hlH, hlM, hlS⟩ := hmd.1 limit hlim
      have hlex := toSec_lex d limit hd hlv 0 us (by omega) hus
      have hL := toMicros_eq limit us
      have hsub : now.toMicros us - days * 86400 * 1000000 = limit.toMicros us := by omega
      rw [hsub] at hcases
      simp only [shouldPurge, hlim]
      rw [hlex]
      rcases hcases with h | h | h
      · exfalso; omega
      · simp [h.1, h.2.2.2]
      · simp [h.1, h.2.2.2]

theorem boundary_kept (days : Nat) (now d : Date) (hn : now.valid = true) (hd : d.valid = true)
    (h : minusDays days now = some d) : olderThan days now 0 d = .no := by
  have hspec := olderThan_spec days now 0 d hn hd (by omega)
  have hny : olderThan days now 0 d ≠ .yes := by
    intro hy
    have := hspec.1.1 hy
    simp only [shouldPurge, h] at this
    rw [toSec_lex d d hd hd 0 0 (by omega) (by omega)] at this
    exact Nat.lt_irrefl _ this
  have hno : olderThan days now 0 d ≠ .overflow := by
    intro ho
    have := hspec.2.1 ho
    rw [h] at this; cases this
  cases hc : olderThan days now 0 d with
  | overflow => exact absurd hc hno
  | yes => exact absurd hc hny
  | no => rfl

theorem one_second_older_purged (days : Nat) (now d e : Date) (hn : now.valid = true)
    (hd : d.valid = true) (he : e.valid = true) (h : minusDays days now = some d)
    (hs : e.toSec + 1 = d.toSec) : olderThan days now 0 e = .yes := by
  have hspec := olderThan_spec days now 0 e hn he (by omega)
  apply hspec.1.2
  simp only [shouldPurge, h]
  rw [toSec_lex e d he hd 0 0 (by omega) (by omega)]
  simp only [Date.toMicros]; omega

theorem future_kept (days : Nat) (now : Date) (us : Nat) (d : Date)
    (h : now.toMicros us ≤ d.toMicros) : olderThan days now us d ≠ .yes := by
  intro hy
  rcases olderThan_cases days now us d with h' | h' | h'
  · rw [hy] at h'; cases h'.1
  · omega
  · rw [hy] at h'; cases h'.1

theorem days_antitone (d1 d2 : Nat) (now : Date) (us : Nat) (d : Date) (h : d1 ≤ d2)
    (h2 : olderThan d2 now us d = .yes) : olderThan d1 now us d = .yes := by
  rcases olderThan_cases d2 now us d with h' | h' | h'
  · rw [h2] at h'; cases h'.1
  · rcases olderThan_cases d1 now us d with g | g | g
    · exfalso; omega
    · exact g.1
    · exfalso; omega
  · rw [h2] at h'; cases h'.1

/-! ### first DeletionDate line -/

theorem splitOn_ne_nil (sep : UInt8) (s : Bytes) : splitOn sep s ≠ [] := by
  induction s with
  | nil => simp [splitOn]
  | cons c cs ih =>
    unfold splitOn
    split
    · simp
    · split <;> simp

theorem splitOn_append_sep (sep : UInt8) (p rest : Bytes) :
    splitOn sep (p ++ sep :: rest) = splitOn sep p ++ splitOn sep rest := by
  induction p with
  | nil => simp [splitOn]
  | cons c p ih =>
    by_cases hc : c = sep
    · simp [splitOn, hc, ih]
    · have hne := splitOn_ne_nil sep p
      cases hp : splitOn sep p with
      | nil => exact absurd hp hne
      | cons q qs => simp [splitOn, hc, ih, hp]

theorem splitOn_not_mem (sep : UInt8) (p : Bytes) (h : sep ∉ p) : splitOn sep p = [p] := by
  induction p with
  | nil => simp [splitOn]
  | cons c p ih =>
    simp only [List.mem_cons, not_or] at h
    have hc : c ≠ sep := fun e => h.1 e.symm
    simp [splitOn, hc, ih h.2]

theorem firstSome_append_none {α β} (f : α → Option β) (xs ys : List α)
    (h : ∀ x ∈ xs, f x = none) : firstSome f (xs ++ ys) = firstSome f ys := by
  induction xs with
  | nil => rfl
  | cons x xs ih =>
    have hx := h x (by simp)
    simp only [List.cons_append, firstSome, hx]
    exact ih fun z hz => h z (by simp [hz])

theorem first_date_line_only (pre post : Bytes) (l : Bytes)
    (hpre : ∀ x ∈ lines pre, Bytes.startsWith x dateKey = false)
    (hl : Bytes.startsWith l dateKey = true) (hnl : (10 : UInt8) ∉ l) :
    parseDate (pre ++ [10] ++ l ++ [10] ++ post) =
      (match strptimeBody (l.drop dateKey.length) with | some t => .date t | none => .invalid) := by
  have hlines : lines (pre ++ [10] ++ l ++ [10] ++ post) = lines pre ++ (l :: lines post) := by
    unfold lines
    have : pre ++ [10] ++ l ++ [10] ++ post = pre ++ 10 :: (l ++ 10 :: post) := by simp
    rw [this, splitOn_append_sep, splitOn_append_sep, splitOn_not_mem 10 l hnl]
    rfl
  have hfirst : firstDateLine (pre ++ [10] ++ l ++ [10] ++ post) = some l := by
    unfold firstDateLine
    rw [hlines, firstSome_append_none]
    · simp [firstSome, hl]
    · intro x hx; simp [hpre x hx]
  simp only [parseDate, hfirst]
  cases strptimeBody (List.drop dateKey.length l) <;> rfl

end TrashVerif.Proofs.C10
