/-
  Proofs/C04SeqSame.lean — proofs for Props/C04Seq.lean, part 4: the same base name N ≤ 100 times.
-/
import TrashVerif.Proofs.C04Seq
import TrashVerif.Proofs.C16IndepCore
namespace TrashVerif.Proofs.C04SeqSame
open TrashVerif Prog FS PutCore PutLemmas C04Seq Proofs.C04Seq

theorem suffixFor_lt (i : Nat) (hi : i < 100) (st : PutSt) : suffixFor i st = (sfx i, st) := by
  unfold suffixFor sfx
  by_cases h0 : i = 0 <;> simp [h0, hi]

theorem sfx_inj (i j : Nat) (hi : i < 100) (hj : j < 100) (h : sfx i = sfx j) : i = j := by
  apply Classical.byContradiction
  intro hne
  have := C04.suffixes_distinct ⟨[], []⟩ i j hi hj hne
  rw [suffixFor_lt i hi, suffixFor_lt j hj] at this
  exact this h

theorem sfx_len_all : (List.range 100).all (fun i => decide ((sfx i).length ≤ 3)) = true := by decide +kernel

theorem sfx_len (i : Nat) (hi : i < 100) : (sfx i).length ≤ 3 := by
  have := List.all_eq_true.1 sfx_len_all i (List.mem_range.2 hi)
  simpa using this

theorem stemOf_ext (n : Bytes) : stemOf (n ++ trashinfoExt) = n := by simp [stemOf]

theorem take_stem (x : Bytes) :
    (x ++ trashinfoExt).take ((x ++ trashinfoExt).length - trashinfoExt.length) = x := by simp

/-- the loop skips the occupied names `base`, `base_1`, … and takes the first free one -/
theorem persist_nth (I F : CPath) (base content : Bytes) (st : PutSt) (s : RunState) {m t : Nat}
    (hI : s.fs.get I = some (.dir m t)) (k : Nat) (hk : k < 100)
    (hfreeF : s.fs.get (F ++ [base ++ sfx k]) = none)
    (hfreeI : s.fs.get (I ++ [base ++ sfx k ++ trashinfoExt]) = none)
    (hlen : (base ++ sfx k ++ trashinfoExt).length ≤ 255) :
    ∀ (d j fuel : Nat), j + d = k → d < fuel →
      (∀ i, j ≤ i → i < k → (s.fs.get (F ++ [base ++ sfx i])).isSome = true) →
      (run noFaults (persistLoop I F base content fuel j false st) s).1 =
        (.created (base ++ sfx k ++ trashinfoExt), st) := by
  intro d
  induction d with
  | zero =>
    intro j fuel hj hf _
    obtain ⟨fuel, rfl⟩ : ∃ f, fuel = f + 1 := ⟨fuel - 1, by omega⟩
    have hjk : j = k := by omega
    subst hjk
    have hs : suffixFor j st = (sfx j, st) := suffixFor_lt j hk st
    have hname : trashinfoBasename base (sfx j) false = base ++ sfx j ++ trashinfoExt := by
      simp [trashinfoBasename]
    have hstem := take_stem (base ++ sfx j)
    have hlex : lexistsC s.fs (F ++ [base ++ sfx j]) = false := by simp [lexistsC, hfreeF]
    obtain ⟨w1, _⟩ := C16IndepCore.atomicWrite_result s I (base ++ sfx j ++ trashinfoExt) content hI
    rw [if_neg (by omega), hfreeI] at w1
    simp only [Option.isSome_none, Bool.false_eq_true, if_false] at w1
    unfold persistLoop
    simp only [hs, hname, hstem, run_bind, run_read, hlex, Bool.false_eq_true, if_false]
    generalize run noFaults (atomicWrite (I ++ [base ++ sfx j ++ trashinfoExt]) content) s = r at w1
    obtain ⟨res, s2⟩ := r
    simp only at w1
    subst w1
    rfl
  | succ d ih =>
    intro j fuel hj hf hocc
    obtain ⟨fuel, rfl⟩ : ∃ f, fuel = f + 1 := ⟨fuel - 1, by omega⟩
    have hs : suffixFor j st = (sfx j, st) := suffixFor_lt j (by omega) st
    have hname : trashinfoBasename base (sfx j) false = base ++ sfx j ++ trashinfoExt := by
      simp [trashinfoBasename]
    have hstem := take_stem (base ++ sfx j)
    have hlex : lexistsC s.fs (F ++ [base ++ sfx j]) = true := by
      have := hocc j (Nat.le_refl _) (by omega)
      simpa [lexistsC] using this
    unfold persistLoop
    simp only [hs, hname, hstem, run_bind, run_read, hlex, if_true]
    exact ih (j + 1) fuel (by omega) (by omega) (fun i h1 h2 => hocc i (by omega) h2)

/-- the chain, started when `base`, …, `base_{j-1}` are occupied and the next `|ks|` names are free -/
theorem same_base_from {I F : CPath} {base : Bytes} {fs fsN : FS} {st stN : PutSt} {ks : List Step}
    (h : Puts I F fs st ks fsN stN) (hlenb : base.length + 13 ≤ 255) :
    ∀ j, j + ks.length ≤ 100 → (∀ k ∈ ks, k.base = base) →
      (∀ i, i < j → (fs.get (F ++ [base ++ sfx i])).isSome = true) →
      (∀ i, j ≤ i → i < j + ks.length →
        fs.get (F ++ [base ++ sfx i]) = none ∧ fs.get (I ++ [base ++ sfx i ++ trashinfoExt]) = none) →
      ks.map (·.name) = (List.range' j ks.length).map (fun i => base ++ sfx i ++ trashinfoExt) ∧ stN = st := by
  induction h with
  | nil fs st => intro j _ _ _ _; exact ⟨rfl, rfl⟩
  | @cons fs0 st0 st' k0 s' ks0 fsN0 stN0 hpre hset hrun rest ih =>
    intro j hj hb hocc hfree
    simp only [List.length_cons] at hj hfree
    have hj100 : j < 100 := by omega
    have hbase : k0.base = base := hb k0 List.mem_cons_self
    obtain ⟨m, t, hI⟩ := isDirAt_get hset.infoDir
    obtain ⟨fF, fI⟩ := hfree j (Nat.le_refl _) (by omega)
    have hl : (base ++ sfx j ++ trashinfoExt).length ≤ 255 := by
      have := sfx_len j hj100
      simp only [List.length_append, ext_len]; omega
    have hp := persist_nth I F base k0.content st0 { fs := fs0 } hI j hj100 fF fI hl j 0 persistFuel
      (by omega) (by unfold persistFuel; omega) (fun i _ h2 => hocc i h2)
    have hc := C16IndepCore.core_result k0.base k0.content st0 { fs := fs0 } hset
    rw [hrun, hbase, hp] at hc
    simp only [C16IndepCore.coreOf, Prod.mk.injEq, Except.ok.injEq] at hc
    obtain ⟨hname, hst⟩ := hc
    have f := step_facts hset hrun
    rw [hname] at f
    have hw := f.whole []
    rw [List.append_nil, List.append_nil, stemOf_ext] at hw
    have A : ∀ i, i < j + 1 → (s'.fs.get (F ++ [base ++ sfx i])).isSome = true := by
      intro i hi
      by_cases e : i = j
      · subst e; rw [hw]; exact f.srcSome
      · have hs := hocc i (by omega)
        have hne : base ++ sfx i ≠ stemOf (base ++ sfx j ++ trashinfoExt) := by
          rw [stemOf_ext]; intro e'; rw [e', fF] at hs; cases hs
        have h0 := f.keepF _ [] hne
        rw [List.append_nil] at h0
        rw [h0]; exact hs
    have B : ∀ i, j + 1 ≤ i → i < j + 1 + ks0.length →
        s'.fs.get (F ++ [base ++ sfx i]) = none ∧ s'.fs.get (I ++ [base ++ sfx i ++ trashinfoExt]) = none := by
      intro i h1 h2
      obtain ⟨a, c⟩ := hfree i (by omega) (by omega)
      have hij : sfx i ≠ sfx j := fun e => by
        have := sfx_inj i j (by omega) hj100 e; omega
      have hne : base ++ sfx i ≠ stemOf (base ++ sfx j ++ trashinfoExt) := by
        rw [stemOf_ext]; intro e'; exact hij (List.append_cancel_left e')
      have hne2 : base ++ sfx i ++ trashinfoExt ≠ base ++ sfx j ++ trashinfoExt := by
        intro e'; exact hij (List.append_cancel_left (List.append_cancel_right e'))
      have h0 := f.keepF _ [] hne
      have h1' := f.keepI _ [] hne2
      rw [List.append_nil] at h0 h1'
      rw [h0, h1']; exact ⟨a, c⟩
    have key := ih (j + 1) (by omega) (fun k hk => hb k (List.mem_cons_of_mem _ hk)) A B
    refine ⟨?_, by rw [key.2, hst]⟩
    simp only [List.map_cons, hname, key.1, List.length_cons]
    rfl

end TrashVerif.Proofs.C04SeqSame
