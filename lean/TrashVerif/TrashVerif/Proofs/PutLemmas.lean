/-
  Proofs/PutLemmas.lean — lemmas shared by Proofs/C01.lean and Proofs/C05.lean:
  `get`-characterisations of the FS transformers, `run` through `bind`, the effect of
  `atomicWrite`, `persistLoop`, `move` under `noFaults`.
-/
import TrashVerif.Props.PutCoreDefs
namespace TrashVerif.Proofs.PutLemmas
open TrashVerif Prog FS PutCore

/-! ### prefixes -/

theorem under_iff (a p : CPath) : FS.under a p = true ↔ a <+: p := by
  unfold FS.under; exact List.isPrefixOf_iff_prefix

theorem pfx_concat {a c : CPath} {x : Name} : a <+: c ++ [x] ↔ a = c ++ [x] ∨ a <+: c :=
  List.prefix_concat_iff

theorem pfx_comparable {a c l : CPath} (h1 : a <+: l) (h2 : c <+: l) : a <+: c ∨ c <+: a :=
  List.prefix_or_prefix_of_prefix h1 h2

theorem dropLast_pfx (p : CPath) : p.dropLast <+: p := List.dropLast_prefix p

theorem dropLast_ne {p : CPath} (h : p ≠ []) : p.dropLast ≠ p := by
  intro e
  have := congrArg List.length e
  have hl : p.length ≠ 0 := by simpa using h
  simp at this; omega

theorem dropLast_concat (c : CPath) (x : Name) : (c ++ [x]).dropLast = c := by simp

/-! ### `get` of the transformers -/

/-- what `touchDir` does to the node at the touched path -/
def touch : Option Node → Option Node
  | some (.dir m _) => some (.dir m 0)
  | o => o

@[simp] theorem get_setNode (fs : FS) (p q : CPath) (n : Node) :
    (fs.setNode p n).get q = if q = p then some n else fs.get q := rfl
@[simp] theorem mounts_setNode (fs : FS) (p : CPath) (n : Node) : (fs.setNode p n).mounts = fs.mounts := rfl

@[simp] theorem get_removeNode (fs : FS) (p q : CPath) :
    (fs.removeNode p).get q = if q = p then none else fs.get q := rfl
@[simp] theorem mounts_removeNode (fs : FS) (p : CPath) : (fs.removeNode p).mounts = fs.mounts := rfl

@[simp] theorem get_moveTree (fs : FS) (a c q : CPath) :
    (fs.moveTree a c).get q =
      if FS.under c q then fs.get (a ++ q.drop c.length) else if FS.under a q then none else fs.get q := rfl
@[simp] theorem mounts_moveTree (fs : FS) (a c : CPath) : (fs.moveTree a c).mounts = fs.mounts := rfl

@[simp] theorem get_touchDir (fs : FS) (p q : CPath) :
    (fs.touchDir p).get q = if q = p then touch (fs.get p) else fs.get q := by
  unfold touchDir touch
  split
  · next m t h => by_cases e : q = p <;> simp [e, h]
  · next h =>
    by_cases e : q = p
    · subst e; simp
    · simp [e]
@[simp] theorem mounts_touchDir (fs : FS) (p : CPath) : (fs.touchDir p).mounts = fs.mounts := by
  unfold touchDir; split <;> rfl

theorem dev_congr {fs fs' : FS} (h : fs'.mounts = fs.mounts) (p : CPath) : fs'.dev p = fs.dev p := by
  unfold FS.dev; rw [h]
theorem isMount_congr {fs fs' : FS} (h : fs'.mounts = fs.mounts) (p : CPath) : fs'.isMount p = fs.isMount p := by
  unfold FS.isMount; rw [h]

theorem applyUmask_600 : FS.applyUmask 0o600 = 0o600 := by decide

/-! ### `run` -/

theorem run_bind {α β} (φ : Oracle) (p : Prog α) (f : α → Prog β) (s : RunState) :
    run φ (p >>= f) s = run φ (f (run φ p s).1) (run φ p s).2 := by
  show run φ (Prog.bind p f) s = _
  induction p generalizing s with
  | ret a => rfl
  | get k ih => simp only [Prog.bind, run]; exact ih _ _
  | emit o k ih => simp only [Prog.bind, run]; exact ih _
  | call c k ih =>
    simp only [Prog.bind, run]
    split <;> exact ih _ _

@[simp] theorem run_pure {α} (φ : Oracle) (a : α) (s : RunState) : run φ (pure a : Prog α) s = (a, s) := rfl
@[simp] theorem run_read (φ : Oracle) (s : RunState) : run φ read s = (s.fs, s) := rfl

theorem run_sys_ok {c : Call} {s : RunState} {fs' : FS} (h : c.apply s.fs = .ok fs') :
    run noFaults (sys c) s =
      (.ok (), { s with fs := fs', hist := s.fs :: s.hist, trace := (c, .ok ()) :: s.trace, n := s.n + 1 }) := by
  simp [sys, run, noFaults, h]

theorem run_sys_err {c : Call} {s : RunState} {e : Errno} (h : c.apply s.fs = .error e) :
    run noFaults (sys c) s =
      (.error e, { s with hist := s.fs :: s.hist, trace := (c, .error e) :: s.trace, n := s.n + 1 }) := by
  simp [sys, run, noFaults, h]

theorem run_sys (c : Call) (s : RunState) :
    run noFaults (sys c) s =
      match c.apply s.fs with
      | .ok fs' => (.ok (), { s with fs := fs', hist := s.fs :: s.hist, trace := (c, .ok ()) :: s.trace, n := s.n + 1 })
      | .error e => (.error e, { s with hist := s.fs :: s.hist, trace := (c, .error e) :: s.trace, n := s.n + 1 }) := by
  simp only [sys, run, noFaults]
  split <;> simp_all

/-! ### `atomicWrite` -/

theorem atomicWrite_err {p : CPath} {content : Bytes} {s : RunState} {e : Errno}
    (h : s.fs.createExcl p 0o600 = .error e) :
    (run noFaults (atomicWrite p content) s).1 = .error e ∧
    (run noFaults (atomicWrite p content) s).2.fs = s.fs ∧
    (run noFaults (atomicWrite p content) s).2.hist = s.fs :: s.hist := by
  simp [atomicWrite, run_bind, run_sys, Call.apply, h]

theorem atomicWrite_ok {p : CPath} {content : Bytes} {s : RunState} {fs1 : FS}
    (h : s.fs.createExcl p 0o600 = .ok fs1) (hp : fs1.get p = some (.file [] 0o600 0)) :
    (run noFaults (atomicWrite p content) s).1 = .ok () ∧
    (run noFaults (atomicWrite p content) s).2.fs = fs1.setNode p (.file content 0o600 0) ∧
    (run noFaults (atomicWrite p content) s).2.hist =
      fs1.setNode p (.file content 0o600 0) :: fs1 :: s.fs :: s.hist := by
  simp [atomicWrite, run_bind, run_sys, Call.apply, h, FS.writeData, hp]

/-! ### `persistLoop` -/

/-- state after the exclusive create of `p` -/
def fsA (fs : FS) (p : CPath) : FS := touchDir (setNode fs p (.file [] 0o600 0)) (parent p)
/-- state after the write -/
def fsB (fs : FS) (p : CPath) (content : Bytes) : FS := setNode (fsA fs p) p (.file content 0o600 0)

theorem createExcl_concat (fs : FS) (c : CPath) (x : Name) :
    (∃ e, fs.createExcl (c ++ [x]) 0o600 = .error e) ∨
    (fs.createExcl (c ++ [x]) 0o600 = .ok (fsA fs (c ++ [x])) ∧
      fs.get (c ++ [x]) = none ∧ x.length ≤ 255 ∧ ∃ m t, fs.get c = some (.dir m t)) := by
  unfold createExcl checkParent
  simp only [List.getLast?_concat, parent, List.dropLast_concat, nameMax]
  by_cases hx : x.length > 255
  · left; exact ⟨.ENAMETOOLONG, by simp [hx, Bind.bind, Except.bind]⟩
  · simp only [hx, if_false]
    cases hc : fs.get c with
    | none => left; exact ⟨.ENOENT, rfl⟩
    | some nd =>
      cases nd with
      | file d m t => left; exact ⟨.ENOTDIR, rfl⟩
      | link t => left; exact ⟨.ENOTDIR, rfl⟩
      | dir m t =>
        by_cases he : exists_ fs (c ++ [x])
        · left; exact ⟨.EEXIST, by simp [he, Bind.bind, Except.bind]⟩
        · right
          refine ⟨?_, ?_, by omega, m, t, rfl⟩
          · simp [he, fsA, parent, applyUmask_600, Bind.bind, Except.bind]
          · simpa [exists_] using he

theorem run_read_bind {β} (φ : Oracle) (f : FS → Prog β) (s : RunState) :
    run φ (read >>= f) s = run φ (f s.fs) s := rfl

theorem basename_stem (base suffix : Bytes) (tooLong : Bool) :
    trashinfoBasename base suffix tooLong =
      stemOf (trashinfoBasename base suffix tooLong) ++ trashinfoExt := by
  unfold trashinfoBasename stemOf
  simp only [← List.append_assoc, List.length_append, Nat.add_sub_cancel, List.take_left']

def PersistRes (infoC filesC : CPath) (content : Bytes) (s : RunState)
    (r : (Persist × PutSt) × RunState) : Prop :=
  ((∀ name, r.1.1 ≠ .created name) ∧ r.2.fs = s.fs ∧ (∀ x ∈ r.2.hist, x = s.fs ∨ x ∈ s.hist)) ∨
  (∃ name, r.1.1 = .created name ∧ name = stemOf name ++ trashinfoExt ∧
     s.fs.get (filesC ++ [stemOf name]) = none ∧ s.fs.get (infoC ++ [name]) = none ∧ name.length ≤ 255 ∧
     (∃ m t, s.fs.get infoC = some (.dir m t)) ∧
     r.2.fs = fsB s.fs (infoC ++ [name]) content ∧
     (∀ x ∈ r.2.hist, x = fsB s.fs (infoC ++ [name]) content ∨ x = fsA s.fs (infoC ++ [name]) ∨
        x = s.fs ∨ x ∈ s.hist))

theorem persist_spec (infoC filesC : CPath) (base content : Bytes) :
    ∀ (fuel index : Nat) (tooLong : Bool) (st : PutSt) (s : RunState),
      PersistRes infoC filesC content s
        (run noFaults (persistLoop infoC filesC base content fuel index tooLong st) s) := by
  intro fuel
  induction fuel with
  | zero =>
    intro index tooLong st s
    left; simp only [persistLoop, run_pure]
    exact ⟨fun _ h => (by cases h), trivial, fun x hx => Or.inr hx⟩
  | succ fuel ih =>
    intro index tooLong st s
    unfold persistLoop
    generalize suffixFor index st = pr
    obtain ⟨suffix, st'⟩ := pr
    simp only [run_read_bind]
    generalize hname : trashinfoBasename base suffix tooLong = name
    have hstem : name = stemOf name ++ trashinfoExt := by rw [← hname]; exact basename_stem _ _ _
    have hst : List.take (List.length name - List.length trashinfoExt) name = stemOf name := rfl
    rw [hst]
    by_cases hl : lexistsC s.fs (filesC ++ [stemOf name]) = true
    · simp only [hl, if_true]; exact ih _ _ _ _
    · rw [if_neg hl]
      simp only [run_bind]
      have hfree : s.fs.get (filesC ++ [stemOf name]) = none := by simpa [lexistsC] using hl
      rcases createExcl_concat s.fs infoC name with ⟨e, he⟩ | ⟨hok, hnone, hlen, hdir⟩
      · obtain ⟨h1, h2, h3⟩ := atomicWrite_err (content := content) he
        generalize run noFaults (atomicWrite (infoC ++ [name]) content) s = r2 at h1 h2 h3
        obtain ⟨res, s2⟩ := r2
        simp only at h1 h2 h3
        subst h1
        have key : ∀ i tl, PersistRes infoC filesC content s
            (run noFaults (persistLoop infoC filesC base content fuel i tl st') s2) := by
          intro i tl
          have := ih i tl st' s2
          unfold PersistRes at this ⊢
          rw [h2, h3] at this
          rcases this with ⟨a, b, c⟩ | ⟨nm, a, b, c, d, e', f, g, h⟩
          · left; refine ⟨a, b, fun x hx => ?_⟩
            rcases c x hx with h | h
            · exact Or.inl h
            · rcases List.mem_cons.1 h with h | h
              · exact Or.inl h
              · exact Or.inr h
          · right; refine ⟨nm, a, b, c, d, e', f, g, fun x hx => ?_⟩
            rcases h x hx with h | h | h | h
            · exact Or.inl h
            · exact Or.inr (Or.inl h)
            · exact Or.inr (Or.inr (Or.inl h))
            · rcases List.mem_cons.1 h with h | h
              · exact Or.inr (Or.inr (Or.inl h))
              · exact Or.inr (Or.inr (Or.inr h))
        have stop : ∀ e', PersistRes infoC filesC content s
            (run noFaults (pure (Persist.failed e', st')) s2) := by
          intro e'
          left; simp only [run_pure]
          refine ⟨fun _ h => (by cases h), h2, fun x hx => ?_⟩
          rw [h3] at hx
          rcases List.mem_cons.1 hx with h | h
          · exact Or.inl h
          · exact Or.inr h
        split
        · next h => cases h
        · split
          · exact stop _
          · exact key _ _
        · exact key _ _
        · exact stop _
      · have hp : (fsA s.fs (infoC ++ [name])).get (infoC ++ [name]) = some (.file [] 0o600 0) := by
          simp [fsA, parent]
        obtain ⟨h1, h2, h3⟩ := atomicWrite_ok (content := content) hok hp
        generalize run noFaults (atomicWrite (infoC ++ [name]) content) s = r2 at h1 h2 h3
        obtain ⟨res, s2⟩ := r2
        simp only at h1 h2 h3
        subst h1
        right
        simp only [run_pure]
        refine ⟨name, rfl, hstem, hfree, hnone, hlen, hdir, h2, fun x hx => ?_⟩
        rw [h3] at hx
        simp only [List.mem_cons] at hx
        exact hx
/-! ### `move` = one `rename` -/

theorem move_spec {src c : CPath} {x : Name} {s : RunState} {na : Node} {m t : Nat}
    (hdst : s.fs.get (c ++ [x]) = none) (hsrc : s.fs.get src = some na)
    (hmnt : s.fs.isMount src = false) (hdev : s.fs.dev (parent src) = s.fs.dev c)
    (hx : x.length ≤ 255) (hc : s.fs.get c = some (.dir m t))
    (hne : src ≠ c ++ [x]) (hnu : ¬ FS.under src (c ++ [x]) = true) :
    (run noFaults (move src (c ++ [x])) s).1 = .ok () ∧
    (run noFaults (move src (c ++ [x])) s).2.fs =
      touchDir (touchDir (moveTree s.fs src (c ++ [x])) (parent src)) c ∧
    (run noFaults (move src (c ++ [x])) s).2.hist = s.fs :: s.hist := by
  have hid : isdirC s.fs (c ++ [x]) = false := by simp [isdirC, statC, followC, hdst]
  have hcp : checkParent s.fs (c ++ [x]) = .ok () := by
    unfold checkParent
    simp only [List.getLast?_concat, parent, List.dropLast_concat, nameMax, hc]
    simp [Nat.not_lt.2 hx]
  have hr : s.fs.rename src (c ++ [x]) = .ok (touchDir (touchDir (moveTree s.fs src (c ++ [x])) (parent src)) c) := by
    unfold FS.rename
    have hdev' : s.fs.dev (List.dropLast src) = s.fs.dev c := hdev
    simp [hsrc, hmnt, parent, hdev', hcp, hne, hnu, hdst, Bind.bind, Except.bind]
  unfold move
  simp [hid, run_bind, run_sys, Call.apply, hr]
/-! ### geometry of a `Setting`, and the state after the rename -/

theorem touch_touch (o : Option Node) : touch (touch o) = touch o := by
  rcases o with _ | (_ | _ | _) <;> rfl

theorem touch_dir {o : Option Node} {m t : Nat} (h : o = some (.dir m t)) : touch o = some (.dir m 0) := by
  subst h; rfl

theorem touch_keeps (fs : FS) (q : CPath) {o : Option Node} (h : o = touch (fs.get q)) :
    ∀ m t, fs.get q = some (.dir m t) → ∃ t', o = some (.dir m t') := by
  intro m t hq; exact ⟨0, by rw [h, touch_dir hq]⟩

theorem fsA_get (fs : FS) (I : CPath) (n : Name) (q : CPath) :
    (fsA fs (I ++ [n])).get q =
      if q = I ++ [n] then some (.file [] 0o600 0) else if q = I then touch (fs.get I) else fs.get q := by
  have : I ≠ I ++ [n] := by intro h; simpa using congrArg List.length h
  simp only [fsA, get_touchDir, get_setNode, parent, List.dropLast_concat, if_neg this]
  by_cases h1 : q = I ++ [n]
  · subst h1; simp
  · simp [h1]

theorem fsB_get (fs : FS) (I : CPath) (n : Name) (content : Bytes) (q : CPath) :
    (fsB fs (I ++ [n]) content).get q =
      if q = I ++ [n] then some (.file content 0o600 0) else if q = I then touch (fs.get I) else fs.get q := by
  simp only [fsB, get_setNode, fsA_get]
  by_cases h1 : q = I ++ [n] <;> simp [h1]

theorem fsA_mounts (fs : FS) (p : CPath) : (fsA fs p).mounts = fs.mounts := by simp [fsA]
theorem fsB_mounts (fs : FS) (p : CPath) (c : Bytes) : (fsB fs p c).mounts = fs.mounts := by simp [fsB, fsA]

/-- the geometry of a `Setting`, on `<+:` -/
structure Geo (I F S : CPath) : Prop where
  h1 : ¬ I <+: F
  h2 : ¬ F <+: I
  h3 : ¬ S <+: I
  h4 : ¬ S <+: F
  h5 : ¬ I <+: S
  h6 : ¬ F <+: S
  h7 : S ≠ []

theorem Geo.of_setting {fs : FS} {I F S : CPath} (h : Setting fs I F S) : Geo I F S := by
  obtain ⟨_, _, ⟨a, b⟩, _, c, _, _, ⟨d, e⟩, ⟨f, g⟩⟩ := h
  simp only [under_iff] at a b d e f g
  exact ⟨a, b, d, e, f, g, c⟩

section geo
variable {I F S : CPath} (g : Geo I F S) {n t : Name} (hnt : t ≠ n)
include g

theorem Geo.S_D : ¬ S <+: F ++ [t] := by
  rw [pfx_concat]; rintro (h | h)
  · exact g.h6 (h ▸ List.prefix_append F [t])
  · exact g.h4 h
theorem Geo.S_P : ¬ S <+: I ++ [n] := by
  rw [pfx_concat]; rintro (h | h)
  · exact g.h5 (h ▸ List.prefix_append I [n])
  · exact g.h3 h
theorem Geo.D_S : ¬ F ++ [t] <+: S := fun h => g.h6 ((List.prefix_append F [t]).trans h)
theorem Geo.D_q {q : CPath} (hq : S <+: q) : ¬ F ++ [t] <+: q := fun h =>
  (pfx_comparable h hq).elim g.D_S g.S_D
theorem Geo.D_ps : ¬ F ++ [t] <+: parent S := fun h => g.D_S (h.trans (dropLast_pfx S))
omit g in
theorem Geo.D_F : ¬ F ++ [t] <+: F := fun h => by
  have := h.length_le; simp only [List.length_append, List.length_singleton] at this; omega
theorem Geo.D_I : ¬ F ++ [t] <+: I := fun h => g.h2 ((List.prefix_append F [t]).trans h)
include hnt in
theorem Geo.D_P : ¬ F ++ [t] <+: I ++ [n] := by
  rw [pfx_concat]; rintro (h | h)
  · exact hnt (by simpa using (List.append_inj' h rfl).2)
  · exact g.D_I h
theorem Geo.P_ps : I ++ [n] ≠ parent S := fun h =>
  g.h5 ((List.prefix_append I [n]).trans (h ▸ dropLast_pfx S))
theorem Geo.P_F : I ++ [n] ≠ F := fun h => g.h1 (h ▸ List.prefix_append I [n])
theorem Geo.I_ps : I ≠ parent S := fun h => g.h5 (h ▸ dropLast_pfx S)
theorem Geo.I_F : I ≠ F := fun h => g.h1 (h ▸ List.prefix_refl I)
theorem Geo.S_ps : ¬ S <+: parent S := fun h => by
  have := h.length_le
  have hl : S.length ≠ 0 := by simpa using g.h7
  simp [parent] at this; omega
end geo


/-- the state after the rename, over the state `fs2` in which the info file is complete -/
def fsC (fs2 : FS) (S D F : CPath) : FS := touchDir (touchDir (moveTree fs2 S D) (parent S)) F

theorem fsC_get (fs2 : FS) (S D F q : CPath) :
    (fsC fs2 S D F).get q =
      if q = F then touch (if F = parent S then touch ((moveTree fs2 S D).get (parent S)) else (moveTree fs2 S D).get F)
      else if q = parent S then touch ((moveTree fs2 S D).get (parent S)) else (moveTree fs2 S D).get q := by
  simp only [fsC, get_touchDir]

theorem get_moveTree' (fs : FS) (a c q : CPath) :
    (fs.moveTree a c).get q =
      if c <+: q then fs.get (a ++ q.drop c.length) else if a <+: q then none else fs.get q := by
  simp only [get_moveTree, under_iff]

section final
set_option linter.unusedSectionVars false
variable {I F S : CPath} (g : Geo I F S) {n t : Name} (hnt : t ≠ n) (fs : FS) (content : Bytes)
include g hnt

/-- `moveTree` leaves alone what is neither under the source nor under the destination -/
theorem mt_other {q : CPath} (h1 : ¬ F ++ [t] <+: q) (h2 : ¬ S <+: q) :
    (moveTree (fsB fs (I ++ [n]) content) S (F ++ [t])).get q = (fsB fs (I ++ [n]) content).get q := by
  rw [get_moveTree', if_neg h1, if_neg h2]

theorem final_whole (rel : CPath) :
    (fsC (fsB fs (I ++ [n]) content) S (F ++ [t]) F).get (F ++ [t] ++ rel) = fs.get (S ++ rel) := by
  have a : F ++ [t] ++ rel ≠ F := fun h => Geo.D_F (t := t) (h ▸ List.prefix_append _ rel)
  have b : F ++ [t] ++ rel ≠ parent S := fun h => g.D_ps (t := t) (h ▸ List.prefix_append _ rel)
  have c : S ++ rel ≠ I ++ [n] := fun h => g.S_P (n := n) (h ▸ List.prefix_append S rel)
  have d : S ++ rel ≠ I := fun h => g.h3 (h ▸ List.prefix_append S rel)
  rw [fsC_get, if_neg a, if_neg b, get_moveTree', if_pos (List.prefix_append _ rel),
    List.drop_left, fsB_get, if_neg c, if_neg d]

theorem final_gone {q : CPath} (hq : S <+: q) :
    (fsC (fsB fs (I ++ [n]) content) S (F ++ [t]) F).get q = none := by
  have a : q ≠ F := fun h => g.h4 (h ▸ hq)
  have b : q ≠ parent S := fun h => g.S_ps (h ▸ hq)
  rw [fsC_get, if_neg a, if_neg b, get_moveTree', if_neg (g.D_q hq), if_pos hq]

theorem final_info :
    (fsC (fsB fs (I ++ [n]) content) S (F ++ [t]) F).get (I ++ [n]) = some (.file content 0o600 0) := by
  rw [fsC_get, if_neg g.P_F, if_neg g.P_ps, mt_other g hnt fs content (g.D_P hnt) g.S_P, fsB_get, if_pos rfl]

theorem final_ps :
    (fsC (fsB fs (I ++ [n]) content) S (F ++ [t]) F).get (parent S) = touch (fs.get (parent S)) := by
  have e : (moveTree (fsB fs (I ++ [n]) content) S (F ++ [t])).get (parent S) = fs.get (parent S) := by
    rw [mt_other g hnt fs content g.D_ps g.S_ps, fsB_get, if_neg (Ne.symm g.P_ps), if_neg (Ne.symm g.I_ps)]
  rw [fsC_get, e]
  by_cases h : parent S = F
  · rw [if_pos h, if_pos h.symm, touch_touch]
  · rw [if_neg h, if_pos rfl]

theorem final_F :
    (fsC (fsB fs (I ++ [n]) content) S (F ++ [t]) F).get F = touch (fs.get F) := by
  by_cases h : parent S = F
  · rw [← h]; have := final_ps g hnt fs content; rw [h] at this ⊢; exact this
  · have e : (moveTree (fsB fs (I ++ [n]) content) S (F ++ [t])).get F = fs.get F := by
      rw [mt_other g hnt fs content Geo.D_F g.h4, fsB_get, if_neg (Ne.symm g.P_F), if_neg (Ne.symm g.I_F)]
    rw [fsC_get, if_pos rfl, if_neg (Ne.symm h), e]

theorem final_I :
    (fsC (fsB fs (I ++ [n]) content) S (F ++ [t]) F).get I = touch (fs.get I) := by
  have a : I ≠ I ++ [n] := by intro h; simpa using congrArg List.length h
  rw [fsC_get, if_neg g.I_F, if_neg g.I_ps, mt_other g hnt fs content g.D_I g.h3, fsB_get, if_neg a, if_pos rfl]

theorem final_frame {q : CPath} (h1 : ¬ S <+: q) (h2 : ¬ F ++ [t] <+: q) (h3 : q ≠ I ++ [n])
    (h4 : q ≠ parent S) (h5 : q ≠ F) (h6 : q ≠ I) :
    (fsC (fsB fs (I ++ [n]) content) S (F ++ [t]) F).get q = fs.get q := by
  rw [fsC_get, if_neg h5, if_neg h4, mt_other g hnt fs content h2 h1, fsB_get, if_neg h3, if_neg h6]

end final

/-! ### the core in a `Setting` -/

theorem ext_len : trashinfoExt.length = 10 := by decide +kernel

theorem stem_ne {name : Bytes} (h : name = stemOf name ++ trashinfoExt) : stemOf name ≠ name := by
  intro e
  have := congrArg List.length h
  rw [List.length_append, ext_len, e] at this
  omega

theorem isDirAt_get {fs : FS} {p : CPath} (h : fs.isDirAt p = true) : ∃ m t, fs.get p = some (.dir m t) := by
  unfold isDirAt at h
  split at h
  · next nd hg => cases nd <;> simp_all [Node.isDir]
  · cases h

/-- outcome of the core in a `Setting` -/
def CoreRes (I F S : CPath) (content : Bytes) (s : RunState)
    (r : (Except Reason Bytes × PutSt) × RunState) : Prop :=
  (∃ e, r.1.1 = .error (.persistError e) ∧ r.2.fs = s.fs ∧ ∀ x ∈ r.2.hist, x = s.fs ∨ x ∈ s.hist) ∨
  (∃ name, r.1.1 = .ok name ∧ name = stemOf name ++ trashinfoExt ∧
     s.fs.get (F ++ [stemOf name]) = none ∧ s.fs.get (I ++ [name]) = none ∧
     r.2.fs = fsC (fsB s.fs (I ++ [name]) content) S (F ++ [stemOf name]) F ∧
     ∀ x ∈ r.2.hist, x = fsB s.fs (I ++ [name]) content ∨ x = fsA s.fs (I ++ [name]) ∨ x = s.fs ∨ x ∈ s.hist)

theorem core_spec {I F S : CPath} (base content : Bytes) (st : PutSt) (s : RunState)
    (h : Setting s.fs I F S) :
    CoreRes I F S content s (run noFaults (putCore I F base content (fun _ => .ok S) st) s) := by
  have g := Geo.of_setting h
  unfold putCore
  rw [run_bind]
  have ps := persist_spec I F base content persistFuel 0 false st s
  generalize run noFaults (persistLoop I F base content persistFuel 0 false st) s = rp at ps
  obtain ⟨⟨pr, st1⟩, s1⟩ := rp
  rcases ps with ⟨a, b, c⟩ | ⟨name, a, hst, hfree, hfreeI, hlen, hdir, hfs, hh⟩
  · left
    simp only at a b c ⊢
    cases pr with
    | created nm => exact absurd rfl (a nm)
    | failed e => exact ⟨e, rfl, b, c⟩
    | outOfFuel => exact ⟨.ELOOP, rfl, b, c⟩
  · right
    simp only at a hfs hh ⊢
    subst a
    simp only [run_bind, run_read]
    have hnt := stem_ne hst
    obtain ⟨na, hna⟩ := Option.isSome_iff_exists.1 h.srcExists
    obtain ⟨m, t, hF⟩ := isDirAt_get h.filesDir
    have hlt : (stemOf name).length ≤ 255 := by
      have := congrArg List.length hst
      rw [List.length_append, ext_len] at this; omega
    have hm : s1.fs.mounts = s.fs.mounts := by rw [hfs, fsB_mounts]
    have d1 : F ++ [stemOf name] ≠ I ++ [name] := fun e => g.D_P hnt (e ▸ List.prefix_refl _)
    have d2 : F ++ [stemOf name] ≠ I := fun e => g.D_I (t := stemOf name) (e ▸ List.prefix_refl _)
    have d3 : S ≠ I ++ [name] := fun e => g.S_P (n := name) (e ▸ List.prefix_refl _)
    have d4 : S ≠ I := fun e => g.h3 (e ▸ List.prefix_refl _)
    have e1 : s1.fs.get (F ++ [stemOf name]) = none := by
      rw [hfs, fsB_get, if_neg d1, if_neg d2, hfree]
    have e2 : s1.fs.get S = some na := by
      rw [hfs, fsB_get, if_neg d3, if_neg d4, hna]
    have e3 : s1.fs.isMount S = false := by
      rw [isMount_congr hm]; exact h.srcNotMount
    have e4 : s1.fs.dev (parent S) = s1.fs.dev F := by
      rw [dev_congr hm, dev_congr hm]; exact h.sameDev
    have e5 : s1.fs.get F = some (.dir m t) := by
      rw [hfs, fsB_get, if_neg (Ne.symm g.P_F), if_neg (Ne.symm g.I_F), hF]
    have e6 : S ≠ F ++ [stemOf name] := fun e => g.S_D (t := stemOf name) (e ▸ List.prefix_refl _)
    have e7 : ¬ FS.under S (F ++ [stemOf name]) = true := by rw [under_iff]; exact g.S_D
    obtain ⟨m1, m2, m3⟩ := move_spec e1 e2 e3 e4 hlt e5 e6 e7
    generalize run noFaults (move S (F ++ [stemOf name])) s1 = rm at m1 m2 m3
    obtain ⟨res, s2⟩ := rm
    simp only at m1 m2 m3
    subst m1
    simp only [run_pure]
    refine ⟨name, rfl, hst, hfree, hfreeI, ?_, fun x hx => ?_⟩
    · rw [m2, hfs]; rfl
    · rw [m3] at hx
      rcases List.mem_cons.1 hx with hx | hx
      · left; rw [hx, hfs]
      · exact hh x hx

end TrashVerif.Proofs.PutLemmas
