/-
  Proofs/C15.lean — proofs of the statements of Props/C15.lean.
-/
import TrashVerif.Proofs.C11
import TrashVerif.Proofs.C17Lemmas
namespace TrashVerif.Proofs.C15
open TrashVerif Prog FS PutLemmas C04 C11

theorem mem_crashStates {α} {φ : Oracle} {p : Prog α} {fs s : FS} (h : s ∈ crashStates φ p fs) :
    s = (run φ p { fs := fs }).2.fs ∨ s ∈ (run φ p { fs := fs }).2.hist := by
  unfold crashStates at h
  simp only [List.mem_reverse, List.mem_cons] at h
  exact h

/-! ### a removal that reports success has removed -/

def OkGone (p : CPath) (x : Res × RunState) : Prop := x.1 = .ok () → x.2.fs.get p = none

theorem sys_rm_okGone (φ : Oracle) {c : Call} {p : CPath} (hc : c = .unlink p ∨ c = .rmdir p) (s : RunState) :
    OkGone p (run φ (sys c) s) := by
  rcases C17.sys_cases φ c s with ⟨e, h⟩ | ⟨fs', _, ha, h⟩
  · rw [h]; intro h'; cases h'
  · rw [h]; intro _
    obtain ⟨r, hr, e, _⟩ := apply_rm (A := fun r => r = p) ⟨p, hc, rfl⟩ ha
    subst hr
    show fs'.get r = none
    rw [e]; exact rm_get_self _ _

theorem rmtree_okGone (φ : Oracle) (p : CPath) (s : RunState) : OkGone p (run φ (rmtree p) s) := by
  unfold rmtree
  rw [run_read_bind]
  split
  · intro h; cases h
  · intro h; cases h
  · intro h; cases h
  · rw [run_bind]
    split
    · intro h; cases h
    · exact sys_rm_okGone φ (Or.inr rfl) _

theorem removeFile2_okGone (φ : Oracle) (p : CPath) (s : RunState) : OkGone p (run φ (removeFile2 p) s) := by
  unfold removeFile2
  rw [run_bind]
  have h1 := sys_rm_okGone φ (c := .unlink p) (Or.inl rfl) s
  split
  · next heq => intro _; exact h1 heq
  · exact rmtree_okGone φ p _

theorem removeIfExists_okGone (φ : Oracle) (p : CPath) (s : RunState) : OkGone p (run φ (removeIfExists p) s) := by
  unfold removeIfExists
  rw [run_read_bind]
  split
  · exact removeFile2_okGone φ p s
  · next h => intro _; simpa [lexistsC] using h

/-! ### re-running a purge: well-formed trees are removed completely -/

/-- every present path is listed in `dom` -/
def Wf (fs : FS) : Prop := ∀ q, (fs.get q).isSome = true → q ∈ fs.dom
/-- at or below `P`, the parent of a present path is a directory -/
def Closed (P : CPath) (fs : FS) : Prop :=
  ∀ q x, P <+: q → (fs.get (q ++ [x])).isSome = true → fs.isDirAt q = true
/-- no mount point at or below `P` -/
def NoMnt (P : CPath) (fs : FS) : Prop := ∀ q, P <+: q → fs.isMount q = false

def G (P : CPath) (fs : FS) : Prop := Wf fs ∧ Closed P fs ∧ NoMnt P fs

theorem dom_touchDir (fs : FS) (p : CPath) : (fs.touchDir p).dom = fs.dom := by
  unfold touchDir; split <;> rfl

theorem isSome_of_rm {fs : FS} {r q : CPath} (h : ((touchDir (removeNode fs r) (parent r)).get q).isSome = true) :
    (fs.get q).isSome = true := by
  rcases rm_get_shrink fs r q with h1 | h1
  · rw [h1] at h; cases h
  · rw [← touch_isSome, ← h1, touch_isSome]; exact h

theorem hasChildren_false {fs : FS} {r q : CPath} (h : fs.hasChildren r = false) (hd : q ∈ fs.dom)
    (hs : SU r q) : fs.get q = none := by
  unfold hasChildren at h
  have := List.any_eq_false.1 h q hd
  have hsu : strictlyUnder r q = true := by
    simp only [strictlyUnder, Bool.and_eq_true, decide_eq_true_eq]
    exact ⟨List.isPrefixOf_iff_prefix.2 hs.1, hs.2⟩
  simp only [hsu, Bool.true_and, exists_] at this
  cases hg : fs.get q with
  | none => rfl
  | some n => rw [hg] at this; simp at this

theorem G_keep (P : CPath) {A : CPath → Prop} :
    ∀ c, KR A c → ∀ fs fs', G P fs → c.apply fs = .ok fs' → G P fs' := by
  intro c hc fs fs' ⟨hw, hcl, hm⟩ h
  obtain ⟨r, _, rfl, _, hcase⟩ := apply_rm hc h
  refine ⟨fun q hq => ?_, fun q x hP hq => ?_, fun q hP => ?_⟩
  · rw [dom_touchDir]; exact hw q (isSome_of_rm hq)
  · have hq0 := isSome_of_rm hq
    have hd := hcl q x hP hq0
    have hne : q ≠ r := by
      rintro rfl
      rcases hcase with ⟨_, hnd⟩ | ⟨_, _, _, hch⟩
      · rw [hnd] at hd; cases hd
      · have := hasChildren_false hch (hw _ hq0) ⟨List.prefix_append q [x], by simp⟩
        rw [this] at hq0; cases hq0
    rw [isDirAt_touch (rm_get_touch fs hne)]; exact hd
  · rw [isMount_congr (fs := fs) (by simp)]; exact hm q hP

theorem closed_anc {P : CPath} {fs : FS} (hcl : Closed P fs) :
    ∀ (n : Nat) (r q : CPath), r.length = n → P <+: q → r ≠ [] → (fs.get (q ++ r)).isSome = true →
      fs.isDirAt q = true := by
  intro n
  induction n with
  | zero => intro r q hl _ hr; exact absurd (List.length_eq_zero_iff.1 hl) hr
  | succ n ih =>
    intro r q hl hP hr hs
    obtain ⟨r', x, rfl⟩ := C07.exists_snoc hr
    rw [← List.append_assoc] at hs
    have hd := hcl (q ++ r') x (hP.trans (List.prefix_append _ _)) hs
    by_cases hr' : r' = []
    · subst hr'; simpa using hd
    · refine ih r' q (by simpa using hl) hP hr' ?_
      obtain ⟨m, t, hg⟩ := isDirAt_get hd
      rw [hg]; rfl

/-- nothing exists strictly below a path that is not a directory -/
theorem nothing_below {P c q : CPath} {fs : FS} (hcl : Closed P fs) (hP : P <+: c) (hc : fs.isDirAt c = false)
    (hq : SU c q) : fs.get q = none := by
  obtain ⟨t, rfl⟩ := hq.1
  have ht : t ≠ [] := by rintro rfl; have := hq.2; simp at this
  cases hg : fs.get (c ++ t) with
  | none => rfl
  | some nd =>
    have := closed_anc hcl _ t c rfl hP ht (by rw [hg]; rfl)
    rw [hc] at this; cases this

/-- fuel `f` suffices for the directories at or below `p` -/
def Fu (f : Nat) (p : CPath) (fs : FS) : Prop := ∀ q, p <+: q → fs.isDirAt q = true → q.length < p.length + f

theorem isDirAt_isSome {fs : FS} {q : CPath} (h : fs.isDirAt q = true) : (fs.get q).isSome = true := by
  obtain ⟨m, t, hg⟩ := isDirAt_get h; rw [hg]; rfl

/-- the facts about the state after the subtree `c` (a child of `p`) was handled by a program that
    removes only at or below `c` -/
theorem step_inv {p c : CPath} (hcl : c.length = p.length + 1)
    {Y : Prog Res} (hY : Iss InvT (KR (U c)) Y) (s : RunState) (hG : G p s.fs) (hd : s.fs.isDirAt p = true) :
    G p (run noFaults Y s).2.fs ∧ Shr s.fs (run noFaults Y s).2.fs ∧ (run noFaults Y s).2.fs.isDirAt p = true ∧
    ∀ q, ¬ c <+: q → q ≠ parent c → (run noFaults Y s).2.fs.get q = s.fs.get q := by
  have hpne : ∀ r, c <+: r → p ≠ r := fun r hr e => by
    have := hr.length_le; rw [← e] at this; omega
  refine ⟨(Iss.inv noFaults (G p) (G_keep p) Y s hY hG).1,
    (Iss.inv noFaults (Shr s.fs) (shr_keep s.fs) Y s hY (Shr.refl _)).1, ?_,
    fun q h1 h2 => (frame_U noFaults hY s h1 h2).1⟩
  have := (Iss.inv noFaults (fun fs => touch (fs.get p) = touch (s.fs.get p)) (touch_keep _ hpne) Y s hY rfl).1
  rw [isDirAt_touch this]; exact hd

theorem prefix_eq_of_length {a c : CPath} (h : a <+: c) (hl : a.length = c.length) : a = c :=
  h.eq_of_length hl

theorem rmInner_ok : ∀ (fuel : Nat) (p : CPath) (s : RunState), G p s.fs → s.fs.isDirAt p = true → Fu fuel p s.fs →
    (run noFaults (rmInner fuel p) s).1 = .ok () ∧
    ∀ q, SU p q → (run noFaults (rmInner fuel p) s).2.fs.get q = none := by
  intro fuel
  induction fuel with
  | zero =>
    intro p s _ hd hf
    have := hf p (List.prefix_refl p) hd
    omega
  | succ fuel ih =>
    intro p
    have hgo : ∀ (cs : List CPath) (s : RunState), G p s.fs → s.fs.isDirAt p = true → Fu (fuel + 1) p s.fs →
        cs.Nodup → (∀ c ∈ cs, c.length = p.length + 1 ∧ p <+: c ∧ (s.fs.get c).isSome = true) →
        (∀ q, SU p q → (s.fs.get q).isSome = true → ∃ c ∈ cs, c <+: q) →
        (run noFaults (rmInner.go fuel cs) s).1 = .ok () ∧
        ∀ q, SU p q → (run noFaults (rmInner.go fuel cs) s).2.fs.get q = none := by
      intro cs
      induction cs with
      | nil =>
        intro s _ _ _ _ _ hrem
        unfold rmInner.go
        refine ⟨rfl, fun q hq => ?_⟩
        show s.fs.get q = none
        cases hg : s.fs.get q with
        | none => rfl
        | some nd =>
          obtain ⟨c, hc, _⟩ := hrem q hq (by rw [hg]; rfl)
          cases hc
      | cons c cs ihc =>
        intro s hG hd hf hnd hcs hrem
        obtain ⟨hcl, hpc, hcsome⟩ := hcs c List.mem_cons_self
        have hGc : G c s.fs := ⟨hG.1, fun q x hq => hG.2.1 q x (hpc.trans hq), fun q hq => hG.2.2 q (hpc.trans hq)⟩
        -- what is needed to go on with `cs` from a state `s1` reached by removing below `c`
        have next : ∀ s1 : RunState, G p s1.fs → Shr s.fs s1.fs → s1.fs.isDirAt p = true →
            (∀ q, ¬ c <+: q → q ≠ parent c → s1.fs.get q = s.fs.get q) →
            (∀ q, c <+: q → s1.fs.get q = none) →
            (run noFaults (rmInner.go fuel cs) s1).1 = .ok () ∧
            ∀ q, SU p q → (run noFaults (rmInner.go fuel cs) s1).2.fs.get q = none := by
          intro s1 hG1 hsh hd1 hfr hgone
          refine ihc s1 hG1 hd1 (fun q hq hdq => hf q hq (hsh.isDir hdq)) (List.nodup_cons.1 hnd).2 ?_ ?_
          · intro c' hc'
            obtain ⟨hcl', hpc', hs'⟩ := hcs c' (List.mem_cons_of_mem _ hc')
            refine ⟨hcl', hpc', ?_⟩
            have hne : c ≠ c' := fun e => (List.nodup_cons.1 hnd).1 (e ▸ hc')
            rw [hfr c' (fun hpre => hne (prefix_eq_of_length hpre (by omega)))
              (fun e => by have := congrArg List.length e; simp [parent] at this; omega)]
            exact hs'
          · intro q hq hs1
            obtain ⟨c'', hc'', hpre⟩ := hrem q hq (hsh.isSome hs1)
            rcases List.mem_cons.1 hc'' with rfl | hmem
            · rw [hgone q hpre] at hs1; cases hs1
            · exact ⟨c'', hmem, hpre⟩
        unfold rmInner.go
        rw [run_read_bind]
        cases hgc : s.fs.get c with
        | none => rw [hgc] at hcsome; cases hcsome
        | some nd =>
          have hfu : Fu fuel c s.fs := fun q hq hdq => by
            have := hf q (hpc.trans hq) hdq; omega
          cases nd with
          | dir m t =>
            simp only []
            have hdc : s.fs.isDirAt c = true := by simp [isDirAt, hgc, Node.isDir]
            obtain ⟨ok1, gone1⟩ := ih c s hGc hdc hfu
            -- the combined program: remove below `c`, then `c`
            let Y : Prog Res := rmInner fuel c >>= fun r => match r with
              | .error e => pure (.error e)
              | .ok () => sys (.rmdir c)
            have hY : Iss InvT (KR (U c)) Y :=
              Iss.bind (Iss.mono (fun _ => KR.mono fun r hr => hr.1) (iss_rmInner fuel c)) fun r => by
                split
                · exact Iss.pure _
                · exact Iss.sys (kr_rmdir (List.prefix_refl c))
            -- state after `rmInner`
            have hG2 := (Iss.inv noFaults (G p) (G_keep p) _ s (iss_rmInner fuel c) hG).1
            have hd2 : (run noFaults (rmInner fuel c) s).2.fs.isDirAt c = true := by
              have := (Iss.inv noFaults (fun fs => touch (fs.get c) = touch (s.fs.get c))
                (touch_keep _ (fun r (hr : SU c r) => hr.ne.symm)) _ s (iss_rmInner fuel c) rfl).1
              rw [isDirAt_touch this]; exact hdc
            have hrm : ∃ fs', Call.apply (run noFaults (rmInner fuel c) s).2.fs (.rmdir c) = .ok fs' := by
              obtain ⟨m2, t2, hg2⟩ := isDirAt_get hd2
              refine ⟨touchDir (removeNode (run noFaults (rmInner fuel c) s).2.fs c) (parent c), ?_⟩
              simp only [Call.apply, FS.rmdir, hg2]
              rw [if_neg (by rw [hG2.2.2 c hpc]; simp), if_neg]
              rw [Bool.not_eq_true]
              unfold hasChildren
              rw [List.any_eq_false]
              intro q _
              simp only [Bool.and_eq_true, not_and, strictlyUnder, decide_eq_true_eq, exists_]
              intro ⟨h1, h2⟩
              rw [gone1 q ⟨List.isPrefixOf_iff_prefix.1 h1, h2⟩]; simp
            obtain ⟨fs', hfs'⟩ := hrm
            have hrunY : run noFaults Y (s) = run noFaults (sys (.rmdir c)) (run noFaults (rmInner fuel c) s).2 := by
              show run noFaults (rmInner fuel c >>= _) s = _
              rw [run_bind, ok1]
            have hsys := run_sys (.rmdir c) (run noFaults (rmInner fuel c) s).2
            rw [hfs'] at hsys
            simp only at hsys
            obtain ⟨a1, a2, a3, a4⟩ := step_inv hcl hY s hG hd
            rw [hrunY, hsys] at a1 a2 a3 a4
            simp only at a1 a2 a3 a4
            rw [run_bind, ok1]
            simp only []
            rw [run_bind, hsys]
            simp only []
            refine next _ a1 a2 a3 a4 ?_
            intro q hq
            show fs'.get q = none
            obtain ⟨r, hr, e, _⟩ := apply_rm (A := fun r => r = c) ⟨c, Or.inr rfl, rfl⟩ hfs'
            subst hr
            by_cases hqr : q = r
            · rw [e, hqr]; exact rm_get_self _ _
            · have hsu : SU r q := ⟨hq, Nat.lt_of_le_of_ne hq.length_le fun hl => hqr (prefix_eq_of_length hq hl).symm⟩
              have := none_keep q (A := fun r' => r' = r) (.rmdir r) ⟨r, Or.inr rfl, rfl⟩ _ _ (gone1 q hsu) hfs'
              exact this
          | file d m t =>
            simp only []
            have hdc : s.fs.isDirAt c = false := by simp [isDirAt, hgc, Node.isDir]
            have hfs' : Call.apply s.fs (.unlink c) = .ok (touchDir (removeNode s.fs c) (parent c)) := by
              simp [Call.apply, FS.unlink, hgc]
            have hsys := run_sys (.unlink c) s
            rw [hfs'] at hsys
            simp only at hsys
            obtain ⟨a1, a2, a3, a4⟩ := step_inv hcl (Iss.sys (kr_unlink (A := U c) (List.prefix_refl c))) s hG hd
            rw [hsys] at a1 a2 a3 a4
            simp only at a1 a2 a3 a4
            rw [run_bind, hsys]
            simp only []
            refine next _ a1 a2 a3 a4 ?_
            intro q hq
            show (touchDir (removeNode s.fs c) (parent c)).get q = none
            by_cases hqr : q = c
            · rw [hqr]; exact rm_get_self _ _
            · have hsu : SU c q := ⟨hq, Nat.lt_of_le_of_ne hq.length_le fun hl => hqr (prefix_eq_of_length hq hl).symm⟩
              exact a2.none (nothing_below hG.2.1 hpc hdc hsu)
          | link t =>
            simp only []
            have hdc : s.fs.isDirAt c = false := by simp [isDirAt, hgc, Node.isDir]
            have hfs' : Call.apply s.fs (.unlink c) = .ok (touchDir (removeNode s.fs c) (parent c)) := by
              simp [Call.apply, FS.unlink, hgc]
            have hsys := run_sys (.unlink c) s
            rw [hfs'] at hsys
            simp only at hsys
            obtain ⟨a1, a2, a3, a4⟩ := step_inv hcl (Iss.sys (kr_unlink (A := U c) (List.prefix_refl c))) s hG hd
            rw [hsys] at a1 a2 a3 a4
            simp only at a1 a2 a3 a4
            rw [run_bind, hsys]
            simp only []
            refine next _ a1 a2 a3 a4 ?_
            intro q hq
            show (touchDir (removeNode s.fs c) (parent c)).get q = none
            by_cases hqr : q = c
            · rw [hqr]; exact rm_get_self _ _
            · have hsu : SU c q := ⟨hq, Nat.lt_of_le_of_ne hq.length_le fun hl => hqr (prefix_eq_of_length hq hl).symm⟩
              exact a2.none (nothing_below hG.2.1 hpc hdc hsu)
    intro s hG hd hf
    unfold rmInner
    rw [run_read_bind]
    refine hgo _ s hG hd hf (nodup_sortedChildren _ _) ?_ ?_
    · intro c hc
      obtain ⟨_, h1, h2, h3⟩ := mem_sortedChildren.1 hc
      exact ⟨h1, h2, h3⟩
    · intro q hq hs
      obtain ⟨t, rfl⟩ := hq.1
      cases t with
      | nil => have := hq.2; simp at this
      | cons x t' =>
        refine ⟨p ++ [x], ?_, ⟨t', by simp⟩⟩
        have hex : (s.fs.get (p ++ [x])).isSome = true := by
          by_cases ht' : t' = []
          · subst ht'; exact hs
          · refine isDirAt_isSome (closed_anc hG.2.1 _ t' (p ++ [x]) rfl (List.prefix_append _ _) ht' ?_)
            rw [List.append_assoc]; exact hs
        exact mem_sortedChildren.2 ⟨hG.1 _ hex, by simp, List.prefix_append _ _, hex⟩


theorem le_foldl_max (l : List Nat) : ∀ (init x : Nat), (x ≤ init ∨ x ∈ l) → x ≤ l.foldl max init := by
  induction l with
  | nil => intro init x h; rcases h with h | h
           · exact h
           · cases h
  | cons a l ih =>
    intro init x h
    rw [List.foldl_cons]
    apply ih
    rcases h with h | h
    · left; exact Nat.le_trans h (Nat.le_max_left _ _)
    · rcases List.mem_cons.1 h with rfl | h
      · left; exact Nat.le_max_right _ _
      · right; exact h

theorem hasChildren_of_gone {fs : FS} {p : CPath} (h : ∀ q, SU p q → fs.get q = none) : fs.hasChildren p = false := by
  unfold hasChildren
  rw [List.any_eq_false]
  intro q _
  simp only [Bool.and_eq_true, not_and, strictlyUnder, decide_eq_true_eq, exists_]
  intro ⟨h1, h2⟩
  rw [h q ⟨List.isPrefixOf_iff_prefix.1 h1, h2⟩]; simp

theorem rmtree_ok (p : CPath) (s : RunState) (hG : G p s.fs) (hd : s.fs.isDirAt p = true) :
    (run noFaults (rmtree p) s).1 = .ok () := by
  obtain ⟨m, t, hg⟩ := isDirAt_get hd
  have hf : Fu ((s.fs.dom.map List.length).foldl max 0 + 1) p s.fs := by
    intro q _ hdq
    have : q.length ≤ (s.fs.dom.map List.length).foldl max 0 :=
      le_foldl_max _ 0 _ (Or.inr (List.mem_map.2 ⟨q, hG.1 q (isDirAt_isSome hdq), rfl⟩))
    omega
  obtain ⟨ok1, gone1⟩ := rmInner_ok _ p s hG hd hf
  have hG2 := (Iss.inv noFaults (G p) (G_keep p) _ s (iss_rmInner ((s.fs.dom.map List.length).foldl max 0 + 1) p) hG).1
  have hd2 : (run noFaults (rmInner ((s.fs.dom.map List.length).foldl max 0 + 1) p) s).2.fs.isDirAt p = true := by
    have := (Iss.inv noFaults (fun fs => touch (fs.get p) = touch (s.fs.get p))
      (touch_keep _ (fun r (hr : SU p r) => hr.ne.symm)) _ s (iss_rmInner ((s.fs.dom.map List.length).foldl max 0 + 1) p) rfl).1
    rw [isDirAt_touch this]; exact hd
  obtain ⟨m2, t2, hg2⟩ := isDirAt_get hd2
  have hrm : Call.apply (run noFaults (rmInner ((s.fs.dom.map List.length).foldl max 0 + 1) p) s).2.fs (.rmdir p) =
      .ok (touchDir (removeNode (run noFaults (rmInner ((s.fs.dom.map List.length).foldl max 0 + 1) p) s).2.fs p) (parent p)) := by
    simp only [Call.apply, FS.rmdir, hg2]
    rw [if_neg (by rw [hG2.2.2 p (List.prefix_refl p)]; simp), if_neg (by rw [hasChildren_of_gone gone1]; simp)]
  unfold rmtree
  rw [run_read_bind, hg]
  simp only []
  rw [run_bind, ok1]
  simp only []
  rw [run_sys, hrm]

theorem removeIfExists_ok (p : CPath) (s : RunState) (hG : G p s.fs) :
    (run noFaults (removeIfExists p) s).1 = .ok () := by
  unfold removeIfExists
  rw [run_read_bind]
  split
  · next hl =>
    unfold removeFile2
    rw [run_bind, run_sys]
    cases hg : s.fs.get p with
    | none => simp [lexistsC, hg] at hl
    | some nd =>
      cases nd with
      | file d m t => simp [Call.apply, FS.unlink, hg]
      | link t => simp [Call.apply, FS.unlink, hg]
      | dir m t =>
        simp only [Call.apply, FS.unlink, hg]
        exact rmtree_ok p _ hG (by simp [isDirAt, hg, Node.isDir])
  · rfl

theorem touch_get_touchDir (A : FS) (p q : CPath) : touch ((touchDir A p).get q) = touch (A.get q) := by
  rw [get_touchDir]
  by_cases h : q = p
  · rw [if_pos h, touch_touch, h]
  · rw [if_neg h]

theorem touch_nondir {a b : Option Node} (h : touch a = touch b) (hb : ∀ m t, b ≠ some (.dir m t)) : a = b := by
  rcases a with _ | (_ | _ | _) <;> rcases b with _ | (_ | _ | _) <;> simp_all [touch]

/-- `purge_rerun_completes` under the hypotheses it needs: the info file is not inside the payload,
    what is left of the payload is a well-formed tree (every present path strictly below it hangs
    from a directory) and contains no mount point. -/
theorem purge_rerun_completes_partial (fs : FS) (payload info : CPath) (s : FS)
    (_hs : s ∈ crashStates noFaults (purgePair (.ok payload) (.ok info)) fs)
    (hwf : ∀ q, (s.get q).isSome = true → q ∈ s.dom)
    (hi : ∀ m t, s.get info ≠ some (.dir m t))
    (hout : ¬ FS.under payload info = true)
    (htree : ∀ q x, FS.under payload q = true → (s.get (q ++ [x])).isSome = true → s.isDirAt q = true)
    (hmnt : ∀ q, FS.under payload q = true → s.isMount q = false) :
    let r := run noFaults (purgePair (.ok payload) (.ok info)) { fs := s }
    (s.get info).isSome = true → r.1 = .ok () ∧ r.2.fs.get payload = none ∧ r.2.fs.get info = none := by
  intro r hsome
  rw [under_iff] at hout
  have hG : G payload s := ⟨hwf, fun q x hq => htree q x ((under_iff _ _).2 hq), fun q hq => hmnt q ((under_iff _ _).2 hq)⟩
  have ok1 := removeIfExists_ok payload { fs := s } hG
  have gone1 := removeIfExists_okGone noFaults payload { fs := s } ok1
  have hinfo : (run noFaults (removeIfExists payload) { fs := s }).2.fs.get info = s.get info := by
    have := (Iss.inv noFaults (fun x => touch (x.get info) = touch (s.get info))
      (touch_keep _ (fun r (hr : payload <+: r) e => hout (e ▸ hr))) _ { fs := s } (iss_removeIfExists payload) rfl).1
    exact touch_nondir this hi
  have hrun : r = run noFaults (removeFile2 info) (run noFaults (removeIfExists payload) { fs := s }).2 := by
    show run noFaults (purgePair (.ok payload) (.ok info)) { fs := s } = _
    unfold purgePair removeIfExistsR removeFile2R
    rw [run_bind, ok1]
  have hul : Call.apply (run noFaults (removeIfExists payload) { fs := s }).2.fs (.unlink info) =
      .ok (touchDir (removeNode (run noFaults (removeIfExists payload) { fs := s }).2.fs info) (parent info)) := by
    simp only [Call.apply, FS.unlink, hinfo]
    rcases hg : s.get info with _ | (_ | _ | _)
    · rw [hg] at hsome; cases hsome
    · rfl
    · exact absurd hg (hi _ _)
    · rfl
  rw [hrun]
  unfold removeFile2
  rw [run_bind, run_sys, hul]
  simp only [run_pure]
  refine ⟨trivial, ?_, rm_get_self _ _⟩
  exact none_keep payload (A := fun _ => True) (.unlink info) ⟨info, Or.inl rfl, trivial⟩ _ _ gone1 hul

/-! ### the info file is removed last -/

theorem purge_info_last (φ : Oracle) (fs : FS) (payload info : CPath) (h : ¬ FS.under payload info = true)
    (hp : info ≠ FS.parent payload) :
    ∀ s ∈ crashStates φ (purgePair (.ok payload) (.ok info)) fs,
      (s.get payload).isSome = true → s.get info = fs.get info := by
  rw [under_iff] at h
  -- every state of the run has the info file intact or the payload root gone
  suffices key : ∀ x, (x = (run φ (purgePair (.ok payload) (.ok info)) { fs := fs }).2.fs ∨
      x ∈ (run φ (purgePair (.ok payload) (.ok info)) { fs := fs }).2.hist) →
      x.get info = fs.get info ∨ x.get payload = none by
    intro s hs hsome
    rcases key s (mem_crashStates hs) with h1 | h1
    · exact h1
    · rw [h1] at hsome; cases hsome
  have f1 := frame_U φ (iss_removeIfExists payload) { fs := fs } h hp
  have g1 := removeIfExists_okGone φ payload { fs := fs }
  unfold purgePair removeIfExistsR removeFile2R
  rw [run_bind]
  generalize run φ (removeIfExists payload) { fs := fs } = r1 at f1 g1
  obtain ⟨res, s1⟩ := r1
  simp only at f1 g1 ⊢
  have hist1 : ∀ x ∈ s1.hist, x.get info = fs.get info := fun x hx => by
    rcases f1.2 x hx with h' | h'
    · cases h'
    · exact h'
  cases res with
  | error e =>
    intro x hx
    left
    rcases hx with rfl | hx
    · exact f1.1
    · exact hist1 x hx
  | ok u =>
    have hgone : s1.fs.get payload = none := g1 rfl
    obtain ⟨a, b⟩ := Iss.inv φ (fun x => x.get payload = none) (none_keep payload) _ s1 (iss_removeFile2 info) hgone
    intro x hx
    rcases hx with rfl | hx
    · exact Or.inr a
    · rcases b x hx with h' | h'
      · exact Or.inl (hist1 x h')
      · exact Or.inr h'


/-! ### restore -/

/-- `restore_crash_inv` under the hypothesis it needs: the info path is not a directory containing
    the destination (otherwise `remove_file(info)` = `rmtree(info)` deletes what was just restored). -/
theorem restore_crash_inv_partial (fs : FS) (src dst info : CPath)
    (hsrc : (fs.get src).isSome = true) (hnm : fs.isMount src = false) (hdst : fs.get dst = none)
    (hpar : fs.isDirAt (FS.parent dst) = true) (hdev : fs.dev (FS.parent src) = fs.dev (FS.parent dst))
    (hname : ∀ n, dst.getLast? = some n → n.length ≤ 255)
    (hapart : ¬ FS.under src dst = true ∧ ¬ FS.under dst src = true ∧ ¬ FS.under src info = true ∧ ¬ FS.under dst info = true)
    (hnr : dst ≠ [])
    (hid : ¬ FS.under info dst = true ∨ ∀ m t, fs.get info ≠ some (.dir m t)) :
    ∀ s ∈ crashStates noFaults (restoreCore (.ok src) (.ok dst) (.ok info)) fs,
      ((∀ rel, s.get (src ++ rel) = fs.get (src ++ rel)) ∧ s.get info = fs.get info) ∨
      (∀ rel, s.get (dst ++ rel) = fs.get (src ++ rel)) := by
  obtain ⟨h1, h2, h3, h4⟩ := hapart
  rw [under_iff] at h1 h2 h3 h4
  obtain ⟨c, x, rfl⟩ := C07.exists_snoc hnr
  obtain ⟨na, hna⟩ := Option.isSome_iff_exists.1 hsrc
  obtain ⟨m, t, hc⟩ := isDirAt_get (by simpa [parent] using hpar : fs.isDirAt c = true)
  have hx : x.length ≤ 255 := hname x (by simp)
  have hne : src ≠ c ++ [x] := fun e => by rw [e, hdst] at hna; cases hna
  obtain ⟨m1, m2, m3⟩ := move_spec (s := { fs := fs }) hdst hna hnm (by simpa [parent] using hdev) hx hc hne
    (fun h => h1 ((under_iff _ _).1 h))
  -- the state after the rename
  have hJ1 : ∀ rel, (touchDir (touchDir (moveTree fs src (c ++ [x])) (parent src)) c).get (c ++ [x] ++ rel) =
      fs.get (src ++ rel) := by
    intro rel
    have a : c ++ [x] ++ rel ≠ c := fun e => by have := congrArg List.length e; simp at this
    have b : c ++ [x] ++ rel ≠ parent src := fun e =>
      h2 ((List.prefix_append _ rel).trans (e ▸ dropLast_pfx src))
    rw [get_touchDir, if_neg a, get_touchDir, if_neg b, get_moveTree', if_pos (List.prefix_append _ rel),
      List.drop_left]
  have hrun : run noFaults (restoreCore (.ok src) (.ok (c ++ [x])) (.ok info)) { fs := fs } =
      run noFaults (removeFile info) (run noFaults (move src (c ++ [x])) { fs := fs }).2 := by
    show run noFaults (move src (c ++ [x]) >>= _) _ = _
    rw [run_bind, m1]
  generalize run noFaults (move src (c ++ [x])) { fs := fs } = r1 at m1 m2 m3 hrun
  obtain ⟨res1, s1⟩ := r1
  simp only at m1 m2 m3 hrun
  -- every state of the removal of the info file is the initial one or has the destination complete
  have key : ∀ y, (y = (run noFaults (removeFile info) s1).2.fs ∨ y ∈ (run noFaults (removeFile info) s1).2.hist) →
      y = fs ∨ ∀ rel, y.get (c ++ [x] ++ rel) = fs.get (src ++ rel) := by
    have hne1 : ∀ rel, c ++ [x] ++ rel ≠ info := fun rel e => h4 (e ▸ List.prefix_append _ rel)
    have hne2 : ∀ rel, c ++ [x] ++ rel ≠ parent info := fun rel e =>
      h4 ((List.prefix_append _ rel).trans (e ▸ dropLast_pfx info))
    rcases hid with hid | hid
    · rw [under_iff] at hid
      obtain ⟨a, b⟩ := Iss.inv noFaults (fun y => ∀ rel, y.get (c ++ [x] ++ rel) = fs.get (src ++ rel)) (by
        intro cl hcl a b hj happ rel
        refine keep_of_U (p := info) ?_ (hne2 rel) _ cl hcl a b (hj rel) happ
        intro hpre
        rcases pfx_comparable hpre (List.prefix_append (c ++ [x]) rel) with h | h
        · exact hid h
        · exact h4 h) _ s1 (iss_removeFile info) (by rw [m2]; exact hJ1)
      intro y hy
      rcases hy with rfl | hy
      · exact Or.inr a
      · rcases b y hy with h | h
        · rw [m3] at h; left; simpa using h
        · exact Or.inr h
    · have hi1 : s1.fs.get info = fs.get info := by
        refine touch_nondir ?_ hid
        rw [m2, touch_get_touchDir, touch_get_touchDir, get_moveTree', if_neg h4, if_neg h3]
      unfold removeFile
      rw [run_read_bind]
      split
      · next hl =>
        have hul : Call.apply s1.fs (.unlink info) = .ok (touchDir (removeNode s1.fs info) (parent info)) := by
          simp only [Call.apply, FS.unlink, hi1]
          rcases hg : fs.get info with _ | (_ | _ | _)
          · simp [lexistsC, hi1, hg] at hl
          · rfl
          · exact absurd hg (hid _ _)
          · rfl
        rw [run_bind, run_sys, hul]
        simp only [run_pure]
        intro y hy
        rcases hy with rfl | hy
        · right; intro rel
          rw [rm_get_other _ (hne1 rel) (hne2 rel), m2]; exact hJ1 rel
        · rw [m3] at hy
          simp only [List.mem_cons, List.not_mem_nil, or_false] at hy
          rcases hy with rfl | rfl
          · right; rw [m2]; exact hJ1
          · left; rfl
      · simp only [run_pure]
        intro y hy
        rcases hy with rfl | hy
        · right; rw [m2]; exact hJ1
        · rw [m3] at hy; left; simpa using hy
  intro s hs
  have := mem_crashStates hs
  rw [hrun] at this
  rcases key s this with rfl | h
  · exact Or.inl ⟨fun _ => rfl, rfl⟩
  · exact Or.inr h

/-! ### the statements as first written are false

  Checked by evaluation of the (executable) model: the kernel cannot unfold `List.mergeSort`, which
  every `rmtree` reaches through `sortedChildren`, so these are `#guard`s, not theorems. -/

section counterexamples
private def dn : Node := .dir 0o755 0
private def fl : Node := .file [] 0o644 0
private def isOk : Res → Bool | .ok () => true | .error _ => false
private def listed (fs : FS) : Bool := fs.toList.all fun (q, _) => fs.dom.contains q

/-- `purge_rerun_completes` without `htree`: `/a` is a directory, `/a/b/c` is present, `/a/b` is not.
    `fs` is its own first crash state, `hwf` and `hi` hold, the info file `/z` is present — and the
    purge fails (ENOTEMPTY from `rmdir /a`). -/
private def cexOrphan : FS := FS.ofList [([], dn), ([[97]], dn), ([[97], [98], [99]], fl), ([[122]], fl)] []
#guard listed cexOrphan && (cexOrphan.get [[122]] == some fl) &&
  !isOk (run noFaults (purgePair (.ok [[97]]) (.ok [[122]])) { fs := cexOrphan }).1

/-- … without `hmnt`: `/a/b` is a mount point (EBUSY). -/
private def cexMount : FS := FS.ofList [([], dn), ([[97]], dn), ([[97], [98]], dn), ([[122]], fl)] [[[97], [98]]]
#guard listed cexMount && (cexMount.get [[122]] == some fl) &&
  !isOk (run noFaults (purgePair (.ok [[97]]) (.ok [[122]])) { fs := cexMount }).1

/-- … without `hout`: the info path `/a/b` lies inside the payload `/a` (ENOENT from `remove_file2`). -/
private def cexInside : FS := FS.ofList [([], dn), ([[97]], dn), ([[97], [98]], fl)] []
#guard listed cexInside && (cexInside.get [[97], [98]] == some fl) &&
  !isOk (run noFaults (purgePair (.ok [[97]]) (.ok [[97], [98]])) { fs := cexInside }).1

/-- `restore_crash_inv` without `hid`: payload `/s`, destination `/a/b`, "info file" the directory
    `/a`.  The fourth crash state (after `rmtree(/a)` unlinked `/a/b`) has neither `/s` nor `/a/b`. -/
private def cexRestore : FS := FS.ofList [([], dn), ([[97]], dn), ([[115]], fl)] []
#guard (cexRestore.get [[115]] == some fl) && (cexRestore.get [[97], [98]] == none) && cexRestore.isDirAt [[97]] &&
  !FS.under [[115]] [[97], [98]] && !FS.under [[97], [98]] [[115]] && !FS.under [[115]] [[97]] && !FS.under [[97], [98]] [[97]] &&
  ((crashStates noFaults (restoreCore (.ok [[115]]) (.ok [[97], [98]]) (.ok [[97]])) cexRestore)[3]?.map
    fun s => (s.get [[115]], s.get [[97], [98]])) == some (none, none)
end counterexamples

end TrashVerif.Proofs.C15
