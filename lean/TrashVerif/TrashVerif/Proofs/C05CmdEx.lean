/-
  Proofs/C05CmdEx.lean — concrete worlds for Props/C05Cmd.lean, every crash state of a whole run
  evaluated by the kernel (through the twins of Proofs/C16Eval.lean): a directory tree trashed into a
  home trash yet to be made; a file into `$topdir/.Trash-$uid`; a file into an existing home trash
  that already holds an entry of the same name.
-/
import TrashVerif.Proofs.C05CmdHome
import TrashVerif.Proofs.C03CmdEx
import TrashVerif.Spec.PutSpecs
import TrashVerif.Proofs.C09
namespace TrashVerif.Proofs.C05CmdEx
open TrashVerif Prog FS PutCore C07Cmd C16Indep C03Cmd C05Cmd
open TrashVerif.Proofs.C16Eval
open TrashVerif.Proofs.C07CmdEx (ofList_fresh plain_of_takes dN st0 H V fsO)
open TrashVerif.Proofs.C03CmdEx (d0 cfgD clockD homeCfgD)

/-- what a state holds at the watched paths: (spelling, node) for those that exist -/
def view (watch : List CPath) (s : FS) : List (Bytes × Node) :=
  watch.filterMap fun p => (s.get p).map fun n => (toStr p, n)

def D755 : Node := .dir 0o755 0
def D700 : Node := .dir 0o700 0

/-! ### a directory tree, first use of the home trash (only `/h` exists) -/

def fileA : Node := .file (b "a") 0o644 7
def fileB : Node := .file (b "bb") 0o600 9
/-- the entry: a directory with a file, a subdirectory, and a file in it -/
def treeAt (r : Bytes) : List (Bytes × Node) :=
  [(r, .dir 0o750 5), (r ++ b "/a", fileA), (r ++ b "/sub", .dir 0o700 6), (r ++ b "/sub/b", fileB)]

def nodesTree : List (CPath × Node) :=
  [([], dN), (H, dN), ([b "p"], dN), ([b "p", b "dir"], .dir 0o750 5), ([b "p", b "dir", b "a"], fileA),
   ([b "p", b "dir", b "sub"], .dir 0o700 6), ([b "p", b "dir", b "sub", b "b"], fileB)]
def fsTree : FS := FS.ofList nodesTree [[]]

def watchTree : List CPath :=
  [H, H ++ [b ".local"], H ++ [b ".local", b "share"], trashC H, filesC H, infoC H,
   infoC H ++ [b "dir.trashinfo"], filesC H ++ [b "dir"], filesC H ++ [b "dir", b "a"], filesC H ++ [b "dir", b "sub"],
   filesC H ++ [b "dir", b "sub", b "b"], [b "p"], [b "p", b "dir"], [b "p", b "dir", b "a"], [b "p", b "dir", b "sub"],
   [b "p", b "dir", b "sub", b "b"]]

/-- the first `k` directories `trash-put` makes below `/h` -/
def homeDirs (k : Nat) : List (Bytes × Node) :=
  [(b "/h/.local", D755), (b "/h/.local/share", D755), (b "/h/.local/share/Trash", D700),
   (b "/h/.local/share/Trash/files", D700), (b "/h/.local/share/Trash/info", D700)].take k

def infoDirText : Bytes := b "[Trash Info]\nPath=/p/dir\nDeletionDate=2024-02-29T23:59:59\n"

theorem siteTree : FreshSite fsTree H (b ".local") [b "share", b "Trash"] :=
  { names := by unfold TrashVerif.C07.GoodNames; decide +kernel
    basePlain := plain_of_takes (by decide +kernel)
    fresh := fun rel => by
      have := ofList_fresh nodesTree [[]] (H ++ [b ".local"]) (by decide +kernel) rel
      show (FS.ofList nodesTree [[]]).get _ = none
      simpa using this }

theorem argTree : Arg fsTree [b "p"] (b "dir") :=
  { names := by unfold TrashVerif.C07.GoodNames; decide +kernel, shortName := by decide +kernel
    parentPlain := plain_of_takes (by decide +kernel), present := by decide +kernel, notMount := by decide +kernel }

theorem mountsTree : MountsOk fsTree := ⟨by decide +kernel, by decide +kernel⟩

/-- EVERY crash state of `trash-put /p/dir`, in order: before each of the five `mkdir`s, before the
    exclusive create, before the write (EMPTY info file, the tree still at `/p/dir`), before the close,
    before the rename, and the final state (the whole tree under `files/dir`, nothing at `/p/dir`). -/
theorem evalTree :
    (crashStates noFaults (runPut cfgD [b "/p/dir"] st0) fsTree).map (view watchTree) =
      [(b "/h", D755) :: homeDirs 0 ++ (b "/p", D755) :: treeAt (b "/p/dir"),
       (b "/h", D755) :: homeDirs 1 ++ (b "/p", D755) :: treeAt (b "/p/dir"),
       (b "/h", D755) :: homeDirs 2 ++ (b "/p", D755) :: treeAt (b "/p/dir"),
       (b "/h", D755) :: homeDirs 3 ++ (b "/p", D755) :: treeAt (b "/p/dir"),
       (b "/h", D755) :: homeDirs 4 ++ (b "/p", D755) :: treeAt (b "/p/dir"),
       (b "/h", D755) :: homeDirs 5 ++ (b "/p", D755) :: treeAt (b "/p/dir"),
       (b "/h", D755) :: homeDirs 5 ++ (b "/h/.local/share/Trash/info/dir.trashinfo", .file [] 0o600 0) ::
         (b "/p", D755) :: treeAt (b "/p/dir"),
       (b "/h", D755) :: homeDirs 5 ++ (b "/h/.local/share/Trash/info/dir.trashinfo", .file infoDirText 0o600 0) ::
         (b "/p", D755) :: treeAt (b "/p/dir"),
       (b "/h", D755) :: homeDirs 5 ++ (b "/h/.local/share/Trash/info/dir.trashinfo", .file infoDirText 0o600 0) ::
         (b "/p", D755) :: treeAt (b "/p/dir"),
       (b "/h", D755) :: homeDirs 5 ++ (b "/h/.local/share/Trash/info/dir.trashinfo", .file infoDirText 0o600 0) ::
         treeAt (b "/h/.local/share/Trash/files/dir") ++ [(b "/p", D755)]] ∧
    (crashStates noFaults (runPut cfgD [b "/p/dir"] st0) fsTree).all
      (fun s => C05.Holds fsTree s [trashC H] [[b "p", b "dir"]]) = true := by
  simp only [runPut_eq]; decide +kernel

/-! ### a file on the volume `/v` (`fsO` of Proofs/C07CmdEx.lean), into `/v/.Trash-0` -/

def watchVol : List CPath :=
  [V ++ [altName 0], V ++ [altName 0, b "files"], V ++ [altName 0, b "info"], V ++ [altName 0, b "info", b "x.trashinfo"],
   V ++ [altName 0, b "files", b "x"], V ++ [b "d", b "x"]]

def volDirs (k : Nat) : List (Bytes × Node) :=
  [(b "/v/.Trash-0", D700), (b "/v/.Trash-0/files", D700), (b "/v/.Trash-0/info", D700)].take k

def infoVolText : Bytes := b "[Trash Info]\nPath=d/x\nDeletionDate=2024-02-29T23:59:59\n"
def fileX : Node := .file [120] 0o644 7

theorem evalVol :
    (crashStates noFaults (runPut cfgD [b "/v/d/x"] st0) fsO).map (view watchVol) =
      [volDirs 0 ++ [(b "/v/d/x", fileX)],
       volDirs 1 ++ [(b "/v/d/x", fileX)],
       volDirs 2 ++ [(b "/v/d/x", fileX)],
       volDirs 3 ++ [(b "/v/d/x", fileX)],
       volDirs 3 ++ [(b "/v/.Trash-0/info/x.trashinfo", .file [] 0o600 0), (b "/v/d/x", fileX)],
       volDirs 3 ++ [(b "/v/.Trash-0/info/x.trashinfo", .file infoVolText 0o600 0), (b "/v/d/x", fileX)],
       volDirs 3 ++ [(b "/v/.Trash-0/info/x.trashinfo", .file infoVolText 0o600 0), (b "/v/d/x", fileX)],
       volDirs 3 ++ [(b "/v/.Trash-0/info/x.trashinfo", .file infoVolText 0o600 0), (b "/v/.Trash-0/files/x", fileX)]] ∧
    (crashStates noFaults (runPut cfgD [b "/v/d/x"] st0) fsO).all
      (fun s => C05.Holds fsO s [V ++ [altName 0]] [V ++ [b "d", b "x"]]) = true := by
  simp only [runPut_eq]; decide +kernel

/-! ### an existing home trash that already holds `x` -/

def oldText : Bytes := b "[Trash Info]\nPath=/q/x\nDeletionDate=2020-01-01T00:00:00\n"
def nodesE : List (CPath × Node) :=
  [([], dN), (H, dN), (H ++ [b ".local"], dN), (H ++ [b ".local", b "share"], dN), (trashC H, D700),
   (filesC H, D700), (infoC H, D700), (filesC H ++ [b "x"], .file (b "old") 0o644 3),
   (infoC H ++ [b "x.trashinfo"], .file oldText 0o600 3), ([b "p"], dN), ([b "p", b "x"], fileX)]
def fsE : FS := FS.ofList nodesE [[]]

theorem worldE : HomeWorld cfgD fsE H :=
  { noTrashDir := rfl, noForcedVolume := rfl, noPrompt := by decide, xdgUnset := rfl, home := rfl
    homeNotRoot := by decide
    homeNames := by unfold TrashVerif.C07.GoodNames; decide +kernel
    filesPlain := plain_of_takes (by decide +kernel)
    infoPlain := plain_of_takes (by decide +kernel)
    rootMounted := by decide +kernel
    filesSameVolume := by decide +kernel }

theorem argE : GoodArg fsE H [b "p"] (b "x") :=
  { names := by unfold TrashVerif.C07.GoodNames; decide +kernel
    parentPlain := plain_of_takes (by decide +kernel)
    present := by decide +kernel
    notMount := by decide +kernel
    sameVolume := by decide +kernel
    apartInfo := by decide +kernel
    apartFiles := by decide +kernel }

/-- the name `x` is taken: the entry is recorded as `x_1.trashinfo` -/
theorem coreE : (run noFaults (homeCore cfgD H [b "p"] (b "x") st0) { fs := fsE }).1.1 = .ok (b "x_1.trashinfo") :=
  C09.Cex.okName_eq (by decide +kernel)

def watchE : List CPath :=
  [filesC H ++ [b "x"], infoC H ++ [b "x.trashinfo"], infoC H ++ [b "x_1.trashinfo"], filesC H ++ [b "x_1"], [b "p", b "x"]]

def oldPair : List (Bytes × Node) :=
  [(b "/h/.local/share/Trash/files/x", .file (b "old") 0o644 3), (b "/h/.local/share/Trash/info/x.trashinfo", .file oldText 0o600 3)]
def infoEText : Bytes := b "[Trash Info]\nPath=/p/x\nDeletionDate=2024-02-29T23:59:59\n"

/-- three `mkdir`s that fail with EEXIST (the state stays), then the exclusive create of
    `x_1.trashinfo`, the write, the close, the rename to `files/x_1`; the older pair `x` is never touched -/
theorem evalE :
    (crashStates noFaults (runPut cfgD [b "/p/x"] st0) fsE).map (view watchE) =
      [oldPair ++ [(b "/p/x", fileX)],
       oldPair ++ [(b "/p/x", fileX)],
       oldPair ++ [(b "/p/x", fileX)],
       oldPair ++ [(b "/p/x", fileX)],
       oldPair ++ [(b "/h/.local/share/Trash/info/x_1.trashinfo", .file [] 0o600 0), (b "/p/x", fileX)],
       oldPair ++ [(b "/h/.local/share/Trash/info/x_1.trashinfo", .file infoEText 0o600 0), (b "/p/x", fileX)],
       oldPair ++ [(b "/h/.local/share/Trash/info/x_1.trashinfo", .file infoEText 0o600 0), (b "/p/x", fileX)],
       oldPair ++ [(b "/h/.local/share/Trash/info/x_1.trashinfo", .file infoEText 0o600 0),
         (b "/h/.local/share/Trash/files/x_1", fileX)]] ∧
    (crashStates noFaults (runPut cfgD [b "/p/x"] st0) fsE).all
      (fun s => C05.Holds fsE s [trashC H] [[b "p", b "x"]]) = true := by
  simp only [runPut_eq]; decide +kernel

end TrashVerif.Proofs.C05CmdEx
