/-
  Proofs/C04.lean — proofs of the statements of Props/C04.lean.
-/
import TrashVerif.Proofs.C01
namespace TrashVerif.Proofs.C04
open TrashVerif Prog FS PutCore PutLemmas

/-! ### nothing already trashed is overwritten -/

theorem put_never_overwrites (fs : FS) (infoC filesC src : CPath) (base content : Bytes) (st st' : PutSt)
    (h : Setting fs infoC filesC src) (name : Bytes) (s' : RunState)
    (hr : run noFaults (putCore infoC filesC base content (fun _ => .ok src) st) { fs := fs } = ((.ok name, st'), s')) :
    fs.get (filesC ++ [stemOf name]) = none ∧ fs.get (infoC ++ [name]) = none ∧
    (∀ n rel, n ≠ stemOf name → s'.fs.get (filesC ++ [n] ++ rel) = fs.get (filesC ++ [n] ++ rel)) ∧
    (∀ n, n ≠ name → s'.fs.get (infoC ++ [n]) = fs.get (infoC ++ [n])) := by
  have T := C01.put_ok_moves_whole fs infoC filesC src base content st st' h name s' hr
  have g := Geo.of_setting h
  refine ⟨T.wasFreePayload, T.wasFreeInfo, fun n rel hn => ?_, fun n hn => ?_⟩
  · have hF : filesC <+: filesC ++ [n] ++ rel := by
      rw [List.append_assoc]; exact List.prefix_append _ _
    apply T.frame
    · rw [under_iff]; intro hs
      exact (pfx_comparable hs hF).elim g.h4 g.h6
    · rw [under_iff, List.append_assoc]
      intro hp
      have := List.prefix_append_right_inj filesC |>.1 hp
      simp only [List.singleton_append, List.cons_prefix_cons] at this
      exact hn this.1.symm
    · intro e
      have hI : infoC <+: filesC ++ [n] ++ rel := e ▸ List.prefix_append _ _
      exact (pfx_comparable hI hF).elim g.h1 g.h2
    · intro e
      exact g.h6 ((e ▸ hF).trans (dropLast_pfx src))
    · intro e
      have := congrArg List.length e
      simp at this
    · intro e
      exact g.h2 (e ▸ hF)
  · apply T.frame
    · rw [under_iff]; exact g.S_P
    · rw [under_iff, pfx_concat]; rintro (e | e)
      · exact g.I_F (List.append_inj' e rfl).1.symm
      · exact g.D_I e
    · intro e; exact hn (by simpa using (List.append_inj' e rfl).2)
    · exact g.P_ps
    · exact g.P_F
    · intro e
      have := congrArg List.length e
      simp at this

/-! ### distinct suffixes -/

def parseNat (bs : Bytes) : Nat := bs.foldl (fun acc c => acc * 10 + (c.toNat - 48)) 0

theorem parse_ofNat : (List.range 100).all (fun i => parseNat (Bytes.ofNat i) == i) = true := by decide +kernel
theorem b_us : b "_" = [95] := by decide +kernel

theorem ofNat_inj : ∀ i j, i < 100 → j < 100 → Bytes.ofNat i = Bytes.ofNat j → i = j := by
  intro i j hi hj h
  have := List.all_eq_true.1 parse_ofNat
  have h1 := this i (List.mem_range.2 hi)
  have h2 := this j (List.mem_range.2 hj)
  simp only [beq_iff_eq] at h1 h2
  rw [← h1, ← h2, h]

theorem suffixes_distinct (st : PutSt) (i j : Nat) (hi : i < 100) (hj : j < 100) (hij : i ≠ j) :
    (suffixFor i st).1 ≠ (suffixFor j st).1 := by
  unfold suffixFor
  by_cases h0 : i = 0 <;> by_cases h1 : j = 0
  · omega
  · simp [h0, h1, hj, b_us]
  · simp [h0, h1, hi, b_us]
  · simp only [h0, h1, hi, hj, if_true, if_false]
    intro h
    exact hij (ofNat_inj i j hi hj (List.append_cancel_left h))

/-! ### two puts -/

theorem two_puts_distinct (fs : FS) (infoC filesC src1 src2 : CPath) (base c1 c2 : Bytes) (st0 st1 st2 : PutSt)
    (h1 : Setting fs infoC filesC src1) (n1 n2 : Bytes) (s1 s2 : RunState)
    (hr1 : run noFaults (putCore infoC filesC base c1 (fun _ => .ok src1) st0) { fs := fs } = ((.ok n1, st1), s1))
    (h2 : Setting s1.fs infoC filesC src2)
    (hr2 : run noFaults (putCore infoC filesC base c2 (fun _ => .ok src2) st1) { fs := s1.fs } = ((.ok n2, st2), s2)) :
    n1 ≠ n2 ∧ (∀ rel, s2.fs.get (filesC ++ [stemOf n1] ++ rel) = fs.get (src1 ++ rel)) ∧
    (∀ rel, s2.fs.get (filesC ++ [stemOf n2] ++ rel) = s1.fs.get (src2 ++ rel)) ∧
    s2.fs.get (infoC ++ [n1]) = some (.file c1 0o600 0) ∧ s2.fs.get (infoC ++ [n2]) = some (.file c2 0o600 0) := by
  have T1 := C01.put_ok_moves_whole fs infoC filesC src1 base c1 st0 st1 h1 n1 s1 hr1
  have T2 := C01.put_ok_moves_whole s1.fs infoC filesC src2 base c2 st1 st2 h2 n2 s2 hr2
  obtain ⟨_, _, keepF, keepI⟩ := put_never_overwrites s1.fs infoC filesC src2 base c2 st1 st2 h2 n2 s2 hr2
  have hn : n1 ≠ n2 := by
    intro e
    have a := T1.info
    rw [e, T2.wasFreeInfo] at a
    cases a
  have hstem : stemOf n1 ≠ stemOf n2 := by
    intro e
    have a := T1.whole []
    rw [List.append_nil, List.append_nil, e, T2.wasFreePayload] at a
    have b := h1.srcExists
    rw [← a] at b
    cases b
  refine ⟨hn, fun rel => ?_, T2.whole, ?_, T2.info⟩
  · rw [keepF _ rel hstem]; exact T1.whole rel
  · rw [keepI _ hn]; exact T1.info



/-! ### which calls a program can issue -/

/-- every call `p` can issue, in a run whose states all satisfy `Inv`, satisfies `K` -/
def Iss {α} (Inv : FS → Prop) (K : Call → Prop) : Prog α → Prop
  | .ret _ => True
  | .get k => ∀ fs, Inv fs → Iss Inv K (k fs)
  | .call c k => K c ∧ ∀ r, Iss Inv K (k r)
  | .emit _ k => Iss Inv K k

section iss
variable {Inv : FS → Prop} {K : Call → Prop}

theorem Iss.bind {α β} {p : Prog α} {f : α → Prog β} (hp : Iss Inv K p) (hf : ∀ a, Iss Inv K (f a)) :
    Iss Inv K (p >>= f) := by
  show Iss Inv K (Prog.bind p f)
  induction p with
  | ret a => exact hf a
  | get k ih => exact fun fs hi => ih fs (hp fs hi)
  | emit o k ih => exact ih hp
  | call c k ih => exact ⟨hp.1, fun r => ih r (hp.2 r)⟩

theorem Iss.pure {α} (a : α) : Iss Inv K (pure a : Prog α) := trivial
theorem Iss.sys {c : Call} (h : K c) : Iss Inv K (sys c) := ⟨h, fun _ => trivial⟩
theorem Iss.read_bind {β} {f : FS → Prog β} (h : ∀ fs, Inv fs → Iss Inv K (f fs)) : Iss Inv K (read >>= f) := h

theorem Iss.sound {α} (φ : Oracle)
    (hK : ∀ c, K c → ∀ fs fs', Inv fs → c.apply fs = .ok fs' → Inv fs') (p : Prog α) :
    ∀ s : RunState, Iss Inv K p → Inv s.fs →
      Inv (run φ p s).2.fs ∧ ∀ cr ∈ (run φ p s).2.trace, cr ∈ s.trace ∨ K cr.1 := by
  induction p with
  | ret a => intro s _ hi; exact ⟨hi, fun cr h => Or.inl h⟩
  | get k ih => intro s hp hi; simp only [run]; exact ih _ s (hp _ hi) hi
  | emit o k ih => intro s hp hi; simp only [run]; exact ih _ hp hi
  | call c k ih =>
    intro s hp hi
    simp only [run]
    have lift : ∀ (s1 : RunState) (r : Res), s1.trace = (c, r) :: s.trace → Inv s1.fs →
        Inv (run φ (k r) s1).2.fs ∧ ∀ cr ∈ (run φ (k r) s1).2.trace, cr ∈ s.trace ∨ K cr.1 := by
      intro s1 r ht hi1
      obtain ⟨a, b⟩ := ih r s1 (hp.2 r) hi1
      refine ⟨a, fun cr hcr => ?_⟩
      rcases b cr hcr with h | h
      · rw [ht] at h
        rcases List.mem_cons.1 h with e | e
        · right; rw [e]; exact hp.1
        · exact Or.inl e
      · exact Or.inr h
    split
    · next fs' heq =>
      refine lift _ _ rfl ?_
      split at heq
      · cases heq
      · exact hK c hp.1 _ _ hi heq
    · exact lift _ _ rfl hi

end iss


/-! ### directories stay directories -/

def DirMono (fs fs' : FS) : Prop := ∀ q, fs.isDirAt q = true → fs'.isDirAt q = true

theorem DirMono.refl (fs : FS) : DirMono fs fs := fun _ h => h
theorem DirMono.trans {a c d : FS} (h1 : DirMono a c) (h2 : DirMono c d) : DirMono a d := fun q h => h2 q (h1 q h)

theorem dm_touch (fs : FS) (p : CPath) : DirMono fs (touchDir fs p) := by
  intro q h
  obtain ⟨m, t, hg⟩ := isDirAt_get h
  unfold isDirAt
  rw [get_touchDir]
  by_cases e : q = p
  · subst e; rw [if_pos rfl, hg]; rfl
  · rw [if_neg e, hg]; rfl

theorem dm_set (fs : FS) (p : CPath) (n : Node) (h : fs.isDirAt p = true → n.isDir = true) :
    DirMono fs (setNode fs p n) := by
  intro q hq
  unfold isDirAt
  rw [get_setNode]
  by_cases e : q = p
  · subst e; rw [if_pos rfl]; exact h hq
  · rw [if_neg e]; exact hq

theorem dm_remove (fs : FS) (p : CPath) (h : fs.isDirAt p = false) : DirMono fs (removeNode fs p) := by
  intro q hq
  unfold isDirAt
  rw [get_removeNode]
  by_cases e : q = p
  · subst e; rw [h] at hq; cases hq
  · rw [if_neg e]; exact hq

theorem isDirAt_of_get_none {fs : FS} {p : CPath} (h : fs.get p = none) : fs.isDirAt p = false := by
  simp [isDirAt, h]

theorem not_exists_get {fs : FS} {p : CPath} (h : ¬ exists_ fs p = true) : fs.get p = none := by
  simpa [exists_] using h

/-- a fresh node at a free path, then the parent touched -/
theorem dm_create (fs : FS) (p : CPath) (n : Node) (h : ¬ exists_ fs p = true) :
    DirMono fs (touchDir (setNode fs p n) (parent p)) :=
  (dm_set fs p n (fun hd => by rw [isDirAt_of_get_none (not_exists_get h)] at hd; cases hd)).trans (dm_touch _ _)

theorem apply_dirMono (c : Call) (h1 : ∀ a b, c ≠ .rename a b) (h2 : ∀ p, c ≠ .rmdir p)
    (fs fs' : FS) (h : c.apply fs = .ok fs') : DirMono fs fs' := by
  cases c with
  | rename a b => exact absurd rfl (h1 a b)
  | rmdir p => exact absurd rfl (h2 p)
  | close p => simp only [Call.apply] at h; cases h; exact DirMono.refl _
  | mkdir p m =>
    simp only [Call.apply, FS.mkdir, Bind.bind, Except.bind] at h
    split at h
    · cases h
    · split at h
      · cases h
      · next hex => cases h; exact dm_create fs p _ hex
  | createExcl p m =>
    simp only [Call.apply, FS.createExcl, Bind.bind, Except.bind] at h
    split at h
    · cases h
    · split at h
      · cases h
      · next hex => cases h; exact dm_create fs p _ hex
  | symlink t p =>
    simp only [Call.apply, FS.symlink, Bind.bind, Except.bind] at h
    split at h
    · cases h
    · split at h
      · cases h
      · next hex => cases h; exact dm_create fs p _ hex
  | createTrunc p m =>
    simp only [Call.apply, FS.createTrunc, Bind.bind, Except.bind] at h
    split at h
    · cases h
    · split at h
      · next hg => cases h; exact dm_create fs p _ (by simp [exists_, hg])
      · next hg => cases h; exact dm_set fs p _ (fun hd => by simp [isDirAt, hg, Node.isDir] at hd)
      · cases h
      · cases h
  | write p d =>
    simp only [Call.apply, FS.writeData] at h
    split at h
    · next hg => cases h; exact dm_set fs p _ (fun hd => by simp [isDirAt, hg, Node.isDir] at hd)
    · cases h
    · cases h
  | unlink p =>
    simp only [Call.apply, FS.unlink] at h
    cases hg : fs.get p with
    | none => rw [hg] at h; cases h
    | some nd =>
      rw [hg] at h
      cases nd with
      | dir m t => cases h
      | file d m t =>
        cases h
        exact (dm_remove fs p (by simp [isDirAt, hg, Node.isDir])).trans (dm_touch _ _)
      | link t =>
        cases h
        exact (dm_remove fs p (by simp [isDirAt, hg, Node.isDir])).trans (dm_touch _ _)
  | chmod p m =>
    simp only [Call.apply, FS.chmod] at h
    split at h
    · next hg => cases h; exact dm_set fs p _ (fun hd => by simp [isDirAt, hg, Node.isDir] at hd)
    · cases h; exact dm_set fs p _ (fun _ => rfl)
    · cases h; exact DirMono.refl _
    · cases h
  | utime p t =>
    simp only [Call.apply, FS.utime] at h
    split at h
    · next hg => cases h; exact dm_set fs p _ (fun hd => by simp [isDirAt, hg, Node.isDir] at hd)
    · cases h; exact dm_set fs p _ (fun _ => rfl)
    · cases h; exact DirMono.refl _
    · cases h


/-! ### `move` onto a free name -/

/-- calls of the copy fallback: no rename, no rmdir, directories only at or below `D` -/
def KCopy (D : CPath) (c : Call) : Prop :=
  (∀ a b, c ≠ .rename a b) ∧ (∀ p, c ≠ .rmdir p) ∧ (∀ p m, c = .mkdir p m → FS.under D p = true)

/-- calls of the removal: no rename, no mkdir -/
def KRm (c : Call) : Prop := (∀ a b, c ≠ .rename a b) ∧ (∀ p m, c ≠ .mkdir p m)

def InvD (D : CPath) (fs : FS) : Prop := fs.isDirAt (parent D) = true

theorem KCopy.preserves (D : CPath) :
    ∀ c, KCopy D c → ∀ fs fs', InvD D fs → c.apply fs = .ok fs' → InvD D fs' :=
  fun c hc fs fs' hi h => apply_dirMono c hc.1 hc.2.1 fs fs' h _ hi

theorem existsC_of_dir {fs : FS} {p : CPath} (h : fs.isDirAt p = true) : existsC fs p = true := by
  obtain ⟨m, t, hg⟩ := isDirAt_get h
  simp [existsC, statC, followC, hg]

theorem under_dropLast {D p : CPath} (h : FS.under D p = true) (hne : D ≠ p) : FS.under D p.dropLast = true := by
  rw [under_iff] at h ⊢
  obtain ⟨t, rfl⟩ := h
  have ht : t ≠ [] := by rintro rfl; exact hne (by simp)
  rw [List.dropLast_append_of_ne_nil ht]
  exact List.prefix_append _ _

theorem under_snoc {D p : CPath} (h : FS.under D p = true) (x : Name) : FS.under D (p ++ [x]) = true := by
  rw [under_iff] at h ⊢
  exact h.trans (List.prefix_append _ _)

section copy
variable (D : CPath)

theorem kc_mkdir {p : CPath} (m : Nat) (h : FS.under D p = true) : KCopy D (.mkdir p m) :=
  ⟨fun _ _ e => (by cases e), fun _ e => (by cases e), fun _ _ e => (by cases e; exact h)⟩

theorem iss_makedirs : ∀ (fuel : Nat) (p : CPath) (mode : Nat), FS.under D p = true →
    Iss (InvD D) (KCopy D) (makedirs fuel p mode) := by
  intro fuel
  induction fuel with
  | zero => intro p mode h; unfold makedirs; exact Iss.sys (kc_mkdir D mode h)
  | succ fuel ih =>
    intro p mode h
    unfold makedirs
    refine Iss.read_bind fun fs hi => ?_
    split
    · next hc =>
      have hne : D ≠ p := by
        rintro rfl
        exact hc.2.2 (existsC_of_dir hi)
      refine Iss.bind (ih _ _ (under_dropLast h hne)) fun r => ?_
      split
      · exact Iss.sys (kc_mkdir D mode h)
      · exact Iss.pure _
      · exact Iss.sys (kc_mkdir D mode h)
    · exact Iss.sys (kc_mkdir D mode h)

theorem kc_utime (p : CPath) (t : Nat) : KCopy D (.utime p t) :=
  ⟨fun _ _ e => (by cases e), fun _ e => (by cases e), fun _ _ e => (by cases e)⟩
theorem kc_chmod (p : CPath) (t : Nat) : KCopy D (.chmod p t) :=
  ⟨fun _ _ e => (by cases e), fun _ e => (by cases e), fun _ _ e => (by cases e)⟩
theorem kc_createTrunc (p : CPath) (t : Nat) : KCopy D (.createTrunc p t) :=
  ⟨fun _ _ e => (by cases e), fun _ e => (by cases e), fun _ _ e => (by cases e)⟩
theorem kc_write (p : CPath) (d : Bytes) : KCopy D (.write p d) :=
  ⟨fun _ _ e => (by cases e), fun _ e => (by cases e), fun _ _ e => (by cases e)⟩
theorem kc_symlink (t : Bytes) (p : CPath) : KCopy D (.symlink t p) :=
  ⟨fun _ _ e => (by cases e), fun _ e => (by cases e), fun _ _ e => (by cases e)⟩
theorem kc_unlink (p : CPath) : KCopy D (.unlink p) :=
  ⟨fun _ _ e => (by cases e), fun _ e => (by cases e), fun _ _ e => (by cases e)⟩

theorem iss_copystat (src dst : CPath) : Iss (InvD D) (KCopy D) (copystat src dst) := by
  unfold copystat
  refine Iss.read_bind fun fs _ => ?_
  have main : ∀ m t, Iss (InvD D) (KCopy D) (sys (.utime dst t) >>= fun r =>
      match r with
      | .error e => (pure (.error e) : Prog Res)
      | .ok () => sys (.chmod dst m)) := by
    intro m t
    refine Iss.bind (Iss.sys (kc_utime D _ _)) fun r => ?_
    split
    · exact Iss.pure _
    · exact Iss.sys (kc_chmod D _ _)
  split
  · exact main _ _
  · exact main _ _
  · exact Iss.pure _

theorem iss_copy2 (src dst : CPath) : Iss (InvD D) (KCopy D) (copy2 src dst) := by
  unfold copy2
  refine Iss.read_bind fun fs _ => ?_
  split
  · refine Iss.bind (Iss.sys (kc_createTrunc D _ _)) fun r => ?_
    split
    · exact Iss.pure _
    · refine Iss.bind ?_ fun w => ?_
      · split
        · exact Iss.pure _
        · exact Iss.sys (kc_write D _ _)
      · split
        · exact Iss.pure _
        · exact iss_copystat D _ _
  · exact Iss.pure _
  · exact Iss.pure _
  · exact Iss.pure _

theorem iss_copytree : ∀ (fuel : Nat) (src d : CPath), FS.under D d = true →
    Iss (InvD D) (KCopy D) (copytree fuel src d) := by
  intro fuel
  induction fuel with
  | zero => intro src d _; unfold copytree; exact Iss.pure _
  | succ fuel ih =>
    intro src d hd
    have hgo : ∀ (cs : List CPath) (failed : Bool), Iss (InvD D) (KCopy D) (copytree.go fuel d cs failed) := by
      intro cs
      induction cs with
      | nil => intro failed; unfold copytree.go; exact Iss.pure _
      | cons c cs ihc =>
        intro failed
        unfold copytree.go
        refine Iss.read_bind fun fs' _ => ?_
        refine Iss.bind ?_ fun r => ihc _
        split
        · exact Iss.sys (kc_symlink D _ _)
        · exact ih _ _ (under_snoc hd _)
        · exact iss_copy2 D _ _
        · exact Iss.pure _
    unfold copytree
    refine Iss.read_bind fun fs _ => ?_
    refine Iss.bind (iss_makedirs D _ _ _ hd) fun r => ?_
    split
    · exact Iss.pure _
    · refine Iss.bind (hgo _ _) fun failed => ?_
      refine Iss.bind (iss_copystat D _ _) fun r2 => ?_
      split
      · exact Iss.pure _
      · exact Iss.pure _

end copy

/-! removal -/

theorem kr_unlink (p : CPath) : KRm (.unlink p) := ⟨fun _ _ e => (by cases e), fun _ _ e => (by cases e)⟩
theorem kr_rmdir (p : CPath) : KRm (.rmdir p) := ⟨fun _ _ e => (by cases e), fun _ _ e => (by cases e)⟩

def InvT (_ : FS) : Prop := True

theorem iss_rmInner : ∀ (fuel : Nat) (p : CPath), Iss InvT KRm (rmInner fuel p) := by
  intro fuel
  induction fuel with
  | zero => intro p; unfold rmInner; exact Iss.pure _
  | succ fuel ih =>
    intro p
    have hgo : ∀ cs : List CPath, Iss InvT KRm (rmInner.go fuel cs) := by
      intro cs
      induction cs with
      | nil => unfold rmInner.go; exact Iss.pure _
      | cons c cs ihc =>
        unfold rmInner.go
        refine Iss.read_bind fun fs' _ => ?_
        split
        · refine Iss.bind (ih _) fun r => ?_
          split
          · exact Iss.pure _
          · refine Iss.bind (Iss.sys (kr_rmdir _)) fun r => ?_
            split
            · exact Iss.pure _
            · exact ihc
        · refine Iss.bind (Iss.sys (kr_unlink _)) fun r => ?_
          split
          · exact Iss.pure _
          · exact ihc
    unfold rmInner
    exact Iss.read_bind fun fs _ => hgo _

theorem iss_rmtree (p : CPath) : Iss InvT KRm (rmtree p) := by
  unfold rmtree
  refine Iss.read_bind fun fs _ => ?_
  split
  · exact Iss.pure _
  · exact Iss.pure _
  · exact Iss.pure _
  · refine Iss.bind (iss_rmInner _ _) fun r => ?_
    split
    · exact Iss.pure _
    · exact Iss.sys (kr_rmdir _)


/-! assembling `move` -/

def Good (dst : CPath) (c : Call) : Prop :=
  (∀ a b, c = .rename a b → b = dst) ∧ (∀ p m, c ≠ .mkdir p m ∨ FS.under dst p = true)

theorem Good.of_kcopy {dst : CPath} {c : Call} (h : KCopy dst c) : Good dst c :=
  ⟨fun a b e => absurd e (h.1 a b), fun p m => by
    by_cases e : c = .mkdir p m
    · exact Or.inr (h.2.2 p m e)
    · exact Or.inl e⟩

theorem Good.of_krm {dst : CPath} {c : Call} (h : KRm c) : Good dst c :=
  ⟨fun a b e => absurd e (h.1 a b), fun p m => Or.inl (h.2 p m)⟩

/-- the trace only grows, by calls satisfying `P` -/
def TrOK {α} (φ : Oracle) (P : Call → Prop) (p : Prog α) (s : RunState) : Prop :=
  ∀ cr ∈ (run φ p s).2.trace, cr ∈ s.trace ∨ P cr.1

theorem TrOK.pure {α} (φ : Oracle) (P : Call → Prop) (a : α) (s : RunState) : TrOK φ P (pure a : Prog α) s :=
  fun _ h => Or.inl h

theorem TrOK.bind {α β} {φ : Oracle} {P : Call → Prop} {p : Prog α} {f : α → Prog β} {s : RunState}
    (hp : TrOK φ P p s) (hf : TrOK φ P (f (run φ p s).1) (run φ p s).2) : TrOK φ P (p >>= f) s := by
  intro cr h
  rw [run_bind] at h
  rcases hf cr h with h | h
  · exact hp cr h
  · exact Or.inr h

theorem TrOK.of_copy {α} (φ : Oracle) (D : CPath) {p : Prog α} (hp : Iss (InvD D) (KCopy D) p) (s : RunState)
    (hi : InvD D s.fs) : InvD D (run φ p s).2.fs ∧ TrOK φ (Good D) p s := by
  obtain ⟨a, b⟩ := Iss.sound φ (KCopy.preserves D) p s hp hi
  exact ⟨a, fun cr h => (b cr h).imp id Good.of_kcopy⟩

theorem TrOK.of_rm {α} (φ : Oracle) (D : CPath) {p : Prog α} (hp : Iss InvT KRm p) (s : RunState) :
    TrOK φ (Good D) p s := by
  obtain ⟨_, b⟩ := Iss.sound (Inv := InvT) φ (fun _ _ _ _ _ _ => trivial) p s hp trivial
  exact fun cr h => (b cr h).imp id Good.of_krm

/-- one call under any oracle: its result is recorded; a failed call leaves the state alone -/
theorem run_sys_any (φ : Oracle) (c : Call) (s : RunState) :
    ∃ r s1, run φ (sys c) s = (r, s1) ∧ s1.trace = (c, r) :: s.trace ∧ (r = .ok () ∨ s1.fs = s.fs) := by
  simp only [sys, run]
  split
  · exact ⟨_, _, rfl, rfl, Or.inl rfl⟩
  · exact ⟨_, _, rfl, rfl, Or.inr rfl⟩

theorem no_merge_partial (fs : FS) (src dst : CPath) (hfree : fs.get dst = none)
    (hpar : fs.isDirAt (FS.parent dst) = true) (φ : Oracle) (s : RunState) (hs : s.fs = fs) :
    ∀ c r, (c, r) ∈ (run φ (move src dst) s).2.trace → (c, r) ∈ s.trace ∨
      (∀ a b, c = .rename a b → b = dst) ∧ (∀ p m, c ≠ .mkdir p m ∨ FS.under dst p = true) := by
  subst hs
  suffices h : TrOK φ (Good dst) (move src dst) s from fun c r hm => h (c, r) hm
  have hid : isdirC s.fs dst = false := by simp [isdirC, statC, followC, hfree]
  unfold move
  intro cr
  rw [run_read_bind]
  simp only [hid, Bool.false_eq_true, false_and, if_false]
  revert cr
  show TrOK φ (Good dst) _ s
  obtain ⟨r, s1, hrun, htr, hfs⟩ := run_sys_any φ (.rename src dst) s
  have hfirst : TrOK φ (Good dst) (sys (.rename src dst)) s := by
    intro cr h
    rw [hrun] at h
    simp only [htr, List.mem_cons] at h
    rcases h with e | e
    · right; rw [e]
      exact ⟨fun a b e => (by cases e; rfl), fun p m => Or.inl (fun e => by cases e)⟩
    · exact Or.inl e
  refine TrOK.bind hfirst ?_
  rw [hrun]
  simp only []
  cases r with
  | ok u => exact TrOK.pure _ _ _ _
  | error e =>
    have hfs1 : s1.fs = s.fs := by
      rcases hfs with h | h
      · cases h
      · exact h
    have hi1 : InvD dst s1.fs := by unfold InvD; rw [hfs1]; exact hpar
    show TrOK φ (Good dst) (read >>= fun fs' => _) s1
    intro cr
    rw [run_read_bind]
    revert cr
    show TrOK φ (Good dst) _ s1
    split
    · refine (TrOK.of_copy φ dst ?_ s1 hi1).2
      refine Iss.bind (Iss.sys (kc_symlink dst _ _)) fun r => ?_
      split
      · exact Iss.pure _
      · exact Iss.sys (kc_unlink dst _)
    · split
      · exact TrOK.pure _ _ _ _
      · refine TrOK.bind (TrOK.of_copy φ dst (iss_copytree dst _ _ _ (by simp [FS.under])) s1 hi1).2 ?_
        split
        · exact TrOK.pure _ _ _ _
        · exact TrOK.of_rm φ dst (iss_rmtree _) _
    · refine (TrOK.of_copy φ dst ?_ s1 hi1).2
      refine Iss.bind (iss_copy2 dst _ _) fun r => ?_
      split
      · exact Iss.pure _
      · exact Iss.sys (kc_unlink dst _)
    · exact TrOK.pure _ _ _ _

/-! ### the statement without the parent hypothesis is false -/

theorem trace_mono {α} (φ : Oracle) (p : Prog α) (s : RunState) (x : Call × Res) (h : x ∈ s.trace) :
    x ∈ (run φ p s).2.trace := by
  induction p generalizing s with
  | ret a => exact h
  | get k ih => simp only [run]; exact ih _ _ h
  | emit o' k ih => simp only [run]; exact ih _ h
  | call c k ih =>
    simp only [run]
    split <;> exact ih _ _ (List.mem_cons_of_mem _ h)

theorem mem_bind {α β} (φ : Oracle) (p : Prog α) (f : α → Prog β) (s : RunState) (x : Call × Res)
    (h : x ∈ (run φ p s).2.trace) : x ∈ (run φ (p >>= f) s).2.trace := by
  rw [run_bind]; exact trace_mono _ _ _ _ h

/-- the world of the counterexample: `/` and an empty directory `/a`; `/x` does not exist -/
def cexFs : FS := FS.ofList [([], .dir 0o755 0), ([[97]], .dir 0o755 0)] []

theorem cex_makedirs (s : RunState) (hs : s.fs = cexFs) (m : Nat) :
    (Call.mkdir [[120]] 0o777, Except.ok ()) ∈ (run noFaults (makedirs 2 [[120], [121]] m) s).2.trace := by
  have hex : existsC cexFs [[120]] = false := by decide +kernel
  have hmk : ∃ fs', Call.apply cexFs (.mkdir [[120]] 0o777) = .ok fs' := ⟨_, rfl⟩
  obtain ⟨fs', hmk⟩ := hmk
  unfold makedirs
  rw [run_read_bind, hs]
  split
  · apply mem_bind
    unfold makedirs
    rw [run_read_bind]
    split
    · next hc => exact absurd rfl hc.2.1
    · have hdl : ([[120], [121]] : CPath).dropLast = [[120]] := rfl
      rw [run_sys, hs]; simp only [hdl, hmk]; exact List.mem_cons_self
  · next hc =>
    exfalso; apply hc
    refine ⟨by decide, by decide, ?_⟩
    show ¬ existsC cexFs [[120]] = true
    rw [hex]; decide

theorem cex_trace : (Call.mkdir [[120]] 0o777, Except.ok ()) ∈
    (run noFaults (move [[97]] [[120], [121]]) { fs := cexFs }).2.trace := by
  have hid : isdirC cexFs [[120], [121]] = false := by decide +kernel
  have hren : Call.apply cexFs (.rename [[97]] [[120], [121]]) = .error .ENOENT := by rfl
  have hsrc : cexFs.get [[97]] = some (.dir 0o755 0) := by decide +kernel
  have hdis : destInSrc [[97]] [[120], [121]] = false := by decide +kernel
  unfold move
  rw [run_read_bind]
  simp only [hid, Bool.false_eq_true, false_and, if_false]
  rw [run_bind, run_sys]
  simp only [hren, run_read_bind, hsrc, hdis, Bool.false_eq_true, if_false]
  apply mem_bind
  unfold copytree
  rw [run_read_bind]
  apply mem_bind
  exact cex_makedirs _ rfl _

/-- `no_merge` as first stated in Props/C04.lean (without the hypothesis on the parent of `dst`) is
    FALSE: moving the directory `/a` to `/x/y` when `/x` does not exist makes `rename` fail with
    ENOENT, and the copy fallback (`copytree` → `os.makedirs`) creates the missing ancestor `/x`,
    which is not at or below `dst`. -/
theorem no_merge_counterexample :
    ∃ (fs : FS) (src dst : CPath), fs.get dst = none ∧
      ∃ c r, (c, r) ∈ (run noFaults (move src dst) { fs := fs }).2.trace ∧
        (c, r) ∉ ({ fs := fs } : RunState).trace ∧
        ¬ ((∀ a b, c = .rename a b → b = dst) ∧ (∀ p m, c ≠ .mkdir p m ∨ FS.under dst p = true)) := by
  refine ⟨cexFs, [[97]], [[120], [121]], by decide +kernel, _, _, cex_trace, by simp, ?_⟩
  intro h
  rcases h.2 [[120]] 0o777 with h | h
  · exact h rfl
  · revert h; decide

end TrashVerif.Proofs.C04
