/-
  Proofs/C15Seq.lean — crash states of `trash-restore` over any number of chosen entries (proofs for Props/C15Seq.lean).
-/
import TrashVerif.Props.C15SeqDefs
import TrashVerif.Proofs.C13Order
import TrashVerif.Proofs.C05Seq
namespace TrashVerif.Proofs.C15Seq
open TrashVerif Prog FS PutCore PutLemmas C09Hist C13Cmd C13Order C15Seq
open TrashVerif.C05Seq (crashStatesFrom)
open TrashVerif.Proofs.C13Cmd
open TrashVerif.Proofs.C05Seq (crashStates_def run_states_from crashStatesFrom_noFaults)
open TrashVerif.Proofs.C09Hist (GeoI not_concat_pfx info_ne_dir isFileAt_get)
open TrashVerif.Proofs.C10Loop (pay_not_pfx_info)

/-! ### (1) the composition law -/

/-- THE COMPOSITION LAW from any run state whose history is empty, every oracle -/
theorem crashStatesFrom_append (φ : Oracle) (cwd : CPath) (ov : Bool) (es1 es2 : List Entry) (s : RunState) :
    crashStatesFrom φ (restoreMany cwd ov (es1 ++ es2)) s =
      match (run φ (restoreMany cwd ov es1) { s with hist := [] }).1 with
      | .ok () => (crashStatesFrom φ (restoreMany cwd ov es1) s).dropLast ++
          crashStatesFrom φ (restoreMany cwd ov es2) (run φ (restoreMany cwd ov es1) { s with hist := [] }).2
      | .error _ => crashStatesFrom φ (restoreMany cwd ov es1) s := by
  unfold crashStatesFrom
  rw [restoreMany_append]
  generalize run φ (restoreMany cwd ov es1) { s with hist := [] } = r1
  obtain ⟨res, s1⟩ := r1
  cases res with
  | error e => rfl
  | ok u =>
    cases u
    simp only
    rw [run_states_from]
    unfold crashStatesFrom
    simp

theorem crashStates_append (φ : Oracle) (cwd : CPath) (ov : Bool) (es1 es2 : List Entry) (fs : FS) :
    crashStates φ (restoreMany cwd ov (es1 ++ es2)) fs =
      match (run φ (restoreMany cwd ov es1) { fs := fs }).1 with
      | .ok () => (crashStates φ (restoreMany cwd ov es1) fs).dropLast ++
          crashStatesFrom φ (restoreMany cwd ov es2) (run φ (restoreMany cwd ov es1) { fs := fs }).2
      | .error _ => crashStates φ (restoreMany cwd ov es1) fs :=
  crashStatesFrom_append φ cwd ov es1 es2 { fs := fs }

/-- the loop over one entry is that entry's restore -/
theorem restoreMany_single (φ : Oracle) (cwd : CPath) (ov : Bool) (e : Entry) (s : RunState) :
    run φ (restoreMany cwd ov [e]) s = run φ (restoreOne cwd ov e) s := by
  rw [restoreMany, run_bind]
  generalize run φ (restoreOne cwd ov e) s = r
  obtain ⟨res, s1⟩ := r
  cases res with
  | error e => rfl
  | ok u => cases u; rfl

/-! ### the entry in flight: the three states of a same-volume restore -/

theorem removeFile_file_hist {p : CPath} {s : RunState} {d : Bytes} {m t : Nat}
    (h : s.fs.get p = some (.file d m t)) :
    (run noFaults (removeFile p) s).2.hist = s.fs :: s.hist := by
  have hl : lexistsC s.fs p = true := by simp [lexistsC, h]
  have hu : s.fs.unlink p = .ok (touchDir (removeNode s.fs p) (parent p)) := by simp [FS.unlink, h]
  unfold removeFile
  simp [hl, run_bind, run_sys, Call.apply, hu]

/-- the payload of `it` was moved to its destination, and nothing else happened (the info file is still there) -/
structure Moved1 (I F : CPath) (it : Item) (fs fs1 : FS) : Prop where
  back : ∀ rel, fs1.get (it.dst ++ rel) = fs.get (F ++ [stemOf it.name] ++ rel)
  payGone : ∀ rel, fs1.get (F ++ [stemOf it.name] ++ rel) = none
  frame : ∀ q, q ≠ F → ¬ (F ++ [stemOf it.name]) <+: q → ¬ it.dst <+: q → q ≠ parent it.dst → fs1.get q = fs.get q
  infoKept : (fs1.get (I ++ [it.name])).isSome = true

/-- `restoreCore` on an item that is locally ok: exactly three crash states — the initial one, the one after the
    `rename` (`Moved1`), the final one (`Restored1`) -/
theorem core_states {fs : FS} {I F : CPath} {it : Item} (inv : TrashInv fs I F)
    (hinfo : isTrashinfoName it.name = true) (ok : Op.ok fs I F (.restore it.name it.dst)) :
    ∃ mid fin, crashStates noFaults (restoreCore (.ok (F ++ [stemOf it.name])) (.ok it.dst) (.ok (I ++ [it.name]))) fs =
        [fs, mid, fin] ∧ Moved1 I F it fs mid ∧ Restored1 I F it fs fin ∧
      (run noFaults (restoreCore (.ok (F ++ [stemOf it.name])) (.ok it.dst) (.ok (I ++ [it.name]))) { fs := fs }).1 = .ok () ∧
      (run noFaults (restoreCore (.ok (F ++ [stemOf it.name])) (.ok it.dst) (.ok (I ++ [it.name]))) { fs := fs }).2.fs = fin := by
  obtain ⟨hokr, R⟩ := restored1_of_ok inv hinfo ok { fs := fs } rfl
  have g := GeoI.of_inv inv
  have gi := gi_of_ok hinfo ok
  obtain ⟨hfile, hsrc, hnm, hdst, hnr, hlen, hpar, hdev, -⟩ := ok
  unfold payloadOf at hsrc hnm
  obtain ⟨d, m, t, hi⟩ := isFileAt_get hfile
  obtain ⟨c, x, hcx⟩ := Proofs.C09.snoc_of_ne_nil hnr
  have hpd : parent it.dst = c := by rw [hcx]; exact parent_concat c x
  have hpa : parent (F ++ [stemOf it.name]) = F := parent_concat _ _
  have hx : x.length ≤ 255 := by rw [hcx] at hlen; simpa using hlen
  have hFa : F <+: F ++ [stemOf it.name] := List.prefix_append F _
  have hIn : I <+: I ++ [it.name] := List.prefix_append I [it.name]
  have hsd : ¬ F ++ [stemOf it.name] <+: it.dst := fun e => gi.Fd ((List.prefix_append F _).trans e)
  have F_pd : F ≠ parent it.dst := fun e => gi.Fd (e ▸ parent_pfx _)
  have pd_d : ¬ it.dst <+: parent it.dst := not_pfx_parent_self gi.ne
  have info_pd : I ++ [it.name] ≠ parent it.dst := fun e => gi.Id (hIn.trans (e ▸ parent_pfx _))
  have info_d : ¬ it.dst <+: I ++ [it.name] := fun e => child_vs gi.Id gi.dI (List.prefix_refl _) e
  have info_a : ¬ F ++ [stemOf it.name] <+: I ++ [it.name] := pay_not_pfx_info g _ _
  obtain ⟨na, hna⟩ := Option.isSome_iff_exists.1 hsrc
  obtain ⟨dm, dt, hp⟩ := isDirAt_get hpar
  have hne : F ++ [stemOf it.name] ≠ c ++ [x] := fun e => hsd (by rw [hcx, ← e]; exact List.prefix_refl _)
  obtain ⟨m1, m2, m3⟩ := move_spec (s := { fs := fs }) (src := F ++ [stemOf it.name]) (c := c) (x := x)
    (by rw [← hcx]; exact hdst) hna hnm (by rw [hpa, ← hpd]; exact hdev) hx (by rw [← hpd]; exact hp) hne
    (fun h => hsd (by rw [hcx]; exact (under_iff _ _).1 h))
  rw [← hcx] at m1 m2 m3
  have hM : ∀ q, ¬ it.dst <+: q → ¬ F ++ [stemOf it.name] <+: q →
      (moveTree fs (F ++ [stemOf it.name]) it.dst).get q = fs.get q := by
    intro q h1 h2; rw [get_moveTree', if_neg h1, if_neg h2]
  have hmidget : ∀ q, q ≠ F → q ≠ parent it.dst →
      (touchDir (touchDir (moveTree fs (F ++ [stemOf it.name]) it.dst) (parent (F ++ [stemOf it.name]))) c).get q =
        (moveTree fs (F ++ [stemOf it.name]) it.dst).get q := by
    intro q h1 h2
    rw [get_touchDir, if_neg (by rw [← hpd]; exact h2), get_touchDir, hpa, if_neg h1]
  have hrun : run noFaults (restoreCore (.ok (F ++ [stemOf it.name])) (.ok it.dst) (.ok (I ++ [it.name]))) { fs := fs } =
      run noFaults (removeFile (I ++ [it.name])) (run noFaults (move (F ++ [stemOf it.name]) it.dst) { fs := fs }).2 := by
    show run noFaults (move (F ++ [stemOf it.name]) it.dst >>= _) _ = _
    rw [run_bind, m1]
  generalize run noFaults (move (F ++ [stemOf it.name]) it.dst) { fs := fs } = r1 at m1 m2 m3 hrun
  obtain ⟨res1, s1⟩ := r1
  simp only at m1 m2 m3 hrun
  have hi1 : s1.fs.get (I ++ [it.name]) = some (.file d m t) := by
    rw [m2, hmidget _ (Ne.symm (g.F_ne_info it.name)) info_pd, hM _ info_d info_a, hi]
  have hh := removeFile_file_hist (s := s1) hi1
  refine ⟨s1.fs, _, ?_, ⟨fun rel => ?_, fun rel => ?_, fun q qF qa qd qpd => ?_, by rw [hi1]; rfl⟩, R, hokr, rfl⟩
  · rw [crashStates_def, hrun, hh, m3]; rfl
  · have hpre : it.dst <+: it.dst ++ rel := List.prefix_append _ _
    rw [m2, hmidget _ (fun e => gi.dF (e ▸ hpre)) (Proofs.C09.append_ne_parent it.dst rel hnr), get_moveTree',
      if_pos hpre, List.drop_left]
  · have hpre : F ++ [stemOf it.name] <+: F ++ [stemOf it.name] ++ rel := List.prefix_append _ _
    rw [m2, hmidget _ (fun e => by have := congrArg List.length e; simp at this)
      (fun e => gi.Fd (hFa.trans (by rw [← e]; exact hpre) |>.trans (parent_pfx _))),
      get_moveTree', if_neg (fun e => child_vs gi.Fd gi.dF hpre e), if_pos hpre]
  · rw [m2, hmidget q qF qpd]; exact hM q qd qa

/-! ### (2) every crash state of the loop -/

theorem entryWhole_refl (fs : FS) (I F : CPath) (it : Item) : EntryWhole fs fs I F it := Or.inl ⟨fun _ => rfl, rfl⟩

theorem loop_inv (cwd : CPath) (ov : Bool) (I F : CPath) :
    ∀ (items : List Item) (fs : FS), RSetting fs cwd I F items →
      ∀ y ∈ crashStates noFaults (restoreMany cwd ov (items.map (·.e))) fs, CrashInvN fs y I F items := by
  intro items
  induction items with
  | nil =>
    intro fs _ y hy
    have : y = fs := by simpa [crashStates, restoreMany, run] using hy
    subst this
    exact ⟨fun it h => (nomatch h), fun _ _ _ _ => rfl⟩
  | cons it rest ih =>
    intro fs S y hy
    have g := GeoI.of_inv S.inv
    have hmem : it ∈ it :: rest := List.mem_cons_self
    have gi := rsetting_gi S hmem
    have hap := List.pairwise_cons.1 S.apart
    obtain ⟨r1, r2, r3, r4⟩ := S.resolves fs (reach_refl _ _ _ _) it hmem
    have ok := S.ok it hmem
    have hone : ∀ s : RunState, s.fs = fs → run noFaults (restoreMany cwd ov [it.e]) s =
        run noFaults (restoreCore (.ok (F ++ [stemOf it.name])) (.ok it.dst) (.ok (I ++ [it.name]))) s := by
      intro s hs
      rw [restoreMany_single]
      exact restoreOne_resolved noFaults cwd ov it.e s (by rw [hs]; exact r1) (by rw [hs]; exact r2) (by rw [hs]; exact r3)
        (by rw [hs]; exact r4) (by rw [hs]; exact ok.2.2.2.1) (by rw [hs]; exact ok.2.2.2.2.2.2.1)
    obtain ⟨mid, fin, hcs, M, R, hres, hfin⟩ := core_states S.inv (S.isInfo it hmem) ok
    have hcs1 : crashStates noFaults (restoreMany cwd ov [it.e]) fs = [fs, mid, fin] := by
      rw [crashStates_def, hone _ rfl, ← crashStates_def]; exact hcs
    have happ := crashStates_append noFaults cwd ov [it.e] (rest.map (·.e)) fs
    rw [hone _ rfl, hres] at happ
    simp only at happ
    rw [hcs1, crashStatesFrom_noFaults, hfin] at happ
    have hy' : y ∈ [fs, mid] ++ crashStates noFaults (restoreMany cwd ov (rest.map (·.e))) fin := by
      have : (it :: rest).map (·.e) = [it.e] ++ rest.map (·.e) := rfl
      rw [this, happ] at hy
      simpa using hy
    have other : ∀ d ∈ rest, ∀ q, Foot I F d q → fin.get q = fs.get q := fun d hd q hq =>
      R.other g gi (rsetting_gi S (List.mem_cons_of_mem _ hd)) (apart_symm (hap.1 d hd)) hq
    have otherM : ∀ d ∈ rest, ∀ q, Foot I F d q → mid.get q = fs.get q := fun d hd q hq => by
      have gd := rsetting_gi S (List.mem_cons_of_mem _ hd)
      have had : Apart d it := apart_symm (hap.1 d hd)
      exact M.frame q (foot_ne_F g gd hq) (fun h => foot_disjoint g gd gi had hq (Or.inr (Or.inl h)))
        (fun h => foot_disjoint g gd gi had hq (Or.inr (Or.inr h))) (foot_ne_parent gi (Or.inr had) hq)
    rcases List.mem_append.1 hy' with h | h
    · simp only [List.mem_cons, List.not_mem_nil, or_false] at h
      rcases h with rfl | rfl
      · exact ⟨fun d _ => entryWhole_refl _ _ _ _, fun _ _ _ _ => rfl⟩
      · refine ⟨fun d hd => ?_, fun q _ qF hall => ?_⟩
        · rcases List.mem_cons.1 hd with rfl | hd
          · exact Or.inr ⟨M.back, M.payGone⟩
          · exact Or.inl ⟨fun rel => otherM d hd _ (Or.inr (Or.inl (List.prefix_append _ _))), otherM d hd _ (Or.inl rfl)⟩
        · have hq := hall it hmem
          exact M.frame q qF (fun h => hq.1 (Or.inr (Or.inl h))) (fun h => hq.1 (Or.inr (Or.inr h))) hq.2
    · obtain ⟨e1, e2⟩ := ih fin (rsetting_step S R) y h
      have keep : ∀ q, Foot I F it q → y.get q = fin.get q := fun q hq =>
        e2 q (foot_ne_I g gi hq) (foot_ne_F g gi hq) fun d hd =>
          ⟨fun h => foot_disjoint g gi (rsetting_gi S (List.mem_cons_of_mem _ hd)) (hap.1 d hd) hq h,
           foot_ne_parent (rsetting_gi S (List.mem_cons_of_mem _ hd)) (Or.inr (hap.1 d hd)) hq⟩
      refine ⟨fun d hd => ?_, fun q qI qF hall => ?_⟩
      · rcases List.mem_cons.1 hd with rfl | hd
        · refine Or.inr ⟨fun rel => ?_, fun rel => ?_⟩
          · rw [keep _ (Or.inr (Or.inr (List.prefix_append _ _)))]; exact R.back rel
          · rw [keep _ (Or.inr (Or.inl (List.prefix_append _ _)))]; exact R.payGone rel
        · have oP : ∀ rel, fin.get (F ++ [stemOf d.name] ++ rel) = fs.get (F ++ [stemOf d.name] ++ rel) := fun rel =>
            other d hd _ (Or.inr (Or.inl (List.prefix_append _ _)))
          rcases e1 d hd with ⟨a1, a2⟩ | ⟨a1, a2⟩
          · exact Or.inl ⟨fun rel => (a1 rel).trans (oP rel), a2.trans (other d hd _ (Or.inl rfl))⟩
          · exact Or.inr ⟨fun rel => (a1 rel).trans (oP rel), a2⟩
      · rw [e2 q qI qF fun d hd => hall d (List.mem_cons_of_mem _ hd)]
        exact R.frame q qI qF (hall it hmem).1 (hall it hmem).2

/-! ### the whole command -/

/-- the crash states of `trash-restore` answered with an accepted reply are those of its loop over the chosen entries
    (the listing issues no call) — every oracle -/
theorem cmd_crashStates (φ : Oracle) (c : ReadCfg) (o : RestoreOpts) (reply : Bytes) (fs : FS) (is : List Nat)
    (hreply : parseIndexes reply (offered fs c o).length = .ok is) :
    crashStates φ (runRestore c o (some reply)) fs =
      crashStates φ (restoreMany c.cwd o.overwrite (selected (offered fs c o) is)) fs := by
  rw [crashStates_def, crashStates_def, runRestore_run]
  by_cases h0 : offered fs c o = []
  · rw [if_pos h0, h0, selected_nil]; rfl
  · rw [if_neg h0]
    simp only [if_neg (Proofs.C02Cmd.reply_ne_nil hreply), hreply]
    obtain ⟨new, h1, h2, h3⟩ := Proofs.C05Seq.run_hist_any φ (restoreMany c.cwd o.overwrite (selected (offered fs c o) is))
      (listed c o { fs := fs }) { fs := fs } rfl rfl rfl
    rw [← h3, h2]
    generalize run φ (restoreMany c.cwd o.overwrite (selected (offered fs c o) is)) (listed c o { fs := fs }) = r at h1
    obtain ⟨res, s2⟩ := r
    simp only at h1
    cases res with
    | error e => simp only; rw [h1]; rfl
    | ok u => cases u; simp only; rw [h1]; rfl

theorem cmd_inv (fs : FS) (c : ReadCfg) (o : RestoreOpts) (reply : Bytes) (I F : CPath)
    (idxs : List Nat) (sel : List Item)
    (hreply : parseIndexes reply (offered fs c o).length = .ok idxs)
    (hsel : selected (offered fs c o) idxs = sel.map (·.e))
    (S : RSetting fs c.cwd I F sel) :
    ∀ y ∈ crashStates noFaults (runRestore c o (some reply)) fs, CrashInvN fs y I F sel := by
  rw [cmd_crashStates noFaults c o reply fs idxs hreply, hsel]
  exact loop_inv c.cwd o.overwrite I F sel fs S

/-! ### (3) re-running after a crash between two entries -/

theorem loop_rerun (cwd : CPath) (ov : Bool) (I F : CPath) :
    ∀ (items : List Item) (fs : FS), RSetting fs cwd I F items →
      ∀ y ∈ crashStates noFaults (restoreMany cwd ov (items.map (·.e))) fs,
      (∀ it ∈ items, (y.get (F ++ [stemOf it.name])).isSome = true ∨ y.get (I ++ [it.name]) = none) →
      ∃ post, post <:+ items ∧ (∀ it ∈ items, it ∈ post ↔ (y.get (I ++ [it.name])).isSome = true) ∧
        (run noFaults (restoreMany cwd ov (post.map (·.e))) { fs := y }).1 = .ok () ∧
        RestoredExactly fs (run noFaults (restoreMany cwd ov (post.map (·.e))) { fs := y }).2.fs I F items := by
  intro items
  induction items with
  | nil =>
    intro fs _ y hy _
    have : y = fs := by simpa [crashStates, restoreMany, run] using hy
    subst this
    exact ⟨[], List.suffix_refl _, fun it h => (nomatch h), rfl, restored_nil _ _ _⟩
  | cons it rest ih =>
    intro fs S y hy hclean
    have g := GeoI.of_inv S.inv
    have hmem : it ∈ it :: rest := List.mem_cons_self
    have gi := rsetting_gi S hmem
    have hap := List.pairwise_cons.1 S.apart
    obtain ⟨r1, r2, r3, r4⟩ := S.resolves fs (reach_refl _ _ _ _) it hmem
    have ok := S.ok it hmem
    have hone : ∀ s : RunState, s.fs = fs → run noFaults (restoreMany cwd ov [it.e]) s =
        run noFaults (restoreCore (.ok (F ++ [stemOf it.name])) (.ok it.dst) (.ok (I ++ [it.name]))) s := by
      intro s hs
      rw [restoreMany_single]
      exact restoreOne_resolved noFaults cwd ov it.e s (by rw [hs]; exact r1) (by rw [hs]; exact r2) (by rw [hs]; exact r3)
        (by rw [hs]; exact r4) (by rw [hs]; exact ok.2.2.2.1) (by rw [hs]; exact ok.2.2.2.2.2.2.1)
    obtain ⟨mid, fin, hcs, M, R, hres, hfin⟩ := core_states S.inv (S.isInfo it hmem) ok
    have hcs1 : crashStates noFaults (restoreMany cwd ov [it.e]) fs = [fs, mid, fin] := by
      rw [crashStates_def, hone _ rfl, ← crashStates_def]; exact hcs
    have happ := crashStates_append noFaults cwd ov [it.e] (rest.map (·.e)) fs
    rw [hone _ rfl, hres] at happ
    simp only at happ
    rw [hcs1, crashStatesFrom_noFaults, hfin] at happ
    have hy' : y ∈ [fs, mid] ++ crashStates noFaults (restoreMany cwd ov (rest.map (·.e))) fin := by
      have : (it :: rest).map (·.e) = [it.e] ++ rest.map (·.e) := rfl
      rw [this, happ] at hy
      simpa using hy
    rcases List.mem_append.1 hy' with h | h
    · simp only [List.mem_cons, List.not_mem_nil, or_false] at h
      rcases h with rfl | rfl
      · obtain ⟨a, P⟩ := restoreMany_loop cwd ov I F (it :: rest) { fs := y } S
        refine ⟨it :: rest, List.suffix_refl _, fun d hd => ⟨fun _ => ?_, fun _ => hd⟩, a, P⟩
        obtain ⟨dd, m, t, hi⟩ := isFileAt_get (S.ok d hd).1
        rw [hi]; rfl
      · exfalso
        rcases hclean it hmem with h | h
        · have := M.payGone []
          rw [List.append_nil] at this
          rw [this] at h; cases h
        · have := M.infoKept
          rw [h] at this; cases this
    · have S' := rsetting_step S R
      obtain ⟨-, e2⟩ := loop_inv cwd ov I F rest fin S' y h
      have keep : ∀ q, Foot I F it q → y.get q = fin.get q := fun q hq =>
        e2 q (foot_ne_I g gi hq) (foot_ne_F g gi hq) fun d hd =>
          ⟨fun h => foot_disjoint g gi (rsetting_gi S (List.mem_cons_of_mem _ hd)) (hap.1 d hd) hq h,
           foot_ne_parent (rsetting_gi S (List.mem_cons_of_mem _ hd)) (Or.inr (hap.1 d hd)) hq⟩
      obtain ⟨post, hsuf, hiff, a, P⟩ := ih fin S' y h (fun d hd => hclean d (List.mem_cons_of_mem _ hd))
      have hnot : it ∉ rest := fun hin => (hap.1 it hin).1 rfl
      refine ⟨post, hsuf.trans (List.suffix_cons _ _), fun d hd => ?_, a,
        restored_cons g gi (fun d hd => ⟨rsetting_gi S (List.mem_cons_of_mem _ hd), hap.1 d hd⟩) R P⟩
      rcases List.mem_cons.1 hd with rfl | hd
      · constructor
        · intro hp; exact absurd (hsuf.subset hp) hnot
        · intro hs
          rw [keep _ (Or.inl rfl), R.infoGone] at hs; cases hs
      · exact hiff d hd

theorem cmd_rerun (fs : FS) (c : ReadCfg) (o : RestoreOpts) (reply : Bytes) (I F : CPath)
    (idxs : List Nat) (sel : List Item)
    (hreply : parseIndexes reply (offered fs c o).length = .ok idxs)
    (hsel : selected (offered fs c o) idxs = sel.map (·.e))
    (S : RSetting fs c.cwd I F sel) :
    ∀ y ∈ crashStates noFaults (runRestore c o (some reply)) fs,
      (∀ it ∈ sel, (y.get (F ++ [stemOf it.name])).isSome = true ∨ y.get (I ++ [it.name]) = none) →
      ∃ post, post <:+ sel ∧ (∀ it ∈ sel, it ∈ post ↔ (y.get (I ++ [it.name])).isSome = true) ∧
        (run noFaults (restoreMany c.cwd o.overwrite (post.map (·.e))) { fs := y }).1 = .ok () ∧
        RestoredExactly fs (run noFaults (restoreMany c.cwd o.overwrite (post.map (·.e))) { fs := y }).2.fs I F sel := by
  rw [cmd_crashStates noFaults c o reply fs idxs hreply, hsel]
  exact loop_rerun c.cwd o.overwrite I F sel fs S

end TrashVerif.Proofs.C15Seq
