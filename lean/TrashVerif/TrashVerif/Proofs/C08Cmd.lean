/-
  Proofs/C08Cmd.lean — proofs of the statements of Props/C08Cmd.lean (command-level frames for C08).
  Machinery: Proofs/C08CmdCore.lean.
-/
import TrashVerif.Proofs.C08CmdCore
import TrashVerif.Proofs.C08
import TrashVerif.Proofs.C09
import TrashVerif.Proofs.C20
namespace TrashVerif.Proofs.C08Cmd
open TrashVerif Prog FS PutLemmas C04 C11 TrashVerif.C08Cmd

/-! ### trash-empty, trash-rm: the loops only remove, outside `r` -/

/-- an `unlink`/`rmdir` of a path that is not at or below `r` -/
abbrev KOut (r : CPath) : Call → Prop := KR fun p => ¬ r <+: p

theorem kout_avoids {r : CPath} {c : Call} (h : KOut r c) : Avoids r c := by
  obtain ⟨p, e, hp⟩ := h
  rcases e with rfl | rfl <;> exact hp

section loops
variable (fs0 : FS) (cwd r : CPath)

theorem iss_removeIfExistsR {R : Except Errno CPath} (h : ∀ p, R = .ok p → Apart r p) :
    Iss (Shr fs0) (KOut r) (removeIfExistsR R) := by
  unfold removeIfExistsR
  split
  · next q =>
    exact Iss.weaken (fun _ _ => trivial) (fun c hc => KR.mono (fun x hx => apart_below (h q rfl) hx) hc)
      (iss_removeIfExists q)
  · exact Iss.pure _

theorem iss_removeFile2R {R : Except Errno CPath} (h : ∀ p, R = .ok p → Apart r p) :
    Iss (Shr fs0) (KOut r) (removeFile2R R) := by
  unfold removeFile2R
  split
  · next q =>
    exact Iss.weaken (fun _ _ => trivial) (fun c hc => KR.mono (fun x hx => apart_below (h q rfl) hx) hc)
      (iss_removeFile2 q)
  · exact Iss.pure _

theorem iss_purgePairR {R1 R2 : Except Errno CPath} (h1 : ∀ p, R1 = .ok p → Apart r p)
    (h2 : ∀ p, R2 = .ok p → Apart r p) : Iss (Shr fs0) (KOut r) (purgePair R1 R2) := by
  unfold purgePair
  refine Iss.bind (iss_removeIfExistsR fs0 r h1) fun x => ?_
  split
  · exact Iss.pure _
  · exact iss_removeFile2R fs0 r h2

theorem iss_emptyPathR (o : EmptyOpts) (path : Bytes) {R : Except Errno CPath} (h : ∀ p, R = .ok p → Apart r p) :
    Iss (Shr fs0) (KOut r) (emptyPathR o path R) := by
  unfold emptyPathR
  have jp : Iss (Shr fs0) (KOut r) (removeIfExistsR R >>= fun x =>
      match x with
      | .ok () => (pure () : Prog Unit)
      | .error _ => say (.stderr "cannot-remove" path)) := by
    refine Iss.bind (iss_removeIfExistsR fs0 r h) fun x => ?_
    split
    · exact Iss.pure _
    · exact trivial
  split
  · exact trivial
  · dsimp only
    split
    · exact Iss.bind trivial fun _ => jp
    · exact jp

variable {fs0 cwd r}

/-- in a state that only shrank from `fs0`, an info path of `t` denotes a place apart from `r` -/
theorem info_apart {t i : Bytes} (hap : DirApart fs0 cwd r t) (hi : InfoForm t i) {fs : FS} (hs : Shr fs0 fs)
    (p : CPath) (h : resolve fs cwd i = .ok p) : Apart r p := by
  obtain ⟨n, rfl, _, hn⟩ := hi
  exact apart_of_resolve hs cwd r (tidy_info t) hn hap.1 h

theorem files_apart {t i : Bytes} (hap : DirApart fs0 cwd r t) (hi : FilesForm t i) {fs : FS} (hs : Shr fs0 fs)
    (p : CPath) (h : resolve fs cwd i = .ok p) : Apart r p := by
  obtain ⟨n, rfl, hn⟩ := hi
  exact apart_of_resolve hs cwd r (tidy_files t) hn hap.2 h

theorem iss_emptyInfos (o : EmptyOpts) {t : Bytes} (ht : Tidy t) (hap : DirApart fs0 cwd r t) :
    ∀ infos : List Bytes, (∀ i ∈ infos, InfoForm t i) → Iss (Shr fs0) (KOut r) (emptyInfos cwd o infos) := by
  intro infos
  induction infos with
  | nil => intro _; exact Iss.pure _
  | cons i rest ih =>
    intro hall
    have hi := hall i List.mem_cons_self
    have ih' := ih fun j hj => hall j (List.mem_cons_of_mem _ hj)
    unfold emptyInfos
    refine Iss.read_bind fun fs hs => ?_
    split
    · exact Iss.pure _
    · exact ih'
    · refine Iss.bind (iss_emptyPathR fs0 r o _ (files_apart hap (backup_form ht hi) hs)) fun _ => ?_
      exact Iss.bind (iss_emptyPathR fs0 r o _ (info_apart hap hi hs)) fun _ => ih'

theorem iss_emptyPaths (o : EmptyOpts) {t : Bytes} (hap : DirApart fs0 cwd r t) :
    ∀ ps : List Bytes, (∀ i ∈ ps, FilesForm t i) → Iss (Shr fs0) (KOut r) (emptyPaths cwd o ps) := by
  intro ps
  induction ps with
  | nil => intro _; exact Iss.pure _
  | cons i rest ih =>
    intro hall
    unfold emptyPaths
    refine Iss.bind ?_ fun _ => ih fun j hj => hall j (List.mem_cons_of_mem _ hj)
    unfold emptyPath
    exact Iss.read_bind fun fs hs => iss_emptyPathR fs0 r o _ (files_apart hap (hall i List.mem_cons_self) hs)

theorem iss_emptyDirs (o : EmptyOpts) (hn : PlainNames fs0) :
    ∀ dirs : List (Bytes × Bytes), (∀ tv ∈ dirs, Tidy tv.1 ∧ DirApart fs0 cwd r tv.1) →
      Iss (Shr fs0) (KOut r) (emptyDirs cwd o dirs) := by
  intro dirs
  induction dirs with
  | nil => intro _; exact Iss.pure _
  | cons tv rest ih =>
    intro hall
    obtain ⟨t, v⟩ := tv
    obtain ⟨ht, hap⟩ := hall (t, v) List.mem_cons_self
    unfold emptyDirs
    refine Iss.read_bind fun fs hs => ?_
    split
    · exact Iss.pure _
    · next infos hinf =>
      refine Iss.bind (iss_emptyInfos o ht hap infos (infosOf_form (plainNames_shr hs hn) hinf)) fun x => ?_
      split
      · exact Iss.pure _
      · refine Iss.read_bind fun fs' hs' => ?_
        split
        · exact Iss.pure _
        · next os hos =>
          refine Iss.bind (iss_emptyPaths o hap os (orphansOf_form (plainNames_shr hs' hn) hos)) fun _ => ?_
          exact ih fun tv' h' => hall tv' (List.mem_cons_of_mem _ h')

theorem iss_rmInfos (pattern volume : Bytes) {t : Bytes} (ht : Tidy t) (hap : DirApart fs0 cwd r t) :
    ∀ infos : List Bytes, (∀ i ∈ infos, InfoForm t i) → Iss (Shr fs0) (KOut r) (rmInfos cwd pattern volume infos) := by
  intro infos
  induction infos with
  | nil => intro _; exact Iss.pure _
  | cons i rest ih =>
    intro hall
    have hi := hall i List.mem_cons_self
    have ih' := ih fun j hj => hall j (List.mem_cons_of_mem _ hj)
    unfold rmInfos
    refine Iss.read_bind fun fs hs => ?_
    split
    · exact Iss.bind trivial fun _ => ih'
    · split
      · exact Iss.bind trivial fun _ => ih'
      · split
        · exact Iss.pure _
        · exact ih'
        · refine Iss.bind (iss_purgePairR fs0 r (files_apart hap (backup_form ht hi) hs) (info_apart hap hi hs)) fun x => ?_
          split
          · exact Iss.pure _
          · exact ih'

theorem iss_rmDirs (pattern : Bytes) (hn : PlainNames fs0) :
    ∀ dirs : List (Bytes × Bytes), (∀ tv ∈ dirs, Tidy tv.1 ∧ DirApart fs0 cwd r tv.1) →
      Iss (Shr fs0) (KOut r) (rmDirs cwd pattern dirs) := by
  intro dirs
  induction dirs with
  | nil => intro _; exact Iss.pure _
  | cons tv rest ih =>
    intro hall
    obtain ⟨t, v⟩ := tv
    obtain ⟨ht, hap⟩ := hall (t, v) List.mem_cons_self
    unfold rmDirs
    refine Iss.read_bind fun fs hs => ?_
    split
    · exact Iss.pure _
    · next infos hinf =>
      refine Iss.bind (iss_rmInfos pattern v ht hap infos (infosOf_form (plainNames_shr hs hn) hinf)) fun x => ?_
      split
      · exact Iss.pure _
      · exact ih fun tv' h' => hall tv' (List.mem_cons_of_mem _ h')

end loops

/-- what a program that only removes outside `r` (given that the state only shrank) leaves: the
    state only shrank, and everything at or below `r` is as it was — in the final state and in
    every state recorded on the way -/
theorem frame_of_iss {α} (φ : Oracle) (r : CPath) {p : Prog α} (s : RunState)
    (hp : Iss (Shr s.fs) (KOut r) p) :
    (Shr s.fs (run φ p s).2.fs ∧ SameBelow r s.fs (run φ p s).2.fs) ∧
    ∀ x ∈ (run φ p s).2.hist, x ∈ s.hist ∨ (Shr s.fs x ∧ SameBelow r s.fs x) := by
  refine Iss.thru φ (Inv := fun x => Shr s.fs x ∧ SameBelow r s.fs x) ?_ p s
    (Iss.weaken (fun _ h => h.1) (fun _ h => h) hp) ⟨Shr.refl _, fun _ => rfl⟩
  intro c hc fs fs' hi h
  exact ⟨shr_keep s.fs c hc fs fs' hi.1 h, fun rel => (avoids_keep (kout_avoids hc) h rel).trans (hi.2 rel)⟩

/-! ### the directories the scanners yield are tidy, and none of them is an insecure `.Trash/$uid` -/

theorem tidy_append (w : Bytes) {c : Bytes} (h0 : c ≠ []) (hl : c.getLast? ≠ some slash) : Tidy (w ++ c) := by
  refine ⟨by simp [h0], ?_⟩
  rw [List.getLast?_append]
  cases hg : c.getLast? with
  | none => exact absurd (List.getLast?_eq_none_iff.1 hg) h0
  | some x => rw [hg] at hl; simpa using hl

theorem ofNat_no_slash (n : Nat) : slash ∉ Bytes.ofNat n := by
  rw [C20.ofNat_eq]
  intro h
  obtain ⟨c, hc, hs⟩ := List.mem_flatMap.1 h
  have hd : c.isDigit = true := Nat.isDigit_of_mem_toDigits (b := 10) (n := n) (by decide) (by decide) hc
  obtain ⟨h1, h2⟩ := C20.digit_byte c hd
  rw [h1] at hs
  exact h2 (List.mem_singleton.1 hs).symm

theorem ofNat_ne_nil (n : Nat) : Bytes.ofNat n ≠ [] := by
  rw [C20.ofNat_eq]
  cases hd : Nat.toDigits 10 n with
  | nil => exact absurd hd Nat.toDigits_ne_nil
  | cons c cs =>
    have hc : c.isDigit = true :=
      Nat.isDigit_of_mem_toDigits (b := 10) (n := n) (by decide) (by decide) (by rw [hd]; exact List.mem_cons_self)
    rw [List.flatMap_cons, (C20.digit_byte c hc).1]
    simp

theorem ofNat_last (n : Nat) : (Bytes.ofNat n).getLast? ≠ some slash :=
  fun e => ofNat_no_slash n (List.mem_of_getLast? e)

theorem tidy_home {env : Env} {p : Bytes} (h : p ∈ homeTrashPaths env) : Tidy p := by
  have t1 : ∀ w : Bytes, Tidy (w ++ b "/Trash") := fun w => tidy_append w (by decide +kernel) (by decide +kernel)
  have t2 : ∀ w : Bytes, Tidy (w ++ b "/.local/share/Trash") := fun w =>
    tidy_append w (by decide +kernel) (by decide +kernel)
  unfold homeTrashPaths at h
  split at h
  · split at h
    · rw [List.mem_singleton.1 h]; exact t1 _
    · split at h
      · rw [List.mem_singleton.1 h]; exact t2 _
      · cases h
  · split at h
    · rw [List.mem_singleton.1 h]; exact t2 _
    · cases h

theorem tidy_alt (v : Bytes) (n : Nat) : Tidy (pjoin v (b ".Trash-" ++ Bytes.ofNat n)) := by
  have := tidy_append (b ".Trash-") (ofNat_ne_nil n) (ofNat_last n)
  exact tidy_pjoin v this.1 this.2

theorem tidy_top (c : ReadCfg) (v : Bytes) : Tidy (topDir c v) :=
  tidy_pjoin _ (ofNat_ne_nil _) (ofNat_last _)

/-- `join(a, c)` ends with `c` when `c` is relative -/
theorem pjoin_ends {a c : Bytes} (h : Bytes.startsWith c [slash] = false) : ∃ w, pjoin a c = w ++ c := by
  unfold pjoin
  rw [h]
  simp only [Bool.false_eq_true, if_false]
  split
  · exact ⟨a, rfl⟩
  · exact ⟨a ++ [slash], rfl⟩

/-- trash-restore's spelling of `$topdir/.Trash/$uid` is the scanner's -/
theorem topDir_restore (c : ReadCfg) (v : Bytes) : pjoin v (b ".Trash/" ++ Bytes.ofNat c.uid) = topDir c v :=
  (C20.pjoin_trash v _ (C20.ofNat_head c.uid)).symm

/-- `$topdir'/.Trash-$uid` and `$topdir/.Trash/$uid` are never the same string -/
theorem alt_ne_top (c : ReadCfg) (v v' : Bytes) : pjoin v' (b ".Trash-" ++ Bytes.ofNat c.uid) ≠ topDir c v := by
  rw [← topDir_restore]
  have e1 : b ".Trash-" = [46, 84, 114, 97, 115, 104] ++ [45] := by decide +kernel
  have e2 : b ".Trash/" = [46, 84, 114, 97, 115, 104] ++ [47] := by decide +kernel
  have s1 : Bytes.startsWith (b ".Trash-" ++ Bytes.ofNat c.uid) [slash] = false := by rw [e1]; rfl
  have s2 : Bytes.startsWith (b ".Trash/" ++ Bytes.ofNat c.uid) [slash] = false := by rw [e2]; rfl
  obtain ⟨w1, h1⟩ := pjoin_ends (a := v') s1
  obtain ⟨w2, h2⟩ := pjoin_ends (a := v) s2
  rw [h1, h2]
  intro e
  rw [← List.append_assoc, ← List.append_assoc] at e
  have e' := List.append_cancel_right e
  rw [e1, e2, ← List.append_assoc, ← List.append_assoc] at e'
  have := (List.append_inj' e' rfl).2
  cases this

theorem foundDirs_append (a b' : List ScanEvent) : foundDirs (a ++ b') = foundDirs a ++ foundDirs b' := by
  induction a with
  | nil => rfl
  | cons ev rest ih => cases ev <;> simp [foundDirs, ih]

theorem mem_foundDirs_map {f : Bytes → Bytes} {tv : Bytes × Bytes} :
    ∀ {ds : List Bytes}, tv ∈ foundDirs (ds.map fun d => ScanEvent.found d (f d)) → tv.1 ∈ ds := by
  intro ds
  induction ds with
  | nil => intro h; cases h
  | cons d rest ih =>
    intro h
    simp only [List.map_cons, foundDirs, List.mem_cons] at h
    rcases h with rfl | h
    · exact List.mem_cons_self
    · exact List.mem_cons_of_mem _ (ih h)

theorem mem_select {fs : FS} {c : ReadCfg} {ud : List Bytes} {tv : Bytes × Bytes}
    (h : tv ∈ foundDirs (selectTrashDirs fs c ud)) : tv ∈ foundDirs (scanTrashDirs fs c) ∨ tv.1 ∈ ud := by
  unfold selectTrashDirs at h
  rw [foundDirs_append, List.mem_append] at h
  rcases h with h | h
  · split at h
    · exact Or.inl h
    · cases h
  · exact Or.inr (mem_foundDirs_map h)

/-- every directory the scanner yields is tidy -/
theorem tidy_found {fs : FS} {c : ReadCfg} {tv : Bytes × Bytes} (h : tv ∈ foundDirs (scanTrashDirs fs c)) :
    Tidy tv.1 := by
  obtain ⟨p, v⟩ := tv
  rcases C08.scan_found_only_valid fs c p v (C20.mem_foundDirs h) with ⟨hp, _⟩ | ⟨_, rfl, _⟩ | ⟨_, rfl, _⟩
  · exact tidy_home hp
  · exact tidy_alt _ _
  · exact tidy_top c _

/-- an insecure `$topdir/.Trash/$uid` (that is not the home trash directory) is not among the
    directories the scanner yields -/
theorem top_not_found {fs : FS} {c : ReadCfg} {v : Bytes}
    (hi : pIslink fs c.cwd (dirname (topDir c v)) = true ∨ pIsdir fs c.cwd (dirname (topDir c v)) = false ∨
          pSticky fs c.cwd (dirname (topDir c v)) ≠ some true)
    (hhome : topDir c v ∉ homeTrashPaths c.env) :
    ∀ tv ∈ foundDirs (scanTrashDirs fs c), tv.1 ≠ topDir c v := by
  rintro ⟨p, v'⟩ h e
  simp only at e
  subst e
  rcases C08.scan_found_only_valid fs c _ v' (C20.mem_foundDirs h) with ⟨hp, _⟩ | ⟨_, e, _⟩ | ⟨_, _, hv⟩
  · exact hhome hp
  · exact alt_ne_top c v v' e.symm
  · exact C08.valid_not_insecure fs c.cwd _ hi hv

/-- the same for trash-restore's list -/
theorem top_not_restored {fs : FS} {c : ReadCfg} {v : Bytes}
    (hi : pIslink fs c.cwd (dirname (topDir c v)) = true ∨ pIsdir fs c.cwd (dirname (topDir c v)) = false ∨
          pSticky fs c.cwd (dirname (topDir c v)) ≠ some true)
    (hhome : topDir c v ∉ homeTrashPaths c.env) :
    ∀ tv ∈ restoreTrashDirs fs c none, tv.1 ≠ topDir c v := by
  rintro ⟨p, v'⟩ h e
  simp only at e
  subst e
  rcases C08.restore_found_only_valid fs c _ v' h with ⟨hp, _⟩ | ⟨_, e⟩ | ⟨_, _, hv⟩
  · exact hhome hp
  · exact alt_ne_top c v v' e.symm
  · exact C08.valid_not_insecure fs c.cwd _ hi hv

/-! ### trash-empty, trash-rm: the commands -/

/-- KEY LEMMA (trash-empty), under every fault oracle -/
theorem emptyDirs_frame (φ : Oracle) (cwd : CPath) (o : EmptyOpts) (r : CPath) (dirs : List (Bytes × Bytes))
    (s : RunState) (hn : PlainNames s.fs) (hd : ∀ tv ∈ dirs, Tidy tv.1 ∧ DirApart s.fs cwd r tv.1) :
    SameBelow r s.fs (run φ (emptyDirs cwd o dirs) s).2.fs ∧
    ∀ x ∈ (run φ (emptyDirs cwd o dirs) s).2.hist, x ∈ s.hist ∨ SameBelow r s.fs x := by
  obtain ⟨a, bb⟩ := frame_of_iss φ r s (iss_emptyDirs o hn dirs hd)
  exact ⟨a.2, fun x hx => (bb x hx).imp id And.right⟩

/-- KEY LEMMA (trash-rm), under every fault oracle -/
theorem rmDirs_frame (φ : Oracle) (cwd : CPath) (pattern : Bytes) (r : CPath) (dirs : List (Bytes × Bytes))
    (s : RunState) (hn : PlainNames s.fs) (hd : ∀ tv ∈ dirs, Tidy tv.1 ∧ DirApart s.fs cwd r tv.1) :
    SameBelow r s.fs (run φ (rmDirs cwd pattern dirs) s).2.fs ∧
    ∀ x ∈ (run φ (rmDirs cwd pattern dirs) s).2.hist, x ∈ s.hist ∨ SameBelow r s.fs x := by
  obtain ⟨a, bb⟩ := frame_of_iss φ r s (iss_rmDirs pattern hn dirs hd)
  exact ⟨a.2, fun x hx => (bb x hx).imp id And.right⟩

/-- what `runEmpty` does once the file system was read -/
def emptyBody (c : ReadCfg) (o : EmptyOpts) (reply : Option Bytes) (fs : FS) : Prog CmdResult :=
  let go : Prog CmdResult := do
    match ← emptyDirs c.cwd o (foundDirs (selectTrashDirs fs c o.userDirs)) with
    | some cr => do say (.stderr "traceback" []); pure { exit := 1, crash := some cr }
    | none => pure { exit := 0 }
  if o.interactive then
    match reply with
    | none => do say (.stderr "traceback" []); pure { exit := 1, crash := some .eof }
    | some r => if emptyReplyYes r then go else pure { exit := 0 }
  else go

theorem runEmpty_body (φ : Oracle) (c : ReadCfg) (o : EmptyOpts) (reply : Option Bytes) (s : RunState) :
    run φ (runEmpty c o reply) s = run φ (emptyBody c o reply s.fs) s := rfl

theorem iss_emptyBody (c : ReadCfg) (o : EmptyOpts) (reply : Option Bytes) (r : CPath) (fs0 : FS)
    (hn : PlainNames fs0)
    (hd : ∀ tv ∈ foundDirs (selectTrashDirs fs0 c o.userDirs), Tidy tv.1 ∧ DirApart fs0 c.cwd r tv.1) :
    Iss (Shr fs0) (KOut r) (emptyBody c o reply fs0) := by
  have hgo : Iss (Shr fs0) (KOut r) (emptyDirs c.cwd o (foundDirs (selectTrashDirs fs0 c o.userDirs)) >>= fun x =>
      match x with
      | some cr => (do say (.stderr "traceback" []); pure { exit := 1, crash := some cr } : Prog CmdResult)
      | none => pure { exit := 0 }) := by
    refine Iss.bind (iss_emptyDirs o hn _ hd) fun x => ?_
    split
    · exact trivial
    · exact Iss.pure _
  unfold emptyBody
  dsimp only
  split
  · split
    · exact trivial
    · split
      · exact hgo
      · exact Iss.pure _
  · exact hgo

theorem runEmpty_frame (φ : Oracle) (c : ReadCfg) (o : EmptyOpts) (reply : Option Bytes) (s : RunState) (r : CPath)
    (hn : PlainNames s.fs)
    (hd : ∀ tv ∈ foundDirs (selectTrashDirs s.fs c o.userDirs), Tidy tv.1 ∧ DirApart s.fs c.cwd r tv.1) :
    SameBelow r s.fs (run φ (runEmpty c o reply) s).2.fs ∧
    ∀ x ∈ (run φ (runEmpty c o reply) s).2.hist, x ∈ s.hist ∨ SameBelow r s.fs x := by
  rw [runEmpty_body]
  obtain ⟨a, bb⟩ := frame_of_iss φ r s (iss_emptyBody c o reply r s.fs hn hd)
  exact ⟨a.2, fun x hx => (bb x hx).imp id And.right⟩

theorem empty_frames_insecure (φ : Oracle) (c : ReadCfg) (o : EmptyOpts) (reply : Option Bytes) (s : RunState)
    (v : Bytes) (r : CPath)
    (hi : pIslink s.fs c.cwd (dirname (topDir c v)) = true ∨ pIsdir s.fs c.cwd (dirname (topDir c v)) = false ∨
          pSticky s.fs c.cwd (dirname (topDir c v)) ≠ some true)
    (hn : PlainNames s.fs) (hhome : topDir c v ∉ homeTrashPaths c.env)
    (huser : ∀ d ∈ o.userDirs, d ≠ topDir c v ∧ Tidy d)
    (hgeo : ∀ tv ∈ foundDirs (selectTrashDirs s.fs c o.userDirs), tv.1 ≠ topDir c v → DirApart s.fs c.cwd r tv.1) :
    (∀ tv ∈ foundDirs (selectTrashDirs s.fs c o.userDirs), tv.1 ≠ topDir c v) ∧
    (∀ rel, (run φ (runEmpty c o reply) s).2.fs.get (r ++ rel) = s.fs.get (r ++ rel)) ∧
    (∀ x ∈ (run φ (runEmpty c o reply) s).2.hist, x ∈ s.hist ∨ ∀ rel, x.get (r ++ rel) = s.fs.get (r ++ rel)) := by
  have hne : ∀ tv ∈ foundDirs (selectTrashDirs s.fs c o.userDirs), tv.1 ≠ topDir c v := by
    intro tv htv
    rcases mem_select htv with h | h
    · exact top_not_found hi hhome tv h
    · exact (huser _ h).1
  have htidy : ∀ tv ∈ foundDirs (selectTrashDirs s.fs c o.userDirs), Tidy tv.1 := by
    intro tv htv
    rcases mem_select htv with h | h
    · exact tidy_found h
    · exact (huser _ h).2
  obtain ⟨a, bb⟩ := runEmpty_frame φ c o reply s r hn fun tv htv => ⟨htidy tv htv, hgeo tv htv (hne tv htv)⟩
  exact ⟨hne, a, bb⟩

/-- what `runRm` does with a pattern once the file system was read -/
def rmBody (c : ReadCfg) (pattern : Bytes) (fs : FS) : Prog CmdResult := do
  match ← rmDirs c.cwd pattern (foundDirs (scanTrashDirs fs c)) with
  | some cr => do say (.stderr "traceback" []); pure { exit := 1, crash := some cr }
  | none => pure { exit := 0 }

theorem runRm_body (φ : Oracle) (c : ReadCfg) (pattern : Bytes) (rest : List Bytes) (s : RunState) :
    run φ (runRm c (pattern :: rest)) s = run φ (rmBody c pattern s.fs) s := rfl

theorem runRm_nil (φ : Oracle) (c : ReadCfg) (s : RunState) :
    run φ (runRm c []) s = ({ exit := 8 }, { s with outs := .stderr "usage" [] :: s.outs }) := rfl

theorem runRm_frame (φ : Oracle) (c : ReadCfg) (args : List Bytes) (s : RunState) (r : CPath)
    (hn : PlainNames s.fs)
    (hd : ∀ tv ∈ foundDirs (scanTrashDirs s.fs c), Tidy tv.1 ∧ DirApart s.fs c.cwd r tv.1) :
    SameBelow r s.fs (run φ (runRm c args) s).2.fs ∧
    ∀ x ∈ (run φ (runRm c args) s).2.hist, x ∈ s.hist ∨ SameBelow r s.fs x := by
  cases args with
  | nil => rw [runRm_nil]; exact ⟨fun _ => rfl, fun x hx => Or.inl hx⟩
  | cons pattern rest =>
    rw [runRm_body]
    have hp : Iss (Shr s.fs) (KOut r) (rmBody c pattern s.fs) := by
      unfold rmBody
      refine Iss.bind (iss_rmDirs pattern hn _ hd) fun x => ?_
      split
      · exact trivial
      · exact Iss.pure _
    obtain ⟨a, bb⟩ := frame_of_iss φ r s hp
    exact ⟨a.2, fun x hx => (bb x hx).imp id And.right⟩

theorem rm_frames_insecure (φ : Oracle) (c : ReadCfg) (args : List Bytes) (s : RunState) (v : Bytes) (r : CPath)
    (hi : pIslink s.fs c.cwd (dirname (topDir c v)) = true ∨ pIsdir s.fs c.cwd (dirname (topDir c v)) = false ∨
          pSticky s.fs c.cwd (dirname (topDir c v)) ≠ some true)
    (hn : PlainNames s.fs) (hhome : topDir c v ∉ homeTrashPaths c.env)
    (hgeo : ∀ tv ∈ foundDirs (scanTrashDirs s.fs c), tv.1 ≠ topDir c v → DirApart s.fs c.cwd r tv.1) :
    (∀ tv ∈ foundDirs (scanTrashDirs s.fs c), tv.1 ≠ topDir c v) ∧
    (∀ rel, (run φ (runRm c args) s).2.fs.get (r ++ rel) = s.fs.get (r ++ rel)) ∧
    (∀ x ∈ (run φ (runRm c args) s).2.hist, x ∈ s.hist ∨ ∀ rel, x.get (r ++ rel) = s.fs.get (r ++ rel)) := by
  have hne := top_not_found hi hhome
  obtain ⟨a, bb⟩ := runRm_frame φ c args s r hn fun tv htv => ⟨tidy_found htv, hgeo tv htv (hne tv htv)⟩
  exact ⟨hne, a, bb⟩

/-! ### trash-list -/

theorem listEvents_run (φ : Oracle) (cwd : CPath) : ∀ (evs : List ScanEvent) (s : RunState),
    ∃ res, run φ (listEvents cwd evs) s = (res, { s with outs := (listOutsOf s.fs cwd evs).reverse ++ s.outs }) := by
  intro evs
  induction evs with
  | nil => intro s; exact ⟨none, rfl⟩
  | cons ev rest ih =>
    intro s
    cases ev with
    | skippedNotSticky q =>
      obtain ⟨res, h⟩ := ih { s with outs := Out.stderr "skipped-not-sticky" q :: s.outs }
      refine ⟨res, ?_⟩
      rw [listEvents, run_bind, C08.run_say, h]
      simp [listOutsOf]
    | skippedSymlink q =>
      obtain ⟨res, h⟩ := ih { s with outs := Out.stderr "skipped-symlink" q :: s.outs }
      refine ⟨res, ?_⟩
      rw [listEvents, run_bind, C08.run_say, h]
      simp [listOutsOf]
    | found q v =>
      rw [listEvents, run_read_bind]
      cases hi : infosOf s.fs cwd q with
      | error cr => exact ⟨some cr, by simp [listOutsOf, hi]⟩
      | ok infos =>
        obtain ⟨res, h⟩ := ih { s with outs := (infos.map (listOne s.fs cwd v)).reverse ++ s.outs }
        refine ⟨res, ?_⟩
        simp only [run_bind, C09.emitAll_run, h]
        simp [listOutsOf, hi]

/-- the whole run of trash-list: nothing but output lines is added to the run state -/
theorem runList_run (φ : Oracle) (c : ReadCfg) (dirs : List Bytes) (s : RunState) :
    ∃ res extra, (extra = [] ∨ extra = [Out.stderr "traceback" []]) ∧
      run φ (runList c dirs) s =
        (res, { s with outs := extra ++ (listOutsOf s.fs c.cwd (selectTrashDirs s.fs c dirs)).reverse ++ s.outs }) := by
  have e : run φ (runList c dirs) s = run φ (listEvents c.cwd (selectTrashDirs s.fs c dirs) >>= fun x =>
      match x with
      | some cr => (do say (.stderr "traceback" []); pure { exit := 1, crash := some cr } : Prog CmdResult)
      | none => pure { exit := 0 }) s := rfl
  obtain ⟨res, h⟩ := listEvents_run φ c.cwd (selectTrashDirs s.fs c dirs) s
  rw [e, run_bind, h]
  cases res with
  | some cr => exact ⟨_, [Out.stderr "traceback" []], Or.inr rfl, rfl⟩
  | none => exact ⟨_, [], Or.inl rfl, rfl⟩

theorem list_frames_everything (φ : Oracle) (c : ReadCfg) (dirs : List Bytes) (s : RunState) :
    (run φ (runList c dirs) s).2.fs = s.fs ∧ (run φ (runList c dirs) s).2.trace = s.trace ∧
    (run φ (runList c dirs) s).2.hist = s.hist ∧ (run φ (runList c dirs) s).2.n = s.n := by
  obtain ⟨res, extra, _, h⟩ := runList_run φ c dirs s
  rw [h]
  exact ⟨rfl, rfl, rfl, rfl⟩

theorem found_mem_foundDirs {p v : Bytes} : ∀ {evs : List ScanEvent}, ScanEvent.found p v ∈ evs → (p, v) ∈ foundDirs evs := by
  intro evs
  induction evs with
  | nil => intro h; cases h
  | cons ev rest ih =>
    intro h
    rcases List.mem_cons.1 h with e | h'
    · subst e; simp [foundDirs]
    · cases ev <;> simp [foundDirs, ih h']

/-- where a printed event comes from -/
theorem mem_listOutsOf {fs : FS} {cwd : CPath} {o : Out} : ∀ {evs : List ScanEvent}, o ∈ listOutsOf fs cwd evs →
    (∃ kind arg, o = .stderr kind arg) ∨
    ∃ p v infos i, ScanEvent.found p v ∈ evs ∧ infosOf fs cwd p = .ok infos ∧ i ∈ infos ∧ o = listOne fs cwd v i := by
  intro evs
  induction evs with
  | nil => intro h; cases h
  | cons ev rest ih =>
    intro h
    have lift : (∃ kind arg, o = .stderr kind arg) ∨
        (∃ p v infos i, ScanEvent.found p v ∈ rest ∧ infosOf fs cwd p = .ok infos ∧ i ∈ infos ∧ o = listOne fs cwd v i) →
        (∃ kind arg, o = .stderr kind arg) ∨
        ∃ p v infos i, ScanEvent.found p v ∈ ev :: rest ∧ infosOf fs cwd p = .ok infos ∧ i ∈ infos ∧ o = listOne fs cwd v i := by
      rintro (h | ⟨p, v, infos, i, h1, h2⟩)
      · exact Or.inl h
      · exact Or.inr ⟨p, v, infos, i, List.mem_cons_of_mem _ h1, h2⟩
    cases ev with
    | skippedNotSticky q =>
      simp only [listOutsOf, List.mem_cons] at h
      rcases h with rfl | h
      · exact Or.inl ⟨_, _, rfl⟩
      · exact lift (ih h)
    | skippedSymlink q =>
      simp only [listOutsOf, List.mem_cons] at h
      rcases h with rfl | h
      · exact Or.inl ⟨_, _, rfl⟩
      · exact lift (ih h)
    | found q v =>
      simp only [listOutsOf] at h
      cases hi : infosOf fs cwd q with
      | error cr => rw [hi] at h; cases h
      | ok infos =>
        rw [hi] at h
        rcases List.mem_append.1 h with h | h
        · obtain ⟨i, hi', rfl⟩ := List.mem_map.1 h
          exact Or.inr ⟨q, v, infos, i, List.mem_cons_self, hi, hi', rfl⟩
        · exact lift (ih h)

/-- "neither show": every line trash-list prints on stdout is the line of an info file `t/info/n` of
    a directory `t` the scanner yielded or the user named — never the insecure `.Trash/$uid` — and
    that info path denotes (final link not followed) a place apart from `r` -/
theorem list_shows_nothing_insecure (φ : Oracle) (c : ReadCfg) (dirs : List Bytes) (s : RunState) (v : Bytes) (r : CPath)
    (hi : pIslink s.fs c.cwd (dirname (topDir c v)) = true ∨ pIsdir s.fs c.cwd (dirname (topDir c v)) = false ∨
          pSticky s.fs c.cwd (dirname (topDir c v)) ≠ some true)
    (hn : PlainNames s.fs) (hhome : topDir c v ∉ homeTrashPaths c.env) (huser : ∀ d ∈ dirs, d ≠ topDir c v)
    (hgeo : ∀ tv ∈ foundDirs (selectTrashDirs s.fs c dirs), tv.1 ≠ topDir c v → DirApart s.fs c.cwd r tv.1) :
    ∀ line, Out.stdout line ∈ (run φ (runList c dirs) s).2.outs → Out.stdout line ∈ s.outs ∨
      ∃ t v' n, (t, v') ∈ foundDirs (selectTrashDirs s.fs c dirs) ∧ t ≠ topDir c v ∧
        isTrashinfoName n = true ∧ PlainName n ∧
        Out.stdout line = listOne s.fs c.cwd v' (pjoin (pjoin t (b "info")) n) ∧
        ∀ p, resolve s.fs c.cwd (pjoin (pjoin t (b "info")) n) = .ok p → Apart r p := by
  intro line hl
  obtain ⟨res, extra, hx, h⟩ := runList_run φ c dirs s
  rw [h] at hl
  simp only [List.mem_append, List.mem_reverse] at hl
  rcases hl with (hl | hl) | hl
  · rcases hx with rfl | rfl
    · cases hl
    · simp at hl
  · right
    rcases mem_listOutsOf hl with ⟨k, a, e⟩ | ⟨p, v', infos, i, hf, hinf, hii, e⟩
    · cases e
    · have hmem : (p, v') ∈ foundDirs (selectTrashDirs s.fs c dirs) := found_mem_foundDirs hf
      have hne : p ≠ topDir c v := by
        rcases mem_select hmem with h' | h'
        · exact top_not_found hi hhome _ h'
        · exact huser _ h'
      obtain ⟨n, rfl, hti, hpn⟩ := infosOf_form hn hinf i hii
      exact ⟨p, v', n, hmem, hne, hti, hpn, e, fun q hq =>
        apart_of_resolve (Shr.refl _) c.cwd r (tidy_info p) hpn (hgeo _ hmem hne).1 hq⟩
  · exact Or.inl hl

end TrashVerif.Proofs.C08Cmd
