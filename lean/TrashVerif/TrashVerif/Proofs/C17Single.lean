/-
  Proofs/C17Single.lean — proofs of the single-fault theorems (Props/C17Single.lean).

  Layout: what `AtMostOneFault` gives at a run position; a run depends on the oracle only at the
  positions it reaches (`run_congr_from`, `run_congr_first`); `atomicWrite` and the name search under
  a single-fault oracle (the clean-up unlink runs only after a FAULTED write or close, so it is
  not faulted itself); the three positions of the fault (inside the name search, on the rename, none
  of them); the uniform call bound; the double-fault witnesses.
-/
import TrashVerif.Proofs.C17
import TrashVerif.Proofs.C05Copy
import TrashVerif.Proofs.C17SingleEval
import TrashVerif.Props.C17SingleDefs
namespace TrashVerif.Proofs.C17Single
open TrashVerif Prog FS PutCore SingleFault
open C17 (after run_bind run_pure run_read_bind run_sys_fault run_sys_ok run_sys_err sys_cases Near Created
  Inc keptDir_of_touched)

/-! ### single-fault oracles -/

theorem none_of_fault {φ : Oracle} (h : AtMostOneFault φ) {i k : Nat} {c : Call} {e : Errno}
    (hf : φ i k c = some e) : FaultOnlyAt φ i := by
  intro n k' c' hn
  cases hq : φ n k' c' with
  | none => rfl
  | some e' => exact absurd (h n k' c' i k c (by rw [hq]; rfl) (by rw [hf]; rfl)) hn

theorem atMostOne_of_only {φ : Oracle} {i : Nat} (h : FaultOnlyAt φ i) : AtMostOneFault φ := by
  intro n k c n' k' c' h1 h2
  have a : n = i := Classical.byContradiction fun hn => by rw [h n k c hn] at h1; cases h1
  have b : n' = i := Classical.byContradiction fun hn => by rw [h n' k' c' hn] at h2; cases h2
  rw [a, b]

theorem atMostOne_noFaults : AtMostOneFault noFaults := fun _ _ _ _ _ _ h => by cases h

theorem faultOnlyAt_faultAt (i : Nat) (e : Errno) : FaultOnlyAt (faultAt i e) i := by
  intro n k c hn; simp [faultAt, hn]

theorem atMostOne_faultAt (i : Nat) (e : Errno) : AtMostOneFault (faultAt i e) :=
  atMostOne_of_only (faultOnlyAt_faultAt i e)

/-- a single-fault oracle either never faults or faults at exactly one index -/
theorem atMostOne_cases {φ : Oracle} (h : AtMostOneFault φ) :
    (∀ n k c, φ n k c = none) ∨ ∃ i, FaultOnlyAt φ i := by
  by_cases hx : ∃ n k c e, φ n k c = some e
  · obtain ⟨n, k, c, e, he⟩ := hx
    exact .inr ⟨n, none_of_fault h he⟩
  · refine .inl fun n k c => ?_
    cases hq : φ n k c with
    | none => rfl
    | some e => exact absurd ⟨n, k, c, e, hq⟩ hx

/-! ### a run depends on the oracle only where it is asked -/

theorem run_congr_from {α} {φ ψ : Oracle} (p : Prog α) :
    ∀ s : RunState, (∀ n k c, s.n ≤ n → φ n k c = ψ n k c) → run φ p s = run ψ p s := by
  induction p with
  | ret a => intro s _; rfl
  | get k ih => intro s h; simp only [run]; exact ih _ s h
  | emit o k ih => intro s h; simp only [run]; exact ih _ h
  | call c k ih =>
    intro s h
    simp only [run]
    rw [h s.n _ c (Nat.le_refl _)]
    split
    · exact ih _ _ fun n k c hn => h n k c (by simp only at hn; omega)
    · exact ih _ _ fun n k c hn => h n k c (by simp only at hn; omega)

/-- the first call `p` issues from the state `fs` -/
def firstCall {α} : Prog α → FS → Option Call
  | .ret _, _ => none
  | .get k, fs => firstCall (k fs) fs
  | .emit _ k, fs => firstCall k fs
  | .call c _, _ => some c

theorem run_congr_first {α} {φ ψ : Oracle} (p : Prog α) :
    ∀ s : RunState,
      (∀ c, firstCall p s.fs = some c →
        φ s.n (kindCount s.trace c.kind) c = ψ s.n (kindCount s.trace c.kind) c) →
      (∀ n k c, s.n < n → φ n k c = ψ n k c) → run φ p s = run ψ p s := by
  induction p with
  | ret a => intro s _ _; rfl
  | get k ih => intro s h0 h1; simp only [run]; exact ih _ s h0 h1
  | emit o k ih => intro s h0 h1; simp only [run]; exact ih _ h0 h1
  | call c k ih =>
    intro s h0 h1
    simp only [run]
    rw [h0 c rfl]
    split
    · exact run_congr_from _ _ fun n k c hn => h1 n k c (by simp only at hn; omega)
    · exact run_congr_from _ _ fun n k c hn => h1 n k c (by simp only at hn; omega)

/-- a call is faulted, refused by the file system, or executed -/
theorem sys_cases3 (φ : Oracle) (c : Call) (s : RunState) :
    (∃ e, φ s.n (kindCount s.trace c.kind) c = some e ∧ run φ (sys c) s = (.error e, after s c (.error e) s.fs)) ∨
    (∃ e, φ s.n (kindCount s.trace c.kind) c = none ∧ c.apply s.fs = .error e ∧
        run φ (sys c) s = (.error e, after s c (.error e) s.fs)) ∨
    (∃ fs', φ s.n (kindCount s.trace c.kind) c = none ∧ c.apply s.fs = .ok fs' ∧
        run φ (sys c) s = (.ok (), after s c (.ok ()) fs')) := by
  cases h : φ s.n (kindCount s.trace c.kind) c with
  | some e => exact .inl ⟨e, rfl, run_sys_fault φ c s e h⟩
  | none =>
    cases ha : c.apply s.fs with
    | error e => exact .inr (.inl ⟨e, rfl, rfl, run_sys_err φ c s e h ha⟩)
    | ok fs' => exact .inr (.inr ⟨fs', rfl, rfl, run_sys_ok φ c s fs' h ha⟩)

/-! ### every call keeps "every present path is listed" -/

theorem wf_removeNode {A : FS} (p : CPath) (h : C15.Wf A) : C15.Wf (removeNode A p) := by
  intro q hq
  show q ∈ A.dom
  rw [C17.get_removeNode] at hq
  by_cases e : q = p
  · rw [if_pos e] at hq; cases hq
  · rw [if_neg e] at hq; exact h q hq

theorem wf_moveTree {A : FS} (a c : CPath) (h : C15.Wf A) : C15.Wf (moveTree A a c) := by
  intro q hq
  show q ∈ (A.dom.filterMap fun q => if under a q then some (c ++ q.drop a.length) else none) ++ A.dom
  rw [C17.get_moveTree] at hq
  by_cases h1 : under c q = true
  · rw [if_pos h1] at hq
    refine List.mem_append_left _ (List.mem_filterMap.2 ⟨a ++ q.drop c.length, h _ hq, ?_⟩)
    have hu : under a (a ++ q.drop c.length) = true := C17.under_iff.2 (List.prefix_append _ _)
    obtain ⟨t, rfl⟩ := C17.under_iff.1 h1
    rw [List.drop_left] at hu ⊢
    simp [hu]
  · rw [if_neg h1] at hq
    by_cases h2 : under a q = true
    · rw [if_pos h2] at hq; cases hq
    · rw [if_neg h2] at hq; exact List.mem_append_right _ (h q hq)

theorem apply_wf {c : Call} {A B : FS} (h : C15.Wf A) (ha : c.apply A = .ok B) : C15.Wf B := by
  have st : ∀ p n, C15.Wf (touchDir (setNode A p n) (parent p)) := fun p n =>
    C05Copy.wf_touchDir _ (C05Copy.wf_setNode p n h)
  have rm : ∀ p, C15.Wf (touchDir (removeNode A p) (parent p)) := fun p =>
    C05Copy.wf_touchDir _ (wf_removeNode p h)
  have mv : ∀ a c, C15.Wf (touchDir (touchDir (moveTree A a c) (parent a)) (parent c)) := fun a c =>
    C05Copy.wf_touchDir _ (C05Copy.wf_touchDir _ (wf_moveTree a c h))
  cases c with
  | mkdir p m =>
    simp only [Call.apply, FS.mkdir, Bind.bind, Except.bind] at ha
    repeat' split at ha
    all_goals first | (cases ha; exact st _ _) | (cases ha; done)
  | createExcl p m =>
    simp only [Call.apply, FS.createExcl, Bind.bind, Except.bind] at ha
    repeat' split at ha
    all_goals first | (cases ha; exact st _ _) | (cases ha; done)
  | createTrunc p m =>
    simp only [Call.apply, FS.createTrunc, Bind.bind, Except.bind] at ha
    repeat' split at ha
    all_goals first | (cases ha; exact st _ _) | (cases ha; exact C05Copy.wf_setNode _ _ h) | (cases ha; done)
  | write p d =>
    simp only [Call.apply, FS.writeData] at ha
    repeat' split at ha
    all_goals first | (cases ha; exact C05Copy.wf_setNode _ _ h) | (cases ha; done)
  | close p => cases ha; exact h
  | rename a c =>
    simp only [Call.apply, FS.rename, Bind.bind, Except.bind] at ha
    repeat' split at ha
    all_goals first | (cases ha; exact h) | (cases ha; exact mv _ _) | (cases ha; done)
  | unlink p =>
    simp only [Call.apply, FS.unlink] at ha
    repeat' split at ha
    all_goals first | (cases ha; exact rm _) | (cases ha; done)
  | rmdir p =>
    simp only [Call.apply, FS.rmdir] at ha
    repeat' split at ha
    all_goals first | (cases ha; exact rm _) | (cases ha; done)
  | symlink t p =>
    simp only [Call.apply, FS.symlink, Bind.bind, Except.bind] at ha
    repeat' split at ha
    all_goals first | (cases ha; exact st _ _) | (cases ha; done)
  | chmod p m =>
    simp only [Call.apply, FS.chmod] at ha
    repeat' split at ha
    all_goals first | (cases ha; exact h) | (cases ha; exact C05Copy.wf_setNode _ _ h) | (cases ha; done)
  | utime p t =>
    simp only [Call.apply, FS.utime] at ha
    repeat' split at ha
    all_goals first | (cases ha; exact h) | (cases ha; exact C05Copy.wf_setNode _ _ h) | (cases ha; done)

/-- a property of states kept by every executed call holds at the end of every run -/
theorem run_preserves {α} (φ : Oracle) (J : FS → Prop)
    (hJ : ∀ (c : Call) (A B : FS), J A → c.apply A = .ok B → J B) (p : Prog α) :
    ∀ s : RunState, J s.fs → J (run φ p s).2.fs := by
  induction p with
  | ret a => intro s h; exact h
  | get k ih => intro s h; simp only [run]; exact ih _ s h
  | emit o k ih => intro s h; simp only [run]; exact ih _ h
  | call c k ih =>
    intro s h
    simp only [run]
    split
    · rename_i fs' heq
      refine ih _ _ ?_
      show J fs'
      cases hφ : φ s.n (kindCount s.trace c.kind) c with
      | some e => rw [hφ] at heq; cases heq
      | none => rw [hφ] at heq; exact hJ c _ _ h heq
    · exact ih _ _ h

theorem run_wf {α} (φ : Oracle) (p : Prog α) (s : RunState) (h : C15.Wf s.fs) : C15.Wf (run φ p s).2.fs :=
  run_preserves φ C15.Wf (fun _ _ _ hA ha => apply_wf hA ha) p s h

/-! ### `atomicWrite` and the name search under a single-fault oracle -/

theorem write_cases1 (φ : Oracle) (s : RunState) {p : CPath} {old : Bytes} {m t : Nat} (data : Bytes)
    (h : s.fs.get p = some (.file old m t)) :
    (∃ e s', φ s.n (kindCount s.trace "write") (.write p data) = some e ∧
        run φ (sys (.write p data)) s = (.error e, s') ∧ s'.fs = s.fs ∧ s'.n = s.n + 1) ∨
    (∃ s', run φ (sys (.write p data)) s = (.ok (), s') ∧
        s'.fs = setNode s.fs p (.file (old ++ data) m 0) ∧ s'.n = s.n + 1) := by
  rcases sys_cases3 φ (.write p data) s with ⟨e, hf, hr⟩ | ⟨e, _, ha, _⟩ | ⟨fs1, _, ha, hr⟩
  · exact .inl ⟨e, _, hf, hr, rfl, rfl⟩
  · have : s.fs.writeData p data = .error e := ha
    rw [C17.writeData_file data h] at this; cases this
  · refine .inr ⟨_, hr, ?_, rfl⟩
    have : fs1 = _ := Except.ok.inj (ha.symm.trans (C17.writeData_file data h))
    rw [this]; rfl

theorem close_cases1 (φ : Oracle) (s : RunState) (p : CPath) :
    (∃ e s', φ s.n (kindCount s.trace "close") (.close p) = some e ∧
        run φ (sys (.close p)) s = (.error e, s') ∧ s'.fs = s.fs ∧ s'.n = s.n + 1) ∨
    (∃ s', run φ (sys (.close p)) s = (.ok (), s') ∧ s'.fs = s.fs ∧ s'.n = s.n + 1) := by
  rcases sys_cases3 φ (.close p) s with ⟨e, hf, hr⟩ | ⟨e, _, ha, _⟩ | ⟨fs1, _, ha, hr⟩
  · exact .inl ⟨e, _, hf, hr, rfl, rfl⟩
  · cases ha
  · refine .inr ⟨_, hr, ?_, rfl⟩
    have : fs1 = s.fs := (Except.ok.inj ha).symm
    rw [this]; rfl

theorem run_unlink_file1 (φ : Oracle) (s : RunState) {p : CPath} {d : Bytes} {m t : Nat}
    (h : s.fs.get p = some (.file d m t)) (hq : φ s.n (kindCount s.trace "unlink") (.unlink p) = none) :
    (run φ (sys (.unlink p)) s).2.fs = touchDir (removeNode s.fs p) (parent p) := by
  rw [run_sys_ok φ (.unlink p) s _ hq (C17.unlink_file h)]; rfl

/-- `C17.atomicWrite_spec` with "no unlink is ever faulted" replaced by "at most one fault": the
    clean-up unlink runs only after a FAULTED write or close (the file system itself refuses
    neither, the file was just created), so it is not the faulted call. -/
theorem atomicWrite_spec1 (φ : Oracle) (h1 : AtMostOneFault φ)
    (D : CPath) (name : Name) (content : Bytes) (s : RunState) :
    (∃ e, (run φ (atomicWrite (D ++ [name]) content) s).1 = .error e ∧
        Near s.fs (run φ (atomicWrite (D ++ [name]) content) s).2.fs D) ∨
    ((run φ (atomicWrite (D ++ [name]) content) s).1 = .ok () ∧
        Created s.fs (run φ (atomicWrite (D ++ [name]) content) s).2.fs D name content) := by
  have hne := C17.snoc_ne_self D name
  rw [C17.run_atomicWrite]
  rcases sys_cases φ (.createExcl (D ++ [name]) 0o600) s with ⟨e, hr1⟩ | ⟨fs1, _, ha1, hr1⟩
  · simp only [hr1]
    exact .inl ⟨e, rfl, Near.refl _ _⟩
  · obtain ⟨hfree, hshort, rfl⟩ := C17.createExcl_inv ha1
    simp only [hr1]
    generalize hs1 : after s (.createExcl (D ++ [name]) 0o600) (.ok ()) _ = s1
    have hfs1 : s1.fs = touchDir (setNode s.fs (D ++ [name]) (.file [] (applyUmask 0o600) 0)) D := by
      rw [← hs1]; rfl
    have hp1 : s1.fs.get (D ++ [name]) = some (.file [] 0o600 0) := by
      rw [hfs1, C17.get_touchDir_ne _ hne, C17.get_setNode, if_pos rfl, C17.applyUmask_600]
    have hm1 : s1.fs.mounts = s.fs.mounts := by rw [hfs1]; simp
    -- the clean-up unlink, issued at index `s1.n + 2`, is not the faulted call once an earlier one was
    have unl : ∀ (s3 : RunState) (i k : Nat) (c : Call) (e : Errno), φ i k c = some e → i < s3.n →
        φ s3.n (kindCount s3.trace "unlink") (.unlink (D ++ [name])) = none :=
      fun s3 i k c e hf hlt => none_of_fault h1 hf _ _ _ (by omega)
    rcases write_cases1 φ s1 content hp1 with ⟨e2, s2, hf2, h2, hfs2, hn2⟩ | ⟨s2, h2, hfs2, hn2⟩ <;>
      rcases close_cases1 φ s2 (D ++ [name]) with ⟨e3, s3, hf3, h3, hfs3, hn3⟩ | ⟨s3, h3, hfs3, hn3⟩ <;>
      simp only [h2, h3]
    · -- write and close both failed (cannot happen, but the outcome is fine all the same)
      have hp3 : s3.fs.get (D ++ [name]) = some (.file [] 0o600 0) := by rw [hfs3, hfs2, hp1]
      refine .inl ⟨e3, rfl, ?_⟩
      show Near s.fs (run φ (sys (.unlink (D ++ [name]))) s3).2.fs D
      rw [run_unlink_file1 φ s3 hp3 (unl s3 _ _ _ _ hf2 (by omega)), C17.parent_snoc]
      exact C17.near_after_unlink hfree (by rw [hfs3, hfs2, hm1]) (fun q _ => by rw [hfs3, hfs2, hfs1])
    · -- the write was faulted
      have hp3 : s3.fs.get (D ++ [name]) = some (.file [] 0o600 0) := by rw [hfs3, hfs2, hp1]
      refine .inl ⟨e2, rfl, ?_⟩
      show Near s.fs (run φ (sys (.unlink (D ++ [name]))) s3).2.fs D
      rw [run_unlink_file1 φ s3 hp3 (unl s3 _ _ _ _ hf2 (by omega)), C17.parent_snoc]
      exact C17.near_after_unlink hfree (by rw [hfs3, hfs2, hm1]) (fun q _ => by rw [hfs3, hfs2, hfs1])
    · -- the close was faulted
      have hp3 : s3.fs.get (D ++ [name]) = some (.file ([] ++ content) 0o600 0) := by
        rw [hfs3, hfs2, C17.get_setNode, if_pos rfl]
      refine .inl ⟨e3, rfl, ?_⟩
      show Near s.fs (run φ (sys (.unlink (D ++ [name]))) s3).2.fs D
      rw [run_unlink_file1 φ s3 hp3 (unl s3 _ _ _ _ hf3 (by omega)), C17.parent_snoc]
      refine C17.near_after_unlink (n0 := .file [] (applyUmask 0o600) 0) hfree
        (by rw [hfs3, hfs2]; simpa using hm1) (fun q hq => ?_)
      rw [hfs3, hfs2, C17.get_setNode, if_neg hq, hfs1]
    · -- all three calls succeeded
      have hp3 : s3.fs.get (D ++ [name]) = some (.file ([] ++ content) 0o600 0) := by
        rw [hfs3, hfs2, C17.get_setNode, if_pos rfl]
      refine .inr ⟨by first | rfl | trivial, ?_⟩
      show Created s.fs s3.fs D name content
      refine ⟨by rw [hfs3, hfs2]; simpa using hm1, hfree, hshort, by simpa using hp3, ?_, ?_⟩
      · intro q hq hq'
        rw [hfs3, hfs2, C17.get_setNode, if_neg hq', hfs1, C17.get_touchDir_ne _ hq, C17.get_setNode, if_neg hq']
      · apply keptDir_of_touched
        rw [hfs3, hfs2, C17.get_setNode, if_neg hne.symm, hfs1, C17.get_touchDir_self, C17.get_setNode,
          if_neg hne.symm]

/-- what the name search guarantees under a single-fault oracle -/
def PersistPost1 (I F : CPath) (base content : Bytes) (s0 : FS) (r : (Persist × PutSt) × RunState) : Prop :=
  (∀ name, r.1.1 = .created name →
      Created s0 r.2.fs I name content ∧ s0.get (F ++ [stemOf name]) = none ∧ NameShape base name) ∧
  ((∀ name, r.1.1 ≠ .created name) → Near s0 r.2.fs I)

theorem PersistPost1.of_near {I F : CPath} {base content : Bytes} {a c : FS} {r : (Persist × PutSt) × RunState}
    (hFI : ∀ x, F ++ [x] ≠ I) (h1 : Near a c I) (h2 : PersistPost1 I F base content c r) :
    PersistPost1 I F base content a r :=
  ⟨fun name hn => ⟨h1.created (h2.1 name hn).1, (h1.same _ (hFI _)).symm.trans (h2.1 name hn).2.1,
      (h2.1 name hn).2.2⟩,
   fun hn => h1.trans (h2.2 hn)⟩

theorem persistLoop_spec1 (φ : Oracle) (h1 : AtMostOneFault φ)
    (I F : CPath) (base content : Bytes) (hFI : ∀ x, F ++ [x] ≠ I)
    (fuel index : Nat) (tooLong : Bool) (st : PutSt) (s : RunState) :
    PersistPost1 I F base content s.fs (run φ (persistLoop I F base content fuel index tooLong st) s) := by
  induction fuel generalizing index tooLong st s with
  | zero =>
    refine ⟨fun name hn => ?_, fun _ => Near.refl _ _⟩
    simp [persistLoop] at hn
  | succ fuel ih =>
    rw [C17.run_persistLoop_succ]
    dsimp only
    generalize hname : trashinfoBasename base (suffixFor index st).1 tooLong = name
    generalize (suffixFor index st).2 = st'
    by_cases hex : lexistsC s.fs (F ++ [stemOf name]) = true
    · rw [if_pos hex]; exact ih _ _ _ _
    · rw [if_neg hex]
      have hfree : s.fs.get (F ++ [stemOf name]) = none := by
        simpa [lexistsC] using hex
      have hspec := atomicWrite_spec1 φ h1 I name content s
      rcases hr : run φ (atomicWrite (I ++ [name]) content) s with ⟨res, s'⟩
      rw [hr] at hspec
      rcases hspec with ⟨e, he, hnear⟩ | ⟨hok, hcr⟩
      · dsimp only at he hnear
        subst he
        have failed : ∀ e', PersistPost1 I F base content s.fs ((Persist.failed e', st'), s') :=
          fun e' => ⟨fun _ hn => (by cases hn), fun _ => hnear⟩
        have again : ∀ tl, PersistPost1 I F base content s.fs
            (run φ (persistLoop I F base content fuel (index + 1) tl st') s') :=
          fun tl => (ih _ _ _ _).of_near hFI hnear
        cases e <;> first | exact failed _ | exact again _ | skip
        cases tooLong
        · exact again _
        · exact failed _
      · dsimp only at hok hcr
        subst hok
        refine ⟨fun n hn => ?_, fun hn => absurd rfl (hn name)⟩
        cases hn
        exact ⟨hcr, hfree, index, st, tooLong, hname.symm⟩

/-! ### the move: one rename, or — when that is the faulted call — the copy fallback, undisturbed -/

theorem run_move_free1 (φ : Oracle) (src dst : CPath) (s : RunState) (fs' : FS) (hdst : s.fs.get dst = none)
    (hok : s.fs.rename src dst = .ok fs') (hq : φ s.n (kindCount s.trace "rename") (.rename src dst) = none) :
    run φ (move src dst) s = (.ok (), after s (.rename src dst) (.ok ()) fs') := by
  unfold move
  rw [run_read_bind]
  simp only [C17.isdirC_absent hdst, Bool.false_eq_true, false_and, if_false, run_bind]
  rw [run_sys_ok φ (.rename src dst) s fs' hq hok]
  rfl

theorem firstCall_read_bind {α} (f : FS → Prog α) (A : FS) : firstCall (read >>= f) A = firstCall (f A) A := rfl

theorem firstCall_move {src dst : CPath} {A : FS} (hdst : A.get dst = none) :
    firstCall (move src dst) A = some (.rename src dst) := by
  unfold move
  rw [firstCall_read_bind]
  simp only [C17.isdirC_absent hdst, Bool.false_eq_true, false_and, if_false]
  rfl

/-- the oracle that keeps only the answers to renames -/
def onlyRenames (φ : Oracle) : Oracle := fun n k c =>
  match c with
  | .rename _ _ => φ n k c
  | _ => none

theorem quiet_onlyRenames (φ : Oracle) : MoveCopy.Quiet (onlyRenames φ) := by
  intro n k c hc
  cases c <;> first | rfl | exact absurd rfl (hc _ _)

/-- once the rename of `move` is the faulted call, the rest of the move runs as under an oracle
    that faults nothing else -/
theorem move_after_rename_fault (φ : Oracle) (h1 : AtMostOneFault φ) {s1 : RunState} {src dst : CPath} {e : Errno}
    (hdst : s1.fs.get dst = none)
    (hf : φ s1.n (kindCount s1.trace "rename") (.rename src dst) = some e) :
    run φ (move src dst) s1 = run (onlyRenames φ) (move src dst) s1 := by
  apply run_congr_first
  · intro c hc
    rw [firstCall_move hdst] at hc
    cases hc; rfl
  · intro n k c hn
    have hnone : ∀ c', φ n k c' = none := fun c' => none_of_fault h1 hf n k c' (by omega)
    rw [hnone c]
    cases c <;> first | rfl | exact (hnone _).symm

theorem keptDir_of_touch {fs x : FS} {q : CPath}
    (h : PutLemmas.touch (x.get q) = PutLemmas.touch (fs.get q)) : keptDir fs x q := by
  intro m t hg
  rw [hg] at h
  rcases hx : x.get q with _ | (_ | ⟨m', t'⟩ | _) <;> rw [hx] at h <;>
    simp only [PutLemmas.touch, Option.some.injEq, Node.dir.injEq, reduceCtorEq, and_true] at h
  exact ⟨t', by rw [h]⟩

section copied
variable {fs cur x : FS} {I F src : CPath} {name content : Bytes}

/-- the geometry of the destination `files/<stem>` -/
theorem dst_geo (g : C17.Geo I F src) :
    Inc src (F ++ [stemOf name]) ∧ Inc src (I ++ [name]) ∧ Inc (F ++ [stemOf name]) (I ++ [name]) ∧
    Inc (F ++ [stemOf name]) I ∧ Inc (I ++ [name]) F :=
  ⟨(g.sF.symm.append_left _).symm, (g.sI.symm.append_left _).symm, g.IF.symm.append _ _,
    g.IF.symm.append_left _, g.IF.append_left _⟩

theorem cur_src (g : C17.Geo I F src) (hc : Created fs cur I name content) {q : CPath} (hq : src <+: q) :
    cur.get q = fs.get q := by
  obtain ⟨rel, rfl⟩ := hq
  exact hc.same _ (g.sI.append_left rel).ne ((dst_geo (name := name) g).2.1.append_left rel).ne

theorem cur_dst (g : C17.Geo I F src) (hc : Created fs cur I name content) {q : CPath}
    (hq : F ++ [stemOf name] <+: q) : cur.get q = fs.get q := by
  obtain ⟨rel, rfl⟩ := hq
  exact hc.same _ ((dst_geo (name := name) g).2.2.2.1.append_left rel).ne
    ((dst_geo (name := name) g).2.2.1.append_left rel).ne

theorem mvPre_of_created (h : Setting fs I F src) (hcp : Copyable fs F src) (hc : Created fs cur I name content)
    (hfree : fs.get (F ++ [stemOf name]) = none) (hwf : C15.Wf cur) :
    C05Copy.MvPre cur src (F ++ [stemOf name]) := by
  have g := C17.Geo.of_setting h
  obtain ⟨hsd, _, _, _, hiF⟩ := dst_geo (name := name) g
  have hdsame : ∀ q, src <+: q → cur.isDirAt q = fs.isDirAt q := fun q hq => by
    unfold isDirAt; rw [cur_src g hc hq]
  refine ⟨?_, fun q _ hs => hwf q hs, fun q y hq hs => ?_, fun rel => ?_, ?_, hsd.1, hsd.2⟩
  · rw [cur_src g hc List.prefix_rfl]; exact h.srcExists
  · rw [hdsame q hq]
    exact hcp.srcTree q y (C17.under_iff.2 hq) (by
      rw [← cur_src g hc (hq.trans (List.prefix_append _ _))]; exact hs)
  · rw [cur_dst g hc (List.prefix_append _ _)]
    exact hcp.filesTree _ rel hfree
  · have : cur.get F = fs.get F := hc.same _ g.IF.symm.ne hiF.symm.ne
    rw [C17.parent_snoc]
    unfold isDirAt; rw [this]; exact h.filesDir

theorem mvH_of_created (h : Setting fs I F src) (hcp : Copyable fs F src) (hc : Created fs cur I name content)
    (hwf : C15.Wf cur) : C05Copy.MvH cur src (F ++ [stemOf name]) := by
  have g := C17.Geo.of_setting h
  refine ⟨hwf, fun q y hq hs => ?_, fun n hn => ?_, fun q hq => ?_⟩
  · exact hcp.shortNames q y (C17.under_iff.2 hq) (by
      rw [← cur_src g hc (hq.trans (List.prefix_append _ _))]; exact hs)
  · simp only [List.getLast?_concat, Option.some.injEq] at hn
    subst hn
    exact Nat.le_trans (C17.stemOf_length_le name) hc.short
  · rw [PutLemmas.isMount_congr hc.mounts]; exact hcp.noMount q (C17.under_iff.2 hq)

/-- the outcome of the copy fallback, read as the outcome of the put -/
theorem trashed_of_copy (h : Setting fs I F src) (hc : Created fs cur I name content)
    (hfree : fs.get (F ++ [stemOf name]) = none)
    (hj : C05Copy.CrashJ cur src (F ++ [stemOf name]) x) (hgone : ∀ rel, x.get (src ++ rel) = none) :
    Trashed fs x I F src name content := by
  have g := C17.Geo.of_setting h
  obtain ⟨hsd, hsi, hdi, hdI, hiF⟩ := dst_geo (name := name) g
  have hPl := C17.parent_length g.ne
  have old : ∀ q, q ≠ I → q ≠ I ++ [name] → cur.get q = fs.get q := hc.same
  have hpd : parent (F ++ [stemOf name]) = F := C17.parent_snoc _ _
  have hwhole : ∀ rel, x.get (F ++ [stemOf name] ++ rel) = cur.get (src ++ rel) := by
    rcases hj.1 with ⟨a, _⟩ | b
    · have h0 := a []
      rw [hgone [], List.append_nil, cur_src g hc List.prefix_rfl] at h0
      have := h.srcExists; rw [← h0] at this; cases this
    · exact b
  have hfr := hj.2
  rw [hpd] at hfr
  -- the parent of the entry and `files/` are outside both trees
  have ps1 : ¬ src <+: parent src := fun e => by have := e.length_le; omega
  have ps2 : ¬ F ++ [stemOf name] <+: parent src := fun e => hsd.2 (e.trans (C17.parent_prefix src))
  have f2 : ¬ F ++ [stemOf name] <+: F := fun e => by have := e.length_le; simp at this; omega
  have psI : parent src ≠ I := fun e => g.sI.2 (e ▸ C17.parent_prefix src)
  have psP : parent src ≠ I ++ [name] := fun e => hsi.2 (e ▸ C17.parent_prefix src)
  refine ⟨hfree, hc.wasFree, fun rel => ?_, hgone, ?_, ?_, ?_, ?_, ?_⟩
  · rw [hwhole rel]; exact cur_src g hc (List.prefix_append _ _)
  · rw [(hfr _ hsi.1 hdi.1).2 hsi.symm.ne_parent hiF.ne]; exact hc.info
  · intro q hq1 hq2 hq3 hq4 hq5 hq6
    rw [(hfr q (fun e => hq1 (C17.under_iff.2 e)) (fun e => hq2 (C17.under_iff.2 e))).2 hq4 hq5]
    exact old q hq6 hq3
  · apply keptDir_of_touch
    rw [(hfr _ ps1 ps2).1, old _ psI psP]
  · apply keptDir_of_touch
    rw [(hfr _ g.sF.1 f2).1, old _ g.IF.symm.ne hiF.symm.ne]
  · intro m t hI
    rw [(hfr _ g.sI.1 hdI.1).2 g.sI.symm.ne_parent g.IF.ne]
    exact hc.kept m t hI

end copied

/-! ### the position of the fault, relative to the fault-free run -/

theorem run_n_le {α} (φ : Oracle) (p : Prog α) : ∀ s : RunState, s.n ≤ (run φ p s).2.n := by
  induction p with
  | ret a => intro s; exact Nat.le_refl _
  | get k ih => intro s; simp only [run]; exact ih _ s
  | emit o k ih => intro s; simp only [run]; exact ih { s with outs := o :: s.outs }
  | call c k ih =>
    intro s
    simp only [run]
    split
    · refine Nat.le_trans ?_ (ih _ _); exact Nat.le_succ _
    · refine Nat.le_trans ?_ (ih _ _); exact Nat.le_succ _

theorem start_le_of_end_le {α} {φ : Oracle} {p : Prog α} {s : RunState} {N : Nat} (h : (run φ p s).2.n ≤ N) :
    s.n ≤ N := Nat.le_trans (run_n_le φ p s) h

/-- two oracles that agree below `N` give the same run, when that run ends within `N` calls -/
theorem run_congr_upto {α} {φ ψ : Oracle} (N : Nat) (hag : ∀ n k c, n < N → φ n k c = ψ n k c) (p : Prog α) :
    ∀ s : RunState, (run φ p s).2.n ≤ N → run ψ p s = run φ p s := by
  induction p with
  | ret a => intro s _; rfl
  | get k ih => intro s h; simp only [run] at h ⊢; exact ih _ s h
  | emit o k ih => intro s h; simp only [run] at h ⊢; exact ih _ h
  | call c k ih =>
    intro s hN
    cases hφ : φ s.n (kindCount s.trace c.kind) c with
    | some e =>
      simp only [run, hφ] at hN
      have hlt : s.n + 1 ≤ N := by have := start_le_of_end_le hN; exact this
      have hψ : ψ s.n (kindCount s.trace c.kind) c = some e := by rw [← hag _ _ _ hlt, hφ]
      simp only [run, hφ, hψ]
      exact ih _ _ hN
    | none =>
      cases ha : c.apply s.fs with
      | ok fs' =>
        simp only [run, hφ, ha] at hN
        have hlt : s.n + 1 ≤ N := by have := start_le_of_end_le hN; exact this
        have hψ : ψ s.n (kindCount s.trace c.kind) c = none := by rw [← hag _ _ _ hlt, hφ]
        simp only [run, hφ, hψ, ha]
        exact ih _ _ hN
      | error e =>
        simp only [run, hφ, ha] at hN
        have hlt : s.n + 1 ≤ N := by have := start_le_of_end_le hN; exact this
        have hψ : ψ s.n (kindCount s.trace c.kind) c = none := by rw [← hag _ _ _ hlt, hφ]
        simp only [run, hφ, hψ, ha]
        exact ih _ _ hN

theorem agree_below {φ : Oracle} {i : Nat} (h : FaultOnlyAt φ i) : ∀ n k c, n < i → noFaults n k c = φ n k c :=
  fun n k c hn => (h n k c (by omega)).symm

/-! ### the single-fault theorem, by the position of the fault -/

theorem noStray_of_near {fs cur : FS} {I : CPath} (h : Near fs cur I) : NoStrayInfo fs cur I :=
  fun n => h.same _ (C17.snoc_ne_self I n)

/-- the rename at the position reached is not the faulted call: it succeeds -/
theorem move_renamed (φ : Oracle) {fs : FS} {I F src : CPath} {name content : Bytes} {s1 : RunState}
    (h : Setting fs I F src) (hc : Created fs s1.fs I name content) (hfree : fs.get (F ++ [stemOf name]) = none)
    (hq : φ s1.n (kindCount s1.trace "rename") (.rename src (F ++ [stemOf name])) = none) :
    (run φ (move src (F ++ [stemOf name])) s1).1 = .ok () ∧
    Trashed fs (run φ (move src (F ++ [stemOf name])) s1).2.fs I F src name content := by
  have g := C17.Geo.of_setting h
  have hdst : s1.fs.get (F ++ [stemOf name]) = none := by
    rw [hc.same _ (g.IF.symm.append_left _).ne (g.IF.symm.append _ _).ne, hfree]
  rw [run_move_free1 φ src _ s1 _ hdst (C17.rename_ok h hc hfree) hq]
  exact ⟨rfl, C17.trashed_of_created h hc hfree⟩

/-- the rename at the position reached IS the faulted call: the copy fallback runs undisturbed,
    succeeds, and leaves the entry copied node for node under `files/` -/
theorem move_copied (φ : Oracle) (h1 : AtMostOneFault φ) {fs : FS} {I F src : CPath} {name content : Bytes}
    {s1 : RunState} {e : Errno}
    (h : Setting fs I F src) (hcp : Copyable fs F src) (hc : Created fs s1.fs I name content)
    (hfree : fs.get (F ++ [stemOf name]) = none) (hwf : C15.Wf s1.fs)
    (hf : φ s1.n (kindCount s1.trace "rename") (.rename src (F ++ [stemOf name])) = some e) :
    (run φ (move src (F ++ [stemOf name])) s1).1 = .ok () ∧
    Trashed fs (run φ (move src (F ++ [stemOf name])) s1).2.fs I F src name content := by
  have g := C17.Geo.of_setting h
  have hdst : s1.fs.get (F ++ [stemOf name]) = none := by
    rw [hc.same _ (g.IF.symm.append_left _).ne (g.IF.symm.append _ _).ne, hfree]
  rw [move_after_rename_fault φ h1 hdst hf]
  have hpre := mvPre_of_created h hcp hc hfree hwf
  have hH := mvH_of_created h hcp hc hwf
  have hren : C05Copy.RenFailsAt (onlyRenames φ) s1 src (F ++ [stemOf name]) := Or.inl ⟨e, hf⟩
  obtain ⟨hq, hj, _⟩ := C05Copy.move_copy_thru hpre hren
  have hok := hq.2 (quiet_onlyRenames φ) hH
  exact ⟨hok, trashed_of_copy h hc hfree hj (hq.1 hok)⟩

/-- The put core, given what the move does in the state the name search ends in: `hmove` is the
    only place where the position of the fault relative to the rename matters.  Besides `Honest`:
    a created name is the name reported, and a bound on the calls of the move bounds the run. -/
theorem put_core_of_move (φ : Oracle) (h1 : AtMostOneFault φ) (fs : FS) (I F src : CPath) (base content : Bytes)
    (st : PutSt) (h : Setting fs I F src)
    (hmove : ∀ (name : Bytes) (s1 : RunState),
      (run φ (persistLoop I F base content persistFuel 0 false st) { fs := fs }).2 = s1 →
      Created fs s1.fs I name content → fs.get (F ++ [stemOf name]) = none →
      (run φ (move src (F ++ [stemOf name])) s1).1 = .ok () ∧
      Trashed fs (run φ (move src (F ++ [stemOf name])) s1).2.fs I F src name content) :
    Honest fs I F src base content (run φ (putCore I F base content (fun _ => .ok src) st) { fs := fs }) ∧
    (∀ name, (run φ (persistLoop I F base content persistFuel 0 false st) { fs := fs }).1.1 = .created name ↔
      (run φ (putCore I F base content (fun _ => .ok src) st) { fs := fs }).1.1 = .ok name) ∧
    (∀ B : Nat, (∀ (name : Bytes) (s1 : RunState),
        (run φ (persistLoop I F base content persistFuel 0 false st) { fs := fs }).2 = s1 →
        Created fs s1.fs I name content → fs.get (F ++ [stemOf name]) = none →
        (run φ (move src (F ++ [stemOf name])) s1).2.n ≤ s1.n + B) →
      (run φ (putCore I F base content (fun _ => .ok src) st) { fs := fs }).2.n ≤ 4 * persistFuel + B) := by
  have g := C17.Geo.of_setting h
  have hFI : ∀ x, F ++ [x] ≠ I := fun x => (g.IF.symm.append_left _).ne
  have hspec := persistLoop_spec1 φ h1 I F base content hFI persistFuel 0 false st { fs := fs }
  have hbound : (run φ (persistLoop I F base content persistFuel 0 false st) { fs := fs }).2.n ≤ 4 * persistFuel := by
    have := C17.persist_bounded φ I F base content st persistFuel 0 false { fs := fs }
    exact Nat.le_trans this (Nat.le_of_eq (Nat.zero_add _))
  have hmove' := fun name => hmove name _ rfl
  have hcalls : ∀ B : Nat, (∀ (name : Bytes) (s1 : RunState),
        (run φ (persistLoop I F base content persistFuel 0 false st) { fs := fs }).2 = s1 →
        Created fs s1.fs I name content → fs.get (F ++ [stemOf name]) = none →
        (run φ (move src (F ++ [stemOf name])) s1).2.n ≤ s1.n + B) → ∀ name,
        Created fs (run φ (persistLoop I F base content persistFuel 0 false st) { fs := fs }).2.fs I name content →
        fs.get (F ++ [stemOf name]) = none →
        (run φ (move src (F ++ [stemOf name]))
          (run φ (persistLoop I F base content persistFuel 0 false st) { fs := fs }).2).2.n ≤
          (run φ (persistLoop I F base content persistFuel 0 false st) { fs := fs }).2.n + B :=
    fun B hB name => hB name _ rfl
  rcases hr : run φ (persistLoop I F base content persistFuel 0 false st) { fs := fs }
    with ⟨⟨pr, st'⟩, s1⟩
  rw [hr] at hspec hbound hmove' hcalls
  generalize hres0 : run φ (putCore I F base content (fun _ => .ok src) st) { fs := fs } = res
  unfold putCore at hres0
  rw [run_bind, hr] at hres0
  dsimp only at hres0 hspec hbound hmove' hcalls ⊢
  cases pr with
  | created name =>
    obtain ⟨hcr, hfree, hshape⟩ := hspec.1 name rfl
    dsimp only at hcr hfree
    obtain ⟨hok, htr⟩ := hmove' name hcr hfree
    have hcalls' := fun B hB => hcalls B hB name hcr hfree
    dsimp only at hres0
    rw [run_read_bind, run_bind] at hres0
    rcases hm : run φ (move src (F ++ [stemOf name])) s1 with ⟨r, s2⟩
    rw [hm] at hok htr hres0 hcalls'
    dsimp only at hok htr hres0 hcalls'
    subst hok
    dsimp only [run_pure] at hres0
    rw [← hres0]
    refine ⟨⟨fun n hn => ?_, fun r hr' => by cases hr'⟩, fun n => ⟨fun hn => ?_, fun hn => ?_⟩, fun B hB => ?_⟩
    · cases hn
      exact ⟨htr, hshape⟩
    · cases hn; rfl
    · cases hn; rfl
    · have := hcalls' B hB
      show s2.n ≤ _
      omega
  | failed e =>
    have hnear := hspec.2 (fun _ hn => by cases hn)
    dsimp only [run_pure] at hres0 hnear
    rw [← hres0]
    refine ⟨⟨fun n hn => (by cases hn), fun r hr' => ?_⟩,
      fun n => ⟨fun hn => (by cases hn), fun hn => (by cases hn)⟩, fun B _ => ?_⟩
    · cases hr'
      exact ⟨⟨e, rfl⟩, ⟨hnear.same, hnear.kept⟩, noStray_of_near hnear⟩
    · show s1.n ≤ _
      omega
  | outOfFuel =>
    have hnear := hspec.2 (fun _ hn => by cases hn)
    dsimp only [run_pure] at hres0 hnear
    rw [← hres0]
    refine ⟨⟨fun n hn => (by cases hn), fun r hr' => ?_⟩,
      fun n => ⟨fun hn => (by cases hn), fun hn => (by cases hn)⟩, fun B _ => ?_⟩
    · cases hr'
      exact ⟨⟨.ELOOP, rfl⟩, ⟨hnear.same, hnear.kept⟩, noStray_of_near hnear⟩
    · show s1.n ≤ _
      omega

/-- what the move does at the position reached, whichever way the oracle answers the rename -/
theorem move_either (φ : Oracle) (h1 : AtMostOneFault φ) {fs : FS} {I F src : CPath} {base content : Bytes}
    {st : PutSt} (h : Setting fs I F src) (hcp : Copyable fs F src) (name : Bytes) (s1 : RunState)
    (hs1 : (run φ (persistLoop I F base content persistFuel 0 false st) { fs := fs }).2 = s1)
    (hc : Created fs s1.fs I name content) (hfree : fs.get (F ++ [stemOf name]) = none) :
    (run φ (move src (F ++ [stemOf name])) s1).1 = .ok () ∧
    Trashed fs (run φ (move src (F ++ [stemOf name])) s1).2.fs I F src name content := by
  cases hf : φ s1.n (kindCount s1.trace "rename") (.rename src (F ++ [stemOf name])) with
  | none => exact move_renamed φ h hc hfree hf
  | some e =>
    have hwf : C15.Wf s1.fs := hs1 ▸ run_wf φ _ { fs := fs } hcp.listed
    exact move_copied φ h1 h hcp hc hfree hwf hf

/-- the single-fault theorem -/
theorem put_single_fault_conserves (φ : Oracle) (fs : FS) (I F src : CPath) (base content : Bytes)
    (st : PutSt) (h : Setting fs I F src) (hcp : Copyable fs F src) (h1 : AtMostOneFault φ) :
    Honest fs I F src base content (run φ (putCore I F base content (fun _ => .ok src) st) { fs := fs }) :=
  (put_core_of_move φ h1 fs I F src base content st h (move_either φ h1 h hcp)).1

/-- the rename at the position the name search ends in is not the faulted call: no hypothesis
    about the copy fallback is needed, and the run is short -/
theorem of_rename_unfaulted (φ : Oracle) (fs : FS) (I F src : CPath) (base content : Bytes)
    (st : PutSt) (h : Setting fs I F src) (h1 : AtMostOneFault φ)
    (hq : ∀ (name : Bytes) (s1 : RunState),
      (run φ (persistLoop I F base content persistFuel 0 false st) { fs := fs }).2 = s1 →
      φ s1.n (kindCount s1.trace "rename") (.rename src (F ++ [stemOf name])) = none) :
    Honest fs I F src base content (run φ (putCore I F base content (fun _ => .ok src) st) { fs := fs }) ∧
    (run φ (putCore I F base content (fun _ => .ok src) st) { fs := fs }).2.n ≤ 4 * persistFuel + 1 := by
  have key := put_core_of_move φ h1 fs I F src base content st h fun name s1 hs1 hc hfree =>
    move_renamed φ h hc hfree (hq name s1 hs1)
  refine ⟨key.1, key.2.2 1 fun name s1 hs1 hc hfree => ?_⟩
  have g := C17.Geo.of_setting h
  have hdst : s1.fs.get (F ++ [stemOf name]) = none := by
    rw [hc.same _ (g.IF.symm.append_left _).ne (g.IF.symm.append _ _).ne, hfree]
  rw [run_move_free1 φ src _ s1 _ hdst (C17.rename_ok h hc hfree) (hq name s1 hs1)]
  exact Nat.le_refl _

theorem fault_not_on_rename (φ : Oracle) (fs : FS) (I F src : CPath) (base content : Bytes)
    (st : PutSt) (h : Setting fs I F src) (h1 : AtMostOneFault φ)
    (hren : ∀ n k a c, φ n k (.rename a c) = none) :
    Honest fs I F src base content (run φ (putCore I F base content (fun _ => .ok src) st) { fs := fs }) ∧
    (run φ (putCore I F base content (fun _ => .ok src) st) { fs := fs }).2.n ≤ 4 * persistFuel + 1 :=
  of_rename_unfaulted φ fs I F src base content st h h1 fun _ _ _ => hren _ _ _ _

/-- position A: the faulted index lies inside the (fault-free) name search -/
theorem fault_inside_search (φ : Oracle) (fs : FS) (I F src : CPath) (base content : Bytes)
    (st : PutSt) (i : Nat) (h : Setting fs I F src) (hi : FaultOnlyAt φ i)
    (hlt : i < (run noFaults (persistLoop I F base content persistFuel 0 false st) { fs := fs }).2.n) :
    Honest fs I F src base content (run φ (putCore I F base content (fun _ => .ok src) st) { fs := fs }) ∧
    (run φ (putCore I F base content (fun _ => .ok src) st) { fs := fs }).2.n ≤ 4 * persistFuel + 1 := by
  refine of_rename_unfaulted φ fs I F src base content st h (atMostOne_of_only hi) fun name s1 hs1 => ?_
  refine hi _ _ _ fun e => ?_
  have hle : (run φ (persistLoop I F base content persistFuel 0 false st) { fs := fs }).2.n ≤ i := by
    rw [hs1, e]; exact Nat.le_refl _
  have := run_congr_upto (φ := φ) (ψ := noFaults) i (fun n k c hn => hi n k c (by omega)) _ _ hle
  rw [this] at hlt
  omega

/-- position B: the faulted index is the rename's, or a later one: the name search runs as without
    faults, the name reported is the fault-free one -/
theorem fault_on_rename (φ : Oracle) (fs : FS) (I F src : CPath) (base content : Bytes)
    (st : PutSt) (i : Nat) (h : Setting fs I F src) (hcp : Copyable fs F src) (hi : FaultOnlyAt φ i)
    (hle : (run noFaults (persistLoop I F base content persistFuel 0 false st) { fs := fs }).2.n ≤ i) :
    Honest fs I F src base content (run φ (putCore I F base content (fun _ => .ok src) st) { fs := fs }) ∧
    (∀ name, (run noFaults (persistLoop I F base content persistFuel 0 false st) { fs := fs }).1.1 = .created name →
      (run φ (putCore I F base content (fun _ => .ok src) st) { fs := fs }).1.1 = .ok name) := by
  have h1 := atMostOne_of_only hi
  have e := run_congr_upto (φ := noFaults) (ψ := φ) i (agree_below hi) _ _ hle
  have key := put_core_of_move φ h1 fs I F src base content st h (move_either φ h1 h hcp)
  rw [e] at key
  exact ⟨key.1, fun name hn => (key.2.1 name).1 hn⟩

/-- position C: the faulted index is never reached -/
theorem fault_beyond_run (φ : Oracle) (fs : FS) (I F src : CPath) (base content : Bytes)
    (st : PutSt) (i : Nat) (hi : FaultOnlyAt φ i)
    (hle : (run noFaults (putCore I F base content (fun _ => .ok src) st) { fs := fs }).2.n ≤ i) :
    run φ (putCore I F base content (fun _ => .ok src) st) { fs := fs } =
      run noFaults (putCore I F base content (fun _ => .ok src) st) { fs := fs } :=
  run_congr_upto (φ := noFaults) (ψ := φ) i (agree_below hi) _ _ hle

/-! ### call bounds -/

theorem le_foldl_max (f : Errno → Nat) (l : List Errno) (init : Nat) :
    init ≤ l.foldl (fun m e => max m (f e)) init ∧ ∀ e ∈ l, f e ≤ l.foldl (fun m e => max m (f e)) init := by
  induction l generalizing init with
  | nil => exact ⟨Nat.le_refl _, fun _ h => by cases h⟩
  | cons a l ih =>
    simp only [List.foldl_cons]
    obtain ⟨h1, h2⟩ := ih (max init (f a))
    refine ⟨Nat.le_trans (Nat.le_max_left _ _) h1, fun e he => ?_⟩
    rcases List.mem_cons.1 he with rfl | he
    · exact Nat.le_trans (Nat.le_max_right _ _) h1
    · exact h2 e he

theorem le_supErrno (f : Errno → Nat) (e : Errno) : f e ≤ supErrno f :=
  (le_foldl_max f _ 0).2 e (by cases e <;> simp)

/-- whatever the oracle answers, a run issues at most `maxCalls` calls -/
theorem run_calls_le {α} (φ : Oracle) (p : Prog α) : ∀ s : RunState, (run φ p s).2.n ≤ s.n + maxCalls p s.fs := by
  induction p with
  | ret a => intro s; exact Nat.le_add_right _ _
  | get k ih => intro s; simp only [run, maxCalls]; exact ih _ s
  | emit o k ih => intro s; simp only [run, maxCalls]; exact ih { s with outs := o :: s.outs }
  | call c k ih =>
    intro s
    have herr : ∀ e : Errno, maxCalls (k (.error e)) s.fs ≤ supErrno fun e => maxCalls (k (.error e)) s.fs :=
      fun e => le_supErrno (fun e => maxCalls (k (.error e)) s.fs) e
    cases hφ : φ s.n (kindCount s.trace c.kind) c with
    | some e =>
      simp only [run, hφ, maxCalls]
      have := ih (.error e) { s with hist := s.fs :: s.hist, trace := (c, .error e) :: s.trace, n := s.n + 1 }
      have h2 := herr e
      simp only at this
      omega
    | none =>
      cases ha : c.apply s.fs with
      | ok fs' =>
        simp only [run, hφ, ha, maxCalls]
        have := ih (.ok ()) { s with fs := fs', hist := s.fs :: s.hist, trace := (c, .ok ()) :: s.trace, n := s.n + 1 }
        simp only at this
        omega
      | error e =>
        simp only [run, hφ, ha, maxCalls]
        have := ih (.error e) { s with hist := s.fs :: s.hist, trace := (c, .error e) :: s.trace, n := s.n + 1 }
        have h2 := herr e
        simp only at this
        omega

theorem put_terminates_uniformly (fs : FS) (I F src : CPath) (base content : Bytes) (st : PutSt) :
    ∃ B, ∀ φ : Oracle, (run φ (putCore I F base content (fun _ => .ok src) st) { fs := fs }).2.n ≤ B :=
  ⟨maxCalls (putCore I F base content (fun _ => .ok src) st) fs, fun φ =>
    Nat.le_trans (run_calls_le φ _ { fs := fs }) (Nat.le_of_eq (Nat.zero_add _))⟩

/-! ### an explicit bound for the move of an entry that is not a directory -/

/-- from every state, `p` issues at most `b` calls -/
def Calls {α} (φ : Oracle) (p : Prog α) (b : Nat) : Prop := ∀ s : RunState, (run φ p s).2.n ≤ s.n + b

section calls
variable {α β : Type} {φ : Oracle}

theorem Calls.pure (a : α) (b : Nat) : Calls φ (pure a : Prog α) b := fun _ => Nat.le_add_right _ _

theorem Calls.sys (c : Call) {b : Nat} (h : 1 ≤ b) : Calls φ (sys c) b := fun s => by
  rw [C17.run_sys_n]; omega

theorem Calls.bind {p : Prog α} {f : α → Prog β} {a b c : Nat} (hp : Calls φ p a) (hf : ∀ x, Calls φ (f x) b)
    (h : a + b ≤ c) : Calls φ (p >>= f) c := fun s => by
  rw [run_bind]
  have h1 := hp s
  have h2 := hf (run φ p s).1 (run φ p s).2
  omega

theorem Calls.read_bind {f : FS → Prog β} {b : Nat} (h : ∀ fs, Calls φ (f fs) b) : Calls φ (read >>= f) b :=
  fun s => h s.fs s

end calls

theorem copystat_calls (φ : Oracle) (a d : CPath) : Calls φ (copystat a d) 2 := by
  unfold copystat
  refine Calls.read_bind fun fs => ?_
  split
  · refine Calls.bind (a := 1) (b := 1) (Calls.sys _ (Nat.le_refl _)) (fun r => ?_) (Nat.le_refl _)
    split
    · exact Calls.pure _ _
    · exact Calls.sys _ (Nat.le_refl _)
  · refine Calls.bind (a := 1) (b := 1) (Calls.sys _ (Nat.le_refl _)) (fun r => ?_) (Nat.le_refl _)
    split
    · exact Calls.pure _ _
    · exact Calls.sys _ (Nat.le_refl _)
  · exact Calls.pure _ _

theorem copy2_calls (φ : Oracle) (a d : CPath) : Calls φ (copy2 a d) 4 := by
  unfold copy2
  refine Calls.read_bind fun fs => ?_
  split
  · dsimp only
    refine Calls.bind (a := 1) (b := 3) (Calls.sys _ (Nat.le_refl _)) (fun r => ?_) (Nat.le_refl _)
    split
    · exact Calls.pure _ _
    · refine Calls.bind (a := 1) (b := 2) ?_ (fun w => ?_) (Nat.le_refl _)
      · split
        · exact Calls.pure _ _
        · exact Calls.sys _ (Nat.le_refl _)
      · split
        · exact Calls.pure _ _
        · exact copystat_calls φ _ _
  · exact Calls.pure _ _
  · exact Calls.pure _ _
  · exact Calls.pure _ _

/-- `shutil.move` of a regular file or a symbolic link onto a free name: at most six calls
    (rename; createTrunc, write, utime, chmod; unlink), whatever the oracle answers -/
theorem move_calls_nondir (φ : Oracle) (src dst : CPath) (s : RunState) (hdst : s.fs.get dst = none)
    (hnd : s.fs.isDirAt src = false) : (run φ (move src dst) s).2.n ≤ s.n + 6 := by
  unfold move
  rw [run_read_bind]
  simp only [C17.isdirC_absent hdst, Bool.false_eq_true, false_and, if_false]
  rw [run_bind]
  rcases sys_cases φ (.rename src dst) s with ⟨e, hr⟩ | ⟨fs', _, _, hr⟩
  · rw [hr]
    dsimp only
    rw [run_read_bind]
    dsimp only [C17.after_fs]
    rcases hg : s.fs.get src with _ | (⟨data, m, t⟩ | ⟨m, t⟩ | t)
    · dsimp only [run_pure, C17.after_n]; omega
    · dsimp only
      have := Calls.bind (φ := φ) (a := 4) (b := 1) (c := 5) (copy2_calls φ src dst)
        (f := fun r => match r with
          | .error e => (Pure.pure (.error e) : Prog Res)
          | .ok () => sys (.unlink src))
        (fun r => by
          split
          · exact Calls.pure _ _
          · exact Calls.sys _ (Nat.le_refl _)) (Nat.le_refl _)
        (after s (.rename src dst) (.error e) s.fs)
      rw [C17.after_n] at this
      exact Nat.le_trans this (by omega)
    · simp [isDirAt, hg, Node.isDir] at hnd
    · dsimp only
      have := Calls.bind (φ := φ) (a := 1) (b := 1) (c := 2) (Calls.sys (.symlink t dst) (Nat.le_refl _))
        (f := fun r => match r with
          | .error e => (Pure.pure (.error e) : Prog Res)
          | .ok () => sys (.unlink src))
        (fun r => by
          split
          · exact Calls.pure _ _
          · exact Calls.sys _ (Nat.le_refl _)) (Nat.le_refl _)
        (after s (.rename src dst) (.error e) s.fs)
      rw [C17.after_n] at this
      exact Nat.le_trans this (by omega)
  · rw [hr]
    dsimp only [run_pure, C17.after_n]; omega

/-- the entry is not a directory: an explicit bound, the copy fallback included -/
theorem calls_nondir (φ : Oracle) (fs : FS) (I F src : CPath) (base content : Bytes)
    (st : PutSt) (h : Setting fs I F src) (hcp : Copyable fs F src) (h1 : AtMostOneFault φ)
    (hnd : fs.isDirAt src = false) :
    (run φ (putCore I F base content (fun _ => .ok src) st) { fs := fs }).2.n ≤ 4 * persistFuel + 6 := by
  refine (put_core_of_move φ h1 fs I F src base content st h (move_either φ h1 h hcp)).2.2 6
    fun name s1 _ hc hfree => ?_
  have g := C17.Geo.of_setting h
  have hdst : s1.fs.get (F ++ [stemOf name]) = none := by
    rw [hc.same _ (g.IF.symm.append_left _).ne (g.IF.symm.append _ _).ne, hfree]
  refine move_calls_nondir φ src _ s1 hdst ?_
  unfold isDirAt
  rw [cur_src g hc List.prefix_rfl]
  exact hnd

/-! ### the name, under a fault the name search cannot cure -/

theorem run_sys_none (φ : Oracle) (c : Call) (s : RunState) (h : φ s.n (kindCount s.trace c.kind) c = none) :
    run φ (sys c) s = run noFaults (sys c) s := by
  simp only [sys, run, h, noFaults]

/-- `atomic_write` under an oracle without curable errnos: it runs as without faults, or fails with
    an errno no other name can cure -/
theorem atomicWrite_incurable (φ : Oracle) (hinc : Incurable φ) (D : CPath) (name : Name) (content : Bytes)
    (s : RunState) :
    run φ (atomicWrite (D ++ [name]) content) s = run noFaults (atomicWrite (D ++ [name]) content) s ∨
    ∃ e, (run φ (atomicWrite (D ++ [name]) content) s).1 = .error e ∧ e ≠ .EEXIST ∧ e ≠ .ENAMETOOLONG := by
  have hne := C17.snoc_ne_self D name
  cases h0 : φ s.n (kindCount s.trace "createExcl") (.createExcl (D ++ [name]) 0o600) with
  | some e =>
    right
    exact ⟨e, by rw [C17.atomicWrite_fault φ _ content s e h0], hinc _ _ _ _ h0⟩
  | none =>
    rw [C17.run_atomicWrite φ, C17.run_atomicWrite noFaults,
      run_sys_none φ (.createExcl (D ++ [name]) 0o600) s h0]
    rcases sys_cases noFaults (.createExcl (D ++ [name]) 0o600) s with ⟨e, hr1⟩ | ⟨fs1, _, ha1, hr1⟩
    · left
      simp only [hr1]
    · obtain ⟨hfree, hshort, rfl⟩ := C17.createExcl_inv ha1
      simp only [hr1]
      generalize hs1 : after s (.createExcl (D ++ [name]) 0o600) (.ok ()) _ = s1
      have hp1 : s1.fs.get (D ++ [name]) = some (.file [] 0o600 0) := by
        rw [← hs1]
        show (touchDir (setNode s.fs (D ++ [name]) (.file [] (applyUmask 0o600) 0)) D).get (D ++ [name]) = _
        rw [C17.get_touchDir_ne _ hne, C17.get_setNode, if_pos rfl, C17.applyUmask_600]
      have hw := run_sys_ok noFaults (.write (D ++ [name]) content) s1 _ rfl (C17.writeData_file content hp1)
      cases h2 : φ s1.n (kindCount s1.trace "write") (.write (D ++ [name]) content) with
      | some e2 =>
        right
        have hw2 := run_sys_fault φ (.write (D ++ [name]) content) s1 e2 h2
        rcases sys_cases3 φ (.close (D ++ [name])) (after s1 (.write (D ++ [name]) content) (.error e2) s1.fs)
          with ⟨e3, hf3, h3⟩ | ⟨e3, _, ha3, _⟩ | ⟨fs3, _, _, h3⟩
        · simp only [hw2, h3]
          exact ⟨e3, rfl, hinc _ _ _ _ hf3⟩
        · cases ha3
        · simp only [hw2, h3]
          exact ⟨e2, rfl, hinc _ _ _ _ h2⟩
      | none =>
        simp only [run_sys_none φ (.write (D ++ [name]) content) s1 h2, hw]
        generalize hs2 : after s1 (.write (D ++ [name]) content) (.ok ()) _ = s2
        have hc := run_sys_ok noFaults (.close (D ++ [name])) s2 s2.fs rfl rfl
        cases h3 : φ s2.n (kindCount s2.trace "close") (.close (D ++ [name])) with
        | some e3 =>
          right
          simp only [run_sys_fault φ (.close (D ++ [name])) s2 e3 h3]
          exact ⟨e3, rfl, hinc _ _ _ _ h3⟩
        | none =>
          left
          simp only [run_sys_none φ (.close (D ++ [name])) s2 h3, hc]

/-- the name search under an oracle without curable errnos: it runs as without faults, or gives up -/
theorem persistLoop_incurable (φ : Oracle) (hinc : Incurable φ) (I F : CPath) (base content : Bytes)
    (fuel index : Nat) (tooLong : Bool) (st : PutSt) (s : RunState) :
    run φ (persistLoop I F base content fuel index tooLong st) s =
      run noFaults (persistLoop I F base content fuel index tooLong st) s ∨
    ∃ e, (run φ (persistLoop I F base content fuel index tooLong st) s).1.1 = .failed e := by
  induction fuel generalizing index tooLong st s with
  | zero => left; rfl
  | succ fuel ih =>
    rw [C17.run_persistLoop_succ φ, C17.run_persistLoop_succ noFaults]
    dsimp only
    generalize trashinfoBasename base (suffixFor index st).1 tooLong = name
    generalize (suffixFor index st).2 = st'
    by_cases hex : lexistsC s.fs (F ++ [stemOf name]) = true
    · rw [if_pos hex, if_pos hex]; exact ih _ _ _ _
    · rw [if_neg hex, if_neg hex]
      rcases atomicWrite_incurable φ hinc I name content s with heq | ⟨e, he, h1, h2⟩
      · rw [heq]
        rcases run noFaults (atomicWrite (I ++ [name]) content) s with ⟨res, s'⟩
        dsimp only
        rcases res with e | ⟨⟨⟩⟩
        · cases e <;> first | exact .inl rfl | exact ih _ _ _ _ | skip
          cases tooLong
          · exact ih _ _ _ _
          · exact .inl rfl
        · exact .inl rfl
      · right
        rcases hr : run φ (atomicWrite (I ++ [name]) content) s with ⟨res, s'⟩
        rw [hr] at he
        dsimp only at he ⊢
        subst he
        cases e <;> first | exact ⟨_, rfl⟩ | exact absurd rfl h1 | exact absurd rfl h2

/-- Under a single fault whose errno the name search cannot cure, a success is a success under
    the FAULT-FREE name: the fault either hit the name search (then the put failed) or the rename
    (then the copy fallback trashed the entry under the name already chosen). -/
theorem incurable_keeps_name (φ : Oracle) (fs : FS) (I F src : CPath) (base content : Bytes)
    (st : PutSt) (h : Setting fs I F src) (hcp : Copyable fs F src) (h1 : AtMostOneFault φ) (hinc : Incurable φ)
    (name : Bytes)
    (hn : (run φ (putCore I F base content (fun _ => .ok src) st) { fs := fs }).1.1 = .ok name) :
    (run noFaults (putCore I F base content (fun _ => .ok src) st) { fs := fs }).1.1 = .ok name := by
  have kφ := (put_core_of_move φ h1 fs I F src base content st h (move_either φ h1 h hcp)).2.1 name
  have kff := (put_core_of_move noFaults atMostOne_noFaults fs I F src base content st h
    (move_either noFaults atMostOne_noFaults h hcp)).2.1 name
  have hcr := kφ.2 hn
  rcases persistLoop_incurable φ hinc I F base content persistFuel 0 false st { fs := fs } with heq | ⟨e, he⟩
  · rw [heq] at hcr
    exact kff.1 hcr
  · rw [he] at hcr; cases hcr

/-! ### decidable sufficient conditions, to instantiate the theorems on concrete worlds -/

def settingB (fs : FS) (I F S : CPath) : Bool :=
  fs.isDirAt I && fs.isDirAt F && !(FS.under I F) && !(FS.under F I) && (fs.get S).isSome &&
  decide (S ≠ []) && !(fs.isMount S) && decide (fs.dev (FS.parent S) = fs.dev F) &&
  !(FS.under S I) && !(FS.under S F) && !(FS.under I S) && !(FS.under F S)

theorem setting_of_check {fs : FS} {I F S : CPath} (h : settingB fs I F S = true) : Setting fs I F S := by
  simp only [settingB, Bool.and_eq_true, decide_eq_true_eq, Bool.not_eq_true'] at h
  obtain ⟨⟨⟨⟨⟨⟨⟨⟨⟨⟨⟨a1, a2⟩, a3⟩, a4⟩, a5⟩, a6⟩, a7⟩, a8⟩, a9⟩, a10⟩, a11⟩, a12⟩ := h
  exact ⟨a1, a2, ⟨by rw [a3]; simp, by rw [a4]; simp⟩, a5, a6, a7, a8, ⟨by rw [a9]; simp, by rw [a10]; simp⟩,
    ⟨by rw [a11]; simp, by rw [a12]; simp⟩⟩

/-- a decidable sufficient condition for the fields of `Copyable` other than `noMount`, in a world
    whose present paths are listed -/
def treeNamesB (fs : FS) : Bool :=
  C05Copy.treeB fs &&
  fs.dom.all (fun p => (fs.get p).isNone || (match p.getLast? with | some x => decide (x.length ≤ 255) | none => true))

theorem copyable_of_tree {fs : FS} {F S : CPath} (hw : ∀ q, (fs.get q).isSome = true → q ∈ fs.dom)
    (h : treeNamesB fs = true) (hm : ∀ q, FS.under S q = true → fs.isMount q = false) : Copyable fs F S := by
  simp only [treeNamesB, Bool.and_eq_true, List.all_eq_true, Bool.or_eq_true,
    Option.isNone_iff_eq_none] at h
  obtain ⟨a12, a13⟩ := h
  have ht := C05Copy.tree_of_check hw a12
  refine ⟨hw, fun q x _ hs => ht q x hs, fun n rel hn => ?_, fun q x _ hs => ?_, hm⟩
  · by_cases hrel : rel = []
    · subst hrel; simpa using hn
    · cases hg : fs.get (F ++ [n] ++ rel) with
      | none => rfl
      | some nd =>
        have hcl : C15.Closed [] fs := fun q x _ hs => ht q x hs
        have := C15.closed_anc hcl _ rel (F ++ [n]) rfl List.nil_prefix hrel (by rw [hg]; rfl)
        rw [C04.isDirAt_of_get_none hn] at this; cases this
  · rcases a13 _ (hw _ hs) with h | h
    · rw [h] at hs; cases hs
    · simpa using h

/-- a decidable sufficient condition for `Copyable` in a world whose present paths are listed -/
def copyableB (fs : FS) (S : CPath) : Bool :=
  treeNamesB fs && fs.mounts.all (fun m => !(FS.under S m))

theorem copyable_of_check {fs : FS} {F S : CPath} (hw : ∀ q, (fs.get q).isSome = true → q ∈ fs.dom)
    (h : copyableB fs S = true) : Copyable fs F S := by
  simp only [copyableB, Bool.and_eq_true, List.all_eq_true, Bool.not_eq_true'] at h
  refine copyable_of_tree hw h.1 fun q hq => ?_
  unfold FS.isMount
  cases hc : fs.mounts.contains q with
  | false => rfl
  | true =>
    have hm : q ∈ fs.mounts := by simpa using hc
    rw [h.2 q hm] at hq; cases hq

/-! ### where "at most one" is sharp: the double-fault witnesses, evaluated by the kernel -/

open SingleFault.Example in
theorem W_setting : Setting W I F entry ∧ Copyable W F entry :=
  ⟨setting_of_check (by decide +kernel), copyable_of_check (C05Copy.wf_ofList _ _) (by decide +kernel)⟩

theorem not_atMostOne_faultAt2 {i j : Nat} (e e' : Errno) (h : i ≠ j) : ¬ AtMostOneFault (faultAt2 i e j e') := by
  intro hc
  refine h (hc i 0 (.close []) j 0 (.close []) ?_ ?_)
  · simp [faultAt2]
  · simp only [faultAt2]; split <;> rfl

open SingleFault.Example in
/-- A faulted `write` (EIO) and then a faulted clean-up `unlink` (EACCES): `atomic_write` re-raises
    the write's error, the name search gives up, trash-put reports the failure — and the EMPTY
    `info/f.trashinfo` stays behind.  Found by the fault sweep on the real code; here: the model. -/
theorem double_fault_strays_info :
    ¬ AtMostOneFault (faultAt2 1 .EIO 3 .EACCES) ∧
    (runW (faultAt2 1 .EIO 3 .EACCES)).1.1 = .error (.persistError .EIO) ∧
    W.get (I ++ [name0]) = none ∧
    (runW (faultAt2 1 .EIO 3 .EACCES)).2.fs.get (I ++ [name0]) = some (.file [] 0o600 0) ∧
    ¬ NoStrayInfo W (runW (faultAt2 1 .EIO 3 .EACCES)).2.fs I ∧
    ¬ Honest W I F entry base content (runW (faultAt2 1 .EIO 3 .EACCES)) := by
  have h : (runW (faultAt2 1 .EIO 3 .EACCES)).1.1 = .error (.persistError .EIO) ∧
      W.get (I ++ [name0]) = none ∧
      (runW (faultAt2 1 .EIO 3 .EACCES)).2.fs.get (I ++ [name0]) = some (.file [] 0o600 0) := by decide +kernel
  obtain ⟨h1, h2, h3⟩ := h
  have hs : ¬ NoStrayInfo W (runW (faultAt2 1 .EIO 3 .EACCES)).2.fs I := fun hn => by
    have := hn name0
    rw [h2, h3] at this; cases this
  exact ⟨not_atMostOne_faultAt2 _ _ (by decide), h1, h2, h3, hs, fun hh => hs (hh.2 _ h1).2.2⟩

open SingleFault.Example in
/-- A faulted `rename` (EIO) and then a faulted `write` of the copy fallback (ENOSPC), on ONE
    device: `copy2` has created `files/f` (empty), `shutil.move` raises, the clean-up removes the
    info file, nothing removes the partial payload.  Reported as a failed move; the entry is intact
    at its origin; `files/f` stays behind without info file. -/
theorem double_fault_strands_payload :
    ¬ AtMostOneFault (faultAt2 3 .EIO 5 .ENOSPC) ∧
    (runW (faultAt2 3 .EIO 5 .ENOSPC)).1.1 = .error (.moveError .ENOSPC) ∧
    (runW (faultAt2 3 .EIO 5 .ENOSPC)).2.fs.get entry = W.get entry ∧
    W.get (F ++ [base]) = none ∧
    (runW (faultAt2 3 .EIO 5 .ENOSPC)).2.fs.get (F ++ [base]) = some (.file [] 0o644 0) ∧
    (runW (faultAt2 3 .EIO 5 .ENOSPC)).2.fs.get (I ++ [name0]) = none ∧
    ¬ Honest W I F entry base content (runW (faultAt2 3 .EIO 5 .ENOSPC)) := by
  have h : (runW (faultAt2 3 .EIO 5 .ENOSPC)).1.1 = .error (.moveError .ENOSPC) ∧
      (runW (faultAt2 3 .EIO 5 .ENOSPC)).2.fs.get entry = W.get entry ∧
      W.get (F ++ [base]) = none ∧
      (runW (faultAt2 3 .EIO 5 .ENOSPC)).2.fs.get (F ++ [base]) = some (.file [] 0o644 0) ∧
      (runW (faultAt2 3 .EIO 5 .ENOSPC)).2.fs.get (I ++ [name0]) = none := by decide +kernel
  obtain ⟨h1, h2, h3, h4, h5⟩ := h
  refine ⟨not_atMostOne_faultAt2 _ _ (by decide), h1, h2, h3, h4, h5, fun hh => ?_⟩
  obtain ⟨⟨e, he⟩, _⟩ := hh.2 _ h1
  cases he

open MoveCopy.Example in
/-- The device hypothesis of `Setting` is needed: when the model's kernel itself refuses the rename
    (EXDEV: the entry lives on another device than `files/`), ONE fault — the oracle of a fault
    sweep, index 5, the `write` of the copy — strands a payload.  (`C05Copy.put_copy_fault_strands_payload`
    shows the same run under the oracle "every write below files/ fails".) -/
theorem device_refused_rename_one_fault :
    AtMostOneFault (faultAt 5 .ENOSPC) ∧ MoveCopy.PutSetting P I F entry ∧
    P.dev (FS.parent entry) ≠ P.dev F ∧
    (run (faultAt 5 .ENOSPC) (putCore I F [102] [99] (fun _ => .ok entry) ⟨[], []⟩) { fs := P }).1.1 =
      .error (.moveError .ENOSPC) ∧
    (run (faultAt 5 .ENOSPC) (putCore I F [102] [99] (fun _ => .ok entry) ⟨[], []⟩) { fs := P }).2.fs.get entry =
      P.get entry ∧
    P.get (F ++ [[102]]) = none ∧
    (run (faultAt 5 .ENOSPC) (putCore I F [102] [99] (fun _ => .ok entry) ⟨[], []⟩) { fs := P }).2.fs.get (F ++ [[102]]) =
      some (.file [] 0o644 0) ∧
    (run (faultAt 5 .ENOSPC) (putCore I F [102] [99] (fun _ => .ok entry) ⟨[], []⟩) { fs := P }).2.fs.get
      (I ++ [[102] ++ trashinfoExt]) = none := by
  refine ⟨atMostOne_faultAt _ _, C05Copy.putSetting_of_check (C05Copy.wf_ofList _ _) (by decide +kernel), ?_⟩
  decide +kernel

/-! ### `Copyable.noMount` is needed: a mount point inside the entry -/

open SingleFault.Example in
theorem WD_setting : Setting WD I F dirD ∧ Copyable WD F dirD :=
  ⟨setting_of_check (by decide +kernel), copyable_of_check (C05Copy.wf_ofList _ _) (by decide +kernel)⟩

open SingleFault.Example in
/-- ONE fault, on the `rename` (EIO), of a directory entry that holds a MOUNT POINT: `copytree`
    copies everything, `rmtree` removes "a" and then cannot `rmdir` the mount point (EBUSY),
    `shutil.move` raises, the clean-up removes the info file.  Reported as a failed move; the
    entry has lost "a"; the complete copy sits under `files/d` without info file. -/
theorem mount_inside_entry_one_fault :
    AtMostOneFault (faultAt 3 .EIO) ∧ Setting WM I F dirD ∧
    ((∀ q, FS.under dirD q = true → WM.isMount q = false) → Copyable WM F dirD) ∧
    WM.isMount (dirD ++ [[109]]) = true ∧
    (runWM (faultAt 3 .EIO)).1.1 = .error (.moveError .EBUSY) ∧
    WM.get (dirD ++ [[97]]) = some (.file [7] 0o644 3) ∧
    (runWM (faultAt 3 .EIO)).2.fs.get (dirD ++ [[97]]) = none ∧
    (runWM (faultAt 3 .EIO)).2.fs.get (F ++ [baseD, [97]]) = some (.file [7] 0o644 3) ∧
    (runWM (faultAt 3 .EIO)).2.fs.get (I ++ [nameD]) = none ∧
    ¬ Honest WM I F dirD baseD content (runWM (faultAt 3 .EIO)) := by
  have h : WM.isMount (dirD ++ [[109]]) = true ∧
      (runWM (faultAt 3 .EIO)).1.1 = .error (.moveError .EBUSY) ∧
      WM.get (dirD ++ [[97]]) = some (.file [7] 0o644 3) ∧
      (runWM (faultAt 3 .EIO)).2.fs.get (dirD ++ [[97]]) = none ∧
      (runWM (faultAt 3 .EIO)).2.fs.get (F ++ [baseD, [97]]) = some (.file [7] 0o644 3) ∧
      (runWM (faultAt 3 .EIO)).2.fs.get (I ++ [nameD]) = none := by
    unfold runWM
    rw [C17SingleEval.putCore_eq]
    decide +kernel
  obtain ⟨h0, h1, h2, h3, h4, h5⟩ := h
  refine ⟨atMostOne_faultAt _ _, setting_of_check (by decide +kernel),
    copyable_of_tree (C05Copy.wf_ofList _ _) (by decide +kernel), h0, h1, h2, h3, h4, h5, fun hh => ?_⟩
  obtain ⟨⟨e, he⟩, _⟩ := hh.2 _ h1
  cases he

open SingleFault.Example in
/-- the same entry without the mount point: the faulted rename is absorbed (17 calls: 3 for the name
    search, the rename, 10 to copy "d", "a", "m", 3 to remove them; evaluated by the kernel) -/
theorem WD_rename_fault_eval :
    (runWD (faultAt 3 .EIO)).1.1 = .ok nameD ∧ (runWD (faultAt 3 .EIO)).2.n = 17 ∧
    (runWD (faultAt 3 .EIO)).2.fs.get (F ++ [baseD]) = some (.dir 0o750 5) ∧
    (runWD (faultAt 3 .EIO)).2.fs.get (F ++ [baseD, [97]]) = some (.file [7] 0o644 3) ∧
    (runWD (faultAt 3 .EIO)).2.fs.get (F ++ [baseD, [109]]) = some (.dir 0o755 0) ∧
    (runWD (faultAt 3 .EIO)).2.fs.get dirD = none ∧
    (runWD (faultAt 3 .EIO)).2.fs.get (dirD ++ [[97]]) = none ∧
    (runWD (faultAt 3 .EIO)).2.fs.get (I ++ [nameD]) = some (.file content 0o600 0) := by
  unfold runWD
  rw [C17SingleEval.putCore_eq]
  decide +kernel

end TrashVerif.Proofs.C17Single
