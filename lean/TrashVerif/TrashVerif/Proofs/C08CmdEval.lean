/-
  Proofs/C08CmdEval.lean — kernel-evaluable twins for `trash-list`, `trash-empty`, `trash-rm`
  (continues Proofs/C16Eval.lean and Proofs/C02CmdEval.lean): copies of the model's definitions with
  `walk`/`mergeSort` replaced by their structurally recursive twins, proved EQUAL to the model's
  functions up to `runList = runListS`, `runEmpty = runEmptyS`, `runRm = runRmS`.  Used only to
  evaluate the model on concrete worlds (`decide +kernel`).
-/
import TrashVerif.Model.Cmds
import TrashVerif.Proofs.C02CmdEval
namespace TrashVerif.Proofs.C08CmdEval
open TrashVerif Prog FS Bytes
open TrashVerif.Proofs.C16Eval TrashVerif.Proofs.C02CmdEval

/-! ### the scanner -/

def scanTrashDirsS (fs : FS) (c : ReadCfg) : List ScanEvent :=
  let uid := Bytes.ofNat c.uid
  ((homeTrashPaths c.env).map fun p => ScanEvent.found p [slash]) ++
  (listVolumes c).flatMap fun v =>
    let top := pjoin (pjoin v (b ".Trash")) uid
    let alt := pjoin v (b ".Trash-" ++ uid)
    (match validToBeReadS fs c.cwd top with
     | .valid => [ScanEvent.found top v]
     | .notSticky => [.skippedNotSticky top]
     | .parentSymlink => [.skippedSymlink top]
     | .missing => []) ++
    (if pIsdirS fs c.cwd alt then [ScanEvent.found alt v] else [])
theorem scanTrashDirs_eq (fs : FS) (c : ReadCfg) : scanTrashDirs fs c = scanTrashDirsS fs c := by
  unfold scanTrashDirs scanTrashDirsS; simp only [validToBeRead_eq, pIsdir_eq] <;> rfl

def selectTrashDirsS (fs : FS) (c : ReadCfg) (userDirs : List Bytes) : List ScanEvent :=
  (if userDirs = [] then scanTrashDirsS fs c else []) ++
  userDirs.map fun d => ScanEvent.found d (volumeOfS fs c.cwd d)
theorem selectTrashDirs_eq (fs : FS) (c : ReadCfg) (userDirs : List Bytes) :
    selectTrashDirs fs c userDirs = selectTrashDirsS fs c userDirs := by
  unfold selectTrashDirs selectTrashDirsS; simp only [scanTrashDirs_eq, volumeOf_eq] <;> rfl

/-! ### the readers -/

def entriesIfDirExistsS (fs : FS) (cwd : CPath) (path : Bytes) : Listing :=
  if ¬ pExistsS fs cwd path then .names []
  else match listdirStrS fs cwd path with
    | some ns => .names ns
    | none => .crash
theorem entriesIfDirExists_eq (fs : FS) (cwd : CPath) (path : Bytes) :
    entriesIfDirExists fs cwd path = entriesIfDirExistsS fs cwd path := by
  unfold entriesIfDirExists entriesIfDirExistsS; simp only [pExists_eq, listdirStr_eq] <;> rfl

def infosOfS (fs : FS) (cwd : CPath) (trashDir : Bytes) : Except Crash (List Bytes) :=
  let infoDir := pjoin trashDir (b "info")
  match entriesIfDirExistsS fs cwd infoDir with
  | .crash => .error .notADirectory
  | .names ns => .ok ((ns.filter isTrashinfoName).map fun n => pjoin infoDir n)
theorem infosOf_eq (fs : FS) (cwd : CPath) (trashDir : Bytes) : infosOf fs cwd trashDir = infosOfS fs cwd trashDir := by
  unfold infosOf infosOfS; simp only [entriesIfDirExists_eq] <;> rfl

def orphansOfS (fs : FS) (cwd : CPath) (trashDir : Bytes) : Except Crash (List Bytes) :=
  let infoDir := pjoin trashDir (b "info")
  let filesDir := pjoin trashDir (b "files")
  match entriesIfDirExistsS fs cwd filesDir with
  | .crash => .error .notADirectory
  | .names ns => .ok ((ns.filter fun n => ¬ pExistsS fs cwd (pjoin infoDir (n ++ trashinfoExt))).map fun n => pjoin filesDir n)
theorem orphansOf_eq (fs : FS) (cwd : CPath) (trashDir : Bytes) : orphansOf fs cwd trashDir = orphansOfS fs cwd trashDir := by
  unfold orphansOf orphansOfS; simp only [entriesIfDirExists_eq, pExists_eq] <;> rfl

/-! ### trash-list -/

def listOneS (fs : FS) (cwd : CPath) (volume infoPath : Bytes) : Out :=
  match contentsOfS fs cwd infoPath with
  | none => .stderr "io-error" infoPath
  | some text =>
    match parsePath text with
    | none => .stderr "parse-error" infoPath
    | some rel => .stdout (maybeDateStr text ++ [32] ++ pjoin volume rel)
theorem listOne_eq (fs : FS) (cwd : CPath) (volume infoPath : Bytes) :
    listOne fs cwd volume infoPath = listOneS fs cwd volume infoPath := by
  unfold listOne listOneS; rw [contentsOf_eq] <;> rfl

def listEventsS (cwd : CPath) : List ScanEvent → Prog (Option Crash)
  | [] => pure none
  | .skippedNotSticky p :: rest => do say (.stderr "skipped-not-sticky" p); listEventsS cwd rest
  | .skippedSymlink p :: rest => do say (.stderr "skipped-symlink" p); listEventsS cwd rest
  | .found p v :: rest => do
    let fs ← read
    match infosOfS fs cwd p with
    | .error c => pure (some c)
    | .ok infos =>
      emitAll (infos.map (listOneS fs cwd v))
      listEventsS cwd rest
theorem listEvents_eq (cwd : CPath) : ∀ evs : List ScanEvent, listEvents cwd evs = listEventsS cwd evs := by
  intro evs
  induction evs with
  | nil => rfl
  | cons ev rest ih =>
    cases ev with
    | found p v =>
      have hl : ∀ fs, listOne fs cwd v = listOneS fs cwd v := fun fs => funext fun i => listOne_eq fs cwd v i
      unfold listEvents listEventsS
      simp only [infosOf_eq, ih, hl] <;> rfl
    | skippedNotSticky p => unfold listEvents listEventsS; rw [ih]
    | skippedSymlink p => unfold listEvents listEventsS; rw [ih]

def runListS (c : ReadCfg) (userDirs : List Bytes) : Prog CmdResult := do
  let fs ← read
  match ← listEventsS c.cwd (selectTrashDirsS fs c userDirs) with
  | some cr => do say (.stderr "traceback" []); pure { exit := 1, crash := some cr }
  | none => pure { exit := 0 }
theorem runList_eq (c : ReadCfg) (userDirs : List Bytes) : runList c userDirs = runListS c userDirs := by
  unfold runList runListS; simp only [listEvents_eq, selectTrashDirs_eq] <;> rfl

/-! ### trash-empty -/

def okToDeleteS (fs : FS) (cwd : CPath) (o : EmptyOpts) (infoPath : Bytes) : Decision :=
  match o.days with
  | none => .delete
  | some days =>
    match contentsOfS fs cwd infoPath with
    | none => .keep
    | some text =>
      match parseDeletionDate text with
      | none => .keep
      | some d =>
        match olderThan days o.now o.nowUs d with
        | .overflow => .crash .overflow
        | .yes => .delete
        | .no => .keep
theorem okToDelete_eq (fs : FS) (cwd : CPath) (o : EmptyOpts) (infoPath : Bytes) :
    okToDelete fs cwd o infoPath = okToDeleteS fs cwd o infoPath := by
  unfold okToDelete okToDeleteS; simp only [contentsOf_eq] <;> rfl

def emptyPathS (cwd : CPath) (o : EmptyOpts) (path : Bytes) : Prog Unit := do
  let fs ← read
  emptyPathR o path (resolveS fs cwd path)
theorem emptyPath_eq (cwd : CPath) (o : EmptyOpts) (path : Bytes) : emptyPath cwd o path = emptyPathS cwd o path := by
  unfold emptyPath emptyPathS; simp only [resolve_eq] <;> rfl

def emptyInfosS (cwd : CPath) (o : EmptyOpts) : List Bytes → Prog (Option Crash)
  | [] => pure none
  | i :: rest => do
    let fs ← read
    match okToDeleteS fs cwd o i with
    | .crash c => pure (some c)
    | .keep => emptyInfosS cwd o rest
    | .delete => do
      let infoC := resolveS fs cwd i
      emptyPathR o (pathOfBackupCopy i) (resolveS fs cwd (pathOfBackupCopy i))
      emptyPathR o i infoC
      emptyInfosS cwd o rest
theorem emptyInfos_eq (cwd : CPath) (o : EmptyOpts) : ∀ is : List Bytes, emptyInfos cwd o is = emptyInfosS cwd o is := by
  intro is
  induction is with
  | nil => rfl
  | cons i rest ih => unfold emptyInfos emptyInfosS; simp only [okToDelete_eq, resolve_eq, ih] <;> rfl

def emptyPathsS (cwd : CPath) (o : EmptyOpts) : List Bytes → Prog Unit
  | [] => pure ()
  | p :: ps => do emptyPathS cwd o p; emptyPathsS cwd o ps
theorem emptyPaths_eq (cwd : CPath) (o : EmptyOpts) : ∀ ps : List Bytes, emptyPaths cwd o ps = emptyPathsS cwd o ps := by
  intro ps
  induction ps with
  | nil => rfl
  | cons p ps ih => unfold emptyPaths emptyPathsS; rw [emptyPath_eq, ih]

def emptyDirsS (cwd : CPath) (o : EmptyOpts) : List (Bytes × Bytes) → Prog (Option Crash)
  | [] => pure none
  | (t, _) :: rest => do
    let fs ← read
    match infosOfS fs cwd t with
    | .error c => pure (some c)
    | .ok infos =>
      match ← emptyInfosS cwd o infos with
      | some c => pure (some c)
      | none =>
        let fs ← read
        match orphansOfS fs cwd t with
        | .error c => pure (some c)
        | .ok orphans => do
          emptyPathsS cwd o orphans
          emptyDirsS cwd o rest
theorem emptyDirs_eq (cwd : CPath) (o : EmptyOpts) : ∀ ds : List (Bytes × Bytes), emptyDirs cwd o ds = emptyDirsS cwd o ds := by
  intro ds
  induction ds with
  | nil => rfl
  | cons tv rest ih =>
    obtain ⟨t, v⟩ := tv
    unfold emptyDirs emptyDirsS
    simp only [infosOf_eq, emptyInfos_eq, orphansOf_eq, emptyPaths_eq, ih] <;> rfl

def runEmptyS (c : ReadCfg) (o : EmptyOpts) (reply : Option Bytes) : Prog CmdResult := do
  let fs ← read
  let events := selectTrashDirsS fs c o.userDirs
  let go : Prog CmdResult := do
    match ← emptyDirsS c.cwd o (foundDirs events) with
    | some cr => do say (.stderr "traceback" []); pure { exit := 1, crash := some cr }
    | none => pure { exit := 0 }
  if o.interactive then
    match reply with
    | none => do say (.stderr "traceback" []); pure { exit := 1, crash := some .eof }
    | some r => if emptyReplyYes r then go else pure { exit := 0 }
  else go
theorem runEmpty_eq (c : ReadCfg) (o : EmptyOpts) (reply : Option Bytes) : runEmpty c o reply = runEmptyS c o reply := by
  unfold runEmpty runEmptyS; simp only [selectTrashDirs_eq, emptyDirs_eq] <;> rfl

/-! ### trash-rm -/

def rmInfosS (cwd : CPath) (pattern volume : Bytes) : List Bytes → Prog (Option Crash)
  | [] => pure none
  | i :: rest => do
    let fs ← read
    match contentsOfS fs cwd i with
    | none => do say (.stderr "unparsable" i); rmInfosS cwd pattern volume rest
    | some text =>
      match parsePath text with
      | none => do say (.stderr "unparsable" i); rmInfosS cwd pattern volume rest
      | some rel =>
        match rmMatches pattern (pjoin volume rel) with
        | none => pure (some .indexError)
        | some false => rmInfosS cwd pattern volume rest
        | some true => do
          match ← purgePair (resolveS fs cwd (pathOfBackupCopy i)) (resolveS fs cwd i) with
          | .error _ => pure (some .osError)
          | .ok () => rmInfosS cwd pattern volume rest
theorem rmInfos_eq (cwd : CPath) (pattern volume : Bytes) : ∀ is : List Bytes,
    rmInfos cwd pattern volume is = rmInfosS cwd pattern volume is := by
  intro is
  induction is with
  | nil => rfl
  | cons i rest ih => unfold rmInfos rmInfosS; simp only [contentsOf_eq, resolve_eq, ih] <;> rfl

def rmDirsS (cwd : CPath) (pattern : Bytes) : List (Bytes × Bytes) → Prog (Option Crash)
  | [] => pure none
  | (t, v) :: rest => do
    let fs ← read
    match infosOfS fs cwd t with
    | .error c => pure (some c)
    | .ok infos =>
      match ← rmInfosS cwd pattern v infos with
      | some c => pure (some c)
      | none => rmDirsS cwd pattern rest
theorem rmDirs_eq (cwd : CPath) (pattern : Bytes) : ∀ ds : List (Bytes × Bytes), rmDirs cwd pattern ds = rmDirsS cwd pattern ds := by
  intro ds
  induction ds with
  | nil => rfl
  | cons tv rest ih =>
    obtain ⟨t, v⟩ := tv
    unfold rmDirs rmDirsS
    simp only [infosOf_eq, rmInfos_eq, ih] <;> rfl

def runRmS (c : ReadCfg) (args : List Bytes) : Prog CmdResult := do
  match args with
  | [] => do say (.stderr "usage" []); pure { exit := 8 }
  | pattern :: _ =>
    let fs ← read
    match ← rmDirsS c.cwd pattern (foundDirs (scanTrashDirsS fs c)) with
    | some cr => do say (.stderr "traceback" []); pure { exit := 1, crash := some cr }
    | none => pure { exit := 0 }
theorem runRm_eq (c : ReadCfg) (args : List Bytes) : runRm c args = runRmS c args := by
  unfold runRm runRmS; simp only [scanTrashDirs_eq, rmDirs_eq] <;> rfl

end TrashVerif.Proofs.C08CmdEval
