/-
  Proofs/C01.lean — proofs of the statements of Props/C01.lean.
-/
import TrashVerif.Proofs.PutLemmas
namespace TrashVerif.Proofs.C01
open TrashVerif Prog FS PutCore PutLemmas

/-! ### resolved layer -/

theorem put_ok_moves_whole (fs : FS) (infoC filesC src : CPath) (base content : Bytes) (st st' : PutSt)
    (h : Setting fs infoC filesC src) (name : Bytes) (s' : RunState)
    (hr : run noFaults (putCore infoC filesC base content (fun _ => .ok src) st) { fs := fs } = ((.ok name, st'), s')) :
    Trashed fs s'.fs infoC filesC src name content := by
  have g := Geo.of_setting h
  have cs := core_spec base content st { fs := fs } h
  rw [hr] at cs
  rcases cs with ⟨e, a, _⟩ | ⟨nm, a, hst, hfree, hfreeI, hfs, _⟩
  · cases a
  · simp only at a hfs hfree hfreeI
    cases a
    have hnt := stem_ne hst
    rw [hfs]
    refine ⟨hfree, hfreeI, fun rel => final_whole g hnt fs content rel,
      fun rel => final_gone g hnt fs content (List.prefix_append src rel),
      final_info g hnt fs content, ?_, ?_, ?_, ?_⟩
    · intro q h1 h2 h3 h4 h5 h6
      rw [under_iff] at h1 h2
      exact final_frame g hnt fs content h1 h2 h3 h4 h5 h6
    · exact touch_keeps fs _ (final_ps g hnt fs content)
    · exact touch_keeps fs _ (final_F g hnt fs content)
    · exact touch_keeps fs _ (final_I g hnt fs content)

theorem put_fail_untouched (fs : FS) (infoC filesC src : CPath) (base content : Bytes) (st st' : PutSt)
    (h : Setting fs infoC filesC src) (r : Reason) (s' : RunState)
    (hr : run noFaults (putCore infoC filesC base content (fun _ => .ok src) st) { fs := fs } = ((.error r, st'), s')) :
    (∃ e, r = .persistError e) ∧ ∀ q, s'.fs.get q = fs.get q := by
  have cs := core_spec base content st { fs := fs } h
  rw [hr] at cs
  rcases cs with ⟨e, a, b, _⟩ | ⟨nm, a, _⟩
  · simp only at a b
    cases a
    exact ⟨⟨e, rfl⟩, fun q => by rw [b]⟩
  · cases a

theorem removeFile_file {p : CPath} {s : RunState} {d : Bytes} {m t : Nat}
    (h : s.fs.get p = some (.file d m t)) :
    (run noFaults (removeFile p) s).1 = .ok () ∧
    (run noFaults (removeFile p) s).2.fs = touchDir (removeNode s.fs p) (parent p) := by
  have hl : lexistsC s.fs p = true := by simp [lexistsC, h]
  have hu : s.fs.unlink p = .ok (touchDir (removeNode s.fs p) (parent p)) := by simp [FS.unlink, h]
  unfold removeFile
  simp [hl, run_bind, run_sys, Call.apply, hu]

theorem refused_spec (infoC filesC : CPath) (base content : Bytes) (st : PutSt) (e : Errno) (s : RunState) :
    (∃ r, (run noFaults (putCore infoC filesC base content (fun _ => .error e) st) s).1.1 = .error r) ∧
    Untouched s.fs (run noFaults (putCore infoC filesC base content (fun _ => .error e) st) s).2.fs infoC := by
  unfold putCore
  rw [run_bind]
  have ps := persist_spec infoC filesC base content persistFuel 0 false st s
  generalize run noFaults (persistLoop infoC filesC base content persistFuel 0 false st) s = rp at ps
  obtain ⟨⟨pr, st1⟩, s1⟩ := rp
  rcases ps with ⟨a, b, c⟩ | ⟨name, a, hst, hfree, hfreeI, hlen, hdir, hfs, hh⟩
  · simp only at a b c ⊢
    have hu : Untouched s.fs s1.fs infoC := by
      rw [b]; exact ⟨fun _ _ => rfl, fun m t h => ⟨t, h⟩⟩
    cases pr with
    | created nm => exact absurd rfl (a nm)
    | failed e => exact ⟨⟨_, rfl⟩, hu⟩
    | outOfFuel => exact ⟨⟨_, rfl⟩, hu⟩
  · simp only at a hfs hh ⊢
    subst a
    simp only [run_bind, run_read, run_pure]
    have hp : s1.fs.get (infoC ++ [name]) = some (.file content 0o600 0) := by
      rw [hfs, fsB_get, if_pos rfl]
    obtain ⟨r1, r2⟩ := removeFile_file hp
    generalize run noFaults (removeFile (infoC ++ [name])) s1 = rm at r1 r2
    obtain ⟨res, s2⟩ := rm
    simp only at r1 r2
    subst r1
    simp only [run_pure]
    refine ⟨⟨_, rfl⟩, ?_, ?_⟩
    · intro q hq
      rw [r2, get_touchDir, parent, List.dropLast_concat, if_neg hq, get_removeNode, hfs]
      by_cases hqp : q = infoC ++ [name]
      · rw [if_pos hqp, hqp, hfreeI]
      · rw [if_neg hqp, fsB_get, if_neg hqp, if_neg hq]
    · have a : infoC ≠ infoC ++ [name] := by intro h; simpa using congrArg List.length h
      refine touch_keeps s.fs infoC ?_
      rw [r2, get_touchDir, parent, List.dropLast_concat, if_pos rfl, get_removeNode, if_neg a, hfs, fsB_get,
        if_neg a, if_pos rfl, touch_touch]

theorem put_refused_untouched (fs : FS) (infoC filesC : CPath) (base content : Bytes) (st : PutSt) (e : Errno)
    (_hi : fs.isDirAt infoC = true) :
    let res := run noFaults (putCore infoC filesC base content (fun _ => .error e) st) { fs := fs }
    (∃ r, res.1.1 = .error r) ∧ Untouched fs res.2.fs infoC :=
  refused_spec infoC filesC base content st e { fs := fs }

section strings
open Bytes

/-! ### string layer -/

theorem splitOn_ne_nil (sep : UInt8) (s : Bytes) : splitOn sep s ≠ [] := by
  induction s with
  | nil => simp [splitOn]
  | cons c cs ih =>
    unfold splitOn
    split
    · simp
    · split
      · next h => exact absurd h ih
      · simp

theorem splitOn_free {sep : UInt8} {u : Bytes} (h : sep ∉ u) : splitOn sep u = [u] := by
  induction u with
  | nil => rfl
  | cons c cs ih =>
    have hc : c ≠ sep := fun e => h (e ▸ List.mem_cons_self)
    have hcs : sep ∉ cs := fun e => h (List.mem_cons_of_mem _ e)
    unfold splitOn
    rw [if_neg hc, ih hcs]

theorem splitOn_append_sep (sep : UInt8) (u v : Bytes) :
    splitOn sep (u ++ sep :: v) = splitOn sep u ++ splitOn sep v := by
  induction u with
  | nil => simp [splitOn]
  | cons c cs ih =>
    rw [List.cons_append]
    by_cases hc : c = sep
    · subst hc
      rw [splitOn, if_pos rfl, ih, splitOn, if_pos rfl, List.cons_append]
    · rw [splitOn, if_neg hc, ih]
      conv => rhs; rw [splitOn, if_neg hc]
      cases hs : splitOn sep cs with
      | nil => exact absurd hs (splitOn_ne_nil _ _)
      | cons p ps => rfl

theorem splitOn_replicate (sep : UInt8) (j : Nat) :
    splitOn sep (List.replicate j sep) = List.replicate (j + 1) [] := by
  induction j with
  | zero => rfl
  | succ j ih => rw [List.replicate_succ, splitOn, if_pos rfl, ih]; rfl

theorem splitOn_tail {sep : UInt8} {c : Bytes} (hc : sep ∉ c) (j : Nat) :
    splitOn sep (c ++ List.replicate j sep) = c :: List.replicate j [] := by
  cases j with
  | zero => simpa using splitOn_free hc
  | succ j =>
    rw [List.replicate_succ, splitOn_append_sep, splitOn_free hc, splitOn_replicate]; rfl

/-- "empty or ends with a slash" -/
def Sl (z : Bytes) : Prop := z = [] ∨ ∃ z', z = z' ++ [slash]

theorem basename_after {z c : Bytes} (hz : Sl z) (hc : slash ∉ c) : basename (z ++ c) = c := by
  unfold basename
  rcases hz with rfl | ⟨z', rfl⟩
  · simp [splitOn_free hc]
  · rw [List.append_assoc, List.singleton_append, splitOn_append_sep, splitOn_free hc]
    simp

theorem dropWhile_slashes (k : Nat) (x : UInt8) (rest : Bytes) (hx : x ≠ slash) :
    (List.replicate k slash ++ x :: rest).dropWhile (· = slash) = x :: rest := by
  induction k with
  | zero => simp [hx]
  | succ k ih => simpa [List.replicate_succ] using ih

theorem rstrip_gen (w : Bytes) (x : UInt8) (k : Nat) (hx : x ≠ slash) :
    rstripSlash (w ++ [x] ++ List.replicate k slash) = w ++ [x] := by
  unfold rstripSlash
  have : (w ++ [x] ++ List.replicate k slash).reverse = List.replicate k slash ++ x :: w.reverse := by
    simp
  rw [this, dropWhile_slashes k x _ hx]; simp

theorem basename_last {a : Bytes} (h : basename a ≠ []) : ∃ w x, a = w ++ [x] ∧ x ≠ slash := by
  rcases List.eq_nil_or_concat a with rfl | ⟨w, x, e⟩
  · exact absurd rfl h
  · rw [List.concat_eq_append] at e
    refine ⟨w, x, e, fun hx => h ?_⟩
    subst hx; subst e
    unfold basename
    have := splitOn_append_sep slash w []
    rw [this]
    simp [splitOn]

theorem dot_entries_refused (a : Bytes) (k : Nat) (h : basename a = [dot] ∨ basename a = dotdot) :
    isDotEntry (rstripSlash (a ++ List.replicate k slash)) = true := by
  have hne : basename a ≠ [] := by rcases h with h | h <;> rw [h] <;> simp [dotdot]
  obtain ⟨w, x, rfl, hx⟩ := basename_last hne
  rw [rstrip_gen w x k hx]
  simpa [isDotEntry] using h


theorem decompose (a : Bytes) (h : ∃ ch ∈ a, ch ≠ slash) :
    ∃ z c j, a = z ++ c ++ List.replicate j slash ∧ c ≠ [] ∧ slash ∉ c ∧ Sl z := by
  induction a with
  | nil => obtain ⟨ch, hm, _⟩ := h; cases hm
  | cons y a' ih =>
    by_cases h' : ∃ ch ∈ a', ch ≠ slash
    · obtain ⟨z, c, j, e, hc1, hc2, hz⟩ := ih h'
      rcases hz with rfl | ⟨z', rfl⟩
      · by_cases hy : y = slash
        · exact ⟨[slash], c, j, by rw [e, hy]; rfl, hc1, hc2, Or.inr ⟨[], rfl⟩⟩
        · refine ⟨[], y :: c, j, by rw [e]; rfl, by simp, ?_, Or.inl rfl⟩
          intro hm
          rcases List.mem_cons.1 hm with hm | hm
          · exact hy hm.symm
          · exact hc2 hm
      · exact ⟨y :: z' ++ [slash], c, j, by rw [e]; rfl, hc1, hc2, Or.inr ⟨y :: z', rfl⟩⟩
    · have hall : ∀ ch ∈ a', ch = slash := by
        intro ch hm
        apply Classical.byContradiction
        intro hne; exact h' ⟨ch, hm, hne⟩
      have hy : y ≠ slash := by
        obtain ⟨ch, hm, hne⟩ := h
        rcases List.mem_cons.1 hm with hm | hm
        · exact hm ▸ hne
        · exact absurd (hall ch hm) hne
      refine ⟨[], [y], a'.length, ?_, by simp, ?_, Or.inl rfl⟩
      · rw [List.eq_replicate_of_mem hall]; simp
      · simpa using fun e => hy e.symm

theorem normComps_cons (absolute : Bool) (acc : List Bytes) (c : Bytes) (cs : List Bytes) :
    normComps absolute acc (c :: cs) =
      if c = [] ∨ c = [dot] then normComps absolute acc cs
      else if c ≠ dotdot then normComps absolute (c :: acc) cs
      else match acc with
        | [] => if absolute then normComps absolute [] cs else normComps absolute [c] cs
        | top :: rest => if top = dotdot then normComps absolute (c :: acc) cs else normComps absolute rest cs := by
  conv => lhs; unfold normComps
  cases acc <;> rfl

theorem normComps_step (absolute : Bool) (acc : List Bytes) (c : Bytes) :
    ∃ acc', ∀ cs, normComps absolute acc (c :: cs) = normComps absolute acc' cs := by
  by_cases h1 : c = [] ∨ c = [dot]
  · exact ⟨acc, fun cs => by rw [normComps_cons, if_pos h1]⟩
  · by_cases h2 : c ≠ dotdot
    · exact ⟨c :: acc, fun cs => by rw [normComps_cons, if_neg h1, if_pos h2]⟩
    · cases acc with
      | nil =>
        cases absolute with
        | true => exact ⟨[], fun cs => by rw [normComps_cons, if_neg h1, if_neg h2]; rfl⟩
        | false => exact ⟨[c], fun cs => by rw [normComps_cons, if_neg h1, if_neg h2]; rfl⟩
      | cons top rest =>
        by_cases h3 : top = dotdot
        · exact ⟨c :: top :: rest, fun cs => by rw [normComps_cons, if_neg h1, if_neg h2]; simp only [h3, if_true]⟩
        · exact ⟨rest, fun cs => by rw [normComps_cons, if_neg h1, if_neg h2]; simp only [h3, if_false]⟩

theorem normComps_append (absolute : Bool) (P : List Bytes) :
    ∀ acc, ∃ acc', ∀ Q, normComps absolute acc (P ++ Q) = normComps absolute acc' Q := by
  induction P with
  | nil => intro acc; exact ⟨acc, fun _ => rfl⟩
  | cons p P ih =>
    intro acc
    obtain ⟨a1, h1⟩ := normComps_step absolute acc p
    obtain ⟨a2, h2⟩ := ih a1
    exact ⟨a2, fun Q => by rw [List.cons_append, h1, h2]⟩

theorem normComps_empties (absolute : Bool) (j : Nat) (acc : List Bytes) :
    normComps absolute acc (List.replicate j []) = acc.reverse := by
  induction j with
  | zero => rfl
  | succ j ih => rw [List.replicate_succ, normComps_cons, if_pos (Or.inl rfl), ih]

theorem joinWith_concat (sep : Bytes) (L : List Bytes) (c : Bytes) :
    joinWith sep (L ++ [c]) = (if L = [] then [] else joinWith sep L ++ sep) ++ c := by
  induction L with
  | nil => rfl
  | cons x L ih =>
    cases L with
    | nil => simp [joinWith]
    | cons y L =>
      rw [List.cons_append, List.cons_append, joinWith, ← List.cons_append, ih]
      · simp [joinWith]
      · simp


theorem splitOn_decomposed {z c : Bytes} (hz : Sl z) (hc : slash ∉ c) (j : Nat) :
    ∃ P, splitOn slash (z ++ c ++ List.replicate j slash) = P ++ c :: List.replicate j [] := by
  rcases hz with rfl | ⟨z', rfl⟩
  · exact ⟨[], by rw [List.nil_append, splitOn_tail hc]; rfl⟩
  · refine ⟨splitOn slash z', ?_⟩
    have : z' ++ [slash] ++ c ++ List.replicate j slash = z' ++ slash :: (c ++ List.replicate j slash) := by simp
    rw [this, splitOn_append_sep, splitOn_tail hc]

theorem Sl_replicate (k : Nat) : Sl (List.replicate k slash) := by
  cases k with
  | zero => exact Or.inl rfl
  | succ k => exact Or.inr ⟨List.replicate k slash, List.replicate_succ'⟩

theorem Sl_append {u v : Bytes} (hu : Sl u) (hv : Sl v) : Sl (u ++ v) := by
  rcases hv with rfl | ⟨v', rfl⟩
  · simpa using hu
  · exact Or.inr ⟨u ++ v', by simp⟩

theorem norm_keeps_last_component (a : Bytes) (hne : ∃ c ∈ a, c ≠ slash) (hd : isDotEntry (rstripSlash a) = false) :
    basename (normpath a) = basename (rstripSlash a) ∧ basename (normpath a) ≠ [] ∧
    basename (normpath a) ≠ [dot] ∧ basename (normpath a) ≠ dotdot := by
  obtain ⟨z, c, j, rfl, hc1, hc2, hz⟩ := decompose a hne
  -- the stripped argument and its last component
  obtain ⟨w, x, hcx⟩ : ∃ w x, c = w ++ [x] := by
    rcases List.eq_nil_or_concat c with h | ⟨w, x, h⟩
    · exact absurd h hc1
    · exact ⟨w, x, by rw [h, List.concat_eq_append]⟩
  have hx : x ≠ slash := fun e => hc2 (by rw [hcx, e]; simp)
  have hstrip : rstripSlash (z ++ c ++ List.replicate j slash) = z ++ c := by
    rw [hcx, ← List.append_assoc]; exact rstrip_gen (z ++ w) x j hx
  have hbase : basename (z ++ c) = c := basename_after hz hc2
  rw [hstrip, hbase]
  rw [hstrip] at hd
  have hdots : c ≠ [dot] ∧ c ≠ dotdot := by
    simpa [isDotEntry, hbase] using hd
  -- normpath
  have hnorm : ∃ y, Sl y ∧ normpath (z ++ c ++ List.replicate j slash) = y ++ c := by
    obtain ⟨P, hP⟩ := splitOn_decomposed hz hc2 j
    have hnn : z ++ c ++ List.replicate j slash ≠ [] := by
      intro e; simp [hc1] at e
    unfold normpath
    rw [if_neg hnn]
    simp only []
    generalize (if startsWith (z ++ c ++ List.replicate j slash) [slash] = true then
        (if startsWith (z ++ c ++ List.replicate j slash) [slash, slash] = true ∧
            ¬ startsWith (z ++ c ++ List.replicate j slash) [slash, slash, slash] = true then 2 else 1)
      else 0) = initial
    rw [hP]
    obtain ⟨acc', hacc⟩ := normComps_append (decide (initial ≠ 0)) P []
    have hcomps : normComps (decide (initial ≠ 0)) [] (P ++ c :: List.replicate j []) = acc'.reverse ++ [c] := by
      have h1 : ¬ (c = [] ∨ c = [dot]) := by simp [hc1, hdots.1]
      rw [hacc, normComps_cons, if_neg h1, if_pos hdots.2, normComps_empties, List.reverse_cons]
    rw [hcomps, joinWith_concat]
    refine ⟨List.replicate initial slash ++ (if acc'.reverse = [] then [] else joinWith [slash] acc'.reverse ++ [slash]),
      Sl_append (Sl_replicate _) ?_, ?_⟩
    · split
      · exact Or.inl rfl
      · exact Or.inr ⟨_, rfl⟩
    · rw [if_neg]
      · simp
      · simp [hc1]
  obtain ⟨y, hy, hn⟩ := hnorm
  rw [hn, basename_after hy hc2]
  exact ⟨rfl, hc1, hdots.1, hdots.2⟩

end strings

end TrashVerif.Proofs.C01
