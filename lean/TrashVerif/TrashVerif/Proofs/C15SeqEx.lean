/-
  Proofs/C15SeqEx.lean — a concrete world for Props/C15Seq.lean: `/t` holds the directory tree `b` (with `b/x`) and
  the file `a`; `trash-restore / --trash-dir /t` answered `0-1`; every crash state evaluated by the kernel.
-/
import TrashVerif.Proofs.C15Seq
import TrashVerif.Proofs.C13CmdEx
namespace TrashVerif.Proofs.C15SeqEx
open TrashVerif Prog FS PutCore C09Hist C13Cmd C15Seq
open TrashVerif.Proofs.C16Eval TrashVerif.Proofs.C02CmdEval TrashVerif.Proofs.C13Cmd
open TrashVerif.Proofs.C02CmdEx (restoreS restore_twin)
open TrashVerif.Proofs.C13CmdEx (offered_twin run_twin)
open TrashVerif.Proofs.C13CmdEx.Demo

/-- the demo world of Proofs/C13CmdEx.lean without the entry `c`: `b` (2024-01-01, a directory holding `x`) is
    index 0, `a` (2024-01-03, a file) is index 1 -/
def W2 : FS := FS.ofList [
  ([], dirN), (T, dirN), (I, dirN), (F, dirN),
  (I ++ [aN], .file (b "[Trash Info]\nPath=/home/a\nDeletionDate=2024-01-03T00:00:00\n") 0o600 3),
  (I ++ [bN], .file (b "[Trash Info]\nPath=/home/b\nDeletionDate=2024-01-01T00:00:00\n") 0o600 3),
  (F ++ [b "a"], .file [65] 0o644 3),
  (F ++ [b "b"], dirN), (F ++ [b "b", b "x"], .file [66] 0o644 3),
  ([b "home"], dirN), ([b "home", b "keep"], .file [124] 0o644 3)] [[]]

theorem W2_offered : offered W2 rc op = [eB, eA] := by rw [offered_twin]; decide +kernel

theorem W2_reply : parseIndexes (b "0-1") (offered W2 rc op).length = .ok [0, 1] ∧
    selected (offered W2 rc op) [0, 1] = [itB, itA].map (·.e) := by rw [W2_offered]; decide +kernel

theorem W2_setting : RSetting W2 [] I F [itB, itA] :=
  setting_of W2 [itB, itA] (by decide +kernel) (by decide +kernel) (by decide +kernel) (by decide +kernel)
    (fun it hit hm => by
      simp only [List.mem_cons, List.not_mem_nil, or_false] at hit
      rcases hit with rfl | rfl | rfl
      · decide +kernel
      · exact absurd hm (by decide +kernel)
      · decide +kernel)

/-- the crash states of the command, through the twin -/
def states : List FS := ((restoreS rc op (b "0-1") W2).2.fs :: (restoreS rc op (b "0-1") W2).2.hist).reverse

theorem states_eq : crashStates noFaults (runRestore rc op (some (b "0-1"))) W2 = states := by
  rw [Proofs.C05Seq.crashStates_def, run_twin]; rfl

/-- what matters of a crash state: is there something at `files/b`, `files/b/x`, `info/b.trashinfo`, `/home/b`,
    `/home/b/x`, `files/a`, `info/a.trashinfo`, `/home/a` -/
def summary (s : FS) : List Bool :=
  [F ++ [b "b"], F ++ [b "b", b "x"], I ++ [bN], [b "home", b "b"], [b "home", b "b", b "x"],
   F ++ [b "a"], I ++ [aN], [b "home", b "a"]].map fun p => (s.get p).isSome

/-- `EntryWhole` of both entries, on the paths that exist, as a Boolean -/
def whole (s : FS) : Bool :=
  ((s.get (F ++ [b "b"]) == W2.get (F ++ [b "b"]) && s.get (F ++ [b "b", b "x"]) == W2.get (F ++ [b "b", b "x"]) &&
      s.get (I ++ [bN]) == W2.get (I ++ [bN])) ||
   (s.get [b "home", b "b"] == W2.get (F ++ [b "b"]) && s.get [b "home", b "b", b "x"] == W2.get (F ++ [b "b", b "x"]) &&
      s.get (F ++ [b "b"]) == none && s.get (F ++ [b "b", b "x"]) == none)) &&
  ((s.get (F ++ [b "a"]) == W2.get (F ++ [b "a"]) && s.get (I ++ [aN]) == W2.get (I ++ [aN])) ||
   (s.get [b "home", b "a"] == W2.get (F ++ [b "a"]) && s.get (F ++ [b "a"]) == none))

def t : Bool := true
def f : Bool := false

theorem eval2 :
    states.map summary =
      [[t, t, t, f, f, t, t, f],
       [f, f, t, t, t, t, t, f],
       [f, f, f, t, t, t, t, f],
       [f, f, f, t, t, f, t, t],
       [f, f, f, t, t, f, f, t]] ∧
    states.all whole = true ∧
    (restoreS rc op (b "0-1") W2).1.exit = 0 ∧
    (restoreS rc op (b "0-1") W2).2.trace.map (·.1) =
      [.unlink (I ++ [aN]), .rename (F ++ [b "a"]) [b "home", b "a"],
       .unlink (I ++ [bN]), .rename (F ++ [b "b"]) [b "home", b "b"]] := by decide +kernel

def offeredS (fs : FS) : List Entry :=
  sortEntriesS op.sort ((restoreEntriesS fs rc op).filter fun e => inScope (scopeOf rc op) e.loc)

theorem offeredS_eq (fs : FS) : offered fs rc op = offeredS fs := offered_twin fs rc op

/-- the crash state with the entry `b` IN FLIGHT (payload at `/home/b`, `b.trashinfo` still in `info/`) -/
def midB : FS := states.getD 1 W2
/-- the crash state BETWEEN the two entries (`b` restored, `a` untouched) -/
def finB : FS := states.getD 2 W2

/-- re-running `trash-restore` on these two states -/
theorem rerun_eval :
    -- between two entries: only `a` is offered; reply "0" finishes the job: the final state of the uninterrupted run
    (offeredS finB).map (·.loc) = [b "/home/a"] ∧
    (restoreS rc op (b "0") finB).1.exit = 0 ∧
    (restoreS rc op (b "0") finB).2.fs.toList = (restoreS rc op (b "0-1") W2).2.fs.toList ∧
    -- `b` in flight: `b` is STILL offered (its info file is there); choosing it is refused and ends the run before `a`
    (offeredS midB).map (·.loc) = [b "/home/b", b "/home/a"] ∧
    (restoreS rc op (b "0-1") midB).1.exit = 1 ∧ (restoreS rc op (b "0-1") midB).2.trace.length = 0 ∧
    (restoreS rc op (b "0-1") midB).2.fs.toList = midB.toList ∧
    -- … choosing only `a` restores `a`; the orphan `b.trashinfo` stays, the payload of `b` is whole at `/home/b`
    (restoreS rc op (b "1") midB).1.exit = 0 ∧
    ((restoreS rc op (b "1") midB).2.fs.get [b "home", b "a"]).isSome = true ∧
    (restoreS rc op (b "1") midB).2.fs.get (I ++ [bN]) = W2.get (I ++ [bN]) ∧
    (restoreS rc op (b "1") midB).2.fs.get [b "home", b "b", b "x"] = W2.get (F ++ [b "b", b "x"]) ∧
    -- … and with `--overwrite` the `rename` of the vanished payload fails: exit status 1, `/home/b` survives
    (restoreS rc { op with overwrite := true } (b "0") midB).1.exit = 1 ∧
    (restoreS rc { op with overwrite := true } (b "0") midB).2.fs.get [b "home", b "b", b "x"] = W2.get (F ++ [b "b", b "x"]) := by
  decide +kernel

theorem states_idx : states[1]? = some midB ∧ states[2]? = some finB := by
  have h : states.length = 5 := by decide +kernel
  unfold midB finB
  constructor <;> rw [List.getD_eq_getElem?_getD, List.getElem?_eq_getElem (by rw [h]; decide)] <;> rfl

end TrashVerif.Proofs.C15SeqEx
