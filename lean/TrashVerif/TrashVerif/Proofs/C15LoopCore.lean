/-
  Proofs/C15LoopCore.lean — tools for the loop-level crash theorems of C15 (Props/C15Loop.lean):
  the states of a fault-free run decomposed along `>>=`, what every state of a run of removal calls
  keeps, and the crash invariant of one entry from an arbitrary run state.
-/
import TrashVerif.Props.C15LoopDefs
import TrashVerif.Proofs.C10Loop
namespace TrashVerif.Proofs.C15Loop
open TrashVerif Prog FS PutCore PutLemmas C04 C11 C09Hist C10Loop C19Cmd C15Loop
open TrashVerif.Proofs.C09Hist (GeoI)
open TrashVerif.Proofs.C15 (G removeIfExists_okGone)
open TrashVerif.Proofs.C10Loop

/-! ### the states of a run -/

/-- `x` is a state of the run `r` (its final one, or one before a call) -/
def St {α} (r : α × RunState) (x : FS) : Prop := x = r.2.fs ∨ x ∈ r.2.hist

/-- every state of the run `r` that is not one of `s` already satisfies `J` -/
def All {α} (r : α × RunState) (s : RunState) (J : FS → Prop) : Prop :=
  J r.2.fs ∧ ∀ x ∈ r.2.hist, x ∈ s.hist ∨ J x

theorem All.st {α} {r : α × RunState} {s : RunState} {J : FS → Prop} (h : All r s J) {x : FS} (hx : St r x) :
    x ∈ s.hist ∨ J x := by
  rcases hx with rfl | hx
  · exact Or.inr h.1
  · exact h.2 x hx

theorem All.mono {α} {r : α × RunState} {s : RunState} {J J' : FS → Prop} (h : All r s J) (hJ : ∀ x, J x → J' x) :
    All r s J' :=
  ⟨hJ _ h.1, fun x hx => (h.2 x hx).imp id (hJ x)⟩

theorem All.and {α} {r : α × RunState} {s : RunState} {J J' : FS → Prop} (h : All r s J) (h' : All r s J') :
    All r s fun x => J x ∧ J' x := by
  refine ⟨⟨h.1, h'.1⟩, fun x hx => ?_⟩
  rcases h.2 x hx with a | a
  · exact Or.inl a
  · rcases h'.2 x hx with c | c
    · exact Or.inl c
    · exact Or.inr ⟨a, c⟩

/-- the states of a program run from the end of another run -/
theorem All.seq {α β} {r1 : α × RunState} {r2 : β × RunState} {s : RunState} {J : FS → Prop}
    (h1 : All r1 s J) (h2 : All r2 r1.2 J) : All r2 s J := by
  refine ⟨h2.1, fun x hx => ?_⟩
  rcases h2.2 x hx with a | a
  · exact h1.2 x a
  · exact Or.inr a

theorem all_of_iss {α} (φ : Oracle) {K : Call → Prop} (J : FS → Prop)
    (hK : ∀ c, K c → ∀ fs fs', J fs → c.apply fs = .ok fs' → J fs') (p : Prog α) (s : RunState)
    (hp : Iss InvT K p) (hJ : J s.fs) : All (run φ p s) s J :=
  Iss.inv φ J hK p s hp hJ

theorem all_pure {α} (φ : Oracle) (a : α) (s : RunState) {J : FS → Prop} (hJ : J s.fs) :
    All (run φ (pure a : Prog α) s) s J := ⟨hJ, fun _ hx => Or.inl hx⟩

theorem mem_crashStates_iff {α} {φ : Oracle} {p : Prog α} {fs x : FS} :
    x ∈ crashStates φ p fs ↔ St (run φ p { fs := fs }) x := by
  unfold crashStates St
  simp only [List.mem_reverse, List.mem_cons]

theorem all_crashStates {α} {φ : Oracle} {p : Prog α} {fs : FS} {J : FS → Prop}
    (h : All (run φ p { fs := fs }) { fs := fs } J) : ∀ x ∈ crashStates φ p fs, J x := by
  intro x hx
  rcases h.st (mem_crashStates_iff.1 hx) with a | a
  · cases a
  · exact a

/-! ### fault-free runs: the new states depend on the file system only -/

theorem run_nf {α} (p : Prog α) : ∀ s : RunState,
    (run noFaults p s).1 = (run noFaults p { fs := s.fs }).1 ∧
    (run noFaults p s).2.fs = (run noFaults p { fs := s.fs }).2.fs ∧
    (run noFaults p s).2.hist = (run noFaults p { fs := s.fs }).2.hist ++ s.hist := by
  induction p with
  | ret a => intro s; exact ⟨rfl, rfl, rfl⟩
  | get k ih => intro s; simp only [run]; exact ih _ s
  | emit o k ih =>
    intro s
    simp only [run]
    have a := ih { s with outs := o :: s.outs }
    have c := ih { ({ fs := s.fs } : RunState) with outs := [o] }
    exact ⟨a.1.trans c.1.symm, a.2.1.trans c.2.1.symm, by rw [a.2.2, c.2.2]; simp⟩
  | call c k ih =>
    intro s
    simp only [run, noFaults]
    split
    · next fs' _ =>
      have a := ih (.ok ()) { s with fs := fs', hist := s.fs :: s.hist, trace := (c, .ok ()) :: s.trace, n := s.n + 1 }
      have d := ih (.ok ()) { ({ fs := s.fs } : RunState) with fs := fs', hist := [s.fs], trace := [(c, .ok ())], n := 1 }
      exact ⟨a.1.trans d.1.symm, a.2.1.trans d.2.1.symm, by rw [a.2.2, d.2.2]; simp⟩
    · next e _ =>
      have a := ih (.error e) { s with hist := s.fs :: s.hist, trace := (c, .error e) :: s.trace, n := s.n + 1 }
      have d := ih (.error e) { ({ fs := s.fs } : RunState) with hist := [s.fs], trace := [(c, .error e)], n := 1 }
      exact ⟨a.1.trans d.1.symm, a.2.1.trans d.2.1.symm, by rw [a.2.2, d.2.2]; simp⟩

/-- the states of a fault-free run from `s`: those of `s`, and the crash states from `s.fs` -/
theorem st_nf {α} (p : Prog α) (s : RunState) (x : FS) :
    St (run noFaults p s) x ↔ x ∈ s.hist ∨ x ∈ crashStates noFaults p s.fs := by
  obtain ⟨_, h2, h3⟩ := run_nf p s
  rw [mem_crashStates_iff]
  unfold St
  rw [h2, h3, List.mem_append]
  constructor
  · rintro (h | h | h)
    · exact Or.inr (Or.inl h)
    · exact Or.inr (Or.inr h)
    · exact Or.inl h
  · rintro (h | h | h)
    · exact Or.inr (Or.inr h)
    · exact Or.inl h
    · exact Or.inr (Or.inl h)

theorem hist_mono {α} (φ : Oracle) (p : Prog α) : ∀ (s : RunState), ∀ x ∈ s.hist, x ∈ (run φ p s).2.hist := by
  induction p with
  | ret a => intro s x hx; exact hx
  | get k ih => intro s x hx; simp only [run]; exact ih _ s x hx
  | emit o k ih => intro s x hx; simp only [run]; exact ih _ x hx
  | call c k ih =>
    intro s x hx
    simp only [run]
    split
    · exact ih _ _ x (List.mem_cons_of_mem _ hx)
    · exact ih _ _ x (List.mem_cons_of_mem _ hx)

theorem st_init {α} (φ : Oracle) (p : Prog α) : ∀ s : RunState, St (run φ p s) s.fs := by
  induction p with
  | ret a => intro s; exact Or.inl rfl
  | get k ih => intro s; simp only [run]; exact ih _ s
  | emit o k ih => intro s; simp only [run]; exact ih _
  | call c k ih =>
    intro s
    right
    simp only [run]
    split
    · exact hist_mono φ _ _ _ List.mem_cons_self
    · exact hist_mono φ _ _ _ List.mem_cons_self

/-- the initial state is a crash state -/
theorem init_mem_crashStates {α} (φ : Oracle) (p : Prog α) (fs : FS) : fs ∈ crashStates φ p fs :=
  mem_crashStates_iff.2 (st_init φ p { fs := fs })

/-! ### what every state of a run of removal calls keeps -/

/-- what removal calls — whichever — keep of a state -/
structure Sub (fs x : FS) : Prop where
  mounts : x.mounts = fs.mounts
  wf : DomWf fs → DomWf x
  tree : ∀ P, G P fs → G P x
  shr : Shr fs x

theorem Sub.refl (fs : FS) : Sub fs fs := ⟨rfl, id, fun _ h => h, Shr.refl fs⟩

theorem sub_keep (a : FS) {A : CPath → Prop} :
    ∀ c, KR A c → ∀ fs fs', Sub a fs → c.apply fs = .ok fs' → Sub a fs' := by
  intro c hc fs fs' hj h
  refine ⟨?_, fun hw => ?_, fun P hG => Proofs.C15.G_keep P c hc fs fs' (hj.tree P hG) h, shr_keep a c hc fs fs' hj.shr h⟩
  · obtain ⟨r, _, rfl, _⟩ := apply_rm hc h
    rw [mounts_rm]; exact hj.mounts
  · obtain ⟨r, _, rfl, _⟩ := apply_rm hc h
    exact Proofs.C09Hist.domwf_touchDir _ (Proofs.C09Hist.domwf_removeNode _ (hj.wf hw))

theorem all_sub {α} (φ : Oracle) {A : CPath → Prop} {X : Prog α} (hX : Iss InvT (KR A) X) (s : RunState) :
    All (run φ X s) s (Sub s.fs) :=
  all_of_iss φ (Sub s.fs) (sub_keep s.fs) X s hX (Sub.refl _)

theorem step_call {I F : CPath} (g : GeoI I F) (n : Bytes) {c : Call} (hc : KR (EP I F n) c) {a a' : FS}
    (h : c.apply a = .ok a') : Step I F n a a' := by
  have := step_of_iss g n noFaults (X := sys c) (Iss.sys hc) { fs := a }
  rw [run_sys_ok h] at this
  exact this

theorem all_step {α} {I F : CPath} (g : GeoI I F) (n : Bytes) (φ : Oracle) {X : Prog α}
    (hX : Iss InvT (KR (EP I F n)) X) (s : RunState) : All (run φ X s) s (Step I F n s.fs) :=
  all_of_iss φ (Step I F n s.fs) (fun _ hc _ _ hj h => hj.trans (step_call g n hc h)) X s hX (Step.refl _ _ _ _)

/-! ### the calls of the loops -/

theorem iss_any {α} {A : CPath → Prop} {X : Prog α} (h : Iss InvT (KR A) X) : Iss InvT (KR fun _ => True) X :=
  Iss.mono (fun _ => KR.mono fun _ _ => trivial) h

theorem iss_emptyPathR_any (o : EmptyOpts) (path : Bytes) (p : Except Errno CPath) :
    Iss InvT (KR fun _ => True) (emptyPathR o path p) := by
  have core : Iss InvT (KR fun _ => True) (removeIfExistsR p >>= fun r => match r with
      | .ok () => (pure () : Prog Unit)
      | .error _ => say (.stderr "cannot-remove" path)) := by
    refine Iss.bind ?_ fun r => ?_
    · unfold removeIfExistsR
      split
      · exact iss_any (iss_removeIfExists _)
      · exact Iss.pure _
    · split
      · exact Iss.pure _
      · exact trivial
  unfold emptyPathR
  split
  · exact trivial
  · split
    · exact core
    · exact core

theorem iss_emptyInfos_any (cwd : CPath) (o : EmptyOpts) : ∀ l : List Bytes,
    Iss InvT (KR fun _ => True) (emptyInfos cwd o l) := by
  intro l
  induction l with
  | nil => exact trivial
  | cons i rest ih =>
    rw [emptyInfos]
    refine Iss.read_bind fun fs _ => ?_
    split
    · exact trivial
    · exact ih
    · exact Iss.bind (iss_emptyPathR_any o _ _) fun _ => Iss.bind (iss_emptyPathR_any o _ _) fun _ => ih

theorem iss_purgePair_any (p q : Except Errno CPath) : Iss InvT (KR fun _ => True) (purgePair p q) := by
  unfold purgePair removeIfExistsR removeFile2R
  refine Iss.bind ?_ fun r => ?_
  · split
    · exact iss_any (iss_removeIfExists _)
    · exact Iss.pure _
  · split
    · exact Iss.pure _
    · split
      · exact iss_any (iss_removeFile2 _)
      · exact Iss.pure _

theorem iss_rmInfos_any (cwd : CPath) (pattern volume : Bytes) : ∀ l : List Bytes,
    Iss InvT (KR fun _ => True) (rmInfos cwd pattern volume l) := by
  intro l
  induction l with
  | nil => exact trivial
  | cons i rest ih =>
    rw [rmInfos]
    refine Iss.read_bind fun fs _ => ?_
    split
    · exact ih
    · split
      · exact ih
      · split
        · exact trivial
        · exact ih
        · refine Iss.bind (iss_purgePair_any _ _) fun r => ?_
          split
          · exact trivial
          · exact ih

/-! ### one entry: the info file is removed last, from any run state, under every oracle -/

theorem purge_all (φ : Oracle) (P Iq : CPath) (h : ¬ P <+: Iq) (hp : Iq ≠ parent P) (s : RunState) :
    All (run φ (purgePair (.ok P) (.ok Iq)) s) s (fun x => x.get Iq = s.fs.get Iq ∨ x.get P = none) := by
  have f1 : All (run φ (removeIfExists P) s) s (fun x => x.get Iq = s.fs.get Iq) :=
    frame_U φ (iss_removeIfExists P) s h hp
  have g1 := removeIfExists_okGone φ P s
  unfold purgePair removeIfExistsR removeFile2R
  rw [run_bind]
  generalize run φ (removeIfExists P) s = r1 at f1 g1
  obtain ⟨res, s1⟩ := r1
  cases res with
  | error e => exact f1.mono fun x hx => Or.inl hx
  | ok u =>
    have hgone : s1.fs.get P = none := g1 rfl
    have a2 := all_of_iss φ (fun x => x.get P = none) (none_keep P) _ s1 (iss_removeFile2 Iq) hgone
    exact All.seq (r1 := ((Except.ok u : Res), s1)) (f1.mono fun x hx => Or.inl hx) (a2.mono fun x hx => Or.inr hx)

/-! ### fault-free: the crash states along `>>=` -/

theorem crash_bind {α β} (p : Prog α) (f : α → Prog β) (a x : FS) :
    x ∈ crashStates noFaults (p >>= f) a ↔
      x ∈ crashStates noFaults p a ∨
      x ∈ crashStates noFaults (f (run noFaults p { fs := a }).1) (run noFaults p { fs := a }).2.fs := by
  have e1 : x ∈ crashStates noFaults (p >>= f) a ↔ x ∈ (run noFaults p { fs := a }).2.hist ∨
      x ∈ crashStates noFaults (f (run noFaults p { fs := a }).1) (run noFaults p { fs := a }).2.fs := by
    rw [mem_crashStates_iff, run_bind, st_nf]
  have e2 : x ∈ crashStates noFaults p a ↔ x = (run noFaults p { fs := a }).2.fs ∨ x ∈ (run noFaults p { fs := a }).2.hist :=
    mem_crashStates_iff
  rw [e1, e2]
  constructor
  · rintro (h | h)
    · exact Or.inl (Or.inr h)
    · exact Or.inr h
  · rintro ((h | h) | h)
    · rw [h]; exact Or.inr (init_mem_crashStates _ _ _)
    · exact Or.inl h
    · exact Or.inr h

/-- the states of the removal of the payload are states of the purge of the entry -/
theorem crash_purge_payload (P Iq : CPath) (a x : FS) (h : x ∈ crashStates noFaults (removeIfExists P) a) :
    x ∈ crashStates noFaults (purgePair (.ok P) (.ok Iq)) a := by
  unfold purgePair removeIfExistsR removeFile2R
  exact (crash_bind _ _ a x).2 (Or.inl h)

/-- … and so are, when that removal succeeds, the states of the removal of the info file -/
theorem crash_purge_info (P Iq : CPath) (a x : FS) (hok : (run noFaults (removeIfExists P) { fs := a }).1 = .ok ())
    (h : x ∈ crashStates noFaults (removeFile2 Iq) (run noFaults (removeIfExists P) { fs := a }).2.fs) :
    x ∈ crashStates noFaults (purgePair (.ok P) (.ok Iq)) a := by
  unfold purgePair removeIfExistsR removeFile2R
  refine (crash_bind _ _ a x).2 (Or.inr ?_)
  rw [hok]
  exact h

/-- `remove_file_if_exists` passes through no state that `remove_file2` does not -/
theorem crash_ifExists_sub (q : CPath) (a x : FS) (h : x ∈ crashStates noFaults (removeIfExists q) a) :
    x ∈ crashStates noFaults (removeFile2 q) a := by
  rw [mem_crashStates_iff] at h ⊢
  unfold removeIfExists at h
  rw [run_read_bind] at h
  split at h
  · exact h
  · rcases h with h | h
    · rw [h]; exact st_init _ _ _
    · cases h

theorem run_nf_congr {α} (p : Prog α) {s s' : RunState} (h1 : s.fs = s'.fs) (h2 : s.hist = s'.hist) :
    (run noFaults p s).1 = (run noFaults p s').1 ∧ (run noFaults p s).2.fs = (run noFaults p s').2.fs ∧
    (run noFaults p s).2.hist = (run noFaults p s').2.hist := by
  obtain ⟨a1, a2, a3⟩ := run_nf p s
  obtain ⟨c1, c2, c3⟩ := run_nf p s'
  rw [a1, a2, a3, c1, c2, c3, h1, h2]
  exact ⟨rfl, rfl, rfl⟩

/-- `emptyPathR` passes through the states of `remove_file_if_exists` (the messages aside) -/
theorem emptyPathR_hist (o : EmptyOpts) (hdry : o.dryRun = false) (path : Bytes) (p : CPath) (s : RunState) :
    (run noFaults (emptyPathR o path (.ok p)) s).2.hist = (run noFaults (removeIfExists p) s).2.hist := by
  have tail : ∀ s' : RunState, s'.fs = s.fs → s'.hist = s.hist →
      (run noFaults (removeIfExistsR (.ok p) >>= fun r => match r with
        | .ok () => (pure () : Prog Unit)
        | .error _ => say (.stderr "cannot-remove" path)) s').2.hist = (run noFaults (removeIfExists p) s).2.hist := by
    intro s' h1 h2
    rw [run_bind]
    have h := (run_nf_congr (removeIfExists p) h1 h2).2.2
    show (run noFaults (match (run noFaults (removeIfExists p) s').1 with
        | .ok () => (pure () : Prog Unit)
        | .error _ => say (.stderr "cannot-remove" path)) (run noFaults (removeIfExists p) s').2).2.hist = _
    split
    · exact h
    · exact h
  unfold emptyPathR
  rw [if_neg (by simp [hdry])]
  by_cases hv : o.verbose > 0
  · simp only [hv, if_true]
    rw [run_bind, run_say]
    exact tail _ rfl rfl
  · simp only [hv, if_false]
    exact tail s rfl rfl

/-- the states trash-empty passes through while it handles one entry whose payload is a well-formed
    tree are states of the purge of that entry (`purgePair`) -/
theorem emptyPair_hist (o : EmptyOpts) (hdry : o.dryRun = false) (pstr istr : Bytes) (P Iq : CPath) (s : RunState)
    (hG : G P s.fs) :
    ∀ x ∈ (run noFaults (emptyPathR o istr (.ok Iq)) (run noFaults (emptyPathR o pstr (.ok P)) s).2).2.hist,
      x ∈ s.hist ∨ x ∈ crashStates noFaults (purgePair (.ok P) (.ok Iq)) s.fs := by
  intro x hx
  rw [emptyPathR_hist o hdry] at hx
  have e1 := emptyPathR_fs o hdry pstr P s
  have e2 := emptyPathR_hist o hdry pstr P s
  rcases (st_nf (removeIfExists Iq) _ x).1 (Or.inr hx) with h | h
  · rw [e2] at h
    rcases (st_nf (removeIfExists P) s x).1 (Or.inr h) with h' | h'
    · exact Or.inl h'
    · exact Or.inr (crash_purge_payload P Iq _ x h')
  · rw [e1, (run_nf (removeIfExists P) s).2.1] at h
    refine Or.inr (crash_purge_info P Iq _ x ?_ (crash_ifExists_sub Iq _ x h))
    rw [← (run_nf (removeIfExists P) s).1]
    exact (removeIfExists_all_gone P s hG).1

end TrashVerif.Proofs.C15Loop
